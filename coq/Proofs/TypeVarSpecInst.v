(* C07: whole calls on an instance Cls[xs] against the executable specification
   call_spec ctx (xenv_of ids xs):  Must => accepted,  MustNot => rejected (xs plain classes: K5d),
   for every stored table - hence, with Proofs/TypeVarHistory.v, after every history.             *)
From Coq Require Import List Arith Bool ZArith Lia.
From PV Require Import Base.Exn Base.Values Base.Ann Model.CheckerCfg Model.Checker Model.GenericInstance
  Spec.Conforms Spec.TypeVarSpec Proofs.CheckerGood Proofs.CheckerRefine Proofs.CheckerSpec Proofs.CheckerTop
  Proofs.TypeVarFrame Proofs.TypeVarTC Proofs.TypeVarCall Proofs.TypeVarHistory Proofs.TypeVarSpecLink Proofs.TypeVarInst.
Import ListNotations.

(* nested matches are never `bare` *)
Lemma nested_not_bare : forall a v p, In p (matched false a v) -> mp_bare p = false.
Proof.
  induction a using ann_ind'; intros v p Hp; try (now destruct Hp).
  - (* Union *)
    cbn [matched] in Hp. destruct (existsb _ args); [destruct Hp|].
    destruct (filter is_tv args) as [|x [|? ?]] eqn:Ef.
    + destruct (Nat.eqb (List.length (filter generic_tv_member args)) 1); [|destruct Hp].
      apply in_flat_map in Hp as [m [Hm Hp]]. destruct (generic_tv_member m); [|destruct Hp].
      rewrite Forall_forall in H. eapply H; eassumption.
    + assert (Hx : In x (filter is_tv args)) by (rewrite Ef; now left). apply filter_In in Hx as [_ Hi].
      destruct x; try discriminate Hi. destruct Hp as [<-|[]]. reflexivity.
    + destruct x; destruct Hp.
  - (* Generic *)
    rewrite Forall_forall in H. cbn [matched] in Hp.
    destruct (origin_kind o).
    + destruct args as [|a0 [|? ?]]; try (now destruct Hp).
      destruct (abc_instance o (class_of v)); [|destruct Hp]. destruct (iter_values v); [|destruct Hp].
      apply in_flat_map in Hp as [x [_ Hp]]. eapply H; [now left|eassumption].
    + destruct args as [|ka [|va [|? ?]]]; try (now destruct Hp).
      destruct (abc_instance o (class_of v)); [|destruct Hp]. destruct (items_of v); [|destruct Hp].
      apply in_flat_map in Hp as [kv [_ Hp]].
      apply in_app_or in Hp as [Hp|Hp]; (eapply H; [|eassumption]); simpl; auto.
    + destruct args as [|ka [|va [|? ?]]]; try (now destruct Hp).
      destruct (pairs_of v); [|destruct Hp].
      apply in_flat_map in Hp as [kv [_ Hp]].
      apply in_app_or in Hp as [Hp|Hp]; (eapply H; [|eassumption]); simpl; auto.
    + destruct v; try (now destruct Hp). destruct (Nat.eqb (List.length l) (List.length args)); [|destruct Hp].
      revert l Hp. induction args as [|a0 args IHa]; intros l Hp; [destruct l; destruct Hp|].
      destruct l as [|v0 l]; [destruct Hp|]. apply in_app_or in Hp as [Hp|Hp].
      * eapply H; [now left|eassumption].
      * apply (IHa (fun x Hx => H x (or_intror Hx)) l Hp).
    + destruct args; destruct Hp.
    + destruct args; destruct Hp.
  - (* TupleVar *)
    cbn [matched] in Hp. destruct v; try (now destruct Hp).
    apply in_flat_map in Hp as [x [_ Hp]]. eapply IHa; eassumption.
  - (* TypeVar *)
    destruct Hp as [<-|[]]. reflexivity.
Qed.

Lemma bare_only_top a v p : In p (matched true a v) -> mp_bare p = true -> matched true a v = [p].
Proof.
  intros Hp Hb. destruct a; try (now destruct Hp);
    try (match type of Hp with In _ (matched true ?a0 _) => rewrite (nested_not_bare a0 v p Hp) in Hb; discriminate Hb end).
  destruct Hp as [<-|[]]. reflexivity.
Qed.

Lemma all_same_in l : all_same l = true -> forall x y, In x l -> In y l -> x = y.
Proof.
  destruct l as [|c cs]; [intros _ x y []|]. simpl. intro H. rewrite forallb_forall in H.
  assert (Hc : forall x, In x (c :: cs) -> x = c).
  { intros x [<-|Hx]; [reflexivity|]. symmetry. apply cls_eqb_eq. now apply H. }
  intros x y Hx Hy. now rewrite (Hc x Hx), (Hc y Hy).
Qed.

Lemma nodup_ids_incl : forall l i, In i (nodup_ids l) -> In i l.
Proof.
  induction l as [|x l IH]; intros i Hi; [destruct Hi|]. simpl in Hi. destruct Hi as [<-|Hi]; [now left|].
  apply filter_In in Hi as [Hi _]. right. now apply IH.
Qed.

Lemma xenv_x_of : forall ids xs i, xenv_of ids xs i = x_of ids xs i.
Proof. induction ids as [|j ids IH]; intros [|x xs] i; try reflexivity. simpl. destruct (Nat.eqb j i); [reflexivity|apply IH]. Qed.

Lemma zip_av_snoc : forall ps vs a v, List.length ps = List.length vs ->
  zip_av (ps ++ [a]) (vs ++ [v]) = zip_av ps vs ++ [(a, v)].
Proof.
  induction ps as [|b ps IH]; intros [|w vs] a v Hl; try discriminate; [reflexivity|].
  simpl. f_equal. apply IH. now inversion Hl.
Qed.

Section SpecInst.
  Variable cfg : checker_cfg.
  Hypothesis good : good_facts cfg.
  Hypothesis Hub : un_bound_uses_result cfg = true.
  Variable ctx : nat -> option cls.
  Let hook := is_inst0 cfg ctx.
  Notation AM := (assert_matches cfg ctx hook).
  Notation R ids xs := (refresh_of (KGeneric ids) (Some xs)).

  Lemma x_accepts_of_conforms x w : supported_in ctx x = true -> conforms ctx x w = Must -> x_accepts cfg ctx x w.
  Proof.
    intros Hs Hm. unfold x_accepts.
    destruct (chk_agrees cfg good ctx x Hs w) as [Ht _]. specialize (Ht Hm).
    destruct x; try discriminate Hs;
      try (cbn [bind_of]; unfold is_inst0; rewrite (is_inst_refines cfg good ctx no_hook _ Hs w []); cbn [fst]; now rewrite Ht).
    cbn [bind_of]. exact Ht.
  Qed.

  (* ---- sequences of positions with an arbitrary way of obtaining the table ---------------------------- *)
  Section Seq.
    Variable RF : tvenv -> tvenv.

    Lemma seq_all_accept : forall ps vs, List.length ps = List.length vs ->
      (forall a v, In (a, v) (zip_av ps vs) -> forall tb, fst (AM a v (RF tb)) = Ok tt) ->
      forall tb, exists t, check_seq cfg ctx RF ps vs tb = (Ok tt, t).
    Proof.
      induction ps as [|a ps IH]; intros [|v vs] Hl H tb; try discriminate; [simpl; eauto|].
      cbn [check_seq]. change (amatch cfg ctx a v) with (AM a v).
      pose proof (H a v (or_introl eq_refl) tb) as Ha.
      destruct (AM a v (RF tb)) as [[[]|e] t1]; [|discriminate Ha].
      apply IH; [now inversion Hl|]. intros b w Hb. apply H. now right.
    Qed.

    Lemma seq_accept_inv : forall ps vs tb t, check_seq cfg ctx RF ps vs tb = (Ok tt, t) ->
      forall a v, In (a, v) (zip_av ps vs) -> exists tb', fst (AM a v (RF tb')) = Ok tt.
    Proof.
      induction ps as [|a ps IH]; intros [|v vs] tb t H b w Hb; try (now destruct Hb).
      cbn [check_seq] in H. change (amatch cfg ctx a v) with (AM a v) in H.
      destruct (AM a v (RF tb)) as [[[]|e] t1] eqn:E; [|discriminate H].
      destruct Hb as [Hb|Hb]; [inversion Hb; subst; exists tb; now rewrite E|]. eapply IH; eassumption.
    Qed.

    Lemma call_all_accept sg args ret : List.length (ms_params sg) = List.length args ->
      (forall a v, In (a, v) (zip_av (sig_positions sg) (args ++ [ret])) -> forall tb, fst (AM a v (RF tb)) = Ok tt) ->
      forall tb, fst (run_call cfg ctx RF sg args ret tb) = Ok tt.
    Proof.
      intros Hl H tb. unfold sig_positions in H. rewrite zip_av_snoc in H by assumption. unfold run_call.
      destruct (seq_all_accept (ms_params sg) args Hl (fun a v Hin => H a v (in_or_app _ _ _ (or_introl Hin))) tb) as [t ->].
      change (amatch cfg ctx (ms_ret sg) ret) with (AM (ms_ret sg) ret).
      apply H. apply in_or_app. right. now left.
    Qed.

    Lemma call_accept_inv sg args ret tb : List.length (ms_params sg) = List.length args ->
      fst (run_call cfg ctx RF sg args ret tb) = Ok tt ->
      forall a v, In (a, v) (zip_av (sig_positions sg) (args ++ [ret])) -> exists tb', fst (AM a v (RF tb')) = Ok tt.
    Proof.
      intros Hl Hacc a v Hin. unfold sig_positions in Hin. rewrite zip_av_snoc in Hin by assumption. unfold run_call in Hacc.
      destruct (check_seq cfg ctx RF (ms_params sg) args tb) as [[[]|e] t] eqn:E; [|discriminate Hacc].
      apply in_app_or in Hin as [Hin|[Hin|[]]].
      - eapply seq_accept_inv; eassumption.
      - inversion Hin; subst. exists t. exact Hacc.
    Qed.
  End Seq.

  (* ---- the hypotheses shared by both directions ------------------------------------------------------------ *)
  Variables (ids : list nat) (xs : list ann) (sg : msig) (args : list value) (ret : value).
  Hypothesis Hw : well_formed_inst ids xs.
  Hypothesis Hn : nested_method ids sg = true.
  Hypothesis Hl : List.length (ms_params sg) = List.length args.
  Hypothesis Hsup : erased_supported ctx sg.
  Hypothesis Hid : tvars_by_id (ms_of sg args ret).
  Hypothesis Hcov : forall p, In p (ms_of sg args ret) -> tv_contravariant (mp_tv p) = false.

  Let positions := sig_positions sg.
  Let vals := args ++ [ret].
  Let ms := ms_of sg args ret.
  Let pv := zip_av positions vals.

  Lemma len_pv : List.length positions = List.length vals.
  Proof. unfold positions, vals, sig_positions. rewrite !app_length. simpl. lia. Qed.

  Lemma pos_nested a v : In (a, v) pv -> nested_ok ids a = true.
  Proof. intro H. unfold nested_method in Hn. rewrite forallb_forall in Hn. apply Hn. eapply zip_av_in; exact H. Qed.

  Lemma in_ms a v p : In (a, v) pv -> In p (matched true a v) -> In p ms.
  Proof.
    intros Hav Hp. unfold ms, ms_of. rewrite <- traces_flat. apply in_flat_map. exists (a, v). split; [exact Hav|exact Hp].
  Qed.

  Lemma ms_in p : In p ms -> exists a v, In (a, v) pv /\ In p (matched true a v).
  Proof.
    unfold ms, ms_of. rewrite <- traces_flat. intro H. apply in_flat_map in H as [[a v] [H1 H2]]. eauto.
  Qed.

  Lemma id_in_ids p : In p ms -> In (tv_id (mp_tv p)) ids.
  Proof. intro Hp. destruct (ms_in p Hp) as [a [v [Hav Hm]]]. eapply nested_ids; [eapply pos_nested; eassumption|eassumption]. Qed.

  Definition ispec : verdict := call_spec ctx (xenv_of ids xs) positions vals.

  Lemma ispec_unfold :
    ispec =
    all3 (all3 (map (fun p => conforms ctx (erase (fst p)) (snd p)) pv)
          :: Must
          :: map (fun i => match first_tv ms i with
                           | None => Must
                           | Some t => match x_of ids xs i with
                                       | Some x => inst_rule ctx x t (filter (fun p => Nat.eqb (tv_id (mp_tv p)) i) ms)
                                       | None => call_rule t (map mp_val (filter (fun p => Nat.eqb (tv_id (mp_tv p)) i) ms))
                                       end
                           end) (nodup_ids (map (fun p => tv_id (mp_tv p)) ms))).
  Proof.
    unfold ispec, call_spec. rewrite len_pv, Nat.eqb_refl. simpl negb. cbv iota.
    assert (Hv : forallb tv_vocab positions = true).
    { unfold nested_method in Hn. rewrite forallb_forall in *. intros a Ha. specialize (Hn a Ha). now apply andb_true_iff in Hn as [H _]. }
    fold positions in Hv. rewrite Hv. unfold ms, ms_of. rewrite <- traces_flat. fold positions vals pv.
    f_equal. f_equal. f_equal. apply map_ext. intro i. now rewrite xenv_x_of.
  Qed.

  (* ---- Must => accepted --------------------------------------------------------------------------------------- *)
  Hypothesis Hxs : forallb (supported_in ctx) xs = true.

  Theorem spec_instance_must_accepted : ispec = Must -> forall tb, fst (run_call cfg ctx (R ids xs) sg args ret tb) = Ok tt.
  Proof.
    intro Hspec. rewrite ispec_unfold in Hspec. pose proof (all3_must _ Hspec) as Hall. clear Hspec.
    apply call_all_accept; [assumption|]. fold positions vals pv. intros a v Hav tb.
    pose proof (pos_nested a v Hav) as Hna.
    set (P := fun i => match filter (fun q => Nat.eqb (tv_id (mp_tv q)) i) (matched true a v) with
                       | q0 :: _ => class_of (mp_val q0) | [] => CObject end).
    apply (inst_position_complete cfg good Hub ctx ids xs a v tb P Hw Hna).
    - apply (struct_of_conforms cfg good ctx); [apply Hsup; eapply zip_av_in; exact Hav|].
      pose proof (Hall _ (or_introl eq_refl)) as Hs. apply (all3_must _ Hs).
      apply in_map_iff. exists (a, v). split; [reflexivity|assumption].
    - intros p Hp. pose proof (in_ms a v p Hav Hp) as Hpm.
      set (i := tv_id (mp_tv p)).
      destruct Hw as [_ [Hlen _]]. destruct (x_of_some ids xs i Hlen (id_in_ids p Hpm)) as [x Hx].
      assert (Hent : inst_rule ctx x (mp_tv p) (filter (fun q => Nat.eqb (tv_id (mp_tv q)) i) ms) = Must).
      { assert (Hin : In i (nodup_ids (map (fun q => tv_id (mp_tv q)) ms))).
        { apply nodup_ids_in. apply in_map_iff. exists p. split; [reflexivity|assumption]. }
        pose proof (Hall _ (or_intror (or_intror (in_map _ _ _ Hin)))) as He. cbv beta in He.
        unfold i in He. rewrite (first_tv_mine ms p Hpm Hid) in He. fold i in He. now rewrite Hx in He. }
      set (mine := filter (fun q => Nat.eqb (tv_id (mp_tv q)) i) ms) in *.
      assert (Hpmine : In p mine) by (apply filter_In; split; [assumption|apply Nat.eqb_refl]).
      unfold inst_rule in Hent.
      destruct (all3 (map (fun q => conforms ctx x (mp_val q)) mine)) eqn:Ec; try discriminate Hent.
      destruct (forallb (fun q => tv_admits (mp_tv p) (mp_val q)) mine) eqn:Ea; [|discriminate Hent].
      simpl negb in Hent. cbv iota in Hent.
      repeat split.
      + rewrite forallb_forall in Ea. now apply Ea.
      + now apply Hcov.
      + (* the class every value of this TypeVar in this position has *)
        unfold P. fold i.
        assert (Hpf : In p (filter (fun q => Nat.eqb (tv_id (mp_tv q)) i) (matched true a v)))
          by (apply filter_In; split; [assumption|apply Nat.eqb_refl]).
        destruct (forallb mp_bare mine) eqn:Eb.
        * rewrite forallb_forall in Eb. rewrite (bare_only_top a v p Hp (Eb p Hpmine)). simpl. fold i. now rewrite Nat.eqb_refl.
        * destruct (all_same (map (fun q => class_of (mp_val q)) mine)) eqn:Es; [|discriminate Hent].
          destruct (filter (fun q => Nat.eqb (tv_id (mp_tv q)) i) (matched true a v)) as [|q0 rest] eqn:Ef; [destruct Hpf|].
          assert (Hq0 : In q0 mine).
          { assert (H0 : In q0 (q0 :: rest)) by now left. rewrite <- Ef in H0. apply filter_In in H0 as [H0 H1].
            apply filter_In. split; [eapply in_ms; eassumption|assumption]. }
          apply (all_same_in _ Es); apply in_map_iff; eauto.
      + intros x' Hx'. rewrite Hx in Hx'. inversion Hx'; subst x'.
        apply x_accepts_of_conforms.
        * rewrite forallb_forall in Hxs. apply Hxs. eapply x_of_in; eassumption.
        * apply (all3_must _ Ec). apply in_map_iff. exists p. split; [reflexivity|assumption].
  Qed.

  (* ---- MustNot => rejected (every X a plain class: K5d) ------------------------------------------------------- *)
  Hypothesis Hcls : forall x, In x xs -> exists c, x = ACls c.

  Theorem spec_instance_mustnot_rejected : ispec = MustNot -> forall tb, fst (run_call cfg ctx (R ids xs) sg args ret tb) <> Ok tt.
  Proof.
    intros Hspec tb Hacc. rewrite ispec_unfold in Hspec.
    destruct (all3_mustnot _ Hspec) as [y [Hy Hm]]. subst y.
    pose proof (call_accept_inv (R ids xs) sg args ret tb Hl Hacc) as Hinv. fold positions vals pv in Hinv.
    destruct Hy as [Hy|[Hy|Hy]]; [| discriminate |].
    - (* structure *)
      destruct (all3_mustnot _ Hy) as [z [Hz Hm]]. apply in_map_iff in Hz as [[a v] [Hc Hav]]. subst z. cbn [fst snd] in Hm.
      destruct (Hinv a v Hav) as [tb' Hacc'].
      pose proof (pos_nested a v Hav) as Hna. apply andb_true_iff in Hna as [Hv _].
      destruct (AM a v (R ids xs tb')) as [[[]|e] t1] eqn:E; [|discriminate Hacc'].
      destruct (position_acc cfg good Hub ctx hook true a v _ t1 Hv E) as [Hst _].
      apply (struct_not_of_conforms cfg good ctx a v); [apply Hsup; eapply zip_av_in; exact Hav|assumption|exact Hst].
    - (* a TypeVar *)
      apply in_map_iff in Hy as [i [He Hi]].
      pose proof (nodup_ids_incl _ _ Hi) as Hi'. apply in_map_iff in Hi' as [q [Hqi Hq]].
      destruct (first_tv ms i) as [t|] eqn:Ef; [|discriminate He].
      destruct Hw as [_ [Hlen _]].
      destruct (x_of_some ids xs i Hlen ltac:(rewrite <- Hqi; now apply id_in_ids)) as [x Hx]. rewrite Hx in He.
      destruct (Hcls x (x_of_in _ _ _ _ Hx)) as [c ->].
      unfold inst_rule in He.
      destruct (all3 (map (fun p => conforms ctx (ACls c) (mp_val p)) (filter (fun p => Nat.eqb (tv_id (mp_tv p)) i) ms))) eqn:Ec;
        try discriminate He.
      1: { repeat match type of He with context [if ?b then _ else _] => destruct b end; discriminate He. }
      destruct (all3_mustnot _ Ec) as [z [Hz Hm]]. apply in_map_iff in Hz as [p [Hc Hp]]. subst z.
      apply filter_In in Hp as [Hp Hpi]. apply Nat.eqb_eq in Hpi.
      destruct (ms_in p Hp) as [a [v [Hav Hpm]]]. destruct (Hinv a v Hav) as [tb' Hacc'].
      assert (Hinst : isinstance (mp_val p) c = true).
      { apply (inst_position_sound cfg good Hub ctx ids xs a v tb' i c Hw (pos_nested a v Hav) Hacc' Hx); try assumption.
        intros r Hr _. apply Hcov. eapply in_ms; eassumption. }
      cbn [conforms] in Hm. rewrite Hinst in Hm. discriminate Hm.
  Qed.
End SpecInst.
