(* Proofs about the retry loop family, for every configuration accepted by `cfg_good`,
   all attempts : Z, all exception predicates, all (infinite) outcome streams.          *)
From Coq Require Import List ZArith Bool Lia Arith.
From PV Require Import Base.Exn Model.RetrySem Model.RetryGroups Spec.RetrySpec.
Import ListNotations.
Open Scope Z_scope.

(* net effect of a handler made of logging, counter increments, sleeps and pass only *)
Fixpoint handler_effect (h : list hstmt) : option (Z * nat) :=
  match h with
  | [] => Some (0, 0%nat)
  | HLog :: h' | HPass :: h' => handler_effect h'
  | HIncr k :: h' => match handler_effect h' with Some (d, s) => Some (k + d, s) | None => None end
  | HSleep :: h' => match handler_effect h' with Some (d, s) => Some (d, S s) | None => None end
  | _ => None
  end.

Definition cfg_good (c : retry_cfg) : bool :=
  (rc_init c =? 1)
  && match rc_cmp c with CLt => true | _ => false end
  && match rc_catch c with CatchParam => true | _ => false end
  && match handler_effect (rc_handler c) with Some (d, s) => (d =? 1) && Nat.eqb s 1 | None => false end
  && match rc_after c with AfterCall => true | _ => false end
  && match rc_try_fwd c with FwdSame => true | _ => false end
  && match rc_after_fwd c with FwdSame => true | _ => false end.

Lemma filter_app_nl (a b : list event) : filter not_log (a ++ b) = filter not_log a ++ filter not_log b.
Proof. apply filter_app. Qed.

Lemma run_handler_simple :
  forall h a tr d s, handler_effect h = Some (d, s) ->
  exists tr', run_handler h a tr = (HFall (a + d), tr')
           /\ filter not_log tr' = filter not_log tr ++ repeat ESleep s.
Proof.
  induction h as [|st h IH]; intros a tr d s H; simpl in H.
  - inversion H; subst. exists tr. simpl. rewrite app_nil_r, Z.add_0_r. auto.
  - destruct st; simpl; try discriminate.
    + destruct (IH a (tr ++ [ELog]) d s H) as [tr' [E F]]. exists tr'. split; [exact E|].
      rewrite F, filter_app_nl. simpl. now rewrite app_nil_r.
    + destruct (handler_effect h) as [[d' s']|] eqn:E0; [|discriminate]. inversion H; subst.
      destruct (IH (a + k) tr d' s eq_refl) as [tr' [E F]]. exists tr'. split; [|exact F].
      rewrite E. f_equal. f_equal. lia.
    + destruct (handler_effect h) as [[d' s']|] eqn:E0; [|discriminate]. inversion H; subst.
      destruct (IH a (tr ++ [ESleep]) d s' eq_refl) as [tr' [E F]]. exists tr'. split; [exact E|].
      rewrite F, filter_app_nl. simpl. rewrite <- app_assoc. reflexivity.
    + destruct (IH a tr d s H) as [tr' [E F]]. exists tr'. auto.
Qed.

Section Good.
  Variable cfg : retry_cfg.
  Hypothesis good : cfg_good cfg = true.
  Variable attempts : Z.
  Variable listed : exn -> bool.
  Variable outs : nat -> oc.

  Local Ltac split_good :=
    let H := fresh in pose proof good as H; unfold cfg_good in H;
    repeat (apply andb_true_iff in H; destruct H as [H ?]).

  Lemma good_fields :
    rc_init cfg = 1 /\ rc_cmp cfg = CLt /\ rc_catch cfg = CatchParam /\
    handler_effect (rc_handler cfg) = Some (1, 1%nat) /\ rc_after cfg = AfterCall /\
    rc_try_fwd cfg = FwdSame /\ rc_after_fwd cfg = FwdSame.
  Proof.
    split_good.
    repeat split.
    - now apply Z.eqb_eq.
    - destruct (rc_cmp cfg); congruence.
    - destruct (rc_catch cfg); congruence.
    - destruct (handler_effect (rc_handler cfg)) as [[d s]|]; [|discriminate].
      match goal with Hx : (_ =? 1) && _ = true |- _ => apply andb_true_iff in Hx; destruct Hx as [Hd Hs] end.
      apply Z.eqb_eq in Hd. apply Nat.eqb_eq in Hs. now subst.
    - destruct (rc_after cfg); congruence.
    - destruct (rc_try_fwd cfg); congruence.
    - destruct (rc_after_fwd cfg); congruence.
  Qed.

  (* index of the invocation whose outcome is handed to the caller, starting the loop at
     invocation i with m iterations of the loop still permitted *)
  Definition last_idx (m i : nat) : nat :=
    match find_stop listed outs m i with Some k => k | None => (i + m)%nat end.

  Lemma find_stop_ge : forall m i k, find_stop listed outs m i = Some k -> (i <= k < i + m)%nat.
  Proof.
    induction m as [|m IH]; intros i k H; simpl in H; [discriminate|].
    destruct (stops listed (outs i)); [inversion H; lia|]. apply IH in H. lia.
  Qed.

  Lemma last_idx_ge m i : (i <= last_idx m i)%nat.
  Proof. unfold last_idx. destruct (find_stop listed outs m i) eqn:E; [apply find_stop_ge in E|]; lia. Qed.

  Lemma loop_good : forall fuel a i tr,
    a = Z.of_nat i + 1 -> (Z.to_nat (attempts - a) < fuel)%nat ->
    let m := Z.to_nat (attempts - a) in
    let r := loop cfg attempts listed outs fuel a i tr in
    fst r = RFrom (last_idx m i) /\
    filter not_log (snd r) = filter not_log tr ++ ECall FwdSame :: spec_trace_tail (last_idx m i - i).
  Proof.
    destruct good_fields as (Hinit & Hcmp & Hcatch & Hh & Hafter & Htf & Haf).
    induction fuel as [|fuel IH]; intros a i tr Ha Hfuel; [lia|].
    cbn zeta. cbn [loop]. rewrite Hcmp. cbn [cmp_eval].
    destruct (a <? attempts) eqn:Elt.
    - apply Z.ltb_lt in Elt.
      assert (Hm : Z.to_nat (attempts - a) = S (Z.to_nat (attempts - (a + 1)))) by lia.
      rewrite Htf. unfold last_idx. rewrite Hm. cbn [find_stop].
      destruct (outs i) as [|e] eqn:Eo; cbn [stops].
      + cbn [fst snd]. rewrite Nat.sub_diag. cbn [spec_trace_tail]. split; [reflexivity|].
        rewrite filter_app_nl. reflexivity.
      + unfold catches. rewrite Hcatch.
        destruct (listed e) eqn:El; cbn [negb].
        * destruct (run_handler_simple (rc_handler cfg) a (tr ++ [ECall FwdSame]) 1 1%nat Hh)
            as [tr2 [E F]].
          rewrite E.
          specialize (IH (a + 1) (S i) tr2 ltac:(lia) ltac:(lia)). cbn zeta in IH.
          destruct IH as [IH1 IH2]. unfold last_idx in IH1, IH2.
          replace (i + S (Z.to_nat (attempts - (a + 1))))%nat with (S i + Z.to_nat (attempts - (a + 1)))%nat by lia.
          set (j := match find_stop listed outs (Z.to_nat (attempts - (a + 1))) (S i) with Some k => k | None => (S i + Z.to_nat (attempts - (a + 1)))%nat end) in *.
          assert (Hj : (S i <= j)%nat).
          { subst j. destruct (find_stop listed outs (Z.to_nat (attempts - (a + 1))) (S i)) eqn:E2;
              [apply find_stop_ge in E2|]; lia. }
          split; [exact IH1|]. rewrite IH2, F, filter_app_nl. cbn [filter not_log repeat].
          rewrite <- !app_assoc. cbn [app]. f_equal. f_equal.
          replace (j - i)%nat with (S (j - S i)) by lia. reflexivity.
        * cbn [fst snd]. rewrite Nat.sub_diag. cbn [spec_trace_tail]. split; [reflexivity|].
          rewrite filter_app_nl. reflexivity.
    - apply Z.ltb_ge in Elt.
      assert (Hm : Z.to_nat (attempts - a) = 0%nat) by lia.
      unfold after. rewrite Hafter, Haf. unfold last_idx. rewrite Hm. cbn [find_stop fst snd].
      rewrite Nat.add_0_r, Nat.sub_diag. cbn [spec_trace_tail]. split; [reflexivity|].
      rewrite filter_app_nl. reflexivity.
  Qed.

  Definition budget : nat := Z.to_nat (attempts - 1).   (* loop iterations available *)

  Lemma run_good :
    let r := retry_run cfg attempts listed outs in
    fst r = RFrom (last_idx budget 0) /\
    filter not_log (snd r) = spec_trace (S (last_idx budget 0)).
  Proof.
    destruct good_fields as (Hinit & _).
    unfold retry_run, fuel_for. rewrite Hinit.
    pose proof (loop_good (Z.to_nat (Z.abs (attempts - 1)) + 2) 1 0%nat [] eq_refl ltac:(lia)) as H.
    cbn zeta in H. destruct H as [H1 H2]. split; [exact H1|].
    rewrite H2. cbn [filter app spec_trace]. now rewrite Nat.sub_0_r.
  Qed.

  Lemma n_calls_spec_trace_tail m : n_calls (spec_trace_tail m) = m.
  Proof. induction m as [|m IH]; [reflexivity|]. unfold n_calls in *. cbn. now rewrite IH. Qed.

  Lemma n_sleeps_spec_trace_tail m : n_sleeps (spec_trace_tail m) = m.
  Proof. induction m as [|m IH]; [reflexivity|]. unfold n_sleeps in *. cbn. now rewrite IH. Qed.

  Lemma n_calls_filter tr : n_calls (filter not_log tr) = n_calls tr.
  Proof.
    unfold n_calls. induction tr as [|e tr IH]; [reflexivity|].
    destruct e; cbn; rewrite ?IH; reflexivity.
  Qed.

  Lemma n_sleeps_filter tr : n_sleeps (filter not_log tr) = n_sleeps tr.
  Proof.
    unfold n_sleeps. induction tr as [|e tr IH]; [reflexivity|].
    destruct e; cbn; rewrite ?IH; reflexivity.
  Qed.

  Lemma calls_good : n_calls (snd (retry_run cfg attempts listed outs)) = S (last_idx budget 0).
  Proof.
    destruct run_good as [_ H]. rewrite <- n_calls_filter, H. cbn [spec_trace].
    unfold n_calls. cbn. f_equal. apply n_calls_spec_trace_tail.
  Qed.

  (* link between the executable search and the statement's "first outcome that ..." *)
  Lemma find_stop_first : forall m i k, first_stop listed outs k -> (i <= k)%nat ->
    find_stop listed outs m i = if (k <? i + m)%nat then Some k else None.
  Proof.
    induction m as [|m IH]; intros i k Hk Hi; cbn [find_stop].
    - destruct (Nat.ltb_spec k (i + 0)); [lia|reflexivity].
    - destruct Hk as [Hs Hb].
      destruct (Nat.eq_dec i k) as [->|Hne].
      + rewrite Hs. destruct (Nat.ltb_spec k (k + S m)); [reflexivity|lia].
      + rewrite (Hb i) by lia. rewrite (IH (S i) k (conj Hs Hb)) by lia.
        replace (S i + m)%nat with (i + S m)%nat by lia. reflexivity.
  Qed.

  Lemma find_stop_never : forall m i, never_stops listed outs -> find_stop listed outs m i = None.
  Proof. induction m as [|m IH]; intros i H; cbn; [reflexivity|]. rewrite H. now apply IH. Qed.

  Lemma last_idx_first k : first_stop listed outs k -> S (last_idx budget 0) = spec_calls attempts k.
  Proof.
    intro Hk. unfold last_idx, spec_calls, budget. rewrite (find_stop_first _ 0%nat k Hk) by lia.
    destruct (Nat.ltb_spec k (0 + Z.to_nat (attempts - 1))); lia.
  Qed.

  Lemma last_idx_never : never_stops listed outs -> S (last_idx budget 0) = spec_calls_never attempts.
  Proof.
    intro H. unfold last_idx, spec_calls_never, budget. rewrite find_stop_never by assumption. lia.
  Qed.

  Lemma find_stop_snoc : forall b i,
    find_stop listed outs (S b) i =
    match find_stop listed outs b i with
    | Some k => Some k
    | None => if stops listed (outs (i + b)%nat) then Some (i + b)%nat else None
    end.
  Proof.
    induction b as [|b IH]; intro i.
    - cbn [find_stop]. now rewrite Nat.add_0_r.
    - change (find_stop listed outs (S (S b)) i)
        with (if stops listed (outs i) then Some i else find_stop listed outs (S b) (S i)).
      rewrite IH. cbn [find_stop]. destruct (stops listed (outs i)); [reflexivity|].
      replace (S i + b)%nat with (i + S b)%nat by lia. reflexivity.
  Qed.

  (* the executable oracle used by the correspondence check agrees with the model *)
  Lemma last_idx_exec : S (last_idx budget 0) = spec_calls_exec attempts listed outs.
  Proof.
    unfold last_idx, spec_calls_exec, budget.
    replace (Z.to_nat (Z.max attempts 1)) with (S (Z.to_nat (attempts - 1))) by lia.
    rewrite find_stop_snoc.
    destruct (find_stop listed outs (Z.to_nat (attempts - 1)) 0); [reflexivity|].
    cbn [Nat.add]. destruct (stops listed (outs (Z.to_nat (attempts - 1)))); reflexivity.
  Qed.
End Good.

(* ---- exception groups: the object-level statement reduces to the class-level one ---------- *)
Section Groups.
  Variable listed : exn -> bool.
  Variable xouts : nat -> xoc.

  Definition proj : nat -> oc := fun i => oc_of (xouts i).

  Lemma stops_proj o : stops listed (oc_of o) = stops_x listed o.
  Proof. destruct o; reflexivity. Qed.

  Lemma first_stop_proj k : first_stop_x listed xouts k -> first_stop listed proj k.
  Proof.
    intros [H1 H2]. split; unfold proj.
    - now rewrite stops_proj.
    - intros j Hj. rewrite stops_proj. now apply H2.
  Qed.

  Lemma never_stops_proj : never_stops_x listed xouts -> never_stops listed proj.
  Proof. intros H j. unfold proj. rewrite stops_proj. apply H. Qed.

  Lemma find_stop_proj : forall n i, find_stop listed proj n i = find_stop_x listed xouts n i.
  Proof.
    induction n as [|n IH]; intro i; cbn [find_stop find_stop_x]; [reflexivity|].
    unfold proj at 1. rewrite stops_proj, IH. reflexivity.
  Qed.

  Lemma spec_calls_exec_proj attempts :
    spec_calls_exec attempts listed proj = spec_calls_exec_x attempts listed xouts.
  Proof. unfold spec_calls_exec, spec_calls_exec_x. now rewrite find_stop_proj. Qed.
End Groups.

(* the loop reads the outcome stream pointwise *)
Lemma loop_ext cfg attempts listed (o1 o2 : nat -> oc) :
  (forall i, o1 i = o2 i) ->
  forall fuel a i tr, loop cfg attempts listed o1 fuel a i tr = loop cfg attempts listed o2 fuel a i tr.
Proof.
  intros H. induction fuel as [|fuel IH]; intros a i tr; cbn [loop]; [reflexivity|].
  rewrite H. destruct (cmp_eval (rc_cmp cfg) a attempts); [|reflexivity].
  destruct (o2 i) as [|e]; [reflexivity|].
  destruct (catches cfg listed e); [|reflexivity].
  destruct (run_handler (rc_handler cfg) a (tr ++ [ECall (rc_try_fwd cfg)])) as [[a'| |a'|] tr2]; try reflexivity.
  apply IH.
Qed.

Lemma retry_run_ext cfg attempts listed (o1 o2 : nat -> oc) :
  (forall i, o1 i = o2 i) -> retry_run cfg attempts listed o1 = retry_run cfg attempts listed o2.
Proof. intro H. unfold retry_run. now apply loop_ext. Qed.
