(* C20 part B - create_decorator's inner function, the class body, get_decorated_functions.   *)
From Coq Require Import List ZArith Bool String Lia.
From PV Require Import Base.Exn Model.Mixins Spec.MixinsSpec Gen.Mixins Proofs.MixinsExec Proofs.MixinsProofs.
Import ListNotations.
Open Scope string_scope.
Open Scope list_scope.

Notation F := Gen.Mixins.prog_decorator_fun.

(* ----- one application of a decorator made by create_decorator ------------------------------- *)

(* for every behaviour `ext` of the transformation: the attribute is set first; without a
   transformation the function itself is returned and nothing is called; with one it is called exactly
   once, with (function - already carrying the attribute -, type, value), and its outcome is the outcome *)
Lemma deco_fun_run : forall ext call id attrs t v callee,
  run_fundef [] empty_world ext call F [VObj id attrs; VStr t; v; callee] =
  let f' := VObj id (assoc_set t v attrs) in
  match callee with
  | VNone => (Ok f', [])
  | _ => (ext callee [f'; VStr t; v], [(callee, [f'; VStr t; v])])
  end.
Proof.
  intros. unfold run_fundef. cbn.
  destruct callee; cbn; try reflexivity;
    match goal with |- context [ext ?c ?a] => destruct (ext c a); reflexivity end.
Qed.

Lemma deco_fun_non_object : forall ext call o t v callee,
  (match o with VObj _ _ => False | _ => True end) ->
  run_fundef [] empty_world ext call F [o; VStr t; v; callee] = (Raise AttributeErrorC, []).
Proof. intros. destruct o; try contradiction; reflexivity. Qed.

Lemma apply_deco_obj : forall id attrs d,
  apply_deco F (VObj id attrs) d =
  match d_tr d with
  | TrNone | TrKeep => Ok (VObj id (assoc_set (d_type d) (d_val d) attrs))
  | TrDrop => Ok (VObj id [])
  | TrRaise => Raise ValueErrorC
  end.
Proof. intros id attrs [t v []]; unfold apply_deco; rewrite deco_fun_run; reflexivity. Qed.

Definition set_deco (a : list (string * val)) (d : deco) := assoc_set (d_type d) (d_val d) a.
Definition attrs_from (a : list (string * val)) (ds : list deco) := fold_left set_deco ds a.
Definition attrs_of (ds : list deco) := attrs_from [] ds.

Lemma apply_decos_keep : forall ds id attrs,
  forallb tr_keeps ds = true -> apply_decos F (VObj id attrs) ds = Ok (VObj id (attrs_from attrs ds)).
Proof.
  induction ds as [|d ds IH]; intros id attrs H; [reflexivity|].
  cbn [forallb] in H. apply andb_true_iff in H as [H1 H2].
  cbn [apply_decos]. rewrite apply_deco_obj. unfold tr_keeps in H1.
  destruct (d_tr d); try discriminate H1; cbn [bind]; now rewrite IH.
Qed.

(* ----- attributes after a list of decorators ------------------------------------------------------- *)

Fixpoint lookup_deco (t : string) (ds : list deco) : option val :=
  match ds with
  | [] => None
  | d :: r => match lookup_deco t r with
              | Some v => Some v
              | None => if String.eqb (d_type d) t then Some (d_val d) else None
              end
  end.

Lemma assoc_assoc_set : forall A t t' (v : A) a,
  assoc t (assoc_set t' v a) = if String.eqb t' t then Some v else assoc t a.
Proof.
  induction a as [|[k x] a IH]; cbn [assoc assoc_set].
  - destruct (String.eqb t' t); reflexivity.
  - destruct (String.eqb k t') eqn:E1; cbn [assoc].
    + apply String.eqb_eq in E1. subst k. destruct (String.eqb t' t); reflexivity.
    + rewrite IH. destruct (String.eqb k t) eqn:E2; [|reflexivity].
      apply String.eqb_eq in E2. subst k. rewrite String.eqb_sym in E1. now rewrite E1.
Qed.

Lemma assoc_attrs_from : forall t ds a,
  assoc t (attrs_from a ds) = match lookup_deco t ds with Some v => Some v | None => assoc t a end.
Proof.
  induction ds as [|d ds IH]; intro a; [reflexivity|].
  cbn [attrs_from fold_left lookup_deco]. fold (attrs_from (set_deco a d) ds). rewrite IH.
  destruct (lookup_deco t ds); [reflexivity|]. unfold set_deco. rewrite assoc_assoc_set.
  destruct (String.eqb (d_type d) t); reflexivity.
Qed.

Lemma no_type_no_deco : forall t ds,
  existsb (String.eqb t) (map d_type ds) = false ->
  filter (fun d => String.eqb (d_type d) t) ds = [] /\ lookup_deco t ds = None.
Proof.
  induction ds as [|d ds IH]; intro H; [split; reflexivity|].
  cbn [map existsb] in H. apply orb_false_iff in H as [H1 H2]. destruct (IH H2) as [I1 I2].
  cbn [filter lookup_deco]. rewrite I1, I2. rewrite String.eqb_sym in H1. rewrite H1. split; reflexivity.
Qed.

(* at most one value per member: the decorators of type t are the attribute t *)
Lemma decos_of_type : forall t ds, nodup_str (map d_type ds) = true ->
  map d_val (filter (fun d => String.eqb (d_type d) t) ds) =
  match lookup_deco t ds with Some v => [v] | None => [] end.
Proof.
  induction ds as [|d ds IH]; intro H; [reflexivity|].
  cbn [map nodup_str] in H. apply andb_true_iff in H as [H1 H2]. apply negb_true_iff in H1.
  cbn [filter lookup_deco]. destruct (String.eqb (d_type d) t) eqn:E.
  - apply String.eqb_eq in E. subst t. destruct (no_type_no_deco _ _ H1) as [I1 I2]. now rewrite I1, I2.
  - rewrite (IH H2). destruct (lookup_deco t ds); reflexivity.
Qed.

(* ----- the class body ------------------------------------------------------------------------------- *)

Definition obj_of (m : mdef) : val := VObj (m_id m) (attrs_of (all_decos m)).
Definition entry_of (m : mdef) : string * aent :=
  (m_name m, match m_wrap m with WGetter a => a | WProperty o => AProp o | _ => AVal (obj_of m) end).

Lemma forallb_app_l : forall A (f : A -> bool) a b, forallb f (a ++ b) = true -> forallb f a = true.
Proof. intros A f a b H. rewrite forallb_app in H. now apply andb_true_iff in H as [H _]. Qed.

Definition getter_ok' (m : mdef) : bool :=
  match m_wrap m with
  | WProperty _ => no_outer m
  | WGetter (AVal v) => simple_val v && no_outer m
  | WGetter _ => false
  | WClassMethod | WStaticMethod => no_outer m
  | WPlain => true
  end.

Lemma getter_ok_eq : forall m, getter_ok m = getter_ok' m.
Proof.
  intro m. unfold getter_ok, getter_ok', getter_dom, raising_getter.
  destruct (m_wrap m) as [| | |[v|e|o]|o]; try reflexivity; try (now rewrite andb_true_r); now rewrite andb_false_r.
Qed.

Lemma build_attr_claimed : forall m, claimed_def m = true -> build_attr F m = Ok (entry_of m).
Proof.
  intros m H. unfold claimed_def in H.
  apply andb_true_iff in H as [H _]. apply andb_true_iff in H as [H Hg]. apply andb_true_iff in H as [H _].
  apply andb_true_iff in H as [Hk _].
  rewrite getter_ok_eq in Hg. unfold build_attr, entry_of, obj_of, attrs_of, all_decos in *. unfold getter_ok', no_outer in Hg.
  destruct (m_wrap m) as [| | |a|o].
  - now rewrite (apply_decos_keep _ _ _ Hk).
  - destruct (m_outer m); [|discriminate]. rewrite app_nil_r in *. now rewrite (apply_decos_keep _ _ _ Hk).
  - destruct (m_outer m); [|discriminate]. rewrite app_nil_r in *. now rewrite (apply_decos_keep _ _ _ Hk).
  - destruct a; try discriminate. apply andb_true_iff in Hg as [_ Hg].
    destruct (m_outer m); [|discriminate]. rewrite app_nil_r in Hk. now rewrite (apply_decos_keep _ _ _ Hk).
  - destruct (m_outer m); [|discriminate]. rewrite app_nil_r in Hk. now rewrite (apply_decos_keep _ _ _ Hk).
Qed.

Lemma build_table_claimed : forall cd, forallb claimed_def cd = true -> build_table F cd = Ok (map entry_of cd).
Proof.
  induction cd as [|m cd IH]; intro H; [reflexivity|].
  cbn [forallb] in H. apply andb_true_iff in H as [H1 H2].
  cbn [build_table map]. now rewrite (build_attr_claimed _ H1), (IH H2).
Qed.

(* ----- get_decorated_functions: the state of the scan ---------------------------------------------- *)

#[local] Arguments get_attr : simpl never.
#[local] Arguments has_attr : simpl never.
#[local] Arguments dict_get : simpl never.
#[local] Arguments dict_set : simpl never.
#[local] Arguments String.prefix : simpl never.

(* decorated_functions = {t: I t for t in ms} *)
Definition mkd (ms : list string) (I : string -> list (val * val)) : list (val * val) :=
  map (fun t => (VStr t, VDict (I t))) ms.
#[local] Arguments mkd : simpl never.

Definition upd (I : string -> list (val * val)) (t : string) (y : list (val * val)) : string -> list (val * val) :=
  fun t' => if String.eqb t' t then y else I t'.

Definition attr_of (v : val) (t : string) : option val :=
  match v with VObj _ attrs => assoc t attrs | _ => None end.

(* the effect of `if hasattr(attribute, t): decorated_functions[t][attribute] = getattr(attribute, t)` on I t *)
Definition step_t (v : val) (t : string) (inner : list (val * val)) : list (val * val) :=
  match attr_of v t with Some x => dict_set v x inner | None => inner end.

Definition scan_v (ms : list string) (v : val) (I : string -> list (val * val)) : string -> list (val * val) :=
  fold_left (fun I t => upd I t (step_t v t (I t))) ms I.

(* objects on which hasattr / getattr only look at the attribute list *)
Definition inert (v : val) : bool :=
  match v with VInst _ _ | VCls _ | VAlias _ _ => false | _ => true end.

Lemma mkd_ext : forall ms I I', (forall t, In t ms -> I t = I' t) -> mkd ms I = mkd ms I'.
Proof.
  unfold mkd. intros ms I I' H. apply map_ext_in. intros t Ht. now rewrite (H t Ht).
Qed.

Lemma dict_get_mkd : forall ms I t, In t ms -> dict_get (VStr t) (mkd ms I) = Some (VDict (I t)).
Proof.
  unfold mkd, dict_get. induction ms as [|m ms IH]; intros I t Hin; [contradiction|].
  cbn [map val_eqb]. destruct (String.eqb m t) eqn:E.
  - apply String.eqb_eq in E. now subst.
  - destruct Hin as [->|Hin]; [now rewrite String.eqb_refl in E|]. now apply IH.
Qed.

Lemma not_in_str : forall t l, existsb (String.eqb t) l = false -> ~ In t l.
Proof.
  intros t l H Hin. assert (existsb (String.eqb t) l = true); [|congruence].
  apply existsb_exists. exists t. split; [assumption|apply String.eqb_refl].
Qed.

Lemma dict_set_mkd : forall ms I t y, nodup_str ms = true -> In t ms ->
  dict_set (VStr t) (VDict y) (mkd ms I) = mkd ms (upd I t y).
Proof.
  unfold mkd, dict_set. induction ms as [|m ms IH]; intros I t y Hn Hin; [contradiction|].
  cbn [nodup_str] in Hn. apply andb_true_iff in Hn as [Hn1 Hn2]. apply negb_true_iff in Hn1.
  cbn [map val_eqb]. destruct (String.eqb m t) eqn:E.
  - apply String.eqb_eq in E. subst m. unfold upd at 1. rewrite String.eqb_refl. f_equal.
    apply map_ext_in. intros t' Ht'. unfold upd. destruct (String.eqb t' t) eqn:E'; [|reflexivity].
    apply String.eqb_eq in E'. subst t'. exfalso. exact (not_in_str _ _ Hn1 Ht').
  - destruct Hin as [->|Hin]; [now rewrite String.eqb_refl in E|].
    unfold upd at 1. rewrite E. f_equal. now apply IH.
Qed.

(* hasattr / getattr on inert objects *)
Lemma get_attr_inert : forall w call v t, inert v = true ->
  get_attr P w call v t = match attr_of v t with Some x => Ok x | None => Raise AttributeErrorC end.
Proof.
  intros w call v t H. unfold get_attr, attr_of, of_opt. destruct v; try discriminate H; reflexivity.
Qed.

Lemma has_attr_inert : forall w call v t, inert v = true ->
  has_attr P w call v t = Ok (VBool (match attr_of v t with Some _ => true | None => false end)).
Proof.
  intros w call v t H. unfold has_attr. rewrite (get_attr_inert _ _ _ _ H). destruct (attr_of v t); reflexivity.
Qed.

(* ----- loops: a state `a` the iterations transform, and slots `x` whose content does not matter ---- *)

Lemma for_loop_state : forall (A J : Type) (body : val -> env -> journal -> res) (E : A -> J -> env)
    (step : val -> A -> A) items j,
  (forall i a x, In i items ->
     exists x', body i (E a x) j = RNormal (E (step i a) x') j \/ body i (E a x) j = RContinue (E (step i a) x') j) ->
  forall a x, exists x', for_loop body items (E a x) j = RNormal (E (fold_left (fun a i => step i a) items a) x') j.
Proof.
  intros A J body E step items j. induction items as [|i items IH]; intros H a x.
  - exists x. reflexivity.
  - destruct (H i a x (or_introl eq_refl)) as [x1 Hb].
    destruct (IH (fun i' a' x' Hi => H i' a' x' (or_intror Hi)) (step i a) x1) as [x2 Hr].
    exists x2. rewrite for_loop_cons. destruct Hb as [Hb|Hb]; rewrite Hb; exact Hr.
Qed.

(* {t: dict() for t in decorator_types} *)
Lemma nodup_str_mid : forall seen t r, nodup_str (seen ++ t :: r) = true -> existsb (String.eqb t) seen = false.
Proof.
  induction seen as [|x seen IH]; intros t r H; [reflexivity|].
  cbn [app nodup_str] in H. apply andb_true_iff in H as [H1 H2]. apply negb_true_iff in H1.
  cbn [existsb]. rewrite (IH _ _ H2), orb_false_r.
  rewrite existsb_app in H1. apply orb_false_iff in H1 as [_ H1]. cbn [existsb] in H1.
  apply orb_false_iff in H1 as [H1 _]. now rewrite String.eqb_sym.
Qed.

Lemma init_dict : forall r seen,
  nodup_str (seen ++ r) = true ->
  fold_left (fun a i => dict_set (fst (i, VDict [])) (snd (i, VDict [])) a) (map VStr r) (mkd seen (fun _ => [])) =
  mkd (seen ++ r) (fun _ => []).
Proof.
  induction r as [|t r IH]; intros seen H; [now rewrite app_nil_r|].
  cbn [map fold_left fst snd]. rewrite dict_set_fresh.
  - replace (mkd seen (fun _ => []) ++ [(VStr t, VDict [])]) with (mkd (seen ++ [t]) (fun _ : string => @nil (val * val)))
      by (unfold mkd; now rewrite map_app).
    rewrite IH; rewrite <- app_assoc; [reflexivity|exact H].
  - pose proof (nodup_str_mid _ _ _ H) as Hn. unfold mkd. rewrite map_map. cbn [fst].
    clear - Hn. induction seen as [|x seen IH]; [reflexivity|]. cbn [existsb] in Hn. apply orb_false_iff in Hn as [H1 H2].
    cbn [map forallb val_eqb]. rewrite String.eqb_sym, H1. cbn [negb andb]. now apply IH.
Qed.

Lemma init_dict0 : forall ms, nodup_str ms = true ->
  fold_left (fun a i => dict_set (fst (i, VDict [])) (snd (i, VDict [])) a) (map VStr ms) [] = mkd ms (fun _ => []).
Proof. intros ms H. exact (init_dict ms [] H). Qed.

Lemma fold_left_map' : forall A B C (f : A -> C -> A) (g : B -> C) l a,
  fold_left f (map g l) a = fold_left (fun a x => f a (g x)) l a.
Proof. intros A B C f g. induction l as [|x l IH]; intro a; [reflexivity|]. cbn. apply IH. Qed.

(* isinstance(getattr(type(self), name, None), property): a property of GenericMixin, or of the class body *)
Definition isprop (w : world) (name : string) : bool :=
  is_property P name || match assoc name (w_attrs w) with Some (AProp _) => true | _ => false end.
Definition skip (w : world) (name : string) : bool := String.prefix "__" name || isprop w name.
#[local] Arguments is_property : simpl never.

Section Gdf.
  Variables (w : world) (k c : nat) (oc : option val) (ms : list string) (V : string -> val).
  Hypothesis Hms : nodup_str ms = true.
  Hypothesis Htv : call_n P w no_ext (S (S (S k))) "type_var" [VInst c oc] = Ok (VEnumCls ms).
  Hypothesis HV : forall name, In name (map fst (w_attrs w)) -> skip w name = false ->
     get_attr P w (call_n P w no_ext (S (S (S k)))) (VInst c oc) name = Ok (V name) /\ inert (V name) = true.

  Definition ostep (i : val) (I : string -> list (val * val)) : string -> list (val * val) :=
    match i with
    | VStr name => if skip w name then I else scan_v ms (V name) I
    | _ => I
    end.

  Definition istep (v : val) (i : val) (I : string -> list (val * val)) : string -> list (val * val) :=
    match i with VStr t => upd I t (step_t v t (I t)) | _ => I end.

  Lemma gdf_run :
    call_n P w no_ext (S (S (S (S k)))) "get_decorated_functions" [VInst c oc] =
    Ok (VDict (mkd ms (fold_left (fun I i => ostep i I) (map (fun p : string * aent => VStr (fst p)) (w_attrs w)) (fun _ => [])))).
  Proof.
    rewrite call_S. cbn [assoc String.eqb Ascii.eqb Bool.eqb progs].
    unfold run_fundef. cbn.
    replace (get_attr P w (call_n P w no_ext (S (S (S k)))) (VInst c oc) "type_var")
      with (call_n P w no_ext (S (S (S k))) "type_var" [VInst c oc]) by reflexivity.
    rewrite Htv. cbn.
    rewrite (comp_dict_fold _ (fun i => (i, VDict []))) by reflexivity.
    rewrite (init_dict0 ms Hms). cbn.
    pose (E := fun (I : string -> list (val * val)) (x : option val * option val * option val) =>
       [("self", Some (VInst c oc)); ("decorator_types", Some (VEnumCls ms));
        ("decorated_functions", Some (VDict (mkd ms I))); ("attribute_name", fst (fst x));
        ("attribute", snd (fst x)); ("decorator_type", snd x)]).
    match goal with |- context [for_loop ?b ?l ?e ?j] =>
      assert (HL : exists x', for_loop b l e j = RNormal (E (fold_left (fun I i => ostep i I) l (fun _ => [])) x') j) end.
    { apply (for_loop_state _ _ _ E ostep _ _) with (a := fun _ : string => @nil (val * val)) (x := (None, None, None)).
      intros i I [[an at'] dt] Hi. apply in_map_iff in Hi as (p & <- & Hp).
      assert (Hname : In (fst p) (map fst (w_attrs w))) by (apply in_map; exact Hp).
      set (name := fst p) in *. cbn. unfold ostep, skip.
      destruct (String.prefix "__" name) eqn:Ed; cbn.
      { exists (Some (VStr name), at', dt). right. reflexivity. }
      change (is_property P name || match assoc name (w_attrs w) with Some (AProp _) => true | _ => false end)
        with (isprop w name).
      destruct (isprop w name) eqn:Ep; cbn.
      { exists (Some (VStr name), at', dt). right. reflexivity. }
      assert (Hs : skip w name = false) by (unfold skip; now rewrite Ed, Ep).
      destruct (HV name Hname Hs) as [Hg Hi]. rewrite Hg. cbn.
      pose (E2 := fun (I : string -> list (val * val)) (x : option val) =>
         [("self", Some (VInst c oc)); ("decorator_types", Some (VEnumCls ms));
          ("decorated_functions", Some (VDict (mkd ms I))); ("attribute_name", Some (VStr name));
          ("attribute", Some (V name)); ("decorator_type", x)]).
      match goal with |- context [for_loop ?b ?l ?e ?j] =>
        assert (HL2 : exists x', for_loop b l e j = RNormal (E2 (fold_left (fun I i => istep (V name) i I) l I) x') j) end.
      { apply (for_loop_state _ _ _ E2 (istep (V name)) _ _) with (a := I) (x := dt).
        intros i2 I2 dt2 Hi2. apply in_map_iff in Hi2 as (t & <- & Ht). cbn.
        rewrite (has_attr_inert _ _ _ _ Hi). exists (Some (VStr t)). left.
        unfold istep, step_t. destruct (attr_of (V name) t) eqn:Ea; cbn.
        - rewrite (get_attr_inert _ _ _ _ Hi), Ea. cbn.
          rewrite (dict_get_mkd _ _ _ Ht). cbn. rewrite (dict_set_mkd _ _ _ _ Hms Ht). reflexivity.
        - unfold E2. rewrite (mkd_ext ms I2 (upd I2 t (I2 t))); [reflexivity|]. intros t' _. unfold upd.
          destruct (String.eqb t' t) eqn:E'; [|reflexivity]. apply String.eqb_eq in E'. now subst. }
      destruct HL2 as [x2 HL2]. rewrite HL2. exists (Some (VStr name), Some (V name), x2). left.
      unfold E2, E, scan_v. cbn [fst snd]. now rewrite fold_left_map'. }
    destruct HL as [x' HL]. rewrite HL. reflexivity.
  Qed.
End Gdf.

(* ----- what the scan leaves under one member ----------------------------------------------------- *)

Lemma scan_v_out : forall ms v I t, ~ In t ms -> scan_v ms v I t = I t.
Proof.
  unfold scan_v. induction ms as [|m ms IH]; intros v I t H; [reflexivity|].
  cbn [fold_left]. rewrite IH by (intro; apply H; now right). unfold upd.
  destruct (String.eqb t m) eqn:E; [|reflexivity]. apply String.eqb_eq in E. subst. exfalso. apply H. now left.
Qed.

Lemma scan_v_at : forall ms v I t, nodup_str ms = true -> In t ms -> scan_v ms v I t = step_t v t (I t).
Proof.
  induction ms as [|m ms IH]; intros v I t Hn Hin; [contradiction|].
  cbn [nodup_str] in Hn. apply andb_true_iff in Hn as [Hn1 Hn2]. apply negb_true_iff in Hn1.
  change (scan_v (m :: ms) v I) with (scan_v ms v (upd I m (step_t v m (I m)))).
  destruct (String.eqb t m) eqn:E.
  - apply String.eqb_eq in E. subst t. rewrite scan_v_out by (now apply not_in_str).
    unfold upd. now rewrite String.eqb_refl.
  - destruct Hin as [->|Hin]; [now rewrite String.eqb_refl in E|].
    rewrite (IH _ _ _ Hn2 Hin). unfold upd. now rewrite E.
Qed.

Definition inner_of (sk : string -> bool) (V : string -> val) (t : string) (names : list string) (inner : list (val * val)) :=
  fold_left (fun inner name => if sk name then inner else step_t (V name) t inner) names inner.

Lemma scan_names : forall w ms V t (table : list (string * aent)) I,
  nodup_str ms = true -> In t ms ->
  fold_left (fun I i => ostep w ms V i I) (map (fun p : string * aent => VStr (fst p)) table) I t =
  inner_of (skip w) V t (map fst table) (I t).
Proof.
  intros w ms V t table. induction table as [|p table IH]; intros I Hn Hin; [reflexivity|].
  cbn [map fold_left]. unfold inner_of in *. cbn [fold_left]. rewrite IH by assumption. f_equal.
  unfold ostep. destruct (skip w (fst p)); [reflexivity|]. now apply scan_v_at.
Qed.

Definition is_obj (v : val) : bool := match v with VObj _ _ => true | _ => false end.

Lemma val_eqb_obj : forall k i a, val_eqb k (VObj i a) = true -> exists a', k = VObj i a'.
Proof. intros k i a H. destruct k; try discriminate H. cbn in H. apply Nat.eqb_eq in H. subst. eauto. Qed.

Lemma val_eqb_obj_irrel : forall k i a a', val_eqb k (VObj i a) = val_eqb k (VObj i a').
Proof. intros k i a a'. destruct k; reflexivity. Qed.

Lemma pairs_dict_set : forall i a x d j y,
  In (j, y) (pairs_of (dict_set (VObj i a) x d)) -> (j = i /\ y = x) \/ In (j, y) (pairs_of d).
Proof.
  unfold dict_set. induction d as [|[k' v'] d IH]; intros j y H.
  - cbn in H. destruct H as [H|[]]. inversion H. now left.
  - destruct (val_eqb k' (VObj i a)) eqn:E.
    + destruct (val_eqb_obj _ _ _ E) as [a' ->]. cbn in H |- *. destruct H as [H|H]; [inversion H; now left|right; now right].
    + cbn in H |- *. destruct H as [H|H]; [right; now left|]. destruct (IH _ _ H) as [?|?]; [now left|right; now right].
Qed.

Lemma okeys_dict_set : forall i a x d,
  forallb is_obj (map fst d) = true -> forallb is_obj (map fst (dict_set (VObj i a) x d)) = true.
Proof.
  unfold dict_set. induction d as [|[k' v'] d IH]; intro H; [reflexivity|].
  cbn [map fst forallb] in H. apply andb_true_iff in H as [H1 H2].
  destruct (val_eqb k' (VObj i a)); cbn [map fst forallb]; rewrite H1; [exact H2|now apply IH].
Qed.

Lemma get_set_same : forall i a a' x d, dict_get (VObj i a) (dict_set (VObj i a') x d) = Some x.
Proof.
  unfold dict_get, dict_set. induction d as [|[k' v'] d IH].
  - cbn. now rewrite Nat.eqb_refl.
  - destruct (val_eqb k' (VObj i a')) eqn:E.
    + rewrite (val_eqb_obj_irrel _ _ _ a) in E. now rewrite E.
    + rewrite (val_eqb_obj_irrel _ _ _ a) in E. now rewrite E.
Qed.

Lemma get_set_other : forall i j a a' x d, i <> j ->
  dict_get (VObj j a) (dict_set (VObj i a') x d) = dict_get (VObj j a) d.
Proof.
  unfold dict_get, dict_set. intros i j a a' x d Hij. induction d as [|[k' v'] d IH].
  - cbn. apply Nat.eqb_neq in Hij. now rewrite Hij.
  - destruct (val_eqb k' (VObj i a')) eqn:E.
    + destruct (val_eqb_obj _ _ _ E) as [a'' ->]. cbn. apply Nat.eqb_neq in Hij. now rewrite Hij.
    + destruct (val_eqb k' (VObj j a)); [reflexivity|exact IH].
Qed.

Lemma get_in_pairs : forall i a x d, dict_get (VObj i a) d = Some x -> In (i, x) (pairs_of d).
Proof.
  unfold dict_get. induction d as [|[k' v'] d IH]; intro H; [discriminate|].
  destruct (val_eqb k' (VObj i a)) eqn:E.
  - destruct (val_eqb_obj _ _ _ E) as [a' ->]. inversion H. now left.
  - right. now apply IH.
Qed.

Definition scan_t (t : string) (vals : list val) (inner : list (val * val)) :=
  fold_left (fun inner v => step_t v t inner) vals inner.

Lemma attr_of_some : forall v t x, attr_of v t = Some x -> exists i a, v = VObj i a /\ assoc t a = Some x.
Proof. intros v t x H. destruct v; try discriminate H. eauto. Qed.

Lemma scan_sub : forall t vals inner j y,
  In (j, y) (pairs_of (scan_t t vals inner)) ->
  In (j, y) (pairs_of inner) \/ exists a, In (VObj j a) vals /\ assoc t a = Some y.
Proof.
  unfold scan_t. induction vals as [|v vals IH]; intros inner j y H; [now left|].
  cbn [fold_left] in H. destruct (IH _ _ _ H) as [H1|(a & Ha & Hx)].
  - unfold step_t in H1. destruct (attr_of v t) eqn:E; [|now left].
    destruct (attr_of_some _ _ _ E) as (i & a & -> & Ha).
    destruct (pairs_dict_set _ _ _ _ _ _ H1) as [[-> ->]|?]; [|now left].
    right. exists a. split; [now left|exact Ha].
  - right. exists a. split; [now right|exact Hx].
Qed.

Lemma scan_okeys : forall t vals inner,
  forallb is_obj (map fst inner) = true -> forallb is_obj (map fst (scan_t t vals inner)) = true.
Proof.
  unfold scan_t. induction vals as [|v vals IH]; intros inner H; [exact H|].
  cbn [fold_left]. apply IH. unfold step_t. destruct (attr_of v t) eqn:E; [|exact H].
  destruct (attr_of_some _ _ _ E) as (i & a & -> & _). now apply okeys_dict_set.
Qed.

Lemma scan_keeps : forall t vals inner i a x,
  (forall a' x', In (VObj i a') vals -> assoc t a' = Some x' -> x' = x) ->
  dict_get (VObj i a) inner = Some x -> dict_get (VObj i a) (scan_t t vals inner) = Some x.
Proof.
  unfold scan_t. induction vals as [|v vals IH]; intros inner i a x Hc H; [exact H|].
  cbn [fold_left]. apply IH; [intros; eapply Hc; [right|]; eauto|].
  unfold step_t. destruct (attr_of v t) eqn:E; [|exact H].
  destruct (attr_of_some _ _ _ E) as (j & a' & -> & Ha).
  destruct (Nat.eq_dec j i) as [->|Hn].
  - rewrite (Hc a' v0 (or_introl eq_refl) Ha). apply get_set_same.
  - now rewrite get_set_other.
Qed.

Lemma scan_adds : forall t vals inner i a x,
  In (VObj i a) vals -> assoc t a = Some x ->
  (forall a' x', In (VObj i a') vals -> assoc t a' = Some x' -> x' = x) ->
  dict_get (VObj i a) (scan_t t vals inner) = Some x.
Proof.
  induction vals as [|v vals IH]; intros inner i a x Hin Ha Hc; [contradiction|].
  destruct Hin as [->|Hin].
  - change (scan_t t (VObj i a :: vals) inner) with (scan_t t vals (step_t (VObj i a) t inner)).
    apply scan_keeps; [intros; eapply Hc; [right|]; eauto|].
    unfold step_t. cbn [attr_of]. rewrite Ha. apply get_set_same.
  - change (scan_t t (v :: vals) inner) with (scan_t t vals (step_t v t inner)).
    apply IH; [assumption|assumption|intros; eapply Hc; [right|]; eauto].
Qed.

Lemma inner_of_vals : forall sk V t names inner,
  inner_of sk V t names inner = scan_t t (map V (filter (fun n => negb (sk n)) names)) inner.
Proof.
  unfold inner_of, scan_t. induction names as [|n names IH]; intro inner; [reflexivity|].
  cbn [fold_left filter]. destruct (sk n); cbn [negb map fold_left]; apply IH.
Qed.

(* ----- getattr(self, name) for the names dir() lists -------------------------------------------- *)

Lemma dunder_neq : forall name s, String.prefix "__" s = true -> String.prefix "__" name = false -> String.eqb name s = false.
Proof.
  intros name s Hs Hn. destruct (String.eqb name s) eqn:E; [|reflexivity].
  apply String.eqb_eq in E. subst. congruence.
Qed.

Lemma is_property_reserved : forall name, is_property P name = reserved name.
Proof.
  intro name. unfold is_property, reserved. cbn [progs assoc].
  rewrite (String.eqb_sym name "type_var"), (String.eqb_sym name "type_vars").
  destruct (String.eqb "get_generic_base" name) eqn:E1.
  { apply String.eqb_eq in E1. subst. reflexivity. }
  destruct (String.eqb "_resolve_generic_base" name) eqn:E0.
  { apply String.eqb_eq in E0. subst. reflexivity. }
  destruct (String.eqb "_get_types" name) eqn:E2.
  { apply String.eqb_eq in E2. subst. reflexivity. }
  destruct (String.eqb "type_var" name) eqn:E3; [reflexivity|].
  destruct (String.eqb "type_vars" name) eqn:E4; [reflexivity|].
  destruct (String.eqb "get_decorated_functions" name) eqn:E5; [|reflexivity].
  apply String.eqb_eq in E5. subst. reflexivity.
Qed.

Lemma get_attr_inst : forall w call c oc name, skip w name = false ->
  get_attr P w call (VInst c oc) name =
  match assoc name (w_attrs w) with
  | Some (AVal x) => Ok x
  | Some (ARaise e) => Raise e
  | Some (AProp o) => o
  | None => Raise AttributeErrorC
  end.
Proof.
  intros w call c oc name H. unfold skip, isprop in H.
  apply orb_false_iff in H as [H Hp]. apply orb_false_iff in Hp as [Hp _]. unfold get_attr.
  rewrite (dunder_neq name "__orig_class__" eq_refl H), (dunder_neq name "__orig_bases__" eq_refl H).
  now rewrite Hp.
Qed.

Lemma assoc_entry : forall cd m, nodup_str (map m_name cd) = true -> In m cd ->
  assoc (m_name m) (map entry_of cd) = Some (snd (entry_of m)).
Proof.
  induction cd as [|m0 cd IH]; intros m Hn Hin; [contradiction|].
  cbn [map nodup_str] in Hn. apply andb_true_iff in Hn as [Hn1 Hn2]. apply negb_true_iff in Hn1.
  cbn [map assoc]. unfold entry_of at 1. cbn [fst snd]. destruct Hin as [->|Hin].
  - now rewrite String.eqb_refl.
  - destruct (String.eqb (m_name m0) (m_name m)) eqn:E; [|now apply IH].
    apply String.eqb_eq in E. exfalso. apply (not_in_str _ _ Hn1). rewrite E. now apply in_map.
Qed.

(* ----- the theorem ------------------------------------------------------------------------------ *)

Definition gdf_at (w : world) (k c : nat) (oc : option val) : outcome val :=
  call_n P w no_ext (S (S (S (S (S k))))) "get_decorated_functions" [VInst c oc].

Definition nd (m : mdef) : bool := negb (dunder (m_name m)).

Definition val_at (w : world) (name : string) : val :=
  match assoc name (w_attrs w) with Some (AVal x) => x | _ => VNone end.

Lemma claimed_parts : forall cd, claimed cd = true ->
  nodup_str (map m_name cd) = true /\
  forall m, In m cd ->
    forallb tr_keeps (all_decos m) = true /\ forallb value_ok (all_decos m) = true /\
    nodup_str (map d_type (all_decos m)) = true /\ getter_ok m = true /\ reserved_ok m = true.
Proof.
  unfold claimed. intros cd H. apply andb_true_iff in H as [H Hn]. split; [exact Hn|].
  intros m Hm. rewrite forallb_forall in H. specialize (H m Hm). unfold claimed_def in H.
  apply andb_true_iff in H as [H H5]. apply andb_true_iff in H as [H H4]. apply andb_true_iff in H as [H H3].
  apply andb_true_iff in H as [H1 H2]. repeat split; assumption.
Qed.

Lemma simple_inert : forall v, simple_val v = true -> inert v = true /\ forall t, attr_of v t = None.
Proof.
  intros v H. destruct v; try discriminate H; split; try reflexivity.
  destruct attrs; [reflexivity|discriminate H].
Qed.

Definition is_wprop (m : mdef) : bool := match m_wrap m with WProperty _ => true | _ => false end.

(* the value getattr hands out for the definition m *)
Lemma val_at_def : forall w cd m,
  w_attrs w = map entry_of cd -> claimed cd = true -> In m cd ->
  inert (val_at w (m_name m)) = true /\
  (is_method m = true -> val_at w (m_name m) = obj_of m) /\
  (is_method m = false -> forall t, attr_of (val_at w (m_name m)) t = None).
Proof.
  intros w cd m Hw Hc Hm. destruct (claimed_parts _ Hc) as [Hn Hall].
  destruct (Hall m Hm) as (_ & _ & _ & Hg & Hr). unfold val_at.
  rewrite Hw, (assoc_entry _ _ Hn Hm). rewrite getter_ok_eq in Hg. unfold entry_of, is_method, getter_ok' in *. cbn [snd].
  destruct (m_wrap m) as [| | |a|o]; try (split; [reflexivity|split; [reflexivity|discriminate]]).
  - destruct a as [v| |]; try discriminate Hg. apply andb_true_iff in Hg as [Hs _].
    destruct (simple_inert _ Hs) as [Hi Ha]. split; [exact Hi|]. split; [discriminate|intros _; exact Ha].
  - split; [reflexivity|]. split; [discriminate|reflexivity].
Qed.

(* which definitions the scan looks at *)
Lemma skip_def : forall w cd m,
  w_attrs w = map entry_of cd -> claimed cd = true -> In m cd ->
  skip w (m_name m) = dunder (m_name m) || reserved (m_name m) || is_wprop m.
Proof.
  intros w cd m Hw Hc Hm. destruct (claimed_parts _ Hc) as [Hn Hall]. destruct (Hall m Hm) as (_ & _ & _ & Hg & _).
  unfold skip, isprop, dunder. rewrite is_property_reserved, Hw, (assoc_entry _ _ Hn Hm). rewrite <- orb_assoc. do 2 f_equal.
  rewrite getter_ok_eq in Hg. unfold entry_of, is_wprop, getter_ok' in *. cbn [snd].
  destruct (m_wrap m) as [| | |a|o]; try reflexivity. destruct a; try discriminate Hg; reflexivity.
Qed.

Lemma skip_method : forall w cd m,
  w_attrs w = map entry_of cd -> claimed cd = true -> In m cd -> is_method m = true ->
  skip w (m_name m) = dunder (m_name m).
Proof.
  intros w cd m Hw Hc Hm Hmeth. rewrite (skip_def w cd m Hw Hc Hm).
  destruct (claimed_parts _ Hc) as [_ Hall]. destruct (Hall m Hm) as (_ & _ & _ & _ & Hr).
  unfold reserved_ok in Hr. rewrite Hmeth in Hr. cbn [negb] in Hr. rewrite orb_false_r in Hr. apply negb_true_iff in Hr.
  rewrite Hr. unfold is_wprop, is_method in *. destruct (m_wrap m); try discriminate Hmeth; now rewrite !orb_false_r.
Qed.

Lemma filter_map_comm : forall A B (f : A -> B) (p : B -> bool) l,
  filter p (map f l) = map f (filter (fun x => p (f x)) l).
Proof.
  intros A B f p. induction l as [|x l IH]; [reflexivity|]. cbn [map filter].
  destruct (p (f x)); cbn [map]; now rewrite IH.
Qed.

Lemma lookup_deco_in : forall t ds y, lookup_deco t ds = Some y -> exists d, In d ds /\ d_type d = t /\ d_val d = y.
Proof.
  induction ds as [|d ds IH]; intros y H; [discriminate|]. cbn [lookup_deco] in H.
  destruct (lookup_deco t ds) eqn:E.
  - inversion H; subst. destruct (IH _ eq_refl) as (d' & ? & ? & ?). exists d'. repeat split; auto. now right.
  - destruct (String.eqb (d_type d) t) eqn:E'; [|discriminate]. inversion H; subst.
    apply String.eqb_eq in E'. exists d. repeat split; auto. now left.
Qed.

Lemma in_decorated : forall cd m t y,
  In m cd -> is_method m = true -> nodup_str (map d_type (all_decos m)) = true ->
  lookup_deco t (all_decos m) = Some y -> In (m_id m, y) (decorated cd t).
Proof.
  intros cd m t y Hm Hmeth Hn Hl. unfold decorated. apply in_flat_map. exists m. split.
  - apply filter_In. now split.
  - pose proof (decos_of_type t _ Hn) as Hd. rewrite Hl in Hd.
    assert (Hy : In y (map d_val (filter (fun d => String.eqb (d_type d) t) (all_decos m)))) by (rewrite Hd; now left).
    apply in_map_iff in Hy as (d & <- & Hd'). apply in_map_iff. exists d. split; [reflexivity|exact Hd'].
Qed.

Lemma decorated_in : forall cd t i y,
  (forall m, In m cd -> nodup_str (map d_type (all_decos m)) = true) ->
  In (i, y) (decorated cd t) ->
  exists m, In m cd /\ is_method m = true /\ i = m_id m /\ lookup_deco t (all_decos m) = Some y.
Proof.
  intros cd t i y Hn H. unfold decorated in H. apply in_flat_map in H as (m & Hm & Hp).
  apply filter_In in Hm as [Hm Hmeth]. apply in_map_iff in Hp as (d & E & Hd). inversion E; subst.
  exists m. repeat split; try assumption.
  pose proof (decos_of_type t _ (Hn m Hm)) as Hx.
  assert (Hy : In (d_val d) (map d_val (filter (fun d => String.eqb (d_type d) t) (all_decos m)))) by now apply in_map.
  rewrite Hx in Hy. destruct (lookup_deco t (all_decos m)); [|contradiction]. destruct Hy as [->|[]]. reflexivity.
Qed.

Lemma lookup_value_ok : forall t ds y, forallb value_ok ds = true -> lookup_deco t ds = Some y -> val_eqb y y = true.
Proof.
  intros t ds y Hv Hl. destruct (lookup_deco_in _ _ _ Hl) as (d & Hd & _ & <-).
  rewrite forallb_forall in Hv. exact (Hv d Hd).
Qed.

Lemma pair_in_exists : forall (p : nat * val) l, In p l -> val_eqb (snd p) (snd p) = true -> existsb (pair_eqb p) l = true.
Proof.
  intros p l Hin Hv. apply existsb_exists. exists p. split; [exact Hin|]. unfold pair_eqb. now rewrite Nat.eqb_refl, Hv.
Qed.

Lemma obj_attr_lookup : forall m t, attr_of (obj_of m) t = lookup_deco t (all_decos m).
Proof.
  intros m t. unfold obj_of, attrs_of. cbn [attr_of]. rewrite assoc_attrs_from.
  destruct (lookup_deco t (all_decos m)); reflexivity.
Qed.

Lemma list_eqb_refl' : forall ms, list_eqb val_eqb (map (fun x : string => VStr x) ms) (map VStr ms) = true.
Proof. induction ms as [|m ms IH]; [reflexivity|]. cbn. now rewrite String.eqb_refl, IH. Qed.

Section Final.
  Variables (w : world) (k c : nat) (oc : option val) (e : val) (ms : list string) (cd : list mdef).
  Hypothesis Hb : binding_subclass w c [e] [VEnumCls ms].
  Hypothesis Hms : nodup_str ms = true.
  Hypothesis Hw : w_attrs w = map entry_of cd.
  Hypothesis Hc : claimed cd = true.
  Hypothesis Hal : alias_consistent cd.

  Definition looked_at (m : mdef) : bool := negb (skip w (m_name m)).
  Definition vals_of : list val := map (fun m => val_at w (m_name m)) (filter looked_at cd).

  Lemma type_var_enum : call_n P w no_ext (S (S (S (S k)))) "type_var" [VInst c oc] = Ok (VEnumCls ms).
  Proof. exact (tvar_binding w k c oc [e] [VEnumCls ms] Hb). Qed.

  Lemma HV_holds : forall name, In name (map fst (w_attrs w)) -> skip w name = false ->
     get_attr P w (call_n P w no_ext (S (S (S (S k))))) (VInst c oc) name = Ok (val_at w name) /\
     inert (val_at w name) = true.
  Proof.
    intros name Hin Hd. rewrite Hw, map_map in Hin. apply in_map_iff in Hin as (m & <- & Hm).
    change (fst (entry_of m)) with (m_name m) in *.
    destruct (val_at_def w cd m Hw Hc Hm) as (Hi & _). split; [|exact Hi].
    rewrite (get_attr_inst _ _ _ _ _ Hd). unfold val_at.
    rewrite (skip_def w cd m Hw Hc Hm) in Hd. apply orb_false_iff in Hd as [_ Hp].
    destruct (claimed_parts _ Hc) as [Hn Hall]. destruct (Hall m Hm) as (_ & _ & _ & Hg & _).
    rewrite getter_ok_eq in Hg. rewrite Hw, (assoc_entry _ _ Hn Hm). unfold entry_of, getter_ok', is_wprop in *. cbn [snd].
    destruct (m_wrap m) as [| | |a|o]; try reflexivity; [|discriminate Hp]. destruct a; try discriminate Hg; reflexivity.
  Qed.

  Lemma gdf_value : gdf_at w k c oc = Ok (VDict (mkd ms (fun t => scan_t t vals_of []))).
  Proof.
    unfold gdf_at. rewrite (gdf_run w (S k) c oc ms (val_at w) Hms type_var_enum HV_holds).
    do 2 f_equal. apply mkd_ext. intros t Ht.
    rewrite (scan_names w ms _ t (w_attrs w) _ Hms Ht), inner_of_vals. f_equal.
    unfold vals_of, looked_at. rewrite Hw, map_map. change (fun x => fst (entry_of x)) with m_name.
    rewrite filter_map_comm, map_map. reflexivity.
  Qed.

  (* a scanned value that shows attribute t is the object of a method whose name does not start with "__" *)
  Lemma vals_attr : forall j a t y, In (VObj j a) vals_of -> assoc t a = Some y ->
    exists m, In m (filter nd cd) /\ is_method m = true /\ VObj j a = obj_of m.
  Proof.
    intros j a t y Hin Ha. unfold vals_of in Hin. apply in_map_iff in Hin as (m & Hv & Hm).
    apply filter_In in Hm as [Hm Hl].
    destruct (val_at_def w cd m Hw Hc Hm) as (_ & Hmeth & Hnon).
    exists m. destruct (is_method m) eqn:E.
    - split; [|split; [reflexivity|now rewrite <- Hv, Hmeth]].
      apply filter_In. split; [exact Hm|]. unfold looked_at in Hl. rewrite (skip_method w cd m Hw Hc Hm E) in Hl. exact Hl.
    - specialize (Hnon eq_refl t). rewrite Hv in Hnon. cbn [attr_of] in Hnon. congruence.
  Qed.

  Lemma method_looked_at : forall m, In m (filter nd cd) -> is_method m = true -> In m (filter looked_at cd).
  Proof.
    intros m Hm Hmeth. apply filter_In in Hm as [Hm Hn]. apply filter_In. split; [exact Hm|].
    unfold looked_at. rewrite (skip_method w cd m Hw Hc Hm Hmeth). exact Hn.
  Qed.

  Lemma nodup_types_nd : forall m, In m (filter nd cd) -> nodup_str (map d_type (all_decos m)) = true.
  Proof.
    intros m Hm. apply filter_In in Hm as [Hm _]. destruct (claimed_parts _ Hc) as [_ Hall].
    now destruct (Hall m Hm) as (_ & _ & ? & _).
  Qed.

  (* no missing, no extra: under member t exactly the (method, value) pairs of the decorations with t,
     of the definitions whose name is not skipped *)
  Lemma scan_iff : forall t i y,
    In (i, y) (pairs_of (scan_t t vals_of [])) <-> In (i, y) (decorated (filter nd cd) t).
  Proof.
    intros t i y. destruct (claimed_parts _ Hc) as [Hn Hall]. split.
    - intro Hjy. destruct (scan_sub _ _ _ _ _ Hjy) as [[]|(a & Ha & Hy)].
      destruct (vals_attr _ _ _ _ Ha Hy) as (m & Hm & Hmeth & Eo).
      unfold obj_of in Eo. inversion Eo; subst i a.
      change (assoc t (attrs_of (all_decos m))) with (attr_of (obj_of m) t) in Hy. rewrite obj_attr_lookup in Hy.
      apply in_decorated; auto using nodup_types_nd.
    - intro Hiy. destruct (decorated_in _ _ _ _ nodup_types_nd Hiy) as (m & Hm & Hmeth & -> & Hl).
      pose proof Hm as Hm'. apply filter_In in Hm' as [Hm' _].
      destruct (val_at_def w cd m Hw Hc Hm') as (_ & Hobj & _). specialize (Hobj Hmeth).
      apply get_in_pairs with (a := attrs_of (all_decos m)). apply scan_adds.
      + unfold vals_of. apply in_map_iff. exists m. split; [exact Hobj|now apply method_looked_at].
      + change (assoc t (attrs_of (all_decos m))) with (attr_of (obj_of m) t). now rewrite obj_attr_lookup.
      + intros a' x' Hin' Ha'. destruct (vals_attr _ _ _ _ Hin' Ha') as (m2 & Hm2 & Hmeth2 & Eo).
        unfold obj_of in Eo. inversion Eo. subst a'.
        apply filter_In in Hm2 as [Hm2 _].
        assert (Hd : all_decos m2 = all_decos m) by (apply Hal; auto).
        rewrite Hd in Ha'. change (assoc t (attrs_of (all_decos m))) with (attr_of (obj_of m) t) in Ha'.
        rewrite obj_attr_lookup in Ha'. congruence.
  Qed.

  Lemma decorated_value_ok : forall t i y, In (i, y) (decorated (filter nd cd) t) -> val_eqb y y = true.
  Proof.
    intros t i y H. destruct (decorated_in _ _ _ _ nodup_types_nd H) as (m & Hm & _ & _ & Hl).
    apply filter_In in Hm as [Hm _]. destruct (claimed_parts _ Hc) as [_ Hall].
    destruct (Hall m Hm) as (_ & Hvo & _). exact (lookup_value_ok _ _ _ Hvo Hl).
  Qed.

  Lemma scan_keys_obj : forall t kv, In kv (scan_t t vals_of []) -> exists i a, fst kv = VObj i a.
  Proof.
    intros t kv Hkv. pose proof (scan_okeys t vals_of [] eq_refl) as Hk. rewrite forallb_forall in Hk.
    specialize (Hk (fst kv) (in_map fst _ _ Hkv)). destruct (fst kv); try discriminate Hk. eauto.
  Qed.

  Lemma gdf_meets_spec : spec_decorated_ok ms (filter nd cd) (gdf_at w k c oc) = true.
  Proof.
    rewrite gdf_value. unfold spec_decorated_ok.
    apply andb_true_iff. split.
    { unfold mkd. rewrite map_map. cbn [fst]. apply list_eqb_refl'. }
    apply forallb_forall. intros t Ht. rewrite (dict_get_mkd _ _ _ Ht).
    apply andb_true_iff. split; [apply andb_true_iff; split|].
    - apply forallb_forall. intros kv Hkv. destruct (scan_keys_obj _ _ Hkv) as (i & a & ->). reflexivity.
    - unfold subset. apply forallb_forall. intros [j y] Hjy. apply scan_iff in Hjy.
      apply pair_in_exists; [exact Hjy|]. exact (decorated_value_ok _ _ _ Hjy).
    - unfold subset. apply forallb_forall. intros [i y] Hiy.
      apply pair_in_exists; [now apply scan_iff|]. exact (decorated_value_ok _ _ _ Hiy).
  Qed.
End Final.

(* ----- names that are skipped (known finding K9) ------------------------------------------------- *)

Lemma decorated_skip_dunder : forall cd t, no_decorated_dunder cd = true -> decorated (filter nd cd) t = decorated cd t.
Proof.
  unfold decorated. induction cd as [|m cd IH]; intros t H; [reflexivity|].
  cbn [no_decorated_dunder forallb] in H. apply andb_true_iff in H as [H1 H2]. fold (no_decorated_dunder cd) in H2.
  specialize (IH t H2). cbn [filter]. unfold nd at 1. unfold decorated_dunder in H1.
  destruct (dunder (m_name m)) eqn:Ed; cbn [negb].
  - destruct (is_method m) eqn:Em; cbn [flat_map]; [|exact IH].
    cbn [andb negb] in H1. destruct (all_decos m); [|discriminate H1]. cbn [filter map app]. exact IH.
  - cbn [filter]. destruct (is_method m); cbn [flat_map]; now rewrite IH.
Qed.

Lemma forallb_ext' : forall A (f g : A -> bool) l, (forall x, f x = g x) -> forallb f l = forallb g l.
Proof. intros A f g l H. induction l as [|x l IH]; [reflexivity|]. cbn. now rewrite H, IH. Qed.

Lemma spec_ok_ext : forall ms cd cd' r, (forall t, decorated cd t = decorated cd' t) ->
  spec_decorated_ok ms cd r = spec_decorated_ok ms cd' r.
Proof.
  intros ms cd cd' r H. unfold spec_decorated_ok. destruct r as [v|]; [|reflexivity]. destruct v; try reflexivity.
  f_equal. apply forallb_ext'. intro t. now rewrite H.
Qed.

(* unparametrised use: class K(WithDecoratedMethods) *)
Lemma gdf_unparam : forall w k c ts, direct_generic w c ts -> gdf_at w k c None = Raise AssertionErrorC.
Proof.
  intros w k c ts H. unfold gdf_at. rewrite call_S. cbn [assoc String.eqb Ascii.eqb Bool.eqb progs].
  unfold run_fundef. cbn.
  replace (get_attr P w (call_n P w no_ext (S (S (S (S k))))) (VInst c None) "type_var")
    with (type_var_at w k c None) by reflexivity.
  now rewrite (tvar_unparam w k c ts H).
Qed.


(* claimed = the domain of the statement + no descriptor that raises when read *)
Lemma claimed_split : forall cd, in_domain cd = true -> no_raising_getter cd = true -> claimed cd = true.
Proof.
  unfold in_domain, no_raising_getter, claimed. intros cd H Hr. apply andb_true_iff in H as [H Hn].
  rewrite Hn, andb_true_r. rewrite forallb_forall in *. intros m Hm. specialize (H m Hm). specialize (Hr m Hm).
  unfold in_domain_def in H. unfold claimed_def, getter_ok.
  apply andb_true_iff in H as [H H5]. apply andb_true_iff in H as [H H4]. rewrite H, H4, Hr, H5. reflexivity.
Qed.
