(* C16: nested and repeated use, by induction from the single-level theorem. *)
From Coq Require Import List Arith Bool Lia.
From PV Require Import Base.Exn Model.Generator Model.Contextlib Model.SafeCtx Model.CtxEval Spec.CtxSpec
  Gen.CtxShape Proofs.CtxCore.
Import ListNotations.

Lemma converts_spec : forall var c, converts var c = spec_pep479 var c.
Proof. destruct var; reflexivity. Qed.

Lemma classify_delivered : forall var c u s e,
  delivered var c (OGen u s) e -> classify (WRaise e) = spec_delivered var c u s.
Proof.
  intros var c u s e H. unfold delivered in H. unfold spec_delivered. rewrite <- converts_spec.
  destruct (converts var c).
  - destruct H as [H1 [H2 [i [H3 _]]]]. unfold classify. rewrite H2, H3. reflexivity.
  - destruct H as [i ->]. reflexivity.
Qed.

(* a with statement around a well-formed body is a well-formed block, and allocates upwards *)
Lemma with_use_wf : forall var u body w,
  body_wf body ->
  (forall x w1 , nid w1 <= nid (snd (body x w1))) ->
  let r := with_use var (P var) u body w in
  wf_res (fst r) (nid (snd r)) /\ nid w <= nid (snd r).
Proof.
  intros var u body w Hwf Hmono r. subst r.
  pose proof (with_use_cases var u body w Hwf) as H. cbv zeta in H.
  destruct (u_setup u).
  - destruct H as [_ [Hn H]].
    pose proof (Hmono (u_val u) (emit (ev_setup u) w)) as Hm. cbn [emit nid] in Hm.
    destruct (body (u_val u) (emit (ev_setup u) w)) as [o w2] eqn:Hb. cbn [fst snd] in *.
    pose proof (Hwf _ _ _ _ Hb) as Ho.
    split; [|cbn [emit nid] in *; lia].
    destruct (u_cleanup u).
    + rewrite H. destruct o; cbn in *; auto; lia.
    + destruct H as [e [-> [H2 _]]]. cbn. lia.
    + rewrite H. destruct o; cbn in *; auto; lia.
  - destruct H as [_ [e [-> [H2 _]]]]. cbn. lia.
  - destruct H as [_ [e [-> [H2 _]]]]. cbn. lia.
Qed.

Lemma simple_body_wf : forall tag o, body_wf (simple_body tag o).
Proof.
  intros tag o x w o' w' H. unfold simple_body in H. destruct o; inversion H; subst; cbn; auto.
Qed.

Lemma simple_body_mono : forall tag o x w, nid w <= nid (snd (simple_body tag o x w)).
Proof. intros. destruct o; cbn; lia. Qed.

Definition nest_body var us body : body_t := fun x w => with_nest var (P var) us body x w.

Lemma nest_wf : forall var us body,
  body_wf body -> (forall x w, nid w <= nid (snd (body x w))) ->
  body_wf (nest_body var us body) /\ (forall x w, nid w <= nid (snd (nest_body var us body x w))).
Proof.
  induction us as [|u us IH]; intros body Hwf Hm.
  - split; [exact Hwf | exact Hm].
  - destruct (IH body Hwf Hm) as [IH1 IH2]. split.
    + intros x w o w' H. unfold nest_body in H. cbn [with_nest] in H.
      pose proof (with_use_wf var u (nest_body var us body) w IH1 IH2) as [H1 _].
      unfold nest_body in H1 at 1. cbv zeta in H1. unfold nest_body in H1.
      change (fun (x0 : val) (w'0 : world) => with_nest var (P var) us body x0 w'0)
        with (fun (x0 : val) (w'0 : world) => with_nest var (P var) us body x0 w'0) in H.
      rewrite H in H1. exact H1.
    + intros x w. unfold nest_body. cbn [with_nest].
      pose proof (with_use_wf var u (nest_body var us body) w IH1 IH2) as [_ H2]. exact H2.
Qed.

(* nested use against the specification: journal and the object that leaves *)
Theorem nest_spec : forall var us tag o x0 w,
  let r := with_nest var (P var) us (simple_body tag o) x0 w in
  jrev (snd r) = rev (fst (spec_nest var us tag o x0)) ++ jrev w /\
  classify (fst r) = snd (spec_nest var us tag o x0).
Proof.
  intros var us tag o. induction us as [|u us IH]; intros x0 w; cbv zeta.
  - cbn [with_nest spec_nest fst snd]. destruct o; cbn; auto.
  - cbn [with_nest spec_nest].
    destruct (nest_wf var us (simple_body tag o) (simple_body_wf tag o) (simple_body_mono tag o)) as [Hwf _].
    pose proof (with_use_cases var u (nest_body var us (simple_body tag o)) w Hwf) as H. cbv zeta in H.
    unfold nest_body in H.
    destruct (u_setup u).
    + destruct H as [Hj [_ Hr]].
      specialize (IH (u_val u) (emit (ev_setup u) w)). cbv zeta in IH. destruct IH as [IHj IHc].
      destruct (spec_nest var us tag o (u_val u)) as [sj sl]. cbn [fst snd] in *.
      split.
      * rewrite Hj, IHj. cbn [emit jrev]. cbn [rev]. rewrite rev_app_distr. cbn [rev app].
        rewrite <- !app_assoc. reflexivity.
      * destruct (u_cleanup u).
        -- rewrite Hr. exact IHc.
        -- destruct Hr as [e [-> [_ Hd]]]. eapply classify_delivered; eauto.
        -- rewrite Hr. exact IHc.
    + destruct H as [Hj [e [-> [_ Hd]]]]. cbn [fst snd]. split.
      * rewrite Hj. reflexivity.
      * eapply classify_delivered; eauto.
    + destruct H as [Hj [e [-> [_ [Hcl [Ho [i Hc]]]]]]]. cbn [fst snd]. split.
      * rewrite Hj. reflexivity.
      * unfold classify. rewrite Ho, Hc, Hcl. reflexivity.
Qed.

(* repeated use: statement after statement, from any world *)
Theorem seq_spec : forall var items w,
  let r := with_seq var (P var) items w in
  jrev (snd r) = rev (fst (spec_seq var items)) ++ jrev w /\
  map classify (fst r) = snd (spec_seq var items).
Proof.
  intros var items. induction items as [|[us o] items IH]; intro w; cbv zeta.
  - cbn. auto.
  - cbn [with_seq spec_seq fold_right].
    set (tag := match us with u :: _ => u_id u | [] => 0 end).
    pose proof (nest_spec var us tag o 0 w) as H. cbv zeta in H.
    destruct (with_nest var (P var) us (simple_body tag o) 0 w) as [r w1]. cbn [fst snd] in H.
    destruct H as [Hj Hc].
    specialize (IH w1). cbv zeta in IH. fold (spec_seq var items).
    destruct (with_seq var (P var) items w1) as [rs w2]. cbn [fst snd] in IH. destruct IH as [IHj IHc].
    destruct (spec_nest var us tag o 0) as [sj sl]. destruct (spec_seq var items) as [tj tl].
    cbn [fst snd map] in *. split.
    + rewrite IHj, Hj, rev_app_distr, <- app_assoc. reflexivity.
    + rewrite Hc, IHc. reflexivity.
Qed.

(* nesting is transparent for every body when no generator fails *)
Definition quiet (u : use_t) : bool :=
  match u_setup u, u_cleanup u with
  | SetupOk, CleanRaise _ => false
  | SetupOk, _ => true
  | _, _ => false
  end.

Fixpoint last_val (x0 : val) (us : list use_t) : val :=
  match us with [] => x0 | u :: us' => last_val (u_val u) us' end.

Theorem nest_transparent : forall var us body,
  body_wf body -> (forall x w, nid w <= nid (snd (body x w))) ->
  forall x0 w, forallb quiet us = true ->
  let w_in := mkW (rev (map ev_setup us) ++ jrev w) (nid w) in
  let ow := body (last_val x0 us) w_in in
  let r := with_nest var (P var) us body x0 w in
  fst r = fst ow /\ jrev (snd r) = map ev_cleanup us ++ jrev (snd ow).
Proof.
  intros var us body Hwf Hm. induction us as [|u us IH]; intros x0 w Hq; cbv zeta.
  - cbn. destruct w; auto.
  - cbn [forallb] in Hq. apply andb_true_iff in Hq as [Hu Hq].
    cbn [with_nest last_val map].
    destruct (nest_wf var us body Hwf Hm) as [Hwf' _].
    pose proof (with_use_cases var u (nest_body var us body) w Hwf') as H. cbv zeta in H.
    unfold nest_body in H. unfold quiet in Hu.
    specialize (IH (u_val u) (emit (ev_setup u) w) Hq). cbv zeta in IH. cbn [emit jrev nid] in IH.
    replace (rev (ev_setup u :: map ev_setup us) ++ jrev w)
      with (rev (map ev_setup us) ++ ev_setup u :: jrev w)
      by (cbn [rev]; rewrite <- app_assoc; reflexivity).
    destruct IH as [IH1 IH2].
    destruct (u_setup u); try discriminate.
    destruct H as [Hj [_ Hr]]. cbn [emit] in *.
    destruct (u_cleanup u); try discriminate.
    + rewrite Hr, Hj, IH1, IH2. auto.
    + rewrite Hr, Hj, IH1, IH2. auto.
Qed.
