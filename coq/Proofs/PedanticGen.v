(* C03 for generator functions: GeneratorWrapper hands a yielded / returned value to the caller only after the
   checker accepted it, and delivers a sent value to the generator only after the checker accepted it - for
   every generator body and every sequence of next / send / close operations, by induction on the sequence.
   throw() is not guarded (finding): the results guard is proved for sequences without throw.          *)
From Coq Require Import List Arith Bool Lia.
From PV Require Import Base.Exn Base.Values Base.Ann Model.Checker Model.GenWrapper.
Import ListNotations.
Open Scope list_scope.

Section Gen.
  Variable check : ann -> value -> tvenv -> outcome unit * tvenv.
  Variable yt st_ rt : ann.
  Variable body : gbody.

  Definition g_accepted (a : ann) (v : value) : Prop := exists tv tv', check a v tv = (Ok tt, tv').

  (* what the caller may receive *)
  Definition res_ok (r : wres) : Prop :=
    match r with
    | WValue y => g_accepted yt y
    | WStop v => g_accepted rt v
    | _ => True
    end.

  Notation w_send := (w_send check yt st_ rt body).
  Notation w_step := (w_step check yt st_ rt body).
  Notation w_run := (w_run check yt st_ rt body).

  Lemma w_send_res_ok : forall w v res w', w_send w v = (res, w') -> res_ok res.
  Proof.
    intros w v res w' H. unfold GenWrapper.w_send in H.
    destruct (if w_init w then match check st_ v (w_tv w) with (Ok _, tv') => Ok tv' | (Raise e, _) => Raise e end else Ok (w_tv w)) as [tv1|e];
      [|inversion H; subst; exact I].
    destruct (inner_send body (w_inner w) v) as [[y|r|e|] g'].
    - destruct (check yt y tv1) as [[u|e] tv2] eqn:E; inversion H; subst; simpl; [|exact I]. exists tv1, tv2. now destruct u.
    - destruct (check rt r tv1) as [[u|e] tv2] eqn:E; inversion H; subst; simpl; [|exact I]. exists tv1, tv2. now destruct u.
    - inversion H; subst; exact I.
    - inversion H; subst; exact I.
  Qed.

  (* a yielded value the checker rejects: the caller of next() / send() gets the checker's exception instead of the value *)
  Lemma w_send_bad_yield : forall w v y g' e,
    inner_send body (w_inner w) v = (IYield y, g') ->
    (w_init w = true -> exists tv', check st_ v (w_tv w) = (Ok tt, tv')) ->
    (forall tv, fst (check yt y tv) = Raise e) ->
    fst (w_send w v) = WRaise e.
  Proof.
    intros w v y g' e Hi Hpre Hbad. unfold GenWrapper.w_send. rewrite Hi.
    destruct (w_init w).
    - destruct (Hpre eq_refl) as [tv' E]. rewrite E. specialize (Hbad tv'). destruct (check yt y tv') as [[u|e'] tv2]; simpl in Hbad; [discriminate|].
      inversion Hbad; subst. reflexivity.
    - specialize (Hbad (w_tv w)). destruct (check yt y (w_tv w)) as [[u|e'] tv2]; simpl in Hbad; [discriminate|].
      inversion Hbad; subst. reflexivity.
  Qed.

  (* a sent value the checker rejects (the wrapper has been used before): send() raises the checker's exception, the generator
     is not resumed, the wrapper is unchanged *)
  Lemma w_send_bad_send : forall w v e,
    w_init w = true -> fst (check st_ v (w_tv w)) = Raise e -> w_send w v = (WRaise e, w).
  Proof.
    intros w v e Hi Hbad. unfold GenWrapper.w_send. rewrite Hi.
    destruct (check st_ v (w_tv w)) as [[u|e'] tv']; simpl in Hbad; [discriminate|]. now inversion Hbad.
  Qed.

  (* the generator returns a value the checker rejects: the caller gets the checker's exception instead of StopIteration(value) *)
  Lemma w_send_bad_return : forall w v r g' e,
    inner_send body (w_inner w) v = (IStop r, g') ->
    (w_init w = true -> exists tv', check st_ v (w_tv w) = (Ok tt, tv')) ->
    (forall tv, fst (check rt r tv) = Raise e) ->
    fst (w_send w v) = WRaise e.
  Proof.
    intros w v r g' e Hi Hpre Hbad. unfold GenWrapper.w_send. rewrite Hi.
    destruct (w_init w).
    - destruct (Hpre eq_refl) as [tv' E]. rewrite E. specialize (Hbad tv'). destruct (check rt r tv') as [[u|e'] tv2]; simpl in Hbad; [discriminate|].
      inversion Hbad; subst. reflexivity.
    - specialize (Hbad (w_tv w)). destruct (check rt r (w_tv w)) as [[u|e'] tv2]; simpl in Hbad; [discriminate|].
      inversion Hbad; subst. reflexivity.
  Qed.

  Definition no_throw (o : gop) : bool := match o with OpThrow _ => false | _ => true end.

  (* C03, generators: every value next()/send() hands to the caller, and every value carried by the final
     StopIteration, has been accepted by the checker - for all bodies, all operation sequences without throw *)
  Theorem gen_results_guard : forall ops w rs w',
    forallb no_throw ops = true -> w_run w ops = (rs, w') -> Forall res_ok rs.
  Proof.
    induction ops as [|o ops IH]; intros w rs w' Hn H.
    - simpl in H. inversion H; subst. constructor.
    - simpl in Hn. apply andb_true_iff in Hn as [Ho Hn]. simpl in H.
      destruct (w_step w o) as [r w1] eqn:Es. destruct (w_run w1 ops) as [rs1 w2] eqn:Er. inversion H; subst.
      constructor; [|eapply IH; eassumption].
      destruct o; simpl in Es; try discriminate.
      + unfold w_next in Es. eapply w_send_res_ok; eassumption.
      + eapply w_send_res_ok; eassumption.
      + unfold w_close in Es. destruct (inner_close body (w_inner w)) as [[y|v|e|] g']; inversion Es; subst; exact I.
  Qed.

  (* what the generator may receive: a sent value the checker accepted, or the None of next() / of the start *)
  Definition resume_ok (r : resume) : Prop :=
    match r with RSend v => g_accepted st_ v \/ v = VNone | RThrow _ => True end.
  Definition winv (w : wstate) : Prop :=
    (w_init w = false -> g_started (w_inner w) = false) /\ Forall resume_ok (g_hist (w_inner w)).

  Lemma react_hist : forall g r res g', react body g r = (res, g') -> g_hist g' = g_hist g ++ [r] /\ g_started g' = true.
  Proof.
    intros g r res g' H. unfold react in H. destruct (body (g_hist g ++ [r])); inversion H; subst; simpl; split; reflexivity.
  Qed.

  Lemma inner_send_inv : forall g v res g', inner_send body g v = (res, g') ->
    Forall resume_ok (g_hist g) -> (g_accepted st_ v \/ (g_started g = false /\ True) \/ v = VNone) ->
    Forall resume_ok (g_hist g').
  Proof.
    intros g v res g' H Hh Hv. unfold inner_send in H.
    destruct (g_done g); [inversion H; subst; assumption|].
    destruct (negb (g_started g) && negb (is_none v)) eqn:E; [inversion H; subst; assumption|].
    destruct (react_hist _ _ _ _ H) as [-> _]. apply Forall_app. split; [assumption|]. constructor; [|constructor].
    simpl. destruct Hv as [Hv|[[Hs _]|Hv]]; [now left| |now right]. right. rewrite Hs in E. simpl in E. destruct v; try discriminate; reflexivity.
  Qed.

  Lemma w_step_inv : forall w o res w', w_step w o = (res, w') -> winv w -> winv w'.
  Proof.
    intros w o res w' H [Hi Hh].
    assert (Hsend : forall w0 v, w_inner w0 = w_inner w -> (w_init w0 = w_init w \/ v = VNone) -> w_send w0 v = (res, w') -> winv w').
    { intros w0 v Hin0 Hiv Hs. unfold GenWrapper.w_send in Hs. rewrite Hin0 in Hs.
      destruct (w_init w0) eqn:Ei.
      - destruct (check st_ v (w_tv w0)) as [[u|e] tv1] eqn:Ec.
        2:{ inversion Hs; subst. split; [intros; congruence|now rewrite Hin0]. }
        assert (Hacc : g_accepted st_ v) by (exists (w_tv w0), tv1; now destruct u).
        destruct (inner_send body (w_inner w) v) as [ir g'] eqn:Eis.
        pose proof (inner_send_inv _ _ _ _ Eis Hh (or_introl Hacc)) as Hh'.
        destruct ir as [y|r|e|]; [destruct (check yt y tv1) as [[u2|e2] tv2]|destruct (check rt r tv1) as [[u2|e2] tv2]| |];
          inversion Hs; subst; split; simpl; try assumption; intros; discriminate.
      - assert (Hv : g_accepted st_ v \/ (g_started (w_inner w) = false /\ True) \/ v = VNone).
        { destruct Hiv as [E|E]; [right; left; split; [apply Hi; congruence|exact I]|now right; right]. }
        destruct (inner_send body (w_inner w) v) as [ir g'] eqn:Eis.
        pose proof (inner_send_inv _ _ _ _ Eis Hh Hv) as Hh'.
        destruct ir as [y|r|e|]; [destruct (check yt y (w_tv w0)) as [[u2|e2] tv2]|destruct (check rt r (w_tv w0)) as [[u2|e2] tv2]| |];
          inversion Hs; subst; split; simpl; try assumption; intros; discriminate. }
    destruct o; simpl in H; [unfold w_next in H; eapply (Hsend (w_uninit w) VNone); [reflexivity|now right|exact H]|eapply (Hsend w v); [reflexivity|now left|exact H]| |].
    - (* throw *)
      unfold w_throw, inner_throw in H.
      destruct (g_done (w_inner w)) eqn:Ed.
      + inversion H; subst. split; assumption.
      + destruct (g_started (w_inner w)) eqn:Es; simpl in H.
        * destruct (react body (w_inner w) (RThrow e)) as [ir g'] eqn:Er. destruct (react_hist _ _ _ _ Er) as [Hh' Hs'].
          assert (Hf : Forall resume_ok (g_hist g')) by (rewrite Hh'; apply Forall_app; split; [assumption|constructor; [exact I|constructor]]).
          destruct ir; inversion H; subst; split; simpl; try assumption; intros Hi'; specialize (Hi Hi'); congruence.
        * inversion H; subst. split; simpl; [auto|assumption].
    - (* close *)
      unfold w_close, inner_close in H.
      destruct (g_done (w_inner w) || negb (g_started (w_inner w))) eqn:Ed.
      + inversion H; subst. split; simpl; assumption.
      + apply orb_false_iff in Ed as [_ Es]. apply negb_false_iff in Es.
        destruct (react body (w_inner w) (RThrow GeneratorExitC)) as [ir g'] eqn:Er. destruct (react_hist _ _ _ _ Er) as [Hh' Hs'].
        assert (Hf : Forall resume_ok (g_hist g')) by (rewrite Hh'; apply Forall_app; split; [assumption|constructor; [exact I|constructor]]).
        assert (Hi'' : forall b, b = false -> g_started g' = false -> False) by (intros; congruence).
        destruct ir as [y|v|e|]; [| |destruct (derives e GeneratorExitC)|]; inversion H; subst; split; simpl; try assumption;
          intros Hi'; specialize (Hi Hi'); congruence.
  Qed.

  (* C03, generators: a sent value reaches the generator only after the checker accepted it - for all bodies and
     ALL operation sequences (throw and close included) *)
  Theorem gen_sends_guard : forall ops w rs w',
    winv w -> w_run w ops = (rs, w') -> Forall resume_ok (g_hist (w_inner w')).
  Proof.
    induction ops as [|o ops IH]; intros w rs w' Hw H.
    - simpl in H. inversion H; subst. apply Hw.
    - simpl in H. destruct (w_step w o) as [r w1] eqn:Es. destruct (w_run w1 ops) as [rs1 w2] eqn:Er. inversion H; subst.
      eapply IH; [|eassumption]. eapply w_step_inv; eassumption.
  Qed.

  Lemma winv0 : winv wstate0.
  Proof. split; [reflexivity|constructor]. Qed.
End Gen.

(* ---------------- C04 for generator functions: transparency of GeneratorWrapper ---------------- *)
Section GenTransparent.
  Variable check : ann -> value -> tvenv -> outcome unit * tvenv.
  Variable yt st_ rt : ann.
  Variable body : gbody.

  Definition g_accepts (a : ann) (v : value) : Prop := forall tv, fst (check a v tv) = Ok tt.

  (* everything the generator yields / returns conforms, and so does the None of the StopIteration an exhausted
     generator raises (guard of the finding C04-exhausted-generator) *)
  Hypothesis yields_ok : forall h y, body h = GYield y -> g_accepts yt y.
  Hypothesis returns_ok : forall h r, body h = GReturn r -> g_accepts rt r.

  Definition res_of (i : ires) : wres :=
    match i with IYield y => WValue y | IStop r => WStop r | IRaise e => WRaise e | INone => WNone end.
  (* the undecorated generator under the same operation *)
  Definition twin_step (g : gstate) (o : gop) : ires * gstate :=
    match o with
    | OpNext => inner_send body g VNone
    | OpSend v => inner_send body g v
    | OpThrow e => inner_throw body g e
    | OpClose => inner_close body g
    end.
  Fixpoint twin_run (g : gstate) (ops : list gop) : list ires * gstate :=
    match ops with
    | [] => ([], g)
    | o :: ops' => let (r, g1) := twin_step g o in let (rs, g2) := twin_run g1 ops' in (r :: rs, g2)
    end.
  (* every value the caller SENDS conforms to the send type (a next() sends nothing: /repo a25625d) *)
  Definition op_ok (o : gop) : Prop :=
    match o with OpSend v => g_accepts st_ v | _ => True end.

  Lemma react_event : forall g r i g', react body g r = (i, g') ->
    match i with
    | IYield y => exists h, body h = GYield y
    | IStop v => exists h, body h = GReturn v
    | _ => True
    end.
  Proof.
    intros g r i g' H. unfold react in H. destruct (body (g_hist g ++ [r])) eqn:E; inversion H; subst; eauto.
  Qed.

  Lemma inner_send_event : forall g v i g', (g_done g = false \/ g_accepts rt VNone) -> inner_send body g v = (i, g') ->
    match i with
    | IYield y => g_accepts yt y
    | IStop r => g_accepts rt r
    | _ => True
    end.
  Proof.
    intros g v i g' Hlive H. unfold inner_send in H.
    destruct (g_done g); [inversion H; subst; destruct Hlive as [E|Hn]; [discriminate|exact Hn]|].
    destruct (negb (g_started g) && negb (is_none v)); [inversion H; subst; exact I|].
    pose proof (react_event _ _ _ _ H) as He. destruct i; try exact I; destruct He as [h Hh]; eauto.
  Qed.

  Lemma w_send_transparent : forall w v, (w_init w = true -> g_accepts st_ v) ->
    (g_done (w_inner w) = false \/ g_accepts rt VNone) ->
    let (i, g') := inner_send body (w_inner w) v in
    exists w', w_send check yt st_ rt body w v = (res_of i, w') /\ w_inner w' = g'.
  Proof.
    intros w v Hv Hlive. destruct (inner_send body (w_inner w) v) as [i g'] eqn:Ei.
    pose proof (inner_send_event _ _ _ _ Hlive Ei) as Hev. unfold w_send. rewrite Ei.
    assert (Hpre : exists tv1, (if w_init w then match check st_ v (w_tv w) with (Ok _, tv') => Ok tv' | (Raise e, _) => Raise e end else Ok (w_tv w)) = Ok tv1).
    { destruct (w_init w); [|eauto]. specialize (Hv eq_refl (w_tv w)). destruct (check st_ v (w_tv w)) as [[u|e] tv']; simpl in Hv; [eauto|discriminate]. }
    destruct Hpre as [tv1 ->].
    destruct i as [y|r|e|]; simpl.
    - specialize (Hev tv1). destruct (check yt y tv1) as [[u|e] tv2]; simpl in Hev; [eauto|discriminate].
    - specialize (Hev tv1). destruct (check rt r tv1) as [[u|e] tv2]; simpl in Hev; [eauto|discriminate].
    - eauto.
    - eauto.
  Qed.

  Lemma inner_close_shape : forall g i g', inner_close body g = (i, g') -> match i with INone | IRaise _ => True | _ => False end.
  Proof.
    intros g i g' H. unfold inner_close in H. destruct (g_done g || negb (g_started g)); [inversion H; subst; exact I|].
    destruct (react body g (RThrow GeneratorExitC)) as [[y|v|e|] g1]; [| |destruct (derives e GeneratorExitC)|]; inversion H; subst; exact I.
  Qed.

  (* a next() / send() finds the generator still running (it has not returned, raised or been closed) - or the return type
     accepts the None of the StopIteration a finished generator answers with *)
  Definition step_fine (g : gstate) (o : gop) : Prop :=
    match o with OpNext | OpSend _ => g_done g = false \/ g_accepts rt VNone | _ => True end.
  Fixpoint run_fine (g : gstate) (ops : list gop) : Prop :=
    match ops with
    | [] => True
    | o :: ops' => step_fine g o /\ run_fine (snd (twin_step g o)) ops'
    end.
  Lemma run_fine_none : g_accepts rt VNone -> forall ops g, run_fine g ops.
  Proof. intros Hn. induction ops as [|o ops IH]; intros g; simpl; [exact I|]. split; [destruct o; simpl; auto|apply IH]. Qed.

  (* the structural half alone: no next() / send() after the generator has finished *)
  Fixpoint live_run (g : gstate) (ops : list gop) : Prop :=
    match ops with
    | [] => True
    | o :: ops' => match o with OpNext | OpSend _ => g_done g = false | _ => True end /\ live_run (snd (twin_step g o)) ops'
    end.
  Lemma live_run_fine : forall ops g, live_run g ops -> run_fine g ops.
  Proof.
    induction ops as [|o ops IH]; intros g H; [exact I|]. destruct H as [H1 H2]. split; [destruct o; simpl; auto|now apply IH].
  Qed.

  Lemma w_step_transparent : forall w o, op_ok o -> step_fine (w_inner w) o ->
    let (i, g') := twin_step (w_inner w) o in
    exists w', w_step check yt st_ rt body w o = (res_of i, w') /\ w_inner w' = g'.
  Proof.
    intros w o Ho Hf. destruct o as [|v|e|]; simpl in *.
    - unfold w_next. apply (w_send_transparent (w_uninit w) VNone); [intros E; discriminate|exact Hf].
    - exact (w_send_transparent w v (fun _ => Ho) Hf).
    - unfold w_throw. destruct (inner_throw body (w_inner w) e) as [[y|r|e'|] g']; simpl; eauto.
    - unfold w_close. destruct (inner_close body (w_inner w)) as [i g'] eqn:Ec.
      pose proof (inner_close_shape _ _ _ Ec) as Hs. destruct i; try contradiction; simpl; eauto.
  Qed.

  (* C04, generators: under these hypotheses the caller of the wrapper observes exactly what the caller of the
     undecorated generator observes - for every sequence of next / send / throw / close *)
  Theorem gen_transparent : forall ops w,
    Forall op_ok ops -> run_fine (w_inner w) ops ->
    fst (w_run check yt st_ rt body w ops) = map res_of (fst (twin_run (w_inner w) ops))
    /\ w_inner (snd (w_run check yt st_ rt body w ops)) = snd (twin_run (w_inner w) ops).
  Proof.
    induction ops as [|o ops IH]; intros w Hok Hfine; [split; reflexivity|].
    inversion Hok as [|? ? Ho Hrest]; subst. simpl. destruct Hfine as [Hf Hfr].
    pose proof (w_step_transparent w o Ho Hf) as Hs. destruct (twin_step (w_inner w) o) as [i g'].
    destruct Hs as [w1 [E1 Eg]]. rewrite E1. simpl in Hfr. rewrite <- Eg in Hfr. specialize (IH w1 Hrest Hfr). rewrite Eg in IH.
    destruct (w_run check yt st_ rt body w1 ops) as [rs w2]. destruct (twin_run g' ops) as [is g2]. simpl in *.
    destruct IH as [IH1 IH2]. split; [now rewrite IH1|assumption].
  Qed.
End GenTransparent.
