(* C19 - every well-formed type expression of the vocabulary (Model/DocstringTyping.v: wf_expr) can be
   evaluated in every context whose names hide nothing: the result is a value, or a NameError - never a
   TypeError / SyntaxError.  Hence `wf_expr (dt_expr d) = true` implies `evaluable scope d = true`, the
   hypothesis on the new documented type in the edits E_change_type / E_alter_returns.               *)
From Coq Require Import List Bool Arith String Lia.
From PV Require Import Base.Exn Model.DocstringTyping Spec.DocstringSpec Proofs.DocstringTy Proofs.DocstringEvalLemmas.
Import ListNotations.
Open Scope string_scope.
Open Scope list_scope.

(* values usable as a type argument *)
Definition not_none (t : ty) : bool := match t with TNone => false | _ => true end.

Fixpoint tyval (t : ty) : bool :=
  match t with
  | TNone | TAny | TCls _ => true
  | TBare n => negb (is_special_form n)
  | TUnion l => forallb (fun m => tyval m && not_none m) l
  | TPipe l => forallb (fun m => tyval m && not_none m) l
  | TGen _ l => forallb hashable l
  | _ => false
  end.

Definition tyarg (t : ty) : bool := tyval t && not_none t.

Lemma tyval_hashable : forall t, tyval t = true -> hashable t = true.
Proof.
  induction t using ty_ind'; cbn; intros Hv; try reflexivity; try discriminate; try assumption;
    rewrite Forall_forall in H; apply forallb_forall; intros x Hx; rewrite forallb_forall in Hv;
    specialize (Hv x Hx); apply andb_true_iff in Hv as [Hv _]; auto.
Qed.

Lemma tyval_convert : forall v, tyval v = true -> type_check v = Ok (type_convert v) /\ tyarg (type_convert v) = true.
Proof.
  intros v Hv. destruct v; cbn in *; try discriminate; try (split; reflexivity);
    try (split; [reflexivity|unfold tyarg; cbn; now rewrite Hv]).
  unfold type_check. cbn. apply negb_true_iff in Hv. rewrite Hv. split; [reflexivity|]. unfold tyarg. cbn. now rewrite Hv.
Qed.

Lemma tyarg_tyval : forall v, tyarg v = true -> tyval v = true.
Proof. unfold tyarg. intros v H. now apply andb_true_iff in H as [H _]. Qed.

Lemma type_check_all_vals : forall l, forallb tyval l = true ->
  type_check_all l = Ok (map type_convert l) /\ forallb tyarg (map type_convert l) = true.
Proof.
  induction l as [|x r IH]; cbn; intros H; [auto|]. apply andb_true_iff in H as [Hx Hr].
  destruct (tyval_convert x Hx) as [E A]. destruct (IH Hr) as [E' A']. rewrite E, E'. cbn. rewrite A, A'. auto.
Qed.

Lemma flatten_vals : forall l, forallb tyarg l = true -> forallb tyarg (flatten_union l) = true.
Proof.
  induction l as [|x r IH]; cbn; intros H; [reflexivity|]. apply andb_true_iff in H as [Hx Hr].
  rewrite forallb_app. apply andb_true_iff. split; [|auto].
  unfold tyarg in Hx. apply andb_true_iff in Hx as [Hv Hn].
  destruct x; cbn in *; try discriminate; try (unfold tyarg; cbn; rewrite ?Hv; reflexivity); exact Hv.
Qed.

Lemma dedupe_forallb : forall (P : ty -> bool) l seen, forallb P l = true -> forallb P (dedupe seen l) = true.
Proof.
  induction l as [|x r IH]; cbn; intros seen H; [reflexivity|]. apply andb_true_iff in H as [Hx Hr].
  destruct (existsb (fun s => ty_eqb s x) seen); [auto|]. cbn. rewrite Hx. cbn. auto.
Qed.

Lemma tyarg_hashable_all : forall l, forallb tyarg l = true -> forallb hashable l = true.
Proof.
  intros l H. apply forallb_forall. intros x Hx. rewrite forallb_forall in H. apply tyval_hashable, tyarg_tyval. auto.
Qed.

Lemma collapse_union_val : forall l, forallb tyarg l = true ->
  exists v, match l with [] => Ok (TUnion []) | [x] => Ok x | x :: y :: r => Ok (TUnion (x :: y :: r)) end = Ok v /\ tyarg v = true.
Proof.
  intros [|x [|y r]] H.
  - exists (TUnion []). auto.
  - exists x. cbn in H. rewrite andb_true_r in H. auto.
  - exists (TUnion (x :: y :: r)). split; [reflexivity|]. unfold tyarg. cbn [not_none]. rewrite andb_true_r. exact H.
Qed.

Lemma collapse_pipe_val : forall l, forallb tyarg l = true ->
  exists v, match l with [] => Ok (TPipe []) | [x] => Ok x | x :: y :: r => Ok (TPipe (x :: y :: r)) end = Ok v /\ tyarg v = true.
Proof.
  intros [|x [|y r]] H.
  - exists (TPipe []). auto.
  - exists x. cbn in H. rewrite andb_true_r in H. auto.
  - exists (TPipe (x :: y :: r)). split; [reflexivity|]. unfold tyarg. cbn [not_none]. rewrite andb_true_r. exact H.
Qed.

Lemma make_union_val : forall ps, forallb tyval ps = true -> exists v, make_union ps = Ok v /\ tyarg v = true.
Proof.
  intros ps H. unfold make_union. destruct (type_check_all_vals ps H) as [E A]. rewrite E. cbn [bind].
  pose proof (flatten_vals _ A) as F. rewrite (tyarg_hashable_all _ F).
  apply collapse_union_val. now apply dedupe_forallb.
Qed.

(* ---- subscription of the typing forms on good arguments ------------------------------------------------ *)
Lemma tyval_as_params : forall v, tyval v = true -> as_params v = [v].
Proof. intros v H. destruct v; cbn in *; try reflexivity; discriminate. Qed.

Lemma hashable_converted : forall l, forallb tyval l = true -> forallb hashable (map type_convert l) = true.
Proof. intros l H. apply tyarg_hashable_all. now apply type_check_all_vals. Qed.

Lemma sub_fixed : forall n k s ps, form_kind n = Some (KFixed k) -> as_params s = ps -> forallb tyval ps = true ->
  List.length ps = k -> exists v, subscript (TBare n) s = Ok v /\ tyarg v = true.
Proof.
  intros n k s ps K E H L. unfold subscript. rewrite K, E. destruct (type_check_all_vals ps H) as [E' A]. rewrite E'. cbn [bind].
  rewrite map_length, L, Nat.eqb_refl. eexists. split; [reflexivity|]. unfold tyarg. cbn. rewrite andb_true_r.
  now apply hashable_converted.
Qed.

Lemma sub_union : forall n s, form_kind n = Some KUnion -> s <> TTup [] -> forallb tyval (as_params s) = true ->
  exists v, subscript (TBare n) s = Ok v /\ tyarg v = true.
Proof.
  intros n s K NE H. unfold subscript. rewrite K.
  assert (G : match s with TTup [] => Raise TypeErrorC | _ => make_union (as_params s) end = make_union (as_params s)).
  { destruct s; try reflexivity. destruct l; [contradiction|reflexivity]. }
  rewrite G. now apply make_union_val.
Qed.

Lemma sub_optional : forall n v, form_kind n = Some KOptional -> tyval v = true ->
  exists w, subscript (TBare n) v = Ok w /\ tyarg w = true.
Proof.
  intros n v K H. unfold subscript. rewrite K. destruct (tyval_convert v H) as [E A]. rewrite E. cbn [bind].
  apply make_union_val. cbn. rewrite (tyarg_tyval _ A). reflexivity.
Qed.

Lemma last_is_ellipsis_vals : forall l, forallb tyval l = true -> last_is_ellipsis l = false.
Proof.
  induction l as [|x r IH]; cbn [forallb]; intros H; [reflexivity|]. apply andb_true_iff in H as [Hx Hr].
  destruct r as [|y r']; [destruct x; cbn in *; try reflexivity; discriminate|].
  specialize (IH Hr). destruct x; exact IH.
Qed.

Lemma last_is_ellipsis_snoc : forall l, last_is_ellipsis (l ++ [TEllipsis]) = true.
Proof.
  induction l as [|x r IH]; [reflexivity|]. cbn [app]. destruct (r ++ [TEllipsis]) as [|y r'] eqn:E.
  - destruct r; discriminate.
  - destruct x; exact IH.
Qed.

Lemma sub_tuple_plain : forall n s, form_kind n = Some KTuple -> forallb tyval (as_params s) = true ->
  exists v, subscript (TBare n) s = Ok v /\ tyarg v = true.
Proof.
  intros n s K H. unfold subscript. rewrite K. rewrite (last_is_ellipsis_vals _ H), andb_false_r.
  destruct (type_check_all_vals _ H) as [E A]. rewrite E. cbn [bind]. eexists. split; [reflexivity|].
  unfold tyarg. cbn. rewrite andb_true_r. now apply hashable_converted.
Qed.

Lemma forallb_hashable_snoc : forall l, forallb hashable l = true -> forallb hashable (l ++ [TEllipsis]) = true.
Proof. intros l H. rewrite forallb_app, H. reflexivity. Qed.

Lemma sub_tuple_ellipsis : forall n vs, form_kind n = Some KTuple -> forallb tyval vs = true ->
  exists v, subscript (TBare n) (TTup (vs ++ [TEllipsis])) = Ok v /\ tyarg v = true.
Proof.
  intros n vs K H. unfold subscript. rewrite K. cbn [as_params]. rewrite last_is_ellipsis_snoc, andb_true_r.
  destruct (Nat.leb 2 (List.length (vs ++ [TEllipsis]))) eqn:L.
  - rewrite removelast_last. destruct (type_check_all_vals _ H) as [E A]. rewrite E. cbn [bind]. eexists. split; [reflexivity|].
    unfold tyarg. cbn. rewrite andb_true_r. apply forallb_hashable_snoc. now apply hashable_converted.
  - assert (Z : vs = []).
    { destruct vs as [|x r]; [reflexivity|]. apply Nat.leb_gt in L. rewrite app_length in L. cbn in L. lia. }
    subst vs. cbn. eexists. split; reflexivity.
Qed.

Lemma sub_callable_list : forall n vs r, form_kind n = Some KCallable -> forallb tyval vs = true -> tyval r = true ->
  exists v, subscript (TBare n) (TTup [TLst vs; r]) = Ok v /\ tyarg v = true.
Proof.
  intros n vs r K H Hr. unfold subscript. rewrite K. destruct (tyval_convert r Hr) as [E A]. rewrite E. cbn [bind].
  eexists. split; [reflexivity|]. unfold tyarg. cbn. rewrite andb_true_r. rewrite forallb_app.
  rewrite (hashable_converted _ H). cbn. rewrite andb_true_r. apply tyval_hashable, tyarg_tyval, A.
Qed.

Lemma sub_callable_ellipsis : forall n r, form_kind n = Some KCallable -> tyval r = true ->
  exists v, subscript (TBare n) (TTup [TEllipsis; r]) = Ok v /\ tyarg v = true.
Proof.
  intros n r K Hr. unfold subscript. rewrite K. destruct (tyval_convert r Hr) as [E A]. rewrite E. cbn [bind].
  eexists. split; [reflexivity|]. unfold tyarg. cbn. rewrite !andb_true_r. apply tyval_hashable, tyarg_tyval, A.
Qed.

Lemma sub_builtin : forall n s, mem n subscriptable_builtins = true -> forallb hashable (as_params s) = true ->
  exists v, subscript (TCls n) s = Ok v /\ tyarg v = true.
Proof.
  intros n s M H. unfold subscript. rewrite M. eexists. split; [reflexivity|]. unfold tyarg. cbn. now rewrite andb_true_r.
Qed.

Lemma or_ty_val : forall a b, tyval a = true -> tyval b = true -> (a = TNone -> b = TNone -> False) ->
  exists v, or_ty a b = Ok v /\ tyarg v = true.
Proof.
  intros a b Ha Hb NN. unfold or_ty.
  assert (Pa : forallb tyarg (pipe_members a) = true).
  { destruct a; cbn in *; try discriminate; try reflexivity; try (unfold tyarg; cbn; rewrite ?Ha; reflexivity); exact Ha. }
  assert (Pb : forallb tyarg (pipe_members b) = true).
  { destruct b; cbn in *; try discriminate; try reflexivity; try (unfold tyarg; cbn; rewrite ?Hb; reflexivity); exact Hb. }
  destruct (c_unionable a && c_unionable b) eqn:C.
  - assert (G : forallb tyarg (dedupe [] (pipe_members a ++ pipe_members b)) = true).
    { apply dedupe_forallb. rewrite forallb_app, Pa, Pb. reflexivity. }
    destruct a; try (now apply collapse_pipe_val); destruct b; try (now apply collapse_pipe_val).
    exfalso. now apply NN.
  - assert (T : is_typing_obj a || is_typing_obj b = true).
    { destruct a; cbn in *; try discriminate; try reflexivity; try (destruct g; cbn in *; try reflexivity);
        destruct b; cbn in *; try discriminate; try reflexivity; try (destruct g; cbn in *; try reflexivity; discriminate);
        try (destruct g0; cbn in *; try reflexivity; discriminate). }
    rewrite T. apply make_union_val. cbn. now rewrite Ha, Hb.
Qed.

(* ---- size of an expression (for the induction) --------------------------------------------------------------- *)
Fixpoint esize (e : texpr) : nat :=
  match e with
  | ESub f s => S (esize f + esize s)
  | ETuple l => S ((fix go (l : list texpr) : nat := match l with [] => 0 | x :: r => esize x + go r end) l)
  | EList l => S ((fix go (l : list texpr) : nat := match l with [] => 0 | x :: r => esize x + go r end) l)
  | EOr a b => S (esize a + esize b)
  | EAttr e _ => S (esize e)
  | _ => 1
  end.

Fixpoint esizes (l : list texpr) : nat := match l with [] => 0 | x :: r => esize x + esizes r end.

Lemma esizes_inline : forall l,
  (fix go (l : list texpr) : nat := match l with [] => 0 | x :: r => esize x + go r end) l = esizes l.
Proof. induction l as [|x r IH]; [reflexivity|]. cbn [esizes]. now rewrite <- IH. Qed.

Lemma esize_ETuple : forall l, esize (ETuple l) = S (esizes l).
Proof. intros. cbn [esize]. now rewrite esizes_inline. Qed.

Lemma esize_EList : forall l, esize (EList l) = S (esizes l).
Proof. intros. cbn [esize]. now rewrite esizes_inline. Qed.

Lemma esizes_in : forall x l, In x l -> esize x <= esizes l.
Proof. induction l as [|y r IH]; intros H; [contradiction|]. cbn [esizes]. destruct H as [E|H]; [subst; lia|specialize (IH H); lia]. Qed.

(* ---- good outcomes ------------------------------------------------------------------------------------------------ *)
Definition good (ctx : list string) (e : texpr) : Prop :=
  (exists v, eval ctx e = Ok v /\ tyval v = true /\ (v = TNone -> e = ENone)) \/ eval ctx e = Raise NameErrorC.

Lemma evals_length : forall ctx l vs, evals ctx l = Ok vs -> List.length vs = List.length l.
Proof.
  induction l as [|x r IH]; cbn [evals]; intros vs H; [inversion H; reflexivity|].
  apply bind_Ok_inv in H as [x' [Hx H]]. apply bind_Ok_inv in H as [r' [Hr H]]. inversion H; subst. cbn. f_equal. auto.
Qed.

Lemma evals_good : forall ctx l, (forall x, In x l -> good ctx x) ->
  (exists vs, evals ctx l = Ok vs /\ forallb tyval vs = true) \/ evals ctx l = Raise NameErrorC.
Proof.
  induction l as [|x r IH]; intros H; [left; exists []; auto|]. cbn [evals].
  destruct (H x (or_introl eq_refl)) as [[v [E [V _]]]|E]; rewrite E; cbn [bind]; [|now right].
  destruct IH as [[vs [E' V']]|E']; [intros y Hy; apply H; now right| |]; rewrite E'; cbn [bind]; [|now right].
  left. exists (v :: vs). cbn. now rewrite V, V'.
Qed.

Lemma tuple_args_good : forall ctx l, tuple_args_ok wf_expr l = true ->
  (forall x, In x l -> wf_expr x = true -> good ctx x) ->
  (exists vs, evals ctx l = Ok vs /\
     (forallb tyval vs = true \/ exists vs', vs = vs' ++ [TEllipsis] /\ forallb tyval vs' = true)) \/
  evals ctx l = Raise NameErrorC.
Proof.
  induction l as [|x r IH]; intros W H; [left; exists []; auto|].
  assert (C : (x = EEllipsis /\ r = []) \/ (wf_expr x = true /\ tuple_args_ok wf_expr r = true)).
  { cbn [tuple_args_ok] in W. destruct x; try (right; now apply andb_true_iff in W).
    destruct r; [left; auto|]. cbn in W. discriminate. }
  destruct C as [[Ex Er]|[Wx Wr]].
  - subst. left. exists [TEllipsis]. split; [reflexivity|]. right. exists []. auto.
  - cbn [evals]. destruct (H x (or_introl eq_refl) Wx) as [[v [E [V _]]]|E]; rewrite E; cbn [bind]; [|now right].
    destruct (IH Wr) as [[vs [E' V']]|E']; [intros y Hy; apply H; now right| |]; rewrite E'; cbn [bind]; [|now right].
    left. exists (v :: vs). split; [reflexivity|]. destruct V' as [V'|[vs' [Evs V']]].
    + left. cbn. now rewrite V, V'.
    + right. exists (v :: vs'). subst. split; [reflexivity|]. cbn. now rewrite V, V'.
Qed.

(* ---- the head of a subscription ---------------------------------------------------------------------------------------- *)
Lemma form_kind_globals : forall n k, form_kind n = Some k -> globals n = Some (TBare n).
Proof.
  intros n k K. unfold globals. destruct (String.eqb_spec n "Any") as [E|E]; [subst; cbn in K; discriminate|]. now rewrite K.
Qed.

Lemma head_form : forall ctx n k, (forall m, In m ctx -> name_ok m = true) -> form_kind n = Some k ->
  eval ctx (EName n) = Ok (TBare n).
Proof.
  intros ctx n k Hok K. rewrite eval_EName. unfold lookup. pose proof (form_kind_globals n k K) as G.
  destruct (mem n ctx) eqn:M; [|now rewrite G].
  apply mem_In in M. apply Hok in M. unfold name_ok in M. rewrite G in M. discriminate.
Qed.

Lemma head_builtin : forall ctx n, mem n subscriptable_builtins = true -> eval ctx (EName n) = Ok (TCls n).
Proof.
  intros ctx n M. rewrite eval_EName. unfold lookup. destruct (mem n ctx); [reflexivity|].
  apply mem_In in M. cbn in M. repeat (destruct M as [E|M]; [subst; reflexivity|]). contradiction.
Qed.

Lemma sub_good : forall ctx f s h, eval ctx f = Ok h ->
  ((exists s', eval ctx s = Ok s' /\ exists v, subscript h s' = Ok v /\ tyarg v = true) \/ eval ctx s = Raise NameErrorC) ->
  good ctx (ESub f s).
Proof.
  intros ctx f s h Hf [[s' [Es [v [Ev A]]]]|Es]; unfold good; rewrite eval_ESub, Hf; cbn [bind]; rewrite Es; cbn [bind]; [|now right].
  left. exists v. unfold tyarg in A. apply andb_true_iff in A as [A1 A2]. repeat split; auto.
  intros E. subst. discriminate.
Qed.

Lemma tuple_dec : forall s, (exists l, s = ETuple l) \/ (forall l, s <> ETuple l).
Proof. destruct s; try (right; intros; discriminate). left; eauto. Qed.

Lemma match_not_tuple : forall {A} s (f : list texpr -> A) (g : texpr -> A), (forall l, s <> ETuple l) ->
  match s with ETuple l => f l | ENone => g ENone | EEllipsis => g EEllipsis | EName n => g (EName n) | ESub a b => g (ESub a b)
             | EList l => g (EList l) | EOr a b => g (EOr a b) | EAttr e a => g (EAttr e a) | EInvalidSyntax => g EInvalidSyntax end = g s.
Proof. intros A s f g H. destruct s; try reflexivity. exfalso. eapply H; eauto. Qed.

Lemma vals_hashable : forall vs, forallb tyval vs = true -> forallb hashable vs = true.
Proof. intros vs H. apply forallb_forall. intros x Hx. rewrite forallb_forall in H. apply tyval_hashable. auto. Qed.

(* ---- main theorem ------------------------------------------------------------------------------------------------------- *)
Theorem wf_good : forall ctx, (forall m, In m ctx -> name_ok m = true) ->
  forall n e, esize e <= n -> wf_expr e = true -> good ctx e.
Proof.
  intros ctx Hok. induction n as [|n IH]; intros e Hs W; [destruct e; cbn in Hs; lia|].
  destruct e; try discriminate.
  - (* None *) left. exists TNone. auto.
  - (* a name *)
    cbn in W. unfold good. rewrite eval_EName. unfold lookup.
    destruct (mem n0 ctx); [left; exists (TCls n0); repeat split; auto; discriminate|].
    unfold globals. destruct (String.eqb n0 "Any"); [left; exists TAny; repeat split; auto; discriminate|].
    destruct (form_kind n0); [left; exists (TBare n0); repeat split; auto; discriminate|].
    destruct (mem n0 builtin_classes); [left; exists (TCls n0); repeat split; auto; discriminate|now right].
  - (* a subscription *)
    destruct e1; try discriminate. rename n0 into m. cbn [wf_expr] in W. cbn [esize] in Hs.
    assert (IHs : wf_expr e2 = true -> good ctx e2) by (intros; apply IH; [lia|assumption]).
    assert (IHl : forall l, e2 = ETuple l -> forall x, In x l -> wf_expr x = true -> good ctx x).
    { intros l E x Hx Wx. apply IH; [|assumption]. subst e2. rewrite esize_ETuple in Hs. pose proof (esizes_in x l Hx). lia. }
    assert (Single : forall h, eval ctx (EName m) = Ok h -> wf_expr e2 = true ->
              (forall v, tyval v = true -> exists w, subscript h v = Ok w /\ tyarg w = true) -> good ctx (ESub (EName m) e2)).
    { intros h Hh W2 Hsub. eapply sub_good; [eassumption|].
      destruct (IHs W2) as [[v [E [V _]]]|E]; [left|now right]. exists v. split; [assumption|]. now apply Hsub. }
    destruct (form_kind m) as [[k| | | |]|] eqn:K.
    + (* List, Dict ... *)
      destruct (tuple_dec e2) as [[l E]|NE].
      * subst e2. apply andb_true_iff in W as [L W]. apply Nat.eqb_eq in L. rewrite forallb_forall in W.
        eapply sub_good; [eapply head_form; eauto|]. rewrite eval_ETuple.
        destruct (evals_good ctx l) as [[vs [E V]]|E]; [intros x Hx; eapply IHl; eauto| |]; rewrite E; cbn [bind]; [left|now right].
        exists (TTup vs). split; [reflexivity|]. apply (sub_fixed m k (TTup vs) vs K eq_refl V). rewrite (evals_length _ _ _ E). exact L.
      * assert (W' : Nat.eqb k 1 && wf_expr e2 = true) by (destruct e2; try exact W; exfalso; eapply NE; eauto).
        clear W. apply andb_true_iff in W' as [L W]. apply Nat.eqb_eq in L.
        eapply Single; [eapply head_form; eauto|assumption|]. intros v V.
        apply (sub_fixed m k v [v] K (tyval_as_params v V)); [cbn; now rewrite V|now subst].
    + (* Tuple *)
      destruct (tuple_dec e2) as [[l E]|NE].
      * subst e2. eapply sub_good; [eapply head_form; eauto|]. rewrite eval_ETuple.
        destruct (tuple_args_good ctx l W) as [[vs [E V]]|E]; [intros x Hx; eapply IHl; eauto| |]; rewrite E; cbn [bind]; [left|now right].
        exists (TTup vs). split; [reflexivity|]. destruct V as [V|[vs' [Evs V]]].
        -- eapply sub_tuple_plain; eauto.
        -- subst vs. eapply sub_tuple_ellipsis; eauto.
      * assert (W' : wf_expr e2 = true) by (destruct e2; try exact W; exfalso; eapply NE; eauto). clear W. rename W' into W.
        eapply Single; [eapply head_form; eauto|assumption|]. intros v V. eapply sub_tuple_plain; eauto.
        rewrite (tyval_as_params v V). cbn. now rewrite V.
    + (* Callable *)
      destruct e2; try discriminate. destruct l as [|a [|r [|? ?]]]; try discriminate; try (destruct a; discriminate).
      rewrite esize_ETuple in Hs. cbn [esizes] in Hs.
      assert (IHr : wf_expr r = true -> good ctx r) by (intros; apply IH; [lia|assumption]).
      eapply sub_good; [eapply head_form; eauto|]. rewrite eval_ETuple. cbn [evals].
      destruct a; try discriminate.
      * (* Callable[..., r] *)
        cbn [eval bind]. destruct (IHr W) as [[v [E [V _]]]|E]; rewrite E; cbn [bind]; [left|now right].
        exists (TTup [TEllipsis; v]). split; [reflexivity|]. eapply sub_callable_ellipsis; eauto.
      * (* Callable[[...], r] *)
        apply andb_true_iff in W as [Wl Wr]. rewrite forallb_forall in Wl. rewrite eval_EList.
        rewrite esize_EList in Hs.
        destruct (evals_good ctx l) as [[vs [E V]]|E].
        { intros x Hx. apply IH; [pose proof (esizes_in x l Hx); lia|auto]. }
        -- rewrite E. cbn [bind]. destruct (IHr Wr) as [[v [E' [V' _]]]|E']; rewrite E'; cbn [bind]; [left|now right].
           exists (TTup [TLst vs; v]). split; [reflexivity|]. eapply sub_callable_list; eauto.
        -- rewrite E. cbn [bind]. now right.
    + (* Union *)
      destruct (tuple_dec e2) as [[l E]|NE].
      * subst e2. apply andb_true_iff in W as [L W]. apply negb_true_iff, Nat.eqb_neq in L. rewrite forallb_forall in W.
        eapply sub_good; [eapply head_form; eauto|]. rewrite eval_ETuple.
        destruct (evals_good ctx l) as [[vs [E V]]|E]; [intros x Hx; eapply IHl; eauto| |]; rewrite E; cbn [bind]; [left|now right].
        exists (TTup vs). split; [reflexivity|]. eapply sub_union; eauto.
        intros C. inversion C. subst vs. apply evals_length in E. cbn in E. congruence.
      * assert (W' : wf_expr e2 = true) by (destruct e2; try exact W; exfalso; eapply NE; eauto). clear W. rename W' into W.
        eapply Single; [eapply head_form; eauto|assumption|]. intros v V. eapply sub_union; eauto.
        -- intros C. subst v. discriminate.
        -- rewrite (tyval_as_params v V). cbn. now rewrite V.
    + (* Optional *)
      destruct (tuple_dec e2) as [[l E]|NE]; [subst e2; discriminate|].
      assert (W' : wf_expr e2 = true) by (destruct e2; try exact W; exfalso; eapply NE; eauto). clear W. rename W' into W.
      eapply Single; [eapply head_form; eauto|assumption|]. intros v V. eapply sub_optional; eauto.
    + (* list, dict, tuple ... *)
      apply andb_true_iff in W as [M W].
      destruct (tuple_dec e2) as [[l E]|NE].
      * subst e2. eapply sub_good; [eapply head_builtin; eauto|]. rewrite eval_ETuple.
        destruct (tuple_args_good ctx l W) as [[vs [E V]]|E]; [intros x Hx; eapply IHl; eauto| |]; rewrite E; cbn [bind]; [left|now right].
        exists (TTup vs). split; [reflexivity|]. eapply sub_builtin; eauto. cbn [as_params].
        destruct V as [V|[vs' [Evs V]]]; [now apply vals_hashable|]. subst vs. apply forallb_hashable_snoc. now apply vals_hashable.
      * assert (W' : wf_expr e2 = true) by (destruct e2; try exact W; exfalso; eapply NE; eauto). clear W. rename W' into W.
        eapply Single; [eapply head_builtin; eauto|assumption|]. intros v V. eapply sub_builtin; eauto.
        rewrite (tyval_as_params v V). cbn. rewrite (tyval_hashable v V). reflexivity.
  - (* a | b *)
    cbn [wf_expr] in W. apply andb_true_iff in W as [W NN]. apply andb_true_iff in W as [Wa Wb]. cbn [esize] in Hs.
    unfold good. rewrite eval_EOr.
    destruct (IH e1 ltac:(lia) Wa) as [[a [Ea [Va Na]]]|Ea]; rewrite Ea; cbn [bind]; [|now right].
    destruct (IH e2 ltac:(lia) Wb) as [[b [Eb [Vb Nb]]]|Eb]; rewrite Eb; cbn [bind]; [|now right].
    destruct (or_ty_val a b Va Vb) as [v [E A]].
    { intros X Y. rewrite (Na X), (Nb Y) in NN. discriminate. }
    left. exists v. unfold tyarg in A. apply andb_true_iff in A as [A1 A2]. repeat split; auto. intros X. subst. discriminate.
Qed.

(* the syntactic vocabulary is covered by the semantic hypothesis of the edit theorems *)
Theorem wf_evaluable : forall scope d, (forall m, In m scope -> name_ok m = true) ->
  wf_expr (dt_expr d) = true -> evaluable scope d = true.
Proof.
  intros scope d Hok W. unfold evaluable.
  destruct (wf_good scope Hok (esize (dt_expr d)) (dt_expr d) (le_n _) W) as [[v [E _]]|E]; rewrite E; reflexivity.
Qed.
