(* C02, second half: the verdict does not depend on the spelling of the annotation nor on the
   iteration order of a set / frozenset / dict value.                                         *)
From Coq Require Import List Arith Bool ZArith Lia Permutation.
From PV Require Import Base.Exn Base.Values Base.Ann Model.CheckerCfg Model.Checker Spec.Conforms Proofs.CheckerGood.
Import ListNotations.

(* equivalent spellings: typing alias <-> builtin alias (List[int] / list[int]), typing.Union /
   Optional <-> X | Y, any order of the Union members, congruence through generic arguments *)
Inductive spell_equiv : ann -> ann -> Prop :=
| se_refl : forall a, spell_equiv a a
| se_gen : forall sp sp' o args args', o <> TType -> spell_equiv_list args args' ->
    spell_equiv (AGeneric sp o args) (AGeneric sp' o args')
| se_type : forall sp sp' args, spell_equiv (AGeneric sp TType args) (AGeneric sp' TType args)   (* Type[C] / type[C] *)
| se_tuplevar : forall sp sp' e e', spell_equiv e e' -> spell_equiv (ATupleVar sp e) (ATupleVar sp' e')
| se_tupleempty : forall sp sp', spell_equiv (ATupleEmpty sp) (ATupleEmpty sp')
| se_union : forall sp sp' args mid args', spell_equiv_list args mid -> Permutation mid args' ->
    spell_equiv (AUnion sp args) (AUnion sp' args')
with spell_equiv_list : list ann -> list ann -> Prop :=
| sel_nil : spell_equiv_list [] []
| sel_cons : forall a a' l l', spell_equiv a a' -> spell_equiv_list l l' -> spell_equiv_list (a :: l) (a' :: l').

Scheme spell_equiv_mut := Induction for spell_equiv Sort Prop
  with spell_equiv_list_mut := Induction for spell_equiv_list Sort Prop.

Lemma forallb_ext {A} (f g : A -> bool) l : (forall x, f x = g x) -> forallb f l = forallb g l.
Proof. intro H. induction l as [|x l IH]; cbn; [reflexivity|]. now rewrite H, IH. Qed.
Lemma existsb_ext_in {A} (f g : A -> bool) l : (forall x, In x l -> f x = g x) -> existsb f l = existsb g l.
Proof.
  induction l as [|x l IH]; intro H; cbn; [reflexivity|].
  rewrite (H x (or_introl eq_refl)), IH; [reflexivity|]. intros y Hy. apply H. now right.
Qed.

Section Spell.
  Variable cfg : checker_cfg.
  Variable ctx : nat -> option cls.
  Notation chk := (chk cfg ctx).

  Definition same_verdicts (l l' : list ann) : Prop := Forall2 (fun a a' => forall v, chk a v = chk a' v) l l'.

  Lemma existsb_perm {A} (f : A -> bool) l l' : Permutation l l' -> existsb f l = existsb f l'.
  Proof.
    induction 1; cbn; try congruence.
    - destruct (f x), (f y); reflexivity.
  Qed.

  Lemma forallb_perm {A} (f : A -> bool) l l' : Permutation l l' -> forallb f l = forallb f l'.
  Proof.
    induction 1; cbn; try congruence.
    - destruct (f x), (f y); reflexivity.
  Qed.

  Lemma existsb_same l l' v : same_verdicts l l' -> existsb (fun m => chk m v) l = existsb (fun m => chk m v) l'.
  Proof. induction 1 as [|a a' l l' Ha _ IH]; cbn; [reflexivity|]. now rewrite Ha, IH. Qed.

  Lemma zipb_same : forall l l', same_verdicts l l' -> forall vs, zipb cfg ctx l vs = zipb cfg ctx l' vs.
  Proof.
    induction 1 as [|a a' l l' Ha _ IH]; intro vs; [reflexivity|].
    destruct vs as [|v0 vs]; cbn [zipb]; [reflexivity|]. now rewrite Ha, IH.
  Qed.

  Lemma chk_tuple_zipb sp args v :
    chk (AGeneric sp TTuple args) v =
    match v with VTuple vs => Nat.eqb (List.length vs) (List.length args) && zipb cfg ctx args vs | _ => false end.
  Proof.
    cbn [CheckerGood.chk origin_kind]. destruct v; reflexivity.
  Qed.

  Lemma same_length l l' : same_verdicts l l' -> List.length l = List.length l'.
  Proof. induction 1; cbn; congruence. Qed.

  Lemma chk_generic_same sp sp' o args args' : o <> TType ->
    same_verdicts args args' -> forall v, chk (AGeneric sp o args) v = chk (AGeneric sp' o args') v.
  Proof.
    intros Hne Hs v.
    destruct (origin_kind o) eqn:Ek.
    - (* KElems *) cbn [CheckerGood.chk]. rewrite Ek.
      inversion Hs as [|a a' l l' Ha Hl]; subst; [reflexivity|].
      inversion Hl; subst; [|reflexivity].
      f_equal. destruct (iter_values v); [|reflexivity]. apply forallb_ext. intros x. apply Ha.
    - cbn [CheckerGood.chk]. rewrite Ek.
      inversion Hs as [|a a' l l' Ha Hl]; subst; [reflexivity|].
      inversion Hl as [|b b' m m' Hb Hm]; subst; [reflexivity|]. inversion Hm; subst; [|reflexivity].
      f_equal. destruct (items_of v); [|reflexivity]. apply forallb_ext. intros x. now rewrite Ha, Hb.
    - cbn [CheckerGood.chk]. rewrite Ek.
      inversion Hs as [|a a' l l' Ha Hl]; subst; [reflexivity|].
      inversion Hl as [|b b' m m' Hb Hm]; subst; [reflexivity|]. inversion Hm; subst; [|reflexivity].
      f_equal. destruct (pairs_of v); [|reflexivity]. apply forallb_ext. intros x. now rewrite Ha, Hb.
    - assert (o = TTuple) by (destruct o; try discriminate Ek; reflexivity). subst o.
      rewrite !chk_tuple_zipb. destruct v; try reflexivity.
      rewrite (same_length _ _ Hs), (zipb_same _ _ Hs). reflexivity.
    - exfalso. apply Hne. destruct o; try discriminate Ek; reflexivity.
    - cbn [CheckerGood.chk]. rewrite Ek. reflexivity.
  Qed.

  Theorem spelling_independent : forall a a', spell_equiv a a' -> forall v, chk a v = chk a' v.
  Proof.
    apply (spell_equiv_mut (fun a a' _ => forall v, chk a v = chk a' v) (fun l l' _ => same_verdicts l l')).
    - reflexivity.
    - intros sp sp' o args args' Hne _ Hs v. now apply chk_generic_same.
    - intros sp sp' args v. reflexivity.
    - intros sp sp' e e' _ IH v. cbn [CheckerGood.chk]. destruct v; try reflexivity. apply forallb_ext. intros x. apply IH.
    - intros sp sp' v. reflexivity.
    - intros sp sp' args mid args' _ Hs Hp v. cbn [CheckerGood.chk].
      rewrite (existsb_same _ _ v Hs). now apply existsb_perm.
    - constructor.
    - intros a a' l l' _ Ha _ Hl. constructor; assumption.
  Qed.

  (* iteration order of the value: set / frozenset elements and dict items in any order *)
  Definition reorder (v v' : value) : Prop :=
    match v, v' with
    | VSet l, VSet l' | VFrozenSet l, VFrozenSet l' => Permutation l l'
    | VDict l, VDict l' => Permutation l l'
    | _, _ => False
    end.

  Lemma reorder_class v v' : reorder v v' -> class_of v = class_of v'.
  Proof. destruct v, v'; cbn; intro H; try contradiction; reflexivity. Qed.

  Theorem iteration_order_independent : forall a v v', reorder v v' -> chk a v = chk a v'.
  Proof.
    induction a as [ | c | | sp args IHargs | vals | s IHs | n | n | sp o args IHargs | sp e IHe | sp | o | ps r IHps IHr | t | k]
      using ann_ind'; intros v v' Hr; pose proof (reorder_class v v' Hr) as Hc.
    - destruct v, v'; try contradiction; reflexivity.
    - cbn [CheckerGood.chk]. unfold isinstance. now rewrite Hc.
    - reflexivity.
    - cbn [CheckerGood.chk]. rewrite Forall_forall in IHargs. apply existsb_ext_in. intros m Hm. now apply IHargs.
    - cbn [CheckerGood.chk]. unfold py_in_scalar. apply existsb_ext_in. intros x _.
      destruct v, v'; try contradiction; destruct x; reflexivity.
    - destruct s; exact (IHs v v' Hr).
    - cbn [CheckerGood.chk]. destruct (ctx n); [|reflexivity]. unfold isinstance. now rewrite Hc.
    - cbn [CheckerGood.chk]. destruct (ctx n); [|reflexivity]. unfold isinstance. now rewrite Hc.
    - (* generic *)
      cbn [CheckerGood.chk]. rewrite Hc.
      destruct (origin_kind o); try reflexivity.
      + destruct args as [|a0 [|? ?]]; try reflexivity. f_equal.
        destruct v, v'; try contradiction; cbn [iter_values reorder] in *.
        * now apply forallb_perm.
        * now apply forallb_perm.
        * rewrite (forallb_perm _ _ _ (Permutation_map fst Hr)). reflexivity.
      + destruct args as [|ka [|va [|? ?]]]; try reflexivity. f_equal.
        destruct v, v'; try contradiction; cbn [items_of reorder] in *; try reflexivity.
        now apply forallb_perm.
      + destruct args as [|ka [|va [|? ?]]]; try reflexivity.
        destruct v, v'; try contradiction; reflexivity.
      + destruct v, v'; try contradiction; reflexivity.
      + destruct args as [|a0 [|? ?]]; try reflexivity. destruct v, v'; try contradiction; reflexivity.
    - cbn [CheckerGood.chk]. destruct v, v'; try contradiction; reflexivity.
    - cbn [CheckerGood.chk]. destruct v, v'; try contradiction; reflexivity.
    - reflexivity.
    - cbn [CheckerGood.chk]. destruct v, v'; try contradiction; reflexivity.
    - reflexivity.
    - reflexivity.
  Qed.
End Spell.
