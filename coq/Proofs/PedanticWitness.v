(* Closed witnesses used by the `_refuted` theorems and the non-vacuity examples of C03 / C04 / C05:
   the decorated callables of the known findings, as the harness reifies them from real modules.  *)
From Coq Require Import List Arith Bool String ZArith.
From PV Require Import Base.Exn Base.Values Base.Ann Base.PyCall Model.Checker Model.CheckerEval Model.PedanticCfg Model.Pedantic
  Model.PedanticEval Spec.Conforms Spec.PedanticSpec.
Import ListNotations.
Close Scope Z_scope.
Open Scope list_scope.
Open Scope string_scope.

Definition ctx0 : nat -> option cls := ctx_of [].
Definition tflags (star st setter ped : bool) (n : nat) : text_flags :=
  {| t_star_args := star; t_staticmethod := st; t_setter := setter; t_pedantic := ped; t_n_at := n |}.
Definition plain_text : text_flags := tflags false false false true 1.          (* `@pedantic` directly above `def` *)
Definition par (n : pname) (k : pkind) (a : ann) (d : option value) : param :=
  {| p_name := n; p_kind := k; p_ann := Some a; p_default := d |}.
Definition a_ : pname := 2.
Definition b_ : pname := 3.
Definition x_ : pname := 15.
Definition args_ : pname := 7.
Definition cls_ : pname := 1.
Definition AInt := ACls CInt.
Definition AStrC := ACls CStr.

(* a module-level function `def <name>(<params>) -> int` *)
Definition func (name : string) (ps : list param) (t : text_flags) : fn :=
  {| f_name := name; f_dotted := false; f_params := ps; f_bound := None; f_first_arg := first_arg_of ps None;
     f_ret := Some AInt; f_coroutine := false; f_generator := false; f_text := t; f_setter := false; f_recv := false |}.
(* a method defined in a class body, receiver parameter `recv` *)
Definition method (name : string) (recv : pname) (ps : list param) (t : text_flags) : fn :=
  let all := {| p_name := recv; p_kind := PosOrKw; p_ann := None; p_default := None |} :: ps in
  {| f_name := name; f_dotted := true; f_params := all; f_bound := None; f_first_arg := first_arg_of all None;
     f_ret := Some AInt; f_coroutine := false; f_generator := false; f_text := t; f_setter := false; f_recv := true |}.
Definition kwcall (recv : list value) (kws : list (pname * value)) : call :=
  {| c_recv := recv; c_twin_recv := recv; c_args := []; c_kwargs := kws |}.
Definition poscall (recv : list value) (args : list value) (kws : list (pname * value)) : call :=
  {| c_recv := recv; c_twin_recv := recv; c_args := args; c_kwargs := kws |}.
Definition returns (v : value) : body := scripted (Ok v).
Definition k_inst : value := VInst [5] 70.
Definition K_cls : value := VClass (CUser [5]).
Definition Sub_cls : value := VClass (CUser [5; 0]).
Definition vx : value := VStr [120].

(* ---- the callables of the findings ---- *)
(* @pedantic / def f(a: int) -> int, called as the text says *)
Definition f_plain : fn := func "f" [par a_ PosOrKw AInt None] plain_text.
(* K2: the same function with the word "star args" in a comment of its body *)
Definition f_star_text : fn := func "f" [par a_ PosOrKw AInt None] (tflags true false false true 1).
(* K2: ... with '@f.setter' in a comment *)
Definition f_setter_text : fn := func "f" [par a_ PosOrKw AInt None] (tflags false false true true 1).
(* K2: ... with '@staticmethod' in its docstring *)
Definition f_static_text : fn := func "f" [par a_ PosOrKw AInt None] (tflags false true false true 1).
Definition f_static_text_default : fn := func "f" [par a_ PosOrKw AInt (Some (VInt 0%Z))] (tflags false true false true 1).
(* K4: @pedantic above a second decorator, defaulted parameter *)
Definition f_stacked : fn :=
  {| f_name := "f"; f_dotted := false; f_params := [par a_ PosOrKw AInt (Some (VInt 0%Z))]; f_bound := None; f_first_arg := None;
     f_ret := Some AInt; f_coroutine := false; f_generator := false; f_text := tflags false false false true 2;
     f_setter := false; f_recv := false |}.
(* K4: static method with a defaulted parameter in a @pedantic_class *)
Definition f_static_default : fn :=
  {| f_name := "s"; f_dotted := true; f_params := [par a_ PosOrKw AInt (Some (VInt 0%Z))]; f_bound := None; f_first_arg := Some a_;
     f_ret := Some AInt; f_coroutine := false; f_generator := false; f_text := tflags false true false false 1;
     f_setter := false; f_recv := false |}.
(* instance method whose receiver is not called `self` *)
Definition m_this : fn := method "m" 14 [par a_ PosOrKw AInt None] plain_text.
(* instance method m(self, a: int) -> int of a @pedantic_class *)
Definition m_self : fn := method "m" self_name [par a_ PosOrKw AInt None] (tflags false false false false 0).
(* instance method m(self, star-args: int) -> int *)
Definition m_varargs : fn := method "m" self_name [par args_ VarPos AInt None] (tflags true false false false 0).
(* static method s(star-args: int) -> int of a @pedantic_class *)
Definition s_varargs : fn :=
  {| f_name := "s"; f_dotted := true; f_params := [par args_ VarPos AInt None]; f_bound := None; f_first_arg := None;
     f_ret := Some AInt; f_coroutine := false; f_generator := false; f_text := tflags true true false false 1;
     f_setter := false; f_recv := false |}.
(* class method c(cls, a: int) -> int of a @pedantic_class: the decorator receives the bound method *)
Definition c_bound : fn :=
  {| f_name := "c"; f_dotted := true; f_params := [par a_ PosOrKw AInt None]; f_bound := Some (cls_, K_cls); f_first_arg := Some cls_;
     f_ret := Some AInt; f_coroutine := false; f_generator := false; f_text := tflags false false false false 1;
     f_setter := false; f_recv := true |}.
(* the same class method with the word "@require_kwargs" in a comment of its body *)
Definition c_bound_ped_text : fn :=
  {| f_name := "c"; f_dotted := true; f_params := [par a_ PosOrKw AInt None]; f_bound := Some (cls_, K_cls); f_first_arg := Some cls_;
     f_ret := Some AInt; f_coroutine := false; f_generator := false; f_text := tflags false false false true 1;
     f_setter := false; f_recv := true |}.
(* @classmethod above @pedantic *)
Definition c_direct : fn := method "c" cls_ [par a_ PosOrKw AInt None] (tflags false false false true 2).
(* def f(star-xs: int) -> int *)
Definition f_varpos_xs : fn := func "f" [par 9 VarPos AInt None] plain_text.
(* def f(xs: Iterable[int]) -> int *)
Definition f_iterable : fn := func "f" [par 9 PosOrKw (AGeneric SpTyping TIterable [AInt]) None] plain_text.
