(* C14 - the witness of the open finding C14-K9 on the shapes of the current source (Gen/Validators.v).
   Kept in its own file: evaluating str() of a 5001-digit int inside Coq takes seconds, and Props/C14.v is
   recompiled on every run while this file is only rebuilt when the regenerated shapes change.          *)
From Coq Require Import List ZArith Bool SpecFloat.
From PV Require Import Base.Exn Model.ValidatorsBase Model.ValidatorsRegex Gen.Validators Model.Validators
                       Spec.ValidatorsSpec.
Import ListNotations.
Open Scope Z_scope.

(* -10^5000 < 5 and 10^5000 seconds is no date: both are in the input domain and must be rejected with
   ValidatorException; the message of the rejection prints the value, and str() of such an int raises ValueError *)
Lemma reject_message_witness : forall O,
  spec O (WMin (VInt 5) true) (VInt (- 10 ^ 5000)) = SReject /\
  validate gen_shapes O (WMin (VInt 5) true) (VInt (- 10 ^ 5000)) = Raise ValueErrorC /\
  spec O WUnix (VInt (10 ^ 5000)) = SReject /\
  validate gen_shapes O WUnix (VInt (10 ^ 5000)) = Raise ValueErrorC.
Proof. intro O. split; [|split; [|split]]; vm_compute; reflexivity. Qed.

(* the digit limit is reachable: str(10^4300) fails (4301 digits), small ints print *)
Lemma digit_limit_witness : forall O,
  py_str O (VInt (10 ^ 4300)) = Raise ValueErrorC /\ py_str O (VInt (-12)) = Ok [45; 49; 50].
Proof. intro O. split; vm_compute; reflexivity. Qed.
