(* C03: positions.  (F) the arithmetic guard `star_offset_ok` follows from a description of the receiver over ground-truth
   fields (`recv_consistent`: method with its receiver / function / bound class method called through its class);
   (B) a positional value that CPython binds to a NAMED parameter without default is handed to the checker by the first pass
   before the body can run (lock-step of FunctionCall._check_type_param and CPython's binding).                      *)
From Coq Require Import List Arith Bool String Lia.
From PV Require Import Base.Exn Base.Values Base.Ann Base.PyCall Model.CheckerCfg Model.Checker Model.PedanticCfg
  Model.Pedantic Spec.Conforms Spec.PedanticSpec Proofs.PedanticBase Proofs.PyCallFacts Proofs.PedanticC03.
Import ListNotations.
Open Scope list_scope.

(* how the receiver reaches the wrapper and the undecorated callable, over ground-truth fields only.
   strict = false additionally admits a wrapper that receives an instance the undecorated callable does not get (static and class
   methods of a @pedantic_class reached through an instance) *)
Definition recv_described (strict : bool) (f : fn) (c : call) : Prop :=
  (* a method whose receiver parameter is called self, called with its receiver (through an instance, or explicitly) *)
  (f_bound f = None /\ f_recv f = true /\ f_first_arg f = Some self_name /\
   exists r rest x, f_params f = r :: rest /\ p_name r = self_name /\ p_kind r = PosOrKw /\ p_default r = None
                    /\ c_recv c = [x] /\ c_twin_recv c = [x] /\ mem self_name (kw_names c) = false)
  \/ (* a function or a static method: the undecorated callable gets no receiver *)
  (f_bound f = None /\ f_recv f = false /\ is_instance_method f = false /\ (strict = true -> c_recv c = []) /\ c_twin_recv c = [])
  \/ (* a class method as @pedantic_class sees it (bound to the class), called through the class *)
  (exists n o x, f_bound f = Some (n, o) /\ is_instance_method f = false /\ (strict = true -> c_recv c = []) /\ c_twin_recv c = [x]
                 /\ mem n (kw_names c) = false).
Definition recv_consistent := recv_described true.
Definition recv_known := recv_described false.

Lemma recv_consistent_known : forall f c, recv_consistent f c -> recv_known f c.
Proof.
  intros f c [S1|[[A [B [C [D E]]]]|[n [o [x [A [B [C D]]]]]]]]; [left; exact S1|right; left|right; right].
  - repeat split; try assumption. intros; discriminate.
  - exists n, o, x. repeat split; try apply D; try assumption. intros; discriminate.
Qed.

Lemma bind_go_kwonly : forall all kws ps pos b, bind_go all ps pos kws = Ok b ->
  forall p, In p ps -> p_kind p = KwOnly -> no_default p = true -> mem (p_name p) kws = true.
Proof.
  intros all kws. induction ps as [|q ps IH]; intros pos b H p Hin Hk Hd; [contradiction|].
  simpl in H. unfold by_default in H.
  assert (Rec : forall pos' sl, omap (cons (p_name q, sl)) (bind_go all ps pos' kws) = Ok b -> In p ps -> mem (p_name p) kws = true).
  { intros pos' sl E Hp. destruct (bind_go all ps pos' kws) as [b'|] eqn:Eb; [|discriminate]. eapply IH; eassumption. }
  destruct Hin as [->|Hin].
  - rewrite Hk in H. destruct (mem (p_name p) kws); [reflexivity|]. unfold no_default in Hd. destruct (p_default p); discriminate.
  - destruct (p_kind q).
    + destruct pos; [destruct (p_default q); [|discriminate]|]; eapply Rec; eassumption.
    + destruct pos; [destruct (mem (p_name q) kws); [|destruct (p_default q); [|discriminate]]|destruct (mem (p_name q) kws); [discriminate|]];
        eapply Rec; eassumption.
    + eapply Rec; eassumption.
    + destruct (mem (p_name q) kws); [|destruct (p_default q); [|discriminate]]; eapply Rec; eassumption.
    + eapply Rec; eassumption.
Qed.

Lemma kw_get_none_mem : forall k kws, kw_get k kws = None -> mem k (map fst kws) = false.
Proof.
  intros k kws H. destruct (mem k (map fst kws)) eqn:E; [|reflexivity].
  destruct (kw_get_mem_some _ _ E) as [v Hv]. congruence.
Qed.

Section Offset.
  Variable f : fn.
  Variable c : call.
  Variable b : binding.
  Hypothesis Hsig : sig_ok f = true.
  Hypothesis Hb : twin_binding f c = Ok b.

  Definition notself (p : param) : bool := negb (Nat.eqb (p_name p) self_name).
  Definition nonstar (p : param) : bool := negb (is_star p).

  (* what the first pass takes from the positional values is bounded by what CPython must fill positionally *)
  Lemma req1_le_req_pos : forall l, incl l (full_params f) ->
    List.length (filter (req1 c) (filter nonstar (filter notself l))) <= List.length (filter (req_pos (kw_names c)) l).
  Proof.
    unfold twin_binding, py_bind in Hb.
    destruct (forallb (fun k => mem k (kw_param_names (full_params f)) || has_varkw (full_params f)) (kw_names c)); [|discriminate].
    induction l as [|p l IH]; intros Hi; [simpl; lia|].
    assert (Hp : In p (full_params f)) by (apply Hi; now left).
    assert (Hi' : incl l (full_params f)) by (intros x Hx; apply Hi; now right).
    specialize (IH Hi'). simpl filter at 3.
    destruct (notself p) eqn:En; [|cbn [filter]; destruct (req_pos (kw_names c) p); simpl; lia].
    simpl filter at 2. destruct (nonstar p) eqn:Es; [|cbn [filter]; destruct (req_pos (kw_names c) p); simpl; lia].
    simpl filter at 1. destruct (req1 c p) eqn:Er; [|cbn [filter]; destruct (req_pos (kw_names c) p); simpl; lia].
    assert (Hrp : req_pos (kw_names c) p = true).
    { unfold req1 in Er. apply andb_true_iff in Er as [Hd Hk]. destruct (kw_get (p_name p) (c_kwargs c)) eqn:Ek; [discriminate|].
      pose proof (kw_get_none_mem _ _ Ek) as Hm. unfold req_pos. unfold kw_names. rewrite Hd, Hm. simpl.
      unfold nonstar, is_star, is_varpos, is_varkw in Es. unfold is_pos. destruct (p_kind p) eqn:Ekind; try discriminate; try reflexivity.
      exfalso. pose proof (bind_go_kwonly _ _ _ _ _ Hb p Hp Ekind Hd) as Hm'. unfold kw_names in Hm'. congruence. }
    cbn [filter]. rewrite Hrp. simpl. lia.
  Qed.

  Theorem star_offset_of_known : recv_known f c -> star_offset_ok f c = true.
  Proof.
    intros [S1|[S2|S3]]; unfold star_offset_ok; apply Nat.leb_le; unfold params_without_self; fold notself; fold nonstar.
    - destruct S1 as [Hbd [Hrecv [Hfa [r [rest [x [Hps [Hn [Hk [Hd [Hrc [Htw Hm]]]]]]]]]]]].
      assert (Hfull : full_params f = r :: rest) by (unfold full_params, func_params; now rewrite Hbd).
      assert (Hinst : is_instance_method f = true) by (unfold is_instance_method; now rewrite Hfa).
      rewrite Hinst, Hrc, Htw, Hfull, Hps. simpl List.length.
      assert (Hr1 : notself r = false) by (unfold notself; now rewrite Hn).
      assert (Hr2 : req_pos (kw_names c) r = true) by (unfold req_pos, is_pos, no_default; now rewrite Hk, Hd, Hn, Hm).
      cbn [filter]. rewrite Hr1, Hr2. simpl List.length.
      pose proof (req1_le_req_pos rest) as H. rewrite Hfull in H. specialize (H (fun x Hx => or_intror Hx)). lia.
    - destruct S2 as [Hbd [Hrecv [Hinst [Hrc Htw]]]].
      assert (Hfull : full_params f = f_params f) by (unfold full_params, func_params; now rewrite Hbd).
      rewrite Hinst, Htw, Hfull. simpl List.length.
      pose proof (req1_le_req_pos (f_params f)) as H. rewrite Hfull in H. specialize (H (fun x Hx => Hx)). lia.
    - destruct S3 as [n [o [x [Hbd [Hinst [Hrc [Htw Hm]]]]]]].
      assert (Hfull : full_params f = bound_param n :: f_params f) by (unfold full_params, func_params; now rewrite Hbd).
      rewrite Hinst, Htw, Hfull. simpl List.length.
      assert (Hr2 : req_pos (kw_names c) (bound_param n) = true) by (unfold req_pos, is_pos, no_default, bound_param; simpl; now rewrite Hm).
      cbn [filter]. rewrite Hr2. simpl List.length.
      pose proof (req1_le_req_pos (f_params f)) as H. rewrite Hfull in H. specialize (H (fun x Hx => or_intror Hx)). lia.
  Qed.
End Offset.

(* ---------------- (B) positional values of named parameters ---------------- *)
Definition has_no_default (p : param) : bool := no_default p.

(* no DEFAULTED named parameter is filled positionally (the finding: its default is checked in place of the value) *)
Definition no_defaulted_positional (f : fn) (b : binding) : bool :=
  forallb (fun ns => match find_param (fst ns) (declared f), snd ns with
                     | Some p, BOne (SArg _) => no_default p
                     | _, _ => true
                     end) b.

Lemma bind_go_names : forall all kws ps pos b, bind_go all ps pos kws = Ok b -> map fst b = map p_name ps.
Proof.
  intros all kws. induction ps as [|p ps IH]; intros pos b H.
  - simpl in H. destruct pos; [|discriminate]. now inversion H.
  - simpl in H. unfold by_default in H.
    assert (Rec : forall pos' sl, omap (cons (p_name p, sl)) (bind_go all ps pos' kws) = Ok b -> map fst b = map p_name (p :: ps)).
    { intros pos' sl E. destruct (bind_go all ps pos' kws) as [b'|] eqn:Eb; [|discriminate]. simpl in E. inversion E; subst.
      simpl. f_equal. eapply IH; eassumption. }
    destruct (p_kind p).
    + destruct pos; [destruct (p_default p); [|discriminate]|]; eapply Rec; eassumption.
    + destruct pos; [destruct (mem (p_name p) kws); [|destruct (p_default p); [|discriminate]]|destruct (mem (p_name p) kws); [discriminate|]];
        eapply Rec; eassumption.
    + eapply Rec; eassumption.
    + destruct (mem (p_name p) kws); [|destruct (p_default p); [|discriminate]]; eapply Rec; eassumption.
    + eapply Rec; eassumption.
Qed.

Lemma bind_go_nil_no_arg : forall all kws ps b, bind_go all ps [] kws = Ok b -> forall n i, ~ In (n, BOne (SArg i)) b.
Proof.
  intros all kws. induction ps as [|p ps IH]; intros b H n i Hin.
  - simpl in H. inversion H; subst. contradiction.
  - simpl in H. unfold by_default in H.
    assert (Rec : forall sl, (forall j, sl <> BOne (SArg j)) -> omap (cons (p_name p, sl)) (bind_go all ps [] kws) = Ok b -> False).
    { intros sl Hsl E. destruct (bind_go all ps [] kws) as [b'|] eqn:Eb; [|discriminate]. simpl in E. inversion E; subst.
      destruct Hin as [E1|Hin]; [inversion E1; subst; eapply Hsl; reflexivity|]. eapply IH; [reflexivity|exact Hin]. }
    destruct (p_kind p).
    + destruct (p_default p); [|discriminate]. eapply Rec; [|exact H]. discriminate.
    + destruct (mem (p_name p) kws); [|destruct (p_default p); [|discriminate]]; (eapply Rec; [|exact H]; discriminate).
    + eapply Rec; [|exact H]. discriminate.
    + destruct (mem (p_name p) kws); [|destruct (p_default p); [|discriminate]]; (eapply Rec; [|exact H]; discriminate).
    + eapply Rec; [|exact H]. discriminate.
Qed.

Lemma nth_app_args : forall (recv args : list value) k v, nth_error args k = Some v -> nth (List.length recv + k) (recv ++ args) VNone = v.
Proof.
  intros recv args k v H. rewrite app_nth2 by lia. replace (List.length recv + k - List.length recv) with k by lia.
  now apply nth_error_nth.
Qed.

Section Positional.
  Variable pc : pedantic_cfg.
  Variable check : ann -> value -> tvenv -> outcome unit * tvenv.
  Variable consumes : ann -> value -> bool.
  Hypothesis good : pc_good pc = true.
  Variable f : fn.
  Variable c : call.
  Variable inst : option value.

  Notation accepted := (accepted check).

  (* FunctionCall._check_type_param and CPython's binding walk the declared parameters in lock-step: the k-th positional value the
     caller wrote goes to the same parameter in both, as long as no defaulted parameter is filled positionally *)
  Lemma lockstep : forall all ps k m idx st st' b0,
    (forall p, In p ps -> p_name p <> self_name /\ p_kind p <> PosOnly) ->
    distinct (map p_name ps) = true ->
    bind_go all ps (map SArg (seq k m)) (kw_names c) = Ok b0 ->
    pass_named pc check consumes f c inst (filter nonstar ps) idx st = Ok st' ->
    idx = List.length (c_recv c) + k -> k + m = List.length (c_args c) ->
    (forall p i, In p ps -> In (p_name p, BOne (SArg i)) b0 -> p_default p = None) ->
    forall p i, In p ps -> In (p_name p, BOne (SArg i)) b0 ->
      exists a v, p_ann p = Some a /\ nth_error (c_args c) i = Some v /\ accepted a v.
  Proof.
    intros all. induction ps as [|q ps IH]; intros k m idx st st' b0 Hps Hd Hb Hpass Hidx Hlen Hnd p i Hin Hslot; [contradiction|].
    assert (Hps' : forall p0, In p0 ps -> p_name p0 <> self_name /\ p_kind p0 <> PosOnly) by (intros; apply Hps; now right).
    simpl in Hd. apply andb_true_iff in Hd as [Hq Hd']. apply negb_true_iff in Hq. rewrite mem_false in Hq.
    simpl in Hb. unfold by_default in Hb.
    (* the entry of q is the only one with q's name *)
    assert (Names : forall pos' b', bind_go all ps pos' (kw_names c) = Ok b' -> forall sl, ~ In (p_name q, sl) b').
    { intros pos' b' Eb sl Hi. apply Hq. rewrite <- (bind_go_names _ _ _ _ _ Eb). now apply (in_map fst) in Hi. }
    (* passing the positional values through to the tail *)
    assert (Thru : forall sl b' pos', bind_go all ps pos' (kw_names c) = Ok b' -> b0 = (p_name q, sl) :: b' ->
              (forall j, sl <> BOne (SArg j)) ->
              (forall k' m' idx' st1, pos' = map SArg (seq k' m') -> idx' = List.length (c_recv c) + k' -> k' + m' = List.length (c_args c) ->
                 pass_named pc check consumes f c inst (filter nonstar ps) idx' st1 = Ok st' ->
                 exists a v, p_ann p = Some a /\ nth_error (c_args c) i = Some v /\ accepted a v) ->
              In p ps -> In (p_name p, BOne (SArg i)) b' -> True).
    { intros; exact I. }
    clear Thru.
    destruct (p_kind q) eqn:Ek.
    - exfalso. destruct (Hps q (or_introl eq_refl)) as [_ Hk]. congruence.
    - (* PosOrKw *)
      assert (Hns : nonstar q = true) by (unfold nonstar, is_star, is_varpos, is_varkw; now rewrite Ek).
      destruct m as [|m'].
      + (* no positional value left: nobody gets one any more *)
        exfalso. simpl in Hb. eapply (bind_go_nil_no_arg all (kw_names c) (q :: ps) b0); [|exact Hslot].
        simpl. unfold by_default. rewrite Ek. exact Hb.
      + simpl in Hb. destruct (mem (p_name q) (kw_names c)) eqn:Em; [discriminate|].
        destruct (bind_go all ps (map SArg (seq (S k) m')) (kw_names c)) as [b'|] eqn:Eb; [|discriminate]. simpl in Hb. inversion Hb; subst b0.
        assert (Hdq : p_default q = None) by (apply (Hnd q k); [now left|now left]).
        simpl filter in Hpass. rewrite Hns in Hpass. cbn [pass_named] in Hpass.
        destruct (p_ann q) as [a|] eqn:Ea; [|discriminate].
        assert (Hkw : kw_get (p_name q) (c_kwargs c) = None) by (apply kw_get_not_mem; exact Em).
        rewrite Hkw, Hdq in Hpass.
        destruct (negb (should_have_kwargs pc f) && Nat.ltb idx (List.length (wargs c))); [|discriminate].
        match type of Hpass with Exn.bind ?m _ = _ => destruct m as [st1|e] eqn:Ec; [|discriminate] end. simpl in Hpass.
        destruct (chk_ok check consumes f c inst _ _ _ _ _ Ec) as [Hacc _].
        destruct Hin as [->|Hin].
        * (* q itself *)
          destruct Hslot as [E|Hs]; [|exfalso; eapply Names; eassumption].
          inversion E; subst i. assert (Hk : k < List.length (c_args c)) by lia.
          destruct (nth_error (c_args c) k) as [v|] eqn:En; [|apply nth_error_None in En; lia].
          exists a, v. repeat split; try assumption. unfold wargs in Hacc. rewrite Hidx in Hacc. now rewrite (nth_app_args _ _ _ _ En) in Hacc.
        * destruct Hslot as [E|Hs]; [inversion E as [[Hn Hi]]; exfalso; apply Hq; rewrite Hn; now apply in_map|].
          eapply (IH (S k) m' (S idx) st1 st' b'); try eassumption; try lia.
          intros p0 i0 Hp0 Hs0. apply (Hnd p0 i0); [now right|now right].
    - (* VarPos: everything that is left goes to *args *)
      exfalso. destruct (bind_go all ps [] (kw_names c)) as [b'|] eqn:Eb; [|discriminate]. simpl in Hb. inversion Hb; subst b0.
      destruct Hslot as [E|Hs]; [discriminate|]. eapply bind_go_nil_no_arg; eassumption.
    - (* KwOnly *)
      assert (Hns : nonstar q = true) by (unfold nonstar, is_star, is_varpos, is_varkw; now rewrite Ek).
      simpl filter in Hpass. rewrite Hns in Hpass. cbn [pass_named] in Hpass.
      destruct (p_ann q) as [a|] eqn:Ea; [|discriminate].
      assert (Step : forall sl b', bind_go all ps (map SArg (seq k m)) (kw_names c) = Ok b' -> b0 = (p_name q, sl) :: b' ->
                (forall j, sl <> BOne (SArg j)) ->
                forall st1, pass_named pc check consumes f c inst (filter nonstar ps) idx st1 = Ok st' ->
                exists a0 v, p_ann p = Some a0 /\ nth_error (c_args c) i = Some v /\ accepted a0 v).
      { intros sl b' Eb E0 Hsl st1 Hp1. subst b0.
        destruct Hin as [->|Hin]; [destruct Hslot as [E|Hs]; [inversion E; subst; exfalso; eapply Hsl; reflexivity|exfalso; eapply Names; eassumption]|].
        destruct Hslot as [E|Hs]; [inversion E as [[Hn Hi]]; exfalso; apply Hq; rewrite Hn; now apply in_map|].
        eapply (IH k m idx st1 st' b'); try eassumption.
        intros p0 i0 Hp0 Hs0. apply (Hnd p0 i0); [now right|now right]. }
      destruct (mem (p_name q) (kw_names c)) eqn:Em.
      + destruct (bind_go all ps (map SArg (seq k m)) (kw_names c)) as [b'|] eqn:Eb; [|discriminate]. simpl in Hb. inversion Hb.
        destruct (kw_get_mem_some _ _ Em) as [v0 Hv0]. rewrite Hv0 in Hpass.
        match type of Hpass with Exn.bind ?m0 _ = _ => destruct m0 as [st1|e] eqn:Ec; [|discriminate] end. simpl in Hpass.
        eapply Step; [reflexivity|symmetry; eassumption| |exact Hpass]. discriminate.
      + destruct (p_default q) as [d|] eqn:Edq; [|discriminate].
        destruct (bind_go all ps (map SArg (seq k m)) (kw_names c)) as [b'|] eqn:Eb; [|discriminate]. simpl in Hb. inversion Hb.
        rewrite (kw_get_not_mem _ _ Em) in Hpass.
        match type of Hpass with Exn.bind ?m0 _ = _ => destruct m0 as [st1|e] eqn:Ec; [|discriminate] end. simpl in Hpass.
        eapply Step; [reflexivity|symmetry; eassumption| |exact Hpass]. discriminate.
    - (* VarKw *)
      assert (Hns : nonstar q = false) by (unfold nonstar, is_star, is_varpos, is_varkw; rewrite Ek; now rewrite orb_true_r).
      simpl filter in Hpass. rewrite Hns in Hpass.
      destruct (bind_go all ps (map SArg (seq k m)) (kw_names c)) as [b'|] eqn:Eb; [|discriminate]. simpl in Hb. inversion Hb; subst b0.
      destruct Hin as [->|Hin]; [destruct Hslot as [E|Hs]; [discriminate|exfalso; eapply Names; eassumption]|].
      destruct Hslot as [E|Hs]; [inversion E as [[Hn Hi]]; exfalso; apply Hq; rewrite Hn; now apply in_map|].
      eapply (IH k m idx st st' b'); try eassumption.
      intros p0 i0 Hp0 Hs0. apply (Hnd p0 i0); [now right|now right].
  Qed.
End Positional.

Lemma find_param_complete' : forall ps p, distinct (map p_name ps) = true -> In p ps -> find_param (p_name p) ps = Some p.
Proof.
  induction ps as [|q ps IH]; simpl; intros p D Hin; [contradiction|].
  apply andb_true_iff in D as [D1 D2]. destruct Hin as [->|Hin].
  - now rewrite Nat.eqb_refl.
  - destruct (Nat.eqb (p_name q) (p_name p)) eqn:E; [|auto].
    exfalso. apply Nat.eqb_eq in E. apply negb_true_iff in D1. apply mem_false in D1. apply D1. rewrite E. now apply in_map.
Qed.

Lemma filter_all' : forall {A} (g : A -> bool) l, forallb g l = true -> filter g l = l.
Proof. intros A g. induction l as [|x l IH]; simpl; intros H; [reflexivity|]. apply andb_true_iff in H as [H1 H2]. rewrite H1. f_equal. auto. Qed.

Section PositionalGuard.
  Variable pc : pedantic_cfg.
  Variable check : ann -> value -> tvenv -> outcome unit * tvenv.
  Variable consumes : ann -> value -> bool.
  Hypothesis good : pc_good pc = true.

  (* every positional value CPython binds to a named parameter has been accepted by the checker when the argument phase
     succeeds - provided no defaulted parameter is filled positionally and the receiver record is consistent *)
  Lemma positional_accepted : forall f c inst st' b,
    sig_ok f = true -> recv_consistent f c -> twin_binding f c = Ok b -> no_defaulted_positional f b = true ->
    args_phase pc check consumes f c inst astate0 = Ok st' ->
    forall oa v, In (oa, v) (positional_values f c b) -> exists a, oa = Some a /\ accepted check a v.
  Proof.
    intros f c inst st' b Hsig Hrc Hb Hnd Hargs oa v Hin.
    rewrite (args_phase_ref pc check consumes good) in Hargs.
    destruct (run_pass pc check consumes f c inst PNamed astate0) as [st1|e] eqn:E1; [|discriminate]. clear Hargs.
    unfold run_pass in E1.
    pose proof Hsig as Hs0. unfold sig_ok in Hs0. repeat (apply andb_true_iff in Hs0; destruct Hs0 as [Hs0 ?]).
    rename Hs0 into Hnopos, H into Hbound, H0 into Hnoself, H1 into Hdist.
    (* the common core: the declared parameters ps are bound from the caller's positional values alone *)
    assert (Core : forall ps b0, declared f = ps -> params_without_self f = ps -> incl ps (f_params f) ->
              (if is_instance_method f then 1 else 0) = List.length (c_recv c) ->
              bind_go (full_params f) ps (arg_srcs c) (kw_names c) = Ok b0 -> (forall x, In x (positional_values f c b) -> In x (positional_values f c b0)) ->
              (forall x, In x b0 -> In x b) ->
              exists a, oa = Some a /\ accepted check a v).
    { intros ps b0 Hdecl Hpws Hincl Hstart Hb0 Hpv Hsub. specialize (Hpv _ Hin). clear Hin.
      unfold positional_values in Hpv. apply in_flat_map in Hpv as [[n sl] [Hnb Hv]]. simpl in Hv.
      destruct (find_param n (declared f)) as [p|] eqn:Ef; [|contradiction].
      destruct sl as [[o|i|k|k]|l|ks]; try contradiction.
      destruct (nth_error (c_args c) i) as [v0|] eqn:En; simpl in Hv; [|contradiction]. destruct Hv as [E|[]]. inversion E; subst oa v0. clear E.
      destruct (find_param_spec _ _ _ Ef) as [Hpd Hpn]. subst n. rewrite Hdecl in Hpd.
      assert (Hd' : distinct (map p_name ps) = true).
      { rewrite <- Hdecl. unfold declared. destruct (f_recv f); [|assumption].
        destruct (full_params f) as [|r rest]; [reflexivity|]. simpl in Hdist. now apply andb_true_iff in Hdist as [_ Hdist]. }
      rewrite Hpws in E1.
      destruct (lockstep pc check consumes f c inst (full_params f) ps 0 (List.length (c_args c)) (if is_instance_method f then 1 else 0) astate0 st1 b0) with (p := p) (i := i)
        as [a [v1 [Ha [Hn1 Hacc]]]]; try assumption; try lia.
      - intros q Hq. split.
        + rewrite <- Hdecl in Hq. rewrite forallb_forall in Hnoself. specialize (Hnoself q Hq). apply negb_true_iff in Hnoself.
          now apply Nat.eqb_neq in Hnoself.
        + unfold no_posonly in Hnopos. rewrite forallb_forall in Hnopos. specialize (Hnopos q (Hincl q Hq)). intros Hk. now rewrite Hk in Hnopos.
      - intros q j Hq Hs. unfold no_defaulted_positional in Hnd. rewrite forallb_forall in Hnd. specialize (Hnd _ (Hsub _ Hs)). simpl in Hnd.
        rewrite Hdecl, (find_param_complete' _ _ Hd' Hq) in Hnd. unfold no_default in Hnd. destruct (p_default q); [discriminate|reflexivity].
      - exists a. split; [assumption|]. rewrite En in Hn1. now inversion Hn1; subst. }
    unfold twin_binding, py_bind in Hb.
    destruct (forallb (fun k => mem k (kw_param_names (full_params f)) || has_varkw (full_params f)) (kw_names c)); [|discriminate].
    destruct Hrc as [S1|[S2|S3]].
    - destruct S1 as [Hbd [Hrecv [Hfa [r [rest [x [Hps [Hn [Hk [Hd [Hrc [Htw Hm]]]]]]]]]]]].
      assert (Hfull : full_params f = r :: rest) by (unfold full_params, func_params; now rewrite Hbd).
      unfold twin_pos in Hb. rewrite Htw, Hfull in Hb. simpl in Hb. rewrite Hk, Hn, Hm in Hb.
      destruct (bind_go (r :: rest) rest (arg_srcs c) (kw_names c)) as [b0|] eqn:Eb0; [|discriminate]. simpl in Hb. inversion Hb; subst b.
      assert (Hdecl : declared f = rest) by (unfold declared; now rewrite Hrecv, Hfull).
      apply (Core rest b0); try assumption.
      + unfold params_without_self. rewrite Hps. simpl. rewrite Hn. simpl. rewrite Hdecl in Hnoself. now apply filter_all'.
      + rewrite Hps. intros q Hq. now right.
      + unfold is_instance_method. rewrite Hfa, Hrc. reflexivity.
      + now rewrite Hfull.
      + intros y Hy. unfold positional_values in *. simpl in Hy. destruct (find_param self_name (declared f)); assumption.
      + intros y Hy. now right.
    - destruct S2 as [Hbd [Hrecv [Hinst [Hrc Htw]]]]. specialize (Hrc eq_refl).
      assert (Hfull : full_params f = f_params f) by (unfold full_params, func_params; now rewrite Hbd).
      unfold twin_pos in Hb. rewrite Htw in Hb. simpl in Hb.
      assert (Hdecl : declared f = f_params f) by (unfold declared; now rewrite Hrecv, Hfull).
      apply (Core (f_params f) b); try assumption; try auto.
      + unfold params_without_self. rewrite Hdecl in Hnoself. now apply filter_all'.
      + intros q Hq; exact Hq.
      + now rewrite Hinst, Hrc.
      + now rewrite Hfull in *.
    - destruct S3 as [n [o [x [Hbd [Hinst [Hrc [Htw Hm]]]]]]]. specialize (Hrc eq_refl).
      assert (Hfull : full_params f = bound_param n :: f_params f) by (unfold full_params, func_params; now rewrite Hbd).
      assert (Hrecv : f_recv f = true) by (rewrite Hbd in Hbound; exact Hbound).
      unfold twin_pos in Hb. rewrite Htw, Hfull in Hb. simpl in Hb. rewrite Hm in Hb.
      destruct (bind_go (bound_param n :: f_params f) (f_params f) (arg_srcs c) (kw_names c)) as [b0|] eqn:Eb0; [|discriminate]. simpl in Hb. inversion Hb; subst b.
      assert (Hdecl : declared f = f_params f) by (unfold declared; now rewrite Hrecv, Hfull).
      apply (Core (f_params f) b0); try assumption.
      + unfold params_without_self. rewrite Hdecl in Hnoself. now apply filter_all'.
      + intros q Hq; exact Hq.
      + now rewrite Hinst, Hrc.
      + now rewrite Hfull.
      + intros y Hy. unfold positional_values in *. simpl in Hy. destruct (find_param n (declared f)); assumption.
      + intros y Hy. now right.
  Qed.

  Theorem positional_guard : forall f c bd b a v,
    sig_ok f = true -> recv_consistent f c -> twin_binding f c = Ok b -> no_defaulted_positional f b = true ->
    In (Some a, v) (positional_values f c b) -> rejected check a v ->
    snd (run pc check consumes f c bd) = [] /\ exists e, fst (run pc check consumes f c bd) = Raise e.
  Proof.
    intros f c bd b a v Hsig Hrc Hb Hnd Hin Hrej. rewrite (run_is_ref pc check consumes good). unfold run_ref.
    destruct (instance_of f c) as [inst|e]; [|simpl; split; eauto].
    destruct (assert_uses_kwargs pc f c) as [u|e]; [|simpl; split; eauto].
    destruct (args_phase pc check consumes f c inst astate0) as [st|e] eqn:Ea; [|simpl; split; eauto].
    exfalso. destruct (positional_accepted f c inst st b Hsig Hrc Hb Hnd Ea _ _ Hin) as [a' [E Hacc]].
    inversion E; subst. eapply rejected_not_accepted; eassumption.
  Qed.
End PositionalGuard.
