(* C03: FunctionCall._check_type_param and CPython's binding of the call walk the declared parameters in lock-step (since /repo
   f0d33a4, b2616e5): every value CPython binds to a named parameter - by keyword, positionally (whether or not the parameter has a
   default), by default - and every element of *args / value of **kwargs has been handed to the checker when the argument phase
   succeeds.  The receiver is described over ground-truth fields (`recv_consistent` / `recv_known`).                     *)
From Coq Require Import List Arith Bool String Lia.
From PV Require Import Base.Exn Base.Values Base.Ann Base.PyCall Model.CheckerCfg Model.Checker Model.PedanticCfg
  Model.Pedantic Spec.Conforms Spec.PedanticSpec Proofs.PedanticBase Proofs.PyCallFacts Proofs.PedanticC05 Proofs.PedanticC03.
Import ListNotations.
Open Scope list_scope.

(* how the receiver reaches the wrapper and the undecorated callable, over ground-truth fields only.
   strict = false additionally admits a wrapper that receives an instance the undecorated callable does not get (static and class
   methods of a @pedantic_class reached through an instance) *)
Definition recv_described (strict : bool) (f : fn) (c : call) : Prop :=
  (* a method whose receiver parameter is called self, called with its receiver (through an instance, or explicitly) *)
  (f_bound f = None /\ f_recv f = true /\ f_first_arg f = Some self_name /\
   exists r rest x, f_params f = r :: rest /\ p_name r = self_name /\ p_kind r = PosOrKw /\ p_default r = None
                    /\ c_recv c = [x] /\ c_twin_recv c = [x] /\ mem self_name (kw_names c) = false)
  \/ (* a function or a static method: the undecorated callable gets no receiver *)
  (f_bound f = None /\ f_recv f = false /\ is_instance_method f = false /\ (strict = true -> c_recv c = []) /\ c_twin_recv c = [])
  \/ (* a class method as @pedantic_class sees it (bound to the class), called through the class *)
  (exists n o x, f_bound f = Some (n, o) /\ is_instance_method f = false /\ (strict = true -> c_recv c = []) /\ c_twin_recv c = [x]
                 /\ mem n (kw_names c) = false).
Definition recv_consistent := recv_described true.
Definition recv_known := recv_described false.

Lemma recv_consistent_known : forall f c, recv_consistent f c -> recv_known f c.
Proof.
  intros f c [S1|[[A [B [C [D E]]]]|[n [o [x [A [B [C D]]]]]]]]; [left; exact S1|right; left|right; right].
  - repeat split; try assumption. intros; discriminate.
  - exists n, o, x. repeat split; try apply D; try assumption. intros; discriminate.
Qed.

Lemma kw_get_none_mem : forall k kws, kw_get k kws = None -> mem k (map fst kws) = false.
Proof.
  intros k kws H. destruct (mem k (map fst kws)) eqn:E; [|reflexivity].
  destruct (kw_get_mem_some _ _ E) as [v Hv]. congruence.
Qed.

Lemma bind_go_names : forall all kws ps pos b, bind_go all ps pos kws = Ok b -> map fst b = map p_name ps.
Proof.
  intros all kws. induction ps as [|p ps IH]; intros pos b H.
  - simpl in H. destruct pos; [|discriminate]. now inversion H.
  - simpl in H. unfold by_default in H.
    assert (Rec : forall pos' sl, omap (cons (p_name p, sl)) (bind_go all ps pos' kws) = Ok b -> map fst b = map p_name (p :: ps)).
    { intros pos' sl E. destruct (bind_go all ps pos' kws) as [b'|] eqn:Eb; [|discriminate]. simpl in E. inversion E; subst.
      simpl. f_equal. eapply IH; eassumption. }
    destruct (p_kind p).
    + destruct pos; [destruct (p_default p); [|discriminate]|]; eapply Rec; eassumption.
    + destruct pos; [destruct (mem (p_name p) kws); [|destruct (p_default p); [|discriminate]]|destruct (mem (p_name p) kws); [discriminate|]];
        eapply Rec; eassumption.
    + eapply Rec; eassumption.
    + destruct (mem (p_name p) kws); [|destruct (p_default p); [|discriminate]]; eapply Rec; eassumption.
    + eapply Rec; eassumption.
Qed.

Lemma nth_app_args : forall (recv args : list value) k v, nth_error args k = Some v -> nth (List.length recv + k) (recv ++ args) VNone = v.
Proof.
  intros recv args k v H. rewrite app_nth2 by lia. replace (List.length recv + k - List.length recv) with k by lia.
  now apply nth_error_nth.
Qed.

Lemma find_param_complete' : forall ps p, distinct (map p_name ps) = true -> In p ps -> find_param (p_name p) ps = Some p.
Proof.
  induction ps as [|q ps IH]; simpl; intros p D Hin; [contradiction|].
  apply andb_true_iff in D as [D1 D2]. destruct Hin as [->|Hin].
  - now rewrite Nat.eqb_refl.
  - destruct (Nat.eqb (p_name q) (p_name p)) eqn:E; [|auto].
    exfalso. apply Nat.eqb_eq in E. apply negb_true_iff in D1. apply mem_false in D1. apply D1. rewrite E. now apply in_map.
Qed.

Lemma filter_all' : forall {A} (g : A -> bool) l, forallb g l = true -> filter g l = l.
Proof. intros A g. induction l as [|x l IH]; simpl; intros H; [reflexivity|]. apply andb_true_iff in H as [H1 H2]. rewrite H1. f_equal. auto. Qed.


Definition nonstar (p : param) : bool := negb (is_star p).

Lemma wargs_length : forall c, List.length (wargs c) = List.length (c_recv c) + List.length (c_args c).
Proof. intros c. unfold wargs. now rewrite app_length. Qed.

(* the entry of the head parameter is the only one that carries its name *)
Lemma entry_cases : forall q ps slq (b' : binding) p sl, ~ In (p_name q) (map p_name ps) -> map fst b' = map p_name ps ->
  In p (q :: ps) -> In (p_name p, sl) ((p_name q, slq) :: b') -> (p = q /\ sl = slq) \/ (In p ps /\ In (p_name p, sl) b').
Proof.
  intros q ps slq b' p sl Hq Hn [<-|Hp] [E|Hs].
  - inversion E. now left.
  - exfalso. apply Hq. rewrite <- Hn. now apply (in_map fst) in Hs.
  - exfalso. apply Hq. inversion E as [[En Es]]. rewrite En. now apply in_map.
  - now right.
Qed.

Section Lockstep.
  Variable pc : pedantic_cfg.
  Variable check : ann -> value -> tvenv -> outcome unit * tvenv.
  Variable consumes : ann -> value -> bool.
  Hypothesis good : pc_good pc = true.
  Variable f : fn.
  Variable c : call.
  Variable inst : option value.

  Notation accepted := (accepted check).
  Notation pass_named := (pass_named pc check consumes f c inst).
  Notation chk := (chk check consumes f c inst).

  Definition pos_on (p : param) (idx : nat) : bool :=
    takes_positional p && negb (should_have_kwargs pc f) && Nat.ltb idx (List.length (wargs c)).

  (* one step of the first pass on a named parameter: which value it hands to the checker *)
  Lemma pass_named_step : forall q ps idx st st', nonstar q = true ->
    pass_named (filter nonstar (q :: ps)) idx st = Ok st' ->
    exists a v s idx' st2, p_ann q = Some a /\ accepted a v /\ a_idx st2 = a_idx st /\
      a_checked st2 = (if takes_keyword q then a_checked st ++ [p_name q] else a_checked st) /\
      chk a v s {| a_tv := a_tv st; a_cons := a_cons st;
                   a_checked := if takes_keyword q then a_checked st ++ [p_name q] else a_checked st; a_idx := a_idx st |} = Ok st2 /\
      pass_named (filter nonstar ps) idx' st2 = Ok st' /\
      ((takes_keyword q = true /\ kw_get (p_name q) (c_kwargs c) = Some v /\ idx' = idx)
       \/ ((takes_keyword q = false \/ kw_get (p_name q) (c_kwargs c) = None) /\ pos_on q idx = true
           /\ v = nth idx (wargs c) VNone /\ idx' = S idx)
       \/ ((takes_keyword q = false \/ kw_get (p_name q) (c_kwargs c) = None) /\ pos_on q idx = false
           /\ p_default q = Some v /\ idx' = idx)).
  Proof.
    intros q ps idx st st' Hns H. simpl filter in H. rewrite Hns in H. cbn [Pedantic.pass_named] in H.
    destruct (p_ann q) as [a|] eqn:Ea; [|discriminate].
    set (st1 := {| a_tv := a_tv st; a_cons := a_cons st;
                   a_checked := if takes_keyword q then a_checked st ++ [p_name q] else a_checked st; a_idx := a_idx st |}) in *.
    assert (Fin : forall v s idx', Exn.bind (chk a v s st1) (pass_named (filter nonstar ps) idx') = Ok st' ->
              exists st2, accepted a v /\ a_idx st2 = a_idx st /\ a_checked st2 = a_checked st1 /\ chk a v s st1 = Ok st2 /\
                          pass_named (filter nonstar ps) idx' st2 = Ok st').
    { intros v s idx' Hb. destruct (chk a v s st1) as [st2|e] eqn:Ec; [|discriminate]. simpl in Hb.
      destruct (chk_ok check consumes f c inst _ _ _ _ _ Ec) as [Hacc [Hch Hix]]. exists st2. repeat split; assumption. }
    fold (pos_on q idx) in H.
    destruct (takes_keyword q) eqn:Etk.
    - destruct (kw_get (p_name q) (c_kwargs c)) as [v|] eqn:Ek.
      + destruct (Fin _ _ _ H) as [st2 [Hacc [Hi [Hc [Hk Hp]]]]]. exists a, v, (SKw (p_name q)), idx, st2.
        repeat split; try assumption. left. repeat split; reflexivity.
      + destruct (pos_on q idx) eqn:Epo.
        * destruct (Fin _ _ _ H) as [st2 [Hacc [Hi [Hc [Hk Hp]]]]]. eexists a, _, _, (S idx), st2.
          repeat split; try eassumption. right. left. repeat split; auto.
        * destruct (p_default q) as [d|] eqn:Ed; [|discriminate].
          destruct (Fin _ _ _ H) as [st2 [Hacc [Hi [Hc [Hk Hp]]]]]. eexists a, d, _, idx, st2.
          repeat split; try eassumption. right. right. repeat split; auto.
    - destruct (pos_on q idx) eqn:Epo.
      + destruct (Fin _ _ _ H) as [st2 [Hacc [Hi [Hc [Hk Hp]]]]]. eexists a, _, _, (S idx), st2.
        repeat split; try eassumption. right. left. repeat split; auto.
      + destruct (p_default q) as [d|] eqn:Ed; [|discriminate].
        destruct (Fin _ _ _ H) as [st2 [Hacc [Hi [Hc [Hk Hp]]]]]. eexists a, d, _, idx, st2.
        repeat split; try eassumption. right. right. repeat split; auto.
  Qed.

  (* parameters that take no positional value do not advance the index of the positional values *)
  Lemma pass_named_idx : forall ps idx st st', (forall q, In q ps -> takes_positional q = false) ->
    pass_named (filter nonstar ps) idx st = Ok st' -> a_idx st' = idx.
  Proof.
    induction ps as [|q ps IH]; intros idx st st' Hn H.
    - simpl in H. inversion H; subst. reflexivity.
    - destruct (nonstar q) eqn:Ens.
      + destruct (pass_named_step q ps idx st st' Ens H) as [a [v [s [idx' [st2 [_ [_ [_ [_ [_ [Hp Hcase]]]]]]]]]]].
        assert (idx' = idx).
        { destruct Hcase as [[_ [_ E]]|[[_ [Hpo _]]|[_ [_ [_ E]]]]]; try assumption.
          unfold pos_on in Hpo. rewrite (Hn q (or_introl eq_refl)) in Hpo. discriminate. }
        subst idx'. eapply IH; [|exact Hp]. intros; apply Hn; now right.
      + simpl filter in H. rewrite Ens in H. eapply IH; [|exact H]. intros; apply Hn; now right.
  Qed.

  (* where the walk of the first pass stands relative to CPython's: k positional values are bound, m are left *)
  Definition aligned (k m idx : nat) : Prop :=
    (m = 0 /\ (should_have_kwargs pc f = true \/ List.length (wargs c) <= idx))
    \/ (m <> 0 /\ should_have_kwargs pc f = false /\ idx = List.length (c_recv c) + k /\ k + m = List.length (c_args c)).

  Definition slot_fine (p : param) (sl : slot) : Prop :=
    match sl with
    | BOne (SArg i) => exists a v, p_ann p = Some a /\ nth_error (c_args c) i = Some v /\ accepted a v
    | BOne (SKw n) => n = p_name p /\ exists a v, p_ann p = Some a /\ kw_get (p_name p) (c_kwargs c) = Some v /\ accepted a v
    | BOne (SDefault n) => exists a d, p_ann p = Some a /\ p_default p = Some d /\ accepted a d
    | _ => True
    end.

  Lemma lockstep : forall all ps k m idx st st' b0,
    distinct (map p_name ps) = true -> star_last ps = true ->
    bind_go all ps (map SArg (seq k m)) (kw_names c) = Ok b0 ->
    pass_named (filter nonstar ps) idx st = Ok st' ->
    ((exists q, In q ps /\ takes_positional q = true) -> aligned k m idx) ->
    idx <= List.length (c_recv c) + k ->
    (forall p sl, In p ps -> In (p_name p, sl) b0 -> slot_fine p sl)
    /\ (forall n l i, In (n, BStar l) b0 -> In (SArg i) l -> a_idx st' <= List.length (c_recv c) + i)
    /\ a_checked st' = a_checked st ++ map p_name (filter takes_keyword (filter nonstar ps)).
  Proof.
    intros all. induction ps as [|q ps IH]; intros k m idx st st' b0 Hd Hsl Hb Hpass Hal Hweak.
    { simpl in Hb. destruct (map SArg (seq k m)); [|discriminate]. inversion Hb; subst.
      simpl in Hpass. inversion Hpass; subst. simpl. rewrite app_nil_r. repeat split; try reflexivity; intros; contradiction. }
    simpl in Hd. apply andb_true_iff in Hd as [Hq Hd']. apply negb_true_iff in Hq. rewrite mem_false in Hq.
    simpl in Hsl. apply andb_true_iff in Hsl as [Hsq Hsl'].
    assert (Fin : forall slq b' k' m' idx' st2,
              bind_go all ps (map SArg (seq k' m')) (kw_names c) = Ok b' -> b0 = (p_name q, slq) :: b' ->
              pass_named (filter nonstar ps) idx' st2 = Ok st' ->
              ((exists r, In r ps /\ takes_positional r = true) -> aligned k' m' idx') -> idx' <= List.length (c_recv c) + k' ->
              slot_fine q slq ->
              (forall l i, slq = BStar l -> In (SArg i) l -> a_idx st' <= List.length (c_recv c) + i) ->
              (forall p sl, In p (q :: ps) -> In (p_name p, sl) b0 -> slot_fine p sl)
              /\ (forall n l i, In (n, BStar l) b0 -> In (SArg i) l -> a_idx st' <= List.length (c_recv c) + i)
              /\ a_checked st' = a_checked st2 ++ map p_name (filter takes_keyword (filter nonstar ps))).
    { intros slq b' k' m' idx' st2 Eb E0 Hp Ha Hw Hfq Hstar. subst b0.
      destruct (IH k' m' idx' st2 st' b' Hd' Hsl' Eb Hp Ha Hw) as [H1 [H2 H3]].
      pose proof (bind_go_names _ _ _ _ _ Eb) as Hn.
      split; [|split; [|exact H3]].
      - intros p sl Hin Hs. destruct (entry_cases q ps slq b' p sl Hq Hn Hin Hs) as [[-> ->]|[Hp' Hs']]; [assumption|now apply H1].
      - intros n l i [E|Hs] Hi; [inversion E; subst; eapply Hstar; [reflexivity|eassumption]|eapply H2; eassumption]. }
    assert (Off : forall r, (should_have_kwargs pc f = true \/ List.length (wargs c) <= idx) -> pos_on r idx = false).
    { intros r Hoff. unfold pos_on. destruct Hoff as [Hs|Hl]; [rewrite Hs; simpl; now rewrite andb_false_r|].
      replace (Nat.ltb idx (List.length (wargs c))) with false by (symmetry; apply Nat.ltb_ge; lia). now rewrite andb_false_r. }
    assert (Next : forall m', k + S m' = List.length (c_args c) -> should_have_kwargs pc f = false -> idx = List.length (c_recv c) + k ->
              aligned (S k) m' (S idx)).
    { intros m' Hlen Hshk Hidx. destruct m' as [|m'']; [left; split; [reflexivity|right; rewrite wargs_length; lia]|].
      right. repeat split; try assumption; try lia. }
    simpl in Hb. unfold by_default in Hb.
    destruct (p_kind q) eqn:Ek.
    - (* positional-only *)
      assert (Hns : nonstar q = true) by (unfold nonstar, is_star, is_varpos, is_varkw; now rewrite Ek).
      assert (Htp : takes_positional q = true) by (unfold takes_positional; now rewrite Ek).
      assert (Htk : takes_keyword q = false) by (unfold takes_keyword; now rewrite Ek).
      specialize (Hal (ex_intro _ q (Logic.conj (or_introl eq_refl) Htp))).
      destruct (pass_named_step q ps idx st st' Hns Hpass) as [a [v [s [idx' [st2 [Ha [Hacc [Hi2 [Hc2 [_ [Hp Hcase]]]]]]]]]]].
      rewrite Htk in Hc2.
      assert (Hchk : a_checked st' = a_checked st2 ++ map p_name (filter takes_keyword (filter nonstar ps)) ->
                a_checked st' = a_checked st ++ map p_name (filter takes_keyword (filter nonstar (q :: ps)))).
      { intros H3. rewrite H3, Hc2. simpl filter. rewrite Hns. simpl filter. now rewrite Htk. }
      destruct m as [|m'].
      + simpl in Hb. destruct (p_default q) as [d|] eqn:Edq; [|discriminate].
        destruct (bind_go all ps [] (kw_names c)) as [b'|] eqn:Eb; [|discriminate]. simpl in Hb. inversion Hb as [Hb0].
        destruct Hal as [[_ Hoff]|[Hm _]]; [|congruence].
        pose proof (Off q Hoff) as Hpo.
        destruct Hcase as [[Ht _]|[[_ [Hpo' _]]|[_ [_ [Edv ->]]]]]; [congruence|congruence|].
        inversion Edv; subst v.
        assert (A1 : (exists r, In r ps /\ takes_positional r = true) -> aligned k 0 idx) by (intros _; left; split; [reflexivity|exact Hoff]).
        assert (A2 : slot_fine q (BOne (SDefault (p_name q)))) by (simpl; exists a, d; repeat split; assumption).
        destruct (Fin _ b' k 0 idx st2 Eb (eq_sym Hb0) Hp A1 Hweak A2 ltac:(intros; discriminate)) as [H1 [H2 H3]].
        try rewrite Hb0. split; [assumption|]. split; [assumption|]. now apply Hchk.
      + simpl in Hb. destruct (bind_go all ps (map SArg (seq (S k) m')) (kw_names c)) as [b'|] eqn:Eb; [|discriminate]. simpl in Hb. inversion Hb as [Hb0].
        destruct Hal as [[Hm _]|[_ [Hshk [Hidx Hlen]]]]; [discriminate|].
        assert (Hpo : pos_on q idx = true).
        { unfold pos_on. rewrite Htp, Hshk. simpl. apply Nat.ltb_lt. rewrite wargs_length. lia. }
        destruct Hcase as [[Ht _]|[[_ [_ [Ev ->]]]|[_ [Hpo' _]]]]; [congruence| |congruence].
        assert (Hk : k < List.length (c_args c)) by lia.
        destruct (nth_error (c_args c) k) as [v0|] eqn:En; [|apply nth_error_None in En; lia].
        assert (v = v0) by (subst v; unfold wargs; rewrite Hidx; now apply nth_app_args). subst v0.
        assert (A1 : (exists r, In r ps /\ takes_positional r = true) -> aligned (S k) m' (S idx)) by (intros _; now apply Next).
        assert (A2 : slot_fine q (BOne (SArg k))) by (simpl; exists a, v; repeat split; assumption).
        destruct (Fin _ b' (S k) m' (S idx) st2 Eb (eq_sym Hb0) Hp A1 ltac:(lia) A2 ltac:(intros; discriminate)) as [H1 [H2 H3]].
        try rewrite Hb0. split; [assumption|]. split; [assumption|]. now apply Hchk.
    - (* positional-or-keyword *)
      assert (Hns : nonstar q = true) by (unfold nonstar, is_star, is_varpos, is_varkw; now rewrite Ek).
      assert (Htp : takes_positional q = true) by (unfold takes_positional; now rewrite Ek).
      assert (Htk : takes_keyword q = true) by (unfold takes_keyword; now rewrite Ek).
      specialize (Hal (ex_intro _ q (Logic.conj (or_introl eq_refl) Htp))).
      destruct (pass_named_step q ps idx st st' Hns Hpass) as [a [v [s [idx' [st2 [Ha [Hacc [Hi2 [Hc2 [_ [Hp Hcase]]]]]]]]]]].
      rewrite Htk in Hc2.
      assert (Hchk : a_checked st' = a_checked st2 ++ map p_name (filter takes_keyword (filter nonstar ps)) ->
                a_checked st' = a_checked st ++ map p_name (filter takes_keyword (filter nonstar (q :: ps)))).
      { intros H3. rewrite H3, Hc2. simpl filter. rewrite Hns. simpl filter. rewrite Htk. simpl. now rewrite <- app_assoc. }
      destruct m as [|m'].
      + simpl in Hb.
        destruct Hal as [[_ Hoff]|[Hm _]]; [|congruence].
        pose proof (Off q Hoff) as Hpo.
        assert (A1 : (exists r, In r ps /\ takes_positional r = true) -> aligned k 0 idx) by (intros _; left; split; [reflexivity|exact Hoff]).
        destruct (mem (p_name q) (kw_names c)) eqn:Em.
        * destruct (bind_go all ps [] (kw_names c)) as [b'|] eqn:Eb; [|discriminate]. simpl in Hb. inversion Hb as [Hb0].
          destruct (kw_get_mem_some _ _ Em) as [v0 Hv0].
          destruct Hcase as [[_ [Ev ->]]|[[[Ht|Hkn] _]|[[Ht|Hkn] _]]]; try congruence.
          assert (A2 : slot_fine q (BOne (SKw (p_name q)))) by (simpl; split; [reflexivity|]; exists a, v; repeat split; assumption).
          destruct (Fin _ b' k 0 idx st2 Eb (eq_sym Hb0) Hp A1 Hweak A2 ltac:(intros; discriminate)) as [H1 [H2 H3]].
          try rewrite Hb0. split; [assumption|]. split; [assumption|]. now apply Hchk.
        * destruct (p_default q) as [d|] eqn:Edq; [|discriminate].
          destruct (bind_go all ps [] (kw_names c)) as [b'|] eqn:Eb; [|discriminate]. simpl in Hb. inversion Hb as [Hb0].
          pose proof (kw_get_not_mem _ _ Em) as Hkn.
          destruct Hcase as [[_ [Ev _]]|[[_ [Hpo' _]]|[_ [_ [Edv ->]]]]]; [congruence|congruence|].
          inversion Edv; subst v.
          assert (A2 : slot_fine q (BOne (SDefault (p_name q)))) by (simpl; exists a, d; repeat split; assumption).
          destruct (Fin _ b' k 0 idx st2 Eb (eq_sym Hb0) Hp A1 Hweak A2 ltac:(intros; discriminate)) as [H1 [H2 H3]].
          try rewrite Hb0. split; [assumption|]. split; [assumption|]. now apply Hchk.
      + simpl in Hb. destruct (mem (p_name q) (kw_names c)) eqn:Em; [discriminate|].
        destruct (bind_go all ps (map SArg (seq (S k) m')) (kw_names c)) as [b'|] eqn:Eb; [|discriminate]. simpl in Hb. inversion Hb as [Hb0].
        pose proof (kw_get_not_mem _ _ Em) as Hkn.
        destruct Hal as [[Hm _]|[_ [Hshk [Hidx Hlen]]]]; [discriminate|].
        assert (Hpo : pos_on q idx = true).
        { unfold pos_on. rewrite Htp, Hshk. simpl. apply Nat.ltb_lt. rewrite wargs_length. lia. }
        destruct Hcase as [[_ [Ev _]]|[[_ [_ [Ev ->]]]|[_ [Hpo' _]]]]; [congruence| |congruence].
        assert (Hk : k < List.length (c_args c)) by lia.
        destruct (nth_error (c_args c) k) as [v0|] eqn:En; [|apply nth_error_None in En; lia].
        assert (v = v0) by (subst v; unfold wargs; rewrite Hidx; now apply nth_app_args). subst v0.
        assert (A1 : (exists r, In r ps /\ takes_positional r = true) -> aligned (S k) m' (S idx)) by (intros _; now apply Next).
        assert (A2 : slot_fine q (BOne (SArg k))) by (simpl; exists a, v; repeat split; assumption).
        destruct (Fin _ b' (S k) m' (S idx) st2 Eb (eq_sym Hb0) Hp A1 ltac:(lia) A2 ltac:(intros; discriminate)) as [H1 [H2 H3]].
        try rewrite Hb0. split; [assumption|]. split; [assumption|]. now apply Hchk.
    - (* *args takes every positional value that is left; no parameter behind it takes one *)
      assert (Hns : nonstar q = false) by (unfold nonstar, is_star, is_varpos, is_varkw; now rewrite Ek).
      assert (Hvp : is_varpos q = true) by (unfold is_varpos; now rewrite Ek).
      rewrite Hvp in Hsq. rewrite forallb_forall in Hsq.
      assert (Hnone : forall r, In r ps -> takes_positional r = false) by (intros r Hr; specialize (Hsq r Hr); now apply negb_true_iff in Hsq).
      simpl filter in Hpass. rewrite Hns in Hpass.
      destruct (bind_go all ps [] (kw_names c)) as [b'|] eqn:Eb; [|discriminate]. simpl in Hb. inversion Hb as [Hb0].
      pose proof (pass_named_idx ps idx st st' Hnone Hpass) as Hix.
      assert (A1 : (exists r, In r ps /\ takes_positional r = true) -> aligned (k + m) 0 idx).
      { intros [r [Hr Ht]]. rewrite (Hnone r Hr) in Ht. discriminate. }
      assert (A3 : forall l i, BStar (map SArg (seq k m)) = BStar l -> In (SArg i) l -> a_idx st' <= List.length (c_recv c) + i).
      { intros l i E Hi. inversion E; subst l. apply in_map_iff in Hi as [j [Ej Hj]]. inversion Ej; subst j. apply in_seq in Hj. lia. }
      destruct (Fin _ b' (k + m) 0 idx st Eb (eq_sym Hb0) Hpass A1 ltac:(lia) I A3) as [H1 [H2 H3]].
      try rewrite Hb0. split; [assumption|]. split; [assumption|]. rewrite H3. simpl filter. now rewrite Hns.
    - (* keyword-only *)
      assert (Hns : nonstar q = true) by (unfold nonstar, is_star, is_varpos, is_varkw; now rewrite Ek).
      assert (Htp : takes_positional q = false) by (unfold takes_positional; now rewrite Ek).
      assert (Htk : takes_keyword q = true) by (unfold takes_keyword; now rewrite Ek).
      destruct (pass_named_step q ps idx st st' Hns Hpass) as [a [v [s [idx' [st2 [Ha [Hacc [Hi2 [Hc2 [_ [Hp Hcase]]]]]]]]]]].
      rewrite Htk in Hc2.
      assert (Hpo : pos_on q idx = false) by (unfold pos_on; now rewrite Htp).
      assert (A1 : (exists r, In r ps /\ takes_positional r = true) -> aligned k m idx).
      { intros [r [Hr Ht]]. apply Hal. exists r. split; [now right|assumption]. }
      assert (Hchk : a_checked st' = a_checked st2 ++ map p_name (filter takes_keyword (filter nonstar ps)) ->
                a_checked st' = a_checked st ++ map p_name (filter takes_keyword (filter nonstar (q :: ps)))).
      { intros H3. rewrite H3, Hc2. simpl filter. rewrite Hns. simpl filter. rewrite Htk. simpl. now rewrite <- app_assoc. }
      destruct (mem (p_name q) (kw_names c)) eqn:Em.
      + destruct (bind_go all ps (map SArg (seq k m)) (kw_names c)) as [b'|] eqn:Eb; [|discriminate]. simpl in Hb. inversion Hb as [Hb0].
        destruct (kw_get_mem_some _ _ Em) as [v0 Hv0].
        destruct Hcase as [[_ [Ev ->]]|[[[Ht|Hkn] _]|[[Ht|Hkn] _]]]; try congruence.
        assert (A2 : slot_fine q (BOne (SKw (p_name q)))) by (simpl; split; [reflexivity|]; exists a, v; repeat split; assumption).
        destruct (Fin _ b' k m idx st2 Eb (eq_sym Hb0) Hp A1 Hweak A2 ltac:(intros; discriminate)) as [H1 [H2 H3]].
        try rewrite Hb0. split; [assumption|]. split; [assumption|]. now apply Hchk.
      + destruct (p_default q) as [d|] eqn:Edq; [|discriminate].
        destruct (bind_go all ps (map SArg (seq k m)) (kw_names c)) as [b'|] eqn:Eb; [|discriminate]. simpl in Hb. inversion Hb as [Hb0].
        pose proof (kw_get_not_mem _ _ Em) as Hkn.
        destruct Hcase as [[_ [Ev _]]|[[_ [Hpo' _]]|[_ [_ [Edv ->]]]]]; [congruence|congruence|].
        inversion Edv; subst v.
        assert (A2 : slot_fine q (BOne (SDefault (p_name q)))) by (simpl; exists a, d; repeat split; assumption).
        destruct (Fin _ b' k m idx st2 Eb (eq_sym Hb0) Hp A1 Hweak A2 ltac:(intros; discriminate)) as [H1 [H2 H3]].
        try rewrite Hb0. split; [assumption|]. split; [assumption|]. now apply Hchk.
    - (* **kwargs *)
      assert (Hns : nonstar q = false) by (unfold nonstar, is_star, is_varpos, is_varkw; rewrite Ek; now rewrite orb_true_r).
      simpl filter in Hpass. rewrite Hns in Hpass.
      destruct (bind_go all ps (map SArg (seq k m)) (kw_names c)) as [b'|] eqn:Eb; [|discriminate]. simpl in Hb. inversion Hb as [Hb0].
      assert (A1 : (exists r, In r ps /\ takes_positional r = true) -> aligned k m idx).
      { intros [r [Hr Ht]]. apply Hal. exists r. split; [now right|assumption]. }
      destruct (Fin _ b' k m idx st Eb (eq_sym Hb0) Hpass A1 Hweak I ltac:(intros; discriminate)) as [H1 [H2 H3]].
      try rewrite Hb0. split; [assumption|]. split; [assumption|]. rewrite H3. simpl filter. now rewrite Hns.
  Qed.
End Lockstep.

Lemma star_last_tl : forall ps, star_last ps = true -> star_last (tl ps) = true.
Proof. intros [|p ps] H; [reflexivity|]. simpl in H. now apply andb_true_iff in H as [_ H]. Qed.

Section PhaseSound.
  Variable pc : pedantic_cfg.
  Variable check : ann -> value -> tvenv -> outcome unit * tvenv.
  Variable consumes : ann -> value -> bool.
  Hypothesis good : pc_good pc = true.

  Definition idx0 (f : fn) : nat := if is_instance_method f then 1 else 0.
  (* where the first pass starts relative to the positional values the caller wrote: either positional values play no role
     (none written, and the pass does not look at the receiver), or positional calls are allowed and the pass starts exactly
     behind the receiver *)
  Definition top_aligned (f : fn) (c : call) : Prop :=
    (c_args c = [] /\ (should_have_kwargs pc f = true \/ List.length (c_recv c) <= idx0 f))
    \/ (c_args c <> [] /\ should_have_kwargs pc f = false /\ idx0 f = List.length (c_recv c)).

  (* every value of the statement has been accepted by the checker when the argument phase succeeds *)
  Theorem phase_sound_of : forall f c b,
    sig_full f = true -> recv_known f c -> twin_binding f c = Ok b -> top_aligned f c ->
    phase_sound pc check consumes f c b.
  Proof.
    intros f c b Hsig Hrk Hb Htop inst st' Hargs oa v Hin.
    rewrite (args_phase_ref pc check consumes good) in Hargs.
    destruct (run_pass pc check consumes f c inst PNamed astate0) as [st1|e] eqn:E1; [|discriminate]. cbn [Exn.bind] in Hargs.
    destruct (run_pass pc check consumes f c inst PVarPos st1) as [st2|e] eqn:E2; [|discriminate]. cbn [Exn.bind] in Hargs.
    unfold run_pass in E1, E2, Hargs.
    pose proof Hsig as Hs0. unfold sig_full in Hs0. apply andb_true_iff in Hs0 as [Hbase Hstar].
    pose proof Hbase as Hs1. unfold sig_base in Hs1. repeat (apply andb_true_iff in Hs1; destruct Hs1 as [Hs1 ?]).
    rename Hs1 into Hone1, H into Hbound, H0 into Hnoself, H1 into Hdist, H2 into Hone2.
    apply Nat.leb_le in Hone1. apply Nat.leb_le in Hone2.
    assert (Core : forall ps b0, declared f = ps -> params_without_self f = ps -> idx0 f <= List.length (c_recv c) ->
              bind_go (full_params f) ps (arg_srcs c) (kw_names c) = Ok b0 ->
              (forall n sl p, In (n, sl) b -> find_param n (declared f) = Some p -> In (n, sl) b0) ->
              exists a, oa = Some a /\ accepted check a v).
    { intros ps b0 Hdecl Hpws Hweak Hb0 Hsub.
      assert (Hd' : distinct (map p_name ps) = true).
      { rewrite <- Hdecl. unfold declared. destruct (f_recv f); [|assumption].
        destruct (full_params f) as [|r rest]; [reflexivity|]. simpl in Hdist. now apply andb_true_iff in Hdist as [_ Hdist]. }
      assert (Hst' : star_last ps = true).
      { rewrite <- Hdecl. unfold declared, full_params, func_params. destruct (f_bound f) as [[n0 o0]|].
        - rewrite Hbound. simpl. exact Hstar.
        - destruct (f_recv f); [now apply star_last_tl|assumption]. }
      rewrite Hpws in E1, E2, Hargs. fold (idx0 f) in E1.
      destruct (lockstep pc check consumes f c inst (full_params f) ps 0 (List.length (c_args c)) (idx0 f) astate0 st1 b0 Hd' Hst' Hb0 E1)
        as [L1 [L2 L3]].
      { intros _. destruct Htop as [[Ha Hoff]|[Ha [Hs Hi]]].
        - left. split; [now rewrite Ha|]. destruct Hoff as [Hs|Hl]; [now left|right]. rewrite wargs_length, Ha. simpl. lia.
        - right. repeat split; try assumption; try lia. intros E. apply Ha. now apply length_zero_iff_nil. }
      { lia. }
      simpl in L3.
      (* the entry the value comes from *)
      assert (Entry : exists n sl p, In (n, sl) b /\ find_param n (declared f) = Some p /\
                (match sl with
                 | BOne (SKw k) => exists v0, kw_get k (c_kwargs c) = Some v0 /\ (oa, v) = (p_ann p, v0)
                 | BOne (SDefault _) => exists d, p_default p = Some d /\ (oa, v) = (p_ann p, d)
                 | BOne (SArg i) => exists v0, nth_error (c_args c) i = Some v0 /\ (oa, v) = (p_ann p, v0)
                 | BOne (SObj _) => False
                 | BStar l => exists i v0, In (SArg i) l /\ nth_error (c_args c) i = Some v0 /\ (oa, v) = (p_ann p, v0)
                 | BKws ks => exists k v0, In k ks /\ kw_get k (c_kwargs c) = Some v0 /\ (oa, v) = (p_ann p, v0)
                 end)).
      { unfold all_values in Hin. apply in_app_or in Hin as [Hin|Hin].
        - unfold supplied_of in Hin. apply in_flat_map in Hin as [[n sl] [Hnb Hv]]. simpl in Hv.
          destruct (find_param n (declared f)) as [p|] eqn:Ef; [|contradiction].
          exists n, sl, p. split; [assumption|]. split; [assumption|].
          destruct sl as [[o|i|k|k]|l|ks]; try contradiction.
          + destruct (kw_get k (c_kwargs c)) as [v0|]; simpl in Hv; [|contradiction]. destruct Hv as [E|[]]. exists v0. split; [reflexivity|now symmetry].
          + destruct (p_default p) as [d|]; simpl in Hv; [|contradiction]. destruct Hv as [E|[]]. exists d. split; [reflexivity|now symmetry].
          + apply in_flat_map in Hv as [s [Hs Hv]]. destruct s as [o|i|k|k]; simpl in Hv; try contradiction.
            destruct (nth_error (c_args c) i) as [v0|] eqn:En; simpl in Hv; [|contradiction]. destruct Hv as [E|[]].
            exists i, v0. repeat split; try assumption. now symmetry.
          + apply in_flat_map in Hv as [k [Hk Hv]]. destruct (kw_get k (c_kwargs c)) as [v0|] eqn:Ek; simpl in Hv; [|contradiction].
            destruct Hv as [E|[]]. exists k, v0. repeat split; try assumption. now symmetry.
        - unfold positional_values in Hin. apply in_flat_map in Hin as [[n sl] [Hnb Hv]]. simpl in Hv.
          destruct (find_param n (declared f)) as [p|] eqn:Ef; [|contradiction].
          exists n, sl, p. split; [assumption|]. split; [assumption|].
          destruct sl as [[o|i|k|k]|l|ks]; try contradiction.
          destruct (nth_error (c_args c) i) as [v0|]; simpl in Hv; [|contradiction]. destruct Hv as [E|[]]. exists v0. split; [reflexivity|now symmetry]. }
      destruct Entry as [n [sl [p [Hnb [Ef Hval]]]]].
      destruct (find_param_spec _ _ _ Ef) as [Hpd Hpn]. subst n.
      pose proof (Hsub _ _ _ Hnb Ef) as Hnb0. rewrite Hdecl in Hpd.
      pose proof (L1 p sl Hpd Hnb0) as Hfine.
      assert (Hpw : In p (params_without_self f)) by (now rewrite Hpws).
      (* what CPython's binding says about the slot *)
      unfold twin_binding in Hb.
      destruct (py_bind_slots _ _ _ _ (twin_pos_src c) Hb _ _ Hnb) as [q [Hq [Hqn Hslot]]].
      assert (Hpfull : In p (full_params f)) by (rewrite <- Hdecl in Hpd; now destruct (declared_incl_base f p Hbase Hpd)).
      assert (q = p) by (eapply distinct_unique; [exact Hdist|assumption|assumption|congruence]). subst q.
      destruct sl as [[o|i|k|k]|l|ks].
      - contradiction.
      - destruct Hval as [v0 [En E]]. inversion E; subst oa v0. simpl in Hfine.
        destruct Hfine as [a [v1 [Ha [En1 Hacc]]]]. exists a. split; [assumption|]. rewrite En in En1. now inversion En1; subst.
      - destruct Hval as [v0 [Ek E]]. inversion E; subst oa v0. simpl in Hfine.
        destruct Hfine as [-> [a [v1 [Ha [Ek1 Hacc]]]]]. exists a. split; [assumption|]. rewrite Ek in Ek1. now inversion Ek1; subst.
      - destruct Hval as [d [Ed E]]. inversion E; subst oa d. simpl in Hfine.
        destruct Hfine as [a [d1 [Ha [Ed1 Hacc]]]]. exists a. split; [assumption|]. rewrite Ed in Ed1. now inversion Ed1; subst.
      - (* an element of *args: it sits behind everything the first pass took *)
        destruct Hval as [i [v0 [Hi [En E]]]]. inversion E; subst oa v0. simpl in Hslot.
        assert (Hfil : filter is_varpos (params_without_self f) = [p]).
        { apply filter_single; [|assumption|assumption].
          unfold params_without_self. eapply Nat.le_trans; [apply filter_filter_length|exact Hone1]. }
        rewrite <- Hpws in E2. rewrite Hfil in E2. unfold pass_varpos in E2.
        destruct (p_ann p) as [a|] eqn:Ea; [|discriminate]. exists a. split; [reflexivity|].
        destruct (chk_all_ok check consumes f c inst _ _ _ _ E2) as [_ Hall].
        apply (Hall v (SArg i)). eapply In_skipn with (k := List.length (c_recv c) + i).
        + unfold wargs, wsrc, arg_srcs. rewrite combine_app_nth by (now rewrite map_length).
          apply nth_error_combine_args. assumption.
        + eapply L2; eassumption.
      - (* a value of **kwargs: its key is none of the names the first pass has consumed *)
        destruct Hval as [k [v0 [Hk [Ek E]]]]. inversion E; subst oa v0. simpl in Hslot. destruct Hslot as [Hvk ->].
        apply filter_In in Hk as [Hkin Hknot]. apply negb_true_iff in Hknot.
        assert (Hfil : filter is_varkw (params_without_self f) = [p]).
        { apply filter_single; [|assumption|assumption].
          unfold params_without_self. eapply Nat.le_trans; [apply filter_filter_length|exact Hone2]. }
        rewrite <- Hpws in Hargs. rewrite Hfil in Hargs. unfold pass_varkw in Hargs.
        destruct (p_ann p) as [a|] eqn:Ea; [|discriminate]. exists a. split; [reflexivity|].
        destruct (chk_all_ok check consumes f c inst _ _ _ _ Hargs) as [_ Hall].
        apply (Hall v (SKw k)). apply in_map_iff. exists (k, v). split; [reflexivity|].
        apply filter_In. split; [now apply kw_get_In|]. simpl.
        rewrite <- Hpws in E2. rewrite (pass_varpos_checked check consumes f c inst _ _ _ E2), L3.
        apply negb_true_iff. apply mem_false. intros Hkin2. apply mem_false in Hknot. apply Hknot.
        apply in_map_iff in Hkin2 as [r [Hrn Hr]]. apply filter_In in Hr as [Hr Hrtk].
        apply filter_In in Hr as [Hr Hrs].
        unfold kw_param_names. apply in_map_iff. exists r. split; [assumption|].
        apply filter_In. split.
        + rewrite <- Hdecl in Hr. now destruct (declared_incl_base f r Hbase Hr).
        + unfold takes_keyword in Hrtk. unfold nonstar, is_star, is_varpos, is_varkw in Hrs. unfold takes_kw.
          destruct (p_kind r); try discriminate; reflexivity. }
    unfold twin_binding, py_bind in Hb.
    destruct (forallb (fun k => mem k (kw_param_names (full_params f)) || has_varkw (full_params f)) (kw_names c)) eqn:Hkws; [|discriminate].
    assert (Hb' : twin_binding f c = Ok b) by (unfold twin_binding, py_bind; now rewrite Hkws).
    destruct Hrk as [S1|[S2|S3]].
    - destruct S1 as [Hbd [Hrecv [Hfa [r [rest [x [Hps [Hn [Hk [Hd [Hrc [Htw Hm]]]]]]]]]]]].
      assert (Hfull : full_params f = r :: rest) by (unfold full_params, func_params; now rewrite Hbd).
      unfold twin_pos in Hb. rewrite Htw, Hfull in Hb. simpl in Hb. rewrite Hk, Hn, Hm in Hb.
      destruct (bind_go (r :: rest) rest (arg_srcs c) (kw_names c)) as [b0|] eqn:Eb0; [|discriminate]. simpl in Hb. inversion Hb as [Hbb].
      assert (Hdecl : declared f = rest) by (unfold declared; now rewrite Hrecv, Hfull).
      apply (Core rest b0); try assumption.
      + unfold params_without_self. rewrite Hps. simpl. rewrite Hn. simpl. rewrite Hdecl in Hnoself. now apply filter_all'.
      + unfold idx0, is_instance_method. rewrite Hfa, Hrc. simpl. lia.
      + now rewrite Hfull.
      + intros n sl p Hi Ef. rewrite <- Hbb in Hi. destruct Hi as [E|Hi]; [|assumption]. exfalso. inversion E; subst n sl.
        destruct (find_param_spec _ _ _ Ef) as [Hp Hpn]. rewrite forallb_forall in Hnoself. specialize (Hnoself p Hp).
        rewrite Hpn in Hnoself. now rewrite Nat.eqb_refl in Hnoself.
    - destruct S2 as [Hbd [Hrecv [Hinst [Hrc Htw]]]].
      assert (Hfull : full_params f = f_params f) by (unfold full_params, func_params; now rewrite Hbd).
      unfold twin_pos in Hb. rewrite Htw in Hb. simpl in Hb.
      assert (Hdecl : declared f = f_params f) by (unfold declared; now rewrite Hrecv, Hfull).
      apply (Core (f_params f) b); try assumption; try auto.
      + unfold params_without_self. rewrite Hdecl in Hnoself. now apply filter_all'.
      + unfold idx0. rewrite Hinst. lia.
      + now rewrite Hfull in *.
    - destruct S3 as [n [o [x [Hbd [Hinst [Hrc [Htw Hm]]]]]]].
      assert (Hfull : full_params f = bound_param n :: f_params f) by (unfold full_params, func_params; now rewrite Hbd).
      assert (Hrecv : f_recv f = true) by (rewrite Hbd in Hbound; exact Hbound).
      unfold twin_pos in Hb. rewrite Htw, Hfull in Hb. simpl in Hb. rewrite Hm in Hb.
      destruct (bind_go (bound_param n :: f_params f) (f_params f) (arg_srcs c) (kw_names c)) as [b0|] eqn:Eb0; [|discriminate]. simpl in Hb. inversion Hb as [Hbb].
      assert (Hdecl : declared f = f_params f) by (unfold declared; now rewrite Hrecv, Hfull).
      apply (Core (f_params f) b0); try assumption.
      + unfold params_without_self. rewrite Hdecl in Hnoself. now apply filter_all'.
      + unfold idx0. rewrite Hinst. lia.
      + now rewrite Hfull.
      + intros n1 sl p Hi Ef. rewrite <- Hbb in Hi. destruct Hi as [E|Hi]; [|assumption]. exfalso. inversion E; subst n1 sl.
        destruct (find_param_spec _ _ _ Ef) as [Hp Hpn]. rewrite Hdecl in Hp. rewrite Hfull in Hdist. simpl in Hdist.
        apply andb_true_iff in Hdist as [Hd1 _]. apply negb_true_iff in Hd1. apply mem_false in Hd1. apply Hd1. rewrite <- Hpn. now apply in_map.
  Qed.
End PhaseSound.

Section Guards.
  Variable pc : pedantic_cfg.
  Variable check : ann -> value -> tvenv -> outcome unit * tvenv.
  Variable consumes : ann -> value -> bool.
  Hypothesis good : pc_good pc = true.

  (* outside the K4 region: where the keyword discipline applies, positional values are not silently stripped as a receiver *)
  Definition not_stripped (f : fn) (c : call) : Prop :=
    should_have_kwargs pc f = true -> c_args c <> [] -> args_without_self pc f c <> [].
  (* the wrapper receives exactly the receiver the undecorated callable gets - or (static and class methods of a @pedantic_class
     reached through an instance) the keyword discipline applies, so that the first pass never looks at positional values *)
  Definition recv_fine (f : fn) (c : call) : Prop :=
    recv_consistent f c \/ (recv_known f c /\ should_have_kwargs pc f = true).

  Lemma strict_idx0 : forall f c, recv_consistent f c -> idx0 f = List.length (c_recv c).
  Proof.
    intros f c [S1|[S2|S3]]; unfold idx0.
    - destruct S1 as [_ [_ [Hfa [r [rest [x [_ [_ [_ [_ [Hrc _]]]]]]]]]]]. unfold is_instance_method. now rewrite Hfa, Hrc.
    - destruct S2 as [_ [_ [Hi [Hrc _]]]]. now rewrite Hi, (Hrc eq_refl).
    - destruct S3 as [n [o [x [_ [Hi [Hrc _]]]]]]. now rewrite Hi, (Hrc eq_refl).
  Qed.

  Lemma sound_or_rejected : forall f c b,
    sig_full f = true -> recv_fine f c -> twin_binding f c = Ok b -> not_stripped f c ->
    phase_sound pc check consumes f c b \/ assert_uses_kwargs pc f c = Raise PCallWithArgsC.
  Proof.
    intros f c b Hsig Hrf Hb Hns.
    assert (Hrk : recv_known f c) by (destruct Hrf as [H|[H _]]; [now apply recv_consistent_known|assumption]).
    destruct (should_have_kwargs pc f) eqn:Es.
    - destruct (c_args c) as [|x l] eqn:Ea.
      + left. apply phase_sound_of; try assumption. left. split; [exact Ea|now left].
      + right. rewrite (assert_uses_kwargs_ref pc good), Es.
        assert (Hne : args_without_self pc f c <> []) by (apply Hns; [exact Es|rewrite Ea; discriminate]).
        destruct (args_without_self pc f c); [congruence|reflexivity].
    - destruct Hrf as [Hrc|[_ E]]; [|rewrite Es in E; discriminate]. left. apply phase_sound_of; try assumption.
      pose proof (strict_idx0 f c Hrc) as Hi.
      destruct (c_args c) as [|x l] eqn:Ea; [left; split; [exact Ea|right; lia]|right; repeat split; try assumption; rewrite Ea; discriminate].
  Qed.

  (* C03, first sentence, for every value of the statement - by keyword, by default, *args element, **kwargs value, positional value
     of a named parameter *)
  Theorem guard : forall f c bd b a v,
    sig_full f = true -> recv_fine f c -> twin_binding f c = Ok b -> not_stripped f c ->
    In (Some a, v) (all_values f c b) -> rejected check a v ->
    snd (run pc check consumes f c bd) = [] /\ exists e, fst (run pc check consumes f c bd) = Raise e.
  Proof.
    intros f c bd b a v Hsig Hrf Hb Hns Hin Hrej.
    destruct (sound_or_rejected f c b Hsig Hrf Hb Hns) as [Hps|E]; [eapply args_guard; eassumption|].
    rewrite (run_is_ref pc check consumes good). unfold run_ref.
    destruct (instance_of f c) as [inst|e]; [|simpl; split; eauto]. rewrite E. simpl. split; eauto.
  Qed.

  Theorem guard_gen : forall f c b a v,
    sig_full f = true -> recv_fine f c -> twin_binding f c = Ok b -> not_stripped f c ->
    In (Some a, v) (all_values f c b) -> rejected check a v ->
    snd (run_gen pc check consumes f c) = [] /\ exists e, fst (run_gen pc check consumes f c) = Raise e.
  Proof.
    intros f c b a v Hsig Hrf Hb Hns Hin Hrej.
    destruct (sound_or_rejected f c b Hsig Hrf Hb Hns) as [Hps|E]; [eapply args_guard_gen; eassumption|].
    rewrite (run_gen_is_ref pc check consumes good). unfold run_gen_ref.
    destruct (instance_of f c) as [inst|e]; [|simpl; split; eauto]. rewrite E. simpl. split; eauto.
  Qed.

  Theorem guard_exact : forall f c bd b a v,
    sig_full f = true -> recv_fine f c -> twin_binding f c = Ok b -> not_stripped f c ->
    In (Some a, v) (all_values f c b) -> rejected check a v ->
    (is_instance_method f = true -> wargs c <> []) ->
    assert_uses_kwargs pc f c = Ok tt ->
    (forall inst, instance_of f c = Ok inst -> clazz_probe f c inst = Ok tt) ->
    (forall p a0, In p (f_params f) -> p_ann p = Some a0 -> forall v0 tv e, fst (check a0 v0 tv) = Raise e -> e = PTypeCheckC) ->
    run pc check consumes f c bd = (Raise PTypeCheckC, []).
  Proof.
    intros f c bd b a v Hsig Hrf Hb Hns Hin Hrej Hinst Hauk Hprobe Hptc.
    destruct (sound_or_rejected f c b Hsig Hrf Hb Hns) as [Hps|E]; [eapply args_guard_exact; eassumption|congruence].
  Qed.
End Guards.
