(* C17 - one invocation: the facts checked on the closed reachable sets, and what they
   give for EVERY behaviour of the callee and EVERY schedule (incl. kills at any point).   *)
From Coq Require Import List Arith Bool Lia.
From PV Require Import Base.Exn Model.PipeKernel Model.Subproc Spec.SubprocSpec Proofs.SubprocReach.
Import ListNotations.

Definition step_enabled (o : option lst) : bool := match o with Some _ => true | None => false end.

(* the one region in which the faithful model falsifies "yields exactly what the function
   returns": the callee returns (picklably) an object that is itself a SubprocessError *)
Definition returns_envelope (b : beh) : bool :=
  b_ret_err b && callee_reports b && match b_out b with COk => true | _ => false end.
Definition is_cpe (f : pfinal) : bool :=
  match f with FRaise (XCls c) => exn_eqb c ChildProcessErrorC | _ => false end.
(* the outcome of the model when nothing kills the child from outside *)
Definition is_unp (f : pfinal) : bool :=
  match f with FRaise (XCls c) => exn_eqb c UnpickleErrC | _ => false end.
Definition model_final (b : beh) (f : pfinal) : bool :=
  if returns_envelope b then match f with FRaise XRetAttr => true | _ => false end
  else if callee_reports b then final_meets (demanded b) f
  else is_cpe f || (b_unp b && is_unp f).

Section Facts.
  Variable P : list pop.
  Variable C : list cop.
  (* strict = false: where unpickling in the parent raises (b_unp) only the OUTCOME is demanded of a
     finished invocation; strict = true: also there nothing may be left behind.  The programs of
     the current tree pass the first and fail the second (Props/C17.v). *)
  Variable strict : bool.
  (* cstrict = false: where the await is cancelled at the wait nothing but the outcome (CancelledError)
     is demanded of the finished invocation; cstrict = true: also there nothing may be left behind. *)
  Variable cstrict : bool.
  (* CancelledError was delivered at the suspension point (not: the coroutine was never started) *)
  Definition cancelled_at_wait (s : lst) : bool :=
    match p_stat (ps s) with PSDone f => is_cancel f && negb (Nat.eqb (p_pc (ps s)) 0) | _ => false end.

  (* termination measure: every enabled step strictly decreases it (checked, not assumed) *)
  Definition measure_p (s : lst) : nat :=
    match p_stat (ps s) with
    | PSDone _ => 0
    | PSRun => 2 * (List.length P - p_pc (ps s)) + 2
    | PSWait => 2 * (List.length P - p_pc (ps s)) + 3
    end.
  Definition measure_c (s : lst) : nat :=
    match c_stat (cs s) with
    | CNotStarted => 2 * List.length C + 4
    | CRunning => 2 * (List.length C - c_pc (cs s)) + 2 + (if c_sending (cs s) then 0 else 1)
    | CExited => 0
    end.
  Definition measure (s : lst) : nat := measure_p s + measure_c s.

  Definition is_run (o : cop) : bool := match o with CRunCallee _ => true | _ => false end.
  (* the callee has not returned yet (the child has been forked and CRunCallee is still ahead) *)
  Definition callee_pending (s : lst) : bool :=
    c_running s && existsb is_run (skipn (c_pc (cs s)) C).

  Section OneBeh.
    Variable b : beh.
    Definition parent_enabled (s : lst) : bool := step_enabled (lstep P C b 0 LParent s).
    (* the parent coroutine sits in a synchronous call and holds the loop thread *)
    Definition sync_blocked (s : lst) : bool := p_running s && negb (parent_enabled s).

    (* F1: outside its synchronous segments the parent holds no write end *)
    Definition f_quiescent (s : lst) : bool := p_running s || negb (e_tx (p_ends (ps s))).
    (* F2: an unfinished invocation can always move *)
    Definition child_enabled (s : lst) : bool := step_enabled (lstep P C b 0 LChild s).
    Definition f_progress (s : lst) : bool := p_done s || parent_enabled s || child_enabled s.
    (* F3: a finished invocation meets the specification (outside the envelope region: there
       it still exits cleanly) *)
    Definition f_done (s : lst) : bool :=
      negb (p_done s) || (cancelled_at_wait s && negb cstrict) ||
      (if returns_envelope b then clean_exit s
       else if b_unp b && negb strict
            then match p_stat (ps s) with PSDone f => outcome_ok b (c_killed (cs s)) f | _ => false end
            else spec_ok b s).
    (* F3': the exact outcome of the model when the child was not killed from outside *)
    Definition f_exact (s : lst) : bool :=
      match p_stat (ps s) with
      | PSDone f => is_cancel f || model_final b f || (c_killed (cs s) && is_cpe f)
      | _ => true
      end.
    (* F4: the loop thread is never held blocked while the callee is still computing *)
    Definition f_nonblocking (s : lst) : bool := negb (sync_blocked s) || negb (callee_pending s).
    (* F5: a running child can always step, unless it is blocked in the write of a large message
       (the pipe buffer is full and the parent is not inside recv(); F2 says the parent can move then) *)
    Definition f_child_free (s : lst) : bool := negb (c_running s) || child_enabled s || c_sending (cs s).

    Definition f_all (s : lst) : bool :=
      f_quiescent s && f_progress s && f_done s && f_exact s && f_nonblocking s && f_child_free s.
    Definition f_measure (s s' : lst) : bool := measure s' <? measure s.

    Definition check_beh : bool :=
      let L := reachable_set P C b in
      closed P C b L && check_states f_all L && check_trans P C b f_measure L.
  End OneBeh.

  (* evaluated by the VM, which is call-by-value: `f a && forallb f l` would evaluate every behaviour even
     after the first failure; this form stops at the first behaviour that fails (a failing program is
     recognised in seconds, not after the whole sweep) *)
  Fixpoint forallb_sc {A} (f : A -> bool) (l : list A) : bool :=
    match l with [] => true | a :: l' => if f a then forallb_sc f l' else false end.
  Lemma forallb_sc_eq : forall A (f : A -> bool) l, forallb_sc f l = forallb f l.
  Proof. induction l as [|a l IH]; [reflexivity|]. cbn. rewrite IH. now destruct (f a). Qed.

  Definition check_all : bool := forallb_sc check_beh (all_behs P C).

  (* ---- transfer along agreeing behaviours ------------------------------------------------ *)
  Lemma reports_ext : forall b b', beh_agree P C b b' -> callee_reports b = callee_reports b'.
  Proof.
    intros b b' (Ho & _ & Hp & _ & _ & Hu & _ & Hi). unfold callee_reports. rewrite Ho, Hp, Hu, (Hi ExceptionC); [reflexivity|].
    apply nodup_In. right; now left.
  Qed.
  Lemma demanded_ext : forall b b', beh_agree P C b b' -> demanded b = demanded b'.
  Proof.
    intros b b' Hag. unfold demanded. rewrite (reports_ext _ _ Hag).
    destruct Hag as (Ho & _ & _ & _ & _ & _ & _ & Hi). rewrite Ho, (Hi StopIterationC); [reflexivity | apply nodup_In; now left].
  Qed.
  Lemma envelope_ext : forall b b', beh_agree P C b b' -> returns_envelope b = returns_envelope b'.
  Proof.
    intros b b' Hag. unfold returns_envelope. rewrite (reports_ext _ _ Hag).
    destruct Hag as (Ho & _ & _ & _ & Hr & _). now rewrite Ho, Hr.
  Qed.
  Lemma unp_ext : forall b b', beh_agree P C b b' -> b_unp b = b_unp b'.
  Proof. intros b b' (_ & _ & _ & _ & _ & Hu & _ & _). exact Hu. Qed.
  Lemma f_all_ext : forall b b' s, beh_agree P C b b' -> f_all b s = f_all b' s.
  Proof.
    intros b b' s Hag. unfold f_all, f_progress, f_done, f_exact, f_nonblocking, f_child_free, sync_blocked, child_enabled,
      parent_enabled, spec_ok, outcome_ok, model_final.
    rewrite (demanded_ext _ _ Hag), (reports_ext _ _ Hag), (envelope_ext _ _ Hag), (unp_ext _ _ Hag),
      !(lstep_ext P C b b' 0 _ s Hag).
    reflexivity.
  Qed.

  (* the kernel must unfold these wrappers first: otherwise conversion starts evaluating the
     reachable set lazily and Qed does not come back *)
  Strategy expand [check_beh check_all].

  Hypothesis Hcheck : check_all = true.

  Lemma facts_hold : forall b s, lreach P C b s -> f_all b s = true.
  Proof.
    intros b s Hr. destruct (all_behs_complete P C b) as [b' [Hin Hag]].
    rewrite (f_all_ext b b' s Hag). unfold check_all in Hcheck. rewrite forallb_sc_eq, forallb_forall in Hcheck.
    specialize (Hcheck b' Hin). unfold check_beh in Hcheck.
    apply andb_true_iff in Hcheck as [Hc _]. apply andb_true_iff in Hc as [Hc Hf].
    eapply check_states_sound; eauto. eapply lreach_ext; eauto.
  Qed.

  Lemma measure_decreases : forall b s c s', lreach P C b s -> lstep P C b 0 c s = Some s' -> measure s' < measure s.
  Proof.
    intros b s c s' Hr Hs. destruct (all_behs_complete P C b) as [b' [Hin Hag]].
    unfold check_all in Hcheck. rewrite forallb_sc_eq, forallb_forall in Hcheck.
    specialize (Hcheck b' Hin). unfold check_beh in Hcheck.
    apply andb_true_iff in Hcheck as [Hc Hm]. apply andb_true_iff in Hc as [Hc _].
    apply Nat.ltb_lt. change (f_measure s s' = true).
    eapply check_trans_sound with (b := b'); eauto.
    - eapply lreach_ext; eauto.
    - rewrite <- (lstep_ext P C b b' 0 c s Hag). exact Hs.
  Qed.

  Ltac facts b s Hr :=
    let H := fresh "H" in
    pose proof (facts_hold b s Hr) as H; unfold f_all in H;
    repeat (apply andb_true_iff in H; let H' := fresh "H" in destruct H as [H H']).

  Lemma quiescent_no_tx : forall b s, lreach P C b s -> p_running s = false -> e_tx (p_ends (ps s)) = false.
  Proof.
    intros b s Hr Hrun. facts b s Hr. unfold f_quiescent in H. rewrite Hrun in H. cbn in H.
    now apply negb_true_iff in H.
  Qed.

  Lemma progress : forall b s, lreach P C b s -> p_done s = false ->
    parent_enabled b s = true \/ child_enabled b s = true.
  Proof.
    intros b s Hr Hd. facts b s Hr. unfold f_progress in H4. rewrite Hd in H4. cbn in H4.
    now apply orb_true_iff in H4.
  Qed.

  Lemma child_free : forall b s, lreach P C b s -> c_running s = true -> c_sending (cs s) = false ->
    child_enabled b s = true.
  Proof.
    intros b s Hr Hc Hs. facts b s Hr. unfold f_child_free in H0. rewrite Hc, Hs in H0. cbn in H0.
    now rewrite orb_false_r in H0.
  Qed.

  Lemma done_spec : forall b s, lreach P C b s -> p_done s = true -> returns_envelope b = false ->
    b_unp b && negb strict = false -> cancelled_at_wait s && negb cstrict = false -> spec_ok b s = true.
  Proof.
    intros b s Hr Hd He Hu Hc. facts b s Hr. unfold f_done in H3. rewrite Hd, He, Hu, Hc in H3. exact H3.
  Qed.

  (* the outcome alone needs no guard on unpickling *)
  Lemma done_outcome : forall b s f, lreach P C b s -> p_stat (ps s) = PSDone f -> returns_envelope b = false ->
    outcome_ok b (c_killed (cs s)) f = true.
  Proof.
    intros b s f Hr Hf He. facts b s Hr. unfold f_done, p_done, cancelled_at_wait in H3. rewrite Hf, He in H3.
    cbn [negb orb] in H3. apply orb_true_iff in H3 as [H3|H3].
    { apply andb_true_iff in H3 as [H3 _]. apply andb_true_iff in H3 as [H3 _].
      unfold outcome_ok. rewrite H3. now rewrite orb_true_r. }
    destruct (b_unp b && negb strict).
    - exact H3.
    - unfold spec_ok in H3. rewrite Hf in H3. now apply andb_true_iff in H3.
  Qed.

  Lemma done_clean : forall b s, lreach P C b s -> p_done s = true -> b_unp b && negb strict = false ->
    cancelled_at_wait s && negb cstrict = false -> clean_exit s = true.
  Proof.
    intros b s Hr Hd Hu Hc. facts b s Hr. unfold f_done in H3. rewrite Hd, Hu, Hc in H3. cbn [negb orb] in H3.
    destruct (returns_envelope b); [exact H3|]. unfold spec_ok in H3.
    destruct (p_stat (ps s)); try discriminate. now apply andb_true_iff in H3.
  Qed.

  Lemma done_exact : forall b s, lreach P C b s -> f_exact b s = true.
  Proof. intros b s Hr. facts b s Hr. exact H2. Qed.

  Lemma nonblocking : forall b s, lreach P C b s -> sync_blocked b s = true -> callee_pending s = false.
  Proof.
    intros b s Hr Hb. facts b s Hr. unfold f_nonblocking in H1. rewrite Hb in H1. cbn in H1.
    now apply negb_true_iff in H1.
  Qed.

  (* never blocked forever: the distinguished outcome is unreachable *)
  Lemma never_blocked_forever : forall b s, lreach P C b s -> l_blocked_forever P C b s = false.
  Proof.
    intros b s Hr. unfold l_blocked_forever. destruct (p_done s) eqn:Hd; [reflexivity|]. cbn [negb andb].
    apply negb_false_iff. unfold l_enabled. apply existsb_exists.
    destruct (progress b s Hr Hd) as [Hp | Hc].
    - exists LParent. split; [cbn; auto | exact Hp].
    - exists LChild. split; [cbn; auto | exact Hc].
  Qed.

  (* from every reachable state the invocation can be driven to its end, in at most
     `measure s` further steps: no deadlock and no infinite run *)
  Lemma can_finish : forall b n s, lreach P C b s -> measure s <= n ->
    exists ext, List.length ext <= n /\ p_done (lrun P C b ext s) = true.
  Proof.
    intros b. induction n as [|n IH]; intros s Hr Hm.
    - destruct (p_done s) eqn:Hd; [exists []; split; [cbn; lia | exact Hd]|].
      exfalso. destruct (progress b s Hr Hd) as [Hp | Hc].
      + unfold parent_enabled, step_enabled in Hp. destruct (lstep P C b 0 LParent s) eqn:E; [|discriminate].
        pose proof (measure_decreases b s LParent l Hr E). lia.
      + pose proof Hc as Hf. unfold child_enabled, step_enabled in Hf.
        destruct (lstep P C b 0 LChild s) eqn:E; [|discriminate].
        pose proof (measure_decreases b s LChild l Hr E). lia.
    - destruct (p_done s) eqn:Hd; [exists []; split; [cbn; lia | exact Hd]|].
      assert (Hex : exists c s', lstep P C b 0 c s = Some s').
      { destruct (progress b s Hr Hd) as [Hp | Hc].
        - unfold parent_enabled, step_enabled in Hp. destruct (lstep P C b 0 LParent s) eqn:E; [|discriminate]. eauto.
        - pose proof Hc as Hf. unfold child_enabled, step_enabled in Hf.
          destruct (lstep P C b 0 LChild s) eqn:E; [|discriminate]. eauto. }
      destruct Hex as [c [s' Hs]].
      pose proof (measure_decreases b s c s' Hr Hs) as Hlt.
      destruct (IH s' (lr_step P C b s c s' Hr Hs) ltac:(lia)) as [ext [Hl Hdone]].
      exists (c :: ext). split; [cbn; lia|]. cbn. unfold lstep_skip at 2. rewrite Hs. exact Hdone.
  Qed.

  (* the number of effective steps of any schedule is bounded *)
  Fixpoint effective (b : beh) (sched : list lchoice) (s : lst) : nat :=
    match sched with
    | [] => 0
    | c :: rest =>
        match lstep P C b 0 c s with
        | Some s' => S (effective b rest s')
        | None => effective b rest s
        end
    end.

  Lemma effective_bounded : forall b sched s, lreach P C b s -> effective b sched s <= measure s.
  Proof.
    intros b. induction sched as [|c sched IH]; intros s Hr; cbn; [lia|].
    destruct (lstep P C b 0 c s) eqn:E; [|now apply IH].
    pose proof (measure_decreases b s c l Hr E). specialize (IH l (lr_step P C b s c l Hr E)). lia.
  Qed.

  (* ---- forms used by Props/C17.v ------------------------------------------------------------ *)
  Lemma lrun_measure_le : forall b sched s, lreach P C b s -> measure (lrun P C b sched s) <= measure s.
  Proof.
    intros b. induction sched as [|c sched IH]; intros s Hs; [apply le_n|].
    change (lrun P C b (c :: sched) s) with (lrun P C b sched (lstep_skip P C b c s)). unfold lstep_skip.
    destruct (lstep P C b 0 c s) eqn:E; [|now apply IH].
    pose proof (measure_decreases b s c l Hs E). specialize (IH l (lr_step P C b s c l Hs E)). lia.
  Qed.

  Lemma finish_after : forall b sched,
    exists ext, List.length ext <= measure linit /\ p_done (lrun P C b (sched ++ ext) linit) = true.
  Proof.
    intros b sched. pose proof (lrun_reach P C b sched linit (lr_init P C b)) as Hr.
    destruct (can_finish b (measure (lrun P C b sched linit)) (lrun P C b sched linit) Hr (le_n _)) as [ext [Hl Hd]].
    exists ext. split.
    - pose proof (lrun_measure_le b sched linit (lr_init P C b)). lia.
    - unfold lrun in *. now rewrite fold_left_app.
  Qed.

  (* the child reports and nobody kills it: exactly the callee's outcome *)
  Lemma faithful_exact : forall b s f, lreach P C b s ->
    returns_envelope b = false -> callee_reports b = true ->
    p_stat (ps s) = PSDone f -> c_killed (cs s) = false -> is_cancel f = false ->
    match b_out b with
    | COk => f = FReturnCallee
    | _ => if b_isa b StopIterationC then f = FRaise (XCls RuntimeErrorC) else f = FRaise XCallee
    end.
  Proof.
    intros b s f Hr He Hrep Hf Hk Hnc.
    assert (Hd : p_done s = true) by (unfold p_done; now rewrite Hf).
    pose proof (done_outcome b s f Hr Hf He) as Hs. rewrite Hk in Hs.
    unfold outcome_ok in Hs. rewrite Hnc, andb_false_l, !orb_false_r in Hs.
    unfold demanded in Hs. rewrite Hrep in Hs.
    destruct (b_out b).
    - destruct f as [| |x]; try discriminate; reflexivity.
    - destruct (b_isa b StopIterationC).
      + destruct f as [| |[|c|]]; try discriminate. cbn in Hs. f_equal. f_equal. now apply exn_eqb_eq.
      + destruct f as [| |[|c|]]; try discriminate; reflexivity.
    - destruct (b_isa b StopIterationC).
      + destruct f as [| |[|c|]]; try discriminate. cbn in Hs. f_equal. f_equal. now apply exn_eqb_eq.
      + destruct f as [| |[|c|]]; try discriminate; reflexivity.
  Qed.

  Lemma death_outcome : forall b s f, lreach P C b s -> p_stat (ps s) = PSDone f -> is_cancel f = false ->
    model_final b f = true \/ (c_killed (cs s) = true /\ is_cpe f = true).
  Proof.
    intros b s f Hr Hf Hnc. pose proof (done_exact b s Hr) as H.
    unfold f_exact in H. rewrite Hf, Hnc in H. cbn [orb] in H. apply orb_true_iff in H as [H|H]; [now left|].
    right. now apply andb_true_iff in H.
  Qed.

  (* every unreported death of the child is reported by ChildProcessError, whatever the crash point *)
  Lemma died_is_cpe : forall b s f, lreach P C b s -> p_stat (ps s) = PSDone f ->
    child_died_unreported b (c_killed (cs s)) f = true -> f = FRaise (XCls ChildProcessErrorC).
  Proof.
    intros b s f Hr Hf Hd. unfold child_died_unreported in Hd.
    repeat (apply andb_true_iff in Hd; let H' := fresh "H" in destruct Hd as [Hd H']).
    apply negb_true_iff in Hd. apply negb_true_iff in H0. apply negb_true_iff in H1.
    assert (Hc : is_cpe f = true).
    { destruct (death_outcome b s f Hr Hf H1) as [Hm | [_ Hm]]; [|exact Hm].
      unfold model_final in Hm. destruct (returns_envelope b).
      - destruct f as [| |[| |]]; discriminate.
      - destruct (callee_reports b) eqn:Er.
        + rewrite Hm in H0. discriminate.
        + rewrite Hd in Hm. cbn in Hm. now rewrite orb_false_r in Hm. }
    destruct f as [| |[|c|]]; try discriminate. cbn in Hc. apply exn_eqb_eq in Hc. now subst.
  Qed.
End Facts.
