(* The pure denotation `chk` of the checker against the specification `conforms` (written from the
   property text): on the supported vocabulary, Must => accepted and MustNot => rejected, for every
   annotation (nested induction, no depth bound) and every value.                                  *)
From Coq Require Import List Arith Bool ZArith Lia.
From PV Require Import Base.Exn Base.Values Base.Ann Model.CheckerCfg Model.Checker Spec.Conforms Proofs.CheckerGood
  Proofs.CheckerRefine.
Import ListNotations.

Definition agrees (x : verdict) (b : bool) : Prop := (x = Must -> b = true) /\ (x = MustNot -> b = false).

Lemma agrees_v_of_bool b : agrees (v_of_bool b) b.
Proof. destruct b; split; cbn; intro H; try discriminate; reflexivity. Qed.

Lemma agrees_unspec b : agrees Unspec b.
Proof. split; discriminate. Qed.

Lemma agrees_mustnot : agrees MustNot false.
Proof. split; [discriminate | reflexivity]. Qed.

Lemma agrees_must : agrees Must true.
Proof. split; [reflexivity | discriminate]. Qed.

Lemma all3_agrees {A} (f : A -> verdict) (g : A -> bool) l :
  (forall x, In x l -> agrees (f x) (g x)) -> agrees (all3 (map f l)) (forallb g l).
Proof.
  intro H. unfold all3. induction l as [|x l IH]; [cbn; apply agrees_must|].
  cbn [map existsb forallb].
  destruct (H x (or_introl eq_refl)) as [Hm Hn].
  assert (IH' := IH (fun y Hy => H y (or_intror Hy))). clear IH.
  destruct (f x) eqn:Ef; cbn [is_mustnot is_must orb andb].
  - rewrite (Hm eq_refl). cbn [andb]. exact IH'.
  - rewrite (Hn eq_refl). apply agrees_mustnot.
  - destruct (existsb is_mustnot (map f l)) eqn:Ee.
    + destruct IH' as [_ IHn]. rewrite (IHn eq_refl), andb_false_r. apply agrees_mustnot.
    + apply agrees_unspec.
Qed.

Lemma all3_cons x t b r : agrees x b -> agrees (all3 t) r -> agrees (all3 (x :: t)) (b && r).
Proof.
  intros [Hm Hn] IH'. unfold all3 in *. cbn [existsb forallb].
  destruct x; cbn [is_mustnot is_must orb andb].
  - rewrite (Hm eq_refl). exact IH'.
  - rewrite (Hn eq_refl). apply agrees_mustnot.
  - destruct (existsb is_mustnot t) eqn:Ee.
    + destruct IH' as [_ IHn]. rewrite (IHn eq_refl), andb_false_r. apply agrees_mustnot.
    + apply agrees_unspec.
Qed.

Lemma zip_agrees (F : ann -> value -> verdict) (G : ann -> value -> bool) :
  forall la lv, (forall a1, In a1 la -> forall v, agrees (F a1 v) (G a1 v)) ->
  agrees (all3 ((fix zip3 (l0 : list ann) (vs : list value) {struct l0} : list verdict :=
                   match l0, vs with
                   | a1 :: l', v0 :: vs' => F a1 v0 :: zip3 l' vs'
                   | _, _ => []
                   end) la lv))
         ((fix zipb (l0 : list ann) (vs : list value) {struct l0} : bool :=
             match l0, vs with
             | a1 :: l', v0 :: vs' => G a1 v0 && zipb l' vs'
             | _, _ => true
             end) la lv).
Proof.
  induction la as [|a1 la IH]; intros lv H; [apply agrees_must|].
  destruct lv as [|v0 lv]; [apply agrees_must|].
  apply all3_cons; [apply H; now left | apply IH; intros x Hx; apply H; now right].
Qed.

Lemma any3_agrees {A} (f : A -> verdict) (g : A -> bool) l :
  (forall x, In x l -> agrees (f x) (g x)) -> agrees (any3 (map f l)) (existsb g l).
Proof.
  intro H. unfold any3. induction l as [|x l IH]; [cbn; apply agrees_mustnot|].
  cbn [map existsb forallb].
  destruct (H x (or_introl eq_refl)) as [Hm Hn].
  assert (IH' := IH (fun y Hy => H y (or_intror Hy))). clear IH.
  destruct (f x) eqn:Ef; cbn [is_mustnot is_must orb andb].
  - rewrite (Hm eq_refl). apply agrees_must.
  - rewrite (Hn eq_refl). cbn [orb]. exact IH'.
  - destruct (existsb is_must (map f l)) eqn:Ee.
    + destruct IH' as [IHm _]. rewrite (IHm eq_refl), orb_true_r. apply agrees_must.
    + apply agrees_unspec.
Qed.

Lemma and3_agrees x y a b : agrees x a -> agrees y b -> agrees (and3 x y) (a && b).
Proof.
  intros [Hxm Hxn] [Hym Hyn]. unfold and3, all3. cbn.
  destruct x, y; cbn; try apply agrees_unspec;
    try (rewrite (Hxm eq_refl)); try (rewrite (Hxn eq_refl)); try (rewrite (Hym eq_refl)); try (rewrite (Hyn eq_refl));
    rewrite ?andb_false_r; cbn; try apply agrees_must; try apply agrees_mustnot.
Qed.

Lemma subclass_refl c : subclass c c = true.
Proof.
  destruct c; cbn; try reflexivity.
  induction path as [|x p IH]; cbn; [reflexivity|]. now rewrite Nat.eqb_refl.
Qed.

Section Spec.
  Variable cfg : checker_cfg.
  Hypothesis good : good_facts cfg.
  Variable ctx : nat -> option cls.

  Lemma exact_ann_subtype a e : exact_ann a e = true -> is_subtype_cls (sub_cls_of a) e = Ok true.
  Proof.
    destruct a as [[c|]|]; destruct e; cbn; intro H; try discriminate.
    apply cls_eqb_eq in H. subst. now rewrite subclass_refl.
  Qed.

  Lemma exact_params_zip : forall ps l, exact_params ps l = true ->
    zip_subtype ps l = Ok true /\ List.length l = List.length (filter (fun p => negb (snd p)) ps).
  Proof.
    induction ps as [|p ps IH]; destruct l as [|a l]; cbn; intro H; try discriminate; [split; reflexivity|].
    apply andb_true_iff in H as [H Hr]. apply andb_true_iff in H as [Hd He].
    rewrite (exact_ann_subtype _ _ He). rewrite Hd. cbn. destruct (IH l Hr) as [-> ->]. split; reflexivity.
  Qed.

  Lemma ret_clash_subtype a e : ret_clash a e = true -> is_subtype_cls (sub_cls_of a) e = Ok false.
  Proof.
    destruct a as [[c|]|]; destruct e; cbn; intro H; try discriminate.
    apply negb_true_iff in H. now rewrite H.
  Qed.

  Lemma params_clash_zip : forall ps l, params_clash ps l = true -> zip_subtype ps l <> Ok true.
  Proof.
    induction ps as [|p ps IH]; destruct l as [|a l]; cbn [params_clash zip_subtype]; intro H; try discriminate.
    apply orb_true_iff in H as [H|H].
    - destruct (fst p) as [[c|]|]; destruct a; cbn in H; try discriminate.
      apply andb_true_iff in H as [H _]. apply negb_true_iff in H. cbn [sub_cls_of is_subtype_cls]. rewrite H. discriminate.
    - destruct (is_subtype_cls (sub_cls_of (fst p)) a) as [[|]|e]; try discriminate. now apply IH.
  Qed.

  Lemma callable_agrees ps r v : agrees (conforms_callable ps r v)
    (match callable_check cfg ps r v with Ok b => b | Raise _ => false end).
  Proof.
    unfold conforms_callable, callable_check.
    destruct v; try (rewrite (gf_sig_type cfg good); apply agrees_mustnot); try apply agrees_unspec; try apply agrees_mustnot.
    destruct (fs_coroutine s) eqn:Eco; [apply agrees_unspec|].
    unfold callable_fun. rewrite Eco.
    destruct ps as [l|].
    - destruct (negb (Nat.eqb (List.length l) (List.length (filter (fun p => negb (snd p)) (fs_params s))))) eqn:El;
        [apply agrees_mustnot|].
      destruct (params_clash (fs_params s) l || ret_clash (fs_ret s) r) eqn:Ec.
      { apply orb_true_iff in Ec as [Ec|Ec].
        - pose proof (params_clash_zip _ _ Ec) as Hz.
          destruct (zip_subtype (fs_params s) l) as [[|]|e]; [contradiction|apply agrees_mustnot|apply agrees_mustnot].
        - destruct (zip_subtype (fs_params s) l) as [[|]|e]; [|apply agrees_mustnot|apply agrees_mustnot].
          rewrite (ret_clash_subtype _ _ Ec). apply agrees_mustnot. }
      destruct (exact_params (fs_params s) l && exact_ann (fs_ret s) r) eqn:Ex; [|apply agrees_unspec].
      apply andb_true_iff in Ex as [Ep Er]. destruct (exact_params_zip _ _ Ep) as [-> _].
      rewrite (exact_ann_subtype _ _ Er). apply agrees_must.
    - destruct (ret_clash (fs_ret s) r) eqn:Ec; [rewrite (ret_clash_subtype _ _ Ec); apply agrees_mustnot|].
      destruct (exact_ann (fs_ret s) r) eqn:Er; [|apply agrees_unspec].
      rewrite (exact_ann_subtype _ _ Er). apply agrees_must.
  Qed.

  Lemma same_class_eq_in v vals : existsb (same_class_eq v) vals = true -> py_in_scalar v vals = true.
  Proof.
    unfold py_in_scalar. intro H. apply existsb_exists in H as [x [Hx Hs]]. apply existsb_exists. exists x. split; [assumption|].
    unfold same_class_eq in Hs. now apply andb_true_iff in Hs as [_ ?].
  Qed.

  Theorem chk_agrees : forall a, supported_in ctx a = true -> forall v, agrees (conforms ctx a v) (chk cfg ctx a v).
  Proof.
    induction a as [ | c | | sp args IHargs | vals | s IHs | n | n | sp o args IHargs | sp e IHe | sp | o | ps r IHps IHr | t | k]
      using ann_ind'; intros Hs v; try discriminate Hs.
    - cbn [conforms chk]. apply agrees_v_of_bool.
    - cbn [conforms chk]. apply agrees_must.
    - (* Union *)
      cbn [supported_in] in Hs. apply andb_true_iff in Hs as [_ Hall]. cbn [conforms chk].
      apply (any3_agrees (fun m => conforms ctx m v) (fun m => chk cfg ctx m v)).
      intros m Hm. rewrite Forall_forall in IHargs. rewrite forallb_forall in Hall. apply IHargs; auto.
    - (* Literal *)
      cbn [conforms chk]. destruct (existsb (same_class_eq v) vals) eqn:E.
      + rewrite (same_class_eq_in _ _ E). apply agrees_must.
      + destruct (py_in_scalar v vals); [apply agrees_unspec | apply agrees_mustnot].
    - (* NewType *)
      cbn [supported_in] in Hs. destruct s; try discriminate Hs; try (exact (IHs Hs v)). cbn [conforms chk]. apply agrees_v_of_bool.
    - (* FwdRef *)
      cbn [conforms chk]. destruct (ctx n); [apply agrees_v_of_bool | apply agrees_unspec].
    - (* Generic *)
      cbn [supported_in] in Hs. apply andb_true_iff in Hs as [Hs Hargs]. apply andb_true_iff in Hs as [Har _].
      assert (Hf : o <> TType -> forall a0, In a0 args -> forall v0, agrees (conforms ctx a0 v0) (chk cfg ctx a0 v0)).
      { intros Hne a0 Ha0. rewrite Forall_forall in IHargs. apply IHargs; [assumption|].
        destruct o; try (rewrite forallb_forall in Hargs; now apply Hargs). now elim Hne. }
      cbn [conforms chk]. unfold arity_ok in Har.
      destruct (origin_kind o) eqn:Ek; try discriminate Har.
      + (* KElems *)
        destruct args as [|a0 [|? ?]]; try discriminate Har.
        destruct (abc_instance o (class_of v)) eqn:Eabc; cbn [andb]; [|apply agrees_mustnot].
        destruct (iter_values v) as [l|]; [|apply agrees_unspec].
        apply all3_agrees. intros x _. apply Hf; [intros ->; discriminate Ek | now left].
      + (* KMapping *)
        destruct args as [|ka [|va [|? ?]]]; try discriminate Har.
        destruct (abc_instance o (class_of v)) eqn:Eabc; cbn [andb]; [|apply agrees_mustnot].
        destruct (items_of v) as [kvs|]; [|apply agrees_unspec].
        apply (all3_agrees (fun kv => and3 (conforms ctx ka (fst kv)) (conforms ctx va (snd kv)))
                           (fun kv => chk cfg ctx ka (fst kv) && chk cfg ctx va (snd kv))).
        intros kv _. apply and3_agrees; apply Hf; try (intros ->; discriminate Ek); cbn; tauto.
      + (* KItems *)
        destruct args as [|ka [|va [|? ?]]]; try discriminate Har.
        assert (o = TItemsView) by (destruct o; try discriminate Ek; reflexivity). subst o.
        destruct (pairs_of v) as [kvs|] eqn:Ep.
        * assert (Eabc : abc_instance TItemsView (class_of v) = true) by (destruct v; try discriminate Ep; reflexivity).
          rewrite Eabc. cbn [andb].
          apply (all3_agrees (fun kv => and3 (conforms ctx ka (fst kv)) (conforms ctx va (snd kv)))
                             (fun kv => chk cfg ctx ka (fst kv) && chk cfg ctx va (snd kv))).
          intros kv _. apply and3_agrees; apply Hf; try discriminate; cbn; tauto.
        * rewrite andb_false_r. apply agrees_mustnot.
      + (* KTuple *)
        destruct args as [|a0 args']; [discriminate Har|].
        destruct v; try apply agrees_mustnot.
        destruct (Nat.eqb (List.length l) (List.length (a0 :: args'))) eqn:El; cbn [andb]; [|apply agrees_mustnot].
        apply (zip_agrees (conforms ctx) (chk cfg ctx) (a0 :: args') l). intros a1 Ha1 v1. apply Hf; [intros ->; discriminate Ek | exact Ha1].
      + (* KType *)
        destruct args as [|a0 [|? ?]]; try discriminate Har.
        assert (o = TType) by (destruct o; try discriminate Ek; reflexivity). subst o.
        destruct v; try apply agrees_mustnot.
        destruct a0; try discriminate Hargs; [apply agrees_v_of_bool | apply agrees_must].
    - (* TupleVar *)
      cbn [supported_in] in Hs. apply andb_true_iff in Hs as [_ Hs]. cbn [conforms chk]. destruct v; try apply agrees_mustnot.
      apply all3_agrees. intros x _. now apply IHe.
    - (* TupleEmpty *)
      cbn [conforms chk]. destruct v; try apply agrees_mustnot. destruct l; [apply agrees_must | apply agrees_mustnot].
    - (* Callable *)
      cbn [conforms chk]. apply callable_agrees.
  Qed.

  (* top level: None and string annotations are handled by _check_type itself *)
  Theorem chk_agrees_top : forall a, supported ctx a = true -> forall v, agrees (conforms ctx a v) (chk cfg ctx a v).
  Proof.
    intros a Hs v. destruct a; try (now apply chk_agrees).
    - cbn [conforms chk]. apply agrees_v_of_bool.
    - cbn [conforms chk]. destruct (ctx name); [apply agrees_v_of_bool | apply agrees_unspec].
  Qed.
End Spec.
