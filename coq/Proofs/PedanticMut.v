(* Bodies that CHANGE AN ARGUMENT IN PLACE and hand that very object back (C03 / C04): what the caller and the result check
   see of such a body is the object as it is after the change - a function of the value bound to the parameter.  `body` is a
   function of the binding, so such bodies are ordinary inhabitants of it; the definitions below name them.  No proofs here. *)
From Coq Require Import List Arith Bool String ZArith.
From PV Require Import Base.Exn Base.Values Base.Ann Base.PyCall Model.Pedantic Model.PedanticEval Spec.PedanticSpec Proofs.PedanticWitness.
Import ListNotations.
Close Scope Z_scope.
Open Scope list_scope.
Open Scope string_scope.

Fixpoint slot_of (n : pname) (b : binding) : option slot :=
  match b with
  | [] => None
  | (k, s) :: b' => if Nat.eqb k n then Some s else slot_of n b'
  end.
(* the value bound to the named parameter n: the caller's keyword / positional value or the default object *)
Definition arg_value (f : fn) (c : call) (b : binding) (n : pname) : option value :=
  match slot_of n b with Some (BOne s) => src_value f c s | _ => None end.
(* the body applies `change` to the object bound to n and returns it *)
Definition returns_changed (f : fn) (c : call) (n : pname) (change : value -> value) : body :=
  fun b _ => match arg_value f c b n with Some v => Ok (change v) | None => Ok VNone end.

(* def f(a: List[int]) -> List[int] - parameter and result under the same annotation *)
Definition AListInt : ann := AGeneric SpTyping TList [AInt].
Definition f_list_to_list : fn :=
  {| f_name := "f"; f_dotted := false; f_params := [par a_ PosOrKw AListInt None]; f_bound := None; f_first_arg := Some a_;
     f_ret := Some AListInt; f_coroutine := false; f_generator := false; f_text := plain_text; f_setter := false; f_recv := false |}.
Definition append_to (x : value) (v : value) : value := match v with VList l => VList (l ++ [x]) | _ => v end.
