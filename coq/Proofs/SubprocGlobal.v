(* C17 - N concurrent invocations on one event loop: non-interference.

   `gstep` (Model/Subproc.v) interleaves any number of invocations: one loop thread (at most
   one parent coroutine inside a synchronous segment), every child forked from the parent
   process inherits whatever pipe ends the parent process holds at that moment, children
   run and die independently.  The write ends a child inherited from OTHER invocations'
   pipes are what could make invocations interfere (a foreign live child keeps a pipe open,
   so its reader never sees EOF).

   Main result (`projection`): under every schedule, for every number of invocations and
   every combination of callee behaviours, the local state of invocation i is a state that
   invocation i reaches when it runs ALONE (`lreach`, environment 0).  The invariant that
   carries the induction over the schedule: no child ever inherited a foreign write end,
   because a parent coroutine that does not own the loop thread holds no write end (fact
   `f_quiescent`, checked on the closed reachable sets).  Everything proved for one
   invocation therefore holds for each of N; progress and the termination measure lift to
   the whole system (sums over the list of invocations, by induction on that list).        *)
From Coq Require Import List Arith Bool Lia.
From PV Require Import Base.Exn Model.PipeKernel Model.Subproc Spec.SubprocSpec Proofs.SubprocReach Proofs.SubprocLocal.
Import ListNotations.

(* ---- lists ------------------------------------------------------------------------------ *)
Lemma update_nth_same : forall A (l : list A) i x y, nth_error l i = Some y -> nth_error (update_nth i x l) i = Some x.
Proof.
  induction l as [|h t IH]; intros [|i] x y H; cbn in *; try discriminate; [reflexivity | eauto].
Qed.

Lemma update_nth_other : forall A (l : list A) i j x, i <> j -> nth_error (update_nth i x l) j = nth_error l j.
Proof.
  induction l as [|h t IH]; intros [|i] [|j] x H; cbn; try reflexivity; [contradiction | apply IH; lia].
Qed.

Lemma update_nth_length : forall A (l : list A) i x, List.length (update_nth i x l) = List.length l.
Proof. induction l as [|h t IH]; intros [|i] x; cbn; auto. Qed.

Lemma map_update_nth_same : forall A B (f : A -> B) (l : list A) i x y,
  nth_error l i = Some y -> f x = f y -> map f (update_nth i x l) = map f l.
Proof.
  induction l as [|h t IH]; intros [|i] x y H E; cbn in *; try discriminate.
  - inversion H; subst. now rewrite E.
  - f_equal. eauto.
Qed.

Lemma forallb_false_ex : forall A (f : A -> bool) l, forallb f l = false ->
  exists i x, nth_error l i = Some x /\ f x = false.
Proof.
  induction l as [|h t IH]; cbn; intros H; [discriminate|].
  destruct (f h) eqn:E.
  - destruct (IH H) as [i [x [Hn Hx]]]. exists (S i), x. auto.
  - exists 0, h. auto.
Qed.

Definition lsum {A} (f : A -> nat) (l : list A) : nat := fold_right (fun x acc => f x + acc) 0 l.

Lemma lsum_cons : forall A (f : A -> nat) h t, lsum f (h :: t) = f h + lsum f t.
Proof. reflexivity. Qed.

Lemma lsum_update_lt : forall A (f : A -> nat) l i x y,
  nth_error l i = Some y -> f x < f y -> lsum f (update_nth i x l) < lsum f l.
Proof.
  induction l as [|h t IH]; intros [|i] x y H L; cbn [nth_error update_nth] in *; try discriminate.
  - inversion H; subst. unfold lsum; cbn [fold_right]. lia.
  - specialize (IH i x y H L). unfold lsum in *; cbn [fold_right]. lia.
Qed.

Lemma lsum_zero : forall A (f : A -> nat) l, (forall x, In x l -> f x = 0) -> lsum f l = 0.
Proof.
  induction l as [|h t IH]; intros H; [reflexivity|]. rewrite lsum_cons.
  rewrite (H h (or_introl eq_refl)), IH; [reflexivity|]. intros; apply H; now right.
Qed.

Lemma lsum_const : forall A (f : A -> nat) l n, (forall x, In x l -> f x = n) -> lsum f l = List.length l * n.
Proof.
  induction l as [|h t IH]; intros n H; [reflexivity|]. rewrite lsum_cons.
  rewrite (H h (or_introl eq_refl)), (IH n); [reflexivity|]. intros; apply H; now right.
Qed.

(* ---- a child step never touches the parent side ------------------------------------------ *)
Lemma c_do_ps : forall P b s a s', c_do P b s a = Some s' -> ps s' = ps s.
Proof.
  intros P b s a s' H. unfold c_do, c_die in H. destruct (c_payload b (cs s) a); [|inversion H; reflexivity].
  destruct (b_big b); [destruct (c_sending (cs s)); [destruct (parent_receiving P s); [|discriminate]|]|];
    inversion H; reflexivity.
Qed.

Lemma child_step_ps : forall P C b s s', c_step P C b s = Some s' -> ps s' = ps s.
Proof.
  intros P C b s s' H. unfold c_step in H.
  destruct (c_stat (cs s)); try discriminate.
  destruct (nth_error C (c_pc (cs s))) as [op|]; [|inversion H; reflexivity].
  destruct op.
  - inversion H; reflexivity.
  - destruct (b_async b && negb aware); [inversion H; reflexivity|].
    destruct (b_out b); inversion H; reflexivity.
  - destruct (c_pend (cs s)); try (inversion H; reflexivity).
    destruct (existsb (b_isa b) classes); [eapply c_do_ps; eauto | inversion H; reflexivity].
  - destruct (c_pend (cs s)); try (inversion H; reflexivity); eapply c_do_ps; eauto.
  - destruct (c_pend (cs s)); inversion H; reflexivity.
Qed.

Lemma kill_step_ps : forall s s', c_kill s = Some s' -> ps s' = ps s.
Proof. intros s s' H. unfold c_kill in H. destruct (c_stat (cs s)); inversion H; reflexivity. Qed.

(* ---- inherited descriptor tables ---------------------------------------------------------- *)
Lemma env_writers_zero : forall invs i,
  (forall v, In v invs -> forall k, ft_tx_count (g_inh v) k = 0) -> env_writers invs i = 0.
Proof.
  induction invs as [|v t IH]; intros i H; [reflexivity|].
  unfold env_writers in *. cbn [fold_right].
  rewrite IH; [|intros; apply H; now right].
  destruct (c_running (g_loc v)); [|reflexivity]. now rewrite (H v (or_introl eq_refl)).
Qed.

Lemma parent_table_from_no_tx : forall invs k0 i k,
  (forall j v, nth_error invs j = Some v -> k0 + j <> i -> e_tx (p_ends (ps (g_loc v))) = false) ->
  ft_tx_count (parent_table_from k0 invs i) k = 0.
Proof.
  induction invs as [|v t IH]; intros k0 i k H; [reflexivity|]. cbn.
  assert (Ht : ft_tx_count (parent_table_from (S k0) t i) k = 0).
  { apply IH. intros j w Hj Hne. apply (H (S j) w Hj). lia. }
  destruct (Nat.eqb k0 i) eqn:E; [exact Ht|].
  destruct (holds_any (p_ends (ps (g_loc v)))); [|exact Ht].
  cbn. rewrite Ht. rewrite (H 0 v eq_refl); [now rewrite andb_false_r|].
  apply Nat.eqb_neq in E. lia.
Qed.

Section Global.
  Variable P : list pop.
  Variable C : list cop.
  Variable strict : bool.
  Variable cstrict : bool.
  Hypothesis Hcheck : check_all P C strict cstrict = true.

  Inductive greach (behs : list beh) : gst -> Prop :=
  | gr_init : greach behs (ginit behs)
  | gr_step : forall g c g', greach behs g -> gstep P C c g = Some g' -> greach behs g'.

  Lemma grun_reach : forall behs sched g, greach behs g -> greach behs (grun P C sched g).
  Proof.
    intros behs. induction sched as [|c sched IH]; intros g Hg; [exact Hg|].
    cbn. apply IH. unfold gstep_skip. destruct (gstep P C c g) eqn:E; [eapply gr_step; eauto | exact Hg].
  Qed.

  (* the invariant *)
  Record ginv_ok (behs : list beh) (g : gst) : Prop := {
    gi_beh : map g_beh (g_invs g) = behs;
    gi_loc : forall i v, nth_error (g_invs g) i = Some v -> lreach P C (g_beh v) (g_loc v);
    gi_inh : forall i v, nth_error (g_invs g) i = Some v -> forall k, ft_tx_count (g_inh v) k = 0;
    gi_thr : forall i v, nth_error (g_invs g) i = Some v ->
               g_running g = Some i \/ g_loc v = linit \/ p_running (g_loc v) = false;
    gi_own : forall k, g_running g = Some k ->
               exists v, nth_error (g_invs g) k = Some v /\ p_running (g_loc v) = true
  }.

  Lemma ginit_ok : forall behs, ginv_ok behs (ginit behs).
  Proof.
    intros behs. split; cbn.
    - rewrite map_map. cbn. apply map_id.
    - intros i v H. apply nth_error_In, in_map_iff in H as [b [<- _]]. constructor.
    - intros i v H k. apply nth_error_In, in_map_iff in H as [b [<- _]]. reflexivity.
    - intros i v H. apply nth_error_In, in_map_iff in H as [b [<- _]]. right; left; reflexivity.
    - discriminate.
  Qed.

  Lemma env_zero : forall behs g i, ginv_ok behs g -> env_writers (g_invs g) i = 0.
  Proof.
    intros behs g i H. apply env_writers_zero. intros v Hv k.
    apply In_nth_error in Hv as [j Hj]. eapply gi_inh; eauto.
  Qed.

  (* a parent coroutine that does not own the loop thread holds no write end *)
  Lemma idle_no_tx : forall behs g i j v, ginv_ok behs g -> may_run (g_running g) i = true -> j <> i ->
    nth_error (g_invs g) j = Some v -> e_tx (p_ends (ps (g_loc v))) = false.
  Proof.
    intros behs g i j v H Hm Hne Hj.
    destruct (gi_thr _ _ H j v Hj) as [Hr | [Hl | Hp]].
    - rewrite Hr in Hm. cbn in Hm. apply Nat.eqb_eq in Hm. contradiction.
    - rewrite Hl. reflexivity.
    - eapply quiescent_no_tx; eauto. eapply gi_loc; eauto.
  Qed.

  Lemma step_p_ok : forall behs g lc i g', ginv_ok behs g -> gstep_p P C lc i g = Some g' -> ginv_ok behs g'.
  Proof.
    intros behs g lc i g' H Hs. unfold gstep_p in Hs.
    destruct (nth_error (g_invs g) i) as [v|] eqn:Hi; [|discriminate].
    destruct (may_run (g_running g) i) eqn:Hm; [|discriminate].
    rewrite (env_zero behs g i H) in Hs.
    destruct (lstep P C (g_beh v) 0 lc (g_loc v)) as [s'|] eqn:Hl; [|discriminate].
    inversion Hs; subst g'; clear Hs. split; cbn.
    + erewrite map_update_nth_same; [apply (gi_beh _ _ H) | exact Hi | reflexivity].
    + intros j w Hj. destruct (Nat.eq_dec i j) as [<-|Hne].
      * rewrite (update_nth_same _ _ i _ v Hi) in Hj. inversion Hj; subst w; cbn.
        eapply lr_step; [eapply gi_loc; eauto | exact Hl].
      * rewrite update_nth_other in Hj by exact Hne. eapply gi_loc; eauto.
    + intros j w Hj k. destruct (Nat.eq_dec i j) as [<-|Hne].
      * rewrite (update_nth_same _ _ i _ v Hi) in Hj. inversion Hj; subst w; cbn.
        destruct (negb (c_running (g_loc v)) && c_running s'); [|eapply gi_inh; eauto].
        unfold parent_table. apply parent_table_from_no_tx. intros j w Hj' Hne.
        eapply idle_no_tx; eauto.
      * rewrite update_nth_other in Hj by exact Hne. eapply gi_inh; eauto.
    + intros j w Hj. destruct (Nat.eq_dec i j) as [<-|Hne].
      * rewrite (update_nth_same _ _ i _ v Hi) in Hj. inversion Hj; subst w; cbn.
        destruct (p_running s') eqn:Hp; [left; reflexivity | right; right; reflexivity].
      * rewrite update_nth_other in Hj by exact Hne.
        destruct (gi_thr _ _ H j w Hj) as [Hr | Hrest]; [|right; exact Hrest].
        rewrite Hr in Hm. cbn in Hm. apply Nat.eqb_eq in Hm. congruence.
    + intros k Hk. destruct (p_running s') eqn:Hp; [|discriminate]. inversion Hk; subst k.
      exists {| g_loc := s'; g_beh := g_beh v;
                g_inh := if negb (c_running (g_loc v)) && c_running s' then parent_table (g_invs g) i else g_inh v |}.
      split; [eapply update_nth_same; eauto | exact Hp].
  Qed.

  Lemma step_ok : forall behs g c g', ginv_ok behs g -> gstep P C c g = Some g' -> ginv_ok behs g'.
  Proof.
    intros behs g c g' H Hs.
    destruct c as [i | i | i | i]; cbn [gstep] in Hs; [eapply step_p_ok; eauto | | | eapply step_p_ok; eauto].
    - (* a step of the child of invocation i *)
      destruct (nth_error (g_invs g) i) as [v|] eqn:Hi; [|discriminate].
      rewrite (env_zero behs g i H) in Hs.
      destruct (lstep P C (g_beh v) 0 LChild (g_loc v)) as [s'|] eqn:Hl; [|discriminate].
      inversion Hs; subst g'; clear Hs.
      assert (Hps : ps s' = ps (g_loc v)) by (eapply child_step_ps; exact Hl).
      split; cbn.
      + erewrite map_update_nth_same; [apply (gi_beh _ _ H) | exact Hi | reflexivity].
      + intros j w Hj. destruct (Nat.eq_dec i j) as [<-|Hne].
        * rewrite (update_nth_same _ _ i _ v Hi) in Hj. inversion Hj; subst w; cbn.
          eapply lr_step; [eapply gi_loc; eauto | exact Hl].
        * rewrite update_nth_other in Hj by exact Hne. eapply gi_loc; eauto.
      + intros j w Hj k. destruct (Nat.eq_dec i j) as [<-|Hne].
        * rewrite (update_nth_same _ _ i _ v Hi) in Hj. inversion Hj; subst w; cbn. eapply gi_inh; eauto.
        * rewrite update_nth_other in Hj by exact Hne. eapply gi_inh; eauto.
      + intros j w Hj. destruct (Nat.eq_dec i j) as [<-|Hne].
        * rewrite (update_nth_same _ _ i _ v Hi) in Hj. inversion Hj; subst w; cbn.
          destruct (gi_thr _ _ H i v Hi) as [Hr | [Hli | Hp]]; [left; exact Hr | | ].
          -- rewrite Hli in Hl. cbn in Hl. discriminate.
          -- right; right. unfold p_running in *. now rewrite Hps.
        * rewrite update_nth_other in Hj by exact Hne. eapply gi_thr; eauto.
      + intros k Hk. destruct (gi_own _ _ H k Hk) as [w [Hw Hp]].
        destruct (Nat.eq_dec i k) as [<-|Hne].
        * rewrite Hi in Hw. inversion Hw; subst w.
          eexists. split; [eapply update_nth_same; eauto|]. cbn. unfold p_running in *. now rewrite Hps.
        * exists w. split; [rewrite update_nth_other by exact Hne; exact Hw | exact Hp].
    - (* the child of invocation i is killed from outside *)
      destruct (nth_error (g_invs g) i) as [v|] eqn:Hi; [|discriminate].
      rewrite (env_zero behs g i H) in Hs.
      destruct (lstep P C (g_beh v) 0 LKill (g_loc v)) as [s'|] eqn:Hl; [|discriminate].
      inversion Hs; subst g'; clear Hs.
      assert (Hps : ps s' = ps (g_loc v)) by (eapply kill_step_ps; exact Hl).
      split; cbn.
      + erewrite map_update_nth_same; [apply (gi_beh _ _ H) | exact Hi | reflexivity].
      + intros j w Hj. destruct (Nat.eq_dec i j) as [<-|Hne].
        * rewrite (update_nth_same _ _ i _ v Hi) in Hj. inversion Hj; subst w; cbn.
          eapply lr_step; [eapply gi_loc; eauto | exact Hl].
        * rewrite update_nth_other in Hj by exact Hne. eapply gi_loc; eauto.
      + intros j w Hj k. destruct (Nat.eq_dec i j) as [<-|Hne].
        * rewrite (update_nth_same _ _ i _ v Hi) in Hj. inversion Hj; subst w; cbn. eapply gi_inh; eauto.
        * rewrite update_nth_other in Hj by exact Hne. eapply gi_inh; eauto.
      + intros j w Hj. destruct (Nat.eq_dec i j) as [<-|Hne].
        * rewrite (update_nth_same _ _ i _ v Hi) in Hj. inversion Hj; subst w; cbn.
          destruct (gi_thr _ _ H i v Hi) as [Hr | [Hli | Hp]]; [left; exact Hr | | ].
          -- rewrite Hli in Hl. cbn in Hl. discriminate.
          -- right; right. unfold p_running in *. now rewrite Hps.
        * rewrite update_nth_other in Hj by exact Hne. eapply gi_thr; eauto.
      + intros k Hk. destruct (gi_own _ _ H k Hk) as [w [Hw Hp]].
        destruct (Nat.eq_dec i k) as [<-|Hne].
        * rewrite Hi in Hw. inversion Hw; subst w.
          eexists. split; [eapply update_nth_same; eauto|]. cbn. unfold p_running in *. now rewrite Hps.
        * exists w. split; [rewrite update_nth_other by exact Hne; exact Hw | exact Hp].
  Qed.

  Lemma reach_ok : forall behs g, greach behs g -> ginv_ok behs g.
  Proof. induction 1; [apply ginit_ok | eapply step_ok; eauto]. Qed.

  (* ---- non-interference: the projection of any global run is a run of that invocation alone *)
  Lemma projection : forall behs g i v, greach behs g -> nth_error (g_invs g) i = Some v ->
    nth_error behs i = Some (g_beh v) /\ lreach P C (g_beh v) (g_loc v).
  Proof.
    intros behs g i v Hr Hi. pose proof (reach_ok behs g Hr) as H. split.
    - rewrite <- (gi_beh _ _ H). now apply map_nth_error.
    - eapply gi_loc; eauto.
  Qed.

  Lemma no_foreign_writer : forall behs g i, greach behs g -> env_writers (g_invs g) i = 0.
  Proof. intros. eapply env_zero, reach_ok; eauto. Qed.

  Lemma invs_length : forall behs g, greach behs g -> List.length (g_invs g) = List.length behs.
  Proof. intros behs g Hr. rewrite <- (gi_beh _ _ (reach_ok behs g Hr)). now rewrite map_length. Qed.

  (* ---- the whole system never deadlocks ---------------------------------------------------- *)
  Lemma choice_in : forall g i c, i < List.length (g_invs g) ->
    c = GParent i \/ c = GChild i \/ c = GKill i \/ c = GCancel i -> In c (g_choices g).
  Proof.
    intros g i c Hlt Hc. unfold g_choices. apply in_flat_map. exists i. split; [apply in_seq; lia|].
    cbn. intuition.
  Qed.

  Lemma global_progress : forall behs g, greach behs g -> g_all_done g = false -> g_enabled P C g = true.
  Proof.
    intros behs g Hr Hnd. pose proof (reach_ok behs g Hr) as H.
    (* the invocation that has to move: the owner of the loop thread, else any unfinished one *)
    assert (Hex : exists i v, nth_error (g_invs g) i = Some v /\ p_done (g_loc v) = false /\
                              may_run (g_running g) i = true).
    { destruct (g_running g) as [k|] eqn:Hk.
      - destruct (gi_own _ _ H k Hk) as [v [Hv Hp]]. exists k, v. repeat split; [exact Hv | | cbn; apply Nat.eqb_refl].
        unfold p_running, p_done in *. destruct (p_stat (ps (g_loc v))); congruence.
      - unfold g_all_done in Hnd. apply forallb_false_ex in Hnd as [i [v [Hv Hd]]]. exists i, v. auto. }
    destruct Hex as [i [v [Hv [Hd Hm]]]].
    assert (Hlt : i < List.length (g_invs g)) by (apply nth_error_Some; congruence).
    pose proof (gi_loc _ _ H i v Hv) as Hloc.
    unfold g_enabled. apply existsb_exists.
    destruct (progress P C strict cstrict Hcheck (g_beh v) (g_loc v) Hloc Hd) as [Hp | Hc].
    - exists (GParent i). split; [eapply choice_in; eauto|].
      cbn [gstep]. unfold gstep_p. rewrite Hv, Hm, (env_zero behs g i H).
      unfold parent_enabled, step_enabled in Hp. destruct (lstep P C (g_beh v) 0 LParent (g_loc v)); [reflexivity | discriminate].
    - exists (GChild i). split; [eapply choice_in; eauto|].
      cbn [gstep]. rewrite Hv, (env_zero behs g i H).
      pose proof Hc as Hf. unfold child_enabled, step_enabled in Hf.
      destruct (lstep P C (g_beh v) 0 LChild (g_loc v)); [reflexivity | discriminate].
  Qed.

  Lemma never_blocked_forever_global : forall behs g, greach behs g -> g_blocked_forever P C g = false.
  Proof.
    intros behs g Hr. unfold g_blocked_forever. destruct (g_all_done g) eqn:Hd; [reflexivity|].
    cbn [negb andb]. now rewrite (global_progress behs g Hr Hd).
  Qed.

  (* ---- termination: every effective step of any invocation decreases the sum of measures ----- *)
  Definition gmeasure (g : gst) : nat := lsum (fun v => measure P C (g_loc v)) (g_invs g).

  Lemma gmeasure_decreases : forall behs g c g', greach behs g -> gstep P C c g = Some g' -> gmeasure g' < gmeasure g.
  Proof.
    intros behs g c g' Hr Hs. pose proof (reach_ok behs g Hr) as H.
    destruct c as [i | i | i | i]; cbn [gstep] in Hs; unfold gstep_p in Hs;
      (destruct (nth_error (g_invs g) i) as [v|] eqn:Hi; [|discriminate]);
      try (destruct (may_run (g_running g) i); [|discriminate]);
      rewrite (env_zero behs g i H) in Hs.
    - destruct (lstep P C (g_beh v) 0 LParent (g_loc v)) as [s'|] eqn:Hl; [|discriminate].
      inversion Hs; subst g'. unfold gmeasure; cbn. eapply lsum_update_lt; [exact Hi|]. cbn.
      eapply measure_decreases; eauto. eapply gi_loc; eauto.
    - destruct (lstep P C (g_beh v) 0 LChild (g_loc v)) as [s'|] eqn:Hl; [|discriminate].
      inversion Hs; subst g'. unfold gmeasure; cbn. eapply lsum_update_lt; [exact Hi|]. cbn.
      eapply measure_decreases; eauto. eapply gi_loc; eauto.
    - destruct (lstep P C (g_beh v) 0 LKill (g_loc v)) as [s'|] eqn:Hl; [|discriminate].
      inversion Hs; subst g'. unfold gmeasure; cbn. eapply lsum_update_lt; [exact Hi|]. cbn.
      eapply measure_decreases; eauto. eapply gi_loc; eauto.
    - destruct (lstep P C (g_beh v) 0 LCancel (g_loc v)) as [s'|] eqn:Hl; [|discriminate].
      inversion Hs; subst g'. unfold gmeasure; cbn. eapply lsum_update_lt; [exact Hi|]. cbn.
      eapply measure_decreases; eauto. eapply gi_loc; eauto.
  Qed.

  Fixpoint geffective (sched : list gchoice) (g : gst) : nat :=
    match sched with
    | [] => 0
    | c :: rest =>
        match gstep P C c g with
        | Some g' => S (geffective rest g')
        | None => geffective rest g
        end
    end.

  Lemma geffective_bounded : forall behs sched g, greach behs g -> geffective sched g <= gmeasure g.
  Proof.
    intros behs. induction sched as [|c sched IH]; intros g Hr; cbn; [lia|].
    destruct (gstep P C c g) as [g'|] eqn:E; [|now apply IH].
    pose proof (gmeasure_decreases behs g c g' Hr E). specialize (IH g' (gr_step behs g c g' Hr E)). lia.
  Qed.

  Lemma gmeasure_init : forall behs, gmeasure (ginit behs) = List.length behs * measure P C linit.
  Proof.
    intros behs. unfold gmeasure, ginit. cbn [g_invs]. rewrite (lsum_const _ _ _ (measure P C linit)).
    - now rewrite map_length.
    - intros v Hv. apply in_map_iff in Hv as [b [<- _]]. reflexivity.
  Qed.

  (* from every reachable global state all invocations can be driven to their end *)
  Lemma can_finish_global : forall behs n g, greach behs g -> gmeasure g <= n ->
    exists ext, List.length ext <= n /\ g_all_done (grun P C ext g) = true.
  Proof.
    intros behs. induction n as [|n IH]; intros g Hr Hm.
    - destruct (g_all_done g) eqn:Hd; [exists []; split; [cbn; lia | exact Hd]|]. exfalso.
      pose proof (global_progress behs g Hr Hd) as He. unfold g_enabled in He.
      apply existsb_exists in He as [c [_ Hc]]. destruct (gstep P C c g) as [g'|] eqn:E; [|discriminate].
      pose proof (gmeasure_decreases behs g c g' Hr E). lia.
    - destruct (g_all_done g) eqn:Hd; [exists []; split; [cbn; lia | exact Hd]|].
      pose proof (global_progress behs g Hr Hd) as He. unfold g_enabled in He.
      apply existsb_exists in He as [c [_ Hc]]. destruct (gstep P C c g) as [g'|] eqn:E; [|discriminate].
      pose proof (gmeasure_decreases behs g c g' Hr E) as Hlt.
      destruct (IH g' (gr_step behs g c g' Hr E) ltac:(lia)) as [ext [Hl Hdone]].
      exists (c :: ext). split; [cbn; lia|]. cbn. unfold gstep_skip at 2. rewrite E. exact Hdone.
  Qed.

  (* ---- what the parent PROCESS still holds: sums over the invocations ------------------------ *)
  Definition inv_fds (v : ginv) : nat :=
    b2n (e_rx (p_ends (ps (g_loc v)))) + b2n (e_tx (p_ends (ps (g_loc v)))) + b2n (p_reader (ps (g_loc v))).
  Definition inv_unreaped (v : ginv) : nat :=
    b2n (negb (cs_exited (c_stat (cs (g_loc v)))) && negb (match c_stat (cs (g_loc v)) with CNotStarted => true | _ => false end))
    + b2n (zombie (c_stat (cs (g_loc v))) (p_joined (ps (g_loc v)))).
  Definition g_parent_fds (g : gst) : nat := lsum inv_fds (g_invs g).
  Definition g_unreaped (g : gst) : nat := lsum inv_unreaped (g_invs g).

  Lemma clean_exit_counts : forall v, clean_exit (g_loc v) = true -> inv_fds v = 0 /\ inv_unreaped v = 0.
  Proof.
    intros v H. unfold clean_exit in H. repeat (apply andb_true_iff in H; destruct H as [H ?]).
    unfold inv_fds, inv_unreaped, holds_any in *.
    destruct (e_rx (p_ends (ps (g_loc v)))), (e_tx (p_ends (ps (g_loc v)))), (p_reader (ps (g_loc v))),
      (c_stat (cs (g_loc v))), (p_joined (ps (g_loc v))); cbn in *; try discriminate; auto.
  Qed.

  Lemma all_done_clean : forall behs g, greach behs g -> g_all_done g = true ->
    (forall b, In b behs -> b_unp b && negb strict = false) ->
    (forall v, In v (g_invs g) -> cancelled_at_wait (g_loc v) && negb cstrict = false) ->
    g_parent_fds g = 0 /\ g_unreaped g = 0.
  Proof.
    intros behs g Hr Hd Hun Hcan. pose proof (reach_ok behs g Hr) as H.
    unfold g_all_done in Hd. rewrite forallb_forall in Hd.
    assert (Hc : forall v, In v (g_invs g) -> clean_exit (g_loc v) = true).
    { intros v Hv. pose proof (Hd v Hv) as Hdv. apply In_nth_error in Hv as [i Hi].
      eapply done_clean; eauto; [eapply gi_loc; eauto| |apply Hcan; eapply nth_error_In; eauto].
      apply Hun. rewrite <- (gi_beh _ _ H). apply in_map_iff. exists v. split; [reflexivity|].
      eapply nth_error_In; eauto. }
    split; apply lsum_zero; intros v Hv; now apply clean_exit_counts, Hc.
  Qed.

  (* the loop thread is never held while the callee of the holder is still computing *)
  Lemma holder_not_computing : forall behs g k v, greach behs g -> g_running g = Some k ->
    nth_error (g_invs g) k = Some v -> gstep P C (GParent k) g = None -> callee_pending C (g_loc v) = false.
  Proof.
    intros behs g k v Hr Hk Hv Hs. pose proof (reach_ok behs g Hr) as H.
    destruct (gi_own _ _ H k Hk) as [w [Hw Hp]]. rewrite Hv in Hw. inversion Hw; subst w.
    eapply nonblocking; eauto; [eapply gi_loc; eauto|].
    unfold sync_blocked. rewrite Hp. cbn [andb]. unfold parent_enabled.
    cbn [gstep] in Hs. unfold gstep_p in Hs. rewrite Hv, Hk in Hs. cbn [may_run] in Hs. rewrite Nat.eqb_refl, (env_zero behs g k H) in Hs.
    destruct (lstep P C (g_beh v) 0 LParent (g_loc v)); [discriminate | reflexivity].
  Qed.
End Global.
