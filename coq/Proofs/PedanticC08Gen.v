(* C08, generator functions: (1) calling a @pedantic generator function gives the wrapper object or a PedanticException
   (under the guards of wrapper_adds_nothing); (2) every operation on the GeneratorWrapper (next / send / throw / close)
   either behaves as the operation on the undecorated generator, or raises a PedanticException: whatever other exception
   reaches the caller is exactly the one the SAME operation on the inner generator raised.                              *)
From Coq Require Import List Arith Bool Lia String.
From PV Require Import Base.Exn Base.Values Base.Ann Base.PyCall Model.Checker Model.PedanticCfg Model.Pedantic Model.GenWrapper
  Proofs.PedanticBase Proofs.PedanticC08.
Import ListNotations.
Open Scope list_scope.

Section C08Gen.
  Variable pc : pedantic_cfg.
  Variable check : ann -> value -> tvenv -> outcome unit * tvenv.
  Variable consumes : ann -> value -> bool.
  Hypothesis good : pc_good pc = true.
  Hypothesis check_pedantic : forall a v tv e tv', check a v tv = (Raise e, tv') -> is_pedantic e = true.
  Let G := good_inv pc good.

  (* (1) the call that creates the generator: nothing but a PedanticException (the body does not run at the call) *)
  Theorem gen_call_adds_nothing : forall f c,
    machinery_ok f c -> same_positionals pc f c -> twin_accepts f c ->
    ped_out (fst (run_gen pc check consumes f c)).
  Proof.
    intros f c Hm Hsame [bt Htwin]. pose proof (fun inst => probe_ok f c inst Hm) as Hprobe0. destruct Hm as [Hinst _].
    unfold run_gen, wrapper_run.
    destruct (instance_of f c) as [inst|e] eqn:Ei.
    2:{ exfalso. unfold instance_of in Ei. destruct (is_instance_method f); [|discriminate].
        destruct (wargs c) eqn:Ew; [|discriminate]. now apply (Hinst eq_refl). }
    pose proof (Hprobe0 inst) as Hprobe.
    unfold pedantic_wrapper. assert (Hw : (if f_coroutine f then pc_async_wrapper pc else pc_wrapper pc) = [WAssertKwargs; WCheckTypes]).
    { destruct (f_coroutine f); [apply (gf_awrap pc G) | apply (gf_wrap pc G)]. }
    rewrite Hw. cbn [wsteps].
    destruct (assert_uses_kwargs pc f c) as [u|e] eqn:Ea.
    2:{ cbn. unfold assert_uses_kwargs in Ea. destruct (forallb _ _); [|discriminate]. inversion Ea. now rewrite (gf_exn pc G). }
    unfold check_types_gen, check_steps.
    assert (Hs : (if f_coroutine f then pc_async_steps pc else pc_sync_steps pc) = [StArgs; StCall; StRetCheck]).
    { destruct (f_coroutine f); [apply (gf_asteps pc G) | apply (gf_steps pc G)]. }
    rewrite Hs. cbn [steps].
    pose proof (args_phase_ped pc check consumes good check_pedantic f c inst Hprobe astate0) as Ha.
    destruct (args_phase pc check consumes f c inst astate0) as [st|e]; [|cbn; exact Ha].
    unfold invoke_gen. unfold same_positionals in Hsame. rewrite Hsame, Htwin.
    cbn [fst]. unfold ret_gen. destruct (f_ret f) as [a|]; [|reflexivity].
    rewrite Hprobe. unfold gen_types.
    destruct a; try reflexivity. destruct sp; try reflexivity.
    destruct (existsb _ _); [|reflexivity].
    destruct args as [|y [|s0 [|r0 [|? ?]]]]; try reflexivity; exact I.
  Qed.

  (* (2) the operations of the wrapper *)
  Variable yt st_ rt : ann.
  Variable body : gbody.

  Definition inner_op (g : gstate) (o : gop) : ires * gstate :=
    match o with
    | OpNext => inner_send body g VNone
    | OpSend v => inner_send body g v
    | OpThrow e => inner_throw body g e
    | OpClose => inner_close body g
    end.

  Theorem gen_step_adds_nothing : forall w o e w',
    w_step check yt st_ rt body w o = (WRaise e, w') ->
    is_pedantic e = true \/ exists g', inner_op (w_inner w) o = (IRaise e, g').
  Proof.
    intros w o e w' H.
    assert (Hsend : forall w0 v, w_inner w0 = w_inner w -> w_send check yt st_ rt body w0 v = (WRaise e, w') ->
                     is_pedantic e = true \/ exists g', inner_send body (w_inner w) v = (IRaise e, g')).
    { intros w0 v Hin Hv. unfold w_send in Hv. rewrite Hin in Hv.
      destruct (w_init w0).
      - destruct (check st_ v (w_tv w0)) as [[u|e0] tv1] eqn:Ec.
        + destruct (inner_send body (w_inner w) v) as [[y|r|e1|] g'] eqn:Ei.
          * destruct (check yt y tv1) as [[u2|e2] tv2] eqn:Ey; inversion Hv; subst. left. eapply check_pedantic; eassumption.
          * destruct (check rt r tv1) as [[u2|e2] tv2] eqn:Er; inversion Hv; subst. left. eapply check_pedantic; eassumption.
          * inversion Hv; subst. right. eauto.
          * discriminate Hv.
        + inversion Hv; subst. left. eapply check_pedantic; eassumption.
      - destruct (inner_send body (w_inner w) v) as [[y|r|e1|] g'] eqn:Ei.
        + destruct (check yt y (w_tv w0)) as [[u2|e2] tv2] eqn:Ey; inversion Hv; subst. left. eapply check_pedantic; eassumption.
        + destruct (check rt r (w_tv w0)) as [[u2|e2] tv2] eqn:Er; inversion Hv; subst. left. eapply check_pedantic; eassumption.
        + inversion Hv; subst. right. eauto.
        + discriminate Hv. }
    destruct o as [|v|e0|]; cbn [w_step inner_op] in *.
    - unfold w_next in H. now apply (Hsend (w_uninit w)).
    - now apply (Hsend w).
    - unfold w_throw in H. destruct (inner_throw body (w_inner w) e0) as [[y|r|e1|] g'] eqn:Ei; inversion H; subst. right. eauto.
    - unfold w_close in H. destruct (inner_close body (w_inner w)) as [[y|r|e1|] g'] eqn:Ei; inversion H; subst. right. eauto.
  Qed.

  (* lifted to every operation of every operation sequence: wi is the state the wrapper is in when operation i starts *)
  Theorem gen_run_adds_nothing : forall ops w rs w',
    w_run check yt st_ rt body w ops = (rs, w') ->
    forall i e, nth_error rs i = Some (WRaise e) ->
    is_pedantic e = true \/
    exists rs0 wi o g', w_run check yt st_ rt body w (firstn i ops) = (rs0, wi) /\ nth_error ops i = Some o /\
                        inner_op (w_inner wi) o = (IRaise e, g').
  Proof.
    induction ops as [|o ops IH]; intros w rs w' H i e Hi.
    - cbn in H. inversion H; subst. destruct i; discriminate Hi.
    - cbn [w_run] in H. destruct (w_step check yt st_ rt body w o) as [r w1] eqn:Es.
      destruct (w_run check yt st_ rt body w1 ops) as [rs1 w2] eqn:Er. inversion H; subst.
      destruct i as [|i]; cbn [nth_error] in *.
      + inversion Hi; subst. destruct (gen_step_adds_nothing w o e w1 Es) as [Hp | [g' Hg]]; [now left|].
        right. exists [], w, o, g'. split; [reflexivity | split; [reflexivity | exact Hg]].
      + destruct (IH _ _ _ Er i e Hi) as [Hp | [rs0 [wi [o' [g' [Hrun [Ho Hg]]]]]]]; [now left|].
        right. exists (r :: rs0), wi, o', g'. split; [|split; assumption].
        cbn [firstn w_run]. now rewrite Es, Hrun.
  Qed.
End C08Gen.
