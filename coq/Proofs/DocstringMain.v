(* C19 - the docstring check accepts exactly the consistent docstrings; every single edit is rejected
   with PedanticDocstringException.  Lemmas about the reference semantics (Proofs/DocstringRef.v),
   used by Props/C19.v.                                                                            *)
From Coq Require Import List Bool Arith ZArith String Lia.
From PV Require Import Base.Exn Model.DocstringTyping Model.Docstring Spec.DocstringSpec
  Proofs.DocstringTy Proofs.DocstringEvalLemmas Proofs.DocstringRef.
Import ListNotations.
Open Scope string_scope.
Open Scope list_scope.

(* ---- small list facts -------------------------------------------------------------------------- *)
Lemma nodupb_NoDup : forall l, nodupb l = true <-> NoDup l.
Proof.
  induction l as [|x r IH]; cbn; split; intros H; try reflexivity; try constructor.
  - apply andb_true_iff in H as [H _]. apply negb_true_iff in H. now apply mem_false_In.
  - apply andb_true_iff in H as [_ H]. now apply IH.
  - inversion H; subst. apply andb_true_iff. split; [apply negb_true_iff; now apply mem_false_In|now apply IH].
Qed.

Lemma NoDup_map_filter : forall {A B} (f : A -> B) (p : A -> bool) l, NoDup (map f l) -> NoDup (map f (filter p l)).
Proof.
  induction l as [|x r IH]; cbn; intros H; [constructor|]. inversion H; subst.
  destruct (p x); cbn; auto. constructor; auto. intros Hin. apply H2.
  apply in_map_iff in Hin as [y [E Hy]]. apply filter_In in Hy as [Hy _]. apply in_map_iff. eauto.
Qed.

Lemma nodup_fst_unique : forall {A} (l : list (string * A)) k a b,
  NoDup (map fst l) -> In (k, a) l -> In (k, b) l -> a = b.
Proof.
  induction l as [|[k' v] r IH]; cbn; intros k a b H Ha Hb; [contradiction|]. inversion H; subst.
  destruct Ha as [Ha|Ha]; destruct Hb as [Hb|Hb].
  - congruence.
  - inversion Ha; subst. exfalso. apply H2. apply in_map_iff. exists (k, b). auto.
  - inversion Hb; subst. exfalso. apply H2. apply in_map_iff. exists (k, a). auto.
  - eauto.
Qed.

Lemma assoc_In : forall {A} (l : list (string * A)) k v, assoc k l = Some v -> In (k, v) l.
Proof.
  induction l as [|[k' v'] r IH]; cbn; intros k v H; [discriminate|].
  destruct (String.eqb_spec k k'); [inversion H; subst; auto|right; auto].
Qed.

Lemma In_assoc : forall {A} (l : list (string * A)) k v, NoDup (map fst l) -> In (k, v) l -> assoc k l = Some v.
Proof.
  induction l as [|[k' v'] r IH]; cbn; intros k v H Hin; [contradiction|]. inversion H; subst.
  destruct Hin as [E|Hin].
  - inversion E; subst. now rewrite String.eqb_refl.
  - destruct (String.eqb_spec k k'); [|auto]. subst. exfalso. apply H2. apply in_map_iff. exists (k', v). auto.
Qed.

Lemma assoc_None : forall {A} (l : list (string * A)) k, assoc k l = None -> forall v, ~ In (k, v) l.
Proof.
  induction l as [|[k' v'] r IH]; cbn; intros k H v Hin; [assumption|].
  destruct (String.eqb_spec k k'); [discriminate|]. destruct Hin as [E|Hin]; [inversion E; congruence|eapply IH; eauto].
Qed.

Lemma filter_head_In : forall {A} (f : A -> bool) l x xs, filter f l = x :: xs -> In x l /\ f x = true.
Proof.
  intros A f l x xs H. assert (Hin : In x (filter f l)) by (rewrite H; now left). now apply filter_In in Hin.
Qed.

Lemma filter_nil_none : forall {A} (f : A -> bool) l, filter f l = [] -> forall x, In x l -> f x = false.
Proof.
  intros A f l H x Hx. destruct (f x) eqn:E; [|reflexivity].
  assert (Hin : In x (filter f l)) by (apply filter_In; auto). rewrite H in Hin. contradiction.
Qed.

(* ---- the signature ------------------------------------------------------------------------------- *)
Lemma is_return_eq : forall k, is_return k = true <-> k = "return".
Proof. intros. unfold is_return. apply String.eqb_eq. Qed.

Lemma num_taken_params : forall ann, num_taken ann = List.length (param_names ann).
Proof. intros. unfold param_names. rewrite map_length. reflexivity. Qed.

Lemma params_of_In : forall ann k t, In (k, t) (params_of ann) <-> In (k, t) ann /\ is_return k = false.
Proof.
  intros. unfold params_of. rewrite filter_In. unfold is_ret, is_return. cbn [fst].
  split; intros [H1 H2]; split; auto; [now apply negb_true_iff in H2|now apply negb_true_iff].
Qed.

Lemma param_names_In : forall ann k, In k (param_names ann) <-> exists t, In (k, t) ann /\ is_return k = false.
Proof.
  intros. unfold param_names. rewrite in_map_iff. split.
  - intros [[k' t] [E H]]. cbn in E. subst. exists t. now apply params_of_In.
  - intros [t H]. exists (k, t). split; [reflexivity|now apply params_of_In].
Qed.

Record sig_facts (ann : annotations) : Prop := {
  sf_nodup : NoDup (map fst ann);
  sf_ann_ok : forall k t, In (k, t) ann -> ann_ok t = true }.

Lemma sig_ok_facts : forall ann, sig_ok ann = true -> sig_facts ann.
Proof.
  unfold sig_ok. intros ann H. apply andb_true_iff in H as [H1 H2].
  constructor.
  - now apply nodupb_NoDup.
  - intros k t Hin. rewrite forallb_forall in H2. apply (H2 (k, t) Hin).
Qed.

Lemma no_hiding_facts : forall scope, no_hiding scope = true -> forall n, In n scope -> name_ok n = true.
Proof. unfold no_hiding. intros scope H n Hn. rewrite forallb_forall in H. auto. Qed.

Lemma param_names_NoDup : forall ann, NoDup (map fst ann) -> NoDup (param_names ann).
Proof. intros. unfold param_names, params_of. now apply NoDup_map_filter. Qed.

Lemma ann_names_In : forall ann k t n, In (k, t) ann -> In n (cls_names t) -> In n (ann_names ann).
Proof. intros. unfold ann_names. apply in_flat_map. exists (k, t). auto. Qed.

Record scope_facts (scope : list string) (ann : annotations) : Prop := {
  sc_incl : forall n, In n (ann_names ann) -> In n scope }.

Lemma scope_ok_facts : forall scope ann, scope_ok scope ann = true -> scope_facts scope ann.
Proof.
  unfold scope_ok. intros scope ann H. rewrite forallb_forall in H.
  constructor. intros n Hn. apply mem_In. exact (H n Hn).
Qed.

(* ---- upd collects class names of the annotation ----------------------------------------------------- *)
Definition upd_arg (a : ty) : list string := match a with TLst m => flat_map upd m | x => upd x end.

Lemma upd_names_aux : forall n t,
  (In n (upd t) -> In n (cls_names t)) /\ (In n (upd_arg t) -> In n (cls_names t)).
Proof.
  intros n. induction t using ty_ind'; cbn; try (split; intros Hx; assumption || contradiction).
  - (* TUnion *) rewrite Forall_forall in H. assert (G : In n (flat_map upd l) -> In n (flat_map cls_names l)).
    { intros Hin. apply in_flat_map in Hin as [x [Hx Hn]]. apply in_flat_map. exists x. split; [assumption|]. destruct (H x Hx) as [G1 G2]; auto. }
    split; exact G.
  - (* TGen *) rewrite Forall_forall in H.
    assert (G : In n (if is_typing_callable g then flat_map upd l else flat_map upd_arg l) -> In n (flat_map cls_names l)).
    { destruct (is_typing_callable g); intros Hin; apply in_flat_map in Hin as [x [Hx Hn]]; apply in_flat_map; exists x;
        (split; [assumption|]); destruct (H x Hx) as [G1 G2]; auto. }
    split; exact G.
  - (* TLst *) rewrite Forall_forall in H. split; [intros []|].
    intros Hin. apply in_flat_map in Hin as [x [Hx Hn]]. apply in_flat_map. exists x. split; [assumption|]. destruct (H x Hx) as [G1 G2]; auto.
  - (* TPipe *) rewrite Forall_forall in H. assert (G : In n (flat_map upd l) -> In n (flat_map cls_names l)).
    { intros Hin. apply in_flat_map in Hin as [x [Hx Hn]]. apply in_flat_map. exists x. split; [assumption|]. destruct (H x Hx) as [G1 G2]; auto. }
    split; exact G.
Qed.

Lemma upd_names : forall n t, In n (upd t) -> In n (cls_names t).
Proof. intros n t. destruct (upd_names_aux n t) as [G _]. exact G. Qed.

(* ... and all of them, for annotation objects (no Python tuples / lists inside): since the fix 2108a61 also under X | Y *)
Lemma upd_complete : forall n t, ann_ok t = true -> In n (cls_names t) -> In n (upd t).
Proof.
  intros n. induction t using ty_ind'; cbn; intros Ha Hn; try assumption; try discriminate;
    rewrite Forall_forall in H; rewrite forallb_forall in Ha.
  - apply in_flat_map in Hn as [x [Hx Hn]]. apply in_flat_map. exists x. split; auto.
  - apply in_flat_map in Hn as [x [Hx Hn]]. destruct (is_typing_callable g); apply in_flat_map; exists x; (split; [assumption|]).
    + auto.
    + specialize (Ha x Hx). destruct x; try (apply H; auto); cbn in Ha; discriminate.
  - apply in_flat_map in Hn as [x [Hx Hn]]. apply in_flat_map. exists x. split; auto.
Qed.

Lemma ann_ok_ctx_covers : forall anns ctx,
  (forall k t, In (k, t) anns -> ann_ok t = true) -> ctx_covers ctx anns = true.
Proof.
  induction anns as [|[k t] r IH]; intros ctx H; [reflexivity|]. cbn [ctx_covers]. apply andb_true_iff. split.
  - apply forallb_forall. intros n Hn. apply orb_true_iff. left. apply mem_In. apply in_app_iff. left.
    apply upd_complete; [apply (H k t); now left|assumption].
  - apply IH. intros k0 t0 H0. apply (H k0 t0). now right.
Qed.

(* ---- _parse_documented_type ---------------------------------------------------------------------------- *)
Lemma parse_ref_Ok_inv : forall ctx od a, parse_ref ctx od = Ok a ->
  exists d, od = Some d /\ contains "typing." (dt_text d) = false /\ eval ctx (dt_expr d) = Ok a.
Proof.
  unfold parse_ref. intros ctx [d|] a H; [|discriminate]. exists d.
  destruct (contains "typing." (dt_text d)); [discriminate|].
  destruct (eval ctx (dt_expr d)) as [v|x]; [inversion H; auto|].
  destruct (derives x NameErrorC); [discriminate|]. destruct (derives x ExceptionC) eqn:E; [discriminate|].
  inversion H.
Qed.

Lemma parse_ref_Ok_intro : forall ctx d a, contains "typing." (dt_text d) = false -> eval ctx (dt_expr d) = Ok a ->
  parse_ref ctx (Some d) = Ok a.
Proof. unfold parse_ref. intros ctx d a H1 H2. now rewrite H1, H2. Qed.

Lemma name_ok_same : forall n, name_ok' n = name_ok n.
Proof. reflexivity. Qed.

(* evaluation in a context contained in the scope: the same value, or a NameError *)
Lemma eval_ctx_scope : forall ctx scope e,
  (forall m, In m ctx -> In m scope) -> (forall m, In m scope -> name_ok m = true) ->
  approx (eval ctx e) (eval scope e).
Proof. intros. apply eval_approx. intros n _. apply lookup_approx; auto. Qed.

Lemma eval_up : forall ctx scope e a,
  (forall m, In m ctx -> In m scope) -> (forall m, In m scope -> name_ok m = true) ->
  eval ctx e = Ok a -> eval scope e = Ok a.
Proof.
  intros ctx scope e a H1 H2 H. destruct (eval_ctx_scope ctx scope e H1 H2) as [E|E]; congruence.
Qed.

Lemma parse_B : forall ctx od,
  (exists a, parse_ref ctx od = Ok a) \/ parse_ref ctx od = Raise PDocstringC.
Proof.
  intros ctx od. unfold parse_ref. destruct od as [d|]; [|now right].
  destruct (contains "typing." (dt_text d)); [now right|].
  destruct (eval ctx (dt_expr d)) as [v|x] eqn:E; [left; eauto|].
  destruct (derives x NameErrorC); [now right|]. apply eval_exc in E. unfold exc in E. rewrite E. now right.
Qed.

(* ---- documented types of a docstring ----------------------------------------------------------------------- *)
Lemma doc_types_param : forall doc p d, In p (d_params doc) -> snd p = Some d -> In d (doc_types doc).
Proof.
  intros doc p d Hp E. unfold doc_types. apply in_app_iff. left. apply in_flat_map. exists p. split; [assumption|].
  rewrite E. now left.
Qed.

Lemma doc_types_returns : forall doc l d, d_returns doc = Some l -> In d l -> In d (doc_types doc).
Proof. intros doc l d E H. unfold doc_types. apply in_app_iff. right. now rewrite E. Qed.

Lemma is_none_eq : forall t, is_none t = true <-> t = TNone.
Proof. destruct t; cbn; split; intros H; congruence. Qed.

(* ---- the loop, as a conjunction over the annotations ---------------------------------------------------------- *)
Fixpoint loop_spec (doc : docT) (ctx : list string) (anns : list (string * ty)) : Prop :=
  match anns with
  | [] => True
  | (k, t) :: r =>
      let ctx' := upd t ++ ctx in
      (if is_return k
       then is_none t = true \/
            exists d a, d_returns doc = Some [d] /\ parse_ref ctx' (Some d) = Ok a /\ ty_eqb a t = true
       else exists p ps a, filter (fun p => String.eqb (fst p) k) (d_params doc) = p :: ps /\
                           parse_ref ctx' (snd p) = Ok a /\ ty_eqb t a = true)
      /\ loop_spec doc ctx' r
  end.

Lemma loop_ref_Ok : forall doc anns ctx, loop_ref doc ctx anns = Ok tt <-> loop_spec doc ctx anns.
Proof.
  intros doc. induction anns as [|[k t] r IH]; intros ctx; cbn [loop_ref loop_spec]; [tauto|].
  destruct (is_return k).
  - destruct (is_none t) eqn:N.
    + rewrite IH. tauto.
    + destruct (d_returns doc) as [[|d [|d' l']]|].
      * split; [discriminate|]. intros [[H|[d [a [H _]]]] _]; discriminate.
      * destruct (parse_ref (upd t ++ ctx) (Some d)) as [a|x] eqn:P; cbn [bind].
        -- destruct (ty_eqb a t) eqn:E.
           ++ rewrite IH. split; [intros H; split; [right; exists d, a; auto|assumption]|tauto].
           ++ split; [discriminate|]. intros [[H|[d0 [a0 [H1 [H2 H3]]]]] _]; [discriminate|].
              inversion H1; subst. rewrite P in H2. inversion H2; subst. congruence.
        -- split; [discriminate|]. intros [[H|[d0 [a0 [H1 [H2 H3]]]]] _]; [discriminate|].
           inversion H1; subst. congruence.
      * split; [discriminate|]. intros [[H|[d0 [a [H _]]]] _]; discriminate.
      * split; [discriminate|]. intros [[H|[d0 [a [H _]]]] _]; discriminate.
  - destruct (filter (fun p => String.eqb (fst p) k) (d_params doc)) as [|p ps].
    + split; [discriminate|]. intros [[p [ps [a [H _]]]] _]. discriminate.
    + destruct (parse_ref (upd t ++ ctx) (snd p)) as [a|x] eqn:P; cbn [bind].
      * destruct (ty_eqb t a) eqn:E.
        -- rewrite IH. split; [intros H; split; [exists p, ps, a; auto|assumption]|tauto].
        -- split; [discriminate|]. intros [[p0 [ps0 [a0 [H1 [H2 H3]]]]] _]. inversion H1; subst.
           rewrite P in H2. inversion H2; subst. congruence.
      * split; [discriminate|]. intros [[p0 [ps0 [a0 [H1 [H2 H3]]]]] _]. inversion H1; subst. congruence.
Qed.

(* what the property demands of one annotation, in terms of the scope only *)
Definition item_spec (scope : list string) (doc : docT) (kt : string * ty) : Prop :=
  if is_return (fst kt)
  then is_none (snd kt) = true \/ exists d, d_returns doc = Some [d] /\ denotes scope d (snd kt)
  else exists p ps d, filter (fun p => String.eqb (fst p) (fst kt)) (d_params doc) = p :: ps /\
                      snd p = Some d /\ denotes scope d (snd kt).

(* L1: what the loop accepts satisfies the demand *)
Lemma loop_items : forall scope doc anns ctx,
  (forall m, In m scope -> name_ok m = true) ->
  (forall k t m, In (k, t) anns -> In m (cls_names t) -> In m scope) ->
  (forall m, In m ctx -> In m scope) ->
  loop_spec doc ctx anns -> forall kt, In kt anns -> item_spec scope doc kt.
Proof.
  intros scope doc. induction anns as [|[k t] r IH]; intros ctx Hok Hn Hc H kt Hin; [contradiction|].
  cbn [loop_spec] in H. destruct H as [Hh Ht].
  assert (Hc' : forall m, In m (upd t ++ ctx) -> In m scope).
  { intros m Hm. apply in_app_iff in Hm as [Hm|Hm]; [|auto]. apply (Hn k t m); [now left|now apply upd_names]. }
  destruct Hin as [E|Hin].
  - subst kt. unfold item_spec. cbn [fst snd]. destruct (is_return k).
    + destruct Hh as [Hh|[d [a [H1 [H2 H3]]]]]; [now left|right]. exists d. split; [assumption|].
      apply parse_ref_Ok_inv in H2 as [d0 [E0 [_ Hev]]]. inversion E0; subst d0.
      exists a. split; [eapply eval_up; eauto|assumption].
    + destruct Hh as [p [ps [a [H1 [H2 H3]]]]]. apply parse_ref_Ok_inv in H2 as [d [E0 [_ Hev]]].
      exists p, ps, d. split; [assumption|]. split; [assumption|].
      exists a. split; [eapply eval_up; eauto|now rewrite ty_eqb_sym].
  - eapply IH; eauto. intros k0 t0 m H0. apply (Hn k0 t0 m). now right.
Qed.

(* L2: _update_context has collected the classes of the annotation, so the loop accepts what satisfies the demand;
   no assumption about the names of the classes in the scope *)
Lemma items_loop : forall scope doc anns ctx,
  (forall k t, In (k, t) anns -> ann_ok t = true) ->
  (forall k t m, In (k, t) anns -> In m (cls_names t) -> In m scope) ->
  (forall m, In m ctx -> In m scope) ->
  doc_no_typing_dot doc = true ->
  (forall kt, In kt anns -> item_spec scope doc kt) -> loop_spec doc ctx anns.
Proof.
  intros scope doc. induction anns as [|[k t] r IH]; intros ctx Hann Hn Hc Hdot Hit; [exact I|].
  cbn [loop_spec].
  assert (Hc' : forall m, In m (upd t ++ ctx) -> In m scope).
  { intros m Hm. apply in_app_iff in Hm as [Hm|Hm]; [|auto]. apply (Hn k t m); [now left|now apply upd_names]. }
  assert (Hparse : forall d, In d (doc_types doc) -> denotes scope d t ->
                   exists a, parse_ref (upd t ++ ctx) (Some d) = Ok a /\ ty_eqb a t = true).
  { intros d Hd [v [Hev Heq]]. exists v. split; [|assumption]. apply parse_ref_Ok_intro.
    - unfold doc_no_typing_dot in Hdot. rewrite forallb_forall in Hdot. specialize (Hdot d Hd). now apply negb_true_iff in Hdot.
    - rewrite <- Hev. apply eval_ext. intros n Hin. unfold lookup.
      destruct (mem n (upd t ++ ctx)) eqn:M1.
      + apply mem_In in M1. apply Hc' in M1. apply mem_In in M1. now rewrite M1.
      + destruct (mem n scope) eqn:M2; [|reflexivity].
        destruct (mem n subscriptable_builtins) eqn:S; [now rewrite (subscriptable_globals_cls n S)|].
        exfalso. assert (Hv : In n (cls_names v)).
        { eapply (eval_names_gen scope n); eauto. intros w Hw. unfold lookup in Hw. rewrite M2 in Hw. now inversion Hw. }
        apply (ty_eqb_names n v t Heq) in Hv. apply mem_false_In in M1. apply M1. apply in_app_iff. left.
        apply upd_complete; [apply (Hann k t); now left|assumption]. }
  split.
  - specialize (Hit (k, t) (or_introl eq_refl)). unfold item_spec in Hit. cbn [fst snd] in Hit.
    destruct (is_return k).
    + destruct Hit as [Hit|[d [H1 H2]]]; [now left|right].
      destruct (Hparse d) as [a [P E]]; [eapply doc_types_returns; eauto; now left|assumption|].
      exists d, a. auto.
    + destruct Hit as [p [ps [d [H1 [H2 H3]]]]].
      destruct (Hparse d) as [a [P E]]; [|assumption|].
      { apply filter_head_In in H1 as [H1 _]. eapply doc_types_param; eauto. }
      exists p, ps, a. rewrite H2. split; [assumption|]. split; [assumption|now rewrite ty_eqb_sym].
  - apply IH; auto.
    + intros k0 t0 H0. apply (Hann k0 t0). now right.
    + intros k0 t0 m H0. apply (Hn k0 t0 m). now right.
    + intros kt H0. apply Hit. now right.
Qed.

(* ---- _assert_docstring_is_complete ---------------------------------------------------------------------------- *)
Lemma complete_ref_cases : forall ann doc, complete_ref ann doc = Ok tt \/ complete_ref ann doc = Raise PDocstringC.
Proof.
  intros. unfold complete_ref. destruct (d_raw doc); auto.
  destruct (Nat.eqb _ _); auto. destruct (d_returns doc); destruct (assoc "return" ann) as [t|]; auto; destruct (is_none t); auto.
Qed.

Lemma complete_ref_Ok : forall ann doc, complete_ref ann doc = Ok tt <->
  d_raw doc = RawText /\ List.length (d_params doc) = List.length (param_names ann) /\
  match assoc "return" ann with
  | Some t => if is_none t then d_returns doc = None else d_returns doc <> None
  | None => d_returns doc = None
  end.
Proof.
  intros. unfold complete_ref. rewrite <- num_taken_params.
  destruct (d_raw doc); try (split; [discriminate|intros [H _]; discriminate]).
  destruct (Nat.eqb_spec (List.length (d_params doc)) (num_taken ann)) as [E|E].
  - destruct (d_returns doc) as [l|]; destruct (assoc "return" ann) as [t|]; try destruct (is_none t);
      split; intros H; try discriminate; try (repeat split; congruence); try reflexivity;
      destruct H as [_ [_ H]]; congruence.
  - split; [discriminate|]. intros [_ [H _]]. contradiction.
Qed.

(* ---- consistent <-> complete + every annotation satisfies the demand -------------------------------------------------- *)
Lemma doc_names_In : forall doc n, In n (doc_names doc) <-> exists od, In (n, od) (d_params doc).
Proof.
  intros. unfold doc_names. rewrite in_map_iff. split.
  - intros [[n' od] [E H]]. cbn in E. subst. eauto.
  - intros [od H]. exists (n, od). auto.
Qed.

Lemma filter_name_head : forall (l : list dparam) k p ps,
  filter (fun p => String.eqb (fst p) k) l = p :: ps -> In p l /\ fst p = k.
Proof. intros l k p ps H. apply filter_head_In in H as [H1 H2]. split; [assumption|now apply String.eqb_eq]. Qed.

Lemma filter_name_nonempty : forall (l : list dparam) k od, In (k, od) l ->
  exists p ps, filter (fun p => String.eqb (fst p) k) l = p :: ps.
Proof.
  intros l k od H. destruct (filter (fun p => String.eqb (fst p) k) l) as [|p ps] eqn:F; [|eauto].
  exfalso. pose proof (filter_nil_none _ _ F (k, od) H) as E. cbn in E. now rewrite String.eqb_refl in E.
Qed.

Lemma returns_value_cases : forall ann,
  (returns_value ann = None /\ (assoc "return" ann = None \/ assoc "return" ann = Some TNone)) \/
  (exists t, returns_value ann = Some t /\ assoc "return" ann = Some t /\ is_none t = false).
Proof.
  intros. unfold returns_value, ret_of. destruct (assoc "return" ann) as [t|]; [|left; auto].
  destruct t; try (right; eexists; repeat split; reflexivity). left. auto.
Qed.

Lemma consistent_complete_items : forall scope ann doc, sig_facts ann ->
  consistent scope ann doc ->
  complete_ref ann doc = Ok tt /\ forall kt, In kt ann -> item_spec scope doc kt.
Proof.
  intros scope ann doc SF [Hraw [Hnd [Hiff [Hty Hret]]]]. split.
  - apply complete_ref_Ok. split; [assumption|]. split.
    + assert (E : List.length (doc_names doc) = List.length (param_names ann)).
      { apply Nat.le_antisymm; apply NoDup_incl_length; try assumption.
        - intros n Hn. now apply Hiff.
        - apply param_names_NoDup, SF.
        - intros n Hn. now apply Hiff. }
      unfold doc_names in E at 1. now rewrite map_length in E.
    + destruct (returns_value_cases ann) as [[E [A|A]]|[t [E [A N]]]]; rewrite E in Hret; rewrite A; cbn [is_none]; try assumption.
      rewrite N. destruct Hret as [d [Hd _]]. congruence.
  - intros [k t] Hin. unfold item_spec. cbn [fst snd]. destruct (is_return k) eqn:K.
    + apply is_return_eq in K. subst k. destruct (is_none t) eqn:N; [now left|right].
      assert (A : assoc "return" ann = Some t) by (apply In_assoc; [apply SF|assumption]).
      destruct (returns_value_cases ann) as [[E [A'|A']]|[t' [E [A' N']]]]; rewrite A in A'; try discriminate.
      * inversion A'; subst. discriminate.
      * inversion A'; subst t'. rewrite E in Hret. exact Hret.
    + assert (Hk : In k (doc_names doc)). { apply Hiff. apply param_names_In. eauto. }
      apply doc_names_In in Hk as [od Hod]. destruct (filter_name_nonempty _ _ _ Hod) as [p [ps F]].
      destruct (filter_name_head _ _ _ _ F) as [Hp Ek]. destruct p as [k' od']. cbn in Ek. subst k'.
      destruct (Hty k od' Hp) as [d [t' [E1 [E2 E3]]]]. exists (k, od'), ps, d. split; [assumption|]. split; [assumption|].
      apply params_of_In in E2 as [E2 _]. assert (t' = t) by (eapply nodup_fst_unique; [apply SF| |]; eassumption). now subst.
Qed.

Lemma complete_items_consistent : forall scope ann doc, sig_facts ann ->
  complete_ref ann doc = Ok tt -> (forall kt, In kt ann -> item_spec scope doc kt) ->
  consistent scope ann doc.
Proof.
  intros scope ann doc SF Hc Hit. apply complete_ref_Ok in Hc as [Hraw [Hlen Hret]].
  assert (ND : NoDup (param_names ann)) by (apply param_names_NoDup, SF).
  assert (Hitem : forall k t, In (k, t) ann -> is_return k = false ->
            exists p ps d, filter (fun p => String.eqb (fst p) k) (d_params doc) = p :: ps /\ snd p = Some d /\ denotes scope d t).
  { intros k t Hin K. specialize (Hit (k, t) Hin). unfold item_spec in Hit. cbn [fst snd] in Hit. now rewrite K in Hit. }
  assert (Hincl : incl (param_names ann) (doc_names doc)).
  { intros k Hk. apply param_names_In in Hk as [t [Hin K]]. destruct (Hitem k t Hin K) as [p [ps [d [F _]]]].
    apply filter_name_head in F as [Hp E]. unfold doc_names. apply in_map_iff. exists p. auto. }
  assert (Hlen' : List.length (doc_names doc) <= List.length (param_names ann)).
  { unfold doc_names. rewrite map_length. apply Nat.eq_le_incl. exact Hlen. }
  assert (ND' : NoDup (doc_names doc)) by (eapply NoDup_incl_NoDup; eauto).
  assert (Hincl' : incl (doc_names doc) (param_names ann)) by (eapply NoDup_length_incl; eauto).
  split; [assumption|]. split; [assumption|]. split; [intros n; split; intros H; auto|]. split.
  - intros n od Hin. assert (Hn : In n (param_names ann)). { apply Hincl'. apply doc_names_In. eauto. }
    apply param_names_In in Hn as [t [Hin' K]]. destruct (Hitem n t Hin' K) as [p [ps [d [F [E D]]]]].
    apply filter_name_head in F as [Hp En]. destruct p as [n' od']. cbn in En, E. subst n'.
    assert (od' = od) by (exact (nodup_fst_unique (d_params doc) n od' od ND' Hp Hin)). subst od'.
    exists d, t. split; [congruence|]. split; [now apply params_of_In|assumption].
  - destruct (returns_value_cases ann) as [[E [A|A]]|[t [E [A N]]]]; rewrite E; rewrite A in Hret; cbn [is_none] in Hret; try assumption.
    rewrite N in Hret. apply assoc_In in A. specialize (Hit ("return", t) A). unfold item_spec in Hit. cbn [fst snd] in Hit.
    change (is_return "return") with true in Hit. cbv iota in Hit. destruct Hit as [Hit|Hit]; [congruence|assumption].
Qed.

(* ---- the reference check accepts exactly the consistent docstrings -------------------------------------------------------- *)
Definition mkfc (req parser : bool) (ann : annotations) (doc : docT) : fcase :=
  {| f_require := req; f_parser := parser; f_ann := ann; f_doc := doc |}.

Lemma check_ref_Ok : forall fc, check_ref fc = Ok tt <->
  complete_ref (f_ann fc) (f_doc fc) = Ok tt /\ loop_spec (f_doc fc) [] (f_ann fc).
Proof.
  intros. unfold check_ref. rewrite <- loop_ref_Ok.
  destruct (complete_ref_cases (f_ann fc) (f_doc fc)) as [E|E]; rewrite E; cbn [bind].
  - tauto.
  - split; [discriminate|intros [H _]; discriminate].
Qed.

Lemma ann_scope : forall scope ann, scope_facts scope ann ->
  forall k t m, In (k, t) ann -> In m (cls_names t) -> In m scope.
Proof. intros scope ann SC k t m H1 H2. apply SC. eapply ann_names_In; eauto. Qed.

Theorem accepted_consistent : forall scope req parser ann doc,
  sig_ok ann = true -> scope_ok scope ann = true -> no_hiding scope = true ->
  check_ref (mkfc req parser ann doc) = Ok tt -> consistent scope ann doc.
Proof.
  intros scope req parser ann doc Hs Hsc Hh H. apply sig_ok_facts in Hs. apply scope_ok_facts in Hsc.
  apply check_ref_Ok in H as [Hc Hl]. cbn [mkfc f_ann f_doc] in *.
  apply complete_items_consistent; [assumption|assumption|].
  eapply loop_items; try eassumption; [now apply no_hiding_facts|eapply ann_scope; eauto|intros m []].
Qed.

Theorem consistent_accepted : forall scope req parser ann doc,
  sig_ok ann = true -> scope_ok scope ann = true -> doc_no_typing_dot doc = true ->
  consistent scope ann doc -> check_ref (mkfc req parser ann doc) = Ok tt.
Proof.
  intros scope req parser ann doc Hs Hsc Hdot H. apply sig_ok_facts in Hs. apply scope_ok_facts in Hsc.
  apply check_ref_Ok. cbn [mkfc f_ann f_doc]. destruct (consistent_complete_items scope ann doc Hs H) as [Hc Hit].
  split; [assumption|]. eapply items_loop; try eassumption; [apply Hs|eapply ann_scope; eauto|intros m []].
Qed.

(* ---- nothing but PedanticDocstringException ----------------------------------------------------------------------------------- *)
Lemma loop_B : forall doc anns ctx,
  (forall k t, In (k, t) anns -> is_return k = true -> is_none t = false -> d_returns doc <> None) ->
  loop_ref doc ctx anns = Ok tt \/ loop_ref doc ctx anns = Raise PDocstringC.
Proof.
  intros doc. induction anns as [|[k t] r IH]; intros ctx Hr; [now left|].
  cbn [loop_ref].
  assert (IH' : loop_ref doc (upd t ++ ctx) r = Ok tt \/ loop_ref doc (upd t ++ ctx) r = Raise PDocstringC).
  { apply IH. intros k0 t0 H0. apply (Hr k0 t0). now right. }
  destruct (is_return k) eqn:K.
  - destruct (is_none t) eqn:N; [assumption|].
    destruct (d_returns doc) as [l|] eqn:R; [|exfalso; eapply (Hr k t); eauto; now left].
    destruct l as [|d [|d' l']]; auto.
    destruct (parse_B (upd t ++ ctx) (Some d)) as [[a P]|P].
    + rewrite P. cbn [bind]. destruct (ty_eqb a t); auto.
    + rewrite P. now right.
  - destruct (filter (fun p => String.eqb (fst p) k) (d_params doc)) as [|p ps] eqn:F; [now right|].
    destruct (parse_B (upd t ++ ctx) (snd p)) as [[a P]|P].
    + rewrite P. cbn [bind]. destruct (ty_eqb t a); auto.
    + rewrite P. now right.
Qed.

Theorem only_docstring_exception : forall req parser ann doc,
  sig_ok ann = true ->
  check_ref (mkfc req parser ann doc) = Ok tt \/ check_ref (mkfc req parser ann doc) = Raise PDocstringC.
Proof.
  intros req parser ann doc Hs. apply sig_ok_facts in Hs.
  unfold check_ref. cbn [mkfc f_ann f_doc].
  destruct (complete_ref_cases ann doc) as [E|E]; rewrite E; cbn [bind]; [|now right].
  apply loop_B. intros k t Hin K N. apply is_return_eq in K. subst k.
  apply complete_ref_Ok in E as [_ [_ E]]. rewrite (In_assoc ann "return" t (sf_nodup _ Hs) Hin), N in E. exact E.
Qed.

Theorem inconsistent_rejected : forall scope req parser ann doc,
  sig_ok ann = true -> scope_ok scope ann = true -> no_hiding scope = true ->
  ~ consistent scope ann doc -> check_ref (mkfc req parser ann doc) = Raise PDocstringC.
Proof.
  intros scope req parser ann doc Hs Hsc Hh Hn.
  destruct (only_docstring_exception req parser ann doc Hs) as [E|E]; [|assumption].
  exfalso. apply Hn. eapply accepted_consistent; eauto.
Qed.

(* ---- single edits ------------------------------------------------------------------------------------------------------------------ *)
Lemma complete_fail_check : forall req parser ann doc,
  complete_ref ann doc <> Ok tt -> check_ref (mkfc req parser ann doc) = Raise PDocstringC.
Proof.
  intros req parser ann doc H. unfold check_ref. cbn [mkfc f_ann f_doc].
  destruct (complete_ref_cases ann doc) as [E|E]; [contradiction|]. now rewrite E.
Qed.

Lemma consistent_typed : forall scope ann doc, consistent scope ann doc -> doc_typed doc = true.
Proof.
  intros scope ann doc [_ [_ [_ [Hty _]]]]. unfold doc_typed. apply forallb_forall. intros [n od] Hin.
  destruct (Hty n od Hin) as [d [t [E _]]]. cbn. now rewrite E.
Qed.

Lemma denotes_evaluable : forall scope d t, denotes scope d t -> evaluable scope d = true.
Proof. intros scope d t [v [E _]]. unfold evaluable. now rewrite E. Qed.

Lemma consistent_param_evaluable : forall scope ann doc n d,
  consistent scope ann doc -> In (n, Some d) (d_params doc) -> evaluable scope d = true.
Proof.
  intros scope ann doc n d [_ [_ [_ [Hty _]]]] Hin. destruct (Hty n (Some d) Hin) as [d0 [t [E [_ D]]]].
  inversion E; subst. eapply denotes_evaluable; eauto.
Qed.

Lemma consistent_returns : forall scope ann doc,
  consistent scope ann doc ->
  (d_returns doc = None /\ returns_value ann = None) \/
  (exists d t, d_returns doc = Some [d] /\ returns_value ann = Some t /\ denotes scope d t).
Proof.
  intros scope ann doc [_ [_ [_ [_ Hret]]]]. destruct (returns_value ann) as [t|]; [right|left; auto].
  destruct Hret as [d [E D]]. eauto.
Qed.

Lemma params_types_evaluable : forall scope (ps : list dparam),
  (forall n d, In (n, Some d) ps -> evaluable scope d = true) ->
  forallb (evaluable scope) (flat_map (fun p : dparam => match snd p with Some d => [d] | None => [] end) ps) = true.
Proof.
  intros scope ps H. apply forallb_forall. intros d Hd. apply in_flat_map in Hd as [[n od] [Hp Hd]]. cbn in Hd.
  destruct od as [d0|]; [|contradiction]. destruct Hd as [E|[]]. subst. eauto.
Qed.

Lemma doc_evaluable_mk : forall scope raw ps r,
  (forall n d, In (n, Some d) ps -> evaluable scope d = true) ->
  (forall l d, r = Some l -> In d l -> evaluable scope d = true) ->
  doc_evaluable scope (mkdoc raw ps r) = true.
Proof.
  intros scope raw ps r H1 H2. unfold doc_evaluable, doc_types. cbn [mkdoc d_params d_returns].
  rewrite forallb_app. apply andb_true_iff. split; [now apply params_types_evaluable|].
  destruct r as [l|]; [|reflexivity]. apply forallb_forall. intros d Hd. eapply H2; eauto.
Qed.

Lemma consistent_doc_evaluable : forall scope ann raw ps r,
  consistent scope ann (mkdoc raw ps r) ->
  (forall n d, In (n, Some d) ps -> evaluable scope d = true) /\
  (forall l d, r = Some l -> In d l -> evaluable scope d = true).
Proof.
  intros scope ann raw ps r H. split.
  - intros n d Hin. eapply consistent_param_evaluable; eauto.
  - intros l d E Hd. destruct (consistent_returns _ _ _ H) as [[R _]|[d0 [t [R [_ D]]]]]; cbn in R; subst r; [discriminate|].
    inversion R; subst. destruct Hd as [Hd|[]]. subst. eapply denotes_evaluable; eauto.
Qed.

Lemma doc_typed_mk : forall raw ps r,
  doc_typed (mkdoc raw ps r) = forallb (fun p : dparam => match snd p with Some _ => true | None => false end) ps.
Proof. reflexivity. Qed.

Lemma same_denotation_of : forall scope d d' t, denotes scope d t -> denotes scope d' t -> same_denotation scope d d'.
Proof.
  intros scope d d' t [v [E1 Q1]] [v' [E2 Q2]]. exists v, v'. split; [assumption|]. split; [assumption|].
  eapply ty_eqb_trans; [eassumption|]. now rewrite ty_eqb_sym.
Qed.

Theorem one_edit_rejected : forall scope req parser ann doc doc',
  sig_ok ann = true -> scope_ok scope ann = true -> no_hiding scope = true ->
  consistent scope ann doc -> one_edit scope doc doc' ->
  check_ref (mkfc req parser ann doc') = Raise PDocstringC.
Proof.
  intros scope req parser ann doc doc' Hs Hsc Hh Hcons Hedit.
  pose proof (sig_ok_facts _ Hs) as SF.
  destruct (consistent_complete_items scope ann doc SF Hcons) as [Hcomp _].
  apply complete_ref_Ok in Hcomp as [Hraw [Hlen Hret]].
  inversion Hedit; subst; cbn [mkdoc d_raw d_params d_returns] in *.
  - (* drop a parameter *)
    apply complete_fail_check. intros C. apply complete_ref_Ok in C as [_ [C _]]. cbn in C.
    rewrite app_length in *. cbn [List.length] in Hlen. lia.
  - (* add a parameter *)
    apply complete_fail_check. intros C. apply complete_ref_Ok in C as [_ [C _]]. cbn in C.
    rewrite app_length in *. cbn [List.length] in C. lia.
  - (* rename a parameter *)
    apply (inconsistent_rejected scope); try assumption.
    intros [_ [_ [Hiff' _]]]. destruct Hcons as [_ [Hnd [Hiff _]]].
    unfold doc_names in *. cbn [mkdoc d_params] in *. rewrite map_app in *. cbn [map fst] in *.
    assert (Hn : In n (map fst l1 ++ n' :: map fst l2)).
    { apply Hiff'. apply Hiff. apply in_app_iff. right. now left. }
    apply NoDup_remove_2 in Hnd. apply Hnd. apply in_app_iff in Hn as [Hn|[Hn|Hn]]; apply in_app_iff; auto. congruence.
  - (* change one documented type *)
    apply (inconsistent_rejected scope); try assumption.
    intros [_ [_ [_ [Hty' _]]]]. destruct Hcons as [_ [_ [_ [Hty0 _]]]]. cbn [mkdoc d_params] in *.
    destruct (Hty' n (Some d')) as [x' [t' [E' [I' D']]]]; [apply in_app_iff; right; now left|].
    destruct (Hty0 n (Some d)) as [x [t [E [I D]]]]; [apply in_app_iff; right; now left|].
    inversion E; inversion E'; subst x x'.
    apply params_of_In in I as [I _]. apply params_of_In in I' as [I' _].
    assert (t' = t) by (eapply nodup_fst_unique; [apply SF| |]; eassumption). subst t'.
    apply H. eapply same_denotation_of; eauto.
  - (* drop Returns *)
    apply complete_fail_check. intros C. apply complete_ref_Ok in C as [_ [_ C]]. cbn in C.
    destruct (consistent_returns _ _ _ Hcons) as [[R _]|[d [t [R [V D]]]]]; cbn in R; [discriminate|].
    destruct (returns_value_cases ann) as [[E _]|[t' [E [A N]]]]; [congruence|].
    rewrite A, N in C. now apply C.
  - (* add Returns *)
    apply complete_fail_check. intros C. apply complete_ref_Ok in C as [_ [_ C]]. cbn in C.
    destruct (consistent_returns _ _ _ Hcons) as [[_ V]|[d [t [R _]]]]; [|cbn in R; discriminate].
    destruct (returns_value_cases ann) as [[_ [A|A]]|[t' [E _]]]; [rewrite A in C; discriminate|rewrite A in C; discriminate|congruence].
  - (* alter Returns *)
    apply (inconsistent_rejected scope); try assumption.
    intros C. destruct (consistent_returns _ _ _ C) as [[R _]|[x' [t' [R' [V' D']]]]]; cbn in *; [discriminate|].
    destruct (consistent_returns _ _ _ Hcons) as [[R _]|[x [t [R [V D]]]]]; cbn in *; [discriminate|].
    inversion R; inversion R'; subst. assert (t' = t) by congruence. subst.
    apply H. eapply same_denotation_of; eauto.
  - (* Returns without a type *)
    apply (inconsistent_rejected scope); try assumption.
    intros C. destruct (consistent_returns _ _ _ C) as [[R _]|[x' [t' [R' _]]]]; cbn in *; discriminate.
  - (* a parameter without a type *)
    apply (inconsistent_rejected scope); try assumption.
    intros [_ [_ [_ [Hty' _]]]]. cbn [mkdoc d_params] in Hty'.
    destruct (Hty' n None) as [x' [t' [E' _]]]; [apply in_app_iff; right; now left|]. discriminate.
Qed.

(* ---- the executable form of the specification ----------------------------------------------------------------------------------------------- *)
Lemma denotesb_iff : forall scope d t, denotesb scope d t = true <-> denotes scope d t.
Proof.
  unfold denotesb, denotes. intros scope d t. destruct (eval scope (dt_expr d)) as [v|x]; split.
  - intros H. eauto.
  - intros [v' [E Q]]. inversion E; now subst.
  - discriminate.
  - intros [v' [E _]]. discriminate.
Qed.

Lemma consistentb_iff : forall scope ann doc, NoDup (map fst ann) ->
  (consistentb scope ann doc = true <-> consistent scope ann doc).
Proof.
  intros scope ann doc ND.
  assert (NDp : NoDup (map fst (params_of ann))) by (unfold params_of; now apply NoDup_map_filter).
  unfold consistentb, consistent. rewrite !andb_true_iff.
  split.
  - intros [[[[[H1 H2] H3] H4] H5] H6]. rewrite forallb_forall in H3, H4, H5.
    split; [destruct (d_raw doc); congruence|]. split; [now apply nodupb_NoDup|].
    split; [intros n; split; intros Hn; apply mem_In; auto|]. split.
    + intros n od Hin. specialize (H5 (n, od) Hin). cbn [fst snd] in H5. destruct od as [d|]; [|discriminate].
      destruct (assoc n (params_of ann)) as [t|] eqn:A; [|discriminate].
      exists d, t. split; [reflexivity|]. split; [now apply assoc_In|now apply denotesb_iff].
    + destruct (returns_value ann) as [t|]; destruct (d_returns doc) as [[|d [|? ?]]|]; try discriminate; try reflexivity.
      exists d. split; [reflexivity|now apply denotesb_iff].
  - intros [H1 [H2 [H3 [H4 H5]]]]. repeat split.
    + now rewrite H1.
    + now apply nodupb_NoDup.
    + apply forallb_forall. intros n Hn. apply mem_In. now apply H3.
    + apply forallb_forall. intros n Hn. apply mem_In. now apply H3.
    + apply forallb_forall. intros [n od] Hin. cbn [fst snd]. destruct (H4 n od Hin) as [d [t [E [I D]]]]. subst od.
      rewrite (In_assoc _ _ _ NDp I). now apply denotesb_iff.
    + destruct (returns_value ann) as [t|]; [destruct H5 as [d [E D]]; rewrite E; now apply denotesb_iff|now rewrite H5].
Qed.

(* ---- the decorator and the class decorator -------------------------------------------------------------------------------------------------------- *)
Lemma applies_ref_spec : forall fc, applies_ref fc = f_parser fc && applies (f_require fc) (f_doc fc).
Proof. reflexivity. Qed.

Lemma decorate_all_Ok : forall p l, decorate_all p l = Ok tt <-> forall fc, In fc l -> decorate p fc = Ok tt.
Proof.
  intros p. induction l as [|fc r IH]; cbn [decorate_all]; [split; [intros _ ? []|reflexivity]|].
  destruct (decorate p fc) as [[]|e] eqn:E; cbn [bind].
  - rewrite IH. split; [intros H x [Hx|Hx]; [now subst|auto]|intros H x Hx; apply H; now right].
  - split; [discriminate|]. intros H. specialize (H fc (or_introl eq_refl)). congruence.
Qed.

Lemma decorate_all_first : forall p l1 fc l2 e,
  (forall x, In x l1 -> decorate p x = Ok tt) -> decorate p fc = Raise e ->
  decorate_all p (l1 ++ fc :: l2) = Raise e.
Proof.
  intros p. induction l1 as [|x r IH]; intros fc l2 e H1 H2; cbn [app decorate_all].
  - now rewrite H2.
  - rewrite (H1 x (or_introl eq_refl)). cbn [bind]. apply IH; [|assumption]. intros y Hy. apply H1. now right.
Qed.
