(* C08, wrapper half: a @pedantic wrapper adds no exception type of its own other than PedanticException to those
   the body raises (and to Python's own TypeError for a call the signature does not accept) - for every signature,
   every call, every body and every checker that raises only PedanticExceptions (C08_check_type_contains /
   C08_model_total give that for assert_value_matches_type).  The guard `machinery_ok` excludes exactly the two
   places where FunctionCall indexes without a test (known findings of the source-text heuristics).          *)
From Coq Require Import List Arith Bool Lia String.
From PV Require Import Base.Exn Base.Values Base.Ann Base.PyCall Model.Checker Model.PedanticCfg Model.Pedantic Proofs.PedanticBase.
Import ListNotations.
Open Scope list_scope.

(* Python's own argument binding raises TypeError and nothing else *)
Lemma omap_raise {A B} (g : A -> B) m e : omap g m = Raise e -> m = Raise e.
Proof. destruct m; cbn; congruence. Qed.

Lemma bind_go_type_error : forall all ps pos kws e, bind_go all ps pos kws = Raise e -> e = TypeErrorC.
Proof.
  intros all. induction ps as [|p ps IH]; intros pos kws e H; cbn [bind_go] in H.
  - destruct pos; congruence.
  - assert (Hd : forall e0, by_default p = Raise e0 -> e0 = TypeErrorC).
    { intros e0 H0. unfold by_default in H0. destruct (p_default p); congruence. }
    destruct (p_kind p).
    + destruct pos as [|s pos']; [destruct (by_default p) eqn:Ed; [|inversion H; subst; now apply Hd]|];
        apply omap_raise in H; eapply IH; eassumption.
    + destruct pos as [|s pos'].
      * destruct (mem (p_name p) kws); [apply omap_raise in H; eapply IH; eassumption|].
        destruct (by_default p) eqn:Ed; [apply omap_raise in H; eapply IH; eassumption | inversion H; subst; now apply Hd].
      * destruct (mem (p_name p) kws); [congruence | apply omap_raise in H; eapply IH; eassumption].
    + apply omap_raise in H; eapply IH; eassumption.
    + destruct (mem (p_name p) kws); [apply omap_raise in H; eapply IH; eassumption|].
      destruct (by_default p) eqn:Ed; [apply omap_raise in H; eapply IH; eassumption | inversion H; subst; now apply Hd].
    + apply omap_raise in H; eapply IH; eassumption.
Qed.

Lemma py_bind_type_error : forall ps pos kws e, py_bind ps pos kws = Raise e -> e = TypeErrorC.
Proof.
  intros ps pos kws e H. unfold py_bind in H. destruct (forallb _ kws); [eapply bind_go_type_error; eassumption | congruence].
Qed.

Section C08.
  Variable pc : pedantic_cfg.
  Variable check : ann -> value -> tvenv -> outcome unit * tvenv.
  Variable consumes : ann -> value -> bool.
  Hypothesis good : pc_good pc = true.
  Let G := good_inv pc good.
  Hypothesis check_pedantic : forall a v tv e tv', check a v tv = (Raise e, tv') -> is_pedantic e = true.

  (* FunctionCall.__init__ reads args[0] for what it takes to be an instance method; `clazz` reads
     full_name.split('.')[-2] for what it takes to be a static method called without any positional argument *)
  Definition machinery_ok (f : fn) (c : call) : Prop :=
    (is_instance_method f = true -> wargs c <> []) /\
    (is_static_method f = true -> is_class_method f = false -> wargs c = [] -> f_dotted f = true).

  Definition ped_out {A} (r : outcome A) : Prop := match r with Ok _ => True | Raise e => is_pedantic e = true end.

  Lemma bind_ped {A B} (r : outcome A) (k : A -> outcome B) : ped_out r -> (forall x, ped_out (k x)) -> ped_out (Exn.bind r k).
  Proof. intros Hr Hk. destruct r as [x|e]; cbn; [apply Hk | exact Hr]. Qed.

  Section Passes.
    Variable f : fn.
    Variable c : call.
    Variable inst : option value.
    Hypothesis Hprobe : clazz_probe f c inst = Ok tt.

    Lemma chk_ped a v s st : ped_out (chk check consumes f c inst a v s st).
    Proof.
      unfold chk. rewrite Hprobe. destruct (check a v (a_tv st)) as [[u|e] tv'] eqn:E; [exact I|].
      cbn. eapply check_pedantic; eassumption.
    Qed.

    Lemma pass_named_ped : forall ps idx st, ped_out (pass_named pc check consumes f c inst ps idx st).
    Proof.
      induction ps as [|p ps IH]; intros idx st; cbn [pass_named]; [exact I|].
      destruct (p_ann p); [|reflexivity].
      destruct (if takes_keyword p then kw_get (p_name p) (c_kwargs c) else None); [apply bind_ped; [apply chk_ped | intro; apply IH]|].
      destruct (_ && _); [apply bind_ped; [apply chk_ped | intro; apply IH]|].
      destruct (p_default p); [apply bind_ped; [apply chk_ped | intro; apply IH] | reflexivity].
    Qed.

    Lemma chk_all_ped a : forall l st, ped_out (chk_all check consumes f c inst a l st).
    Proof.
      induction l as [|[v s] l IH]; intro st; cbn [chk_all]; [exact I|].
      apply bind_ped; [apply chk_ped | intro; apply IH].
    Qed.

    Lemma args_phase_ped st : ped_out (args_phase pc check consumes f c inst st).
    Proof.
      unfold args_phase. rewrite (gf_passes pc G). cbn [run_passes run_pass].
      apply bind_ped; [apply pass_named_ped|]. intro st1.
      apply bind_ped.
      - unfold pass_varpos. destruct (filter is_varpos (params_without_self f)) as [|p ?]; [exact I|].
        destruct (p_ann p); [apply chk_all_ped | reflexivity].
      - intro st2. apply bind_ped; [|intro; exact I].
        unfold pass_varkw. destruct (filter is_varkw (params_without_self f)) as [|p ?]; [exact I|].
        destruct (p_ann p); [apply chk_all_ped | reflexivity].
    Qed.
  End Passes.

  Lemma probe_ok f c inst : machinery_ok f c -> clazz_probe f c inst = Ok tt.
  Proof.
    intros [_ Hst]. unfold clazz_probe.
    assert (Hrest : (if is_class_method f then Ok tt
                     else if is_static_method f
                          then match wargs c with [] => if f_dotted f then Ok tt else Raise IndexErrorC | _ :: _ => Ok tt end
                          else Ok tt) = Ok tt).
    { destruct (is_class_method f) eqn:Ec; [reflexivity|]. destruct (is_static_method f) eqn:Es; [|reflexivity].
      destruct (wargs c) eqn:Ew; [|reflexivity]. now rewrite (Hst eq_refl eq_refl eq_refl). }
    rewrite Hrest. destruct inst as [[]|]; reflexivity.
  Qed.

  (* where the outcome of a call may come from: a PedanticException, or what the body itself raised *)
  Definition allowed (bd : body) (r : outcome value) : Prop :=
    match r with
    | Ok _ => True
    | Raise e => is_pedantic e = true \/ (exists b cons, bd b cons = Raise e)
    end.

  (* the wrapper hands the function the positional objects the undecorated callable would receive *)
  Definition same_positionals (f : fn) (c : call) : Prop := bound_src f ++ call_pos pc f c = twin_pos c.

  Lemma same_positionals_plain : forall f c,
    drops_args pc f = false -> f_bound f = None -> c_recv c = c_twin_recv c -> same_positionals f c.
  Proof.
    intros f c Hd Hb Hr. unfold same_positionals, bound_src, call_pos, twin_pos, wsrc. now rewrite Hd, Hb, Hr.
  Qed.

  (* the quantifier of the property: calls that Python itself accepts for the undecorated function *)
  Definition twin_accepts (f : fn) (c : call) : Prop := exists bt, py_bind (func_params f) (twin_pos c) (kw_names c) = Ok bt.

  Theorem wrapper_adds_nothing : forall f c bd,
    machinery_ok f c -> same_positionals f c -> twin_accepts f c ->
    allowed bd (fst (run pc check consumes f c bd)).
  Proof.
    intros f c bd Hm Hsame [bt Htwin]. pose proof (fun inst => probe_ok f c inst Hm) as Hprobe0. destruct Hm as [Hinst _].
    unfold run, wrapper_run.
    destruct (instance_of f c) as [inst|e] eqn:Ei.
    2:{ exfalso. unfold instance_of in Ei. destruct (is_instance_method f); [|discriminate].
        destruct (wargs c) eqn:Ew; [|discriminate]. now apply (Hinst eq_refl). }
    pose proof (Hprobe0 inst) as Hprobe.
    unfold pedantic_wrapper. assert (Hw : (if f_coroutine f then pc_async_wrapper pc else pc_wrapper pc) = [WAssertKwargs; WCheckTypes]).
    { destruct (f_coroutine f); [apply (gf_awrap pc G) | apply (gf_wrap pc G)]. }
    rewrite Hw. cbn [wsteps].
    destruct (assert_uses_kwargs pc f c) as [u|e] eqn:Ea.
    2:{ cbn. left. unfold assert_uses_kwargs in Ea. destruct (forallb _ _); [|discriminate]. inversion Ea. now rewrite (gf_exn pc G). }
    unfold check_types, check_steps.
    assert (Hs : (if f_coroutine f then pc_async_steps pc else pc_sync_steps pc) = [StArgs; StCall; StRetCheck]).
    { destruct (f_coroutine f); [apply (gf_asteps pc G) | apply (gf_steps pc G)]. }
    rewrite Hs. cbn [steps].
    pose proof (args_phase_ped f c inst Hprobe astate0) as Ha.
    destruct (args_phase pc check consumes f c inst astate0) as [st|e]; [|cbn; left; exact Ha].
    unfold invoke. unfold same_positionals in Hsame. rewrite Hsame, Htwin.
    destruct (bd bt (a_cons st)) as [r|e] eqn:Ebd.
    2:{ cbn. right. eauto. }
    cbn [fst]. unfold ret_value. destruct (f_ret f); [|cbn; left; reflexivity].
    rewrite Hprobe. destruct (check a r (a_tv st)) as [[u2|e] tv'] eqn:Ec; [exact I|].
    cbn. left. eapply check_pedantic; eassumption.
  Qed.
End C08.
