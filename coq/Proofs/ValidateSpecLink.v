(* The model of @validate meets the independent specification Spec/ValidateSpec.v (the oracle of the harness):
   for every well-formed declaration and call, `run` ends as `spec_outcome` demands - the same binding name by
   name, Python's TypeError for a missing argument, or one of the demanded exceptions.                        *)
From Coq Require Import List Arith Bool Permutation Lia.
From PV Require Import Base.Exn Model.ValidateSem Spec.ValidateSpec Proofs.ValidateDict Proofs.ValidateRef
  Proofs.ValidateBind Proofs.ValidateGate Proofs.ValidateByName.
Import ListNotations.

Section Link.
Variable value : Type.
Variable is_none : value -> bool.
Variable sg : signature value.
Variable env : wenv.
Variable dc : deco value.
Variable c : call value.
Hypothesis NV : s_varpos sg = false.      (* functions without *args *)

Notation param := (param value).
Notation dict := (dict value).
Notation rcfg := reference_cfg.
Notation rr := reference_req_rule.
Notation PV := (param_validate value is_none rcfg rr).
Notation step_m := (step_m value is_none dc).
Notation titem := (titem value is_none dc).
Notation u_m := (u_m value is_none sg).
Notation wc_ref := (wc_ref value is_none sg env dc).
Notation vrun := (run value is_none rcfg rr sg env dc).
Notation gives := (caller_gives value sg dc c).
Notation sdecl := (spec_declared value is_none sg dc c).
Notation sundecl := (spec_undeclared value is_none dc).
Notation drop := (drop_none value is_none dc).
Notation D := (demands value is_none sg dc c).
Notation S := (supplied value sg dc c).

Hypothesis WFd : decl_wellformed value sg dc = true.
Hypothesis WFc : call_wellformed value sg c = true.
Hypothesis NSelf : declared value dc self_name = false.
Hypothesis Exc : forall p, In p (d_params dc) -> derives (p_exc p) ParameterExceptionC = true.
Hypothesis Fl : snd (flask_m value env dc) = WOk tt.

(* ---------- the hypotheses, unpacked ---------- *)
Lemma nodup_names_NoDup : forall l, nodup_names l = true -> NoDup l.
Proof.
  induction l as [|x l IH]; intro H; [constructor|]. cbn in H. apply andb_true_iff in H. destruct H as [H1 H2].
  constructor; [|auto]. apply negb_true_iff in H1. intro I. apply mem_In in I. unfold mem in I. congruence.
Qed.

Lemma assoc_dget : forall n (d : dict), assoc value n d = dget n d.
Proof. induction d as [|[k v] d IH]; [reflexivity|]. cbn. now rewrite IH. Qed.

Lemma NDp : NoDup (map (@p_name value) (d_params dc)).
Proof. unfold decl_wellformed in WFd. apply andb_true_iff in WFd. apply nodup_names_NoDup. tauto. Qed.

Lemma wfc_parts :
  List.length (c_args c) <= List.length (pos_params value sg) /\
  NoDup (keys (combine (positional_names value sg) (c_args c) ++ c_kwargs c)) /\
  ~ In self_name (keys (c_kwargs c)) /\
  (sig_has value sg self_name = true -> first_is_self value sg = true).
Proof.
  unfold call_wellformed in WFc. apply andb_true_iff in WFc. destruct WFc as [H H4].
  apply andb_true_iff in H. destruct H as [H H3]. apply andb_true_iff in H. destruct H as [H1 H2].
  repeat split.
  - apply Nat.leb_le in H1. unfold positional_names in H1. rewrite map_length in H1. exact H1.
  - apply nodup_names_NoDup. exact H2.
  - apply negb_true_iff in H3. intro I. apply mem_In in I. unfold mem, keys in I. congruence.
  - intro Sh. rewrite in_sig_has, Sh in H4. cbn [negb orb] in H4. unfold first_is_self.
    change (positional_names value sg) with (map (@sp_name value) (pos_params value sg)) in H4.
    destruct (pos_params value sg); [discriminate | exact H4].
Qed.

Lemma SG : self_guard value sg dc c = true.
Proof.
  destruct wfc_parts as (_ & _ & K & F). unfold self_guard. rewrite NSelf. cbn [negb andb].
  apply mem_false in K. rewrite K. cbn [negb andb]. destruct (sig_has value sg self_name); [now rewrite F | reflexivity].
Qed.

Lemma nodup_keys_comm : forall a b : dict, NoDup (keys (a ++ b)) -> NoDup (keys (b ++ a)).
Proof.
  intros a b H. unfold keys in *. rewrite map_app in *. eapply Permutation_NoDup; [apply Permutation_app_comm | exact H].
Qed.

Lemma S_nodup : NoDup (keys S).
Proof. unfold supplied. destruct (d_ignore_input dc); [constructor | apply wfc_parts]. Qed.

Lemma S_gives : forall n w, In (n, w) S <-> gives n w.
Proof.
  intros n w. unfold supplied, caller_gives. destruct (d_ignore_input dc).
  - split; [contradiction | intros [X _]; discriminate].
  - rewrite !in_app_iff. split; [intro H; split; tauto | intros [_ H]; tauto].
Qed.

Lemma S_dget : forall n w, dget n S = Some w <-> gives n w.
Proof.
  intros n w. rewrite <- S_gives. split; [apply dget_In | apply In_dget_nodup, S_nodup].
Qed.

Lemma S_none : forall n, dget n S = None <-> forall w, ~ gives n w.
Proof.
  intro n. split.
  - intros H w G. apply S_dget in G. congruence.
  - intro H. destruct (dget n S) as [w|] eqn:E; [|reflexivity]. apply S_dget in E. now destruct (H w).
Qed.

(* ---------- one declared Parameter ---------- *)
Definition raise_allowed (e : exn) (pn : option name) (rs : list (exn * option name)) : Prop :=
  exists e' pn', In (e', pn') rs /\ derives e e' = true /\ (pn' = None \/ pn' = pn).

Definition ev (x : expect value) : option value := match x with EValue v => Some v | _ => None end.

Lemma derives_param_validate : forall p, In p (d_params dc) -> derives (p_exc p) ValidateExceptionC = true.
Proof. intros p I. eapply derives_trans; [apply Exc; exact I | reflexivity]. Qed.

(* the demand for a declared Parameter against the model's step, when the caller passes w *)
Lemma sdecl_supplied : forall p w, gives (p_name p) w ->
  sdecl p = of_verdict value is_none dc (p_name p) (spec_param value is_none p w).
Proof.
  intros p w G. unfold spec_declared, spec_source. rewrite assoc_dget. apply S_dget in G. now rewrite G.
Qed.

(* ... and when the caller passes nothing: against the unused-parameter step *)
Lemma sdecl_absent_ok : forall p v, In p (d_params dc) -> (forall w, ~ gives (p_name p) w) ->
  snd (u_m p) = WOk v -> sdecl p = drop (EValue v).
Proof.
  intros p v I Abs H. unfold spec_declared, spec_source. rewrite assoc_dget. apply S_none in Abs. rewrite Abs.
  assert (C : snd (cascade_m value sg p) = WOk v ->
              (if spec_required value p then ERaise ValidateExceptionC None
               else match p_default p with
                    | Some d => drop (EValue d)
                    | None => match spec_sig_default value sg (p_name p) with
                              | Some d => drop (EValue d)
                              | None => ERaise ValidateExceptionC None
                              end
                    end) = drop (EValue v)).
  { unfold cascade_m. rewrite req_spec. destruct (spec_required value p); [discriminate|].
    destruct (p_default p) as [d|]; [cbn; intro X; now injection X as <-|].
    change (spec_sig_default value sg (p_name p)) with (sig_default value sg (p_name p)).
    destruct (sig_default value sg (p_name p)) as [d|]; [cbn; intro X; now injection X as <-|discriminate]. }
  unfold ValidateRef.u_m in H. destruct (p_ext p) as [x|]; [|auto].
  destruct (e_has x); [|auto]. destruct (e_load x) as [w|y]; [|discriminate].
  rewrite pv_spec in H. apply of_verdict_ok in H. rewrite H. reflexivity.
Qed.

Lemma sdecl_absent_raise : forall p e pn, In p (d_params dc) -> (forall w, ~ gives (p_name p) w) ->
  snd (u_m p) = WRaise e pn ->
  exists e' pn', sdecl p = ERaise e' pn' /\ derives e e' = true /\ (pn' = None \/ pn' = pn).
Proof.
  intros p e pn I Abs H. unfold spec_declared, spec_source. rewrite assoc_dget. apply S_none in Abs. rewrite Abs.
  assert (C : snd (cascade_m value sg p) = WRaise e pn ->
              exists e' pn',
              (if spec_required value p then ERaise ValidateExceptionC None
               else match p_default p with
                    | Some d => drop (EValue d)
                    | None => match spec_sig_default value sg (p_name p) with
                              | Some d => drop (EValue d)
                              | None => ERaise ValidateExceptionC None
                              end
                    end) = ERaise e' pn' /\ derives e e' = true /\ (pn' = None \/ pn' = pn)).
  { unfold cascade_m. rewrite req_spec. destruct (spec_required value p).
    - cbn. intro X. injection X as <- <-. exists ValidateExceptionC, None. repeat split; auto using derives_param_validate.
    - destruct (p_default p) as [d|]; [discriminate|].
      change (spec_sig_default value sg (p_name p)) with (sig_default value sg (p_name p)).
      destruct (sig_default value sg (p_name p)) as [d|]; [discriminate|]. cbn. intro X. injection X as <- <-.
      exists ValidateExceptionC, None. repeat split; auto. }
  unfold ValidateRef.u_m in H. destruct (p_ext p) as [x|]; [|auto].
  destruct (e_has x); [|auto]. destruct (e_load x) as [w|y].
  - rewrite pv_spec in H. destruct (spec_param value is_none p w) as [v| |y]; cbn in H; [discriminate| |].
    + injection H as <- <-. exists ParameterExceptionC, (Some (p_name p)). repeat split; auto.
    + injection H as <- <-. exists y, None. repeat split; auto using derives_refl.
  - cbn in H. injection H as <- <-. exists y, None. repeat split; auto using derives_refl.
Qed.


Lemma map_eq_in : forall A B (f g : A -> B) l, map f l = map g l -> forall y, In y l -> f y = g y.
Proof.
  induction l as [|x l IH]; intros E y I; [contradiction|]. cbn in E. injection E as E1 E2.
  destruct I as [<-|I]; auto.
Qed.

(* ---------- the arguments the caller passes ---------- *)
Lemma arrival_total : exists xs, arrival value sg dc c = Some xs /\ NoDup (map (fun y : tagged value => fst (snd y)) xs) /\
  (forall x, In x xs -> gives (fst (snd x)) (snd (snd x))) /\
  map titem xs = map (sitem value is_none dc) (map snd xs).
Proof.
  destruct wfc_parts as (Len & ND & _ & _).
  destruct (d_ignore_input dc) eqn:Ig.
  - exists []. unfold ValidateGate.arrival. rewrite Ig. split; [reflexivity|]. split; [apply NoDup_nil|]. split; [intros x []|reflexivity].
  - destruct (arrival_some value sg NV dc c Ig Len) as [xs [A E]]. exists xs. split; [assumption|]. split; [|split].
    + assert (E2 : map (fun y : tagged value => fst (snd y)) xs = keys (map snd xs)) by (unfold keys; now rewrite map_map).
      rewrite E2, E. unfold named_assignment. apply nodup_keys_comm in ND. exact ND.
    + intros y Iy. eapply arrival_gives; eassumption.
    + eapply titem_sitem; [eassumption | apply SG].
Qed.

Lemma step_declared : forall p w b, In p (d_params dc) -> step_m b (p_name p) w = PV p w.
Proof. intros p w b I. unfold ValidateRef.step_m. now rewrite (lookup_unique value dc p NDp I). Qed.

Lemma step_undeclared : forall n w, declared value dc n = false ->
  step_m (Nat.eqb n self_name) n w =
  if d_strict dc && negb (Nat.eqb n self_name) then fail TooManyArgumentsC None else ret w.
Proof.
  intros n w Dn. unfold ValidateRef.step_m. rewrite lookup_param_declared in Dn.
  destruct (lookup_param value dc n); [discriminate|]. unfold undeclared_m. now rewrite andb_diag.
Qed.

(* ---------- the list of demands ---------- *)
Lemma demand_of_in : forall (ds : list (name * expect value)) k x, NoDup (map fst ds) -> In (k, x) ds -> demand_of value k ds = x.
Proof.
  induction ds as [|[k' x'] ds IH]; intros k x ND I; [contradiction|]. cbn [map fst] in ND. inversion ND as [|? ? Hk ND']; subst.
  cbn. destruct I as [I|I].
  - injection I as -> ->. now rewrite Nat.eqb_refl.
  - destruct (Nat.eqb k' k) eqn:Q; [|auto]. apply Nat.eqb_eq in Q. subst. exfalso. apply Hk.
    change k with (fst (k, x)). now apply in_map.
Qed.

Lemma demand_of_notin : forall (ds : list (name * expect value)) k, ~ In k (map fst ds) -> demand_of value k ds = EAbsent.
Proof.
  induction ds as [|[k' x'] ds IH]; intros k N; [reflexivity|]. cbn in *.
  destruct (Nat.eqb k' k) eqn:Q; [apply Nat.eqb_eq in Q; tauto | apply IH; tauto].
Qed.

Lemma D_declared : forall p, In p (d_params dc) -> In (p_name p, sdecl p) D.
Proof. intros p I. unfold demands. apply in_or_app. left. apply in_map_iff. exists p. auto. Qed.

Lemma D_undeclared : forall n w, gives n w -> declared value dc n = false -> In (n, sundecl n w) D.
Proof.
  intros n w G Dn. unfold demands. apply in_or_app. right. apply in_map_iff. exists (n, w). split; [reflexivity|].
  apply filter_In. split; [now apply S_gives|]. cbn [fst]. change (is_declared value dc n) with (declared value dc n). now rewrite Dn.
Qed.

Lemma D_inv : forall k x, In (k, x) D ->
  (exists p, In p (d_params dc) /\ k = p_name p /\ x = sdecl p) \/
  (exists w, gives k w /\ declared value dc k = false /\ x = sundecl k w).
Proof.
  intros k x I. unfold demands in I. apply in_app_or in I. destruct I as [I|I]; apply in_map_iff in I.
  - destruct I as [p [E I]]. injection E as <- <-. left. eauto.
  - destruct I as [[n w] [E I]]. injection E as <- <-. apply filter_In in I. destruct I as [I Dn]. cbn [fst] in Dn.
    change (is_declared value dc n) with (declared value dc n) in Dn. apply negb_true_iff in Dn.
    right. exists w. cbn [fst snd]. split; [now apply S_gives | split; [assumption | reflexivity]].
Qed.

Lemma nodup_app_intro : forall A (a b : list A), NoDup a -> NoDup b -> (forall x, In x a -> ~ In x b) -> NoDup (a ++ b).
Proof.
  induction a as [|x a IH]; intros b Na Nb Dj; [assumption|]. inversion Na as [|? ? Hx Na']; subst. cbn.
  constructor.
  - intro I. apply in_app_or in I. destruct I as [I|I]; [contradiction | apply (Dj x); [now left | assumption]].
  - apply IH; try assumption. intros y Iy. apply Dj. now right.
Qed.

Lemma D_nodup : NoDup (map fst D).
Proof.
  unfold demands. rewrite map_app, !map_map. cbn [fst]. apply nodup_app_intro.
  - apply NDp.
  - change (map (fun x : name * value => fst x)) with (@keys value). apply nodup_filter_keys, S_nodup.
  - intros n I1 I2. apply in_map_iff in I1. destruct I1 as [p [<- Ip]]. apply in_map_iff in I2. destruct I2 as [[k w] [E I]].
    cbn [fst] in E. subst k. apply filter_In in I. destruct I as [_ Dn]. cbn [fst] in Dn.
    change (is_declared value dc (p_name p)) with (declared value dc (p_name p)) in Dn.
    rewrite (In_declared value dc p Ip) in Dn. discriminate.
Qed.

Lemma raises_in : forall k e pn, In (k, ERaise e pn) D -> In (e, pn) (demanded_raises value is_none sg dc c).
Proof.
  intros k e pn I. unfold demanded_raises. apply in_flat_map. exists (k, ERaise e pn). split; [assumption | now left].
Qed.

Lemma raises_inv : forall e pn, In (e, pn) (demanded_raises value is_none sg dc c) -> exists k, In (k, ERaise e pn) D.
Proof.
  intros e pn I. unfold demanded_raises in I. apply in_flat_map in I. destruct I as [[k x] [I H]].
  cbn [snd] in H. destruct x; try contradiction. destruct H as [H|[]]. injection H as <- <-. eauto.
Qed.

(* ---------- _wrapper_content succeeded: every demand is a value, and the dictionary holds it ---------- *)
Section Ok.
Variable r : dict.
Hypothesis W : snd (wc_ref c) = WOk r.

Lemma ok_entry : forall k x, In (k, x) D -> exists v0, dget k r = Some v0 /\ x = drop (EValue v0).
Proof.
  intros k x I. destruct arrival_total as (xs & A & NDx & Gx & Tx).
  destruct (D_inv _ _ I) as [(p & Ip & -> & ->)|(w & G & Dn & ->)].
  - destruct (dget (p_name p) S) as [w|] eqn:Sp.
    + apply S_dget in Sp. destruct (gives_arrival _ _ _ NV _ _ _ _ A Sp) as [y [Iy Ey]].
      destruct (supplied_result _ _ _ _ _ _ _ _ _ W A NDx Iy) as [v [Hv Dv]]. rewrite Ey in Dv. cbn [fst snd] in Dv.
      exists v. split; [assumption|]. unfold ValidateGate.titem in Hv. rewrite Ey in Hv. cbn [fst snd] in Hv.
      rewrite (step_declared _ _ _ Ip), pv_spec in Hv. apply of_verdict_ok in Hv.
      rewrite (sdecl_supplied _ _ Sp), Hv. reflexivity.
    + assert (Abs := proj1 (S_none _) Sp). clear Sp. rename Abs into Sp. destruct (wc_ok_inv _ _ _ _ _ _ _ W) as (xs' & l12 & l3 & A' & F12 & F3 & _).
      assert (U := missing_is_unused _ _ _ _ NV _ _ _ _ A' F12 Ip Sp).
      destruct (Forall2_in_l _ _ _ _ _ (p_name p, u_m p) F3 (in_map _ _ _ U)) as [[k v] [_ [_ Hv]]]. cbn [snd] in Hv.
      exists v. split; [eapply missing_result; eauto using NDp | now apply sdecl_absent_ok].
  - destruct (gives_arrival _ _ _ NV _ _ _ _ A G) as [y [Iy Ey]].
    destruct (supplied_result _ _ _ _ _ _ _ _ _ W A NDx Iy) as [v [Hv Dv]]. rewrite Ey in Dv. cbn [fst snd] in Dv.
    assert (T : titem y = sitem value is_none dc (snd y)) by (rewrite map_map in Tx; exact (map_eq_in _ _ _ _ _ Tx y Iy)).
    rewrite T, Ey in Hv. unfold sitem in Hv. cbn [fst snd] in Hv. rewrite (step_undeclared _ _ Dn) in Hv.
    unfold spec_undeclared. destruct (d_strict dc && negb (Nat.eqb k self_name)); [discriminate|].
    cbn in Hv. injection Hv as <-. exists w. auto.
Qed.

Lemma ok_keys : forall n, In n (keys r) -> In n (map fst D).
Proof.
  intros n I. destruct (wc_ok_inv _ _ _ _ _ _ _ W) as (xs & l12 & l3 & A & F12 & F3 & ->).
  apply keys_dsets_In in I. destruct I as [I|[]]. unfold keys in I. rewrite map_app in I. apply in_app_or in I.
  assert (Decl : declared value dc n = true -> In n (map fst D)).
  { intro Dn. unfold declared in Dn. apply existsb_exists in Dn. destruct Dn as [p [Ip E]]. apply Nat.eqb_eq in E. subst n.
    change (p_name p) with (fst (p_name p, sdecl p)). apply in_map, D_declared, Ip. }
  destruct I as [I|I].
  - fold (keys l12) in I. rewrite (item_ok_keys _ _ _ F12), map_map in I. apply in_map_iff in I. destruct I as [y [E Iy]].
    unfold ValidateGate.titem in E. cbn [fst] in E. subst n. assert (G := arrival_gives _ _ _ NV _ _ _ A Iy).
    destruct (declared value dc (fst (snd y))) eqn:Dn; [auto|].
    change (fst (snd y)) with (fst (fst (snd y), sundecl (fst (snd y)) (snd (snd y)))). apply in_map. now apply D_undeclared.
  - fold (keys l3) in I. rewrite (item_ok_keys _ _ _ F3) in I. unfold ValidateRef.uitems in I. rewrite map_map in I. cbn [fst] in I.
    apply in_map_iff in I. destruct I as [p [<- Ip]]. apply Decl, In_declared. apply unused_In in Ip. tauto.
Qed.

Lemma ok_no_raise : demanded_raises value is_none sg dc c = [].
Proof.
  destruct (demanded_raises value is_none sg dc c) as [|[e pn] rs] eqn:R; [reflexivity|]. exfalso.
  assert (I : In (e, pn) (demanded_raises value is_none sg dc c)) by (rewrite R; now left).
  destruct (raises_inv _ _ I) as [k Ik]. destruct (ok_entry _ _ Ik) as [v0 [_ E]].
  unfold drop_none in E. destruct (d_mode dc); try discriminate. destruct (is_none v0); discriminate.
Qed.

Lemma ok_binding : forall n, dget n (norm value is_none (d_mode dc) r) = ev (demand_of value n D).
Proof.
  intro n. assert (NDr := result_nodup _ _ _ _ _ _ _ W).
  destruct (in_dec Nat.eq_dec n (map fst D)) as [I|N].
  - apply in_map_iff in I. destruct I as [[k x] [E I]]. cbn [fst] in E. subst k.
    rewrite (demand_of_in _ _ _ D_nodup I). destruct (ok_entry _ _ I) as [v0 [Dv ->]].
    unfold drop_none. destruct (d_mode dc); cbn [ValidateBind.norm ev]; try assumption.
    rewrite dget_notnone, Dv by assumption. now destruct (is_none v0).
  - rewrite (demand_of_notin _ _ N). cbn [ev].
    assert (Dr : dget n r = None) by (apply dget_None_keys; intro I; apply N, ok_keys, I).
    destruct (d_mode dc); cbn [ValidateBind.norm]; try assumption. now rewrite dget_notnone, Dr.
Qed.

End Ok.


(* ---------- _wrapper_content raised: the exception is one of the demanded ones ---------- *)
Lemma raise_demanded : forall e pn, snd (wc_ref c) = WRaise e pn ->
  raise_allowed e pn (demanded_raises value is_none sg dc c).
Proof.
  intros e pn W. destruct arrival_total as (xs & A & NDx & Gx & Tx).
  rewrite (wc_ref_arrival _ _ _ _ _ _ _ A) in W. apply mbind_raise_inv in W. destruct W as [W|[l12 [W1 W]]].
  - apply seqm_raise_inv in W. destruct W as [it [I Hs]]. apply in_map_iff in I. destruct I as [y [<- Iy]].
    assert (G := Gx y Iy). rewrite map_map in Tx. rewrite (map_eq_in _ _ _ _ _ Tx y Iy) in Hs.
    destruct (snd y) as [n w] eqn:Ey. unfold sitem in Hs. cbn [fst snd] in *.
    destruct (declared value dc n) eqn:Dn.
    + unfold declared in Dn. apply existsb_exists in Dn. destruct Dn as [p [Ip E]]. apply Nat.eqb_eq in E. subst n.
      rewrite (step_declared _ _ _ Ip), pv_spec in Hs. assert (Sd := sdecl_supplied _ _ G).
      destruct (spec_param value is_none p w) as [v| |y0]; cbn in Hs; [discriminate| |]; injection Hs as <- <-; cbn [of_verdict] in Sd.
      * exists ParameterExceptionC, (Some (p_name p)). split; [|split; [now apply Exc | now right]].
        apply (raises_in (p_name p)). rewrite <- Sd. now apply D_declared.
      * exists y0, None. split; [|split; [apply derives_refl | now left]].
        apply (raises_in (p_name p)). rewrite <- Sd. now apply D_declared.
    + rewrite (step_undeclared _ _ Dn) in Hs. assert (Du := D_undeclared _ _ G Dn). unfold spec_undeclared in Du.
      destruct (d_strict dc && negb (Nat.eqb n self_name)); [|discriminate]. cbn in Hs. injection Hs as <- <-.
      exists TooManyArgumentsC, None. split; [apply (raises_in n), Du | split; [reflexivity | now left]].
  - apply seqm_ok in W1. unfold ValidateRef.tail_m in W. apply mbind_raise_inv in W. destruct W as [W|[l3 [_ W]]].
    + apply seqm_raise_inv in W. destruct W as [it [I Hs]]. apply in_map_iff in I. destruct I as [p [<- Ip]]. cbn [snd] in Hs.
      assert (Abs := absent_of_unused _ _ _ _ NV _ _ _ _ A W1 Ip). apply unused_In in Ip. destruct Ip as [Ip _].
      destruct (sdecl_absent_raise _ _ _ Ip Abs Hs) as (e' & pn' & Sd & De & Pn).
      exists e', pn'. split; [|auto]. apply (raises_in (p_name p)). rewrite <- Sd. now apply D_declared.
    + apply mbind_raise_inv in W. destruct W as [W|[[] [_ W]]]; [congruence | discriminate].
Qed.

(* ---------- the binding ---------- *)
Lemma fill_binding : forall (ds : list (name * expect value)) (d : dict) ps,
  (forall n, dget n d = ev (demand_of value n ds)) -> fill value ps d = demanded_binding value ds ps.
Proof.
  intros ds d ps H. induction ps as [|sp ps IH]; [reflexivity|]. cbn. rewrite IH, (H (sp_name sp)).
  destruct (demand_of value (sp_name sp) ds); reflexivity.
Qed.

Lemma extras_dget : forall (ds : list (name * expect value)) n, NoDup (map fst ds) ->
  dget n (demanded_extras value sg ds) = if in_sig value sg n then None else ev (demand_of value n ds).
Proof.
  induction ds as [|[k x] ds IH]; intros n ND.
  - cbn. now destruct (in_sig value sg n).
  - cbn [map fst] in ND. inversion ND as [|? ? Hk ND']; subst. unfold demanded_extras in *. cbn [flat_map fst snd demand_of].
    rewrite dget_app, (IH n ND'). destruct (Nat.eqb k n) eqn:Q.
    + apply Nat.eqb_eq in Q. subst k. rewrite (demand_of_notin _ _ Hk). cbn [ev].
      destruct x as [v| |e pn]; cbn [dget ev]; try now destruct (in_sig value sg n).
      destruct (in_sig value sg n); cbn [dget]; [reflexivity | now rewrite Nat.eqb_refl].
    + destruct x as [v| |e pn]; cbn [dget]; try reflexivity.
      destruct (in_sig value sg k); cbn [dget]; [reflexivity | now rewrite Q].
Qed.

Lemma unknown_norm : forall mode (r : dict), unknown_key value sg r = false -> unknown_key value sg (norm value is_none mode r) = false.
Proof.
  intros [] r U; cbn [ValidateBind.norm]; try assumption. unfold unknown_key in *. rewrite existsb_filter.
  destruct (existsb _ r) eqn:Y in |- *; [|reflexivity]. apply existsb_exists in Y. destruct Y as [kv [I Y]].
  apply andb_true_iff in Y. rewrite <- U. symmetry. apply existsb_exists. exists kv. tauto.
Qed.

(* ---------- THE MODEL MEETS THE SPECIFICATION ---------- *)
Theorem run_meets_spec : forall is_async,
  match spec_outcome value is_none sg dc c with
  | DRaise rs => exists e pn, snd (vrun is_async c) = FRaise e pn /\ raise_allowed e pn rs
  | DPythonRejects => snd (vrun is_async c) = FRaise TypeErrorC None
  | DBody b => names_fit value sg dc c = true -> exists b', snd (vrun is_async c) = FBody b' /\ deq b' b
  end.
Proof.
  intro is_async. unfold spec_outcome. destruct (snd (wc_ref c)) as [r|e pn] eqn:W.
  - rewrite (ok_no_raise r W). rewrite (run_ref value is_none sg NV). cbn [snd]. rewrite W.
    assert (NDr := result_nodup _ _ _ _ _ _ _ W).
    assert (SO := result_self_ok _ _ _ _ _ NV _ _ SG W).
    rewrite observe_normal by assumption.
    assert (B := ok_binding r W). rewrite <- (fill_binding _ _ (s_params sg) B).
    unfold pyb. destruct (fill value (s_params sg) (norm value is_none (d_mode dc) r)) as [b0|] eqn:F.
    + intro N. assert (U := names_fit_unknown _ _ _ _ NV _ _ _ N W).
      assert (U' : negb (s_varkw sg) && unknown_key value sg (norm value is_none (d_mode dc) r) = false).
      { destruct (s_varkw sg); [reflexivity|]. cbn [negb andb] in *. now apply unknown_norm. }
      rewrite U'. cbn. eexists. split; [reflexivity|]. intro n. rewrite !dget_app. destruct (dget n b0); [reflexivity|].
      unfold extras. rewrite (dget_filter_key value (fun k => negb (sig_has value sg k))), (extras_dget _ n D_nodup), in_sig_has, B.
      now destruct (sig_has value sg n).
    + now destruct (negb (s_varkw sg) && _).
  - assert (R := raise_demanded _ _ W). rewrite (run_raise_of_wc _ _ _ _ _ NV _ _ _ _ W).
    destruct (demanded_raises value is_none sg dc c) as [|x rs] eqn:Dr.
    + destruct R as (e' & pn' & [] & _).
    + exists e, pn. split; [reflexivity | exact R].
Qed.

End Link.
