(* C17 - reachability of local states: a verified fixpoint check.

   For fixed programs and a fixed behaviour of the callee the local state space of one
   invocation is finite.  `explore` computes a candidate set of reachable states; `closed`
   checks that it contains the initial state and is closed under every enabled step.
   `closed_sound` (induction on the derivation of `lreach`, i.e. on the schedule): every
   state reachable under ANY schedule is in a closed set, so a boolean fact that holds on all
   members of the set holds for every schedule.  Nothing about `explore` is trusted.

   The behaviour of the callee contains a function (`b_isa`); `lstep_ext` shows that the
   interpreter only consults it on StopIteration and on the classes occurring in the child
   program's handler table, so the finitely many behaviours of `all_behs` cover all.      *)
From Coq Require Import List Arith Bool Lia.
From PV Require Import Base.Exn Model.PipeKernel Model.Subproc Spec.SubprocSpec.
Import ListNotations.

(* ---- boolean equality of local states (it is evaluated; only its soundness is needed) ------- *)
Definition exn_eq_dec : forall a c : exn, {a = c} + {a <> c} := list_eq_dec Nat.eq_dec.

Lemma exn_eqb_eq : forall a c, exn_eqb a c = true -> a = c.
Proof.
  induction a as [|x a IH]; intros [|y c] H; cbn in H; try discriminate; [reflexivity|].
  apply andb_true_iff in H as [H1 H2]. apply Nat.eqb_eq in H1. subst. f_equal. now apply IH.
Qed.

Definition opt_beq {A} (f : A -> A -> bool) (a c : option A) : bool :=
  match a, c with Some x, Some y => f x y | None, None => true | _, _ => false end.
Fixpoint list_beq {A} (f : A -> A -> bool) (a c : list A) : bool :=
  match a, c with [], [] => true | x :: a', y :: c' => f x y && list_beq f a' c' | _, _ => false end.
Definition xval_beq (a c : xval) : bool :=
  match a, c with XCallee, XCallee => true | XCls x, XCls y => exn_eqb x y | XRetAttr, XRetAttr => true | _, _ => false end.
Definition pfinal_beq (a c : pfinal) : bool :=
  match a, c with FReturnCallee, FReturnCallee => true | FReturnOther, FReturnOther => true
                | FRaise x, FRaise y => xval_beq x y | _, _ => false end.
Definition pstat_beq (a c : pstat) : bool :=
  match a, c with PSRun, PSRun => true | PSWait, PSWait => true | PSDone x, PSDone y => pfinal_beq x y | _, _ => false end.
Definition rval_beq (a c : rval) : bool :=
  match a, c with RVal, RVal => true | RErr x, RErr y => xval_beq x y | _, _ => false end.
Definition ends_beq (a c : ends) : bool := Bool.eqb (e_rx a) (e_rx c) && Bool.eqb (e_tx a) (e_tx c).
Definition pside_beq (a c : pside) : bool :=
  Nat.eqb (p_pc a) (p_pc c) && pstat_beq (p_stat a) (p_stat c) && ends_beq (p_ends a) (p_ends c) &&
  Bool.eqb (p_reader a) (p_reader c) && opt_beq rval_beq (p_result a) (p_result c) &&
  Bool.eqb (p_joined a) (p_joined c) && opt_beq exn_eqb (p_pending a) (p_pending c).
Definition cstatus_beq (a c : cstatus) : bool :=
  match a, c with CNotStarted, CNotStarted => true | CRunning, CRunning => true | CExited, CExited => true | _, _ => false end.
Definition cpend_beq (a c : cpend) : bool :=
  match a, c with CPNone, CPNone => true | CPOk, CPOk => true | CPOkCoroutine, CPOkCoroutine => true
                | CPRaise, CPRaise => true | CPHandled, CPHandled => true | _, _ => false end.
Definition cside_beq (a c : cside) : bool :=
  cstatus_beq (c_stat a) (c_stat c) && Nat.eqb (c_pc a) (c_pc c) && ends_beq (c_ends a) (c_ends c) &&
  cpend_beq (c_pend a) (c_pend c) && Bool.eqb (c_sending a) (c_sending c) && Bool.eqb (c_killed a) (c_killed c).
Definition payload_beq (a c : payload) : bool :=
  match a, c with PlResult, PlResult => true | PlError, PlError => true | _, _ => false end.
Definition msg_beq (a c : msg) : bool :=
  match a, c with MFull x, MFull y => payload_beq x y | MTrunc, MTrunc => true | _, _ => false end.
Definition lst_eqb (a c : lst) : bool :=
  pside_beq (ps a) (ps c) && cside_beq (cs a) (cs c) && list_beq msg_beq (data a) (data c).

Lemma opt_beq_eq : forall A (f : A -> A -> bool), (forall x y, f x y = true -> x = y) ->
  forall a c, opt_beq f a c = true -> a = c.
Proof. intros A f Hf [x|] [y|] H; cbn in H; try discriminate; [f_equal; auto | reflexivity]. Qed.
Lemma list_beq_eq : forall A (f : A -> A -> bool), (forall x y, f x y = true -> x = y) ->
  forall a c, list_beq f a c = true -> a = c.
Proof.
  intros A f Hf. induction a as [|x a IH]; intros [|y c] H; cbn in H; try discriminate; [reflexivity|].
  apply andb_true_iff in H as [H1 H2]. f_equal; auto.
Qed.
Lemma xval_beq_eq : forall a c, xval_beq a c = true -> a = c.
Proof. intros [|x|] [|y|] H; cbn in H; try discriminate; try reflexivity. f_equal. now apply exn_eqb_eq. Qed.
Lemma pfinal_beq_eq : forall a c, pfinal_beq a c = true -> a = c.
Proof. intros [| |x] [| |y] H; cbn in H; try discriminate; try reflexivity. f_equal. now apply xval_beq_eq. Qed.
Lemma pstat_beq_eq : forall a c, pstat_beq a c = true -> a = c.
Proof. intros [| |x] [| |y] H; cbn in H; try discriminate; try reflexivity. f_equal. now apply pfinal_beq_eq. Qed.
Lemma rval_beq_eq : forall a c, rval_beq a c = true -> a = c.
Proof. intros [|x] [|y] H; cbn in H; try discriminate; try reflexivity. f_equal. now apply xval_beq_eq. Qed.
Lemma ends_beq_eq : forall a c, ends_beq a c = true -> a = c.
Proof.
  intros [a1 a2] [c1 c2] H. unfold ends_beq in H; cbn in H. apply andb_true_iff in H as [H1 H2].
  apply eqb_prop in H1, H2. now subst.
Qed.
Lemma pside_beq_eq : forall a c, pside_beq a c = true -> a = c.
Proof.
  intros [a1 a2 a3 a4 a5 a6 a7] [c1 c2 c3 c4 c5 c6 c7] H. unfold pside_beq in H; cbn in H.
  repeat (apply andb_true_iff in H; let H' := fresh "H" in destruct H as [H H']).
  apply Nat.eqb_eq in H. apply pstat_beq_eq in H5. apply ends_beq_eq in H4. apply eqb_prop in H3, H1.
  apply (opt_beq_eq _ _ rval_beq_eq) in H2. apply (opt_beq_eq _ _ exn_eqb_eq) in H0. now subst.
Qed.
Lemma cstatus_beq_eq : forall a c, cstatus_beq a c = true -> a = c.
Proof. intros [] [] H; cbn in H; try discriminate; reflexivity. Qed.
Lemma cpend_beq_eq : forall a c, cpend_beq a c = true -> a = c.
Proof. intros [] [] H; cbn in H; try discriminate; reflexivity. Qed.
Lemma cside_beq_eq : forall a c, cside_beq a c = true -> a = c.
Proof.
  intros [a1 a2 a3 a4 a5 a6] [c1 c2 c3 c4 c5 c6] H. unfold cside_beq in H; cbn in H.
  repeat (apply andb_true_iff in H; let H' := fresh "H" in destruct H as [H H']).
  apply cstatus_beq_eq in H. apply Nat.eqb_eq in H4. apply ends_beq_eq in H3. apply cpend_beq_eq in H2.
  apply eqb_prop in H1, H0. now subst.
Qed.
Lemma msg_beq_eq : forall a c, msg_beq a c = true -> a = c.
Proof. intros [[]|] [[]|] H; cbn in H; try discriminate; reflexivity. Qed.
Lemma lst_eqb_eq : forall a c, lst_eqb a c = true -> a = c.
Proof.
  intros [a1 a2 a3] [c1 c2 c3] H. unfold lst_eqb in H; cbn in H.
  apply andb_true_iff in H as [H H3]. apply andb_true_iff in H as [H1 H2].
  apply pside_beq_eq in H1. apply cside_beq_eq in H2. apply (list_beq_eq _ _ msg_beq_eq) in H3. now subst.
Qed.

Definition mem (s : lst) (L : list lst) : bool := existsb (lst_eqb s) L.

Lemma mem_In : forall s L, mem s L = true -> In s L.
Proof.
  unfold mem; intros s L H. apply existsb_exists in H as [x [Hx He]].
  apply lst_eqb_eq in He. now subst.
Qed.

(* ---- reachability ---------------------------------------------------------------------- *)
Section Reach.
  Variable P : list pop.
  Variable C : list cop.
  Variable b : beh.

  Inductive lreach : lst -> Prop :=
  | lr_init : lreach linit
  | lr_step : forall s c s', lreach s -> lstep P C b 0 c s = Some s' -> lreach s'.

  Lemma lrun_reach : forall sched s, lreach s -> lreach (lrun P C b sched s).
  Proof.
    induction sched as [|c sched IH]; intros s Hs; [exact Hs|].
    cbn. apply IH. unfold lstep_skip. destruct (lstep P C b 0 c s) eqn:E; [eapply lr_step; eauto | exact Hs].
  Qed.

  Lemma reach_lrun : forall s, lreach s -> exists sched, lrun P C b sched linit = s.
  Proof.
    induction 1 as [|s c s' _ [sched IH] Hs].
    - exists []. reflexivity.
    - exists (sched ++ [c]). unfold lrun in *. rewrite fold_left_app, IH. cbn. unfold lstep_skip. now rewrite Hs.
  Qed.

  Definition succs (s : lst) : list lst :=
    flat_map (fun c => match lstep P C b 0 c s with Some s' => [s'] | None => [] end) lchoices.

  Lemma succs_step : forall s c s', lstep P C b 0 c s = Some s' -> In s' (succs s).
  Proof.
    intros s c s' H. unfold succs. apply in_flat_map. exists c. split.
    - destruct c; cbn; auto.
    - rewrite H. now left.
  Qed.

  Definition closed (L : list lst) : bool :=
    mem linit L && forallb (fun s => forallb (fun s' => mem s' L) (succs s)) L.

  Lemma closed_sound : forall L, closed L = true -> forall s, lreach s -> In s L.
  Proof.
    intros L Hc s Hr. unfold closed in Hc. apply andb_true_iff in Hc as [Hi Hs].
    induction Hr as [|s c s' _ IH Hstep]; [now apply mem_In|].
    rewrite forallb_forall in Hs. specialize (Hs s IH). rewrite forallb_forall in Hs.
    apply mem_In, Hs. eapply succs_step; eauto.
  Qed.

  (* worklist exploration; the result is only ever used through `closed` *)
  Fixpoint dedup_into (xs acc : list lst) : list lst :=
    match xs with
    | [] => acc
    | x :: xs' => if mem x acc then dedup_into xs' acc else dedup_into xs' (acc ++ [x])
    end.
  Fixpoint explore (fuel : nat) (seen work : list lst) : list lst :=
    match fuel, work with
    | S f, s :: rest =>
        let fresh := dedup_into (filter (fun x => negb (mem x seen)) (succs s)) [] in
        explore f (seen ++ fresh) (rest ++ fresh)
    | _, _ => seen
    end.
  Definition reachable_set : list lst := explore 4000 [linit] [linit].

  (* a fact about states, and a fact about transitions, checked on a closed set *)
  Definition check_states (f : lst -> bool) (L : list lst) : bool := forallb f L.
  Definition check_trans (f : lst -> lst -> bool) (L : list lst) : bool :=
    forallb (fun s => forallb (f s) (succs s)) L.

  Lemma check_states_sound : forall L f, closed L = true -> check_states f L = true ->
    forall s, lreach s -> f s = true.
  Proof.
    intros L f Hc Hf s Hr. unfold check_states in Hf. rewrite forallb_forall in Hf.
    apply Hf. eapply closed_sound; eauto.
  Qed.

  Lemma check_trans_sound : forall L f, closed L = true -> check_trans f L = true ->
    forall s c s', lreach s -> lstep P C b 0 c s = Some s' -> f s s' = true.
  Proof.
    intros L f Hc Hf s c s' Hr Hs. unfold check_trans in Hf. rewrite forallb_forall in Hf.
    specialize (Hf s (closed_sound L Hc s Hr)). rewrite forallb_forall in Hf.
    apply Hf. eapply succs_step; eauto.
  Qed.
End Reach.

(* ---- the interpreter consults b_isa only on finitely many classes ----------------------- *)
Definition cop_classes (o : cop) : list exn := match o with CCatch cls _ => cls | _ => [] end.
Definition isa_classes (C : list cop) : list exn :=
  nodup (list_eq_dec Nat.eq_dec) (StopIterationC :: ExceptionC :: flat_map cop_classes C).

(* ... and b_term_fatal only where the parent program sends SIGTERM at all *)
Definition is_term (o : pop) : bool := match o with PKill KSigTerm => true | _ => false end.
Definition uses_term (P : list pop) : bool := existsb is_term P.

Definition beh_agree (P : list pop) (C : list cop) (b b' : beh) : Prop :=
  b_out b = b_out b' /\ b_big b = b_big b' /\ b_pick b = b_pick b' /\ b_async b = b_async b' /\
  b_ret_err b = b_ret_err b' /\ b_unp b = b_unp b' /\ (uses_term P = true -> b_term_fatal b = b_term_fatal b') /\
  forall c, In c (isa_classes C) -> b_isa b c = b_isa b' c.

Lemma existsb_agree : forall (f g : exn -> bool) l, (forall c, In c l -> f c = g c) -> existsb f l = existsb g l.
Proof.
  induction l as [|x l IH]; intros H; [reflexivity|]. cbn. rewrite (H x (or_introl eq_refl)), IH; auto.
  intros; apply H; now right.
Qed.

Lemma lstep_ext : forall P C b b' env c s, beh_agree P C b b' -> lstep P C b env c s = lstep P C b' env c s.
Proof.
  intros P C b b' env c s (Ho & Hb & Hp & Ha & Hr & Hu & Ht & Hi).
  destruct c; cbn [lstep].
  - (* parent: only pep479 looks at the behaviour *)
    unfold p_step. destruct (p_stat (ps s)); try reflexivity.
    destruct (nth_error P (p_pc (ps s))) as [op|] eqn:Eop; [|reflexivity].
    destruct op; try reflexivity; cbn [p_exec]; try (unfold p_recv; now rewrite Hu).
    { (* PKill sg *) destruct sg; [reflexivity|]. unfold sig_fatal. rewrite Ht; [reflexivity|].
      unfold uses_term. apply existsb_exists. exists (PKill KSigTerm). split; [|reflexivity].
      eapply nth_error_In; eauto. }
    destruct (p_result (ps s)) as [[|x]|]; try reflexivity.
    + now rewrite Hr.
    + unfold pep479. destruct x; try reflexivity. rewrite (Hi StopIterationC); [reflexivity|].
      apply nodup_In. now left.
  - (* child *)
    unfold c_step. destruct (c_stat (cs s)); try reflexivity.
    destruct (nth_error C (c_pc (cs s))) as [op|] eqn:En; [|reflexivity].
    assert (Hdo : forall a, c_do P b s a = c_do P b' s a).
    { intro a. unfold c_do, c_payload. rewrite Hp, Hb. reflexivity. }
    destruct op; try reflexivity.
    + rewrite Ha, Ho. reflexivity.
    + destruct (c_pend (cs s)); try reflexivity.
      rewrite (existsb_agree (b_isa b) (b_isa b') classes), Hdo; [reflexivity|].
      intros c Hc. apply Hi. apply nodup_In. right; right. apply in_flat_map. exists (CCatch classes a). split; [|exact Hc].
      eapply nth_error_In; eauto.
    + destruct (c_pend (cs s)); try reflexivity; now rewrite Hdo.
  - reflexivity.
  - reflexivity.
Qed.

Lemma lreach_ext : forall P C b b' s, beh_agree P C b b' -> lreach P C b s -> lreach P C b' s.
Proof.
  intros P C b b' s Hag Hr. induction Hr as [|s c s' _ IH Hs]; [constructor|].
  eapply lr_step; [exact IH|]. rewrite <- (lstep_ext P C b b' 0 c s Hag). exact Hs.
Qed.

(* ---- the finitely many behaviours that matter ------------------------------------------- *)
Fixpoint assoc_isa (tbl : list (exn * bool)) (c : exn) : bool :=
  match tbl with
  | [] => false
  | (k, v) :: t => if exn_eq_dec k c then v else assoc_isa t c
  end.

Fixpoint all_tables (cls : list exn) : list (list (exn * bool)) :=
  match cls with
  | [] => [[]]
  | c :: cls' => flat_map (fun t => [(c, true) :: t; (c, false) :: t]) (all_tables cls')
  end.

Definition bools : list bool := [true; false].
Definition term_bits (P : list pop) : list bool := if uses_term P then bools else [true].
Definition all_behs (P : list pop) (C : list cop) : list beh :=
  flat_map (fun o => flat_map (fun t => flat_map (fun big => flat_map (fun pick => flat_map (fun asy => flat_map (fun re => flat_map (fun un => map (fun tf =>
    {| b_out := o; b_isa := assoc_isa t; b_big := big; b_pick := pick; b_async := asy; b_ret_err := re; b_unp := un;
       b_term_fatal := tf |})
    (term_bits P)) bools) bools) bools) bools) bools) (all_tables (isa_classes C))) [COk; CRaise; CDie].

Lemma all_tables_complete : forall (f : exn -> bool) cls,
  exists t, In t (all_tables cls) /\ forall c, In c cls -> assoc_isa t c = f c.
Proof.
  induction cls as [|c cls [t [Ht Hf]]].
  - exists []. split; [now left | intros c []].
  - exists ((c, f c) :: t). split.
    + cbn. apply in_flat_map. exists t. split; [exact Ht|]. destruct (f c); cbn; auto.
    + intros c' Hc'. cbn. destruct (exn_eq_dec c c') as [->|Hne]; [reflexivity|].
      destruct Hc' as [->|Hc']; [contradiction | now apply Hf].
Qed.

Lemma all_behs_complete : forall P C b, exists b', In b' (all_behs P C) /\ beh_agree P C b b'.
Proof.
  intros P C b. destruct (all_tables_complete (b_isa b) (isa_classes C)) as [t [Ht Hf]].
  exists {| b_out := b_out b; b_isa := assoc_isa t; b_big := b_big b; b_pick := b_pick b; b_async := b_async b;
            b_ret_err := b_ret_err b; b_unp := b_unp b;
            b_term_fatal := if uses_term P then b_term_fatal b else true |}.
  split.
  - unfold all_behs. apply in_flat_map. exists (b_out b). split; [destruct (b_out b); cbn; auto|].
    apply in_flat_map. exists t. split; [exact Ht|].
    apply in_flat_map. exists (b_big b). split; [destruct (b_big b); cbn; auto|].
    apply in_flat_map. exists (b_pick b). split; [destruct (b_pick b); cbn; auto|].
    apply in_flat_map. exists (b_async b). split; [destruct (b_async b); cbn; auto|].
    apply in_flat_map. exists (b_ret_err b). split; [destruct (b_ret_err b); cbn; auto|].
    apply in_flat_map. exists (b_unp b). split; [destruct (b_unp b); cbn; auto|].
    apply in_map_iff. exists (if uses_term P then b_term_fatal b else true). split; [reflexivity|].
    unfold term_bits. destruct (uses_term P); [destruct (b_term_fatal b); cbn; auto | now left].
  - repeat split; try reflexivity.
    + intros Hu. cbn. now rewrite Hu.
    + intros c Hc. cbn. symmetry. now apply Hf.
Qed.
