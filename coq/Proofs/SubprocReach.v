(* C17 - reachability of local states: a verified fixpoint check.

   For fixed programs and a fixed behaviour of the callee the local state space of one
   invocation is finite.  `explore` computes a candidate set of reachable states; `closed`
   checks that it contains the initial state and is closed under every enabled step.
   `closed_sound` (induction on the derivation of `lreach`, i.e. on the schedule): every
   state reachable under ANY schedule is in a closed set, so a boolean fact that holds on all
   members of the set holds for every schedule.  Nothing about `explore` is trusted.

   The behaviour of the callee contains a function (`b_isa`); `lstep_ext` shows that the
   interpreter only consults it on StopIteration and on the classes occurring in the child
   program's handler table, so the finitely many behaviours of `all_behs` cover all.      *)
From Coq Require Import List Arith Bool Lia.
From PV Require Import Base.Exn Model.PipeKernel Model.Subproc Spec.SubprocSpec.
Import ListNotations.

(* ---- decidable equality of local states (transparent: it is evaluated) ---------------- *)
Definition exn_eq_dec : forall a c : exn, {a = c} + {a <> c} := list_eq_dec Nat.eq_dec.
Definition xval_eq_dec : forall a c : xval, {a = c} + {a <> c}.
Proof. decide equality; apply exn_eq_dec. Defined.
Definition pfinal_eq_dec : forall a c : pfinal, {a = c} + {a <> c}.
Proof. decide equality; apply xval_eq_dec. Defined.
Definition pstat_eq_dec : forall a c : pstat, {a = c} + {a <> c}.
Proof. decide equality; apply pfinal_eq_dec. Defined.
Definition rval_eq_dec : forall a c : rval, {a = c} + {a <> c}.
Proof. decide equality; apply xval_eq_dec. Defined.
Definition ends_eq_dec : forall a c : ends, {a = c} + {a <> c}.
Proof. decide equality; apply bool_dec. Defined.
Definition pside_eq_dec : forall a c : pside, {a = c} + {a <> c}.
Proof.
  decide equality; try apply bool_dec; try apply Nat.eq_dec; try apply ends_eq_dec; try apply pstat_eq_dec.
  decide equality; apply rval_eq_dec.
Defined.
Definition cstatus_eq_dec : forall a c : cstatus, {a = c} + {a <> c}.
Proof. decide equality. Defined.
Definition cpend_eq_dec : forall a c : cpend, {a = c} + {a <> c}.
Proof. decide equality. Defined.
Definition cside_eq_dec : forall a c : cside, {a = c} + {a <> c}.
Proof.
  decide equality; try apply bool_dec; try apply Nat.eq_dec; try apply ends_eq_dec;
    try apply cstatus_eq_dec; try apply cpend_eq_dec.
Defined.
Definition payload_eq_dec : forall a c : payload, {a = c} + {a <> c}.
Proof. decide equality. Defined.
Definition msg_eq_dec : forall a c : msg, {a = c} + {a <> c}.
Proof. decide equality; apply payload_eq_dec. Defined.
Definition lst_eq_dec : forall a c : lst, {a = c} + {a <> c}.
Proof.
  decide equality; [apply (list_eq_dec msg_eq_dec) | apply cside_eq_dec | apply pside_eq_dec].
Defined.

Definition lst_eqb (a c : lst) : bool := if lst_eq_dec a c then true else false.
Definition mem (s : lst) (L : list lst) : bool := existsb (lst_eqb s) L.

Lemma mem_In : forall s L, mem s L = true -> In s L.
Proof.
  unfold mem; intros s L H. apply existsb_exists in H as [x [Hx He]].
  unfold lst_eqb in He. destruct (lst_eq_dec s x); [subst; assumption | discriminate].
Qed.

(* ---- reachability ---------------------------------------------------------------------- *)
Section Reach.
  Variable P : list pop.
  Variable C : list cop.
  Variable b : beh.

  Inductive lreach : lst -> Prop :=
  | lr_init : lreach linit
  | lr_step : forall s c s', lreach s -> lstep P C b 0 c s = Some s' -> lreach s'.

  Lemma lrun_reach : forall sched s, lreach s -> lreach (lrun P C b sched s).
  Proof.
    induction sched as [|c sched IH]; intros s Hs; [exact Hs|].
    cbn. apply IH. unfold lstep_skip. destruct (lstep P C b 0 c s) eqn:E; [eapply lr_step; eauto | exact Hs].
  Qed.

  Lemma reach_lrun : forall s, lreach s -> exists sched, lrun P C b sched linit = s.
  Proof.
    induction 1 as [|s c s' _ [sched IH] Hs].
    - exists []. reflexivity.
    - exists (sched ++ [c]). unfold lrun in *. rewrite fold_left_app, IH. cbn. unfold lstep_skip. now rewrite Hs.
  Qed.

  Definition succs (s : lst) : list lst :=
    flat_map (fun c => match lstep P C b 0 c s with Some s' => [s'] | None => [] end) lchoices.

  Lemma succs_step : forall s c s', lstep P C b 0 c s = Some s' -> In s' (succs s).
  Proof.
    intros s c s' H. unfold succs. apply in_flat_map. exists c. split.
    - destruct c; cbn; auto.
    - rewrite H. now left.
  Qed.

  Definition closed (L : list lst) : bool :=
    mem linit L && forallb (fun s => forallb (fun s' => mem s' L) (succs s)) L.

  Lemma closed_sound : forall L, closed L = true -> forall s, lreach s -> In s L.
  Proof.
    intros L Hc s Hr. unfold closed in Hc. apply andb_true_iff in Hc as [Hi Hs].
    induction Hr as [|s c s' _ IH Hstep]; [now apply mem_In|].
    rewrite forallb_forall in Hs. specialize (Hs s IH). rewrite forallb_forall in Hs.
    apply mem_In, Hs. eapply succs_step; eauto.
  Qed.

  (* worklist exploration; the result is only ever used through `closed` *)
  Fixpoint dedup_into (xs acc : list lst) : list lst :=
    match xs with
    | [] => acc
    | x :: xs' => if mem x acc then dedup_into xs' acc else dedup_into xs' (acc ++ [x])
    end.
  Fixpoint explore (fuel : nat) (seen work : list lst) : list lst :=
    match fuel, work with
    | S f, s :: rest =>
        let fresh := dedup_into (filter (fun x => negb (mem x seen)) (succs s)) [] in
        explore f (seen ++ fresh) (rest ++ fresh)
    | _, _ => seen
    end.
  Definition reachable_set : list lst := explore 4000 [linit] [linit].

  (* a fact about states, and a fact about transitions, checked on a closed set *)
  Definition check_states (f : lst -> bool) (L : list lst) : bool := forallb f L.
  Definition check_trans (f : lst -> lst -> bool) (L : list lst) : bool :=
    forallb (fun s => forallb (f s) (succs s)) L.

  Lemma check_states_sound : forall L f, closed L = true -> check_states f L = true ->
    forall s, lreach s -> f s = true.
  Proof.
    intros L f Hc Hf s Hr. unfold check_states in Hf. rewrite forallb_forall in Hf.
    apply Hf. eapply closed_sound; eauto.
  Qed.

  Lemma check_trans_sound : forall L f, closed L = true -> check_trans f L = true ->
    forall s c s', lreach s -> lstep P C b 0 c s = Some s' -> f s s' = true.
  Proof.
    intros L f Hc Hf s c s' Hr Hs. unfold check_trans in Hf. rewrite forallb_forall in Hf.
    specialize (Hf s (closed_sound L Hc s Hr)). rewrite forallb_forall in Hf.
    apply Hf. eapply succs_step; eauto.
  Qed.
End Reach.

(* ---- the interpreter consults b_isa only on finitely many classes ----------------------- *)
Definition cop_classes (o : cop) : list exn := match o with CCatch cls _ => cls | _ => [] end.
Definition isa_classes (C : list cop) : list exn :=
  nodup (list_eq_dec Nat.eq_dec) (StopIterationC :: ExceptionC :: flat_map cop_classes C).

Definition beh_agree (C : list cop) (b b' : beh) : Prop :=
  b_out b = b_out b' /\ b_big b = b_big b' /\ b_pick b = b_pick b' /\ b_async b = b_async b' /\
  b_ret_err b = b_ret_err b' /\
  forall c, In c (isa_classes C) -> b_isa b c = b_isa b' c.

Lemma existsb_agree : forall (f g : exn -> bool) l, (forall c, In c l -> f c = g c) -> existsb f l = existsb g l.
Proof.
  induction l as [|x l IH]; intros H; [reflexivity|]. cbn. rewrite (H x (or_introl eq_refl)), IH; auto.
  intros; apply H; now right.
Qed.

Lemma lstep_ext : forall P C b b' env c s, beh_agree C b b' -> lstep P C b env c s = lstep P C b' env c s.
Proof.
  intros P C b b' env c s (Ho & Hb & Hp & Ha & Hr & Hi).
  destruct c; cbn [lstep].
  - (* parent: only pep479 looks at the behaviour *)
    unfold p_step. destruct (p_stat (ps s)); try reflexivity.
    destruct (nth_error P (p_pc (ps s))) as [op|]; [|reflexivity].
    destruct op; try reflexivity. cbn [p_exec].
    destruct (p_result (ps s)) as [[|x]|]; try reflexivity.
    + now rewrite Hr.
    + unfold pep479. destruct x; try reflexivity. rewrite (Hi StopIterationC); [reflexivity|].
      apply nodup_In. now left.
  - (* child *)
    unfold c_step. destruct (c_stat (cs s)); try reflexivity.
    destruct (nth_error C (c_pc (cs s))) as [op|] eqn:En; [|reflexivity].
    assert (Hdo : forall a, c_do b s a = c_do b' s a).
    { intro a. unfold c_do, c_payload. rewrite Hp, Hb. reflexivity. }
    destruct op; try reflexivity.
    + rewrite Ha, Ho. reflexivity.
    + destruct (c_pend (cs s)); try reflexivity.
      rewrite (existsb_agree (b_isa b) (b_isa b') classes), Hdo; [reflexivity|].
      intros c Hc. apply Hi. apply nodup_In. right; right. apply in_flat_map. exists (CCatch classes a). split; [|exact Hc].
      eapply nth_error_In; eauto.
    + destruct (c_pend (cs s)); try reflexivity; now rewrite Hdo.
  - reflexivity.
Qed.

Lemma lreach_ext : forall P C b b' s, beh_agree C b b' -> lreach P C b s -> lreach P C b' s.
Proof.
  intros P C b b' s Hag Hr. induction Hr as [|s c s' _ IH Hs]; [constructor|].
  eapply lr_step; [exact IH|]. rewrite <- (lstep_ext P C b b' 0 c s Hag). exact Hs.
Qed.

(* ---- the finitely many behaviours that matter ------------------------------------------- *)
Fixpoint assoc_isa (tbl : list (exn * bool)) (c : exn) : bool :=
  match tbl with
  | [] => false
  | (k, v) :: t => if exn_eq_dec k c then v else assoc_isa t c
  end.

Fixpoint all_tables (cls : list exn) : list (list (exn * bool)) :=
  match cls with
  | [] => [[]]
  | c :: cls' => flat_map (fun t => [(c, true) :: t; (c, false) :: t]) (all_tables cls')
  end.

Definition bools : list bool := [true; false].
Definition all_behs (C : list cop) : list beh :=
  flat_map (fun o => flat_map (fun t => flat_map (fun big => flat_map (fun pick => flat_map (fun asy => map (fun re =>
    {| b_out := o; b_isa := assoc_isa t; b_big := big; b_pick := pick; b_async := asy; b_ret_err := re |})
    bools) bools) bools) bools) (all_tables (isa_classes C))) [COk; CRaise; CDie].

Lemma all_tables_complete : forall (f : exn -> bool) cls,
  exists t, In t (all_tables cls) /\ forall c, In c cls -> assoc_isa t c = f c.
Proof.
  induction cls as [|c cls [t [Ht Hf]]].
  - exists []. split; [now left | intros c []].
  - exists ((c, f c) :: t). split.
    + cbn. apply in_flat_map. exists t. split; [exact Ht|]. destruct (f c); cbn; auto.
    + intros c' Hc'. cbn. destruct (exn_eq_dec c c') as [->|Hne]; [reflexivity|].
      destruct Hc' as [->|Hc']; [contradiction | now apply Hf].
Qed.

Lemma all_behs_complete : forall C b, exists b', In b' (all_behs C) /\ beh_agree C b b'.
Proof.
  intros C b. destruct (all_tables_complete (b_isa b) (isa_classes C)) as [t [Ht Hf]].
  exists {| b_out := b_out b; b_isa := assoc_isa t; b_big := b_big b; b_pick := b_pick b; b_async := b_async b;
            b_ret_err := b_ret_err b |}.
  split.
  - unfold all_behs. apply in_flat_map. exists (b_out b). split; [destruct (b_out b); cbn; auto|].
    apply in_flat_map. exists t. split; [exact Ht|].
    apply in_flat_map. exists (b_big b). split; [destruct (b_big b); cbn; auto|].
    apply in_flat_map. exists (b_pick b). split; [destruct (b_pick b); cbn; auto|].
    apply in_flat_map. exists (b_async b). split; [destruct (b_async b); cbn; auto|].
    apply in_map_iff. exists (b_ret_err b). split; [reflexivity | destruct (b_ret_err b); cbn; auto].
  - repeat split; try reflexivity. intros c Hc. cbn. symmetry. now apply Hf.
Qed.
