(* C13: @validate binds by name.  Lemmas about the reference configuration. *)
From Coq Require Import List Arith Bool Permutation Lia.
From PV Require Import Base.Exn Model.ValidateSem Spec.ValidateSpec Proofs.ValidateDict Proofs.ValidateRef
  Proofs.ValidateBind Proofs.ValidateGate.
Import ListNotations.

Section ByName.
Variable value : Type.
Variable is_none : value -> bool.
Variable sg : signature value.
Variable env : wenv.
Hypothesis NV : s_varpos sg = false.      (* functions without *args *)

Notation param := (param value).
Notation dict := (dict value).
Notation deco := (deco value).
Notation M := (M value).
Notation rcfg := reference_cfg.
Notation rr := reference_req_rule.
Notation PV := (param_validate value is_none rcfg rr).
Notation seqm := (seqm value).
Notation step_m := (step_m value is_none).
Notation titem := (titem value is_none).
Notation u_m := (u_m value is_none sg).
Notation uitems := (uitems value is_none sg).
Notation wc_ref := (wc_ref value is_none sg env).
Notation tail_m := (tail_m value is_none sg env).
Notation arrival := (arrival value sg).
Notation vrun := (run value is_none rcfg rr sg env).
Notation observe := (observe value is_none sg).
Notation norm := (norm value is_none).
Notation final_equiv := (final_equiv value).
Notation item_ok := (item_ok value).

Lemma run_ref_nv : forall dc is_async c,
  vrun dc is_async c =
  (fst (wc_ref dc c), match snd (wc_ref dc c) with WOk r => observe (d_mode dc) r | WRaise e pn => FRaise e pn end).
Proof. intros. now apply run_ref. Qed.

(* ---------- small list facts ---------- *)
Lemma mem_ext : forall l l', (forall n, In n l <-> In n l') -> forall n, mem n l = mem n l'.
Proof.
  intros l l' H n. destruct (mem n l) eqn:A; destruct (mem n l') eqn:B; try reflexivity.
  - apply mem_In, H, mem_In in A. congruence.
  - apply mem_In, H, mem_In in B. congruence.
Qed.

Lemma Permutation_filter' : forall A (f : A -> bool) l l', Permutation l l' -> Permutation (filter f l) (filter f l').
Proof.
  induction 1 as [|x l l' _ IH|x y l|l l' l'' _ IH1 _ IH2]; cbn [filter].
  - constructor.
  - destruct (f x); [now constructor | assumption].
  - destruct (f x), (f y); try apply Permutation_refl. apply perm_swap.
  - eapply Permutation_trans; eassumption.
Qed.

Lemma forallb_map_pv : forall A B (f : B -> bool) (g : A -> B) l, forallb f (map g l) = forallb (fun x => f (g x)) l.
Proof. intros A B f g l. induction l as [|x l IH]; [reflexivity|]. cbn [map forallb]. now rewrite IH. Qed.

Lemma forallb_ext_pv : forall A (f g : A -> bool) l, (forall x, f x = g x) -> forallb f l = forallb g l.
Proof. intros A f g l H. induction l as [|x l IH]; [reflexivity|]. cbn [forallb]. now rewrite H, IH. Qed.

Lemma forallb_perm : forall A (f : A -> bool) l l', Permutation l l' -> forallb f l = forallb f l'.
Proof.
  induction 1 as [|x l l' _ IH|x y l|l l' l'' _ IH1 _ IH2]; cbn [forallb]; try congruence.
  destruct (f x), (f y); reflexivity.
Qed.

Lemma existsb_perm : forall A (f : A -> bool) l l', Permutation l l' -> existsb f l = existsb f l'.
Proof.
  induction 1 as [|x l l' _ IH|x y l|l l' l'' _ IH1 _ IH2]; cbn [existsb]; try congruence.
  destruct (f x), (f y); reflexivity.
Qed.

Lemma nodup_map_inj : forall A B (f : A -> B) l x y, NoDup (map f l) -> In x l -> In y l -> f x = f y -> x = y.
Proof.
  induction l as [|a l IH]; intros x y ND Ix Iy E; [contradiction|].
  cbn [map] in ND. inversion ND as [|? ? Ha ND']; subst.
  destruct Ix as [->|Ix], Iy as [->|Iy]; try reflexivity.
  - exfalso. apply Ha. rewrite E. now apply in_map.
  - exfalso. apply Ha. rewrite <- E. now apply in_map.
  - now apply IH.
Qed.

Lemma dsets_deq : forall (l r r' : dict), deq r r' -> deq (dsets l r) (dsets l r').
Proof.
  induction l as [|[k v] l IH]; intros r r' E; [assumption|]. cbn. apply IH.
  intro n. rewrite !dget_dset. now rewrite (E n).
Qed.

(* ---------- the result of _wrapper_content, forwards ---------- *)
Lemma wc_ok_flask : forall dc c r, snd (wc_ref dc c) = WOk r -> snd (flask_m value env dc) = WOk tt.
Proof.
  intros dc c r H. destruct (arrival dc c) as [xs|] eqn:A.
  - rewrite (wc_ref_arrival _ _ _ _ _ _ _ A) in H. apply mbind_ok_inv in H. destruct H as [l12 [_ H]].
    unfold ValidateRef.tail_m in H. apply mbind_ok_inv in H. destruct H as [l3 [_ H]].
    apply mbind_ok_inv in H. destruct H as [[] [H _]]. exact H.
  - destruct (wc_ref_no_arrival _ is_none _ env _ _ A) as [e [pn R]]. congruence.
Qed.

Lemma wc_ok_intro : forall dc c xs l12 l3,
  arrival dc c = Some xs -> Forall2 item_ok (map (titem dc) xs) l12 ->
  Forall2 item_ok (uitems (unused_params value dc (useds value dc l12))) l3 ->
  snd (flask_m value env dc) = WOk tt ->
  snd (wc_ref dc c) = WOk (dsets (l12 ++ l3) []).
Proof.
  intros dc c xs l12 l3 A F12 F3 Fl. rewrite (wc_ref_arrival _ _ _ _ _ _ _ A).
  rewrite snd_mbind, (seqm_ok_conv _ _ _ F12). unfold ValidateRef.tail_m.
  rewrite snd_mbind, (seqm_ok_conv _ _ _ F3), snd_mbind, Fl. reflexivity.
Qed.

(* ---------- observation of two results that agree name by name ---------- *)
Lemma observe_deq : forall mode r r',
  NoDup (keys r) -> NoDup (keys r') -> deq r r' ->
  self_ok value sg r -> self_ok value sg r' ->
  final_equiv (observe mode r) (observe mode r').
Proof.
  intros mode r r' ND ND' E S S'. rewrite !observe_normal by assumption.
  apply pyb_ext. now apply deq_norm.
Qed.

Definition same_outcome (dc dc' : deco) (c c' : call value) : Prop :=
  forall r, snd (wc_ref dc c) = WOk r -> exists r', snd (wc_ref dc' c') = WOk r' /\ deq r r'.

Lemma final_equiv_of_results : forall dc dc' is_async c c',
  d_mode dc = d_mode dc' ->
  same_outcome dc dc' c c' -> same_outcome dc' dc c' c ->
  self_guard value sg dc c = true -> self_guard value sg dc' c' = true ->
  final_equiv (snd (vrun dc is_async c)) (snd (vrun dc' is_async c')).
Proof.
  intros dc dc' is_async c c' Hm S S' G1 G1'. rewrite !run_ref_nv. cbn [snd].
  destruct (snd (wc_ref dc c)) as [r|e pn] eqn:W; destruct (snd (wc_ref dc' c')) as [r'|e' pn'] eqn:W'.
  - destruct (S r W) as [r'' [X E]]. rewrite W' in X. injection X as <-. rewrite <- Hm.
    apply observe_deq; eauto using result_nodup, result_self_ok.
  - destruct (S r W) as [r'' [X _]]. congruence.
  - destruct (S' r' W') as [r'' [X _]]. congruence.
  - exact I.
Qed.

(* ---------- C13: the positional / keyword split and the keyword order do not matter ---------- *)
Definition sitem (dc : deco) (kw : name * value) : name * M value :=
  (fst kw, step_m dc (Nat.eqb (fst kw) self_name) (fst kw) (snd kw)).

Lemma step_m_true : forall dc k w, step_m dc true k w = step_m dc (Nat.eqb k self_name) k w.
Proof.
  intros dc k w. unfold ValidateRef.step_m. destruct (lookup_param value dc k); [reflexivity|].
  unfold undeclared_m. destruct (Nat.eqb k self_name); reflexivity.
Qed.

Lemma titem_sitem : forall dc c xs, arrival dc c = Some xs -> self_guard value sg dc c = true ->
  map (titem dc) xs = map (sitem dc) (map snd xs).
Proof.
  intros dc c xs A G. rewrite map_map. apply map_ext_in. intros [t [k w]] I. unfold ValidateGate.titem, sitem. cbn [fst snd].
  f_equal. destruct t; [apply step_m_true|].
  unfold ValidateGate.arrival in A. destruct (d_ignore_input dc); [injection A as <-; contradiction|].
  destruct (bind_partial value sg (c_args c)) as [[bound star]|e0]; [|discriminate]. injection A as <-.
  apply in_app_or in I. destruct I as [I|I]; apply in_map_iff in I; destruct I as [kw [E I]]; [|discriminate].
  injection E as ->. unfold self_guard in G. apply andb_true_iff in G. destruct G as [G _].
  apply andb_true_iff in G. destruct G as [G _]. apply negb_true_iff, mem_false in G.
  destruct (Nat.eqb k self_name) eqn:Q; [|reflexivity]. apply Nat.eqb_eq in Q. subst k. exfalso. apply G.
  unfold keys. change self_name with (fst (self_name, w)). now apply in_map.
Qed.

Lemma useds_perm : forall dc (l l' : dict), Permutation l l' -> forall n, mem n (useds value dc l) = mem n (useds value dc l').
Proof.
  intros dc l l' P. apply mem_ext. intro n. rewrite !In_useds.
  assert (K : In n (keys l) <-> In n (keys l')).
  { unfold keys. split; apply Permutation_in; [|apply Permutation_sym]; now apply Permutation_map. }
  tauto.
Qed.

Lemma call_style_same_outcome : forall dc c c' xs xs',
  arrival dc c = Some xs -> arrival dc c' = Some xs' ->
  Permutation (map snd xs) (map snd xs') -> NoDup (keys (map snd xs)) ->
  self_guard value sg dc c = true -> self_guard value sg dc c' = true ->
  same_outcome dc dc c c'.
Proof.
  intros dc c c' xs xs' A A' P ND G G' r W.
  destruct (wc_ok_inv _ _ _ _ _ _ _ W) as (xs0 & l12 & l3 & A0 & F12 & F3 & ->). rewrite A in A0. injection A0 as <-.
  assert (Fl := wc_ok_flask _ _ _ W).
  rewrite (titem_sitem _ _ _ A G) in F12.
  destruct (Permutation_Forall2 (Permutation_map (sitem dc) P) F12) as [l12' [P12 F12']].
  rewrite <- (titem_sitem _ _ _ A' G') in F12'.
  assert (U : unused_params value dc (useds value dc l12) = unused_params value dc (useds value dc l12')).
  { unfold ValidateRef.unused_params. apply filter_ext. intro p. now rewrite (useds_perm dc _ _ P12). }
  rewrite U in F3. exists (dsets (l12' ++ l3) []). split; [now apply (wc_ok_intro _ _ _ _ _ A')|].
  rewrite !dsets_app. apply dsets_deq. apply dsets_perm; [|assumption | apply deq_refl].
  rewrite (item_ok_keys _ _ _ F12), map_map. unfold sitem. cbn [fst]. exact ND.
Qed.

Theorem call_style_invariant : forall dc is_async c c' xs xs',
  arrival dc c = Some xs -> arrival dc c' = Some xs' ->
  Permutation (map snd xs) (map snd xs') -> NoDup (keys (map snd xs)) ->
  self_guard value sg dc c = true -> self_guard value sg dc c' = true ->
  final_equiv (snd (vrun dc is_async c)) (snd (vrun dc is_async c')).
Proof.
  intros dc is_async c c' xs xs' A A' P ND G G'.
  apply final_equiv_of_results; try assumption; try reflexivity.
  - eapply call_style_same_outcome; eassumption.
  - eapply call_style_same_outcome; try eassumption.
    + now apply Permutation_sym.
    + unfold keys in *. eapply Permutation_NoDup; [apply Permutation_map; eassumption | assumption].
Qed.

(* ---------- C13: the order in which the Parameters are declared does not matter ---------- *)
Lemma lookup_unique : forall dc p, NoDup (map (@p_name value) (d_params dc)) -> In p (d_params dc) ->
  lookup_param value dc (p_name p) = Some p.
Proof.
  intros dc p ND I. assert (D := In_declared value dc p I). rewrite lookup_param_declared in D.
  destruct (lookup_param value dc (p_name p)) as [q|] eqn:L; [|discriminate].
  f_equal. eapply nodup_map_inj; eauto using lookup_param_In, lookup_param_name.
Qed.

Lemma declared_perm : forall dc dc' k, Permutation (d_params dc) (d_params dc') -> declared value dc k = declared value dc' k.
Proof. intros. unfold declared. now apply existsb_perm. Qed.

Lemma lookup_perm : forall dc dc' k,
  Permutation (d_params dc) (d_params dc') -> NoDup (map (@p_name value) (d_params dc)) ->
  lookup_param value dc k = lookup_param value dc' k.
Proof.
  intros dc dc' k P ND.
  assert (ND' : NoDup (map (@p_name value) (d_params dc'))) by (eapply Permutation_NoDup; [apply Permutation_map; eassumption | assumption]).
  destruct (lookup_param value dc k) as [p|] eqn:L.
  - assert (I := lookup_param_In _ _ _ _ L). apply (Permutation_in _ P) in I.
    rewrite <- (lookup_param_name _ _ _ _ L). symmetry. now apply lookup_unique.
  - assert (D : declared value dc k = false) by (rewrite lookup_param_declared; now rewrite L).
    rewrite (declared_perm dc dc' k P), lookup_param_declared in D.
    destruct (lookup_param value dc' k); [discriminate | reflexivity].
Qed.

Record same_but_params (dc dc' : deco) : Prop := {
  sbp_perm : Permutation (d_params dc) (d_params dc');
  sbp_mode : d_mode dc = d_mode dc';
  sbp_strict : d_strict dc = d_strict dc';
  sbp_ignore : d_ignore_input dc = d_ignore_input dc' }.

Lemma same_but_params_sym : forall dc dc', same_but_params dc dc' -> same_but_params dc' dc.
Proof. intros dc dc' [P M1 S I]. split; auto using Permutation_sym. Qed.

Lemma declaration_order_same_outcome : forall dc dc' c,
  same_but_params dc dc' -> NoDup (map (@p_name value) (d_params dc)) -> same_outcome dc dc' c c.
Proof.
  intros dc dc' c [P Hm Hs Hi] ND r W.
  destruct (wc_ok_inv _ _ _ _ _ _ _ W) as (xs & l12 & l3 & A & F12 & F3 & ->).
  assert (Fl := wc_ok_flask _ _ _ W).
  assert (A' : arrival dc' c = Some xs) by (unfold ValidateGate.arrival in *; now rewrite <- Hi).
  assert (T : map (titem dc') xs = map (titem dc) xs).
  { apply map_ext. intros [t [k w]]. unfold ValidateGate.titem, ValidateRef.step_m, undeclared_m. cbn [fst snd].
    now rewrite (lookup_perm dc dc' k P ND), Hs. }
  assert (Us : useds value dc' l12 = useds value dc l12).
  { unfold ValidateRef.useds, usedk. apply flat_map_ext. intro kv. now rewrite (declared_perm dc dc' _ P). }
  assert (PU : Permutation (uitems (unused_params value dc (useds value dc l12)))
                           (uitems (unused_params value dc' (useds value dc' l12)))).
  { rewrite Us. unfold ValidateRef.uitems, ValidateRef.unused_params. apply Permutation_map. now apply Permutation_filter'. }
  destruct (Permutation_Forall2 PU F3) as [l3' [P3 F3']].
  assert (Fl' : snd (flask_m value env dc') = WOk tt).
  { rewrite <- Fl. unfold flask_m. rewrite <- Hs. unfold all_flask_json. rewrite <- (forallb_perm _ _ _ _ P).
    replace (forallb (fun p => match lookup_param value dc' (p_name p) with Some q => p_flask_json q | None => true end) (d_params dc))
      with (forallb (fun p => match lookup_param value dc (p_name p) with Some q => p_flask_json q | None => true end) (d_params dc)).
    2:{ apply forallb_ext_pv. intro p. now rewrite (lookup_perm dc dc' (p_name p) P ND). }
    destruct (d_strict dc && w_flask_installed env); [|reflexivity].
    destruct (forallb _ (d_params dc)); [|reflexivity]. destruct (w_request env) as [rq|]; [|reflexivity].
    replace (existsb (fun k => negb (declared value dc' k)) (r_json_keys rq))
      with (existsb (fun k => negb (declared value dc k)) (r_json_keys rq)); [reflexivity|].
    apply existsb_ext_in. intros k _. now rewrite (declared_perm dc dc' k P). }
  exists (dsets (l12 ++ l3') []). split.
  - apply (wc_ok_intro _ _ _ _ _ A'); [now rewrite T | assumption | assumption].
  - rewrite !dsets_app. apply dsets_perm; [|assumption | apply deq_refl].
    rewrite (item_ok_keys _ _ _ F3). unfold ValidateRef.uitems. rewrite map_map. cbn [fst].
    now apply unused_names_nodup.
Qed.

Theorem declaration_order_invariant : forall dc dc' is_async c,
  same_but_params dc dc' -> NoDup (map (@p_name value) (d_params dc)) ->
  self_guard value sg dc c = true -> self_guard value sg dc' c = true ->
  final_equiv (snd (vrun dc is_async c)) (snd (vrun dc' is_async c)).
Proof.
  intros dc dc' is_async c S ND G G'.
  apply final_equiv_of_results; try assumption.
  - apply S.
  - now apply declaration_order_same_outcome.
  - apply declaration_order_same_outcome; [now apply same_but_params_sym|].
    eapply Permutation_NoDup; [apply Permutation_map, S | assumption].
Qed.

(* ---------- C13: the return_as mode does not matter ---------- *)
Definition with_mode (dc : deco) (m : return_as) : deco :=
  {| d_params := d_params dc; d_mode := m; d_strict := d_strict dc; d_ignore_input := d_ignore_input dc |}.

Lemma wc_ref_mode : forall dc m c, wc_ref (with_mode dc m) c = wc_ref dc c.
Proof. intros. reflexivity. Qed.

Lemma self_guard_mode : forall dc m c, self_guard value sg (with_mode dc m) c = self_guard value sg dc c.
Proof. intros. reflexivity. Qed.

Lemma names_fit_unknown : forall dc c r, names_fit value sg dc c = true -> snd (wc_ref dc c) = WOk r ->
  negb (s_varkw sg) && unknown_key value sg r = false.
Proof.
  intros dc c r N W.
  unfold names_fit in N. destruct (s_varkw sg); [reflexivity|]. cbn [orb negb andb] in *.
  apply andb_true_iff in N. destruct N as [N1 N2].
  destruct (unknown_key value sg r) eqn:U; [|reflexivity]. exfalso.
  unfold unknown_key in U. apply existsb_exists in U. destruct U as [[k w] [I U]]. cbn [fst] in U.
  apply negb_true_iff in U.
  assert (K : In k (keys r)) by (unfold keys; change k with (fst (k, w)); now apply in_map).
  destruct (result_keys _ _ _ _ _ NV _ _ _ W K) as [[_ [K'|K']]|K'].
  - rewrite (all_in_sig_In _ _ _ _ N2 K') in U. discriminate.
  - rewrite (pos_name_sig_has _ _ _ K') in U. discriminate.
  - unfold declared in K'. apply existsb_exists in K'. destruct K' as [p [Ip E]]. apply Nat.eqb_eq in E. subst k.
    rewrite (all_in_sig_In _ _ _ _ N1 (in_map _ _ _ Ip)) in U. discriminate.
Qed.

Theorem args_equals_kwargs : forall dc is_async c,
  self_guard value sg dc c = true ->
  snd (vrun (with_mode dc ARGS) is_async c) = snd (vrun (with_mode dc KWARGS_WITH_NONE) is_async c).
Proof.
  intros dc is_async c G. rewrite !run_ref_nv, !wc_ref_mode. cbn [snd with_mode d_mode].
  destruct (snd (wc_ref dc c)) as [r|e pn] eqn:W; [|reflexivity].
  assert (ND := result_nodup _ _ _ _ _ _ _ W). assert (SO := result_self_ok _ _ _ _ _ NV _ _ G W).
  rewrite !observe_normal by assumption. reflexivity.
Qed.

Lemma fill_none_inv : forall ps (d : dict), fill value ps d = None ->
  exists sp, In sp ps /\ dget (sp_name sp) d = None /\ sp_default sp = None.
Proof.
  induction ps as [|sp ps IH]; intros d H; simpl in H; [discriminate|].
  destruct (dget (sp_name sp) d) as [v|] eqn:G.
  - destruct (fill value ps d) eqn:F; [discriminate|]. destruct (IH _ F) as [sp' [I R]]. exists sp'. split; [now right | assumption].
  - destruct (sp_default sp) eqn:D.
    + destruct (fill value ps d) eqn:F; [discriminate|]. destruct (IH _ F) as [sp' [I R]]. exists sp'. split; [now right | assumption].
    + exists sp. split; [now left | auto].
Qed.

Lemma fill_some_inv : forall ps (d b : dict) sp, fill value ps d = Some b -> In sp ps ->
  dget (sp_name sp) d <> None \/ sp_default sp <> None.
Proof.
  induction ps as [|sp0 ps IH]; intros d b sp H I; [contradiction|]. simpl in H.
  destruct (match dget (sp_name sp0) d with Some v => Some v | None => sp_default sp0 end) eqn:V; [|discriminate].
  destruct (fill value ps d) eqn:F; [|discriminate]. destruct I as [<-|I]; [|eauto].
  destruct (dget (sp_name sp0) d); [left | right]; congruence.
Qed.

Lemma dget_notnone : forall (r : dict) n, NoDup (keys r) ->
  dget n (filter (notnone value is_none) r) = match dget n r with Some v => if is_none v then None else Some v | None => None end.
Proof.
  intros r n ND. unfold notnone. rewrite (dget_filter_val value (fun v => negb (is_none v)) n r ND).
  destruct (dget n r) as [v|]; [|reflexivity]. now destruct (is_none v).
Qed.

Lemma sig_default_find : forall n, sig_default value sg n = match find_sp value sg n with Some sp => sp_default sp | None => None end.
Proof. reflexivity. Qed.

(* KWARGS_WITHOUT_NONE against KWARGS_WITH_NONE: None values are omitted, signature defaults apply *)
Definition without_none_relation (f f' : final value) : Prop :=
  match f, f' with
  | FBody b, FBody b' =>
      forall n, dget n b' = match dget n b with
                            | Some v => if is_none v then sig_default value sg n else Some v
                            | None => None
                            end
  | FBody b, FRaise e pn =>
      e = TypeErrorC /\ pn = None /\
      exists sp v, In sp (s_params sg) /\ dget (sp_name sp) b = Some v /\ is_none v = true /\ sp_default sp = None
  | FRaise e pn, f' => f' = FRaise e pn
  | _, _ => False
  end.

Theorem kwargs_without_none : forall dc is_async c,
  self_guard value sg dc c = true -> names_fit value sg dc c = true ->
  without_none_relation (snd (vrun (with_mode dc KWARGS_WITH_NONE) is_async c))
                        (snd (vrun (with_mode dc KWARGS_WITHOUT_NONE) is_async c)).
Proof.
  intros dc is_async c G N. rewrite !run_ref_nv, !wc_ref_mode. cbn [snd with_mode d_mode].
  destruct (snd (wc_ref dc c)) as [r|e pn] eqn:W; [|reflexivity].
  assert (ND := result_nodup _ _ _ _ _ _ _ W). assert (SO := result_self_ok _ _ _ _ _ NV _ _ G W).
  rewrite !observe_normal by assumption.
  cbn [ValidateBind.norm]. set (r' := filter (notnone value is_none) r).
  assert (U := names_fit_unknown _ _ _ N W).
  assert (U' : negb (s_varkw sg) && unknown_key value sg r' = false).
  { destruct (s_varkw sg); [reflexivity|]. cbn [negb andb] in *. unfold unknown_key in *. unfold r'.
    rewrite existsb_filter.
    destruct (existsb (fun x => notnone value is_none x && negb (sig_has value sg (fst x))) r) eqn:Y; [|reflexivity].
    apply existsb_exists in Y. destruct Y as [kv [I Y]]. apply andb_true_iff in Y.
    rewrite <- U. symmetry. apply existsb_exists. exists kv. tauto. }
  assert (P : forall b, pyb value sg r = Ok b -> forall n, dget n b = bound_val value sg r n) by (intros; now apply pyb_dget).
  assert (P' : forall b, pyb value sg r' = Ok b -> forall n, dget n b = bound_val value sg r' n) by (intros; now apply pyb_dget).
  unfold pyb in *. rewrite U in *. rewrite U' in *.
  destruct (fill value (s_params sg) r) as [b0|] eqn:F; destruct (fill value (s_params sg) r') as [b0'|] eqn:F'; cbn.
  - intro n. rewrite (P _ eq_refl), (P' _ eq_refl). unfold bound_val, r'. rewrite dget_notnone by assumption.
    rewrite sig_default_find. destruct (find_sp value sg n) as [sp|].
    + destruct (dget n r) as [v|]; [now destruct (is_none v)|].
      destruct (sp_default sp) as [d|]; [now destruct (is_none d) | reflexivity].
    + destruct (dget n r) as [v|]; [now destruct (is_none v) | reflexivity].
  - repeat split. destruct (fill_none_inv _ _ F') as [sp [I [D' Df]]].
    destruct (fill_some_inv _ _ _ _ F I) as [D|D]; [|congruence].
    unfold r' in D'. rewrite dget_notnone in D' by assumption.
    destruct (dget (sp_name sp) r) as [v|] eqn:Dr; [|congruence].
    exists sp, v. rewrite (P _ eq_refl). unfold bound_val. rewrite Dr.
    repeat split; try assumption.
    + now destruct (find_sp value sg (sp_name sp)).
    + destruct (is_none v); [reflexivity | discriminate].
  - exfalso. destruct (fill_none_inv _ _ F) as [sp [I [D Df]]].
    destruct (fill_some_inv _ _ _ _ F' I) as [D'|D']; [|congruence].
    unfold r' in D'. rewrite dget_notnone, D in D' by assumption. congruence.
  - reflexivity.
Qed.

(* ---------- C13: external sources ---------- *)
Definition with_ext (p : param) (e : option (ext value)) : param :=
  {| p_name := p_name p; p_convert := p_convert p; p_chain := p_chain p; p_required := p_required p;
     p_default := p_default p; p_exc := p_exc p; p_ext := e; p_flask_json := p_flask_json p |}.

(* the declaration in which the external source of the Parameter(s) named n is replaced *)
Definition replace_ext (dc : deco) (n : name) (e : option (ext value)) : deco :=
  {| d_params := map (fun p => if Nat.eqb (p_name p) n then with_ext p e else p) (d_params dc);
     d_mode := d_mode dc; d_strict := d_strict dc; d_ignore_input := d_ignore_input dc |}.

Section ReplaceExt.
Variable dc : deco.
Variable n : name.
Variable e : option (ext value).
Let G (p : param) : param := if Nat.eqb (p_name p) n then with_ext p e else p.
Let dc' := replace_ext dc n e.

Lemma G_name : forall p, p_name (G p) = p_name p.
Proof. intro p. unfold G. now destruct (Nat.eqb (p_name p) n). Qed.

Lemma run_chain_with_ext : forall p fs i v,
  run_chain value rcfg (with_ext p e) i fs v = run_chain value rcfg p i fs v.
Proof.
  induction fs as [|f fs IH]; intros i v; cbn [run_chain]; [reflexivity|].
  destruct (f v) as [v'|x]; [now rewrite IH|].
  destruct (hlookup (pv_chain_handlers rcfg) x); try reflexivity. now rewrite IH.
Qed.

Lemma G_pv : forall p w, PV (G p) w = PV p w.
Proof.
  intros p w. unfold G. destruct (Nat.eqb (p_name p) n); [|reflexivity].
  unfold param_validate. change (is_required value rr (with_ext p e)) with (is_required value rr p).
  change (run_convert value rcfg (with_ext p e) w) with (run_convert value rcfg p w).
  destruct (is_none w); [reflexivity|]. destruct (run_convert value rcfg p w); [|reflexivity].
  apply run_chain_with_ext.
Qed.

Lemma find_map_G : forall k (l : list param),
  find (fun p => Nat.eqb (p_name p) k) (map G l) = option_map G (find (fun p => Nat.eqb (p_name p) k) l).
Proof.
  induction l as [|p l IH]; [reflexivity|]. cbn [map find]. rewrite G_name.
  destruct (Nat.eqb (p_name p) k); [reflexivity | assumption].
Qed.

Lemma lookup_replace : forall k, lookup_param value dc' k = option_map G (lookup_param value dc k).
Proof. intro k. unfold lookup_param, dc', replace_ext. cbn [d_params]. fold G. now rewrite <- map_rev, find_map_G. Qed.

Lemma step_m_replace : forall pos k w, step_m dc' pos k w = step_m dc pos k w.
Proof.
  intros. unfold ValidateRef.step_m. rewrite lookup_replace. destruct (lookup_param value dc k); cbn [option_map].
  - apply G_pv.
  - reflexivity.
Qed.

Lemma declared_replace : forall k, declared value dc' k = declared value dc k.
Proof. intro k. rewrite !lookup_param_declared, lookup_replace. now destruct (lookup_param value dc k). Qed.

Lemma useds_replace : forall l, useds value dc' l = useds value dc l.
Proof. intro l. unfold ValidateRef.useds, usedk. apply flat_map_ext. intro kv. now rewrite declared_replace. Qed.

Lemma unused_replace : forall used, unused_params value dc' used = map G (unused_params value dc used).
Proof.
  intro used. unfold ValidateRef.unused_params, dc', replace_ext. cbn [d_params]. fold G.
  induction (d_params dc) as [|p l IH]; [reflexivity|]. cbn [map filter]. rewrite G_name.
  destruct (negb (mem (p_name p) used)); cbn [map]; now rewrite IH.
Qed.

Lemma flask_replace : flask_m value env dc' = flask_m value env dc.
Proof.
  unfold flask_m. cbn [dc' replace_ext d_strict].
  replace (all_flask_json value dc') with (all_flask_json value dc).
  2:{ unfold all_flask_json. fold dc'.
      replace (d_params dc') with (map G (d_params dc)) by reflexivity. rewrite forallb_map_pv.
      apply forallb_ext_pv. intro p. rewrite G_name, lookup_replace.
      destruct (lookup_param value dc (p_name p)) as [q|]; [|reflexivity]. cbn [option_map].
      unfold G. now destruct (Nat.eqb (p_name q) n). }
  destruct (d_strict dc && w_flask_installed env); [|reflexivity].
  destruct (all_flask_json value dc); [|reflexivity]. destruct (w_request env) as [rq|]; [|reflexivity].
  replace (existsb (fun k => negb (declared value dc' k)) (r_json_keys rq))
    with (existsb (fun k => negb (declared value dc k)) (r_json_keys rq)); [reflexivity|].
  apply existsb_ext_in. intros k _. now rewrite declared_replace.
Qed.

Lemma mbind_ext_ok : forall A B (m : M A) (f g : A -> M B), (forall a, snd m = WOk a -> f a = g a) -> mbind m f = mbind m g.
Proof. intros A B [j [a|x pn]] f g H; simpl; [now rewrite (H a eq_refl) | reflexivity]. Qed.

(* a value supplied by the caller for n: the external source of n is never consulted *)
Theorem external_unused_when_supplied : forall is_async c w,
  caller_gives value sg dc c n w -> declared value dc n = true -> vrun dc' is_async c = vrun dc is_async c.
Proof.
  intros is_async c w Gv D. rewrite !run_ref_nv. cbn [dc' replace_ext d_mode].
  assert (E : wc_ref dc' c = wc_ref dc c); [|now rewrite E].
  destruct (arrival dc c) as [xs|] eqn:A.
  - assert (A' : arrival dc' c = Some xs) by exact A.
    rewrite (wc_ref_arrival _ _ _ _ _ _ _ A), (wc_ref_arrival _ _ _ _ _ _ _ A').
    assert (T : map (titem dc') xs = map (titem dc) xs).
    { apply map_ext. intros [t [k v]]. unfold ValidateGate.titem. cbn [fst snd]. now rewrite step_m_replace. }
    rewrite T. apply mbind_ext_ok. intros l12 S. apply seqm_ok in S.
    unfold ValidateRef.tail_m. rewrite useds_replace, unused_replace, flask_replace.
    replace (uitems (map G (unused_params value dc (useds value dc l12))))
      with (uitems (unused_params value dc (useds value dc l12))); [reflexivity|].
    unfold ValidateRef.uitems. rewrite map_map. apply map_ext_in. intros p Ip.
    rewrite G_name. f_equal. unfold G. destruct (Nat.eqb (p_name p) n) eqn:Q; [|reflexivity].
    exfalso. apply Nat.eqb_eq in Q. apply unused_In in Ip. destruct Ip as [_ Ip]. apply Ip, In_useds. rewrite Q.
    split; [|assumption]. destruct (gives_arrival _ _ _ NV _ _ _ _ A Gv) as [x [Ix Ex]].
    rewrite (item_ok_keys _ _ _ S), map_map. apply in_map_iff. exists x. split; [|assumption].
    unfold ValidateGate.titem. cbn [fst]. now rewrite Ex.
  - destruct Gv as [Ig Gv]. unfold ValidateGate.arrival in A. unfold ValidateRef.wc_ref. cbn [dc' replace_ext d_ignore_input].
    rewrite Ig in *. destruct (bind_partial value sg (c_args c)) as [[bound star]|e0]; [discriminate|].
    replace (aitems value is_none dc' false (c_kwargs c)) with (aitems value is_none dc false (c_kwargs c)); [reflexivity|].
    unfold aitems. apply map_ext. intro kw. now rewrite step_m_replace.
Qed.

End ReplaceExt.

(* ignore_input: what the caller passes is not looked at *)
Theorem ignore_input_ignores : forall dc is_async c,
  d_ignore_input dc = true -> vrun dc is_async c = vrun dc is_async {| c_args := []; c_kwargs := [] |}.
Proof.
  intros dc is_async c H. rewrite !run_ref_nv. unfold ValidateRef.wc_ref. now rewrite H.
Qed.

(* ---------- what the body sees for one name ---------- *)
Theorem body_binding : forall dc is_async c j b,
  self_guard value sg dc c = true ->
  vrun dc is_async c = (j, FBody b) ->
  exists r, snd (wc_ref dc c) = WOk r /\ NoDup (keys r) /\
            forall n, dget n b = bound_val value sg (norm (d_mode dc) r) n.
Proof.
  intros dc is_async c j b G H. destruct (run_body_inv _ _ _ _ _ NV _ _ _ _ H) as [r [W O]].
  exists r. assert (ND := result_nodup _ _ _ _ _ _ _ W). repeat split; try assumption.
  rewrite observe_normal in O by eauto using result_self_ok.
  destruct (pyb value sg (norm (d_mode dc) r)) as [b'|x] eqn:P; [|discriminate].
  cbn in O. injection O as ->. now apply pyb_dget.
Qed.

Lemma bound_val_some : forall (r : dict) n v, dget n r = Some v -> bound_val value sg r n = Some v.
Proof. intros r n v H. unfold bound_val. rewrite H. now destruct (find_sp value sg n). Qed.

Lemma dget_norm_keep : forall mode (r : dict) n v, NoDup (keys r) -> dget n r = Some v ->
  (mode <> KWARGS_WITHOUT_NONE \/ is_none v = false) -> dget n (norm mode r) = Some v.
Proof.
  intros mode r n v ND H K. destruct mode; try assumption. cbn [ValidateBind.norm]. rewrite dget_notnone, H by assumption.
  destruct K as [K|K]; [congruence | now rewrite K].
Qed.

(* a declared Parameter the caller does not supply: the value stored by the unused-parameter loop reaches the body *)
Theorem missing_reaches_body : forall dc is_async c j b p v,
  self_guard value sg dc c = true ->
  NoDup (map (@p_name value) (d_params dc)) ->
  vrun dc is_async c = (j, FBody b) ->
  In p (d_params dc) -> (forall w, ~ caller_gives value sg dc c (p_name p) w) ->
  snd (u_m p) = WOk v -> (d_mode dc <> KWARGS_WITHOUT_NONE \/ is_none v = false) ->
  dget (p_name p) b = Some v.
Proof.
  intros dc is_async c j b p v G ND H I Abs Hv K.
  destruct (body_binding _ _ _ _ _ G H) as (r & W & NDr & B). rewrite B.
  apply bound_val_some, dget_norm_keep; try assumption.
  eapply missing_result; eassumption.
Qed.


(* KWARGS_WITHOUT_NONE drops a None that came from the signature default; Python puts it back *)
Theorem missing_sig_default_reaches_body : forall dc is_async c j b p d,
  self_guard value sg dc c = true ->
  NoDup (map (@p_name value) (d_params dc)) ->
  vrun dc is_async c = (j, FBody b) ->
  In p (d_params dc) -> (forall w, ~ caller_gives value sg dc c (p_name p) w) ->
  snd (u_m p) = WOk d -> sig_default value sg (p_name p) = Some d ->
  dget (p_name p) b = Some d.
Proof.
  intros dc is_async c j b p d G ND H I Abs Hv Sd.
  destruct (body_binding _ _ _ _ _ G H) as (r & W & NDr & B). rewrite B.
  assert (R := missing_result _ _ _ _ _ NV _ _ _ _ ND W I Abs Hv).
  destruct (d_mode dc) eqn:Md; try (now apply bound_val_some).
  cbn [ValidateBind.norm]. destruct (is_none d) eqn:Nn.
  - unfold bound_val. rewrite dget_notnone, R, Nn by assumption. rewrite sig_default_find in Sd.
    destruct (find_sp value sg (p_name p)); [assumption | discriminate].
  - apply bound_val_some. rewrite dget_notnone, R, Nn by assumption. reflexivity.
Qed.

(* the default cascade of a Parameter that receives no value, as the body observes it *)
Theorem default_cascade : forall dc is_async c j b p,
  self_guard value sg dc c = true ->
  NoDup (map (@p_name value) (d_params dc)) ->
  vrun dc is_async c = (j, FBody b) ->
  In p (d_params dc) -> (forall w, ~ caller_gives value sg dc c (p_name p) w) -> no_external value p ->
  spec_required value p = false /\
  match p_default p with
  | Some d => (d_mode dc <> KWARGS_WITHOUT_NONE \/ is_none d = false) -> dget (p_name p) b = Some d
  | None => exists d, sig_default value sg (p_name p) = Some d /\ dget (p_name p) b = Some d
  end.
Proof.
  intros dc is_async c j b p G ND H I Abs NE.
  assert (C := missing_cascade value is_none sg p NE).
  destruct (spec_required value p) eqn:Rq.
  - exfalso. destruct (missing_value_no_body value is_none sg env dc NV is_async c p I Abs NE (or_introl Rq)) as [x [pn X]].
    rewrite H in X. discriminate.
  - split; [reflexivity|]. destruct (p_default p) as [d|] eqn:D.
    + intro K. eapply missing_reaches_body; try eassumption. now rewrite C.
    + destruct (sig_default value sg (p_name p)) as [d|] eqn:S.
      * exists d. split; [reflexivity|]. eapply missing_sig_default_reaches_body; try eassumption. now rewrite C.
      * exfalso. destruct (missing_value_no_body value is_none sg env dc NV is_async c p I Abs NE (or_intror (conj D S))) as [x [pn X]].
        rewrite H in X. discriminate.
Qed.

(* an external source supplies the value exactly when the caller did not *)
Theorem external_supplies_when_absent : forall dc is_async c j b p w v,
  self_guard value sg dc c = true ->
  NoDup (map (@p_name value) (d_params dc)) ->
  vrun dc is_async c = (j, FBody b) ->
  In p (d_params dc) -> (forall w', ~ caller_gives value sg dc c (p_name p) w') ->
  external_gives value p w -> spec_param value is_none p w = VPass v ->
  (d_mode dc <> KWARGS_WITHOUT_NONE \/ is_none v = false) ->
  dget (p_name p) b = Some v.
Proof.
  intros dc is_async c j b p w v G ND H I Abs [x [E [Has Ld]]] Sp K.
  eapply missing_reaches_body; try eassumption.
  unfold ValidateRef.u_m. rewrite E, Has, Ld, pv_spec, Sp. reflexivity.
Qed.

(* ---------- the call-style theorem with the hypotheses spelled out ---------- *)
Definition named_assignment (c : call value) : dict := c_kwargs c ++ combine (positional_names value sg) (c_args c).

Lemma arrival_some : forall dc c, d_ignore_input dc = false ->
  List.length (c_args c) <= List.length (pos_params value sg) ->
  exists xs, arrival dc c = Some xs /\ map snd xs = named_assignment c.
Proof.
  intros dc c Ig L. unfold ValidateGate.arrival, bind_partial. rewrite Ig, NV.
  replace (Nat.ltb (List.length (pos_params value sg)) (List.length (c_args c))) with false
    by (symmetry; now apply Nat.ltb_ge).
  eexists. split; [reflexivity|]. rewrite map_app, !map_map. cbn [snd]. now rewrite !map_id.
Qed.

Theorem call_style_invariant' : forall dc is_async c c',
  d_ignore_input dc = false ->
  List.length (c_args c) <= List.length (pos_params value sg) ->
  List.length (c_args c') <= List.length (pos_params value sg) ->
  Permutation (named_assignment c) (named_assignment c') -> NoDup (keys (named_assignment c)) ->
  self_guard value sg dc c = true -> self_guard value sg dc c' = true ->
  final_equiv (snd (vrun dc is_async c)) (snd (vrun dc is_async c')).
Proof.
  intros dc is_async c c' Ig L L' P ND G G'.
  destruct (arrival_some dc c Ig L) as [xs [A E]]. destruct (arrival_some dc c' Ig L') as [xs' [A' E']].
  eapply call_style_invariant; try eassumption; now rewrite E, ?E'.
Qed.

(* a value the caller passes reaches the body: through the chain of its Parameter if one is declared for the name,
   unchanged otherwise (the names of one call being pairwise distinct) *)
Theorem supplied_reaches_body : forall dc is_async c j b n w,
  d_ignore_input dc = false -> List.length (c_args c) <= List.length (pos_params value sg) ->
  NoDup (keys (named_assignment c)) -> self_guard value sg dc c = true ->
  vrun dc is_async c = (j, FBody b) -> In (n, w) (named_assignment c) ->
  match lookup_param value dc n with
  | Some p => forall v, spec_param value is_none p w = VPass v ->
              (d_mode dc <> KWARGS_WITHOUT_NONE \/ is_none v = false) -> dget n b = Some v
  | None => (d_mode dc <> KWARGS_WITHOUT_NONE \/ is_none w = false) -> dget n b = Some w
  end.
Proof.
  intros dc is_async c j b n w Ig L ND G H I.
  destruct (arrival_some dc c Ig L) as [xs [A E]].
  destruct (body_binding _ _ _ _ _ G H) as (r & W & NDr & B).
  assert (exists x, In x xs /\ snd x = (n, w)) as [x [Ix Ex]].
  { rewrite <- E in I. apply in_map_iff in I. destruct I as [x [? ?]]. eauto. }
  assert (NDx : NoDup (map (fun y : tagged value => fst (snd y)) xs)).
  { assert (E2 : map (fun y : tagged value => fst (snd y)) xs = keys (map snd xs)) by (unfold keys; now rewrite map_map).
    now rewrite E2, E. }
  destruct (supplied_result _ _ _ _ _ _ _ _ _ W A NDx Ix) as [v' [Hv Dv]]. rewrite Ex in Dv. cbn [fst snd] in Dv.
  unfold ValidateGate.titem in Hv. rewrite Ex in Hv. cbn [fst snd] in Hv. unfold ValidateRef.step_m in Hv.
  destruct (lookup_param value dc n) as [p|].
  - intros v Sp K. rewrite pv_spec, Sp in Hv. cbn in Hv. injection Hv as <-.
    rewrite B. now apply bound_val_some, dget_norm_keep.
  - intro K. unfold undeclared_m in Hv. destruct (d_strict dc && _); [discriminate|]. cbn in Hv. injection Hv as <-.
    rewrite B. now apply bound_val_some, dget_norm_keep.
Qed.

End ByName.
