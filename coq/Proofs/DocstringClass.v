(* C19 - classes (Model/DocstringClass.v): the decorators reach the own function objects, each with its own docstring. *)
From Coq Require Import List Bool String.
From PV Require Import Base.Exn Model.DocstringTyping Model.Docstring Model.DocstringClass Spec.DocstringSpec
  Proofs.DocstringMain.
Import ListNotations.
Open Scope string_scope.
Open Scope list_scope.

Lemma meth_case_mkfc : forall req m, meth_case req m = mkfc req true (m_ann m) (m_doc m).
Proof. reflexivity. Qed.

Lemma resolve_own : forall own parent n m, find_meth n own = Some m -> resolve (Klass own parent) n = Some m.
Proof. intros own parent n m H. cbn [resolve]. now rewrite H. Qed.

Lemma resolve_inherited : forall own p n, find_meth n own = None -> resolve (Klass own (Some p)) n = resolve p n.
Proof. intros own p n H. cbn [resolve]. now rewrite H. Qed.

Lemma decorate_attr_own : forall prog req own parent n m, find_meth n own = Some m ->
  decorate_attr prog req (Klass own parent) n = decorate prog (mkfc req true (m_ann m) (m_doc m)).
Proof. intros prog req own parent n m H. unfold decorate_attr. now rewrite (resolve_own _ _ _ _ H). Qed.

Lemma decorate_class_Ok : forall prog own parent,
  decorate_class prog (Klass own parent) = Ok tt <->
  forall m, In m own -> decorate prog (mkfc true true (m_ann m) (m_doc m)) = Ok tt.
Proof.
  intros prog own parent. unfold decorate_class. cbn [k_own]. rewrite decorate_all_Ok. split.
  - intros H m Hm. rewrite <- meth_case_mkfc. apply H. now apply in_map.
  - intros H c Hc. apply in_map_iff in Hc as [m [E Hm]]. subst c. rewrite meth_case_mkfc. now apply H.
Qed.

Lemma decorate_class_first : forall prog l1 m l2 parent e,
  (forall x, In x l1 -> decorate prog (mkfc true true (m_ann x) (m_doc x)) = Ok tt) ->
  decorate prog (mkfc true true (m_ann m) (m_doc m)) = Raise e ->
  decorate_class prog (Klass (l1 ++ m :: l2) parent) = Raise e.
Proof.
  intros prog l1 m l2 parent e H1 H2. unfold decorate_class. cbn [k_own]. rewrite map_app. cbn [map].
  apply decorate_all_first.
  - intros x Hx. apply in_map_iff in Hx as [y [E Hy]]. subst x. rewrite meth_case_mkfc. now apply H1.
  - now rewrite meth_case_mkfc.
Qed.
