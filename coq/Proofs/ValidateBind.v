(* The call conventions of wrapper / async_wrapper followed by Python's argument binding, for the reference
   configuration: the body's binding is a function (`pyb`) of the result dictionary alone - the same for all three
   conventions - and depends on it only name by name. *)
From Coq Require Import List Arith Bool Permutation Lia.
From PV Require Import Base.Exn Model.ValidateSem Spec.ValidateSpec Proofs.ValidateDict Proofs.ValidateRef.
Import ListNotations.

Section Bind.
Variable value : Type.
Variable is_none : value -> bool.
Variable sg : signature value.
Hypothesis NV : s_varpos sg = false.      (* functions without *args *)

Notation dict := (dict value).
Notation rcfg := reference_cfg.
Notation rr := reference_req_rule.

Definition notnone (kv : name * value) : bool := negb (is_none (snd kv)).

Definition norm (mode : return_as) (r : dict) : dict :=
  match mode with KWARGS_WITHOUT_NONE => filter notnone r | _ => r end.

Definition conv_m (mode : return_as) (r : dict) : list value * dict :=
  let r' := norm mode r in
  match dget self_name r' with
  | Some v => ([v], dremove self_name r')
  | None => match mode with ARGS => take_prefix value (s_params sg) r' | _ => ([], r') end
  end.

Lemma conv_ref : forall (dc : deco value) is_async r,
  conv_run value is_none rcfg sg (conv_steps value rcfg dc is_async) r = Some (conv_m (d_mode dc) r).
Proof.
  intros dc is_async r. unfold conv_steps, conv_m, norm.
  destruct is_async, (d_mode dc); cbn [reference_cfg cv_sync cv_async reference_conv cv_args cv_kw_with_none cv_kw_without_none conv_run];
    fold notnone;
    try (destruct (dget self_name r); [reflexivity|]);
    try (destruct (dget self_name (filter notnone r)); reflexivity);
    try reflexivity;
    unfold as_args; rewrite NV; cbn [reference_cfg aa_arrival_on_unknown_key aa_signature_order negb];
    rewrite andb_false_r; reflexivity.
Qed.

(* what the body observes, given the dictionary _wrapper_content returned *)
Definition observe (mode : return_as) (r : dict) : final value :=
  let (pos, kw) := conv_m mode r in
  match py_bind value sg pos kw with Ok b => FBody b | Raise e => FRaise e None end.

Theorem run_ref : forall env (dc : deco value) is_async c,
  run value is_none rcfg rr sg env dc is_async c =
  (fst (wc_ref value is_none sg env dc c),
   match snd (wc_ref value is_none sg env dc c) with
   | WOk r => observe (d_mode dc) r
   | WRaise e pn => FRaise e pn
   end).
Proof.
  intros. unfold run. rewrite (wrapper_content_ref value is_none sg env dc NV).
  destruct (wc_ref value is_none sg env dc c) as [j [r|e pn]]; cbn [fst snd]; [|reflexivity].
  rewrite conv_ref. unfold observe. destruct (conv_m (d_mode dc) r) as [pos kw].
  destruct (py_bind value sg pos kw); [now rewrite NV | reflexivity].
Qed.

(* ---------- Python's binding as a function of the named values ---------- *)
Definition extras (r : dict) : dict := filter (fun kv => negb (sig_has value sg (fst kv))) r.

Definition pyb (r : dict) : outcome dict :=
  if negb (s_varkw sg) && unknown_key value sg r then Raise TypeErrorC
  else match fill value (s_params sg) r with
       | None => Raise TypeErrorC
       | Some b => Ok (b ++ extras r)
       end.

Definition of_outcome (o : outcome dict) : final value :=
  match o with Ok b => FBody b | Raise e => FRaise e None end.

Lemma fill_ext : forall ps (d d' : dict), deq d d' -> fill value ps d = fill value ps d'.
Proof.
  induction ps as [|sp ps IH]; intros d d' E; simpl; [reflexivity|].
  rewrite (E (sp_name sp)), (IH d d' E). reflexivity.
Qed.

Lemma filter_filter : forall A (f g : A -> bool) l, filter f (filter g l) = filter (fun x => g x && f x) l.
Proof.
  induction l as [|x l IH]; simpl; [reflexivity|].
  destruct (g x); simpl; [destruct (f x); now rewrite IH | assumption].
Qed.

Lemma existsb_filter : forall A (f g : A -> bool) l, existsb f (filter g l) = existsb (fun x => g x && f x) l.
Proof.
  induction l as [|x l IH]; simpl; [reflexivity|].
  destruct (g x); simpl; now rewrite IH.
Qed.

Lemma existsb_ext_in : forall A (f g : A -> bool) l, (forall x, In x l -> f x = g x) -> existsb f l = existsb g l.
Proof.
  induction l as [|x l IH]; simpl; intro H; [reflexivity|].
  rewrite H by now left. rewrite IH; [reflexivity|]. intros; apply H; now right.
Qed.

Lemma filter_true : forall A (f : A -> bool) l, (forall x, In x l -> f x = true) -> filter f l = l.
Proof.
  induction l as [|x l IH]; simpl; intro H; [reflexivity|].
  rewrite H by now left. f_equal. apply IH. intros; apply H; now right.
Qed.

(* (pos, kw) distributes the named values r over positional arguments and keywords *)
Definition splits (r : dict) (pos : list value) (kw : dict) : Prop :=
  let asg := combine (map (@sp_name value) (pos_params value sg)) pos in
  List.length pos <= List.length (pos_params value sg) /\
  deq (asg ++ kw) r /\
  (forall n, dmem n asg = true -> dget n kw = None /\ sig_has value sg n = true) /\
  kw = filter (fun kv => negb (dmem (fst kv) asg)) r.

Lemma splits_bind : forall r pos kw, splits r pos kw -> py_bind value sg pos kw = pyb r.
Proof.
  intros r pos kw (Hlen & Heq & Hasg & Hkw). unfold py_bind, pyb. rewrite NV. cbn [negb andb].
  set (asg := combine (map (@sp_name value) (pos_params value sg)) pos) in *.
  replace (Nat.ltb (List.length (pos_params value sg)) (List.length pos)) with false
    by (symmetry; apply Nat.ltb_ge; assumption).
  assert (E1 : existsb (fun kv => dmem (fst kv) asg) kw = false).
  { destruct (existsb (fun kv => dmem (fst kv) asg) kw) eqn:E; [|reflexivity].
    apply existsb_exists in E. destruct E as [[k v] [I D]]. simpl in D.
    destruct (Hasg k D) as [N _]. apply dget_None_keys in N. exfalso. apply N.
    change k with (fst (k, v)). now apply in_map. }
  rewrite E1.
  assert (PQ : forall kv, In kv r -> negb (dmem (fst kv) asg) && negb (sig_has value sg (fst kv)) = negb (sig_has value sg (fst kv))).
  { intros [k v] _. simpl. destruct (dmem k asg) eqn:D; [|reflexivity].
    destruct (Hasg k D) as [_ S]. now rewrite S. }
  assert (E2 : unknown_key value sg kw = unknown_key value sg r).
  { unfold unknown_key. rewrite Hkw, existsb_filter. now apply existsb_ext_in. }
  rewrite E2. destruct (negb (s_varkw sg) && unknown_key value sg r); [reflexivity|].
  rewrite (fill_ext _ _ _ Heq). destruct (fill value (s_params sg) r); [|reflexivity].
  do 2 f_equal. unfold extras. rewrite Hkw, filter_filter. now apply filter_ext_in.
Qed.

Lemma splits_kw : forall r, splits r [] r.
Proof.
  intro r. unfold splits. rewrite combine_nil. cbn [app List.length]. repeat split.
  - lia.
  - discriminate.
  - discriminate.
  - symmetry. apply filter_true. reflexivity.
Qed.

Lemma splits_self : forall r v sp rest,
  NoDup (keys r) -> dget self_name r = Some v ->
  pos_params value sg = sp :: rest -> sp_name sp = self_name ->
  splits r [v] (dremove self_name r).
Proof.
  intros r v sp rest ND G PP SN. unfold splits. rewrite PP. cbn [map combine List.length]. rewrite SN, combine_nil.
  assert (SH : sig_has value sg self_name = true).
  { unfold sig_has. apply existsb_exists. exists sp. split; [|now apply Nat.eqb_eq].
    assert (I : In sp (pos_params value sg)) by (rewrite PP; now left).
    unfold pos_params in I. apply filter_In in I. tauto. }
  repeat split.
  - lia.
  - intro n. cbn [app dget]. rewrite dget_dremove by assumption.
    destruct (Nat.eqb self_name n) eqn:E; [|reflexivity]. apply Nat.eqb_eq in E. now subst.
  - unfold dmem in H. cbn [dget] in H. destruct (Nat.eqb self_name n) eqn:E; [|discriminate].
    apply Nat.eqb_eq in E. subst. rewrite dget_dremove by assumption. now rewrite Nat.eqb_refl.
  - unfold dmem in H. cbn [dget] in H. destruct (Nat.eqb self_name n) eqn:E; [|discriminate].
    apply Nat.eqb_eq in E. now subst.
  - rewrite dremove_filter by assumption. apply filter_ext. intros [k w]. unfold dmem. cbn [dget fst].
    now destruct (Nat.eqb self_name k).
Qed.

Definition nonkw (sp : sigparam value) : bool := negb (sp_kwonly sp).

Lemma take_prefix_spec : forall ps r pos kw,
  NoDup (keys r) -> take_prefix value ps r = (pos, kw) ->
  let asg := combine (map (@sp_name value) (filter nonkw ps)) pos in
  List.length pos <= List.length (filter nonkw ps) /\
  deq (asg ++ kw) r /\
  (forall n, dmem n asg = true -> dget n kw = None /\ In n (map (@sp_name value) ps)) /\
  kw = filter (fun kv => negb (dmem (fst kv) asg)) r.
Proof.
  assert (Base : forall ps (r : dict),
    let asg := combine (map (@sp_name value) (filter nonkw ps)) (@nil value) in
    List.length (@nil value) <= List.length (filter nonkw ps) /\
    deq (asg ++ r) r /\
    (forall n, dmem n asg = true -> dget n r = None /\ In n (map (@sp_name value) ps)) /\
    r = filter (fun kv => negb (dmem (fst kv) asg)) r).
  { intros ps r. rewrite combine_nil. cbn [app List.length]. repeat split; try discriminate; try lia.
    symmetry. apply filter_true. reflexivity. }
  induction ps as [|sp ps IH]; intros r pos kw ND H.
  - simpl in H. injection H as <- <-. apply Base.
  - cbn [take_prefix] in H. destruct (sp_kwonly sp) eqn:K.
    + injection H as <- <-. apply Base.
    + destruct (dget (sp_name sp) r) as [v|] eqn:G.
      * destruct (take_prefix value ps (dremove (sp_name sp) r)) as [pos' kw'] eqn:T.
        injection H as <- <-.
        assert (ND' : NoDup (keys (dremove (sp_name sp) r))).
        { rewrite dremove_filter by assumption. now apply nodup_filter_keys. }
        destruct (IH _ _ _ ND' T) as (L & E & A & F).
        assert (NK : nonkw sp = true) by (unfold nonkw; now rewrite K).
        cbv zeta in *. cbn [filter]. rewrite NK. cbn [map combine List.length].
        set (asg' := combine (map (@sp_name value) (filter nonkw ps)) pos') in *.
        repeat split.
        -- lia.
        -- intro n. cbn [app dget]. destruct (Nat.eqb (sp_name sp) n) eqn:Q.
           ++ apply Nat.eqb_eq in Q. now subst.
           ++ rewrite (E n), dget_dremove by assumption. now rewrite Q.
        -- unfold dmem in H. cbn [dget] in H. destruct (Nat.eqb (sp_name sp) n) eqn:Q.
           ++ apply Nat.eqb_eq in Q. subst n.
              assert (X := E (sp_name sp)). rewrite dget_dremove, Nat.eqb_refl, dget_app in X by assumption.
              destruct (dget (sp_name sp) asg'); [discriminate | assumption].
           ++ apply A. exact H.
        -- unfold dmem in H. cbn [dget] in H. destruct (Nat.eqb (sp_name sp) n) eqn:Q.
           ++ apply Nat.eqb_eq in Q. subst n. now left.
           ++ right. apply A. exact H.
        -- rewrite F, dremove_filter, filter_filter by assumption. apply filter_ext.
           intros [k w]. unfold dmem. cbn [dget fst]. now destruct (Nat.eqb (sp_name sp) k).
      * injection H as <- <-. apply Base.
Qed.

Lemma splits_prefix : forall r pos kw,
  NoDup (keys r) -> take_prefix value (s_params sg) r = (pos, kw) -> splits r pos kw.
Proof.
  intros r pos kw ND T. destruct (take_prefix_spec _ _ _ _ ND T) as (L & E & A & F).
  unfold splits. fold (pos_params value sg) in *. unfold pos_params. fold nonkw.
  repeat split; try assumption.
  - apply A. assumption.
  - destruct (A n H) as [_ I]. unfold sig_has. apply existsb_exists.
    apply in_map_iff in I. destruct I as [sp [<- I]]. exists sp. split; [assumption | apply Nat.eqb_refl].
Qed.

(* the first positional parameter is `self` whenever the dictionary carries that name *)
Definition self_ok (r : dict) : Prop :=
  dmem self_name r = true -> exists sp rest, pos_params value sg = sp :: rest /\ sp_name sp = self_name.

Lemma nodup_norm : forall mode r, NoDup (keys r) -> NoDup (keys (norm mode r)).
Proof. intros [] r H; simpl; try assumption. now apply nodup_filter_keys. Qed.

Lemma dmem_norm : forall mode n r, dmem n (norm mode r) = true -> dmem n r = true.
Proof.
  intros [] n r H; simpl in H; try assumption. apply dmem_keys in H. apply keys_filter_incl in H. now apply dmem_keys.
Qed.

Theorem observe_normal : forall mode r,
  NoDup (keys r) -> self_ok r -> observe mode r = of_outcome (pyb (norm mode r)).
Proof.
  intros mode r ND SO. unfold observe, conv_m.
  assert (ND' := nodup_norm mode r ND).
  destruct (dget self_name (norm mode r)) as [v|] eqn:G.
  - destruct SO as (sp & rest & PP & SN).
    { apply (dmem_norm mode). unfold dmem. now rewrite G. }
    now rewrite (splits_bind _ _ _ (splits_self _ _ _ _ ND' G PP SN)).
  - destruct mode.
    + cbn [norm] in *.
      destruct (take_prefix value (s_params sg) r) as [pos kw] eqn:T.
      now rewrite (splits_bind _ _ _ (splits_prefix _ _ _ ND T)).
    + now rewrite (splits_bind _ _ _ (splits_kw _)).
    + now rewrite (splits_bind _ _ _ (splits_kw _)).
Qed.

(* ---------- the binding, name by name ---------- *)
Definition find_sp (n : name) := find (fun sp : sigparam value => Nat.eqb (sp_name sp) n) (s_params sg).

Definition bound_val (r : dict) (n : name) : option value :=
  match find_sp n with
  | Some sp => match dget n r with Some v => Some v | None => sp_default sp end
  | None => dget n r
  end.

Lemma fill_dget : forall ps (d b : dict) n, fill value ps d = Some b ->
  dget n b = match find (fun sp : sigparam value => Nat.eqb (sp_name sp) n) ps with
             | Some sp => match dget n d with Some v => Some v | None => sp_default sp end
             | None => None
             end.
Proof.
  induction ps as [|sp ps IH]; intros d b n H; simpl in H.
  - injection H as <-. reflexivity.
  - destruct (match dget (sp_name sp) d with Some v => Some v | None => sp_default sp end) as [v|] eqn:V; [|discriminate].
    destruct (fill value ps d) as [b'|] eqn:F; [|discriminate]. injection H as <-.
    cbn [dget find]. destruct (Nat.eqb (sp_name sp) n) eqn:Q.
    + apply Nat.eqb_eq in Q. subst n. now rewrite V.
    + now apply IH.
Qed.

Lemma sig_has_find : forall n, sig_has value sg n = match find_sp n with Some _ => true | None => false end.
Proof.
  intro n. unfold sig_has, find_sp. destruct (find _ (s_params sg)) eqn:F.
  - apply find_some in F. apply existsb_exists. eauto.
  - destruct (existsb _ (s_params sg)) eqn:E; [|reflexivity].
    apply existsb_exists in E. destruct E as [sp [I E]]. now rewrite (find_none _ _ F sp I) in E.
Qed.

Lemma pyb_dget : forall r b, pyb r = Ok b -> forall n, dget n b = bound_val r n.
Proof.
  intros r b H n. unfold pyb in H. destruct (negb (s_varkw sg) && unknown_key value sg r); [discriminate|].
  destruct (fill value (s_params sg) r) as [b0|] eqn:F; [|discriminate]. injection H as <-.
  rewrite dget_app, (fill_dget _ _ _ n F). unfold bound_val, extras. fold (find_sp n).
  rewrite (dget_filter_key value (fun k => negb (sig_has value sg k))), sig_has_find.
  destruct (find_sp n) as [sp|]; cbn [negb].
  - destruct (dget n r); [reflexivity|]. now destruct (sp_default sp).
  - reflexivity.
Qed.

Lemma bound_val_ext : forall r r' n, deq r r' -> bound_val r n = bound_val r' n.
Proof. intros r r' n E. unfold bound_val. now rewrite (E n). Qed.

Definition final_equiv (f1 f2 : final value) : Prop :=
  match f1, f2 with
  | FBody b1, FBody b2 => deq b1 b2
  | FBodyStar b1 s1, FBodyStar b2 s2 => deq b1 b2 /\ s1 = s2
  | FRaise _ _, FRaise _ _ => True
  | FNoCall, FNoCall => True
  | _, _ => False
  end.

Lemma final_equiv_refl : forall f, final_equiv f f.
Proof. intros [b|b st|e pn|]; simpl; auto using deq_refl. Qed.

Lemma pyb_ext : forall r r', deq r r' -> final_equiv (of_outcome (pyb r)) (of_outcome (pyb r')).
Proof.
  intros r r' E.
  destruct (pyb r) as [b|e] eqn:P; destruct (pyb r') as [b'|e'] eqn:P'; simpl; auto.
  - intro n. rewrite (pyb_dget _ _ P), (pyb_dget _ _ P'). now apply bound_val_ext.
  - unfold pyb in P, P'. unfold unknown_key in *.
    rewrite (existsb_deq value (fun k => negb (sig_has value sg k)) _ _ E), (fill_ext _ _ _ E) in P.
    destruct (negb (s_varkw sg) && _); [discriminate|]. destruct (fill value (s_params sg) r'); discriminate.
  - unfold pyb in P, P'. unfold unknown_key in *.
    rewrite (existsb_deq value (fun k => negb (sig_has value sg k)) _ _ E), (fill_ext _ _ _ E) in P.
    destruct (negb (s_varkw sg) && _); [discriminate|]. destruct (fill value (s_params sg) r'); discriminate.
Qed.

Lemma deq_norm : forall mode r r', NoDup (keys r) -> NoDup (keys r') -> deq r r' -> deq (norm mode r) (norm mode r').
Proof.
  intros [] r r' ND ND' E; simpl; try assumption.
  intro n. unfold notnone.
  rewrite (dget_filter_val value (fun v => negb (is_none v)) n r ND),
          (dget_filter_val value (fun v => negb (is_none v)) n r' ND'). now rewrite (E n).
Qed.

End Bind.
