(* "keyword call" implies that the code's own keyword-only test passes, for decoration with the @ syntax.  *)
From Coq Require Import List Arith Bool String Lia.
From PV Require Import Base.Exn Base.Values Base.PyCall Model.PedanticCfg Model.Pedantic Proofs.PedanticBase Model.WrapperKw.
Import ListNotations.
Open Scope list_scope.

Section Kw.
  Variable pc : pedantic_cfg.
  Hypothesis good : pc_good pc = true.

  Lemma wargs_arity : forall n, wargs (call_of_arity n) = repeat Values.VNone n.
  Proof. intros. reflexivity. Qed.

  Lemma strip_of_ref : forall s, strip_of pc s = if strips_first pc (fn_of_shape s) then 1 else 0.
  Proof. intros s. unfold strip_of. now rewrite (gf_from pc (good_inv pc good)). Qed.

  (* at most the stripped receiver is passed positionally: the test passes *)
  Lemma kw_test_none : forall s a k, List.length a <= strip_of pc s -> kw_test_of pc s a k = None.
  Proof.
    intros s a k H. unfold kw_test_of. rewrite (assert_uses_kwargs_ref pc good), (args_without_self_ref pc good), wargs_arity.
    rewrite strip_of_ref in H.
    destruct (strips_first pc (fn_of_shape s)).
    - destruct (List.length a) as [|[|n]]; cbn; try lia; now rewrite andb_false_r.
    - destruct (List.length a); cbn; try lia. now rewrite andb_false_r.
  Qed.

  (* more than that: it raises PedanticCallWithArgsException, unless the function is exempt *)
  Lemma kw_test_some : forall s a k,
    should_have_kwargs pc (fn_of_shape s) = true -> strip_of pc s < List.length a ->
    kw_test_of pc s a k = Some PCallWithArgsC.
  Proof.
    intros s a k Hs H. unfold kw_test_of. rewrite (assert_uses_kwargs_ref pc good), (args_without_self_ref pc good), wargs_arity, Hs.
    rewrite strip_of_ref in H.
    destruct (strips_first pc (fn_of_shape s)).
    - destruct (List.length a) as [|[|n]]; cbn; try lia; reflexivity.
    - destruct (List.length a); cbn; try lia; reflexivity.
  Qed.

  Lemma kw_test_exempt : forall s a k, should_have_kwargs pc (fn_of_shape s) = false -> kw_test_of pc s a k = None.
  Proof. intros s a k Hs. unfold kw_test_of. now rewrite (assert_uses_kwargs_ref pc good), Hs. Qed.

  (* decoration with the @ syntax: the text '@require_kwargs' is in the source.  The receiver is not counted when
     require_kwargs sits directly on a method whose first parameter is called self, or when at least two decorator
     lines precede the def *)
  Lemma strip_at_syntax : forall s,
    ks_rk_text s = true -> ks_first_self s = true \/ 2 <= ks_n_at s -> strip_of pc s = 1.
  Proof.
    intros s Ht H. rewrite strip_of_ref, (strips_first_ref pc good), (uses_multiple_ref pc good).
    unfold is_instance_method, fn_of_shape; cbn. rewrite Ht.
    destruct H as [H|H].
    - rewrite H. reflexivity.
    - destruct (ks_n_at s) as [|[|m]]; try lia. cbn. now rewrite orb_true_r.
  Qed.

  (* applied by call on top of another wrapper: no decorator line in the source, the wrapper shows no self *)
  Lemma strip_by_call : forall s,
    ks_first_self s = false -> ks_staticmethod s = false -> ks_rk_text s = false -> ks_n_at s = 0 -> strip_of pc s = 0.
  Proof.
    intros s H1 H2 H3 H4. rewrite strip_of_ref, (strips_first_ref pc good), (uses_multiple_ref pc good).
    unfold is_instance_method, is_static_method, fn_of_shape; cbn. now rewrite H1, H2, H3, H4.
  Qed.
End Kw.
