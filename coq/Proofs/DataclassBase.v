(* Generic lemmas about the dataclass model: association lists, field collection, the state monad,
   heap growth.  Independent of the decorator program. *)
From Coq Require Import List ZArith Bool Arith Lia.
From PV Require Import Base.Exn Model.Dataclass Spec.DataclassSpec.
Import ListNotations.

(* ---------------------------------------------------------------- lookup / dict *)
Lemma lookup_app : forall B (a b : list (name * B)) n,
  lookup (a ++ b) n = match lookup a n with Some v => Some v | None => lookup b n end.
Proof.
  unfold lookup. induction a as [|[k v] a IH]; intros; simpl; [reflexivity|].
  destruct (Nat.eqb k n); [reflexivity|apply IH].
Qed.

Lemma lookup_none_notin : forall B (l : list (name * B)) n, lookup l n = None <-> ~ In n (map fst l).
Proof.
  unfold lookup. induction l as [|[k v] l IH]; intros; simpl; [tauto|].
  destruct (Nat.eqb k n) eqn:E.
  - apply Nat.eqb_eq in E. split; [discriminate|]. intro H. exfalso. apply H. now left.
  - apply Nat.eqb_neq in E. rewrite IH. tauto.
Qed.

Lemma lookup_some_in : forall B (l : list (name * B)) n v, lookup l n = Some v -> In (n, v) l.
Proof.
  unfold lookup. induction l as [|[k w] l IH]; intros n v H; simpl in *; [discriminate|].
  destruct (Nat.eqb k n) eqn:E.
  - apply Nat.eqb_eq in E. inversion H. subst. now left.
  - right. now apply IH.
Qed.

Lemma mem_In : forall n l, mem n l = true <-> In n l.
Proof.
  unfold mem. intros. rewrite existsb_exists. split.
  - intros [x [H1 H2]]. apply Nat.eqb_eq in H2. now subst.
  - intro H. exists n. split; [assumption|apply Nat.eqb_refl].
Qed.

Lemma mem_false : forall n l, mem n l = false <-> ~ In n l.
Proof. intros. rewrite <- mem_In. destruct (mem n l); split; congruence. Qed.

Lemma lookup_dict_set : forall d k v n,
  lookup (dict_set d k v) n = if Nat.eqb k n then Some v else lookup d n.
Proof.
  unfold lookup. induction d as [|[k' v'] d IH]; intros; simpl.
  - destruct (Nat.eqb k n); reflexivity.
  - destruct (Nat.eqb k' k) eqn:E; simpl.
    + apply Nat.eqb_eq in E. subst. destruct (Nat.eqb k n); reflexivity.
    + rewrite IH. destruct (Nat.eqb k n) eqn:E2; [|reflexivity].
      apply Nat.eqb_eq in E2. subst. now rewrite E.
Qed.

Lemma lookup_cons : forall B k (v : B) l n, lookup ((k, v) :: l) n = if Nat.eqb k n then Some v else lookup l n.
Proof. reflexivity. Qed.

Lemma lookup_dict_merge : forall kw cur n, NoDup (map fst kw) ->
  lookup (dict_merge cur kw) n = match lookup kw n with Some v => Some v | None => lookup cur n end.
Proof.
  unfold dict_merge. induction kw as [|[k v] kw IH]; intros cur n ND; simpl; [reflexivity|].
  simpl in ND. inversion ND as [|? ? Hnin ND']; subst. rewrite (IH _ _ ND'). rewrite lookup_dict_set.
  rewrite lookup_cons.
  destruct (Nat.eqb k n) eqn:E.
  - apply Nat.eqb_eq in E. subst. simpl in Hnin. apply lookup_none_notin in Hnin. now rewrite Hnin.
  - reflexivity.
Qed.

(* ---------------------------------------------------------------- fields along the MRO *)
Lemma upsert_names : forall fs f n,
  In n (map f_name (upsert fs f)) <-> n = f_name f \/ In n (map f_name fs).
Proof.
  induction fs as [|g fs IH]; intros; simpl.
  - intuition.
  - destruct (Nat.eqb (f_name g) (f_name f)) eqn:E; simpl.
    + apply Nat.eqb_eq in E. rewrite E. intuition.
    + rewrite IH. intuition.
Qed.

Lemma upsert_nodup : forall fs f, NoDup (map f_name fs) -> NoDup (map f_name (upsert fs f)).
Proof.
  induction fs as [|g fs IH]; intros f ND; simpl.
  - constructor; [intros []|constructor].
  - inversion ND as [|? ? Hn ND']; subst.
    destruct (Nat.eqb (f_name g) (f_name f)) eqn:E; simpl.
    + apply Nat.eqb_eq in E. rewrite <- E. now constructor.
    + constructor; [|now apply IH]. rewrite upsert_names. apply Nat.eqb_neq in E. intros [H|H]; congruence.
Qed.

Lemma merge_nodup : forall own base, NoDup (map f_name base) -> NoDup (map f_name (merge_fields base own)).
Proof.
  unfold merge_fields. induction own as [|f own IH]; intros base ND; simpl; [assumption|].
  apply IH. now apply upsert_nodup.
Qed.

Lemma merge_names : forall own base n,
  In n (map f_name (merge_fields base own)) <-> In n (map f_name base) \/ In n (map f_name own).
Proof.
  unfold merge_fields. induction own as [|f own IH]; intros; simpl; [tauto|].
  rewrite IH, upsert_names. intuition.
Qed.

Lemma dc_fields_nodup : forall C, NoDup (field_names C).
Proof.
  unfold field_names. induction C as [|L C IH]; simpl; [constructor|].
  destruct (decorated L); [now apply merge_nodup|assumption].
Qed.

Lemma nearest_deco_fields : forall C D, nearest_deco C = Some D -> dc_fields D = dc_fields C.
Proof.
  induction C as [|L C IH]; intros D H; simpl in *; [discriminate|].
  destruct (decorated L) eqn:E.
  - inversion H. subst. simpl. now rewrite E.
  - now apply IH.
Qed.

(* fields of the parent are fields of the decorated child (inheritance) *)
Lemma dc_fields_inherited : forall L rest n,
  decorated L = true -> In n (field_names rest) -> In n (field_names (L :: rest)).
Proof.
  unfold field_names. intros L rest n HL H. simpl. rewrite HL. apply merge_names. now left.
Qed.

(* ---------------------------------------------------------------- monad *)
Lemma bindM_assoc : forall A B C (m : M A) (f : A -> M B) (g : B -> M C) s,
  bindM (bindM m f) g s = bindM m (fun a => bindM (f a) g) s.
Proof. intros. unfold bindM. destruct (m s) as [s' [a|e]]; reflexivity. Qed.

Definition st_app (st : state) (ev : list event) : state := mkSt (s_heap st) (s_journal st ++ ev).

Lemma st_app_nil : forall st, st_app st [] = st.
Proof. intros [h j]. unfold st_app. simpl. now rewrite app_nil_r. Qed.
Lemma st_app_app : forall st a b, st_app (st_app st a) b = st_app st (a ++ b).
Proof. intros. unfold st_app. simpl. now rewrite app_assoc. Qed.

(* heap growth: nothing that exists is ever touched *)
Definition grows {A} (m : M A) : Prop :=
  forall st st' o, m st = (st', o) -> exists ext, s_heap st' = s_heap st ++ ext.
Definition quiet {A} (m : M A) : Prop :=
  forall st st' o, m st = (st', o) -> s_journal st' = s_journal st.

Lemma grows_ret : forall A (a : A), grows (ret a).
Proof. intros A a st st' o H. inversion H. exists []. now rewrite app_nil_r. Qed.
Lemma grows_raise : forall A e, grows (@raise A e).
Proof. intros A a st st' o H. inversion H. exists []. now rewrite app_nil_r. Qed.
Lemma grows_bind : forall A B (m : M A) (f : A -> M B), grows m -> (forall a, grows (f a)) -> grows (bindM m f).
Proof.
  intros A B m f Hm Hf st st' o H. unfold bindM in H. destruct (m st) as [s1 [a|e]] eqn:E.
  - destruct (Hm _ _ _ E) as [x Hx]. destruct (Hf a _ _ _ H) as [y Hy]. exists (x ++ y). now rewrite Hy, Hx, app_assoc.
  - inversion H. subst. eapply Hm. eassumption.
Qed.
Lemma grows_alloc : forall o, grows (alloc o).
Proof. intros o st st' r H. inversion H. simpl. now exists [o]. Qed.
Lemma grows_emit : forall e, grows (emit e).
Proof. intros e st st' r H. inversion H. simpl. exists []. now rewrite app_nil_r. Qed.
Lemma grows_getattrM : forall r n, grows (getattrM r n).
Proof. intros r n st st' o H. unfold getattrM in H. exists []. rewrite app_nil_r. destruct (getattr (s_heap st) r n); now inversion H. Qed.
Lemma grows_get_heap : grows get_heap.
Proof. intros st st' o H. inversion H. exists []. now rewrite app_nil_r. Qed.
Lemma grows_deepcopyM : forall v, grows (deepcopyM v).
Proof. intros v st st' o H. unfold deepcopyM, deepcopy in H. inversion H. simpl. eexists. reflexivity. Qed.

Lemma quiet_ret : forall A (a : A), quiet (ret a).
Proof. intros A a st st' o H. now inversion H. Qed.
Lemma quiet_raise : forall A e, quiet (@raise A e).
Proof. intros A a st st' o H. now inversion H. Qed.
Lemma quiet_bind : forall A B (m : M A) (f : A -> M B), quiet m -> (forall a, quiet (f a)) -> quiet (bindM m f).
Proof.
  intros A B m f Hm Hf st st' o H. unfold bindM in H. destruct (m st) as [s1 [a|e]] eqn:E.
  - rewrite (Hf a _ _ _ H). eapply Hm. eassumption.
  - inversion H. subst. eapply Hm. eassumption.
Qed.
Lemma quiet_alloc : forall o, quiet (alloc o).
Proof. intros o st st' r H. now inversion H. Qed.
Lemma quiet_getattrM : forall r n, quiet (getattrM r n).
Proof. intros r n st st' o H. unfold getattrM in H. destruct (getattr (s_heap st) r n); now inversion H. Qed.
Lemma quiet_deepcopyM : forall v, quiet (deepcopyM v).
Proof. intros v st st' o H. unfold deepcopyM, deepcopy in H. now inversion H. Qed.

Lemma grows_from_default : forall f, grows (from_default f).
Proof.
  intro f. unfold from_default. destruct (f_default f).
  - destruct (f_init f); [apply grows_raise|apply grows_ret].
  - apply grows_ret.
  - apply grows_bind; [apply grows_alloc|intro; apply grows_ret].
Qed.
Lemma quiet_from_default : forall f, quiet (from_default f).
Proof.
  intro f. unfold from_default. destruct (f_default f).
  - destruct (f_init f); [apply quiet_raise|apply quiet_ret].
  - apply quiet_ret.
  - apply quiet_bind; [apply quiet_alloc|intro; apply quiet_ret].
Qed.
Lemma grows_field_value : forall f kw, grows (field_value f kw).
Proof.
  intros. unfold field_value. destruct (f_init f); [destruct (lookup kw (f_name f)); [apply grows_ret|]|]; apply grows_from_default.
Qed.
Lemma quiet_field_value : forall f kw, quiet (field_value f kw).
Proof.
  intros. unfold field_value. destruct (f_init f); [destruct (lookup kw (f_name f)); [apply quiet_ret|]|]; apply quiet_from_default.
Qed.
Lemma grows_build_attrs : forall fs kw, grows (build_attrs fs kw).
Proof.
  induction fs as [|f fs IH]; intros; simpl; [apply grows_ret|].
  apply grows_bind; [apply grows_field_value|intro]. apply grows_bind; [apply IH|intro; apply grows_ret].
Qed.
Lemma quiet_build_attrs : forall fs kw, quiet (build_attrs fs kw).
Proof.
  induction fs as [|f fs IH]; intros; simpl; [apply quiet_ret|].
  apply quiet_bind; [apply quiet_field_value|intro]. apply quiet_bind; [apply IH|intro; apply quiet_ret].
Qed.
Lemma grows_candidate : forall C kw, grows (candidate C kw).
Proof.
  intros. unfold candidate. destruct (nearest_deco C); [|apply grows_raise].
  destruct (kw_unexpected _ _); [apply grows_raise|]. destruct (kw_missing _ _); [apply grows_raise|].
  apply grows_bind; [apply grows_build_attrs|intro; apply grows_alloc].
Qed.
Lemma quiet_candidate : forall C kw, quiet (candidate C kw).
Proof.
  intros. unfold candidate. destruct (nearest_deco C); [|apply quiet_raise].
  destruct (kw_unexpected _ _); [apply quiet_raise|]. destruct (kw_missing _ _); [apply quiet_raise|].
  apply quiet_bind; [apply quiet_build_attrs|intro; apply quiet_alloc].
Qed.

(* ---------------------------------------------------------------- getattr and growth *)
Lemma getattr_app : forall h ext r n, r < List.length h -> getattr (h ++ ext) r n = getattr h r n.
Proof. intros. unfold getattr. now rewrite nth_error_app1. Qed.
Lemma getattr_lt : forall h r n v, getattr h r n = Some v -> r < List.length h.
Proof.
  unfold getattr. intros h r n v H. destruct (nth_error h r) eqn:E; [|discriminate].
  apply nth_error_Some. congruence.
Qed.
Lemma getattr_new : forall h o n, getattr (h ++ [o]) (List.length h) n = lookup (o_attrs o) n.
Proof. intros. unfold getattr. rewrite nth_error_app2, Nat.sub_diag by lia. reflexivity. Qed.

(* ---------------------------------------------------------------- the generated __init__ *)
Lemma build_attrs_spec : forall fs kw st st' attrs,
  build_attrs fs kw st = (st', Ok attrs) -> NoDup (map f_name fs) ->
  (forall n, lookup attrs n <> None -> In n (map f_name fs)) /\
  forall f, In f fs ->
    (f_init f = true -> forall v, lookup kw (f_name f) = Some v -> lookup attrs (f_name f) = Some v) /\
    (f_init f || negb (is_dnone (f_default f)) = true -> lookup attrs (f_name f) <> None) /\
    (f_init f && is_some (lookup kw (f_name f)) = false -> forall v, f_default f = DVal v -> lookup attrs (f_name f) = Some v) /\
    (f_init f && is_some (lookup kw (f_name f)) = false -> forall k, f_default f = DFactory k ->
       exists q, lookup attrs (f_name f) = Some (VRef q) /\ List.length (s_heap st) <= q /\
                 nth_error (s_heap st') q = Some (mkObj k [] [])).
Proof.
  induction fs as [|f fs IH]; intros kw st st' attrs H ND.
  - simpl in H. inversion H. subst. split; [intros n Hn; now elim Hn|intros f []].
  - simpl in H. unfold bindM in H at 1.
    destruct (field_value f kw st) as [s1 [ov|e]] eqn:E1; [|discriminate].
    unfold bindM in H at 1.
    destruct (build_attrs fs kw s1) as [s2 [rest|e]] eqn:E2; [|discriminate].
    unfold ret in H. inversion H. subst st' attrs. clear H.
    simpl in ND. inversion ND as [|? ? Hnin ND']. subst.
    destruct (IH _ _ _ _ E2 ND') as [IHn IHf].
    destruct (grows_field_value _ _ _ _ _ E1) as [x1 Hx1].
    destruct (grows_build_attrs _ _ _ _ _ E2) as [x2 Hx2].
    assert (Hrest : lookup rest (f_name f) = None).
    { destruct (lookup rest (f_name f)) eqn:El; [|reflexivity]. exfalso. apply Hnin. apply IHn. congruence. }
    split.
    + intros n Hn. destruct ov as [v|].
      * rewrite lookup_cons in Hn. destruct (Nat.eqb (f_name f) n) eqn:En.
        -- apply Nat.eqb_eq in En. now left.
        -- right. now apply IHn.
      * right. now apply IHn.
    + intros g [Hg|Hg].
      * subst g. unfold field_value in E1.
        assert (Hhead : forall v, ov = Some v -> lookup (match ov with Some v => (f_name f, v) :: rest | None => rest end) (f_name f) = Some v).
        { intros v ->. rewrite lookup_cons. now rewrite Nat.eqb_refl. }
        repeat split.
        -- intros Hi v Hv. rewrite Hi, Hv in E1. inversion E1. subst. now apply Hhead.
        -- intro Hd. destruct ov as [v|]; [rewrite (Hhead v eq_refl); discriminate|]. exfalso.
           unfold from_default in E1.
           destruct (f_init f) eqn:Ei.
           ++ destruct (lookup kw (f_name f)); [inversion E1|].
              destruct (f_default f); [inversion E1|inversion E1|].
              unfold bindM, alloc, ret in E1. inversion E1.
           ++ destruct (f_default f); simpl in Hd; [discriminate|inversion E1|].
              unfold bindM, alloc, ret in E1. inversion E1.
        -- intros Hi v Hv. apply Hhead.
           destruct (f_init f); simpl in Hi.
           ++ destruct (lookup kw (f_name f)); [discriminate|]. unfold from_default in E1. rewrite Hv in E1. now inversion E1.
           ++ unfold from_default in E1. rewrite Hv in E1. now inversion E1.
        -- intros Hi k Hk.
           assert (E1' : from_default f st = (s1, Ok ov)).
           { destruct (f_init f); simpl in Hi; [destruct (lookup kw (f_name f)); [discriminate|]|]; assumption. }
           unfold from_default in E1'. rewrite Hk in E1'. unfold bindM, alloc, ret in E1'. inversion E1'. subst s1 ov.
           exists (List.length (s_heap st)). split; [now apply Hhead|]. split; [lia|].
           rewrite Hx2. simpl. rewrite nth_error_app1 by (rewrite app_length; simpl; lia).
           rewrite nth_error_app2, Nat.sub_diag by lia. reflexivity.
      * assert (Hne : Nat.eqb (f_name f) (f_name g) = false).
        { apply Nat.eqb_neq. intro Heq. apply Hnin. rewrite Heq. now apply in_map. }
        assert (Hl : lookup (match ov with Some v => (f_name f, v) :: rest | None => rest end) (f_name g) = lookup rest (f_name g)).
        { destruct ov; [rewrite lookup_cons, Hne|]; reflexivity. }
        rewrite Hl. destruct (IHf g Hg) as [A [B [C0 D0]]]. repeat split; try assumption.
        intros Hi k Hk. destruct (D0 Hi k Hk) as [q [Q1 [Q2 Q3]]]. exists q. repeat split; try assumption.
        rewrite Hx1 in Q2. rewrite app_length in Q2. lia.
Qed.

Lemma candidate_spec : forall C kw st st1 r,
  candidate C kw st = (st1, Ok r) ->
  exists D attrs ext,
    nearest_deco C = Some D /\
    build_attrs (dc_fields C) kw st = (mkSt (s_heap st ++ ext) (s_journal st), Ok attrs) /\
    s_heap st1 = (s_heap st ++ ext) ++ [mkObj (KData (class_id C)) [] attrs] /\
    r = List.length (s_heap st ++ ext) /\
    s_journal st1 = s_journal st /\
    kw_unexpected (dc_fields C) kw = false /\ kw_missing (dc_fields C) kw = false.
Proof.
  intros C kw st st1 r H. unfold candidate in H. destruct (nearest_deco C) as [D|] eqn:ED; [|inversion H].
  rewrite (nearest_deco_fields _ _ ED) in H.
  destruct (kw_unexpected _ _) eqn:E1; [inversion H|]. destruct (kw_missing _ _) eqn:E2; [inversion H|].
  unfold bindM in H. destruct (build_attrs (dc_fields C) kw st) as [s1 [attrs|e]] eqn:E3; [|inversion H].
  unfold alloc in H. inversion H. subst. clear H.
  destruct (grows_build_attrs _ _ _ _ _ E3) as [ext Hext].
  pose proof (quiet_build_attrs _ _ _ _ _ E3) as Hq.
  exists D, attrs, ext. rewrite <- Hext, <- Hq. simpl. destruct s1; simpl in *. repeat split; reflexivity.
Qed.
