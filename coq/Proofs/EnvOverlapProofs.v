From Coq Require Import List Bool String Arith Lia.
From PV Require Import Base.Exn Model.EnvSwitch Spec.EnvSpec Proofs.EnvProofs Model.EnvOverlap Spec.EnvOverlapSpec.
Import ListNotations.
Open Scope list_scope.

Section Overlap.
  Variable M : switch_model.
  Hypothesis G : good M = true.

  Lemma spec_env_after_track : forall e o, spec_env_after e o = track_env e o.
  Proof. intros e []; reflexivity. Qed.

  Lemma track_in_domain : forall e o, in_domain e = true -> op_in_domain o = true -> in_domain (track_env e o) = true.
  Proof. intros e [] He Ho; cbn [track_env]; auto. Qed.

  (* completing a decoration with the value e0 its guard saw *)
  Lemma decorate_at_obs : forall s d a e0, in_domain e0 = true ->
    snd (decorate_at M s d a e0) = ODeco (negb (spec_enabled e0)).
  Proof.
    intros s d a e0 H. rewrite (decorate_at_dom M G) by auto.
    destruct (spec_enabled e0); [|reflexivity]. unfold wrap. now destruct (fam d).
  Qed.

  (* the invariant of a run: the variable and every value a guard in progress saw are in the domain *)
  Definition xinv (xs : xstate) : Prop :=
    in_domain (env (fst xs)) = true /\ Forall (fun p => in_domain (p_env p) = true) (snd xs).

  Lemma xstep_env : forall xs o, env (fst (fst (xstep M xs o))) =
    match o with XOp o' => track_env (env (fst xs)) o' | _ => env (fst xs) end.
  Proof.
    intros [s st] o. destruct o as [o'| d | |]; cbn [xstep fst snd].
    - rewrite <- (step_env M G). now destruct (step M s o').
    - now destruct (fam d).
    - reflexivity.
    - destruct st as [|p st']; [reflexivity|].
      pose proof (proj1 (decorate_at_env M s (p_d p) (p_addr p) (p_env p))) as E.
      now destruct (decorate_at M s (p_d p) (p_addr p) (p_env p)).
  Qed.

  Lemma xstep_pending : forall xs o, map p_env (snd (fst (xstep M xs o))) =
    match o with
    | XBegin d => match fam d with FCls => env (fst xs) :: map p_env (snd xs) | FFn => map p_env (snd xs) end
    | XEnd => tl (map p_env (snd xs))
    | _ => map p_env (snd xs)
    end.
  Proof.
    intros [s st] o. destruct o as [o'| d | |]; cbn [xstep fst snd].
    - now destruct (step M s o').
    - now destruct (fam d).
    - reflexivity.
    - destruct st as [|p st']; [reflexivity|]. now destruct (decorate_at M s (p_d p) (p_addr p) (p_env p)).
  Qed.

  Lemma xstep_inv : forall xs o, xinv xs -> xop_in_domain o = true -> xinv (fst (xstep M xs o)).
  Proof.
    intros xs o [He Hp] Ho. split.
    - rewrite xstep_env. destruct o; auto. now apply track_in_domain.
    - assert (F : Forall (fun e => in_domain e = true) (map p_env (snd (fst (xstep M xs o))))).
      { rewrite xstep_pending. assert (F0 : Forall (fun e => in_domain e = true) (map p_env (snd xs))).
        { rewrite Forall_map. exact Hp. }
        destruct o as [o'| d | |]; auto.
        - destruct (fam d); auto.
        - destruct (map p_env (snd xs)); [constructor|]. now inversion F0. }
      now rewrite Forall_map in F.
  Qed.

  Lemma xrun_inv : forall h xs, xinv xs -> forallb xop_in_domain h = true -> xinv (fst (xrun M xs h)).
  Proof.
    induction h as [|o h IH]; intros xs I Hh; [exact I|].
    simpl in Hh. apply andb_true_iff in Hh as [Ho Hh]. simpl.
    pose proof (xstep_inv xs o I Ho) as I1. destruct (xstep M xs o) as [x1 b]. simpl in I1.
    specialize (IH x1 I1 Hh). now destruct (xrun M x1 h).
  Qed.

  (* a decorator applied while other decorations are in progress: the variable NOW decides, not what their guards saw *)
  Lemma meanwhile_obs : forall xs d, in_domain (env (fst xs)) = true ->
    snd (xstep M xs (XOp (ODecorate d))) = ODeco (negb (spec_enabled (env (fst xs)))).
  Proof.
    intros [s st] d H. cbn [xstep fst snd step].
    pose proof (decorate_fresh_obs M G s d None (env s) H) as O.
    now destruct (decorate_fresh M s d None (env s)).
  Qed.

  (* the decoration in progress, when it completes: what its guard saw decides, not the variable now *)
  Lemma end_obs : forall s p st, in_domain (p_env p) = true ->
    snd (xstep M (s, p :: st) XEnd) = ODeco (negb (spec_enabled (p_env p))).
  Proof.
    intros s p st H. cbn [xstep fst snd].
    pose proof (decorate_at_obs s (p_d p) (p_addr p) (p_env p) H) as O.
    now destruct (decorate_at M s (p_d p) (p_addr p) (p_env p)).
  Qed.

  Lemma xrun_meets : forall h xs, xinv xs -> forallb xop_in_domain h = true ->
    Forall2 deco_meets (snd (xrun M xs h)) (xdemand (env (fst xs)) (map p_env (snd xs)) h).
  Proof.
    induction h as [|o h IH]; intros xs I Hh; [constructor|].
    pose proof Hh as Hh0. simpl in Hh. apply andb_true_iff in Hh as [Ho Hh].
    pose proof (xstep_inv xs o I Ho) as I1. pose proof (xstep_env xs o) as E1. pose proof (xstep_pending xs o) as P1.
    destruct I as [He Hp].
    assert (HD : exists dm, deco_meets (snd (xstep M xs o)) dm /\
              xdemand (env (fst xs)) (map p_env (snd xs)) (o :: h) =
              dm :: xdemand (env (fst (fst (xstep M xs o)))) (map p_env (snd (fst (xstep M xs o)))) h).
    { rewrite E1, P1. destruct o as [o'| d | |].
      - destruct o'; try (exists None; split; [exact I|cbn [xdemand]; now rewrite ?spec_env_after_track]).
        exists (Some (negb (spec_enabled (env (fst xs))))). split; [now apply meanwhile_obs|reflexivity].
      - exists None. split; [exact I|]. cbn [xdemand]. rewrite spec_fam_fam. reflexivity.
      - exists None. split; [exact I|reflexivity].
      - destruct xs as [s [|p st]]; cbn [snd map tl fst].
        + exists None. split; [exact I|reflexivity].
        + exists (Some (negb (spec_enabled (p_env p)))). split; [|reflexivity].
          apply end_obs. now inversion Hp. }
    destruct HD as (dm & Hm & Hx). rewrite Hx. simpl.
    destruct (xstep M xs o) as [x1 b]. simpl in *.
    specialize (IH x1 I1 Hh). destruct (xrun M x1 h). simpl in *. now constructor.
  Qed.
End Overlap.
