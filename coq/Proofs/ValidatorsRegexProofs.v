(* C14 - the derivative matcher of Model/ValidatorsRegex.v decides the regular language of its
   argument (for all regular expressions of the supported syntax and all strings), and the
   language of REGEX_EMAIL is the documented predicate `email_pred` (for all strings).       *)
From Coq Require Import List ZArith Bool Lia ZifyBool.
From PV Require Import Base.Exn Model.ValidatorsBase Model.ValidatorsRegex Model.Validators Spec.ValidatorsSpec.
Import ListNotations.
Open Scope Z_scope.

(* ---------- denotation: `lang r s rest` - r matches s when s is followed by rest ---------------- *)
Inductive lang : re -> str -> str -> Prop :=
| LEps : forall rest, lang REps [] rest
| LSet : forall neg items c rest, cset_mem neg items c = true -> lang (RSet neg items) [c] rest
| LCat : forall a b s1 s2 rest, lang a s1 (s2 ++ rest) -> lang b s2 rest -> lang (RCat a b) (s1 ++ s2) rest
| LAltL : forall a b s rest, lang a s rest -> lang (RAlt a b) s rest
| LAltR : forall a b s rest, lang b s rest -> lang (RAlt a b) s rest
| LStar0 : forall a rest, lang (RStar a) [] rest
| LStarS : forall a s1 s2 rest, lang a s1 (s2 ++ rest) -> lang (RStar a) s2 rest -> lang (RStar a) (s1 ++ s2) rest
| LEnd : forall rest, end_ok rest = true -> lang REnd [] rest.

Lemma lang_none : forall s rest, ~ lang RNone s rest.
Proof. intros s rest H; inversion H. Qed.

Lemma lang_eps_inv : forall s rest, lang REps s rest -> s = [].
Proof. intros s rest H; now inversion H. Qed.

Lemma lang_end_inv : forall s rest, lang REnd s rest -> s = [] /\ end_ok rest = true.
Proof. intros s rest H; inversion H; auto. Qed.

Lemma lang_set_inv : forall neg items s rest,
  lang (RSet neg items) s rest -> exists c, s = [c] /\ cset_mem neg items c = true.
Proof. intros neg items s rest H; inversion H; subst; eauto. Qed.

Lemma lang_cat_inv : forall a b s rest,
  lang (RCat a b) s rest -> exists s1 s2, s = s1 ++ s2 /\ lang a s1 (s2 ++ rest) /\ lang b s2 rest.
Proof. intros a b s rest H; inversion H; subst; eauto. Qed.

Lemma lang_alt_inv : forall a b s rest, lang (RAlt a b) s rest -> lang a s rest \/ lang b s rest.
Proof. intros a b s rest H; inversion H; subst; auto. Qed.

(* a non-empty match of a star starts with a non-empty match of the body *)
Lemma lang_star_inv : forall r x rest, lang r x rest -> forall a, r = RStar a -> x <> [] ->
  exists s1 s2, x = s1 ++ s2 /\ s1 <> [] /\ lang a s1 (s2 ++ rest) /\ lang (RStar a) s2 rest.
Proof.
  induction 1; intros a0 E NE; try discriminate.
  - congruence.
  - injection E as ->. destruct s1 as [|c s1].
    + simpl in *. apply IHlang2; auto.
    + exists (c :: s1), s2. repeat split; auto. discriminate.
Qed.

Lemma nullable_iff : forall r rest, nullable rest r = true <-> lang r [] rest.
Proof.
  induction r; intro rest; simpl.
  - split; [discriminate | intro H; inversion H].
  - split; [constructor | reflexivity].
  - split; [discriminate | intro H; inversion H].
  - rewrite andb_true_iff, IHr1, IHr2. split.
    + intros [H1 H2]. change (@nil Z) with (@nil Z ++ []). constructor; auto.
    + intro H. apply lang_cat_inv in H as (s1 & s2 & E & H1 & H2).
      symmetry in E. apply app_eq_nil in E as [-> ->]. auto.
  - rewrite orb_true_iff, IHr1, IHr2. split.
    + intros [H|H]; [now apply LAltL | now apply LAltR].
    + apply lang_alt_inv.
  - split; [constructor | reflexivity].
  - split; [now constructor | intro H; now apply lang_end_inv in H].
Qed.

Lemma mkCat_iff : forall a b s rest, lang (mkCat a b) s rest <-> lang (RCat a b) s rest.
Proof.
  intros a b s rest. destruct a; simpl; try tauto.
  - split; [intro H; inversion H|]. intro H. apply lang_cat_inv in H as (s1 & s2 & _ & H1 & _). inversion H1.
  - split.
    + intro H. change s with ([] ++ s). constructor; [constructor | assumption].
    + intro H. apply lang_cat_inv in H as (s1 & s2 & -> & H1 & H2).
      apply lang_eps_inv in H1 as ->. assumption.
Qed.

Lemma mkAlt_iff : forall a b s rest, lang (mkAlt a b) s rest <-> lang (RAlt a b) s rest.
Proof.
  intros a b s rest.
  assert (L : forall x, lang (RAlt RNone x) s rest <-> lang x s rest).
  { intro x; split; [|apply LAltR]. intro H. apply lang_alt_inv in H as [H|H]; [inversion H | assumption]. }
  assert (R : forall x, lang (RAlt x RNone) s rest <-> lang x s rest).
  { intro x; split; [|apply LAltL]. intro H. apply lang_alt_inv in H as [H|H]; [assumption | inversion H]. }
  destruct a; simpl; try (symmetry; apply L); destruct b; simpl; try tauto; symmetry; apply R.
Qed.

Lemma deriv_iff : forall r c s rest, lang (deriv c (s ++ rest) r) s rest <-> lang r (c :: s) rest.
Proof.
  induction r; intros c s rest; simpl.
  - split; intro H; inversion H.
  - split; intro H; inversion H.
  - destruct (cset_mem neg items c) eqn:M.
    + split.
      * intro H. apply lang_eps_inv in H as ->. now constructor.
      * intro H. apply lang_set_inv in H as (c' & E & _). injection E as _ ->. constructor.
    + split; [intro H; inversion H|]. intro H. apply lang_set_inv in H as (c' & E & M'). injection E as -> ->. congruence.
  - assert (D : lang (mkCat (deriv c (s ++ rest) r1) r2) s rest <->
                exists s1 s2, s = s1 ++ s2 /\ lang r1 (c :: s1) (s2 ++ rest) /\ lang r2 s2 rest).
    { rewrite mkCat_iff. split.
      - intro H. apply lang_cat_inv in H as (s1 & s2 & -> & H1 & H2).
        rewrite <- app_assoc in H1. apply IHr1 in H1. eauto.
      - intros (s1 & s2 & -> & H1 & H2). constructor; [|assumption].
        rewrite <- app_assoc. now apply IHr1. }
    assert (G : lang (RCat r1 r2) (c :: s) rest <->
                (exists s1 s2, s = s1 ++ s2 /\ lang r1 (c :: s1) (s2 ++ rest) /\ lang r2 s2 rest) \/
                (lang r1 [] (c :: s ++ rest) /\ lang r2 (c :: s) rest)).
    { split.
      - intro H. apply lang_cat_inv in H as (s1 & s2 & E & H1 & H2). destruct s1 as [|c' s1].
        + simpl in E. subst s2. right. auto.
        + injection E as -> ->. left; eauto.
      - intros [(s1 & s2 & -> & H1 & H2) | [H1 H2]].
        + change (c :: s1 ++ s2) with ((c :: s1) ++ s2). now constructor.
        + change (c :: s) with ([] ++ c :: s). now constructor. }
    rewrite G. destruct (nullable (c :: s ++ rest) r1) eqn:N.
    + rewrite mkAlt_iff. apply nullable_iff in N. split.
      * intro H. apply lang_alt_inv in H as [H|H]; [left; now apply D | right; split; [assumption | now apply IHr2]].
      * intros [H|[_ H]]; [apply LAltL; now apply D | apply LAltR; now apply IHr2].
    + rewrite D. split; [auto|]. intros [H|[H _]]; [assumption|].
      apply nullable_iff in H. congruence.
  - rewrite mkAlt_iff. split.
    + intro H. apply lang_alt_inv in H as [H|H]; [apply LAltL; now apply IHr1 | apply LAltR; now apply IHr2].
    + intro H. apply lang_alt_inv in H as [H|H]; [apply LAltL; now apply IHr1 | apply LAltR; now apply IHr2].
  - rewrite mkCat_iff. split.
    + intro H. apply lang_cat_inv in H as (s1 & s2 & -> & H1 & H2).
      rewrite <- app_assoc in H1. apply IHr in H1.
      change (c :: s1 ++ s2) with ((c :: s1) ++ s2). now constructor.
    + intro H. destruct (lang_star_inv _ _ _ H r eq_refl) as (s1 & s2 & E & NE & H1 & H2); [discriminate|].
      destruct s1 as [|c' s1]; [congruence|]. injection E as -> ->.
      constructor; [|assumption]. rewrite <- app_assoc. now apply IHr.
  - split; intro H; inversion H.
Qed.

(* the matcher decides the language, for every expression and every string *)
Theorem fullmatch_iff : forall s r, re_fullmatch r s = true <-> lang r s [].
Proof.
  induction s as [|c s IH]; intro r; simpl.
  - apply nullable_iff.
  - rewrite IH. rewrite <- (deriv_iff r c s []). now rewrite app_nil_r.
Qed.

(* ---------- stars and plusses of character sets --------------------------------------------------- *)
Lemma lang_star_set_fwd : forall r s rest, lang r s rest -> forall neg items, r = RStar (RSet neg items) ->
  forallb (cset_mem neg items) s = true.
Proof.
  induction 1; intros n it E; try discriminate.
  - reflexivity.
  - injection E as ->. apply lang_set_inv in H as (c & -> & M). simpl. rewrite M. simpl. now apply IHlang2.
Qed.

Lemma lang_star_set : forall neg items s rest,
  lang (RStar (RSet neg items)) s rest <-> forallb (cset_mem neg items) s = true.
Proof.
  intros neg items s rest. split.
  - intro H. eapply lang_star_set_fwd; eauto.
  - induction s as [|c s IH]; simpl; intro H; [constructor|].
    apply andb_true_iff in H as [H1 H2]. change (c :: s) with ([c] ++ s). constructor; [now constructor | auto].
Qed.

Lemma lang_plus_set : forall neg items s rest,
  lang (RPlus (RSet neg items)) s rest <-> s <> [] /\ forallb (cset_mem neg items) s = true.
Proof.
  intros neg items s rest. unfold RPlus. split.
  - intro H. apply lang_cat_inv in H as (s1 & s2 & -> & H1 & H2).
    apply lang_set_inv in H1 as (c & -> & M). apply lang_star_set in H2.
    split; [discriminate|]. simpl. now rewrite M.
  - intros [NE H]. destruct s as [|c s]; [congruence|]. simpl in H. apply andb_true_iff in H as [H1 H2].
    change (c :: s) with ([c] ++ s). constructor; [now constructor | now apply lang_star_set].
Qed.

Lemma cset_pos : forall items c, cset_mem false items c = existsb (citem_mem c) items.
Proof. intros. unfold cset_mem. now destruct (existsb (citem_mem c) items). Qed.
Lemma cset_neg : forall items c, cset_mem true items c = negb (existsb (citem_mem c) items).
Proof. intros. unfold cset_mem. now destruct (existsb (citem_mem c) items). Qed.

Lemma lang_chr : forall c s rest, lang (RChr c) s rest <-> s = [c].
Proof.
  intros c s rest. unfold RChr. split.
  - intro H. apply lang_set_inv in H as (c' & -> & M). rewrite cset_pos in M. cbn [existsb citem_mem] in M.
    rewrite orb_false_r in M. f_equal. lia.
  - intros ->. constructor. rewrite cset_pos. cbn [existsb citem_mem]. rewrite orb_false_r. lia.
Qed.

(* re.search: some substring matches (followed by what really follows it) *)
Lemma lang_star_any : forall s rest, lang (RStar RAny) s rest.
Proof. intros; apply lang_star_set. induction s; simpl; auto. Qed.

Theorem search_iff : forall r s,
  re_search r s = true <-> exists a m b, s = a ++ m ++ b /\ lang r m b.
Proof.
  intros r s. unfold re_search. rewrite fullmatch_iff. split.
  - intro H. apply lang_cat_inv in H as (a & x & -> & _ & H).
    apply lang_cat_inv in H as (m & b & -> & H & _). rewrite app_nil_r in H. eauto.
  - intros (a & m & b & -> & H). constructor; [apply lang_star_any|].
    constructor; [now rewrite app_nil_r | apply lang_star_any].
Qed.

(* ---------- REGEX_EMAIL --------------------------------------------------------------------------- *)
(* the AST of r"[^@\s]+@[^@\s]+\.[a-zA-Z0-9]+$" (what the translator produces today), and the same without
   the final `$`, which is the same language under re.fullmatch *)
Definition tld_plus : re := RPlus (RSet false [CRange 97 122; CRange 65 90; CRange 48 57]).
Definition email_re_tail (last : re) : re :=
  RCat (RPlus (RSet true [CRange 64 64; CSpace]))
  (RCat (RSet false [CRange 64 64])
  (RCat (RPlus (RSet true [CRange 64 64; CSpace]))
  (RCat (RSet false [CRange 46 46]) last))).
Definition email_re : re := email_re_tail (RCat tld_plus REnd).
Definition email_re_noend : re := email_re_tail tld_plus.

Lemma local_set : forall c, cset_mem true [CRange 64 64; CSpace] c = local_char c.
Proof.
  intro c. rewrite cset_neg. unfold local_char. cbn [existsb citem_mem]. rewrite orb_false_r.
  destruct (is_ws c); [rewrite orb_true_r, andb_false_r; reflexivity|].
  rewrite orb_false_r, andb_true_r. f_equal.
  destruct (c =? 64) eqn:E; lia.
Qed.

Lemma tld_set : forall c, cset_mem false [CRange 97 122; CRange 65 90; CRange 48 57] c = tld_char c.
Proof. intro c. rewrite cset_pos. unfold tld_char. cbn [existsb citem_mem]. now rewrite orb_false_r, orb_assoc. Qed.

Lemma forallb_ext_eq : forall (f g : Z -> bool) l, (forall x, f x = g x) -> forallb f l = forallb g l.
Proof. intros f g l H. induction l; simpl; [reflexivity|]. now rewrite H, IHl. Qed.

Definition tld_lang (last : re) : Prop :=
  forall t, lang last t [] <-> t <> [] /\ forallb tld_char t = true.

Lemma tld_lang_plus : tld_lang tld_plus.
Proof.
  intro t. unfold tld_plus. rewrite lang_plus_set. now rewrite (forallb_ext_eq _ _ t tld_set).
Qed.

Lemma tld_lang_end : tld_lang (RCat tld_plus REnd).
Proof.
  intro t. split.
  - intro H. apply lang_cat_inv in H as (t' & e & -> & Ht & He). apply lang_end_inv in He as [-> _].
    rewrite app_nil_r in *. simpl in Ht. now apply tld_lang_plus.
  - intro H. rewrite <- (app_nil_r t). constructor; [|now constructor]. simpl. now apply tld_lang_plus.
Qed.

Theorem email_tail_iff_pred : forall last, tld_lang last ->
  forall s, re_fullmatch (email_re_tail last) s = true <-> email_pred s.
Proof.
  intros last TL s. rewrite fullmatch_iff. unfold email_re_tail, email_pred. split.
  - intro H.
    apply lang_cat_inv in H as (l & s1 & -> & Hl & H).
    apply lang_cat_inv in H as (a & s2 & -> & Ha & H).
    apply lang_cat_inv in H as (d & s3 & -> & Hd & H).
    apply lang_cat_inv in H as (o & t & -> & Ho & Ht).
    apply TL in Ht as [Nt Ft].
    apply lang_plus_set in Hl as [Nl Fl]. apply lang_plus_set in Hd as [Nd Fd].
    apply (lang_chr 64) in Ha as ->. apply (lang_chr 46) in Ho as ->.
    exists l, d, t. repeat split; auto.
    + now rewrite <- (forallb_ext_eq _ _ l local_set).
    + now rewrite <- (forallb_ext_eq _ _ d local_set).
  - intros (l & d & t & -> & Nl & Nd & Nt & Fl & Fd & Ft).
    constructor. { apply lang_plus_set. split; [assumption|]. now rewrite (forallb_ext_eq _ _ l local_set). }
    constructor. { now apply (lang_chr 64). }
    constructor. { apply lang_plus_set. split; [assumption|]. now rewrite (forallb_ext_eq _ _ d local_set). }
    constructor. { now apply (lang_chr 46). }
    apply TL. auto.
Qed.

Theorem email_re_iff_pred : forall s, re_fullmatch email_re s = true <-> email_pred s.
Proof. exact (email_tail_iff_pred _ tld_lang_end). Qed.

Theorem email_re_noend_iff_pred : forall s, re_fullmatch email_re_noend s = true <-> email_pred s.
Proof. exact (email_tail_iff_pred _ tld_lang_plus). Qed.

(* ---------- the executable form of the documented predicate ------------------------------------------ *)
Lemma split_last_sound : forall sep s a b, split_last sep s = Some (a, b) -> s = a ++ sep :: b /\ ~ In sep b.
Proof.
  induction s as [|c s IH]; simpl; intros a b H; [discriminate|].
  destruct (split_last sep s) as [[a' b']|] eqn:E.
  - injection H as <- <-. destruct (IH _ _ eq_refl) as [-> N]. auto.
  - destruct (c =? sep) eqn:C; [|discriminate]. injection H as <- <-. apply Z.eqb_eq in C as ->. split; [reflexivity|].
    clear IH. revert E. induction s as [|x s IHs]; simpl; [auto|].
    destruct (split_last sep s) as [[? ?]|]; [discriminate|]. destruct (x =? sep) eqn:X; [discriminate|].
    intros _ [->|I]; [lia | now apply IHs].
Qed.

Lemma split_last_none : forall sep s, ~ In sep s -> split_last sep s = None.
Proof.
  induction s as [|c s IH]; simpl; intro N; [reflexivity|].
  rewrite IH by tauto. destruct (c =? sep) eqn:C; [|reflexivity]. apply Z.eqb_eq in C. tauto.
Qed.

Lemma split_last_complete : forall sep a b, ~ In sep b -> split_last sep (a ++ sep :: b) = Some (a, b).
Proof.
  induction a as [|c a IH]; simpl; intros b N.
  - rewrite split_last_none by assumption. now rewrite Z.eqb_refl.
  - now rewrite IH.
Qed.

Lemma before_after_sep : forall sep s, existsb (Z.eqb sep) s = true ->
  s = before_sep sep s ++ sep :: after_sep sep s /\ ~ In sep (before_sep sep s).
Proof.
  induction s as [|c s IH]; simpl; intro H; [discriminate|].
  rewrite (Z.eqb_sym sep c) in H. destruct (c =? sep) eqn:C.
  - apply Z.eqb_eq in C as ->. simpl. auto.
  - simpl in H. destruct (IH H) as [E N]. split; [simpl; now rewrite <- E|].
    simpl. intros [->|I]; [lia | auto].
Qed.

Lemma before_sep_app : forall sep l d, ~ In sep l -> before_sep sep (l ++ sep :: d) = l.
Proof.
  induction l as [|c l IH]; simpl; intros d N; [now rewrite Z.eqb_refl|].
  destruct (c =? sep) eqn:C; [apply Z.eqb_eq in C; tauto|]. rewrite IH; tauto.
Qed.

Lemma after_sep_app : forall sep l d, ~ In sep l -> after_sep sep (l ++ sep :: d) = d.
Proof.
  induction l as [|c l IH]; simpl; intros d N; [now rewrite Z.eqb_refl|].
  destruct (c =? sep) eqn:C; [apply Z.eqb_eq in C; tauto|]. rewrite IH; tauto.
Qed.

Lemma forallb_not_in : forall (f : Z -> bool) x l, forallb f l = true -> f x = false -> ~ In x l.
Proof. intros f x l F Hx I. rewrite forallb_forall in F. apply F in I. congruence. Qed.

Lemma is_nil_false : forall A (l : list A), negb (is_nil l) = true <-> l <> [].
Proof. intros A [|x l]; simpl; split; congruence. Qed.

Theorem email_predb_iff : forall s, email_predb s = true <-> email_pred s.
Proof.
  intro s. unfold email_predb, email_pred. split.
  - destruct (split_last 46 s) as [[pre t]|] eqn:E; [|discriminate]. intro H.
    apply split_last_sound in E as [-> _]. cbv zeta in H.
    apply andb_true_iff in H as [H H0]. apply andb_true_iff in H as [H H1].
    repeat (apply andb_true_iff in H0 as [H0 ?]).
    destruct (before_after_sep 64 pre) as [Ep _]; [assumption|].
    exists (before_sep 64 pre), (after_sep 64 pre), t. repeat split; auto.
    + rewrite Ep at 1. now rewrite <- !app_assoc.
    + now apply is_nil_false.
    + now apply is_nil_false.
    + now apply is_nil_false.
  - intros (l & d & t & -> & Nl & Nd & Nt & Fl & Fd & Ft).
    assert (N46 : ~ In 46 t) by (eapply forallb_not_in; [exact Ft | reflexivity]).
    assert (N64 : ~ In 64 l) by (eapply forallb_not_in; [exact Fl | reflexivity]).
    replace (l ++ [64] ++ d ++ [46] ++ t) with ((l ++ 64 :: d) ++ 46 :: t) by (now rewrite <- app_assoc).
    rewrite split_last_complete by assumption.
    rewrite before_sep_app, after_sep_app by assumption.
    rewrite Ft, Fl, Fd. apply is_nil_false in Nl, Nd, Nt. rewrite Nl, Nd, Nt. simpl.
    rewrite !andb_true_r. rewrite existsb_app. simpl. now rewrite orb_true_r.
Qed.

(* the translated regular expression and the executable oracle of the specification agree on every string *)
Corollary email_re_predb : forall s, re_fullmatch email_re s = email_predb s.
Proof.
  intro s. apply eq_true_iff_eq. now rewrite email_re_iff_pred, email_predb_iff.
Qed.
Corollary email_re_noend_predb : forall s, re_fullmatch email_re_noend s = email_predb s.
Proof.
  intro s. apply eq_true_iff_eq. now rewrite email_re_noend_iff_pred, email_predb_iff.
Qed.
