(* assert_value_matches_type on the supported vocabulary: accepted iff `chk`, the TypeVar
   environment untouched, rejection = the class assert_value_matches_type raises; the
   incomplete-annotation rule (C06); containment of exceptions for ANY inner checker (C08);
   independence of the spelling and of the iteration order (C02).                               *)
From Coq Require Import List Arith Bool ZArith Lia Permutation.
From PV Require Import Base.Exn Base.Values Base.Ann Model.CheckerCfg Model.Checker Spec.Conforms Proofs.CheckerGood
  Proofs.CheckerRefine Proofs.CheckerSpec.
Import ListNotations.

Section Top.
  Variable cfg : checker_cfg.
  Hypothesis good : good_facts cfg.
  Variable ctx : nat -> option cls.
  Variable hook : ann -> value -> tvenv -> res.

  Theorem check_type_pure : forall a, supported ctx a = true ->
    forall v tv, check_type cfg ctx hook a v tv = (Ok (chk cfg ctx a v), tv).
  Proof.
    intros a Hs v tv. unfold check_type, check_type_gen.
    destruct a; try (rewrite (is_inst_refines cfg good ctx hook _ Hs v tv); reflexivity); try discriminate Hs.
    - rewrite (gf_none cfg good). reflexivity.
    - cbn [supported] in Hs. cbn [chk]. destruct (ctx name); [|discriminate Hs]. rewrite (gf_str cfg good). reflexivity.
  Qed.

  Theorem assert_pure : forall a, supported ctx a = true ->
    forall v tv, assert_matches cfg ctx hook a v tv =
                 (if chk cfg ctx a v then Ok tt else Raise (mismatch_raises cfg), tv).
  Proof.
    intros a Hs v tv. unfold assert_matches, assert_gen.
    change (check_type_gen cfg ctx (is_inst cfg ctx hook) a v tv) with (check_type cfg ctx hook a v tv).
    rewrite (check_type_pure a Hs v tv). destruct (chk cfg ctx a v); reflexivity.
  Qed.

  (* C01 *)
  Theorem sound : forall a v tv, supported ctx a = true ->
    fst (assert_matches cfg ctx hook a v tv) = Ok tt -> conforms ctx a v <> MustNot.
  Proof.
    intros a v tv Hs Hacc Hn. rewrite (assert_pure a Hs v tv) in Hacc.
    destruct (chk_agrees_top cfg good ctx a Hs v) as [_ Hf]. rewrite (Hf Hn) in Hacc. discriminate Hacc.
  Qed.

  Theorem nonconforming_rejected : forall a v tv, supported ctx a = true -> conforms ctx a v = MustNot ->
    exists e, assert_matches cfg ctx hook a v tv = (Raise e, tv) /\ derives e PTypeCheckC = true.
  Proof.
    intros a v tv Hs Hn. rewrite (assert_pure a Hs v tv).
    destruct (chk_agrees_top cfg good ctx a Hs v) as [_ Hf]. rewrite (Hf Hn).
    exists (mismatch_raises cfg). split; [reflexivity | apply (gf_mismatch cfg good)].
  Qed.

  (* C02 *)
  Theorem complete : forall a v tv, supported ctx a = true -> conforms ctx a v = Must ->
    assert_matches cfg ctx hook a v tv = (Ok tt, tv).
  Proof.
    intros a v tv Hs Hm. rewrite (assert_pure a Hs v tv).
    destruct (chk_agrees_top cfg good ctx a Hs v) as [Ht _]. now rewrite (Ht Hm).
  Qed.

  (* ---- C06: bare generics are rejected for every value -------------------------------------- *)
  Definition bare (a : ann) : bool :=
    match a with
    | ABare o => existsb (tname_eqb o) (TType :: bare_names)
    | ACls c => bare_builtin_cls c
    | _ => false
    end.

  Lemma handled e : In e model_exns -> exists r, handle (handlers cfg) e = Raise r /\ derives r PTypeCheckC = true.
  Proof.
    intro Hin. pose proof (gf_handled cfg good e Hin) as H. unfold handled_as_ptc in H.
    destruct (handle (handlers cfg) e) as [b|r]; [discriminate H | eauto].
  Qed.

  Lemma assert_of_raise a v tv e tv' :
    (match a with ANone | AStr _ => False | _ => True end) ->
    is_inst cfg ctx hook a v tv = (Raise e, tv') -> In e model_exns ->
    exists r, assert_matches cfg ctx hook a v tv = (Raise r, tv') /\ derives r PTypeCheckC = true.
  Proof.
    intros Ha Hi Hin. destruct (handled e Hin) as [r [Hr Hd]]. exists r. split; [|exact Hd].
    unfold assert_matches, assert_gen, check_type_gen. destruct a; try contradiction; rewrite Hi, Hr; reflexivity.
  Qed.

  Lemma assert_of_false a v tv tv' :
    (match a with ANone | AStr _ => False | _ => True end) ->
    is_inst cfg ctx hook a v tv = (Ok false, tv') ->
    exists r, assert_matches cfg ctx hook a v tv = (Raise r, tv') /\ derives r PTypeCheckC = true.
  Proof.
    intros Ha Hi. exists (mismatch_raises cfg). split; [|apply (gf_mismatch cfg good)].
    unfold assert_matches, assert_gen, check_type_gen. destruct a; try contradiction; rewrite Hi; reflexivity.
  Qed.

  Theorem bare_rejected_for_all_values : forall a, bare a = true -> forall v tv,
    exists r, assert_matches cfg ctx hook a v tv = (Raise r, tv) /\ derives r PTypeCheckC = true.
  Proof.
    intros a Hb v tv. destruct a; try discriminate Hb.
    - (* bare builtin class *)
      apply (assert_of_raise (ACls c) v tv PTypeCheckC tv I); [|cbn; tauto].
      cbn [is_inst]. unfold has_required, has_required_tables. cbn [ann_name]. rewrite orb_true_r. cbn [negb]. unfold inst_cls, in_cls.
      rewrite (gf_bare_sup cfg good c); [reflexivity|].
      destruct c; try discriminate Hb; cbn; tauto.
    - (* bare typing generic *)
      cbn [bare existsb] in Hb. apply orb_true_iff in Hb as [Ht | Hn].
      + apply tname_eqb_eq in Ht. subst o.
        destruct (has_required cfg (ABare TType)) eqn:Ereq.
        * assert (Hg : is_inst cfg ctx hook (ABare TType) v tv = generic_f cfg (fun x => is_inst cfg ctx hook x) TType [] v tv).
          { cbn [is_inst]. rewrite Ereq, (gf_type_not_special cfg good). reflexivity. }
          assert (Hreq' : has_required cfg (AGeneric SpTyping TType []) = true) by exact Ereq.
          pose proof (gf_kind cfg good TType ltac:(cbn; tauto)) as Hk. unfold kind_ok in Hk. cbn [origin_kind] in Hk.
          destruct (origin_checker cfg TType) as [[]|] eqn:Eo; try discriminate Hk.
          destruct (abc_instance TType (class_of v)) eqn:Eabc.
          -- apply (assert_of_raise (ABare TType) v tv IndexErrorC tv I); [|cbn; tauto].
             rewrite Hg. unfold generic_f. rewrite Hreq', Eabc, Eo, (gf_ty cfg good). reflexivity.
          -- apply (assert_of_false (ABare TType) v tv tv I).
             rewrite Hg. unfold generic_f. rewrite Hreq', Eabc. reflexivity.
        * apply (assert_of_raise (ABare TType) v tv PTypeCheckC tv I); [|cbn; tauto].
          cbn [is_inst]. rewrite Ereq. reflexivity.
      + apply (assert_of_raise (ABare o) v tv PTypeCheckC tv I); [|cbn; tauto].
        assert (Hin : In o bare_names).
        { apply existsb_exists in Hn as [x [Hx He]]. apply tname_eqb_eq in He. now subst. }
        pose proof (gf_bare_rejected cfg good o Hin) as Hr. unfold bare_rejected in Hr.
        cbn [is_inst]. unfold has_required, has_required_tables. cbn [ann_name n_type_args].
        destruct (req_exact cfg o) as [k|].
        * destruct k; [discriminate Hr | reflexivity].
        * destruct (req_min cfg o) as [k|]; [|discriminate Hr]. destruct k; [discriminate Hr | reflexivity].
  Qed.

  (* ---- C08: whatever the inner checker does, only PedanticException leaves _check_type --------- *)
  Lemma handle_contains : forall hs e,
    (forall h, In h hs -> is_pedantic_raise (snd h) = true) -> existsb catches_exception hs = true ->
    is_exception e = true -> exists r, handle hs e = Raise r /\ is_pedantic r = true.
  Proof.
    induction hs as [|[cs act] hs IH]; intros e Hp Hc He; [discriminate Hc|].
    cbn [handle]. destruct (existsb (derives e) cs) eqn:Ecatch.
    - pose proof (Hp (cs, act) (or_introl eq_refl)) as Ha. cbn in Ha. destruct act; try discriminate Ha. eauto.
    - cbn [existsb] in Hc. apply orb_true_iff in Hc as [Hc | Hc].
      + exfalso. unfold catches_exception in Hc. cbn [fst] in Hc. apply existsb_exists in Hc as [c [Hin Hd]].
        assert (existsb (derives e) cs = true).
        { apply existsb_exists. exists c. split; [assumption|]. unfold is_exception in He. eapply derives_trans; eauto. }
        congruence.
      + apply IH; [intros h Hh; apply Hp; now right | assumption | assumption].
  Qed.

  Theorem check_contains : forall inner : ann -> value -> tvenv -> res,
    (forall a v tv e tv', inner a v tv = (Raise e, tv') -> is_exception e = true) ->
    forall a v tv, match fst (assert_gen cfg ctx inner a v tv) with
                   | Ok _ => True
                   | Raise r => is_pedantic r = true
                   end.
  Proof.
    intros inner Hin a v tv.
    assert (Hm : is_pedantic (mismatch_raises cfg) = true).
    { unfold is_pedantic. eapply derives_trans; [apply (gf_mismatch cfg good) | reflexivity]. }
    unfold assert_gen, check_type_gen.
    destruct a;
      try (destruct (inner _ v tv) as [[b|e] tv'] eqn:Ei;
           [destruct b; cbn; [exact I | exact Hm]
           |destruct (handle_contains (handlers cfg) e (gf_handlers_ped cfg good) (gf_handlers_catch cfg good)
                        (Hin _ _ _ _ _ Ei)) as [r [-> Hr]]; cbn; exact Hr]).
    - destruct (if none_by_eq cfg then _ else _); cbn; [exact I | exact Hm].
    - destruct (ctx name); [destruct (if str_walks_mro cfg then _ else _)|]; cbn; try exact I; exact Hm.
  Qed.
End Top.
