(* Lemmas of C09.  Everything is proved for an arbitrary switch_model M satisfying the
   executable condition `good M`; Props/C09.v discharges `good` for the regenerated model
   by computation.                                                                         *)
From Coq Require Import List Bool String Arith Lia.
From PV Require Import Base.Exn Model.EnvSwitch Spec.EnvSpec.
Import ListNotations.
Open Scope list_scope.

Definition dom_envs : list envv := [Unset; Val "0"; Val "1"]%string.

Definition outcome_is (o : outcome bool) (b : bool) : bool :=
  match o with Ok x => Bool.eqb x b | Raise _ => false end.
Definition assigns (a : env_assign) (s : string) : bool :=
  match a with SetVal v => String.eqb v s | DelVar => false end.

Definition refs_ok (M : switch_model) : bool := forallb ref_allowed (sm_refs M).
Definition n_guards (M : switch_model) : nat := List.length (filter is_guard_ref (sm_refs M)).

Definition good (M : switch_model) : bool :=
  String.eqb (sm_var M) "ENABLE_PEDANTIC"
  && forallb (fun e => outcome_is (is_enabled M e) (spec_enabled e)) dom_envs
  && assigns (sm_enable M) "1" && assigns (sm_disable M) "0"
  && forallb (honours M) all_dkinds
  && forallb (wraps M) all_dkinds
  && refs_ok M.

Lemma in_domain_cases : forall e, in_domain e = true -> In e dom_envs.
Proof.
  intros [|s] H; simpl in *; [now left|].
  apply orb_true_iff in H as [H|H]; apply String.eqb_eq in H; subst; auto.
Qed.

Section Good.
  Variable M : switch_model.
  Hypothesis G : good M = true.

  Lemma good_parts :
    (forall e, in_domain e = true -> is_enabled M e = Ok (spec_enabled e)) /\
    sm_enable M = SetVal "1" /\ sm_disable M = SetVal "0" /\
    (forall d, honours M d = true) /\ refs_ok M = true /\
    (forall d, wraps M d = true) /\ sm_var M = "ENABLE_PEDANTIC"%string.
  Proof.
    pose proof G as G'. unfold good in G'.
    apply andb_true_iff in G' as [G' GR]. apply andb_true_iff in G' as [G' GW]. apply andb_true_iff in G' as [G' GH].
    apply andb_true_iff in G' as [G' GD]. apply andb_true_iff in G' as [G' GE]. apply andb_true_iff in G' as [GV GI].
    split; [|split; [|split; [|split; [|split; [|split]]]]].
    - intros e He. apply in_domain_cases in He.
      rewrite forallb_forall in GI. specialize (GI e He). unfold outcome_is in GI.
      destruct (is_enabled M e) as [x|]; [|discriminate]. apply Bool.eqb_prop in GI. now subst.
    - unfold assigns in GE. destruct (sm_enable M); [|discriminate]. f_equal. now apply String.eqb_eq.
    - unfold assigns in GD. destruct (sm_disable M); [|discriminate]. f_equal. now apply String.eqb_eq.
    - intro d. rewrite forallb_forall in GH. apply GH. destruct d; simpl; auto 10.
    - exact GR.
    - intro d. rewrite forallb_forall in GW. apply GW. destruct d; simpl; auto 10.
    - now apply String.eqb_eq.
  Qed.

  (* the cross-reference obligation: no wrapper reads the switch when it is called *)
  Lemma no_call_reads : forall d, call_reads M d = false.
  Proof.
    intro d. destruct good_parts as (_ & _ & _ & _ & R & _). unfold refs_ok in R. unfold call_reads.
    apply not_true_is_false. intro H. apply existsb_exists in H as (r & Hin & Hr).
    rewrite forallb_forall in R. specialize (R r Hin).
    apply andb_true_iff in Hr as [Hk Hp]. unfold ref_allowed in R.
    destruct (er_phase r); try discriminate. destruct (er_kind r); simpl in *; discriminate.
  Qed.

  Lemma call_behaviour_env_independent : forall o e1 e2, call_behaviour M o e1 = call_behaviour M o e2.
  Proof. intros [x|d x] e1 e2; simpl; [reflexivity|]. rewrite no_call_reads. now destruct (wraps M d). Qed.

  Lemma wrapped_checked : forall d x e, call_behaviour M (Wrapped d x) e = Checked.
  Proof.
    intros d x e. destruct good_parts as (_ & _ & _ & _ & _ & W & _). simpl. now rewrite W, no_call_reads.
  Qed.

  Definition tag (o : dobj) : bool := match o with Identity _ => false | Wrapped _ _ => true end.
  Definition rel (s : state) (sp : sstate) : Prop :=
    env s = s_env sp /\ map tag (objs s) = s_objs sp /\ in_domain (env s) = true.

  Lemma nth_error_map' : forall A B (f : A -> B) l i, nth_error (map f l) i = option_map f (nth_error l i).
  Proof. induction l; destruct i; simpl; auto. Qed.

  Lemma step_refines : forall s sp o, rel s sp -> op_in_domain o = true ->
    rel (fst (step M s o)) (fst (spec_step sp o)) /\ snd (step M s o) = snd (spec_step sp o).
  Proof.
    intros s sp o (He & Ho & Hd) Hop.
    destruct good_parts as (IE & EN & DI & HON & _).
    destruct o; cbn [step spec_step fst snd op_in_domain] in *.
    - repeat split; auto.
    - repeat split; auto.
    - rewrite EN. simpl. repeat split; auto.
    - rewrite DI. simpl. repeat split; auto.
    - rewrite HON, (IE _ Hd), <- He. unfold rel.
      destruct (spec_enabled (env s)); simpl; rewrite map_app, Ho; auto.
    - rewrite <- Ho, nth_error_map'. destruct (nth_error (objs s) i) as [[x|d x]|]; simpl option_map; cbn [tag fst snd];
        repeat split; auto.
      now rewrite wrapped_checked.
  Qed.

  Lemma run_refines : forall h s sp, rel s sp -> forallb op_in_domain h = true ->
    snd (run_ops M s h) = snd (spec_run sp h).
  Proof.
    induction h as [|o h IH]; intros s sp R Hh; [reflexivity|].
    simpl in Hh. apply andb_true_iff in Hh as [Ho Hh].
    destruct (step_refines s sp o R Ho) as [R' Hb]. simpl.
    destruct (step M s o) as [s1 b]. destruct (spec_step sp o) as [sp1 b']. simpl in *.
    specialize (IH s1 sp1 R' Hh).
    destruct (run_ops M s1 h). destruct (spec_run sp1 h). simpl in *. now subst.
  Qed.

  (* objects are only ever appended: no operation alters an already decorated object *)
  Lemma step_keeps : forall s o i x, nth_error (objs s) i = Some x -> nth_error (objs (fst (step M s o))) i = Some x.
  Proof.
    intros s o i x H. destruct o; simpl; auto.
    - destruct (honours M d); [destruct (is_enabled M (env s)) as [[|]|]|]; simpl; auto;
        rewrite nth_error_app1; auto; apply nth_error_Some; congruence.
    - destruct (nth_error (objs s) i0); auto.
  Qed.

  Lemma run_keeps : forall h s i x, nth_error (objs s) i = Some x ->
    nth_error (objs (fst (run_ops M s h))) i = Some x.
  Proof.
    induction h as [|o h IH]; intros s i x H; [exact H|].
    simpl. pose proof (step_keeps s o i x H) as H1. destruct (step M s o) as [s1 b]. simpl in H1.
    specialize (IH s1 i x H1). destruct (run_ops M s1 h). exact IH.
  Qed.

  Lemma read_only_at_decoration : forall s i x h1 h2, nth_error (objs s) i = Some x ->
    snd (step M (fst (run_ops M s h1)) (OCall i)) = snd (step M (fst (run_ops M s h2)) (OCall i)).
  Proof.
    intros s i x h1 h2 H. simpl.
    rewrite (run_keeps h1 s i x H), (run_keeps h2 s i x H). simpl. f_equal.
    apply call_behaviour_env_independent.
  Qed.

  (* headline: what a decorated object does when called is fixed by the switch at decoration, whatever happens in between *)
  Lemma behaviour_fixed : forall s d x h, in_domain (env s) = true ->
    snd (step M (fst (run_ops M (fst (step M s (ODecorate d x))) h)) (OCall (List.length (objs s)))) =
    OCalled (if spec_enabled (env s) then Checked else Plain).
  Proof.
    intros s d x h Hd. destruct good_parts as (IE & _ & _ & HON & _).
    set (o := if spec_enabled (env s) then Wrapped d x else Identity x).
    assert (E : nth_error (objs (fst (step M s (ODecorate d x)))) (List.length (objs s)) = Some o).
    { cbn [step]. rewrite HON, (IE _ Hd). unfold o.
      destruct (spec_enabled (env s)); cbn [fst objs]; rewrite nth_error_app2, Nat.sub_diag by auto; reflexivity. }
    remember (fst (step M s (ODecorate d x))) as s0 eqn:E0. clear E0.
    cbn [step]. rewrite (run_keeps h _ _ _ E). cbn [snd]. f_equal. unfold o.
    destruct (spec_enabled (env s)); [apply wrapped_checked|reflexivity].
  Qed.

  (* when is_enabled cannot raise, a decoration always adds exactly one object, at the next position *)
  Lemma decorate_appends : (forall e, exists b, is_enabled M e = Ok b) ->
    forall s d x, exists o, nth_error (objs (fst (step M s (ODecorate d x)))) (List.length (objs s)) = Some o.
  Proof.
    intros T s d x. unfold step. destruct (T (env s)) as [b Hb].
    destruct (honours M d); [rewrite Hb; destruct b|]; cbn [fst objs]; rewrite nth_error_app2, Nat.sub_diag by auto;
      cbn [nth_error]; eauto.
  Qed.

  Lemma decorate_obs : forall s d x, in_domain (env s) = true ->
    step M s (ODecorate d x) =
    if spec_enabled (env s)
    then ({| env := env s; objs := objs s ++ [Wrapped d x] |}, ODeco false)
    else ({| env := env s; objs := objs s ++ [Identity x] |}, ODeco true).
  Proof.
    intros s d x Hd. destruct good_parts as (IE & _ & _ & HON & _).
    simpl. rewrite HON, (IE _ Hd). now destruct (spec_enabled (env s)).
  Qed.
End Good.
