(* Lemmas of C09.  Everything is proved for an arbitrary switch_model M satisfying the
   executable condition `good M`; Props/C09.v discharges `good` for the regenerated model
   by computation.                                                                         *)
From Coq Require Import List Bool String Arith Lia.
From PV Require Import Base.Exn Model.EnvSwitch Spec.EnvSpec.
Import ListNotations.
Open Scope list_scope.

Definition dom_envs : list envv := [Unset; Val "0"; Val "1"]%string.

Definition outcome_is (o : outcome bool) (b : bool) : bool :=
  match o with Ok x => Bool.eqb x b | Raise _ => false end.
Definition assigns (a : env_assign) (s : string) : bool :=
  match a with SetVal v => String.eqb v s | DelVar => false end.

Definition refs_ok (M : switch_model) : bool := forallb ref_allowed (sm_refs M).
Definition n_guards (M : switch_model) : nat := List.length (filter is_guard_ref (sm_refs M)).

Definition good (M : switch_model) : bool :=
  String.eqb (sm_var M) "ENABLE_PEDANTIC"
  && forallb (fun e => outcome_is (is_enabled M e) (spec_enabled e)) dom_envs
  && assigns (sm_enable M) "1" && assigns (sm_disable M) "0"
  && forallb (honours M) all_dkinds
  && forallb (wraps M) all_dkinds
  && refs_ok M.

Lemma in_domain_cases : forall e, in_domain e = true -> In e dom_envs.
Proof.
  intros [|s] H; simpl in *; [now left|].
  apply orb_true_iff in H as [H|H]; apply String.eqb_eq in H; subst; auto.
Qed.

(* ---- lists ------------------------------------------------------------------------------------------------------ *)
Lemma nth_error_map' : forall A B (f : A -> B) l i, nth_error (map f l) i = option_map f (nth_error l i).
Proof. induction l; destruct i; simpl; auto. Qed.

Lemma nth_last : forall A (l : list A) a, nth_error (l ++ [a]) (List.length l) = Some a.
Proof. intros. rewrite nth_error_app2, Nat.sub_diag by auto. reflexivity. Qed.

Lemma set_nth_length : forall A (l : list A) n x, List.length (set_nth l n x) = List.length l.
Proof. induction l; destruct n; simpl; auto. Qed.

Lemma set_nth_same : forall A (l : list A) n x, n < List.length l -> nth_error (set_nth l n x) n = Some x.
Proof. induction l; destruct n; simpl; intros; try lia; auto. apply IHl. lia. Qed.

Lemma set_nth_other : forall A (l : list A) n m x, n <> m -> nth_error (set_nth l n x) m = nth_error l m.
Proof. induction l; destruct n, m; simpl; intros; try congruence; auto. Qed.

Lemma nth_error_app_old : forall A (l l' : list A) i, i < List.length l -> nth_error (l ++ l') i = nth_error l i.
Proof. intros. now apply nth_error_app1. Qed.

Lemma spec_fam_fam : forall d, spec_fam d = fam d.
Proof. now destruct d. Qed.

Lemma family_eqb_eq : forall a b, family_eqb a b = true <-> a = b.
Proof. intros [] []; simpl; split; congruence. Qed.

(* only re-decorations can touch a cell that exists already *)
Definition no_redeco (o : op) : bool := match o with ORedecorate _ _ _ => false | _ => true end.

(* the value of the variable, followed through a history as the statement describes the operations *)
Definition track_env (e : envv) (o : op) : envv :=
  match o with
  | OSetenv v => Val v | OUnsetenv => Unset | OEnable => Val "1" | ODisable => Val "0"
  | _ => e
  end.
(* every re-decoration in the history happens while the variable is "0" *)
Fixpoint redeco_only_disabled (e : envv) (h : list op) : bool :=
  match h with
  | [] => true
  | o :: h' => (no_redeco o || match e with Val s => String.eqb s "0" | Unset => false end)
               && redeco_only_disabled (track_env e o) h'
  end.

Definition checked_at (hp : list cell) (a : nat) : bool :=
  match layers_at hp a with [] => false | _ => true end.

(* pairs (address in the model, identity in the specification) of everything that was given to / returned by a decorator *)
Definition slots (os : list dobj) (sos : list sobj) : list (nat * nat) :=
  flat_map (fun p => [(o_given (fst p), so_given (snd p)); (o_res (fst p), so_res (snd p))]) (combine os sos).

Definition slots_ok (hp : list cell) (beh : list (option bool)) (sl : list (nat * nat)) : Prop :=
  (forall a id, In (a, id) sl -> a < List.length hp /\ id < List.length beh) /\
  (forall a id b, In (a, id) sl -> nth_error beh id = Some (Some b) -> checked_at hp a = b) /\
  (forall a id a' id', In (a, id) sl -> In (a', id') sl -> nth_error beh id = Some (Some false) -> a = a' -> id = id').

Lemma slots_ok_incl : forall hp beh sl sl', (forall x, In x sl' -> In x sl) -> slots_ok hp beh sl -> slots_ok hp beh sl'.
Proof.
  intros hp beh sl sl' I (A & B & C). split; [|split].
  - intros; apply A; auto.
  - intros; eapply B; eauto.
  - intros; eapply C; eauto.
Qed.

Lemma layers_at_app_old : forall hp c a, a < List.length hp -> layers_at (hp ++ [c]) a = layers_at hp a.
Proof. intros. unfold layers_at. now rewrite nth_error_app1. Qed.

Lemma checked_at_app_old : forall hp c a, a < List.length hp -> checked_at (hp ++ [c]) a = checked_at hp a.
Proof. intros. unfold checked_at. now rewrite layers_at_app_old. Qed.

(* a fresh plain cell / a fresh plain identity *)
Lemma slots_ok_fresh : forall hp beh sl c, c_layers c = [] -> slots_ok hp beh sl ->
  slots_ok (hp ++ [c]) (beh ++ [Some false]) ((List.length hp, List.length beh) :: sl).
Proof.
  intros hp beh sl c Hc (A & B & C). split; [|split].
  - intros a id [E|H]; [inversion E; subst|apply A in H]; rewrite !app_length; simpl; lia.
  - intros a id b [E|H] Hb.
    + inversion E; subst. rewrite nth_last in Hb. inversion Hb; subst.
      unfold checked_at, layers_at. now rewrite nth_last, Hc.
    + pose proof (A _ _ H) as [La Li]. rewrite nth_error_app1 in Hb by auto. rewrite checked_at_app_old by auto. eauto.
  - intros a id a' id' [E|H] [E'|H'] Hb Ha.
    + congruence.
    + inversion E; subst. apply A in H'. lia.
    + inversion E'; subst. apply A in H. lia.
    + pose proof (A _ _ H) as [La Li]. rewrite nth_error_app1 in Hb by auto. eauto.
Qed.

(* the very object comes back: nothing changes *)
Lemma slots_ok_identity : forall hp beh sl a g, slots_ok hp beh ((a, g) :: sl) ->
  slots_ok hp beh (sl ++ [(a, g); (a, g)]).
Proof.
  intros. eapply slots_ok_incl; [|eassumption].
  intros x Hx. apply in_app_or in Hx as [Hx|[Hx|[Hx|[]]]]; subst; simpl; auto.
Qed.

Lemma beh_after_taint : forall (beh : list (option bool)) g id b, id < List.length beh ->
  nth_error (set_nth beh g None ++ [Some true]) id = Some (Some b) -> id <> g /\ nth_error beh id = Some (Some b).
Proof.
  intros beh g id b L Hb. rewrite nth_error_app1 in Hb by now rewrite set_nth_length.
  destruct (Nat.eq_dec g id) as [->|Ne]; [rewrite set_nth_same in Hb by auto; discriminate|].
  rewrite set_nth_other in Hb by auto. auto.
Qed.

Lemma beh_after_taint_new : forall (beh : list (option bool)) g, 
  nth_error (set_nth beh g None ++ [Some true]) (List.length beh) = Some (Some true).
Proof.
  intros. replace (List.length beh) with (List.length (set_nth beh g None)) by apply set_nth_length. apply nth_last.
Qed.

(* an enabled function decorator: a new function around the given one, which is not touched *)
Lemma slots_ok_wrap_fn : forall hp beh sl a g c, c_layers c <> [] -> slots_ok hp beh ((a, g) :: sl) ->
  slots_ok (hp ++ [c]) (set_nth beh g None ++ [Some true]) (sl ++ [(a, g); (List.length hp, List.length beh)]).
Proof.
  intros hp beh sl a g c Hc (A & B & C).
  assert (IN : forall x, In x (sl ++ [(a, g); (List.length hp, List.length beh)]) ->
               In x ((a, g) :: sl) \/ x = (List.length hp, List.length beh)).
  { intros x Hx. apply in_app_or in Hx as [Hx|[Hx|[Hx|[]]]]; subst; simpl; auto. }
  split; [|split].
  - intros x id H. apply IN in H as [H|E]; [apply A in H|inversion E; subst];
      rewrite !app_length, set_nth_length; simpl; lia.
  - intros x id b H Hb. apply IN in H as [H|E].
    + pose proof (A _ _ H) as [La Li]. apply beh_after_taint in Hb as [Ne Hb]; auto. rewrite checked_at_app_old by auto. eauto.
    + inversion E; subst. rewrite beh_after_taint_new in Hb. inversion Hb; subst. unfold checked_at, layers_at. rewrite nth_last.
      destruct (c_layers c); congruence.
  - intros x id x' id' H H' Hb Hx. apply IN in H as [H|E].
    + pose proof (A _ _ H) as [La Li]. apply beh_after_taint in Hb as [Ne Hb]; auto.
      apply IN in H' as [H'|E']; [eauto|]. inversion E'; subst. lia.
    + inversion E; subst. rewrite beh_after_taint_new in Hb. discriminate.
Qed.

(* an enabled class decorator: the given class is changed in place *)
Lemma slots_ok_wrap_cls : forall hp beh sl a g c, c_layers c <> [] -> slots_ok hp beh ((a, g) :: sl) ->
  slots_ok (set_nth hp a c) (set_nth beh g None ++ [Some true]) (sl ++ [(a, g); (a, List.length beh)]).
Proof.
  intros hp beh sl a g c Hc (A & B & C).
  assert (IN : forall x, In x (sl ++ [(a, g); (a, List.length beh)]) -> In x ((a, g) :: sl) \/ x = (a, List.length beh)).
  { intros x Hx. apply in_app_or in Hx as [Hx|[Hx|[Hx|[]]]]; subst; simpl; auto. }
  assert (AG : In (a, g) ((a, g) :: sl)) by now left.
  pose proof (A _ _ AG) as [LA LG].
  assert (CH : checked_at (set_nth hp a c) a = true).
  { unfold checked_at, layers_at. rewrite set_nth_same by auto. destruct (c_layers c); congruence. }
  split; [|split].
  - intros x id H. apply IN in H as [H|E]; [apply A in H|inversion E; subst];
      rewrite !app_length, !set_nth_length; simpl; lia.
  - intros x id b H Hb. apply IN in H as [H|E].
    + pose proof (A _ _ H) as [La Li]. apply beh_after_taint in Hb as [Ne Hb]; auto.
      destruct (Nat.eq_dec a x) as [<-|Nx].
      * rewrite CH. destruct b; auto. exfalso. apply Ne. eapply C; eauto.
      * unfold checked_at, layers_at. rewrite set_nth_other by auto. apply (B _ _ _ H Hb).
    + inversion E; subst. rewrite beh_after_taint_new in Hb. inversion Hb; subst. exact CH.
  - intros x id x' id' H H' Hb Hx. apply IN in H as [H|E].
    + pose proof (A _ _ H) as [La Li]. apply beh_after_taint in Hb as [Ne Hb]; auto.
      apply IN in H' as [H'|E']; [eauto|]. inversion E'; subst. exfalso. apply Ne. eapply C; eauto.
    + inversion E; subst. rewrite beh_after_taint_new in Hb. discriminate.
Qed.

Lemma slots_app : forall os sos o so, List.length os = List.length sos ->
  slots (os ++ [o]) (sos ++ [so]) = slots os sos ++ [(o_given o, so_given so); (o_res o, so_res so)].
Proof.
  induction os as [|o' os IH]; intros [|so' sos] o so L; simpl in L; try discriminate; [reflexivity|].
  unfold slots in *. simpl. rewrite IH by lia. reflexivity.
Qed.

Lemma Forall2_len : forall A B (R : A -> B -> Prop) l l', Forall2 R l l' -> List.length l = List.length l'.
Proof. induction 1; simpl; auto. Qed.

Section Good.
  Variable M : switch_model.
  Hypothesis G : good M = true.

  Lemma good_parts :
    (forall e, in_domain e = true -> is_enabled M e = Ok (spec_enabled e)) /\
    sm_enable M = SetVal "1" /\ sm_disable M = SetVal "0" /\
    (forall d, honours M d = true) /\ refs_ok M = true /\
    (forall d, wraps M d = true) /\ sm_var M = "ENABLE_PEDANTIC"%string.
  Proof.
    pose proof G as G'. unfold good in G'.
    apply andb_true_iff in G' as [G' GR]. apply andb_true_iff in G' as [G' GW]. apply andb_true_iff in G' as [G' GH].
    apply andb_true_iff in G' as [G' GD]. apply andb_true_iff in G' as [G' GE]. apply andb_true_iff in G' as [GV GI].
    split; [|split; [|split; [|split; [|split; [|split]]]]].
    - intros e He. apply in_domain_cases in He.
      rewrite forallb_forall in GI. specialize (GI e He). unfold outcome_is in GI.
      destruct (is_enabled M e) as [x|]; [|discriminate]. apply Bool.eqb_prop in GI. now subst.
    - unfold assigns in GE. destruct (sm_enable M); [|discriminate]. f_equal. now apply String.eqb_eq.
    - unfold assigns in GD. destruct (sm_disable M); [|discriminate]. f_equal. now apply String.eqb_eq.
    - intro d. rewrite forallb_forall in GH. apply GH. destruct d; simpl; auto 10.
    - exact GR.
    - intro d. rewrite forallb_forall in GW. apply GW. destruct d; simpl; auto 10.
    - now apply String.eqb_eq.
  Qed.

  (* the cross-reference obligation: no wrapper reads the switch when it is called, no factory when the decorator object
     is created *)
  Lemma no_phase_reads : forall (sel : phase -> bool),
    (forall p, sel p = true -> match p with PhCall _ | PhCreate _ => True | _ => False end) ->
    existsb (fun r => reads_switch (er_kind r) && sel (er_phase r)) (sm_refs M) = false.
  Proof.
    intros sel Hsel. destruct good_parts as (_ & _ & _ & _ & R & _). unfold refs_ok in R.
    apply not_true_is_false. intro H. apply existsb_exists in H as (r & Hin & Hr).
    rewrite forallb_forall in R. specialize (R r Hin).
    apply andb_true_iff in Hr as [Hk Hp]. apply Hsel in Hp. unfold ref_allowed in R.
    destruct (er_phase r); try contradiction; destruct (er_kind r); simpl in *; discriminate.
  Qed.

  Lemma no_call_reads : forall d, call_reads M d = false.
  Proof.
    intro d. unfold call_reads.
    apply (no_phase_reads (fun p => match p with PhCall s => site_relevant d s | _ => false end)).
    intros []; try discriminate; auto.
  Qed.

  Lemma no_create_reads : forall d, create_reads M d = false.
  Proof.
    intro d. unfold create_reads.
    apply (no_phase_reads (fun p => match p with PhCreate s => site_relevant d s | _ => false end)).
    intros []; try discriminate; auto.
  Qed.

  (* a wrapper that was installed checks, whatever the variable says when it is called *)
  Lemma layer_checked : forall d e, layer_behaviour M d e = Checked.
  Proof.
    intros d e. destruct good_parts as (_ & _ & _ & _ & _ & W & _). unfold layer_behaviour. now rewrite W, no_call_reads.
  Qed.

  Lemma layers_behaviour_env_independent : forall ws e1 e2, layers_behaviour M ws e1 = layers_behaviour M ws e2.
  Proof. intros [|d ws] e1 e2; simpl; [reflexivity|]. now rewrite !layer_checked. Qed.

  Lemma layers_behaviour_shape : forall ws e, layers_behaviour M ws e = match ws with [] => Plain | _ => Checked end.
  Proof. intros [|d ws] e; simpl; [reflexivity|]. now rewrite layer_checked. Qed.

  Lemma cell_behaviour_checked_at : forall s a e,
    cell_behaviour M s a e = if checked_at (heap s) a then Checked else Plain.
  Proof.
    intros. unfold cell_behaviour, checked_at. rewrite layers_behaviour_shape. now destruct (layers_at (heap s) a).
  Qed.

  (* applying a decorator under an in-domain value of the variable *)
  Lemma decorate_at_dom : forall s d a e, in_domain e = true ->
    decorate_at M s d a e =
    if spec_enabled e then wrap s d a else (add_obj s {| o_fam := fam d; o_given := a; o_res := a |}, ODeco true).
  Proof.
    intros s d a e Hd. destruct good_parts as (IE & _ & _ & HON & _).
    unfold decorate_at. rewrite HON, (IE _ Hd). now destruct (spec_enabled e).
  Qed.

  Definition rel (s : state) (sp : sstate) : Prop :=
    env s = s_env sp /\ in_domain (env s) = true /\ map fst (decos s) = s_decos sp /\
    Forall2 (fun o so => o_fam o = so_fam so) (objs s) (s_objs sp) /\
    slots_ok (heap s) (s_beh sp) (slots (objs s) (s_objs sp)).

  (* the decorator is applied to the object at address a / with identity g *)
  Lemma decorate_on_refines : forall s sp d a g,
    env s = s_env sp -> in_domain (env s) = true -> map fst (decos s) = s_decos sp ->
    Forall2 (fun o so => o_fam o = so_fam so) (objs s) (s_objs sp) ->
    slots_ok (heap s) (s_beh sp) ((a, g) :: slots (objs s) (s_objs sp)) ->
    rel (fst (decorate_at M s d a (env s))) (fst (spec_decorate_on sp (fam d) g)) /\
    snd (decorate_at M s d a (env s)) = snd (spec_decorate_on sp (fam d) g).
  Proof.
    intros s sp d a g He Hd Hk Hf Hs. rewrite (decorate_at_dom s d a _ Hd). unfold spec_decorate_on. rewrite <- He.
    pose proof (Forall2_len _ _ _ _ _ Hf) as HL.
    destruct (spec_enabled (env s)).
    - unfold wrap. destruct (fam d) eqn:F; cbn [fst snd]; (split; [|reflexivity]); unfold rel;
        cbn [add_obj alloc env heap objs decos s_env s_beh s_objs s_decos];
        (split; [auto|split; [auto|split; [auto|split]]]).
      + apply Forall2_app; auto.
      + rewrite slots_app by auto. cbn [o_given o_res so_given so_res]. apply slots_ok_wrap_fn; [discriminate|exact Hs].
      + apply Forall2_app; auto.
      + rewrite slots_app by auto. cbn [o_given o_res so_given so_res]. apply slots_ok_wrap_cls; [discriminate|exact Hs].
    - cbn [fst snd]. split; [|reflexivity]. unfold rel; cbn [add_obj env heap objs decos s_env s_beh s_objs s_decos].
      split; [auto|split; [auto|split; [auto|split]]].
      + apply Forall2_app; auto.
      + rewrite slots_app by auto. cbn [o_given o_res so_given so_res]. apply slots_ok_identity. exact Hs.
  Qed.

  Lemma decorate_fresh_refines : forall s sp d b, rel s sp ->
    rel (fst (decorate_fresh M s d b (env s))) (fst (spec_decorate_fresh sp (fam d))) /\
    snd (decorate_fresh M s d b (env s)) = snd (spec_decorate_fresh sp (fam d)).
  Proof.
    intros s sp d b (He & Hd & Hk & Hf & Hs). unfold decorate_fresh, spec_decorate_fresh.
    apply (decorate_on_refines (alloc s {| c_layers := []; c_base := b |})
             {| s_env := s_env sp; s_beh := s_beh sp ++ [Some false]; s_objs := s_objs sp; s_decos := s_decos sp |});
      cbn [alloc env heap objs decos s_env s_beh s_objs s_decos]; auto.
    apply slots_ok_fresh; auto.
  Qed.

  Lemma in_slots : forall os sos i o so, nth_error os i = Some o -> nth_error sos i = Some so ->
    In (o_given o, so_given so) (slots os sos) /\ In (o_res o, so_res so) (slots os sos).
  Proof.
    induction os as [|o' os IH]; intros sos i o so Ho Hso; [destruct i; discriminate|].
    destruct sos as [|so' sos]; [destruct i; discriminate|].
    destruct i; simpl in Ho, Hso.
    - inversion Ho; inversion Hso; subst. unfold slots; simpl. auto.
    - destruct (IH sos i o so Ho Hso). unfold slots in *; simpl. auto.
  Qed.

  Lemma Forall2_nth : forall A B (R : A -> B -> Prop) l l' i, Forall2 R l l' ->
    match nth_error l i, nth_error l' i with
    | Some x, Some y => R x y
    | None, None => True
    | _, _ => False
    end.
  Proof.
    intros A B R l l' i H. revert i. induction H; intros [|i]; simpl; auto. apply IHForall2.
  Qed.

  Definition obs_meetsb_refl : forall o, obs_meets o o.
  Proof. intro; now right. Qed.

  Lemma resolve_spec : forall s sp src, rel s sp ->
    match resolve M s src, spec_src sp src with
    | Some (d, e), Some d' => d = d' /\ e = env s
    | None, None => True
    | _, _ => False
    end.
  Proof.
    intros s sp [d|k] (He & Hd & Hk & _); simpl; [auto|].
    rewrite <- Hk, nth_error_map'. destruct (nth_error (decos s) k) as [[d e0]|]; simpl; auto.
    now rewrite no_create_reads.
  Qed.

  Lemma rel_env : forall s sp e, rel s sp -> in_domain e = true -> rel (with_env s e) (s_with_env sp e).
  Proof. intros s sp e (He & Hd & Hk & Hf & Hs) De. unfold rel; cbn. auto. Qed.

  Lemma step_refines : forall s sp o, rel s sp -> op_in_domain o = true ->
    rel (fst (step M s o)) (fst (spec_step sp o)) /\ obs_meets (snd (step M s o)) (snd (spec_step sp o)).
  Proof.
    intros s sp o R Hop. pose proof R as (He & Hd & Hk & Hf & Hs).
    destruct good_parts as (IE & EN & DI & HON & _).
    assert (LIFT : forall (x : state * obs) (y : sstate * obs), rel (fst x) (fst y) /\ snd x = snd y ->
                   rel (fst x) (fst y) /\ obs_meets (snd x) (snd y)).
    { intros x y [A B]. split; [exact A|now right]. }
    destruct o; cbn [step spec_step op_in_domain] in *.
    - split; [apply rel_env; auto|now right].
    - split; [apply rel_env; auto|now right].
    - rewrite EN. split; [apply rel_env; auto|now right].
    - rewrite DI. split; [apply rel_env; auto|now right].
    - apply LIFT. change (spec_fam d) with (fam d). apply decorate_fresh_refines; exact R.
    - pose proof (Forall2_nth _ _ _ _ _ i Hf) as N.
      destruct (nth_error (objs s) i) as [o|] eqn:Eo, (nth_error (s_objs sp) i) as [so|] eqn:Eso; try contradiction;
        cbn [fst snd]; (split; [exact R|]); [|now right].
      destruct (in_slots _ _ _ _ _ Eo Eso) as [_ IN].
      destruct (nth_error (s_beh sp) (so_res so)) as [[b|]|] eqn:Eb; try (now left).
      destruct Hs as (_ & B & _). specialize (B _ _ _ IN Eb).
      unfold call_behaviour. rewrite cell_behaviour_checked_at, B. right. now destruct b.
    - split; [|now right]. unfold rel; cbn [fst snd env heap objs decos s_env s_beh s_objs s_decos].
      rewrite map_app, Hk. auto.
    - pose proof (resolve_spec s sp (Kept k) R) as RS. cbn [spec_src] in RS.
      destruct (resolve M s (Kept k)) as [[d e]|], (nth_error (s_decos sp) k) as [d'|]; try contradiction.
      + destruct RS as [<- ->]. apply LIFT. change (spec_fam d) with (fam d). apply decorate_fresh_refines; exact R.
      + split; [exact R|now right].
    - pose proof (Forall2_nth _ _ _ _ _ i Hf) as N. pose proof (resolve_spec s sp src R) as RS.
      destruct (nth_error (objs s) i) as [o|] eqn:Eo, (nth_error (s_objs sp) i) as [so|] eqn:Eso; try contradiction;
        [|split; [exact R|now right]].
      destruct (resolve M s src) as [[d e]|], (spec_src sp src) as [d'|]; try contradiction;
        [|split; [exact R|now right]].
      destruct RS as [<- ->]. change (spec_fam d) with (fam d). rewrite <- N.
      destruct (family_eqb (fam d) (o_fam o)) eqn:F; [|split; [exact R|now right]].
      apply family_eqb_eq in F. rewrite <- F. apply LIFT.
      destruct (in_slots _ _ _ _ _ Eo Eso) as [ING INR].
      destruct again; apply decorate_on_refines; auto; destruct Hs as (A & B & C);
        (split; [|split]); intros; try (destruct H as [E|H]; [inversion E; subst|]); eauto;
        try (destruct H0 as [E0|H0]; [inversion E0; subst|]); eauto.
    - pose proof (Forall2_nth _ _ _ _ _ i Hf) as N. pose proof (resolve_spec s sp src R) as RS.
      destruct (nth_error (objs s) i) as [o|] eqn:Eo, (nth_error (s_objs sp) i) as [so|] eqn:Eso; try contradiction;
        [|split; [exact R|now right]].
      destruct (resolve M s src) as [[d e]|], (spec_src sp src) as [d'|]; try contradiction;
        [|split; [exact R|now right]].
      destruct RS as [<- ->]. change (spec_fam d) with (fam d). rewrite <- N.
      destruct (o_fam o); [split; [exact R|now right]|].
      destruct (fam d) eqn:F; [split; [exact R|now right]|].
      apply LIFT. rewrite <- F. apply decorate_fresh_refines; exact R.
  Qed.

  Lemma run_refines : forall h s sp, rel s sp -> forallb op_in_domain h = true ->
    Forall2 obs_meets (snd (run_ops M s h)) (snd (spec_run sp h)).
  Proof.
    induction h as [|o h IH]; intros s sp R Hh; [constructor|].
    simpl in Hh. apply andb_true_iff in Hh as [Ho Hh].
    destruct (step_refines s sp o R Ho) as [R' Hb]. simpl.
    destruct (step M s o) as [s1 b]. destruct (spec_step sp o) as [sp1 b']. simpl in *.
    specialize (IH s1 sp1 R' Hh).
    destruct (run_ops M s1 h). destruct (spec_run sp1 h). simpl in *. now constructor.
  Qed.

  Lemma rel_init : forall e, in_domain e = true ->
    rel {| env := e; heap := []; objs := []; decos := [] |} {| s_env := e; s_beh := []; s_objs := []; s_decos := [] |}.
  Proof.
    intros e He. unfold rel; cbn. split; [auto|split; [auto|split; [auto|split; [constructor|]]]].
    split; [|split]; intros; contradiction.
  Qed.
End Good.

(* ---- what a step can do to the heap, the objects and the kept decorator objects (any model M) ------------------------- *)
Section Frame.
  Variable M : switch_model.

  (* every object refers to cells that exist *)
  Definition wf (s : state) : Prop :=
    forall i o, nth_error (objs s) i = Some o -> o_given o < List.length (heap s) /\ o_res o < List.length (heap s).

  Lemma decorate_at_cases : forall s d a e,
    decorate_at M s d a e = (s, ODecoRaise) \/
    decorate_at M s d a e = (add_obj s {| o_fam := fam d; o_given := a; o_res := a |}, ODeco true) \/
    decorate_at M s d a e = wrap s d a.
  Proof.
    intros. unfold decorate_at. destruct (honours M d); [destruct (is_enabled M e) as [[|]|]|]; auto.
  Qed.

  Ltac dcases s d a e :=
    destruct (decorate_at_cases s d a e) as [E|[E|E]]; rewrite E; clear E;
    [|cbn [fst snd add_obj alloc heap objs decos env]
     |unfold wrap; destruct (fam d); cbn [fst snd add_obj alloc heap objs decos env]].

  Lemma decorate_at_env : forall s d a e,
    env (fst (decorate_at M s d a e)) = env s /\ decos (fst (decorate_at M s d a e)) = decos s.
  Proof. intros. dcases s d a e; auto. Qed.

  Lemma decorate_at_len : forall s d a e, List.length (heap s) <= List.length (heap (fst (decorate_at M s d a e))).
  Proof. intros. dcases s d a e; rewrite ?app_length, ?set_nth_length; simpl; lia. Qed.

  Lemma decorate_at_frame : forall s d a e b, b <> a -> b < List.length (heap s) ->
    nth_error (heap (fst (decorate_at M s d a e))) b = nth_error (heap s) b.
  Proof.
    intros s d a e b Ne L. dcases s d a e; auto.
    - apply nth_error_app1. exact L.
    - apply set_nth_other. auto.
  Qed.

  Lemma decorate_at_mono : forall s d a e b, b < List.length (heap s) ->
    exists ws, layers_at (heap (fst (decorate_at M s d a e))) b = ws ++ layers_at (heap s) b.
  Proof.
    intros s d a e b L. dcases s d a e; try (exists []; reflexivity).
    - exists []. simpl. now apply layers_at_app_old.
    - destruct (Nat.eq_dec a b) as [->|Ne].
      + exists [d]. unfold layers_at at 1. now rewrite set_nth_same.
      + exists []. unfold layers_at. now rewrite set_nth_other.
  Qed.

  (* at most one object is added; it was made from the object at a, and what came back exists *)
  Lemma decorate_at_objs : forall s d a e, a < List.length (heap s) ->
    objs (fst (decorate_at M s d a e)) = objs s \/
    exists o, objs (fst (decorate_at M s d a e)) = objs s ++ [o] /\ o_given o = a /\
              o_res o < List.length (heap (fst (decorate_at M s d a e))).
  Proof.
    intros s d a e L. dcases s d a e; auto; right; eexists; (split; [reflexivity|]); cbn [o_given o_res]; split; auto.
    - rewrite app_length; simpl; lia.
    - now rewrite set_nth_length.
  Qed.

  Lemma alloc_frame : forall s c b, b < List.length (heap s) -> nth_error (heap (alloc s c)) b = nth_error (heap s) b.
  Proof. intros. cbn. now apply nth_error_app1. Qed.

  Definition step_target (s : state) (o : op) : option nat :=
    match o with
    | ORedecorate src i again =>
      match nth_error (objs s) i with Some o' => Some (if again then o_res o' else o_given o') | None => None end
    | _ => None
    end.

  (* a step leaves every existing cell alone, except possibly the one a re-decoration is applied to *)
  Lemma step_frame : forall s o b, b < List.length (heap s) -> step_target s o <> Some b ->
    nth_error (heap (fst (step M s o))) b = nth_error (heap s) b.
  Proof.
    intros s o b L T. destruct o; cbn [step fst with_env heap]; auto.
    - unfold decorate_fresh. rewrite decorate_at_frame; [now apply alloc_frame|lia|cbn; rewrite app_length; simpl; lia].
    - destruct (nth_error (objs s) i); auto.
    - destruct (resolve M s (Kept k)) as [[d e]|]; auto.
      unfold decorate_fresh. rewrite decorate_at_frame; [now apply alloc_frame|lia|cbn; rewrite app_length; simpl; lia].
    - cbn [step_target] in T. destruct (nth_error (objs s) i) as [o'|]; auto.
      destruct (resolve M s src) as [[d e]|]; auto. destruct (family_eqb (fam d) (o_fam o')); auto.
      apply decorate_at_frame; auto; congruence.
    - destruct (nth_error (objs s) i) as [o'|]; auto. destruct (resolve M s src) as [[d e]|]; auto.
      destruct (o_fam o'); auto. destruct (fam d); auto.
      unfold decorate_fresh. rewrite decorate_at_frame; [now apply alloc_frame|lia|cbn; rewrite app_length; simpl; lia].
  Qed.

  Lemma step_len : forall s o, List.length (heap s) <= List.length (heap (fst (step M s o))).
  Proof.
    intros s o.
    assert (FR : forall d b e, List.length (heap s) <= List.length (heap (fst (decorate_fresh M s d b e)))).
    { intros. unfold decorate_fresh. etransitivity; [|apply decorate_at_len]. cbn. rewrite app_length. lia. }
    destruct o; cbn [step fst with_env heap]; auto.
    - destruct (nth_error (objs s) i); auto.
    - destruct (resolve M s (Kept k)) as [[d e]|]; auto.
    - destruct (nth_error (objs s) i) as [o'|]; auto. destruct (resolve M s src) as [[d e]|]; auto.
      destruct (family_eqb (fam d) (o_fam o')); auto. apply decorate_at_len.
    - destruct (nth_error (objs s) i) as [o'|]; auto. destruct (resolve M s src) as [[d e]|]; auto.
      destruct (o_fam o'); auto. destruct (fam d); auto.
  Qed.

  (* wrappers are only ever added, outermost *)
  Lemma step_mono : forall s o b, b < List.length (heap s) ->
    exists ws, layers_at (heap (fst (step M s o))) b = ws ++ layers_at (heap s) b.
  Proof.
    intros s o b L.
    assert (FR : forall d bs e, exists ws, layers_at (heap (fst (decorate_fresh M s d bs e))) b = ws ++ layers_at (heap s) b).
    { intros. unfold decorate_fresh.
      destruct (decorate_at_mono (alloc s {| c_layers := []; c_base := bs |}) d (List.length (heap s)) e b) as [ws E].
      - cbn. rewrite app_length. lia.
      - exists ws. rewrite E. cbn [alloc heap]. now rewrite layers_at_app_old. }
    destruct o; cbn [step fst with_env heap]; try (exists []; reflexivity); auto.
    - destruct (nth_error (objs s) i); exists []; reflexivity.
    - destruct (resolve M s (Kept k)) as [[d e]|]; auto. exists []; reflexivity.
    - destruct (nth_error (objs s) i) as [o'|]; [|exists []; reflexivity].
      destruct (resolve M s src) as [[d e]|]; [|exists []; reflexivity].
      destruct (family_eqb (fam d) (o_fam o')); [|exists []; reflexivity]. now apply decorate_at_mono.
    - destruct (nth_error (objs s) i) as [o'|]; [|exists []; reflexivity].
      destruct (resolve M s src) as [[d e]|]; [|exists []; reflexivity].
      destruct (o_fam o'); [exists []; reflexivity|]. destruct (fam d); [exists []; reflexivity|]. auto.
  Qed.

  (* objects are only ever appended, and refer to cells that exist *)
  Lemma step_objs : forall s o, wf s ->
    objs (fst (step M s o)) = objs s \/
    exists o', objs (fst (step M s o)) = objs s ++ [o'] /\
               o_given o' < List.length (heap (fst (step M s o))) /\ o_res o' < List.length (heap (fst (step M s o))).
  Proof.
    intros s o W.
    assert (DA : forall s0 d a e, objs s0 = objs s -> a < List.length (heap s0) ->
              objs (fst (decorate_at M s0 d a e)) = objs s \/
              exists o', objs (fst (decorate_at M s0 d a e)) = objs s ++ [o'] /\
                         o_given o' < List.length (heap (fst (decorate_at M s0 d a e))) /\
                         o_res o' < List.length (heap (fst (decorate_at M s0 d a e)))).
    { intros s0 d a e EO L. destruct (decorate_at_objs s0 d a e L) as [E|(o' & E & Hg & Hr)]; [left; congruence|].
      right. exists o'. rewrite E, EO. split; [reflexivity|]. split; [|exact Hr].
      rewrite Hg. eapply Nat.lt_le_trans; [exact L|apply decorate_at_len]. }
    assert (FR : forall d b e, objs (fst (decorate_fresh M s d b e)) = objs s \/
              exists o', objs (fst (decorate_fresh M s d b e)) = objs s ++ [o'] /\
                         o_given o' < List.length (heap (fst (decorate_fresh M s d b e))) /\
                         o_res o' < List.length (heap (fst (decorate_fresh M s d b e)))).
    { intros. unfold decorate_fresh. apply DA; [reflexivity|]. cbn. rewrite app_length; simpl; lia. }
    destruct o; cbn [step fst with_env objs]; auto.
    - destruct (nth_error (objs s) i); auto.
    - destruct (resolve M s (Kept k)) as [[d e]|]; auto.
    - destruct (nth_error (objs s) i) as [o'|] eqn:Eo; auto. destruct (resolve M s src) as [[d e]|]; auto.
      destruct (family_eqb (fam d) (o_fam o')); auto. apply DA; [reflexivity|].
      destruct (W _ _ Eo). now destruct again.
    - destruct (nth_error (objs s) i) as [o'|]; auto. destruct (resolve M s src) as [[d e]|]; auto.
      destruct (o_fam o'); auto. destruct (fam d); auto.
  Qed.

  Lemma step_wf : forall s o, wf s -> wf (fst (step M s o)).
  Proof.
    intros s o W i x H. pose proof (step_len s o) as L.
    destruct (step_objs s o W) as [E|(o' & E & Hg & Hr)]; rewrite E in H.
    - destruct (W _ _ H). lia.
    - destruct (Nat.lt_ge_cases i (List.length (objs s))) as [Li|Li].
      + rewrite nth_error_app1 in H by auto. destruct (W _ _ H). lia.
      + rewrite nth_error_app2 in H by auto. destruct (i - List.length (objs s)) as [|[|n]]; simpl in H; try discriminate.
        inversion H; subst. auto.
  Qed.

  Lemma step_keeps_obj : forall s o i x, wf s -> nth_error (objs s) i = Some x ->
    nth_error (objs (fst (step M s o))) i = Some x.
  Proof.
    intros s o i x W H. destruct (step_objs s o W) as [E|(o' & E & _)]; rewrite E; auto.
    rewrite nth_error_app1; auto. apply nth_error_Some; congruence.
  Qed.

  Lemma step_decos : forall s o, decos (fst (step M s o)) = decos s \/ exists c, decos (fst (step M s o)) = decos s ++ [c].
  Proof.
    intros s o.
    assert (FR : forall d b e, decos (fst (decorate_fresh M s d b e)) = decos s).
    { intros. unfold decorate_fresh. now rewrite (proj2 (decorate_at_env _ _ _ _)). }
    destruct o; cbn [step fst with_env decos]; eauto.
    - destruct (nth_error (objs s) i); auto.
    - destruct (resolve M s (Kept k)) as [[d e]|]; auto.
    - destruct (nth_error (objs s) i) as [o'|]; auto. destruct (resolve M s src) as [[d e]|]; auto.
      destruct (family_eqb (fam d) (o_fam o')); auto. left. apply decorate_at_env.
    - destruct (nth_error (objs s) i) as [o'|]; auto. destruct (resolve M s src) as [[d e]|]; auto.
      destruct (o_fam o'); auto. destruct (fam d); auto.
  Qed.

  Lemma step_keeps_deco : forall s o k c, nth_error (decos s) k = Some c -> nth_error (decos (fst (step M s o))) k = Some c.
  Proof.
    intros s o k c H. destruct (step_decos s o) as [E|[c' E]]; rewrite E; auto.
    rewrite nth_error_app1; auto. apply nth_error_Some; congruence.
  Qed.

  Lemma run_wf : forall h s, wf s -> wf (fst (run_ops M s h)).
  Proof.
    induction h as [|o h IH]; intros s W; [exact W|].
    simpl. pose proof (step_wf s o W) as W1. destruct (step M s o) as [s1 b]. simpl in W1.
    specialize (IH s1 W1). destruct (run_ops M s1 h). exact IH.
  Qed.

  Lemma run_keeps_obj : forall h s i x, wf s -> nth_error (objs s) i = Some x ->
    nth_error (objs (fst (run_ops M s h))) i = Some x.
  Proof.
    induction h as [|o h IH]; intros s i x W H; [exact H|].
    simpl. pose proof (step_keeps_obj s o i x W H) as H1. pose proof (step_wf s o W) as W1.
    destruct (step M s o) as [s1 b]. simpl in H1, W1.
    specialize (IH s1 i x W1 H1). destruct (run_ops M s1 h). exact IH.
  Qed.

  Lemma run_keeps_deco : forall h s k c, nth_error (decos s) k = Some c ->
    nth_error (decos (fst (run_ops M s h))) k = Some c.
  Proof.
    induction h as [|o h IH]; intros s k c H; [exact H|].
    simpl. pose proof (step_keeps_deco s o k c H) as H1. destruct (step M s o) as [s1 b]. simpl in H1.
    specialize (IH s1 k c H1). destruct (run_ops M s1 h). exact IH.
  Qed.

  Lemma run_len : forall h s, List.length (heap s) <= List.length (heap (fst (run_ops M s h))).
  Proof.
    induction h as [|o h IH]; intros s; [auto|].
    simpl. pose proof (step_len s o) as H1. destruct (step M s o) as [s1 b]. simpl in H1.
    specialize (IH s1). destruct (run_ops M s1 h). simpl in *. lia.
  Qed.

  (* a cell that checks keeps checking, whatever happens *)
  Lemma run_mono : forall h s b, b < List.length (heap s) ->
    exists ws, layers_at (heap (fst (run_ops M s h))) b = ws ++ layers_at (heap s) b.
  Proof.
    induction h as [|o h IH]; intros s b L; [exists []; reflexivity|].
    simpl. destruct (step_mono s o b L) as [ws1 H1]. pose proof (step_len s o) as L1.
    destruct (step M s o) as [s1 x]. simpl in H1, L1.
    destruct (IH s1 b) as [ws2 H2]; [lia|]. destruct (run_ops M s1 h). simpl in *.
    exists (ws2 ++ ws1). now rewrite H2, H1, app_assoc.
  Qed.
End Frame.

Section Inert.
  Variable M : switch_model.
  Hypothesis G : good M = true.

  Lemma step_env : forall s o, env (fst (step M s o)) = track_env (env s) o.
  Proof.
    intros s o. destruct (good_parts M G) as (_ & EN & DI & _).
    assert (FR : forall d b e, env (fst (decorate_fresh M s d b e)) = env s).
    { intros. unfold decorate_fresh. now rewrite (proj1 (decorate_at_env M _ _ _ _)). }
    destruct o; cbn [step fst with_env env track_env]; auto.
    - now rewrite EN.
    - now rewrite DI.
    - destruct (nth_error (objs s) i); auto.
    - destruct (resolve M s (Kept k)) as [[d e]|]; auto.
    - destruct (nth_error (objs s) i) as [o'|]; auto. destruct (resolve M s src) as [[d e]|]; auto.
      destruct (family_eqb (fam d) (o_fam o')); auto. apply decorate_at_env.
    - destruct (nth_error (objs s) i) as [o'|]; auto. destruct (resolve M s src) as [[d e]|]; auto.
      destruct (o_fam o'); auto. destruct (fam d); auto.
  Qed.

  Lemma resolve_env : forall s src d e, resolve M s src = Some (d, e) -> e = env s.
  Proof.
    intros s [d0|k] d e H; simpl in H; [congruence|].
    destruct (nth_error (decos s) k) as [[d1 e1]|]; [|discriminate]. rewrite (no_create_reads M G) in H. congruence.
  Qed.

  (* a re-decoration while the variable is "0" changes no cell *)
  Lemma step_redeco_disabled : forall s src i again, env s = Val "0"%string ->
    heap (fst (step M s (ORedecorate src i again))) = heap s.
  Proof.
    intros s src i again E. cbn [step]. destruct (nth_error (objs s) i) as [o'|]; auto.
    destruct (resolve M s src) as [[d e]|] eqn:R; auto. apply resolve_env in R. subst e.
    destruct (family_eqb (fam d) (o_fam o')); auto.
    rewrite (decorate_at_dom M G) by (rewrite E; reflexivity). rewrite E. reflexivity.
  Qed.

  Lemma step_inert : forall s o b, b < List.length (heap s) ->
    (no_redeco o || match env s with Val v => String.eqb v "0" | Unset => false end) = true ->
    nth_error (heap (fst (step M s o))) b = nth_error (heap s) b.
  Proof.
    intros s o b L H. destruct (no_redeco o) eqn:N.
    - apply step_frame; auto. destruct o; simpl in *; congruence.
    - destruct o; try discriminate. simpl in H. destruct (env s) as [|v] eqn:E; [discriminate|].
      apply String.eqb_eq in H. subst v. now rewrite step_redeco_disabled.
  Qed.

  Lemma run_inert : forall h s b, b < List.length (heap s) -> redeco_only_disabled (env s) h = true ->
    nth_error (heap (fst (run_ops M s h))) b = nth_error (heap s) b.
  Proof.
    induction h as [|o h IH]; intros s b L H; [reflexivity|].
    simpl in H. apply andb_true_iff in H as [H1 H2].
    simpl. pose proof (step_inert s o b L H1) as E1. pose proof (step_len M s o) as L1. pose proof (step_env s o) as V1.
    destruct (step M s o) as [s1 x]. simpl in E1, L1, V1.
    rewrite <- V1 in H2. specialize (IH s1 b ltac:(lia) H2). destruct (run_ops M s1 h). simpl in *. congruence.
  Qed.

  Lemma call_obs : forall s i o, nth_error (objs s) i = Some o ->
    snd (step M s (OCall i)) = OCalled (if checked_at (heap s) (o_res o) then Checked else Plain).
  Proof.
    intros s i o H. cbn [step]. rewrite H. cbn [snd]. unfold call_behaviour. now rewrite (cell_behaviour_checked_at M G).
  Qed.

  (* toggles, other decorations, calls, sub-classing, and re-decorations made while the variable is "0" are inert *)
  Lemma inert_call : forall s i o h, wf s -> nth_error (objs s) i = Some o -> redeco_only_disabled (env s) h = true ->
    snd (step M (fst (run_ops M s h)) (OCall i)) = snd (step M s (OCall i)).
  Proof.
    intros s i o h W H R. rewrite (call_obs _ _ _ (run_keeps_obj M h s i o W H)), (call_obs _ _ _ H).
    destruct (W _ _ H) as [_ L]. unfold checked_at, layers_at. now rewrite (run_inert h s _ L R).
  Qed.

  (* whatever happens (re-decorations while enabled included), an object that checks keeps checking *)
  Lemma checked_stays : forall s i o h, wf s -> nth_error (objs s) i = Some o ->
    snd (step M s (OCall i)) = OCalled Checked -> snd (step M (fst (run_ops M s h)) (OCall i)) = OCalled Checked.
  Proof.
    intros s i o h W H C. rewrite (call_obs _ _ _ (run_keeps_obj M h s i o W H)). rewrite (call_obs _ _ _ H) in C.
    destruct (W _ _ H) as [_ L]. destruct (run_mono M h s _ L) as [ws E].
    unfold checked_at in *. rewrite E. destruct (layers_at (heap s) (o_res o)); [discriminate|]. now destruct ws.
  Qed.

  (* the decorator is applied, under an in-domain value of the variable, to the object at address a *)
  Lemma decorate_at_result : forall s d a, in_domain (env s) = true -> wf s -> a < List.length (heap s) ->
    let r := decorate_at M s d a (env s) in
    snd r = ODeco (negb (spec_enabled (env s))) /\ wf (fst r) /\ env (fst r) = env s /\
    exists o, nth_error (objs (fst r)) (List.length (objs s)) = Some o /\ o_fam o = fam d /\ o_given o = a /\
              checked_at (heap (fst r)) (o_res o) = (spec_enabled (env s) || checked_at (heap s) a) /\
              (spec_enabled (env s) = false -> heap (fst r) = heap s /\ o_res o = a).
  Proof.
    intros s d a Hd W L r. subst r. rewrite (decorate_at_dom M G) by auto.
    assert (WF : forall hp' o, List.length (heap s) <= List.length hp' -> o_given o < List.length hp' ->
                 o_res o < List.length hp' ->
                 wf {| env := env s; heap := hp'; objs := objs s ++ [o]; decos := decos s |}).
    { intros hp' o L1 L2 L3 i x H. cbn [objs heap] in *.
      destruct (Nat.lt_ge_cases i (List.length (objs s))) as [Li|Li].
      - rewrite nth_error_app1 in H by auto. destruct (W _ _ H). lia.
      - rewrite nth_error_app2 in H by auto. destruct (i - List.length (objs s)) as [|[|n]]; simpl in H; try discriminate.
        inversion H; subst. auto. }
    destruct (spec_enabled (env s)) eqn:En; cbn [negb orb].
    - unfold wrap. destruct (fam d) eqn:F; cbn [fst snd add_obj alloc env heap objs decos].
      + split; [reflexivity|]. split; [apply WF; simpl; rewrite ?app_length; simpl; lia|]. split; [reflexivity|].
        eexists. split; [apply nth_last|]. cbn [o_fam o_given o_res]. repeat split; try discriminate.
        unfold checked_at, layers_at. now rewrite nth_last.
      + split; [reflexivity|]. split; [apply WF; simpl; rewrite ?set_nth_length; simpl; lia|]. split; [reflexivity|].
        eexists. split; [apply nth_last|]. cbn [o_fam o_given o_res]. repeat split; try discriminate.
        unfold checked_at, layers_at. now rewrite set_nth_same.
    - cbn [fst snd add_obj env heap objs decos]. split; [reflexivity|]. split; [apply WF; simpl; lia|].
      split; [reflexivity|]. eexists. split; [apply nth_last|]. cbn [o_fam o_given o_res]. repeat split; reflexivity.
  Qed.

  Lemma decorate_fresh_result : forall s d b, in_domain (env s) = true -> wf s ->
    let r := decorate_fresh M s d b (env s) in
    snd r = ODeco (negb (spec_enabled (env s))) /\ wf (fst r) /\ env (fst r) = env s /\
    (forall a, a < List.length (heap s) -> nth_error (heap (fst r)) a = nth_error (heap s) a) /\
    exists o, nth_error (objs (fst r)) (List.length (objs s)) = Some o /\ o_fam o = fam d /\
              o_given o = List.length (heap s) /\ base_at (heap (fst r)) (o_given o) = b /\
              checked_at (heap (fst r)) (o_res o) = spec_enabled (env s) /\
              (spec_enabled (env s) = false -> o_res o = o_given o).
  Proof.
    intros s d b Hd W r. subst r. unfold decorate_fresh.
    set (s0 := alloc s {| c_layers := []; c_base := b |}).
    assert (W0 : wf s0).
    { intros i x H. cbn in H. destruct (W _ _ H). cbn. rewrite app_length. simpl. lia. }
    assert (L0 : List.length (heap s) < List.length (heap s0)) by (cbn; rewrite app_length; simpl; lia).
    destruct (decorate_at_result s0 d (List.length (heap s)) Hd W0 L0) as (O & W1 & E1 & o & Ho & Hf & Hg & Hc & Hi).
    change (env s0) with (env s) in *. change (objs s0) with (objs s) in *.
    split; [exact O|]. split; [exact W1|]. split; [exact E1|]. split.
    - intros a La. rewrite (decorate_at_frame M) by lia. now apply alloc_frame.
    - exists o. split; [exact Ho|]. split; [exact Hf|]. split; [exact Hg|]. split; [|split].
      + rewrite Hg. unfold base_at.
        assert (BA : forall s1 d1 a1 e1, a1 < List.length (heap s1) ->
                     base_at (heap (fst (decorate_at M s1 d1 a1 e1))) a1 = base_at (heap s1) a1).
        { intros s1 d1 a1 e1 La. unfold base_at.
          destruct (decorate_at_cases M s1 d1 a1 e1) as [E|[E|E]]; rewrite E; clear E; auto.
          unfold wrap. destruct (fam d1); cbn [fst add_obj alloc heap].
          - now rewrite nth_error_app1.
          - rewrite set_nth_same by auto. reflexivity. }
        fold (base_at (heap (fst (decorate_at M s0 d (List.length (heap s)) (env s)))) (List.length (heap s))).
        rewrite BA by exact L0. unfold base_at. cbn [s0 alloc heap]. now rewrite nth_last.
      + rewrite Hc. replace (checked_at (heap s0) (List.length (heap s))) with false; [apply orb_false_r|].
        unfold checked_at, layers_at. cbn [s0 alloc heap]. now rewrite nth_last.
      + intro En. destruct (Hi En) as [_ Hr]. congruence.
  Qed.

  (* a freshly decorated object: what it does when called later is fixed by the value the guard saw - it checks after ANY
     history if the switch was on; it stays plain after any history whose re-decorations all happen while the variable is "0" *)
  Lemma fresh_then_called : forall s d b h, in_domain (env s) = true -> wf s ->
    (spec_enabled (env s) = true \/ redeco_only_disabled (env s) h = true) ->
    snd (step M (fst (run_ops M (fst (decorate_fresh M s d b (env s))) h)) (OCall (List.length (objs s)))) =
    OCalled (if spec_enabled (env s) then Checked else Plain).
  Proof.
    intros s d b h Hd W HH.
    destruct (decorate_fresh_result s d b Hd W) as (_ & W1 & E1 & _ & o & Ho & _ & _ & _ & Hc & _).
    set (s1 := fst (decorate_fresh M s d b (env s))) in *.
    assert (C1 : snd (step M s1 (OCall (List.length (objs s)))) = OCalled (if spec_enabled (env s) then Checked else Plain)).
    { rewrite (call_obs _ _ _ Ho), Hc. reflexivity. }
    destruct (spec_enabled (env s)) eqn:En.
    - now apply (checked_stays s1 _ o h W1 Ho).
    - destruct HH as [HH|HH]; [discriminate|]. rewrite <- C1. apply (inert_call s1 _ o h W1 Ho). now rewrite E1.
  Qed.
End Inert.

Section Headlines.
  Variable M : switch_model.
  Hypothesis G : good M = true.

  Lemma wf_init : forall e, wf {| env := e; heap := []; objs := []; decos := [] |}.
  Proof. intros e i o H. destruct i; discriminate. Qed.

  Lemma wf_with_env : forall s e, wf s -> wf (with_env s e).
  Proof. intros s e W i o H. exact (W i o H). Qed.

  Lemma decorate_fresh_obs : forall s d b e, in_domain e = true ->
    snd (decorate_fresh M s d b e) = ODeco (negb (spec_enabled e)).
  Proof.
    intros. unfold decorate_fresh. rewrite (decorate_at_dom M G) by auto.
    destruct (spec_enabled e); [|reflexivity]. unfold wrap. now destruct (fam d).
  Qed.

  (* when is_enabled cannot raise, a decoration always adds exactly one object, at the next position *)
  Lemma decorate_appends : (forall e, exists b, is_enabled M e = Ok b) ->
    forall s d, exists o, nth_error (objs (fst (step M s (ODecorate d)))) (List.length (objs s)) = Some o.
  Proof.
    intros T s d. cbn [step]. unfold decorate_fresh, decorate_at. destruct (T (env s)) as [b Hb].
    destruct (honours M d); [rewrite Hb; destruct b|]; unfold wrap; try destruct (fam d);
      cbn [fst add_obj alloc objs]; rewrite nth_last; eauto.
  Qed.

  Lemma read_only_at_decoration : (forall e, exists b, is_enabled M e = Ok b) -> forall s d h1 h2, wf s ->
    redeco_only_disabled (env s) h1 = true -> redeco_only_disabled (env s) h2 = true ->
    let s0 := fst (step M s (ODecorate d)) in
    let i := List.length (objs s) in
    snd (step M (fst (run_ops M s0 h1)) (OCall i)) = snd (step M (fst (run_ops M s0 h2)) (OCall i)).
  Proof.
    intros T s d h1 h2 W H1 H2 s0 i. destruct (decorate_appends T s d) as [o E]. fold s0 i in E.
    assert (W0 : wf s0) by now apply step_wf.
    assert (E0 : env s0 = env s) by (unfold s0; now rewrite (step_env M G)).
    rewrite (inert_call M G s0 i o h1 W0 E) by now rewrite E0.
    rewrite (inert_call M G s0 i o h2 W0 E) by now rewrite E0. reflexivity.
  Qed.

  Lemma behaviour_fixed : forall s d h, in_domain (env s) = true -> wf s ->
    (spec_enabled (env s) = true \/ redeco_only_disabled (env s) h = true) ->
    snd (step M (fst (run_ops M (fst (step M s (ODecorate d))) h)) (OCall (List.length (objs s)))) =
    OCalled (if spec_enabled (env s) then Checked else Plain).
  Proof. intros s d h Hd W HH. cbn [step]. now apply fresh_then_called. Qed.

  (* create a decorator object in ANY state, let ANY history pass, apply it: only the value of the variable at the moment of
     application counts - for the identity of the result and for the behaviour of the result under later histories *)
  Lemma read_at_application : forall s d h h', wf s ->
    let s1 := fst (step M s (OCreate d)) in
    let k := List.length (decos s) in
    let s2 := fst (run_ops M s1 h) in
    in_domain (env s2) = true ->
    (spec_enabled (env s2) = true \/ redeco_only_disabled (env s2) h' = true) ->
    snd (step M s2 (OApply k)) = ODeco (negb (spec_enabled (env s2))) /\
    snd (step M (fst (run_ops M (fst (step M s2 (OApply k))) h')) (OCall (List.length (objs s2)))) =
      OCalled (if spec_enabled (env s2) then Checked else Plain).
  Proof.
    intros s d h h' W s1 k s2 Hd HH.
    assert (E : nth_error (decos s2) k = Some (d, env s)).
    { apply run_keeps_deco. subst s1 k. cbn [step fst decos]. apply nth_last. }
    assert (W2 : wf s2).
    { apply run_wf. subst s1. intros i o H. exact (W i o H). }
    clearbody s2. clear s1.
    cbn [step resolve]. rewrite E, (no_create_reads M G). split.
    - now apply decorate_fresh_obs.
    - now apply fresh_then_called.
  Qed.

  (* a decorator is applied to an object that went through a decorator before *)
  Lemma redecoration : forall s src i (again : bool) o d e, in_domain (env s) = true -> wf s ->
    nth_error (objs s) i = Some o -> resolve M s src = Some (d, e) -> fam d = o_fam o ->
    let a := if again then o_res o else o_given o in
    let r := step M s (ORedecorate src i again) in
    let n := List.length (objs s) in
    snd r = ODeco (negb (spec_enabled (env s))) /\
    (spec_enabled (env s) = false ->
       heap (fst r) = heap s /\ nth_error (objs (fst r)) n = Some {| o_fam := fam d; o_given := a; o_res := a |}) /\
    (forall h, spec_enabled (env s) = true -> snd (step M (fst (run_ops M (fst r) h)) (OCall n)) = OCalled Checked) /\
    (forall h, spec_enabled (env s) = false -> redeco_only_disabled (env s) h = true ->
       snd (step M (fst (run_ops M (fst r) h)) (OCall n)) = OCalled (cell_behaviour M s a (env s))).
  Proof.
    intros s src i again o d e Hd W Ho R F a r n.
    pose proof (resolve_env M G _ _ _ _ R) as ->.
    assert (La : a < List.length (heap s)) by (destruct (W _ _ Ho); subst a; now destruct again).
    assert (Er : r = decorate_at M s d a (env s)).
    { subst r. cbn [step]. rewrite Ho, R. apply family_eqb_eq in F. now rewrite F. }
    destruct (decorate_at_result M G s d a Hd W La) as (O & W1 & E1 & o1 & Ho1 & Hf1 & Hg1 & Hc1 & Hi1).
    rewrite <- Er in *. fold n in Ho1.
    split; [exact O|]. split; [|split].
    - intro En. destruct (Hi1 En) as [Hh Hr]. split; [exact Hh|]. rewrite Ho1. f_equal.
      destruct o1; cbn in *; congruence.
    - intros h En. apply (checked_stays M G (fst r) n o1 h W1 Ho1). rewrite (call_obs M G _ _ _ Ho1), Hc1, En. reflexivity.
    - intros h En RD. rewrite (inert_call M G (fst r) n o1 h W1 Ho1) by now rewrite E1.
      rewrite (call_obs M G _ _ _ Ho1), Hc1, En. cbn [orb]. now rewrite (cell_behaviour_checked_at M G).
  Qed.

  (* a fresh subclass of an object that went through a decorator (at whatever state of the switch) is decorated *)
  Lemma subclass_decoration : forall s src i o d e, in_domain (env s) = true -> wf s ->
    nth_error (objs s) i = Some o -> o_fam o = FCls -> resolve M s src = Some (d, e) -> fam d = FCls ->
    let r := step M s (OSubDecorate src i) in
    let n := List.length (objs s) in
    snd r = ODeco (negb (spec_enabled (env s))) /\
    (forall a, a < List.length (heap s) -> nth_error (heap (fst r)) a = nth_error (heap s) a) /\
    (exists o', nth_error (objs (fst r)) n = Some o' /\ base_at (heap (fst r)) (o_given o') = Some (o_res o) /\
                (spec_enabled (env s) = false -> o_res o' = o_given o') /\
                forall e', inherited_behaviour M (fst r) (o_given o') e' = Some (cell_behaviour M s (o_res o) e')) /\
    (forall h, spec_enabled (env s) = true \/ redeco_only_disabled (env s) h = true ->
       snd (step M (fst (run_ops M (fst r) h)) (OCall n)) = OCalled (if spec_enabled (env s) then Checked else Plain)).
  Proof.
    intros s src i o d e Hd W Ho Fo R Fd r n.
    pose proof (resolve_env M G _ _ _ _ R) as ->.
    assert (Er : r = decorate_fresh M s d (Some (o_res o)) (env s)).
    { subst r. cbn [step]. now rewrite Ho, R, Fo, Fd. }
    destruct (decorate_fresh_result M G s d (Some (o_res o)) Hd W) as (O & W1 & E1 & FR & o1 & Ho1 & Hf1 & Hg1 & Hb1 & Hc1 & Hi1).
    rewrite <- Er in *. fold n in Ho1.
    split; [exact O|]. split; [exact FR|]. split.
    - exists o1. split; [exact Ho1|]. split; [exact Hb1|]. split; [exact Hi1|].
      intro e'. unfold inherited_behaviour. unfold base_at in Hb1.
      destruct (nth_error (heap (fst r)) (o_given o1)) as [[ls [b|]]|]; cbn in Hb1; try discriminate.
      inversion Hb1; subst b. f_equal. unfold cell_behaviour, layers_at. destruct (W _ _ Ho) as [_ L]. now rewrite (FR _ L).
    - intros h HH. rewrite Er. now apply fresh_then_called.
  Qed.
End Headlines.
