(* Lemmas of C09.  Everything is proved for an arbitrary switch_model M satisfying the
   executable condition `good M`; Props/C09.v discharges `good` for the regenerated model
   by computation.                                                                         *)
From Coq Require Import List Bool String Arith Lia.
From PV Require Import Base.Exn Model.EnvSwitch Spec.EnvSpec.
Import ListNotations.
Open Scope list_scope.

Definition dom_envs : list envv := [Unset; Val "0"; Val "1"]%string.

Definition outcome_is (o : outcome bool) (b : bool) : bool :=
  match o with Ok x => Bool.eqb x b | Raise _ => false end.
Definition assigns (a : env_assign) (s : string) : bool :=
  match a with SetVal v => String.eqb v s | DelVar => false end.

Definition refs_ok (M : switch_model) : bool := forallb ref_allowed (sm_refs M).
Definition n_guards (M : switch_model) : nat := List.length (filter is_guard_ref (sm_refs M)).

Definition good (M : switch_model) : bool :=
  String.eqb (sm_var M) "ENABLE_PEDANTIC"
  && forallb (fun e => outcome_is (is_enabled M e) (spec_enabled e)) dom_envs
  && assigns (sm_enable M) "1" && assigns (sm_disable M) "0"
  && forallb (honours M) all_dkinds
  && forallb (wraps M) all_dkinds
  && refs_ok M.

Lemma in_domain_cases : forall e, in_domain e = true -> In e dom_envs.
Proof.
  intros [|s] H; simpl in *; [now left|].
  apply orb_true_iff in H as [H|H]; apply String.eqb_eq in H; subst; auto.
Qed.

Section Good.
  Variable M : switch_model.
  Hypothesis G : good M = true.

  Lemma good_parts :
    (forall e, in_domain e = true -> is_enabled M e = Ok (spec_enabled e)) /\
    sm_enable M = SetVal "1" /\ sm_disable M = SetVal "0" /\
    (forall d, honours M d = true) /\ refs_ok M = true /\
    (forall d, wraps M d = true) /\ sm_var M = "ENABLE_PEDANTIC"%string.
  Proof.
    pose proof G as G'. unfold good in G'.
    apply andb_true_iff in G' as [G' GR]. apply andb_true_iff in G' as [G' GW]. apply andb_true_iff in G' as [G' GH].
    apply andb_true_iff in G' as [G' GD]. apply andb_true_iff in G' as [G' GE]. apply andb_true_iff in G' as [GV GI].
    split; [|split; [|split; [|split; [|split; [|split]]]]].
    - intros e He. apply in_domain_cases in He.
      rewrite forallb_forall in GI. specialize (GI e He). unfold outcome_is in GI.
      destruct (is_enabled M e) as [x|]; [|discriminate]. apply Bool.eqb_prop in GI. now subst.
    - unfold assigns in GE. destruct (sm_enable M); [|discriminate]. f_equal. now apply String.eqb_eq.
    - unfold assigns in GD. destruct (sm_disable M); [|discriminate]. f_equal. now apply String.eqb_eq.
    - intro d. rewrite forallb_forall in GH. apply GH. destruct d; simpl; auto 10.
    - exact GR.
    - intro d. rewrite forallb_forall in GW. apply GW. destruct d; simpl; auto 10.
    - now apply String.eqb_eq.
  Qed.

  (* the cross-reference obligation: no wrapper reads the switch when it is called, no factory when the decorator object
     is created *)
  Lemma no_phase_reads : forall (sel : phase -> bool),
    (forall p, sel p = true -> match p with PhCall _ | PhCreate _ => True | _ => False end) ->
    existsb (fun r => reads_switch (er_kind r) && sel (er_phase r)) (sm_refs M) = false.
  Proof.
    intros sel Hsel. destruct good_parts as (_ & _ & _ & _ & R & _). unfold refs_ok in R.
    apply not_true_is_false. intro H. apply existsb_exists in H as (r & Hin & Hr).
    rewrite forallb_forall in R. specialize (R r Hin).
    apply andb_true_iff in Hr as [Hk Hp]. apply Hsel in Hp. unfold ref_allowed in R.
    destruct (er_phase r); try contradiction; destruct (er_kind r); simpl in *; discriminate.
  Qed.

  Lemma no_call_reads : forall d, call_reads M d = false.
  Proof.
    intro d. unfold call_reads.
    apply (no_phase_reads (fun p => match p with PhCall s => site_relevant d s | _ => false end)).
    intros []; try discriminate; auto.
  Qed.

  Lemma no_create_reads : forall d, create_reads M d = false.
  Proof.
    intro d. unfold create_reads.
    apply (no_phase_reads (fun p => match p with PhCreate s => site_relevant d s | _ => false end)).
    intros []; try discriminate; auto.
  Qed.

  Lemma call_behaviour_env_independent : forall o e1 e2, call_behaviour M o e1 = call_behaviour M o e2.
  Proof. intros [x|d x] e1 e2; simpl; [reflexivity|]. rewrite no_call_reads. now destruct (wraps M d). Qed.

  Lemma wrapped_checked : forall d x e, call_behaviour M (Wrapped d x) e = Checked.
  Proof.
    intros d x e. destruct good_parts as (_ & _ & _ & _ & _ & W & _). simpl. now rewrite W, no_call_reads.
  Qed.

  (* applying a decorator under an in-domain value of the variable *)
  Lemma decorate_dom : forall s d x e, in_domain e = true ->
    decorate M s d x e = if spec_enabled e then (add_obj s (Wrapped d x), ODeco false) else (add_obj s (Identity x), ODeco true).
  Proof.
    intros s d x e Hd. destruct good_parts as (IE & _ & _ & HON & _).
    unfold decorate. rewrite HON, (IE _ Hd). now destruct (spec_enabled e).
  Qed.

  Definition tag (o : dobj) : bool := match o with Identity _ => false | Wrapped _ _ => true end.
  Definition rel (s : state) (sp : sstate) : Prop :=
    env s = s_env sp /\ map tag (objs s) = s_objs sp /\ in_domain (env s) = true /\ List.length (decos s) = s_decos sp.

  Lemma nth_error_map' : forall A B (f : A -> B) l i, nth_error (map f l) i = option_map f (nth_error l i).
  Proof. induction l; destruct i; simpl; auto. Qed.

  Lemma decorate_refines : forall s sp d x, rel s sp ->
    rel (fst (decorate M s d x (env s))) (fst (spec_decorate sp)) /\ snd (decorate M s d x (env s)) = snd (spec_decorate sp).
  Proof.
    intros s sp d x (He & Ho & Hd & Hk). rewrite (decorate_dom s d x _ Hd). unfold spec_decorate, rel. rewrite <- He.
    destruct (spec_enabled (env s)); cbn [fst snd add_obj env objs decos s_env s_objs s_decos negb];
      rewrite map_app, Ho; auto.
  Qed.

  Lemma step_refines : forall s sp o, rel s sp -> op_in_domain o = true ->
    rel (fst (step M s o)) (fst (spec_step sp o)) /\ snd (step M s o) = snd (spec_step sp o).
  Proof.
    intros s sp o R Hop. pose proof R as (He & Ho & Hd & Hk).
    destruct good_parts as (IE & EN & DI & HON & _).
    destruct o; cbn [step spec_step op_in_domain] in *.
    - unfold rel; cbn; repeat split; auto.
    - unfold rel; cbn; repeat split; auto.
    - rewrite EN. unfold rel; cbn; repeat split; auto.
    - rewrite DI. unfold rel; cbn; repeat split; auto.
    - apply decorate_refines; exact R.
    - rewrite <- Ho, nth_error_map'. destruct (nth_error (objs s) i) as [[x|d x]|]; simpl option_map; cbn [tag fst snd];
        repeat split; auto.
      now rewrite wrapped_checked.
    - unfold rel; cbn [fst snd env objs decos s_env s_objs s_decos]. rewrite app_length, Nat.add_1_r. repeat split; auto.
    - rewrite <- Hk. destruct (Nat.ltb k (List.length (decos s))) eqn:L.
      + apply Nat.ltb_lt in L. apply nth_error_Some in L. destruct (nth_error (decos s) k) as [[d e0]|]; [|congruence].
        rewrite no_create_reads. apply decorate_refines; exact R.
      + apply Nat.ltb_ge in L. apply nth_error_None in L. rewrite L. cbn [fst snd]. split; [exact R|reflexivity].
  Qed.

  Lemma run_refines : forall h s sp, rel s sp -> forallb op_in_domain h = true ->
    snd (run_ops M s h) = snd (spec_run sp h).
  Proof.
    induction h as [|o h IH]; intros s sp R Hh; [reflexivity|].
    simpl in Hh. apply andb_true_iff in Hh as [Ho Hh].
    destruct (step_refines s sp o R Ho) as [R' Hb]. simpl.
    destruct (step M s o) as [s1 b]. destruct (spec_step sp o) as [sp1 b']. simpl in *.
    specialize (IH s1 sp1 R' Hh).
    destruct (run_ops M s1 h). destruct (spec_run sp1 h). simpl in *. now subst.
  Qed.

  (* objects and decorator objects are only ever appended: no operation alters what exists already *)
  Lemma decorate_keeps : forall s d x e i o, nth_error (objs s) i = Some o ->
    nth_error (objs (fst (decorate M s d x e))) i = Some o.
  Proof.
    intros s d x e i o H. unfold decorate.
    destruct (honours M d); [destruct (is_enabled M e) as [[|]|]|]; cbn [fst add_obj objs]; auto;
      rewrite nth_error_app1; auto; apply nth_error_Some; congruence.
  Qed.

  Lemma decorate_decos : forall s d x e, decos (fst (decorate M s d x e)) = decos s.
  Proof.
    intros s d x e. unfold decorate.
    destruct (honours M d); [destruct (is_enabled M e) as [[|]|]|]; reflexivity.
  Qed.

  Lemma step_keeps : forall s o i x, nth_error (objs s) i = Some x -> nth_error (objs (fst (step M s o))) i = Some x.
  Proof.
    intros s o i x H. destruct o; cbn [step fst with_env objs]; auto.
    - now apply decorate_keeps.
    - destruct (nth_error (objs s) i0); auto.
    - destruct (nth_error (decos s) k) as [[d e0]|]; auto. now apply decorate_keeps.
  Qed.

  Lemma step_keeps_deco : forall s o k c, nth_error (decos s) k = Some c -> nth_error (decos (fst (step M s o))) k = Some c.
  Proof.
    intros s o k c H. destruct o; cbn [step fst with_env decos]; auto.
    - now rewrite decorate_decos.
    - destruct (nth_error (objs s) i); auto.
    - rewrite nth_error_app1; auto. apply nth_error_Some; congruence.
    - destruct (nth_error (decos s) k0) as [[d e0]|]; auto. now rewrite decorate_decos.
  Qed.

  Lemma run_keeps : forall h s i x, nth_error (objs s) i = Some x ->
    nth_error (objs (fst (run_ops M s h))) i = Some x.
  Proof.
    induction h as [|o h IH]; intros s i x H; [exact H|].
    simpl. pose proof (step_keeps s o i x H) as H1. destruct (step M s o) as [s1 b]. simpl in H1.
    specialize (IH s1 i x H1). destruct (run_ops M s1 h). exact IH.
  Qed.

  Lemma run_keeps_deco : forall h s k c, nth_error (decos s) k = Some c ->
    nth_error (decos (fst (run_ops M s h))) k = Some c.
  Proof.
    induction h as [|o h IH]; intros s k c H; [exact H|].
    simpl. pose proof (step_keeps_deco s o k c H) as H1. destruct (step M s o) as [s1 b]. simpl in H1.
    specialize (IH s1 k c H1). destruct (run_ops M s1 h). exact IH.
  Qed.

  Lemma read_only_at_decoration : forall s i x h1 h2, nth_error (objs s) i = Some x ->
    snd (step M (fst (run_ops M s h1)) (OCall i)) = snd (step M (fst (run_ops M s h2)) (OCall i)).
  Proof.
    intros s i x h1 h2 H. simpl.
    rewrite (run_keeps h1 s i x H), (run_keeps h2 s i x H). simpl. f_equal.
    apply call_behaviour_env_independent.
  Qed.

  Lemma nth_last : forall A (l : list A) a, nth_error (l ++ [a]) (List.length l) = Some a.
  Proof. intros. rewrite nth_error_app2, Nat.sub_diag by auto. reflexivity. Qed.

  (* what a freshly decorated object does when called later is fixed by the value e the guard saw *)
  Lemma decorated_then_called : forall s d x e h, in_domain e = true ->
    snd (step M (fst (run_ops M (fst (decorate M s d x e)) h)) (OCall (List.length (objs s)))) =
    OCalled (if spec_enabled e then Checked else Plain).
  Proof.
    intros s d x e h Hd.
    set (o := if spec_enabled e then Wrapped d x else Identity x).
    assert (E : nth_error (objs (fst (decorate M s d x e))) (List.length (objs s)) = Some o).
    { rewrite (decorate_dom s d x e Hd). unfold o. destruct (spec_enabled e); cbn [fst add_obj objs]; apply nth_last. }
    remember (fst (decorate M s d x e)) as s0 eqn:E0. clear E0.
    cbn [step]. rewrite (run_keeps h _ _ _ E). cbn [snd]. f_equal. unfold o.
    destruct (spec_enabled e); [apply wrapped_checked|reflexivity].
  Qed.

  (* headline: what a decorated object does when called is fixed by the switch at decoration, whatever happens in between *)
  Lemma behaviour_fixed : forall s d x h, in_domain (env s) = true ->
    snd (step M (fst (run_ops M (fst (step M s (ODecorate d x))) h)) (OCall (List.length (objs s)))) =
    OCalled (if spec_enabled (env s) then Checked else Plain).
  Proof. intros s d x h Hd. cbn [step]. now apply decorated_then_called. Qed.

  (* create a decorator object in ANY state, let ANY history pass, apply it: only the value of the variable at the moment of
     application counts - for the identity of the result and for the behaviour of the result under any later history *)
  Lemma read_at_application : forall s d h x h',
    let s1 := fst (step M s (OCreate d)) in
    let k := List.length (decos s) in
    let s2 := fst (run_ops M s1 h) in
    in_domain (env s2) = true ->
    snd (step M s2 (OApply k x)) = ODeco (negb (spec_enabled (env s2))) /\
    snd (step M (fst (run_ops M (fst (step M s2 (OApply k x))) h')) (OCall (List.length (objs s2)))) =
      OCalled (if spec_enabled (env s2) then Checked else Plain).
  Proof.
    intros s d h x h' s1 k s2 Hd.
    assert (E : nth_error (decos s2) k = Some (d, env s)).
    { apply run_keeps_deco. subst s1 k. cbn [step fst decos]. apply nth_last. }
    clearbody s2. clear s1.
    cbn [step]. rewrite E, no_create_reads. split.
    - rewrite (decorate_dom _ _ _ _ Hd). now destruct (spec_enabled (env s2)).
    - now apply decorated_then_called.
  Qed.

  (* when is_enabled cannot raise, a decoration always adds exactly one object, at the next position *)
  Lemma decorate_appends : (forall e, exists b, is_enabled M e = Ok b) ->
    forall s d x, exists o, nth_error (objs (fst (step M s (ODecorate d x)))) (List.length (objs s)) = Some o.
  Proof.
    intros T s d x. cbn [step]. unfold decorate. destruct (T (env s)) as [b Hb].
    destruct (honours M d); [rewrite Hb; destruct b|]; cbn [fst add_obj objs]; rewrite nth_last; eauto.
  Qed.

  Lemma decorate_obs : forall s d x, in_domain (env s) = true ->
    step M s (ODecorate d x) =
    if spec_enabled (env s)
    then (add_obj s (Wrapped d x), ODeco false)
    else (add_obj s (Identity x), ODeco true).
  Proof. intros s d x Hd. cbn [step]. now apply decorate_dom. Qed.
End Good.
