(* C16: the property theorems of Props/C16.v, derived from with_use_cases / nest_spec / seq_spec,
   and the comparison with plain contextlib.contextmanager over a try/finally generator.  *)
From Coq Require Import List Arith Bool Lia.
From PV Require Import Base.Exn Model.Generator Model.Contextlib Model.SafeCtx Model.CtxEval Spec.CtxSpec
  Gen.CtxShape Proofs.CtxCore Proofs.CtxNest.
Import ListNotations.

Lemma cleanups_cons : forall id ev l,
  cleanups_of id (rev (ev :: l)) = cleanups_of id (rev l) + (if is_cleanup_of id ev then 1 else 0).
Proof.
  intros. unfold cleanups_of. cbn [rev]. rewrite filter_app, app_length. cbn [filter].
  destruct (is_cleanup_of id ev); reflexivity.
Qed.

Ltac start var u body w Hwf H :=
  pose proof (with_use_cases var u body w Hwf) as H; cbv zeta in H.

Lemma cleanup_once : forall var u body w,
  body_wf body -> u_setup u = SetupOk ->
  let w1 := emit (ev_setup u) w in
  let ow := body (u_val u) w1 in
  let r := with_use var (P var) u body w in
  jrev (snd r) = ev_cleanup u :: jrev (snd ow) /\
  cleanups_of (u_id u) (journal (snd r)) = S (cleanups_of (u_id u) (journal (snd ow))).
Proof.
  intros var u body w Hwf Hs. cbv zeta. start var u body w Hwf H. rewrite Hs in H.
  destruct H as [Hj _]. split; [exact Hj|].
  unfold journal. rewrite Hj, cleanups_cons. unfold ev_cleanup, is_cleanup_of. rewrite Nat.eqb_refl. lia.
Qed.

Lemma journal_exact : forall var u tag o w,
  u_setup u = SetupOk ->
  journal (snd (with_use var (P var) u (simple_body tag o) w))
  = journal w ++ [ev_setup u; EvBody tag (u_val u); ev_cleanup u].
Proof.
  intros var u tag o w Hs. start var u (simple_body tag o) w (simple_body_wf tag o) H. rewrite Hs in H.
  destruct H as [Hj _]. unfold journal. rewrite Hj.
  destruct o; cbn; rewrite <- !app_assoc; reflexivity.
Qed.

Lemma body_exception_unchanged : forall var u body w e w2,
  body_wf body -> u_setup u = SetupOk ->
  body (u_val u) (emit (ev_setup u) w) = (WRaise e, w2) ->
  let r := with_use var (P var) u body w in
  match u_cleanup u with
  | CleanRaise c => exists e', fst r = WRaise e' /\ eid e < eid e' /\ delivered var c (OGen (u_id u) 1) e'
  | _ => fst r = WRaise e
  end.
Proof.
  intros var u body w e w2 Hwf Hs Hb. cbv zeta. start var u body w Hwf H. rewrite Hs, Hb in H.
  pose proof (Hwf _ _ _ _ Hb) as He. cbn [wf_res] in He.
  destruct H as [_ [_ H]]. cbn [fst snd] in H. destruct (u_cleanup u); auto.
  destruct H as [e' [H1 [H2 H3]]]. exists e'. repeat split; auto. lia.
Qed.

Lemma early_exit : forall var u body w o w2,
  body_wf body -> u_setup u = SetupOk ->
  body (u_val u) (emit (ev_setup u) w) = (o, w2) -> (o = WNormal \/ o = WEarly) ->
  let r := with_use var (P var) u body w in
  jrev (snd r) = ev_cleanup u :: jrev w2 /\
  match u_cleanup u with
  | CleanRaise c => exists e', fst r = WRaise e' /\ delivered var c (OGen (u_id u) 1) e'
  | _ => fst r = o
  end.
Proof.
  intros var u body w o w2 Hwf Hs Hb _. cbv zeta. start var u body w Hwf H. rewrite Hs, Hb in H.
  destruct H as [Hj [_ H]]. cbn [fst snd] in *. split; [exact Hj|].
  destruct (u_cleanup u); auto. destruct H as [e' [H1 [_ H3]]]. exists e'. auto.
Qed.

Lemma as_binds : forall var u tag o w,
  u_setup u = SetupOk ->
  In (EvBody tag (u_val u)) (journal (snd (with_use var (P var) u (simple_body tag o) w))) /\
  forall y, In (EvBody tag y) (journal (snd (with_use var (P var) u (simple_body tag o) w))) ->
            In (EvBody tag y) (journal w) \/ y = u_val u.
Proof.
  intros var u tag o w Hs. rewrite (journal_exact var u tag o w Hs). split.
  - apply in_or_app. right. cbn. auto.
  - intros y Hy. apply in_app_or in Hy as [Hy|Hy]; [left; exact Hy|]. right.
    cbn in Hy. unfold ev_setup, ev_cleanup in Hy.
    destruct Hy as [Hy|[Hy|[Hy|[]]]]; try discriminate. now inversion Hy.
Qed.

Lemma setup_failure : forall var u body w c,
  body_wf body -> u_setup u = SetupRaise c ->
  let r := with_use var (P var) u body w in
  journal (snd r) = journal w ++ [ev_setup u] /\
  exists e, fst r = WRaise e /\ delivered var c (OGen (u_id u) 0) e.
Proof.
  intros var u body w c Hwf Hs. cbv zeta. start var u body w Hwf H. rewrite Hs in H.
  destruct H as [Hj [e [H1 [_ H3]]]]. split.
  - unfold journal. rewrite Hj. reflexivity.
  - exists e. auto.
Qed.

Lemma args_forwarded : forall var u tag o w,
  let r := with_use var (P var) u (simple_body tag o) w in
  exists new, journal (snd r) = journal w ++ new /\
              hd_error new = Some (EvGen (u_id u) 0 (Some (u_args u))) /\
              forall i t a', In (EvGen i t a') new -> i = u_id u /\ a' = Some (u_args u).
Proof.
  intros var u tag o w. cbv zeta. destruct (u_setup u) eqn:Hs.
  - rewrite (journal_exact var u tag o w Hs). eexists. split; [reflexivity|]. split; [reflexivity|].
    intros i t a' Hin. cbn in Hin. unfold ev_setup, ev_cleanup in Hin.
    destruct Hin as [Hin|[Hin|[Hin|[]]]]; try discriminate; inversion Hin; auto.
  - start var u (simple_body tag o) w (simple_body_wf tag o) H. rewrite Hs in H. destruct H as [Hj _].
    exists [ev_setup u]. unfold journal. rewrite Hj. split; [reflexivity|]. split; [reflexivity|].
    intros i t a' [Hin|[]]. unfold ev_setup in Hin. inversion Hin; auto.
  - start var u (simple_body tag o) w (simple_body_wf tag o) H. rewrite Hs in H. destruct H as [Hj _].
    exists [ev_setup u]. unfold journal. rewrite Hj. split; [reflexivity|]. split; [reflexivity|].
    intros i t a' [Hin|[]]. unfold ev_setup in Hin. inversion Hin; auto.
Qed.

Lemma nested_spec : forall var us tag o x0 w,
  let r := with_nest var (P var) us (simple_body tag o) x0 w in
  journal (snd r) = journal w ++ fst (spec_nest var us tag o x0) /\
  classify (fst r) = snd (spec_nest var us tag o x0).
Proof.
  intros. subst r. destruct (nest_spec var us tag o x0 w) as [Hj Hc]. split; [|exact Hc].
  unfold journal. rewrite Hj, rev_app_distr, rev_involutive. reflexivity.
Qed.

Lemma repeated_spec : forall var items w,
  let r := with_seq var (P var) items w in
  journal (snd r) = journal w ++ fst (spec_seq var items) /\
  map classify (fst r) = snd (spec_seq var items).
Proof.
  intros. subst r. destruct (seq_spec var items w) as [Hj Hc]. split; [|exact Hc].
  unfold journal. rewrite Hj, rev_app_distr, rev_involutive. reflexivity.
Qed.

Lemma body_stop_unchanged : forall var u tag c w,
  u_setup u = SetupOk -> u_cleanup u = CleanOk ->
  fst (with_use var (P var) u (simple_body tag (BodyRaise c)) w)
  = WRaise (Exc c (nid w) (OBody tag) None).
Proof.
  intros var u tag c w Hs Hc. start var u (simple_body tag (BodyRaise c)) w (simple_body_wf tag (BodyRaise c)) H.
  rewrite Hs, Hc in H. destruct H as [_ [_ H]]. rewrite H. reflexivity.
Qed.

Lemma cleanup_stop : forall var u body w c,
  body_wf body -> u_setup u = SetupOk -> u_cleanup u = CleanRaise c -> converts var c = true ->
  exists e i, fst (with_use var (P var) u body w) = WRaise e /\
              ecls e = RuntimeErrorC /\ ecause e = Some (Exc c i (OGen (u_id u) 1) None).
Proof.
  intros var u body w c Hwf Hs Hc Hv. start var u body w Hwf H. rewrite Hs, Hc in H.
  destruct H as [_ [_ [e [H1 [_ H3]]]]]. unfold delivered in H3. rewrite Hv in H3.
  destruct H3 as [H4 [_ [i [H5 _]]]]. exists e, i. auto.
Qed.

Lemma second_yield : forall var u body w y,
  body_wf body -> u_setup u = SetupOk -> u_cleanup u = CleanYield y ->
  let ow := body (u_val u) (emit (ev_setup u) w) in
  let r := with_use var (P var) u body w in
  fst r = fst ow /\ jrev (snd r) = ev_cleanup u :: jrev (snd ow).
Proof.
  intros var u body w y Hwf Hs Hc. cbv zeta. start var u body w Hwf H. rewrite Hs, Hc in H.
  destruct H as [Hj [_ H]]. auto.
Qed.

Lemma no_yield : forall var u body w,
  body_wf body -> u_setup u = SetupReturn ->
  let r := with_use var (P var) u body w in
  journal (snd r) = journal w ++ [ev_setup u] /\
  exists e, fst r = WRaise e /\ ecls e = RuntimeErrorC /\ nid w <= eid e.
Proof.
  intros var u body w Hwf Hs. cbv zeta. start var u body w Hwf H. rewrite Hs in H.
  destruct H as [Hj [e [H1 [H2 [H3 _]]]]]. split.
  - unfold journal. rewrite Hj. reflexivity.
  - exists e. repeat split; auto. lia.
Qed.

(* ---- plain contextlib.contextmanager over  <setup>; try: yield x finally: <cleanup> ------ *)

Definition guarded (id a : nat) (s : setup_oc) (x : val) (cl : cleanup_oc) : genobj :=
  gen_of id (Some a) (guarded_gen s x cl).

Lemma g_char_setup_raise : forall var id a x cl c body j n,
  exists e n', with_gen var (guarded id a (SetupRaise c) x cl) body (mkW j n)
               = (WRaise e, mkW (EvGen id 0 (Some a) :: j) n')
            /\ delivered var c (OGen id 0) e.
Proof.
  intros. destruct var; run; (do 2 eexists; split; [reflexivity | finish_delivered]).
Qed.

Lemma g_char_ok : forall var id a x cl body j n o j2 n2,
  body x (mkW (EvGen id 0 (Some a) :: j) n) = (o, mkW j2 n2) ->
  wf_res o n2 ->
  match cl with
  | CleanRaise c =>
      exists e n', with_gen var (guarded id a SetupOk x cl) body (mkW j n)
                   = (WRaise e, mkW (EvGen id 1 (Some a) :: j2) n')
                /\ delivered var c (OGen id 1) e
  | CleanOk =>
      exists n', with_gen var (guarded id a SetupOk x cl) body (mkW j n)
                 = (o, mkW (EvGen id 1 (Some a) :: j2) n')
  | CleanYield _ => True
  end.
Proof.
  intros var id a x cl body j n o j2 n2 Hb Hwf.
  destruct cl as [|c|y]; [| |exact I]; destruct var; destruct o as [| |[bc bi bo bca]]; cbn [wf_res eid] in Hwf; run;
    first [ eexists; reflexivity
          | do 2 eexists; split; [reflexivity | finish_delivered] ].
Qed.

Lemma docstring_equiv : forall var u body w,
  body_wf body -> in_domain_use u = true ->
  let r := with_use var (P var) u body w in
  let r' := with_gen var (gen_of (u_id u) (Some (u_args u)) (guarded_gen (u_setup u) (u_val u) (u_cleanup u))) body w in
  jrev (snd r') = jrev (snd r) /\
  match u_setup u, u_cleanup u with
  | SetupOk, CleanRaise c => exists e', fst r' = WRaise e' /\ delivered var c (OGen (u_id u) 1) e'
  | SetupOk, _ => fst r' = fst r
  | SetupRaise c, _ => exists e', fst r' = WRaise e' /\ delivered var c (OGen (u_id u) 0) e'
  | _, _ => True
  end.
Proof.
  intros var [id a s x cl] body [j n] Hwf Hd. cbv zeta.
  start var (mkUse id a s x cl) body (mkW j n) Hwf H.
  unfold ev_setup, ev_cleanup, emit in *. cbn [u_setup u_cleanup u_val u_id u_args jrev nid] in *.
  fold (guarded id a s x cl).
  destruct s as [|c|]; [| |discriminate].
  - destruct (body x (mkW (EvGen id 0 (Some a) :: j) n)) as [o [j2 n2]] eqn:Hb.
    pose proof (Hwf _ _ _ _ Hb) as Ho. cbn [nid] in Ho.
    pose proof (g_char_ok var id a x cl body j n o j2 n2 Hb Ho) as G.
    destruct H as [Hj [_ Hr]]. cbn [fst snd jrev] in *.
    destruct cl as [|c|y]; [| |discriminate].
    + destruct G as [n' G]. rewrite G, Hj, Hr. auto.
    + destruct G as [e [n' [G1 G2]]]. rewrite G1, Hj. cbn. split; [reflexivity|]. exists e. auto.
  - destruct (g_char_setup_raise var id a x cl c body j n) as [e [n' [G1 G2]]].
    destruct H as [Hj _]. rewrite G1, Hj. cbn. split; [reflexivity|]. exists e. auto.
Qed.
