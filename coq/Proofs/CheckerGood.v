(* Which regenerated checker configurations the correctness proofs accept (`cfg_good`), the
   facts it yields, and `chk`: the pure denotation of the checker on the supported vocabulary. *)
From Coq Require Import List Arith Bool ZArith Lia.
From PV Require Import Base.Exn Base.Values Base.Ann Model.CheckerCfg Model.Checker Spec.Conforms.
Import ListNotations.

Definition lo (o : tname) : nat :=
  match origin_kind o with
  | KElems | KType | KTuple => 1
  | KMapping | KItems => 2
  | KNone => match o with TCallable | TOptional => 2 | _ => 0 end
  end.

Definition vocab_names : list tname :=
  [TList; TSet; TFrozenSet; TDeque; TIterable; TCollection; TContainer; TSequence; TMutableSequence; TAbstractSet;
   TMutableSet; TKeysView; TValuesView; TDict; TDefaultDict; TMapping; TMutableMapping; TItemsView; TTuple; TType;
   TCallable; TOptional; TAny].

Definition kind_ok (c : checker_cfg) (o : tname) : bool :=
  match origin_kind o, origin_checker c o with
  | KElems, Some CkIterable | KMapping, Some CkMapping | KItems, Some CkItemsView
  | KTuple, Some CkTuple | KType, Some CkType => true
  | KNone, _ => true
  | _, _ => false
  end.

Definition req_ok (c : checker_cfg) (o : tname) : bool :=
  match req_exact c o with
  | Some k => negb (tname_eqb o TTuple) && Nat.eqb k (lo o)
  | None => match req_min c o with Some k => Nat.leb k (lo o) | None => true end
  end.

Definition is_pedantic_raise (a : haction) : bool := match a with HRaise c => is_pedantic c | _ => false end.
Definition catches_exception (h : list exn * haction) : bool := existsb (derives ExceptionC) (fst h).

Definition six : list cls := [CList; CSet; CDict; CFrozenSet; CTuple; CType].
Definition builtin_origins : list tname := [TList; TSet; TFrozenSet; TDict; TTuple; TType].

(* exception classes the model of _is_instance can raise (all caught and re-raised by _check_type) *)
Definition model_exns : list exn :=
  [IndexErrorC; TypeErrorC; ValueErrorC; AttributeErrorC; AssertionErrorC; RuntimeErrorC; NameErrorC; PTypeCheckC].
Definition handled_as_ptc (c : checker_cfg) (e : exn) : bool :=
  match handle (handlers c) e with Raise r => derives r PTypeCheckC | Ok _ => false end.
(* the typing generics of C06 that the arity tables reject without arguments (Type goes another way) *)
Definition bare_names : list tname := [TList; TDict; TSet; TFrozenSet; TTuple; TCallable; TIterable; TSequence].
Definition bare_rejected (c : checker_cfg) (o : tname) : bool :=
  match req_exact c o with
  | Some k => negb (Nat.eqb k 0)
  | None => match req_min c o with Some k => Nat.leb 1 k | None => false end
  end.

Definition cfg_good (c : checker_cfg) : bool :=
  forallb (kind_ok c) vocab_names && forallb (req_ok c) vocab_names
  && match special_checker c TAny with Some SkAnyTrue => true | _ => false end
  && match special_checker c TUnion with Some SkUnion => true | _ => false end
  && match special_checker c TOptional with Some SkUnion => true | _ => false end
  && match special_checker c TLiteral with Some SkLiteral => true | _ => false end
  && match special_checker c TCallable with Some SkCallable => true | _ => false end
  && forallb bare_builtin_cls (bare_builtins c) && forallb (fun x => existsb (cls_eqb x) (bare_builtins c)) six
  && forallb bare_builtin_cls (conv_bare c) && forallb (fun x => existsb (cls_eqb x) (conv_bare c)) six
  && forallb (fun o => existsb (tname_eqb o) (conv_origins c)) builtin_origins
  && conv_type_keeps_classes c && newtype_recurses c && tuple_empty_ok c
  && existsb (derives ValueErrorC) (sig_catches c) && existsb (derives TypeErrorC) (sig_catches c)
  && forallb (fun h => is_pedantic_raise (snd h)) (handlers c) && existsb catches_exception (handlers c)
  && derives (mismatch_raises c) PTypeCheckC
  && match it_quant c with QAll => true | _ => false end && Nat.eqb (it_index c) 0
  && match iv_quant c with QAll => true | _ => false end && match iv_conj c with JAnd => true | _ => false end
  && mp_via_items c
  && match tu_ell_quant c with QAll => true | _ => false end && Nat.eqb (tu_ell_index c) 0
  && tu_len_check c && match tu_zip_quant c with QAll => true | _ => false end
  && match un_quant c with QAny => true | _ => false end
  && lit_in c && Nat.eqb (ty_index c) 0 && str_walks_mro c && none_by_eq c
  && forallb (handled_as_ptc c) model_exns && forallb (bare_rejected c) bare_names
  && match special_checker c TType with None => true | _ => false end.

Record good_facts (c : checker_cfg) : Prop := {
  gf_kind : forall o, In o vocab_names -> kind_ok c o = true;
  gf_req : forall o, In o vocab_names -> req_ok c o = true;
  gf_any : special_checker c TAny = Some SkAnyTrue;
  gf_union : special_checker c TUnion = Some SkUnion;
  gf_optional : special_checker c TOptional = Some SkUnion;
  gf_literal : special_checker c TLiteral = Some SkLiteral;
  gf_callable : special_checker c TCallable = Some SkCallable;
  gf_bare_sub : forall x, In x (bare_builtins c) -> bare_builtin_cls x = true;
  gf_bare_sup : forall x, In x six -> existsb (cls_eqb x) (bare_builtins c) = true;
  gf_conv_sub : forall x, In x (conv_bare c) -> bare_builtin_cls x = true;
  gf_conv_sup : forall x, In x six -> existsb (cls_eqb x) (conv_bare c) = true;
  gf_conv_origins : forall o, In o builtin_origins -> existsb (tname_eqb o) (conv_origins c) = true;
  gf_conv_type : conv_type_keeps_classes c = true;
  gf_newtype : newtype_recurses c = true;
  gf_tuple_empty : tuple_empty_ok c = true;
  gf_sig_value : existsb (derives ValueErrorC) (sig_catches c) = true;
  gf_sig_type : existsb (derives TypeErrorC) (sig_catches c) = true;
  gf_handlers_ped : forall h, In h (handlers c) -> is_pedantic_raise (snd h) = true;
  gf_handlers_catch : existsb catches_exception (handlers c) = true;
  gf_mismatch : derives (mismatch_raises c) PTypeCheckC = true;
  gf_it_quant : it_quant c = QAll; gf_it_index : it_index c = 0;
  gf_iv_quant : iv_quant c = QAll; gf_iv_conj : iv_conj c = JAnd; gf_mp : mp_via_items c = true;
  gf_ell_quant : tu_ell_quant c = QAll; gf_ell_index : tu_ell_index c = 0;
  gf_len : tu_len_check c = true; gf_zip : tu_zip_quant c = QAll;
  gf_un : un_quant c = QAny; gf_lit : lit_in c = true; gf_ty : ty_index c = 0;
  gf_str : str_walks_mro c = true; gf_none : none_by_eq c = true;
  gf_handled : forall e, In e model_exns -> handled_as_ptc c e = true;
  gf_bare_rejected : forall o, In o bare_names -> bare_rejected c o = true;
  gf_type_not_special : special_checker c TType = None;
}.

Lemma cfg_good_facts c : cfg_good c = true -> good_facts c.
Proof.
  unfold cfg_good. intro H.
  repeat match type of H with _ && _ = true => apply andb_true_iff in H; destruct H as [H ?] end.
  constructor;
    try (apply forallb_forall; assumption);
    try assumption;
    try match goal with
        | Hx : match ?e with _ => _ end = true |- ?e = _ => destruct e as [[]|] eqn:?; try discriminate; reflexivity
        | Hx : match ?e with _ => _ end = true |- ?e = _ => destruct e eqn:?; try discriminate; reflexivity
        | Hx : Nat.eqb ?e 0 = true |- ?e = 0 => apply Nat.eqb_eq; exact Hx
        end.
Qed.

(* ---------------------------------------------------------------------------------------------- *)
(* chk: what the checker computes on the supported vocabulary, as a pure function *)

Section Chk.
  Variable cfg : checker_cfg.
  Variable ctx : nat -> option cls.

  Fixpoint chk (a : ann) (v : value) : bool :=
    let fix zipb (l : list ann) (vs : list value) : bool :=
      match l, vs with
      | a0 :: l', v0 :: vs' => chk a0 v0 && zipb l' vs'
      | _, _ => true
      end in
    match a with
    | ANone => match v with VNone => true | _ => false end
    | ACls c => isinstance v c
    | AAny => true
    | AUnion _ args => existsb (fun m => chk m v) args
    | ALiteral vals => py_in_scalar v vals
    | ANewType s => match s with ACls c => isinstance v c | _ => chk s v end
    | AFwdRef n | AStr n => match ctx n with Some c => isinstance v c | None => false end
    | AGeneric _ o args =>
        match origin_kind o, args with
        | KElems, [a0] =>
            abc_instance o (class_of v) && match iter_values v with Some l => forallb (chk a0) l | None => false end
        | KMapping, [ka; va] =>
            abc_instance o (class_of v) &&
            match items_of v with Some kvs => forallb (fun kv => chk ka (fst kv) && chk va (snd kv)) kvs | None => false end
        | KItems, [ka; va] =>
            abc_instance o (class_of v) &&
            match pairs_of v with Some kvs => forallb (fun kv => chk ka (fst kv) && chk va (snd kv)) kvs | None => false end
        | KTuple, _ =>
            match v with
            | VTuple vs => Nat.eqb (List.length vs) (List.length args) && zipb args vs
            | _ => false
            end
        | KType, [a0] =>
            match v with
            | VClass d => match a0 with AAny => true | ACls c => subclass d c | _ => false end
            | _ => false
            end
        | _, _ => false
        end
    | ATupleVar _ e => match v with VTuple vs => forallb (chk e) vs | _ => false end
    | ATupleEmpty _ => match v with VTuple [] => true | _ => false end
    | ACallable ps r => match callable_check cfg ps r v with Ok b => b | Raise _ => false end
    | _ => false
    end.

  Fixpoint zipb (l : list ann) (vs : list value) : bool :=
    match l, vs with
    | a0 :: l', v0 :: vs' => chk a0 v0 && zipb l' vs'
    | _, _ => true
    end.
End Chk.
