(* C07, the TypeVar layer: sequences of typevar_check invocations on one binding table.
   Accepted sequences are exactly the chains (each class a subclass of the previous binding; the
   other way round for contravariant TypeVars), hence: identical classes are accepted, unrelated
   classes are rejected with PedanticTypeVarMismatchException, constraints and bounds hold for
   every accepted value.  For ALL sequences, by induction.                                     *)
From Coq Require Import List Arith Bool ZArith Lia.
From PV Require Import Base.Exn Base.Values Base.Ann Model.CheckerCfg Model.Checker Spec.Conforms Spec.TypeVarSpec.
Import ListNotations.

(* ---- classes ------------------------------------------------------------------------------ *)
Lemma list_nat_eqb_eq : forall a b, list_nat_eqb a b = true -> a = b.
Proof.
  induction a as [|x a IH]; destruct b as [|y b]; simpl; intro H; try discriminate; [reflexivity|].
  apply andb_true_iff in H as [H1 H2]. apply Nat.eqb_eq in H1. subst. f_equal. now apply IH.
Qed.
Lemma list_nat_eqb_refl : forall a, list_nat_eqb a a = true.
Proof. induction a; simpl; [reflexivity|]. now rewrite Nat.eqb_refl. Qed.
Lemma cls_eqb_eq : forall a b, cls_eqb a b = true -> a = b.
Proof.
  destruct a, b; simpl; intro H; try discriminate; try reflexivity.
  f_equal. now apply list_nat_eqb_eq.
Qed.
Lemma cls_eqb_refl : forall a, cls_eqb a a = true.
Proof. destruct a; simpl; try reflexivity. apply list_nat_eqb_refl. Qed.

Lemma subclass_refl : forall c, subclass c c = true.
Proof. destruct c; simpl; try reflexivity. apply prefix_refl. Qed.

Lemma subclass_trans : forall a b c, subclass a b = true -> subclass b c = true -> subclass a c = true.
Proof.
  intros a b c Hab Hbc.
  destruct c; try reflexivity;
    try (simpl in Hbc; apply cls_eqb_eq in Hbc; subst b; exact Hab).
  - (* int *) destruct b; simpl in Hbc; try discriminate.
    + simpl in Hab. apply cls_eqb_eq in Hab. now subst a.
    + exact Hab.
  - (* dict *) destruct b; simpl in Hbc; try discriminate.
    + exact Hab.
    + simpl in Hab. apply cls_eqb_eq in Hab. now subst a.
    + simpl in Hab. apply cls_eqb_eq in Hab. now subst a.
  - (* user *) destruct b; simpl in Hbc; try discriminate.
    destruct a; simpl in Hab; try discriminate. simpl. eapply prefix_trans; eassumption.
Qed.

Lemma related_sym c d : related c d = related d c.
Proof. unfold related. apply orb_comm. Qed.

(* ---- one check ------------------------------------------------------------------------------- *)
Lemma tv_lookup_set_same : forall tv i b, tv_lookup (tv_set tv i b) i = Some b.
Proof.
  induction tv as [|[j b'] tv IH]; intros i b; simpl.
  - now rewrite Nat.eqb_refl.
  - destruct (Nat.eqb i j) eqn:E; simpl; rewrite E; [reflexivity|apply IH].
Qed.
Lemma tv_lookup_set_other : forall tv i j b, i <> j -> tv_lookup (tv_set tv i b) j = tv_lookup tv j.
Proof.
  induction tv as [|[k b'] tv IH]; intros i j b Hij; simpl.
  - destruct (Nat.eqb j i) eqn:E; [apply Nat.eqb_eq in E; congruence|reflexivity].
  - destruct (Nat.eqb i k) eqn:E; simpl.
    + apply Nat.eqb_eq in E. subst k. destruct (Nat.eqb j i) eqn:E2; [apply Nat.eqb_eq in E2; congruence|reflexivity].
    + destruct (Nat.eqb j k); [reflexivity|now apply IH].
Qed.

Section TC.
  Variable hook : ann -> value -> tvenv -> res.
  Notation TC := (typevar_check hook).

  Lemma tc_guard t v tv : tv_admits t v = false -> TC t v tv = (Ok false, tv).
  Proof.
    unfold tv_admits, typevar_check, in_cls. intro H.
    destruct (tv_constraints t) as [|c0 cs] eqn:Ec; simpl in *.
    - destruct (tv_bound t); [|discriminate]. now rewrite H.
    - destruct (cls_eqb (class_of v) c0 || existsb (cls_eqb (class_of v)) cs); simpl in *; [|reflexivity].
      destruct (tv_bound t); [|discriminate]. now rewrite H.
  Qed.

  Lemma tc_admitted t v tv : tv_admits t v = true ->
    TC t v tv =
    match tv_lookup tv (tv_id t) with
    | None => (Ok true, tv_set tv (tv_id t) (BCls (class_of v)))
    | Some other =>
        if tv_contravariant t then
          match other with
          | BCls oc => if subclass oc (class_of v) then (Ok true, tv_set tv (tv_id t) (BCls (class_of v)))
                       else (Raise PTypeVarMismatchC, tv)
          | BAnn _ => (Raise TypeErrorC, tv)
          end
        else
          match other with
          | BCls oc => if isinstance v oc then (Ok true, tv_set tv (tv_id t) (BCls (class_of v)))
                       else (Raise PTypeVarMismatchC, tv)
          | BAnn a' =>
              match hook a' v tv with
              | (Ok true, tv') => (Ok true, tv_set tv' (tv_id t) (BCls (class_of v)))
              | (Ok false, tv') => (Raise PTypeVarMismatchC, tv')
              | r => r
              end
          end
    end.
  Proof.
    unfold tv_admits, typevar_check, in_cls. intro H. apply andb_true_iff in H as [H1 H2].
    destruct (tv_constraints t) as [|c0 cs] eqn:Ec; simpl in *.
    - destruct (tv_bound t); [rewrite H2|]; reflexivity.
    - rewrite H1. simpl. destruct (tv_bound t); [rewrite H2|]; reflexivity.
  Qed.

  (* tables whose bindings are classes (every table of a plain call; no hook is ever called) *)
  Definition cls_env (tv : tvenv) : Prop := forall i b, tv_lookup tv i = Some b -> exists c, b = BCls c.

  Lemma cls_env_nil : cls_env [].
  Proof. intros i b H. discriminate. Qed.

  Lemma cls_env_set tv i c : cls_env tv -> cls_env (tv_set tv i (BCls c)).
  Proof.
    intros H j b Hj. destruct (Nat.eq_dec i j) as [->|Hn].
    - rewrite tv_lookup_set_same in Hj. inversion Hj. eauto.
    - rewrite tv_lookup_set_other in Hj by assumption. eauto.
  Qed.

  (* on a class table a check has one of three results *)
  Inductive tc_result (t : tvar) (v : value) (tv : tvenv) : res -> Prop :=
  | TcOk : tc_result t v tv (Ok true, tv_set tv (tv_id t) (BCls (class_of v)))
  | TcNo : tv_admits t v = false -> tc_result t v tv (Ok false, tv)
  | TcMis : tv_admits t v = true -> tc_result t v tv (Raise PTypeVarMismatchC, tv).

  Lemma tc_cases t v tv : cls_env tv -> tc_result t v tv (TC t v tv).
  Proof.
    intro He. destruct (tv_admits t v) eqn:Ea.
    - rewrite (tc_admitted _ _ _ Ea).
      destruct (tv_lookup tv (tv_id t)) as [b|] eqn:El; [|constructor].
      destruct (He _ _ El) as [oc ->].
      destruct (tv_contravariant t).
      + destruct (subclass oc (class_of v)); now constructor.
      + destruct (isinstance v oc); now constructor.
    - rewrite (tc_guard _ _ _ Ea). now constructor.
  Qed.

  Lemma tc_env t v tv : cls_env tv -> cls_env (snd (TC t v tv)).
  Proof. intro He. destruct (tc_cases t v tv He); simpl; try assumption. now apply cls_env_set. Qed.

  (* ---- sequences ----------------------------------------------------------------------------- *)
  (* a position: under a Union a failed check of the TypeVar member means "this member does not
     match" (PedanticExceptions are swallowed by _check_union) *)
  Definition union_conv (r : res) : res :=
    match r with
    | (Raise e, tv) => if is_pedantic e then (Ok false, tv) else (Raise e, tv)
    | r => r
    end.
  Definition tc_pos (p : mpos) (tv : tvenv) : res :=
    if mp_union p then union_conv (TC (mp_tv p) (mp_val p) tv) else TC (mp_tv p) (mp_val p) tv.

  (* all checks of a trace in order; the first one that is not (Ok true) is the result *)
  Fixpoint run_tc (l : list mpos) (tv : tvenv) : res :=
    match l with
    | [] => (Ok true, tv)
    | p :: l' => match tc_pos p tv with
                 | (Ok true, tv') => run_tc l' tv'
                 | r => r
                 end
    end.

  Lemma run_tc_app l1 l2 tv :
    run_tc (l1 ++ l2) tv = match run_tc l1 tv with (Ok true, tv') => run_tc l2 tv' | r => r end.
  Proof.
    revert tv. induction l1 as [|p l1 IH]; intro tv; simpl; [reflexivity|].
    destruct (tc_pos p tv) as [[[|]|e] tv']; try reflexivity. apply IH.
  Qed.

  Lemma tc_pos_ok p tv tv' : tc_pos p tv = (Ok true, tv') -> TC (mp_tv p) (mp_val p) tv = (Ok true, tv').
  Proof.
    unfold tc_pos. destruct (mp_union p); [|auto].
    destruct (TC (mp_tv p) (mp_val p) tv) as [[b|e] tv0]; simpl; [auto|].
    destruct (is_pedantic e); discriminate.
  Qed.

  Lemma tc_pos_env p tv : cls_env tv -> cls_env (snd (tc_pos p tv)).
  Proof.
    intro He. pose proof (tc_env (mp_tv p) (mp_val p) tv He) as H. unfold tc_pos.
    destruct (mp_union p); [|exact H].
    destruct (TC (mp_tv p) (mp_val p) tv) as [[b|e] tv0]; simpl in *; [exact H|].
    destruct (is_pedantic e); exact H.
  Qed.

  Lemma run_tc_env l : forall tv, cls_env tv -> cls_env (snd (run_tc l tv)).
  Proof.
    induction l as [|p l IH]; intros tv He; simpl; [assumption|].
    pose proof (tc_pos_env p tv He) as H.
    destruct (tc_pos p tv) as [[[|]|e] tv']; simpl in *; try assumption. now apply IH.
  Qed.

  (* ---- identical classes are accepted --------------------------------------------------------- *)
  (* P : the class every value matched against TypeVar i has *)
  Definition env_agrees (P : nat -> cls) (tv : tvenv) : Prop :=
    forall i b, tv_lookup tv i = Some b -> b = BCls (P i).
  Definition homogeneous (P : nat -> cls) (l : list mpos) : Prop :=
    forall p, In p l -> tv_admits (mp_tv p) (mp_val p) = true /\ class_of (mp_val p) = P (tv_id (mp_tv p)).

  Lemma env_agrees_cls P tv : env_agrees P tv -> cls_env tv.
  Proof. intros H i b Hb. rewrite (H _ _ Hb). eauto. Qed.

  Theorem same_class_accepted P : forall l tv,
    env_agrees P tv -> homogeneous P l ->
    exists tv', run_tc l tv = (Ok true, tv') /\ env_agrees P tv'.
  Proof.
    induction l as [|p l IH]; intros tv He Hh; simpl; [eauto|].
    destruct (Hh p (or_introl eq_refl)) as [Ha Hc].
    assert (Hs : TC (mp_tv p) (mp_val p) tv = (Ok true, tv_set tv (tv_id (mp_tv p)) (BCls (class_of (mp_val p))))).
    { rewrite (tc_admitted _ _ _ Ha).
      destruct (tv_lookup tv (tv_id (mp_tv p))) as [b|] eqn:El; [|reflexivity].
      rewrite (He _ _ El), <- Hc.
      destruct (tv_contravariant (mp_tv p)); [|unfold isinstance]; now rewrite subclass_refl. }
    assert (Hp : tc_pos p tv = (Ok true, tv_set tv (tv_id (mp_tv p)) (BCls (class_of (mp_val p))))).
    { unfold tc_pos. rewrite Hs. now destruct (mp_union p). }
    rewrite Hp. apply IH.
    - intros i b Hb. destruct (Nat.eq_dec (tv_id (mp_tv p)) i) as [<-|Hn].
      + rewrite tv_lookup_set_same in Hb. inversion Hb. now rewrite Hc.
      + rewrite tv_lookup_set_other in Hb by assumption. now apply He.
    - intros q Hq. apply Hh. now right.
  Qed.

  (* ---- accepted sequences are chains ---------------------------------------------------------- *)
  Definition step_ok (contra : bool) (prev next : cls) : bool :=
    if contra then subclass prev next else subclass next prev.

  (* classes matched against TypeVar id i, in order *)
  Definition mine (i : nat) (l : list mpos) : list mpos := filter (fun p => Nat.eqb (tv_id (mp_tv p)) i) l.

  Fixpoint chain (contra : bool) (prev : option cls) (l : list cls) : bool :=
    match l with
    | [] => true
    | c :: l' => match prev with Some pc => step_ok contra pc c | None => true end && chain contra (Some c) l'
    end.

  Definition bound_cls (tv : tvenv) (i : nat) : option cls :=
    match tv_lookup tv i with Some (BCls c) => Some c | _ => None end.

  (* all positions of TypeVar id i carry the same TypeVar object (same variance) *)
  Definition same_tvar (i : nat) (t : tvar) (l : list mpos) : Prop :=
    forall p, In p l -> tv_id (mp_tv p) = i -> mp_tv p = t.

  Theorem accepted_is_chain i t : forall l tv tv',
    cls_env tv -> same_tvar i t l -> run_tc l tv = (Ok true, tv') ->
    chain (tv_contravariant t) (bound_cls tv i) (map (fun p => class_of (mp_val p)) (mine i l)) = true
    /\ forallb (fun p => tv_admits (mp_tv p) (mp_val p)) l = true.
  Proof.
    induction l as [|p l IH]; intros tv tv' He Hs Hr; simpl; [auto|].
    simpl in Hr. destruct (tc_pos p tv) as [[[|]|e] tv1] eqn:Ep; try discriminate.
    pose proof (tc_pos_ok _ _ _ Ep) as Hc.
    assert (Ha : tv_admits (mp_tv p) (mp_val p) = true).
    { destruct (tv_admits (mp_tv p) (mp_val p)) eqn:Ea; [reflexivity|]. rewrite (tc_guard _ _ _ Ea) in Hc. discriminate. }
    assert (He1 : cls_env tv1).
    { pose proof (tc_env (mp_tv p) (mp_val p) tv He) as H. now rewrite Hc in H. }
    assert (Hs' : same_tvar i t l) by (intros q Hq; apply Hs; now right).
    rewrite Ha. simpl.
    rewrite (tc_admitted _ _ _ Ha) in Hc.
    destruct (Nat.eqb (tv_id (mp_tv p)) i) eqn:Ei.
    - apply Nat.eqb_eq in Ei. pose proof (Hs p (or_introl eq_refl) Ei) as Ht. simpl.
      assert (Hstep : match bound_cls tv i with Some pc => step_ok (tv_contravariant t) pc (class_of (mp_val p)) | None => true end = true
                      /\ tv1 = tv_set tv i (BCls (class_of (mp_val p)))).
      { unfold bound_cls. rewrite <- Ei, <- Ht.
        destruct (tv_lookup tv (tv_id (mp_tv p))) as [b|] eqn:El.
        - destruct (He _ _ El) as [oc ->]. unfold step_ok.
          destruct (tv_contravariant (mp_tv p)).
          + destruct (subclass oc (class_of (mp_val p))) eqn:E; inversion Hc. auto.
          + unfold isinstance in Hc. destruct (subclass (class_of (mp_val p)) oc) eqn:E; inversion Hc. auto.
        - inversion Hc. auto. }
      destruct Hstep as [H1 ->]. rewrite H1. simpl.
      destruct (IH _ _ He1 Hs' Hr) as [H2 H3]. split; [|assumption].
      unfold bound_cls in H2. now rewrite tv_lookup_set_same in H2.
    - apply Nat.eqb_neq in Ei.
      assert (Hb : bound_cls tv1 i = bound_cls tv i).
      { unfold bound_cls.
        destruct (tv_lookup tv (tv_id (mp_tv p))) as [b|] eqn:El.
        - destruct (He _ _ El) as [oc ->].
          destruct (tv_contravariant (mp_tv p));
            [destruct (subclass oc (class_of (mp_val p)))|destruct (isinstance (mp_val p) oc)];
            inversion Hc; subst; now rewrite tv_lookup_set_other.
        - inversion Hc. now rewrite tv_lookup_set_other. }
      destruct (IH _ _ He1 Hs' Hr) as [H2 H3]. rewrite Hb in H2. auto.
  Qed.

  (* a chain is pairwise related *)
  Lemma chain_head_all contra : forall l c, chain contra (Some c) l = true ->
    forallb (fun d => step_ok contra c d) l = true.
  Proof.
    induction l as [|d l IH]; intros c H; simpl in *; [reflexivity|].
    apply andb_true_iff in H as [H1 H2]. rewrite H1. simpl.
    pose proof (IH d H2) as H3. rewrite forallb_forall in *. intros x Hx. specialize (H3 x Hx).
    unfold step_ok in *. destruct contra; eapply subclass_trans; eassumption.
  Qed.

  Lemma step_ok_related contra c d : step_ok contra c d = true -> related c d = true.
  Proof. unfold step_ok, related. destruct contra; intro H; rewrite H; auto using orb_true_r. Qed.

  Lemma chain_pairwise contra : forall l prev, chain contra prev l = true -> pairwise_related l = true.
  Proof.
    induction l as [|c l IH]; intros prev H; simpl in *; [reflexivity|].
    apply andb_true_iff in H as [_ H2]. rewrite (IH _ H2), andb_true_r.
    pose proof (chain_head_all _ _ _ H2) as H3. rewrite forallb_forall in *. intros x Hx.
    eapply step_ok_related. now apply H3.
  Qed.

  Corollary accepted_pairwise_related i t l tv tv' :
    cls_env tv -> same_tvar i t l -> run_tc l tv = (Ok true, tv') ->
    pairwise_related (map (fun p => class_of (mp_val p)) (mine i l)) = true.
  Proof. intros He Hs Hr. destruct (accepted_is_chain i t l tv tv' He Hs Hr) as [H _]. eapply chain_pairwise; eassumption. Qed.

  (* ---- what a rejection looks like ---------------------------------------------------------- *)
  (* without Union positions and with all values admitted, the only failure is the mismatch *)
  Theorem rejected_is_mismatch : forall l tv,
    cls_env tv ->
    (forall p, In p l -> mp_union p = false /\ tv_admits (mp_tv p) (mp_val p) = true) ->
    (exists tv', run_tc l tv = (Ok true, tv')) \/ (exists tv', run_tc l tv = (Raise PTypeVarMismatchC, tv')).
  Proof.
    induction l as [|p l IH]; intros tv He H; simpl; [eauto|].
    destruct (H p (or_introl eq_refl)) as [Hu Ha]. unfold tc_pos. rewrite Hu.
    destruct (tc_cases (mp_tv p) (mp_val p) tv He) as [|Hn|Hm].
    - apply IH; [now apply cls_env_set|]. intros q Hq. apply H. now right.
    - congruence.
    - eauto.
  Qed.
End TC.
