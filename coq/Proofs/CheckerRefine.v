(* Refinement: on the supported vocabulary the exception-precise, state-threading model of
   _is_instance computes exactly the pure function `chk`, never raises and leaves the TypeVar
   environment untouched - for every good configuration, every context, every value and every
   environment.  By nested induction on the annotation (no depth bound).                     *)
From Coq Require Import List Arith Bool ZArith Lia.
From PV Require Import Base.Exn Base.Values Base.Ann Model.CheckerCfg Model.Checker Spec.Conforms Proofs.CheckerGood.
Import ListNotations.

Lemma list_nat_eqb_eq : forall a b, list_nat_eqb a b = true -> a = b.
Proof.
  induction a as [|x a IH]; destruct b as [|y b]; simpl; intro H; try discriminate; [reflexivity|].
  apply andb_true_iff in H as [H1 H2]. apply Nat.eqb_eq in H1. f_equal; auto.
Qed.

Lemma list_nat_eqb_refl : forall a, list_nat_eqb a a = true.
Proof. induction a as [|x a IH]; simpl; [reflexivity|]. now rewrite Nat.eqb_refl. Qed.

Lemma cls_eqb_eq : forall a b, cls_eqb a b = true -> a = b.
Proof.
  destruct a, b; simpl; intro H; try discriminate; try reflexivity.
  f_equal. now apply list_nat_eqb_eq.
Qed.

Lemma cls_eqb_refl : forall a, cls_eqb a a = true.
Proof. destruct a; simpl; try reflexivity. apply list_nat_eqb_refl. Qed.

Lemma tname_eqb_eq : forall a b, tname_eqb a b = true -> a = b.
Proof. destruct a, b; simpl; intro H; try discriminate; reflexivity. Qed.

(* ---- iterators -------------------------------------------------------------------------- *)
Lemma q_all_pure {A} (f : A -> tvenv -> res) (g : A -> bool) :
  forall l tv, (forall x, In x l -> forall tv', f x tv' = (Ok (g x), tv')) ->
  q_all f l tv = (Ok (forallb g l), tv).
Proof.
  induction l as [|x l IH]; intros tv H; simpl; [reflexivity|].
  rewrite (H x (or_introl eq_refl)). destruct (g x); simpl; [|reflexivity].
  apply IH. intros y Hy. apply H. now right.
Qed.

Section Refine.
  Variable cfg : checker_cfg.
  Hypothesis good : good_facts cfg.
  Variable ctx : nat -> option cls.
  Variable hook : ann -> value -> tvenv -> res.

  Lemma in_bare_false c : bare_builtin_cls c = false -> in_cls c (bare_builtins cfg) = false.
  Proof.
    intro H. unfold in_cls. destruct (existsb (cls_eqb c) (bare_builtins cfg)) eqn:E; [|reflexivity].
    apply existsb_exists in E as [x [Hx Hc]]. apply cls_eqb_eq in Hc; subst x.
    rewrite (gf_bare_sub cfg good c Hx) in H. discriminate.
  Qed.

  Lemma in_conv_bare_false c : bare_builtin_cls c = false -> in_cls c (conv_bare cfg) = false.
  Proof.
    intro H. unfold in_cls. destruct (existsb (cls_eqb c) (conv_bare cfg)) eqn:E; [|reflexivity].
    apply existsb_exists in E as [x [Hx Hc]]. apply cls_eqb_eq in Hc; subst x.
    rewrite (gf_conv_sub cfg good c Hx) in H. discriminate.
  Qed.

  Lemma req_lo o n : In o vocab_names -> lo o <= n -> (o = TTuple \/ n = lo o) ->
    match req_exact cfg o with
    | Some k => Nat.eqb k n
    | None => match req_min cfg o with Some k => Nat.leb k n | None => true end
    end = true.
  Proof.
    intros Hin Hle Hex. pose proof (gf_req cfg good o Hin) as H. unfold req_ok in H.
    destruct (req_exact cfg o) as [k|].
    - apply andb_true_iff in H as [Ht Hk]. apply Nat.eqb_eq in Hk. subst k.
      destruct Hex as [-> | ->]; [discriminate|apply Nat.eqb_refl].
    - destruct (req_min cfg o) as [k|]; [|reflexivity]. apply Nat.leb_le in H. apply Nat.leb_le. lia.
  Qed.

  Lemma members_pure (f : ann -> value -> tvenv -> res) (g : ann -> bool) v :
    forall l tv acc,
    (forall m, In m l -> is_typevar m = false /\ forall tv', f m v tv' = (Ok (g m), tv')) ->
    members_f cfg f v l tv acc = (Ok (acc || existsb g l), tv).
  Proof.
    induction l as [|m l IH]; intros tv acc H; simpl.
    - now rewrite orb_false_r.
    - destruct (H m (or_introl eq_refl)) as [Htv Hf]. rewrite Htv, Hf, (gf_un cfg good).
      rewrite IH by (intros y Hy; apply H; now right). now rewrite orb_assoc.
  Qed.

  Lemma union_tail_no_tv : forall l tv0 v tv,
    (forall m, In m l -> is_typevar m = false) -> union_tail cfg hook l tv0 v tv = (Ok false, tv).
  Proof.
    intros l tv0 v tv H. unfold union_tail.
    assert (Hb : forall l', (forall m, In m l' -> is_typevar m = false) ->
                 union_bounded cfg hook l' tv0 v tv = (None, tv) /\ union_unbounded l' tv0 = []).
    { induction l' as [|m l' IH]; intro H'; simpl; [auto|].
      pose proof (H' m (or_introl eq_refl)) as Hm.
      destruct m; try discriminate; apply IH; intros y Hy; apply H'; now right. }
    destruct (Hb l H) as [-> ->]. reflexivity.
  Qed.

  Lemma union_pure (f : ann -> value -> tvenv -> res) (g : ann -> bool) v l tv :
    (forall m, In m l -> is_typevar m = false /\ forall tv', f m v tv' = (Ok (g m), tv')) ->
    union_f cfg hook f l v tv = (Ok (existsb g l), tv).
  Proof.
    intro H. unfold union_f. rewrite (gf_un cfg good).
    rewrite (members_pure f g v l tv false H). simpl.
    destruct (existsb g l); [reflexivity|].
    apply union_tail_no_tv. intros m Hm. now destruct (H m Hm).
  Qed.

  Lemma zip_pure (f : ann -> value -> tvenv -> res) (g : ann -> value -> bool) :
    forall l, (forall a0, In a0 l -> forall v tv, f a0 v tv = (Ok (g a0 v), tv)) ->
    forall vs tv,
    zip_f cfg f l vs tv =
    (Ok ((fix zb (l : list ann) (vs : list value) : bool :=
            match l, vs with a0 :: l', v0 :: vs' => g a0 v0 && zb l' vs' | _, _ => true end) l vs), tv).
  Proof.
    induction l as [|a0 l IH]; intros H vs tv.
    - cbn [zip_f]. rewrite (gf_zip cfg good). reflexivity.
    - destruct vs as [|v0 vs]; cbn [zip_f]; [rewrite (gf_zip cfg good); reflexivity|].
      rewrite (H a0 (or_introl eq_refl)), (gf_zip cfg good). destruct (g a0 v0); cbn [andb]; [|reflexivity].
      apply IH. intros y Hy. apply H. now right.
  Qed.

  Lemma pair_pure (f : ann -> value -> tvenv -> res) (g : ann -> value -> bool) ka va :
    (forall v tv, f ka v tv = (Ok (g ka v), tv)) -> (forall v tv, f va v tv = (Ok (g va v), tv)) ->
    forall kv tv, pair_check cfg f ka va kv tv = (Ok (g ka (fst kv) && g va (snd kv)), tv).
  Proof.
    intros Hk Hv kv tv. unfold pair_check. rewrite (gf_iv_conj cfg good), Hk.
    destruct (g ka (fst kv)); simpl; [apply Hv|reflexivity].
  Qed.

  (* value classes accepted by the isinstance test of an element-wise origin can be iterated *)
  Lemma elems_iterable o v : origin_kind o = KElems -> abc_instance o (class_of v) = true -> iter_values v <> None.
  Proof. destruct o; simpl; try discriminate; intros _; destruct v; simpl; try discriminate; intros _; discriminate. Qed.

  Lemma mapping_items o v : origin_kind o = KMapping -> abc_instance o (class_of v) = true -> items_of v <> None.
  Proof. destruct o; simpl; try discriminate; intros _; destruct v; simpl; try discriminate; intros _; discriminate. Qed.

  Lemma items_pairs v : abc_instance TItemsView (class_of v) = true -> pairs_of v <> None.
  Proof. destruct v; simpl; try discriminate; intros _; discriminate. Qed.

  Lemma tuple_inst v : abc_instance TTuple (class_of v) = true -> exists vs, v = VTuple vs.
  Proof. destruct v; simpl; try discriminate; eauto. Qed.

  Lemma type_inst v : abc_instance TType (class_of v) = true -> exists d, v = VClass d.
  Proof. destruct v; simpl; try discriminate; eauto. Qed.

  Lemma has_required_of_tables a : has_required_tables cfg a = true -> has_required cfg a = true.
  Proof.
    intro H. unfold has_required.
    destruct a; try exact H.
    - now rewrite H, orb_true_r.
    - destruct sp; try exact H. destruct o; try exact H. destruct args; try exact H. now rewrite H, orb_true_r.
    - destruct sp; try exact H. now rewrite H, orb_true_r.
  Qed.

  Lemma has_required_generic o args :
    In o vocab_names -> arity_ok o (List.length args) = true ->
    has_required cfg (AGeneric SpTyping o args) = true.
  Proof.
    intros Hin Ha. apply has_required_of_tables. unfold has_required_tables. cbn [ann_name n_type_args].
    unfold arity_ok in Ha.
    apply req_lo; [assumption | |]; unfold lo; destruct (origin_kind o) eqn:Ek; try discriminate Ha;
      try (apply Nat.eqb_eq in Ha; rewrite Ha; first [lia | right; reflexivity]);
      try (apply Nat.leb_le in Ha; first [lia | left; destruct o; try discriminate Ek; reflexivity]).
  Qed.

  Lemma kelems_vocab o : origin_kind o <> KNone -> In o vocab_names.
  Proof. destruct o; simpl; intro H; try (exfalso; apply H; reflexivity); tauto. Qed.

  Lemma supported_no_tv a : supported_in ctx a = true -> is_typevar a = false.
  Proof. destruct a; simpl; try discriminate; reflexivity. Qed.


  (* ---- has_required on the vocabulary ---------------------------------------------------------- *)
  Lemma has_required_any : has_required cfg AAny = true.
  Proof.
    apply has_required_of_tables. unfold has_required_tables. cbn [ann_name n_type_args].
    apply (req_lo TAny 0); [cbn; tauto | cbn; lia | right; reflexivity].
  Qed.

  Lemma has_required_callable ps r : has_required cfg (ACallable ps r) = true.
  Proof.
    apply has_required_of_tables. unfold has_required_tables. cbn [ann_name n_type_args].
    apply (req_lo TCallable 2); [cbn; tauto | cbn; lia | right; reflexivity].
  Qed.

  Lemma is_optional_len args : is_optional args = true -> List.length args = 2.
  Proof. destruct args as [|a [|b [|c l]]]; cbn; intro H; try discriminate; reflexivity. Qed.

  Lemma has_required_union sp args : has_required cfg (AUnion sp args) = true.
  Proof.
    apply has_required_of_tables. unfold has_required_tables. destruct sp; cbn [ann_name n_type_args]; [|reflexivity].
    destruct (is_optional args) eqn:E; [|reflexivity].
    rewrite (is_optional_len args E).
    apply (req_lo TOptional 2); [cbn; tauto | cbn; lia | right; reflexivity].
  Qed.

  Lemma has_required_tuplevar e : has_required cfg (ATupleVar SpTyping e) = true.
  Proof.
    apply has_required_of_tables. unfold has_required_tables. cbn [ann_name n_type_args].
    apply (req_lo TTuple 2); [cbn; tauto | cbn; lia | left; reflexivity].
  Qed.

  (* ---- the Callable checker never raises on simple signatures ---------------------------------- *)
  Lemma is_subtype_simple sub a : simple_ann a = true -> exists b, is_subtype_cls sub a = Ok b.
  Proof. destruct a; cbn; intro H; try discriminate; eauto. Qed.

  Lemma zip_subtype_simple : forall l ps, forallb simple_ann l = true -> exists b, zip_subtype ps l = Ok b.
  Proof.
    induction l as [|a l IH]; intros ps H.
    - destruct ps; cbn; eauto.
    - cbn in H. apply andb_true_iff in H as [Ha Hl]. destruct ps as [|p ps]; cbn; [eauto|].
      destruct (is_subtype_simple (sub_cls_of (fst p)) a Ha) as [b ->]. destruct b; [apply IH; assumption | eauto].
  Qed.

  Lemma callable_fun_simple ps r s :
    simple_ann r = true -> (forall l, ps = Some l -> forallb simple_ann l = true) ->
    exists b, callable_fun ps r s = Ok b.
  Proof.
    intros Hr Hps. unfold callable_fun.
    assert (Hp : exists b, match ps with
                           | None => Ok true
                           | Some l => if negb (Nat.eqb (List.length l) (List.length (filter (fun p => negb (snd p)) (fs_params s))))
                                       then Ok false else zip_subtype (fs_params s) l
                           end = Ok b).
    { destruct ps as [l|]; [|eauto]. destruct (negb _); [eauto|]. apply zip_subtype_simple. now apply Hps. }
    destruct Hp as [b ->]. destruct b; [|eauto].
    destruct (fs_coroutine s).
    - destruct r; cbn in Hr; try discriminate; eauto.
    - apply is_subtype_simple; assumption.
  Qed.

  Lemma callable_check_simple ps r v :
    simple_ann r = true -> (forall l, ps = Some l -> forallb simple_ann l = true) ->
    exists b, callable_check cfg ps r v = Ok b.
  Proof.
    intros Hr Hps. unfold callable_check.
    destruct v; try (rewrite (gf_sig_type cfg good); eauto); eauto; try (apply callable_fun_simple; assumption).
    destruct (class_sig c); [apply callable_fun_simple; assumption|].
    rewrite (gf_sig_value cfg good); eauto.
  Qed.

  (* ---- conversion of builtin aliases succeeds on the vocabulary -------------------------------- *)
  Lemma existsb_tname o l : In o l -> existsb (tname_eqb o) l = true.
  Proof.
    intro H. apply existsb_exists. exists o. split; [assumption|]. destruct o; reflexivity.
  Qed.

  Lemma conv_ok_supported : forall a, supported_in ctx a = true -> conv_ok cfg a = Ok tt.
  Proof.
    induction a using ann_ind'; intro Hs; try reflexivity; try discriminate Hs.
    - (* ACls *) cbn [conv_ok]. cbn [supported_in] in Hs. unfold plain_cls_ok in Hs.
      apply andb_true_iff in Hs as [Hb _]. apply negb_true_iff in Hb. now rewrite (in_conv_bare_false c Hb).
    - (* AGeneric *)
      cbn [supported_in] in Hs.
      apply andb_true_iff in Hs as [Hs Hargs]. apply andb_true_iff in Hs as [Har Hsp].
      destruct sp; [reflexivity | | discriminate Hsp].
      cbn [conv_ok].
      assert (Horig : existsb (tname_eqb o) (conv_origins cfg) = true).
      { apply (gf_conv_origins cfg good). destruct o; try discriminate Hsp; cbn; tauto. }
      assert (Hty : typing_arity_ok o (List.length args) = true).
      { unfold arity_ok in Har. destruct o; try discriminate Hsp; cbn in *; try assumption; reflexivity. }
      rewrite Horig, Hty.
      destruct (tname_eqb o TType) eqn:Et.
      + apply tname_eqb_eq in Et. subst o. rewrite (gf_conv_type cfg good). cbn [andb].
        destruct args as [|x [|y l]]; [discriminate Hargs | | destruct x; discriminate Hargs].
        destruct x; try discriminate Hargs; reflexivity.
      + cbn [andb].
        assert (Hgo : (fix go (l : list ann) : outcome unit :=
                         match l with [] => Ok tt | x :: l' => match conv_ok cfg x with Ok _ => go l' | Raise e => Raise e end end) args = Ok tt).
        { assert (Hall : forallb (supported_in ctx) args = true) by (destruct o; try discriminate Hsp; try discriminate Et; assumption).
          clear Har Hargs Hty. induction args as [|x args IHa]; [reflexivity|].
          inversion H as [|? ? Hx Hrest]; subst. cbn [forallb] in Hall. apply andb_true_iff in Hall as [H1 H2].
          rewrite (Hx H1). apply IHa; assumption. }
        rewrite Hgo. reflexivity.
    - (* ATupleVar *)
      cbn [supported_in] in Hs. destruct sp; [reflexivity | | discriminate Hs]. cbn [is_abc negb andb] in Hs. cbn [conv_ok]. rewrite (IHa Hs).
      rewrite (gf_conv_origins cfg good TTuple); [reflexivity | cbn; tauto].
    - (* ATupleEmpty *)
      destruct sp; [reflexivity | | discriminate Hs]. cbn [conv_ok].
      rewrite (gf_conv_origins cfg good TTuple); [reflexivity | cbn; tauto].
  Qed.

  (* ---- generic aliases ------------------------------------------------------------------------ *)
  Definition type_arg_ok (o : tname) (args : list ann) : bool :=
    match o with
    | TType => match args with [ACls c] => negb (cls_eqb c CInspectEmpty) | [AAny] => true | _ => false end
    | _ => true
    end.

  Lemma generic_pure (f : ann -> value -> tvenv -> res) o args :
    (o <> TType -> forall a0, In a0 args -> forall v tv, f a0 v tv = (Ok (chk cfg ctx a0 v), tv)) ->
    arity_ok o (List.length args) = true -> type_arg_ok o args = true ->
    forall sp v tv, generic_f cfg f o args v tv = (Ok (chk cfg ctx (AGeneric sp o args) v), tv).
  Proof.
    intros Hf0 Har Hty sp v tv. unfold generic_f.
    assert (Hf : origin_kind o <> KType -> forall a0, In a0 args -> forall v tv, f a0 v tv = (Ok (chk cfg ctx a0 v), tv)).
    { intro Hne. apply Hf0. intros ->. apply Hne. reflexivity. }
    assert (Hk : origin_kind o <> KNone) by (unfold arity_ok in Har; destruct (origin_kind o); discriminate).
    pose proof (kelems_vocab o Hk) as Hin.
    rewrite (has_required_generic o args Hin Har). cbn [negb].
    pose proof (gf_kind cfg good o Hin) as Hkind. unfold kind_ok in Hkind.
    cbn [chk]. unfold arity_ok in Har.
    destruct (origin_kind o) eqn:Ek; try (exfalso; apply Hk; reflexivity).
    - (* KElems *)
      destruct (origin_checker cfg o) as [[]|]; try discriminate Hkind.
      destruct args as [|a0 [|? ?]]; try discriminate Har.
      destruct (abc_instance o (class_of v)) eqn:Eabc; cbn [negb andb]; [|reflexivity].
      pose proof (elems_iterable o v Ek Eabc) as Hit.
      destruct (iter_values v) as [l|]; [|congruence].
      rewrite (gf_it_index cfg good), (gf_it_quant cfg good). cbn [q_run].
      apply q_all_pure. intros x _ tv'. apply Hf; [discriminate | now left].
    - (* KMapping *)
      destruct (origin_checker cfg o) as [[]|]; try discriminate Hkind.
      destruct args as [|ka [|va [|? ?]]]; try discriminate Har.
      destruct (abc_instance o (class_of v)) eqn:Eabc; cbn [negb andb]; [|reflexivity].
      rewrite (gf_mp cfg good).
      pose proof (mapping_items o v Ek Eabc) as Hit.
      destruct (items_of v) as [kvs|]; [|congruence].
      unfold items_f. rewrite (gf_iv_quant cfg good). cbn [q_run].
      apply q_all_pure. intros kv _ tv'.
      apply (pair_pure f (chk cfg ctx)); intros; apply Hf; try discriminate; cbn; tauto.
    - (* KItems *)
      destruct (origin_checker cfg o) as [[]|]; try discriminate Hkind.
      destruct args as [|ka [|va [|? ?]]]; try discriminate Har.
      destruct (abc_instance o (class_of v)) eqn:Eabc; cbn [negb andb]; [|reflexivity].
      assert (o = TItemsView) by (destruct o; try discriminate Ek; reflexivity). subst o.
      pose proof (items_pairs v Eabc) as Hit.
      destruct (pairs_of v) as [kvs|]; [|congruence].
      unfold items_f. rewrite (gf_iv_quant cfg good). cbn [q_run].
      apply q_all_pure. intros kv _ tv'.
      apply (pair_pure f (chk cfg ctx)); intros; apply Hf; try discriminate; cbn; tauto.
    - (* KTuple *)
      destruct (origin_checker cfg o) as [[]|]; try discriminate Hkind.
      assert (o = TTuple) by (destruct o; try discriminate Ek; reflexivity). subst o.
      destruct (abc_instance TTuple (class_of v)) eqn:Eabc; cbn [negb].
      + destruct (tuple_inst v Eabc) as [vs ->].
        rewrite (gf_len cfg good). cbn [andb].
        destruct (Nat.eqb (List.length vs) (List.length args)); cbn [negb andb]; [|reflexivity].
        apply (zip_pure f (chk cfg ctx)). intros a0 Ha0 v0 tv0. apply Hf; [discriminate | assumption].
      + destruct v; try reflexivity. discriminate Eabc.
    - (* KType *)
      destruct (origin_checker cfg o) as [[]|]; try discriminate Hkind.
      assert (o = TType) by (destruct o; try discriminate Ek; reflexivity). subst o.
      destruct args as [|a0 [|? ?]]; try discriminate Har.
      destruct (abc_instance TType (class_of v)) eqn:Eabc; cbn [negb].
      + destruct (type_inst v Eabc) as [d ->]. rewrite (gf_ty cfg good).
        cbn [type_arg_ok] in Hty. destruct a0; try discriminate Hty; reflexivity.
      + destruct v; try reflexivity. discriminate Eabc.
  Qed.

  Lemma tuple_var_pure (f : ann -> value -> tvenv -> res) e :
    (forall v tv, f e v tv = (Ok (chk cfg ctx e v), tv)) ->
    forall sp v tv, tuple_var_f cfg f e v tv = (Ok (chk cfg ctx (ATupleVar sp e) v), tv).
  Proof.
    intros Hf sp v tv. unfold tuple_var_f. rewrite has_required_tuplevar. cbn [negb].
    pose proof (gf_kind cfg good TTuple ltac:(cbn; tauto)) as Hkind. unfold kind_ok in Hkind. cbn [origin_kind] in Hkind.
    destruct (origin_checker cfg TTuple) as [[]|]; try discriminate Hkind.
    cbn [chk].
    destruct (abc_instance TTuple (class_of v)) eqn:Eabc; cbn [negb].
    - destruct (tuple_inst v Eabc) as [vs ->]. rewrite (gf_ell_index cfg good), (gf_ell_quant cfg good). cbn [q_run].
      apply q_all_pure. intros x _ tv'. apply Hf.
    - destruct v; try reflexivity. discriminate Eabc.
  Qed.

  (* ---- the refinement theorem ------------------------------------------------------------------ *)
  Theorem is_inst_refines : forall a, supported_in ctx a = true ->
    forall v tv, is_inst cfg ctx hook a v tv = (Ok (chk cfg ctx a v), tv).
  Proof.
    induction a as [ | c | | sp args IHargs | vals | s IHs | n | n | sp o args IHargs | sp e IHe | sp | o | ps r IHps IHr | t | k]
      using ann_ind'; intros Hs v tv; try discriminate Hs.
    - (* ACls *)
      cbn [is_inst]. unfold has_required, has_required_tables. cbn [ann_name]. rewrite orb_true_r. cbn [negb]. cbn [supported_in] in Hs. unfold plain_cls_ok in Hs.
      apply andb_true_iff in Hs as [Hb _]. apply negb_true_iff in Hb.
      unfold inst_cls. rewrite (in_bare_false c Hb). reflexivity.
    - (* AAny *)
      cbn [is_inst]. rewrite has_required_any, (gf_any cfg good). reflexivity.
    - (* AUnion *)
      cbn [supported_in] in Hs. apply andb_true_iff in Hs as [_ Hall].
      assert (Hm : forall m, In m args -> is_typevar m = false /\
                   forall tv', is_inst cfg ctx hook m v tv' = (Ok (chk cfg ctx m v), tv')).
      { intros m Hm. rewrite forallb_forall in Hall. rewrite Forall_forall in IHargs. split.
        - apply supported_no_tv. now apply Hall.
        - intro tv'. apply IHargs; [assumption | now apply Hall]. }
      cbn [is_inst]. rewrite has_required_union. cbn [negb].
      assert (Hu : union_f cfg hook (fun m => is_inst cfg ctx hook m) args v tv = (Ok (chk cfg ctx (AUnion sp args) v), tv)).
      { cbn [chk]. apply (union_pure (fun m => is_inst cfg ctx hook m) (fun m => chk cfg ctx m v) v args tv). exact Hm. }
      destruct sp; [|exact Hu].
      destruct (is_optional args); [rewrite (gf_optional cfg good) | rewrite (gf_union cfg good)]; exact Hu.
    - (* ALiteral *)
      cbn [is_inst]. unfold has_required, has_required_tables. cbn [ann_name negb].
      rewrite (gf_literal cfg good), (gf_lit cfg good). reflexivity.
    - (* ANewType *)
      cbn [supported_in] in Hs.
      assert (Heq : forall s0, is_inst cfg ctx hook (ANewType s0) v tv =
                match s0 with
                | ACls c => (Ok (isinstance v c), tv)
                | _ => if newtype_recurses cfg then is_inst cfg ctx hook s0 v tv else (Raise TypeErrorC, tv)
                end) by (intro s0; destruct s0; reflexivity).
      rewrite Heq, (gf_newtype cfg good).
      destruct s; try discriminate Hs; try reflexivity; cbn [chk]; apply IHs; exact Hs.
    - (* AFwdRef *)
      cbn [supported_in] in Hs. cbn [is_inst chk]. unfold has_required, has_required_tables. cbn [ann_name negb].
      destruct (ctx n) as [c|]; [|discriminate Hs]. unfold plain_cls_ok in Hs.
      apply andb_true_iff in Hs as [Hb _]. apply negb_true_iff in Hb.
      unfold inst_cls. rewrite (in_bare_false c Hb). reflexivity.
    - (* AGeneric *)
      pose proof (conv_ok_supported _ Hs) as Hconv.
      cbn [supported_in] in Hs. apply andb_true_iff in Hs as [Hs Hargs]. apply andb_true_iff in Hs as [Har Hsp].
      assert (Hty : type_arg_ok o args = true).
      { unfold type_arg_ok. destruct o; try reflexivity. exact Hargs. }
      assert (Hf : o <> TType -> forall a0, In a0 args -> forall v0 tv0,
                   is_inst cfg ctx hook a0 v0 tv0 = (Ok (chk cfg ctx a0 v0), tv0)).
      { intros Hne a0 Ha0. rewrite Forall_forall in IHargs. apply IHargs; [assumption|].
        destruct o; try (rewrite forallb_forall in Hargs; now apply Hargs). now elim Hne. }
      pose proof (generic_pure (fun x => is_inst cfg ctx hook x) o args Hf Har Hty) as Hg.
      cbn [is_inst]. destruct sp.
      + rewrite (has_required_generic o args); [| | exact Har].
        * cbn [negb]. apply Hg.
        * apply kelems_vocab. unfold arity_ok in Har. destruct (origin_kind o); discriminate.
      + unfold has_required, has_required_tables. cbn [ann_name negb]. rewrite Hconv. apply Hg.
      + discriminate Hsp.
    - (* ATupleVar *)
      pose proof (conv_ok_supported _ Hs) as Hconv. cbn [supported_in] in Hs.
      apply andb_true_iff in Hs as [Hsp Hs].
      pose proof (tuple_var_pure (fun x => is_inst cfg ctx hook x) e (fun v0 tv0 => IHe Hs v0 tv0)) as Ht.
      cbn [is_inst]. destruct sp.
      + rewrite has_required_tuplevar. cbn [negb]. apply Ht.
      + unfold has_required, has_required_tables. cbn [ann_name negb]. rewrite Hconv. apply Ht.
      + discriminate Hsp.
    - (* ATupleEmpty *)
      pose proof (conv_ok_supported _ Hs) as Hconv.
      assert (Hg : generic_f cfg (fun x => is_inst cfg ctx hook x) TTuple [] v tv = (Ok (chk cfg ctx (ATupleEmpty sp) v), tv)).
      { unfold generic_f. unfold has_required at 1. rewrite (gf_tuple_empty cfg good). cbn [orb negb].
        pose proof (gf_kind cfg good TTuple ltac:(cbn; tauto)) as Hkind. unfold kind_ok in Hkind. cbn [origin_kind] in Hkind.
        destruct (origin_checker cfg TTuple) as [[]|]; try discriminate Hkind.
        destruct (abc_instance TTuple (class_of v)) eqn:Eabc; cbn [negb].
        - destruct (tuple_inst v Eabc) as [vs ->]. rewrite (gf_len cfg good). cbn [andb chk].
          destruct vs; cbn [List.length Nat.eqb negb]; [|reflexivity].
          cbn [zip_f]. rewrite (gf_zip cfg good). reflexivity.
        - destruct v; try reflexivity. discriminate Eabc. }
      cbn [is_inst]. destruct sp.
      + unfold has_required at 1. rewrite (gf_tuple_empty cfg good). cbn [orb negb]. exact Hg.
      + unfold has_required, has_required_tables. cbn [ann_name negb]. rewrite Hconv. exact Hg.
      + discriminate Hs.
    - (* ACallable *)
      cbn [supported_in] in Hs. apply andb_true_iff in Hs as [Hr Hps].
      cbn [is_inst]. rewrite has_required_callable, (gf_callable cfg good). cbn [negb chk].
      destruct (callable_check_simple ps r v Hr) as [b ->]; [|reflexivity].
      intros l ->. exact Hps.
  Qed.

End Refine.
