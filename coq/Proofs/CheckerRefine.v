(* Refinement: on the supported vocabulary the exception-precise, state-threading model of
   _is_instance computes exactly the pure function `chk`, never raises and leaves the TypeVar
   environment untouched - for every good configuration, every context, every value and every
   environment.  By nested induction on the annotation (no depth bound).                     *)
From Coq Require Import List Arith Bool ZArith Lia.
From PV Require Import Base.Exn Base.Values Base.Ann Model.CheckerCfg Model.Checker Spec.Conforms Proofs.CheckerGood.
Import ListNotations.

Lemma list_nat_eqb_eq : forall a b, list_nat_eqb a b = true -> a = b.
Proof.
  induction a as [|x a IH]; destruct b as [|y b]; simpl; intro H; try discriminate; [reflexivity|].
  apply andb_true_iff in H as [H1 H2]. apply Nat.eqb_eq in H1. f_equal; auto.
Qed.

Lemma list_nat_eqb_refl : forall a, list_nat_eqb a a = true.
Proof. induction a as [|x a IH]; simpl; [reflexivity|]. now rewrite Nat.eqb_refl. Qed.

Lemma cls_eqb_eq : forall a b, cls_eqb a b = true -> a = b.
Proof.
  destruct a, b; simpl; intro H; try discriminate; try reflexivity.
  f_equal. now apply list_nat_eqb_eq.
Qed.

Lemma cls_eqb_refl : forall a, cls_eqb a a = true.
Proof. destruct a; simpl; try reflexivity. apply list_nat_eqb_refl. Qed.

Lemma tname_eqb_eq : forall a b, tname_eqb a b = true -> a = b.
Proof. destruct a, b; simpl; intro H; try discriminate; reflexivity. Qed.

(* ---- iterators -------------------------------------------------------------------------- *)
Lemma q_all_pure {A} (f : A -> tvenv -> res) (g : A -> bool) :
  forall l tv, (forall x, In x l -> forall tv', f x tv' = (Ok (g x), tv')) ->
  q_all f l tv = (Ok (forallb g l), tv).
Proof.
  induction l as [|x l IH]; intros tv H; simpl; [reflexivity|].
  rewrite (H x (or_introl eq_refl)). destruct (g x); simpl; [|reflexivity].
  apply IH. intros y Hy. apply H. now right.
Qed.

Section Refine.
  Variable cfg : checker_cfg.
  Hypothesis good : good_facts cfg.
  Variable ctx : nat -> option cls.
  Variable hook : ann -> value -> tvenv -> res.

  Lemma in_bare_false c : bare_builtin_cls c = false -> in_cls c (bare_builtins cfg) = false.
  Proof.
    intro H. unfold in_cls. destruct (existsb (cls_eqb c) (bare_builtins cfg)) eqn:E; [|reflexivity].
    apply existsb_exists in E as [x [Hx Hc]]. apply cls_eqb_eq in Hc; subst x.
    rewrite (gf_bare_sub cfg good c Hx) in H. discriminate.
  Qed.

  Lemma in_conv_bare_false c : bare_builtin_cls c = false -> in_cls c (conv_bare cfg) = false.
  Proof.
    intro H. unfold in_cls. destruct (existsb (cls_eqb c) (conv_bare cfg)) eqn:E; [|reflexivity].
    apply existsb_exists in E as [x [Hx Hc]]. apply cls_eqb_eq in Hc; subst x.
    rewrite (gf_conv_sub cfg good c Hx) in H. discriminate.
  Qed.

  Lemma req_lo o n : In o vocab_names -> lo o <= n -> (o = TTuple \/ n = lo o) ->
    match req_exact cfg o with
    | Some k => Nat.eqb k n
    | None => match req_min cfg o with Some k => Nat.leb k n | None => true end
    end = true.
  Proof.
    intros Hin Hle Hex. pose proof (gf_req cfg good o Hin) as H. unfold req_ok in H.
    destruct (req_exact cfg o) as [k|].
    - apply andb_true_iff in H as [Ht Hk]. apply Nat.eqb_eq in Hk. subst k.
      destruct Hex as [->|->]; [discriminate|apply Nat.eqb_refl].
    - destruct (req_min cfg o) as [k|]; [|reflexivity]. apply Nat.leb_le in H. apply Nat.leb_le. lia.
  Qed.

  Lemma members_pure (f : ann -> value -> tvenv -> res) (g : ann -> bool) v :
    forall l tv acc,
    (forall m, In m l -> is_typevar m = false /\ forall tv', f m v tv' = (Ok (g m), tv')) ->
    members_f cfg f v l tv acc = (Ok (acc || existsb g l), tv).
  Proof.
    induction l as [|m l IH]; intros tv acc H; simpl.
    - now rewrite orb_false_r.
    - destruct (H m (or_introl eq_refl)) as [Htv Hf]. rewrite Htv, Hf, (gf_un cfg good).
      rewrite IH by (intros y Hy; apply H; now right). now rewrite orb_assoc.
  Qed.

  Lemma union_tail_no_tv : forall l tv0 v tv,
    (forall m, In m l -> is_typevar m = false) -> union_tail hook l tv0 v tv = (Ok false, tv).
  Proof.
    intros l tv0 v tv H. unfold union_tail.
    assert (Hb : forall l', (forall m, In m l' -> is_typevar m = false) ->
                 union_bounded hook l' tv0 v tv = (None, tv) /\ union_unbounded l' tv0 = []).
    { induction l' as [|m l' IH]; intro H'; simpl; [auto|].
      pose proof (H' m (or_introl eq_refl)) as Hm.
      destruct m; try discriminate; apply IH; intros y Hy; apply H'; now right. }
    destruct (Hb l H) as [-> ->]. reflexivity.
  Qed.

  Lemma union_pure (f : ann -> value -> tvenv -> res) (g : ann -> bool) v l tv :
    (forall m, In m l -> is_typevar m = false /\ forall tv', f m v tv' = (Ok (g m), tv')) ->
    union_f cfg hook f l v tv = (Ok (existsb g l), tv).
  Proof.
    intro H. unfold union_f. rewrite (gf_un cfg good).
    rewrite (members_pure f g v l tv false H). simpl.
    destruct (existsb g l); [reflexivity|].
    apply union_tail_no_tv. intros m Hm. now destruct (H m Hm).
  Qed.

  Lemma zip_pure (f : ann -> value -> tvenv -> res) (g : ann -> value -> bool) :
    forall l, (forall a0, In a0 l -> forall v tv, f a0 v tv = (Ok (g a0 v), tv)) ->
    forall vs tv,
    zip_f cfg f l vs tv =
    (Ok ((fix zb (l : list ann) (vs : list value) : bool :=
            match l, vs with a0 :: l', v0 :: vs' => g a0 v0 && zb l' vs' | _, _ => true end) l vs), tv).
  Proof.
    induction l as [|a0 l IH]; intros H vs tv; simpl; rewrite ?(gf_zip cfg good); [reflexivity|].
    destruct vs as [|v0 vs]; [reflexivity|].
    rewrite (H a0 (or_introl eq_refl)). destruct (g a0 v0); simpl; [|reflexivity].
    rewrite (gf_zip cfg good). apply IH. intros y Hy. apply H. now right.
  Qed.

  Lemma pair_pure (f : ann -> value -> tvenv -> res) (g : ann -> value -> bool) ka va :
    (forall v tv, f ka v tv = (Ok (g ka v), tv)) -> (forall v tv, f va v tv = (Ok (g va v), tv)) ->
    forall kv tv, pair_check cfg f ka va kv tv = (Ok (g ka (fst kv) && g va (snd kv)), tv).
  Proof.
    intros Hk Hv kv tv. unfold pair_check. rewrite (gf_iv_conj cfg good), Hk.
    destruct (g ka (fst kv)); simpl; [apply Hv|reflexivity].
  Qed.

  (* value classes accepted by the isinstance test of an element-wise origin can be iterated *)
  Lemma elems_iterable o v : origin_kind o = KElems -> abc_instance o (class_of v) = true -> iter_values v <> None.
  Proof. destruct o; simpl; try discriminate; intros _; destruct v; simpl; try discriminate; intros _; discriminate. Qed.

  Lemma mapping_items o v : origin_kind o = KMapping -> abc_instance o (class_of v) = true -> items_of v <> None.
  Proof. destruct o; simpl; try discriminate; intros _; destruct v; simpl; try discriminate; intros _; discriminate. Qed.

  Lemma items_pairs v : abc_instance TItemsView (class_of v) = true -> pairs_of v <> None.
  Proof. destruct v; simpl; try discriminate; intros _; discriminate. Qed.

  Lemma tuple_inst v : abc_instance TTuple (class_of v) = true -> exists vs, v = VTuple vs.
  Proof. destruct v; simpl; try discriminate; eauto. Qed.

  Lemma type_inst v : abc_instance TType (class_of v) = true -> exists d, v = VClass d.
  Proof. destruct v; simpl; try discriminate; eauto. Qed.

  Lemma has_required_generic o args :
    In o vocab_names -> arity_ok o (List.length args) = true ->
    has_required cfg (AGeneric SpTyping o args) = true.
  Proof.
    intros Hin Ha. unfold has_required. cbn [ann_name n_type_args].
    apply req_lo; [assumption| |]; unfold arity_ok, lo in *; destruct (origin_kind o) eqn:Ek;
      try (apply Nat.eqb_eq in Ha); try (apply Nat.leb_le in Ha); try lia; try discriminate.
    - right; lia.
    - right; lia.
    - right; lia.
    - left. destruct o; try discriminate; reflexivity.
    - right; lia.
  Qed.

  Lemma kelems_vocab o : origin_kind o <> KNone -> In o vocab_names.
  Proof. destruct o; simpl; intro H; try (exfalso; apply H; reflexivity); tauto. Qed.

  Lemma supported_no_tv a : supported_in ctx a = true -> is_typevar a = false.
  Proof. destruct a; simpl; try discriminate; reflexivity. Qed.

  Lemma conv_ok_supported : forall a, supported_in ctx a = true -> conv_ok cfg a = Ok tt.
  Proof.
    induction a using ann_ind'; intro Hs; try reflexivity.
    - (* ACls *) cbn [conv_ok]. cbn [supported_in] in Hs. unfold plain_cls_ok in Hs.
      apply andb_true_iff in Hs as [Hb _]. apply negb_true_iff in Hb. now rewrite (in_conv_bare_false c Hb).
    - (* AGeneric *)
      destruct sp; [reflexivity|]. cbn [supported_in] in Hs.
      apply andb_true_iff in Hs as [Hs Hargs]. apply andb_true_iff in Hs as [Har Hsp].
      cbn [conv_ok].
      assert (Hgo : (fix go (l : list ann) : outcome unit :=
                       match l with [] => Ok tt | x :: l' => match conv_ok cfg x with Ok _ => go l' | Raise e => Raise e end end) args = Ok tt).
      { destruct o; try discriminate Hsp.
        1,2,3,4,5: (clear Har; induction args as [|x args IHa]; [reflexivity|];
          inversion H as [|? ? Hx Hrest]; subst; cbn [forallb] in Hargs; apply andb_true_iff in Hargs as [H1 H2];
          rewrite (Hx H1); apply IHa; assumption).
        destruct args as [|x [|? ?]]; try discriminate Hargs.
        destruct x; try discriminate Hargs; cbn [conv_ok].
        - destruct (in_cls c (conv_bare cfg)) eqn:E; [|reflexivity]. exfalso.
          (* Type[C] with C a bare builtin class such as Type[list]: conversion rejects it *)
          admit.
        - reflexivity. }
      admit.
    - admit.
  Abort.
End Refine.
