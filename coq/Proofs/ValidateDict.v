(* Lemmas about the insertion-ordered dictionaries of Model/ValidateSem.v. *)
From Coq Require Import List Arith Bool Permutation Lia.
From PV Require Import Base.Exn Model.ValidateSem.
Import ListNotations.

Section Dict.
Variable value : Type.
Notation dict := (dict value).

Definition keys (d : dict) : list name := map fst d.
Definition dsets (l : dict) (r : dict) : dict := fold_left (fun r kv => dset (fst kv) (snd kv) r) l r.
(* same binding name by name *)
Definition deq (r r' : dict) : Prop := forall n, dget n r = dget n r'.

Lemma mem_In : forall k l, mem k l = true <-> In k l.
Proof.
  intros k l. unfold mem. rewrite existsb_exists. split.
  - intros [x [Hx He]]. apply Nat.eqb_eq in He. now subst.
  - intro H. exists k. split; [assumption | apply Nat.eqb_refl].
Qed.

Lemma mem_false : forall k l, mem k l = false <-> ~ In k l.
Proof. intros. rewrite <- mem_In. destruct (mem k l); split; congruence. Qed.

Lemma dget_In : forall n v (d : dict), dget n d = Some v -> In (n, v) d.
Proof.
  induction d as [|[k w] d IH]; simpl; [discriminate|].
  destruct (Nat.eqb k n) eqn:E.
  - intro H; injection H as ->. apply Nat.eqb_eq in E. subst. now left.
  - intro H. right. auto.
Qed.

Lemma dget_None_keys : forall n (d : dict), dget n d = None <-> ~ In n (keys d).
Proof.
  induction d as [|[k w] d IH]; simpl.
  - tauto.
  - destruct (Nat.eqb k n) eqn:E.
    + apply Nat.eqb_eq in E. subst. split; [discriminate | intro H; exfalso; apply H; now left].
    + apply Nat.eqb_neq in E. rewrite IH. tauto.
Qed.

Lemma dmem_keys : forall n (d : dict), dmem n d = true <-> In n (keys d).
Proof.
  intros. unfold dmem. destruct (dget n d) eqn:E.
  - split; [|reflexivity]. intros _. destruct (in_dec Nat.eq_dec n (keys d)) as [H|H]; [assumption|].
    apply dget_None_keys in H. congruence.
  - apply dget_None_keys in E. split; [discriminate | tauto].
Qed.

Lemma In_dget_nodup : forall n v (d : dict), NoDup (keys d) -> In (n, v) d -> dget n d = Some v.
Proof.
  induction d as [|[k w] d IH]; simpl; intros ND H; [contradiction|].
  inversion ND as [|? ? Hk ND']; subst.
  destruct H as [H|H].
  - injection H as -> ->. now rewrite Nat.eqb_refl.
  - destruct (Nat.eqb k n) eqn:E.
    + apply Nat.eqb_eq in E. subst. exfalso. apply Hk. change n with (fst (n, v)). now apply in_map.
    + auto.
Qed.

Lemma dget_app : forall n (a b : dict),
  dget n (a ++ b) = match dget n a with Some v => Some v | None => dget n b end.
Proof.
  induction a as [|[k w] a IH]; simpl; intros; [reflexivity|].
  destruct (Nat.eqb k n); auto.
Qed.

(* ---- dset ---- *)
Lemma dget_dset_eq : forall k v (d : dict), dget k (dset k v d) = Some v.
Proof.
  induction d as [|[k' w] d IH]; simpl.
  - now rewrite Nat.eqb_refl.
  - destruct (Nat.eqb k' k) eqn:E; simpl; rewrite ?Nat.eqb_refl, ?E; auto.
Qed.

Lemma dget_dset_neq : forall k n v (d : dict), k <> n -> dget n (dset k v d) = dget n d.
Proof.
  induction d as [|[k' w] d IH]; simpl; intro H.
  - apply Nat.eqb_neq in H. now rewrite H.
  - destruct (Nat.eqb k' k) eqn:E; simpl.
    + apply Nat.eqb_eq in E. subst. apply Nat.eqb_neq in H. now rewrite H.
    + destruct (Nat.eqb k' n); auto.
Qed.

Lemma dget_dset : forall k n v (d : dict),
  dget n (dset k v d) = if Nat.eqb k n then Some v else dget n d.
Proof.
  intros. destruct (Nat.eqb k n) eqn:E.
  - apply Nat.eqb_eq in E. subst. apply dget_dset_eq.
  - apply Nat.eqb_neq in E. now apply dget_dset_neq.
Qed.

Lemma keys_dset_In : forall k v n (d : dict), In n (keys (dset k v d)) <-> n = k \/ In n (keys d).
Proof.
  intros. rewrite <- !dmem_keys. unfold dmem. rewrite dget_dset.
  destruct (Nat.eqb k n) eqn:E.
  - apply Nat.eqb_eq in E. subst. tauto.
  - apply Nat.eqb_neq in E. split; [tauto|]. intros [H|H]; [congruence|assumption].
Qed.

Lemma nodup_dset : forall k v (d : dict), NoDup (keys d) -> NoDup (keys (dset k v d)).
Proof.
  induction d as [|[k' w] d IH]; simpl; intro ND.
  - constructor; [tauto | constructor].
  - inversion ND as [|? ? Hk ND']; subst.
    destruct (Nat.eqb k' k) eqn:E; simpl.
    + apply Nat.eqb_eq in E. subst. now constructor.
    + constructor; [|auto]. intro H. apply keys_dset_In in H. apply Nat.eqb_neq in E.
      destruct H; [congruence | contradiction].
Qed.

Lemma In_dset : forall k v n w (d : dict), In (n, w) (dset k v d) -> (n = k /\ w = v) \/ In (n, w) d.
Proof.
  induction d as [|[k' w'] d IH]; simpl.
  - intros [H|[]]. injection H as <- <-. now left.
  - destruct (Nat.eqb k' k) eqn:E; simpl.
    + intros [H|H]; [injection H as <- <-; now left | tauto].
    + intros [H|H]; [tauto|]. apply IH in H. tauto.
Qed.

(* ---- dsets ---- *)
Lemma dsets_app : forall (a b r : dict), dsets (a ++ b) r = dsets b (dsets a r).
Proof. intros. unfold dsets. apply fold_left_app. Qed.

Lemma nodup_dsets : forall (l r : dict), NoDup (keys r) -> NoDup (keys (dsets l r)).
Proof.
  induction l as [|[k v] l IH]; simpl; intros; [assumption|]. apply IH. now apply nodup_dset.
Qed.

Lemma dget_dsets_notin : forall n (l r : dict), ~ In n (keys l) -> dget n (dsets l r) = dget n r.
Proof.
  induction l as [|[k v] l IH]; simpl; intros r H; [reflexivity|].
  rewrite IH by tauto. apply dget_dset_neq. tauto.
Qed.

Lemma dget_dsets_in : forall n v (l r : dict),
  NoDup (keys l) -> In (n, v) l -> dget n (dsets l r) = Some v.
Proof.
  induction l as [|[k w] l IH]; simpl; intros r ND H; [contradiction|].
  inversion ND as [|? ? Hk ND']; subst.
  destruct H as [H|H].
  - injection H as -> ->. rewrite dget_dsets_notin by assumption. apply dget_dset_eq.
  - now apply IH.
Qed.

Lemma In_dsets : forall n w (l r : dict), In (n, w) (dsets l r) -> In (n, w) l \/ In (n, w) r.
Proof.
  induction l as [|[k v] l IH]; simpl; intros r H; [tauto|].
  apply IH in H. destruct H as [H|H]; [tauto|].
  apply In_dset in H. destruct H as [[-> ->]|H]; tauto.
Qed.

Lemma keys_dsets_In : forall n (l r : dict), In n (keys (dsets l r)) <-> In n (keys l) \/ In n (keys r).
Proof.
  induction l as [|[k v] l IH]; simpl; intros r; [tauto|].
  rewrite IH, keys_dset_In. intuition congruence.
Qed.

(* two insertion sequences with the same bindings (in any order) give the same dictionary, name by name *)
Lemma dsets_perm : forall (l l' r r' : dict),
  NoDup (keys l) -> Permutation l l' -> deq r r' -> deq (dsets l r) (dsets l' r').
Proof.
  intros l l' r r' ND P E n.
  assert (ND' : NoDup (keys l')) by (eapply Permutation_NoDup; [apply Permutation_map; eassumption | assumption]).
  destruct (in_dec Nat.eq_dec n (keys l)) as [I|I].
  - assert (exists w, In (n, w) l) as [w Hw].
    { unfold keys in I. apply in_map_iff in I. destruct I as [[a b] [<- I]]. now exists b. }
    rewrite (dget_dsets_in n w l r ND Hw).
    now rewrite (dget_dsets_in n w l' r' ND' (Permutation_in _ P Hw)).
  - rewrite !dget_dsets_notin; [apply E | | assumption].
    intro H. apply I. eapply Permutation_in; [apply Permutation_sym, Permutation_map; eassumption | assumption].
Qed.

Lemma deq_refl : forall r : dict, deq r r.
Proof. intros r n. reflexivity. Qed.

Lemma deq_dmem : forall (r r' : dict) n, deq r r' -> dmem n r = dmem n r'.
Proof. intros. unfold dmem. now rewrite H. Qed.

(* ---- dremove / filter ---- *)
Lemma filter_key_notin : forall k (d : dict), ~ In k (keys d) ->
  filter (fun kv => negb (Nat.eqb k (fst kv))) d = d.
Proof.
  induction d as [|[k' w] d IH]; simpl; intro H; [reflexivity|].
  destruct (Nat.eqb k k') eqn:E; simpl.
  - apply Nat.eqb_eq in E. subst. tauto.
  - f_equal. tauto.
Qed.

Lemma dremove_filter : forall k (d : dict),
  NoDup (keys d) -> dremove k d = filter (fun kv => negb (Nat.eqb k (fst kv))) d.
Proof.
  induction d as [|[k' w] d IH]; simpl; intro ND; [reflexivity|].
  inversion ND as [|? ? Hk ND']; subst.
  rewrite (Nat.eqb_sym k k'). destruct (Nat.eqb k' k) eqn:E; simpl.
  - apply Nat.eqb_eq in E. subst. symmetry. now apply filter_key_notin.
  - f_equal. auto.
Qed.

Lemma dget_filter_key : forall (P : name -> bool) n (d : dict),
  dget n (filter (fun kv => P (fst kv)) d) = if P n then dget n d else None.
Proof.
  induction d as [|[k w] d IH]; simpl.
  - now destruct (P n).
  - destruct (P k) eqn:Pk; simpl; destruct (Nat.eqb k n) eqn:E.
    + apply Nat.eqb_eq in E. subst. now rewrite Pk.
    + assumption.
    + apply Nat.eqb_eq in E. subst. rewrite Pk in *. assumption.
    + assumption.
Qed.

Lemma dget_filter_val : forall (Q : value -> bool) n (d : dict), NoDup (keys d) ->
  dget n (filter (fun kv => Q (snd kv)) d) =
  match dget n d with Some v => if Q v then Some v else None | None => None end.
Proof.
  induction d as [|[k w] d IH]; simpl; intro ND; [reflexivity|].
  inversion ND as [|? ? Hk ND']; subst.
  destruct (Nat.eqb k n) eqn:E.
  - apply Nat.eqb_eq in E. subst. destruct (Q w) eqn:Qw; simpl.
    + now rewrite Nat.eqb_refl.
    + rewrite IH by assumption. apply dget_None_keys in Hk. now rewrite Hk.
  - destruct (Q w); simpl; rewrite ?E; auto.
Qed.

Lemma keys_filter_incl : forall (f : name * value -> bool) n (d : dict), In n (keys (filter f d)) -> In n (keys d).
Proof.
  unfold keys. intros f n d H. apply in_map_iff in H. destruct H as [kv [<- H]].
  apply filter_In in H. apply in_map. tauto.
Qed.

Lemma nodup_filter_keys : forall (f : name * value -> bool) (d : dict), NoDup (keys d) -> NoDup (keys (filter f d)).
Proof.
  induction d as [|[k w] d IH]; simpl; intro ND; [constructor|].
  inversion ND as [|? ? Hk ND']; subst.
  destruct (f (k, w)); simpl; [|auto].
  constructor; [|auto]. intro H. apply Hk. eapply keys_filter_incl. eassumption.
Qed.

Lemma dget_dremove : forall k n (d : dict), NoDup (keys d) ->
  dget n (dremove k d) = if Nat.eqb k n then None else dget n d.
Proof.
  intros. rewrite dremove_filter by assumption.
  rewrite (dget_filter_key (fun x => negb (Nat.eqb k x))). now destruct (Nat.eqb k n).
Qed.

Lemma In_dremove : forall k kv (d : dict), In kv (dremove k d) -> In kv d.
Proof.
  induction d as [|[k' w] d IH]; simpl; [tauto|].
  destruct (Nat.eqb k' k); simpl; tauto.
Qed.

Lemma existsb_deq : forall (P : name -> bool) (r r' : dict), deq r r' ->
  existsb (fun kv => P (fst kv)) r = existsb (fun kv => P (fst kv)) r'.
Proof.
  assert (H : forall (P : name -> bool) (r r' : dict), deq r r' ->
              existsb (fun kv => P (fst kv)) r = true -> existsb (fun kv => P (fst kv)) r' = true).
  { intros P r r' E H. apply existsb_exists in H. destruct H as [[k v] [I Pk]]. simpl in Pk.
    assert (In k (keys r)) by (change k with (fst (k, v)); now apply in_map).
    apply dmem_keys in H. rewrite (deq_dmem _ _ k E) in H. apply dmem_keys in H.
    unfold keys in H. apply in_map_iff in H. destruct H as [[k' v'] [<- I']].
    apply existsb_exists. exists (k', v'). auto. }
  intros P r r' E.
  destruct (existsb (fun kv => P (fst kv)) r) eqn:A.
  - symmetry. eapply H; eassumption.
  - destruct (existsb (fun kv => P (fst kv)) r') eqn:B; [|reflexivity].
    rewrite <- A. eapply H; [|eassumption]. intro n. symmetry. apply E.
Qed.

End Dict.

Arguments keys {value} _.
Arguments dsets {value} _ _.
Arguments deq {value} _ _.
