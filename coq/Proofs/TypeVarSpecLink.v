(* C07: the model against the executable specification the harness evaluates (Spec/TypeVarSpec.v,
   call_spec / must_be_mismatch), for plain calls:  Must => accepted,  MustNot => rejected,
   must_be_mismatch => rejected with PedanticTypeVarMismatchException.                          *)
From Coq Require Import List Arith Bool ZArith Lia.
From PV Require Import Base.Exn Base.Values Base.Ann Model.CheckerCfg Model.Checker Model.GenericInstance
  Spec.Conforms Spec.TypeVarSpec Proofs.CheckerGood Proofs.CheckerRefine Proofs.CheckerSpec Proofs.CheckerTop
  Proofs.TypeVarFrame Proofs.TypeVarTC Proofs.TypeVarCall.
Import ListNotations.

Lemma all3_must l : all3 l = Must -> forall x, In x l -> x = Must.
Proof.
  unfold all3. destruct (existsb is_mustnot l); [discriminate|].
  destruct (forallb is_must l) eqn:E; [|discriminate]. intros _ x Hx.
  rewrite forallb_forall in E. specialize (E x Hx). destruct x; try discriminate; reflexivity.
Qed.

Lemma all3_mustnot l : all3 l = MustNot -> exists x, In x l /\ x = MustNot.
Proof.
  unfold all3. destruct (existsb is_mustnot l) eqn:E.
  - intros _. apply existsb_exists in E as [x [Hx Hm]]. exists x. split; [assumption|]. destruct x; try discriminate; reflexivity.
  - destruct (forallb is_must l); discriminate.
Qed.

Lemma traces_flat : forall ps vs,
  flat_map (fun p => matched true (fst p) (snd p)) (zip_av ps vs) = traces ps vs.
Proof. induction ps as [|a ps IH]; intros [|v vs]; try reflexivity. simpl. now rewrite IH. Qed.

Lemma zip_av_in : forall ps vs a v, In (a, v) (zip_av ps vs) -> In a ps.
Proof.
  induction ps as [|b ps IH]; intros [|w vs] a v H; try destruct H.
  - inversion H; now left.
  - right. eapply IH; eassumption.
Qed.

Lemma nodup_ids_in : forall l i, In i l -> In i (nodup_ids l).
Proof.
  induction l as [|x l IH]; intros i Hi; [destruct Hi|]. simpl.
  destruct (Nat.eq_dec x i) as [->|Hn]; [now left|]. right. apply filter_In. split.
  - apply IH. destruct Hi; [congruence|assumption].
  - apply negb_true_iff. now apply Nat.eqb_neq.
Qed.

Lemma pairwise_related_false : forall l, pairwise_related l = false ->
  exists x y, In x l /\ In y l /\ related x y = false.
Proof.
  induction l as [|c l IH]; intro H; [discriminate|]. simpl in H. apply andb_false_iff in H as [H|H].
  - assert (Hex : exists y, In y l /\ related c y = false).
    { clear -H. induction l as [|y l IHl]; [discriminate|]. simpl in H. apply andb_false_iff in H as [H|H].
      - exists y. split; [now left|assumption].
      - destruct (IHl H) as [z [Hz Hr]]. exists z. split; [now right|assumption]. }
    destruct Hex as [y [Hy Hr]]. exists c, y. repeat split; [now left|now right|assumption].
  - destruct (IH H) as [x [y [Hx [Hy Hr]]]]. exists x, y. repeat split; [now right|now right|assumption].
Qed.

Section Link.
  Variable cfg : checker_cfg.
  Hypothesis good : good_facts cfg.
  Hypothesis Hub : un_bound_uses_result cfg = true.
  Hypothesis Hmh : mismatch_handled cfg = true.
  Variable ctx : nat -> option cls.

  Let hook := is_inst0 cfg ctx.

  Definition ms_of (sg : msig) (args : list value) (ret : value) : list mpos := traces (sig_positions sg) (args ++ [ret]).
  (* one TypeVar object per id (the generated modules and any sane program satisfy it) *)
  Definition tvars_by_id (l : list mpos) : Prop :=
    forall p q, In p l -> In q l -> tv_id (mp_tv p) = tv_id (mp_tv q) -> mp_tv p = mp_tv q.
  Definition erased_supported (sg : msig) : Prop := forall a, In a (sig_positions sg) -> supported ctx (erase a) = true.

  Lemma struct_of_conforms a v : supported ctx (erase a) = true -> conforms ctx (erase a) v = Must -> pos_struct cfg ctx hook a v.
  Proof.
    intros Hs Hc. unfold pos_struct. rewrite (check_type_pure cfg good ctx hook (erase a) Hs v []). cbn [fst].
    destruct (chk_agrees_top cfg good ctx (erase a) Hs v) as [Hm _]. now rewrite (Hm Hc).
  Qed.

  Lemma struct_not_of_conforms a v : supported ctx (erase a) = true -> conforms ctx (erase a) v = MustNot -> ~ pos_struct cfg ctx hook a v.
  Proof.
    intros Hs Hc H. unfold pos_struct in H. rewrite (check_type_pure cfg good ctx hook (erase a) Hs v []) in H. cbn [fst] in H.
    destruct (chk_agrees_top cfg good ctx (erase a) Hs v) as [_ Hn]. rewrite (Hn Hc) in H. discriminate.
  Qed.

  Lemma all_struct_of : forall ps vs,
    (forall a v, In (a, v) (zip_av ps vs) -> pos_struct cfg ctx hook a v) -> all_struct cfg ctx hook ps vs.
  Proof.
    induction ps as [|a ps IH]; intros [|v vs] H; simpl; auto. split; [apply H; now left|].
    apply IH. intros b w Hb. apply H. now right.
  Qed.

  Lemma all_struct_in : forall ps vs, all_struct cfg ctx hook ps vs ->
    forall a v, In (a, v) (zip_av ps vs) -> pos_struct cfg ctx hook a v.
  Proof.
    induction ps as [|a ps IH]; intros [|v vs] H b w Hb; try destruct Hb.
    - inversion H0; subst. exact (proj1 H).
    - eapply IH; [exact (proj2 H)|eassumption].
  Qed.

  (* the per-TypeVar entry of call_spec for the id of a matched position *)
  Lemma first_tv_mine ms p : In p ms -> tvars_by_id ms -> first_tv ms (tv_id (mp_tv p)) = Some (mp_tv p).
  Proof.
    intros Hp Hid. unfold first_tv.
    destruct (filter (fun q => Nat.eqb (tv_id (mp_tv q)) (tv_id (mp_tv p))) ms) as [|q0 rest] eqn:Ef.
    - exfalso. assert (Hin : In p (filter (fun q => Nat.eqb (tv_id (mp_tv q)) (tv_id (mp_tv p))) ms)).
      { apply filter_In. split; [assumption|apply Nat.eqb_refl]. } rewrite Ef in Hin. destruct Hin.
    - assert (Hq : In q0 (filter (fun q => Nat.eqb (tv_id (mp_tv q)) (tv_id (mp_tv p))) ms)) by (rewrite Ef; now left).
      apply filter_In in Hq as [Hq He]. apply Nat.eqb_eq in He. f_equal. now apply Hid.
  Qed.

  Definition spec_of (sg : msig) (args : list value) (ret : value) : verdict :=
    call_spec ctx xenv_none (sig_positions sg) (args ++ [ret]).

  Lemma spec_unfold sg args ret : well_formed_call sg args ->
    spec_of sg args ret =
    all3 (all3 (map (fun p => conforms ctx (erase (fst p)) (snd p)) (zip_av (sig_positions sg) (args ++ [ret])))
          :: Must
          :: map (fun i => match first_tv (ms_of sg args ret) i with
                           | None => Must
                           | Some t => call_rule t (map mp_val (filter (fun p => Nat.eqb (tv_id (mp_tv p)) i) (ms_of sg args ret)))
                           end) (nodup_ids (map (fun p => tv_id (mp_tv p)) (ms_of sg args ret)))).
  Proof.
    intros Hw. pose proof (wf_len sg args ret Hw) as Hl. destruct Hw as [_ Hv].
    unfold spec_of, call_spec, ms_of. rewrite Hl, Nat.eqb_refl. simpl negb. cbv iota.
    rewrite Hv, traces_flat. reflexivity.
  Qed.

  Theorem spec_must_accepted sg args ret : well_formed_call sg args -> erased_supported sg ->
    tvars_by_id (ms_of sg args ret) -> spec_of sg args ret = Must -> plain_call cfg ctx sg args ret = Ok tt.
  Proof.
    intros Hw Hsup Hid Hspec. rewrite (spec_unfold sg args ret Hw) in Hspec.
    pose proof (all3_must _ Hspec) as Hall.
    set (ms := ms_of sg args ret) in *.
    set (P := fun i => match filter (fun p => Nat.eqb (tv_id (mp_tv p)) i) ms with p0 :: _ => class_of (mp_val p0) | [] => CObject end).
    apply (same_class_ok cfg good Hub ctx sg args ret P Hw).
    - (* structure *)
      apply all_struct_of. intros a v Hav. apply struct_of_conforms.
      + apply Hsup. eapply zip_av_in; eassumption.
      + pose proof (Hall _ (or_introl eq_refl)) as Hs. apply (all3_must _ Hs).
        apply in_map_iff. exists (a, v). split; [reflexivity|assumption].
    - (* per TypeVar *)
      intros p Hp. fold (ms_of sg args ret) in Hp. fold ms in Hp.
      set (i := tv_id (mp_tv p)).
      assert (Hent : call_rule (mp_tv p) (map mp_val (filter (fun q => Nat.eqb (tv_id (mp_tv q)) i) ms)) = Must).
      { assert (Hin : In i (nodup_ids (map (fun q => tv_id (mp_tv q)) ms))).
        { apply nodup_ids_in. apply in_map_iff. exists p. split; [reflexivity|assumption]. }
        pose proof (Hall _ (or_intror (or_intror (in_map _ _ _ Hin)))) as He. cbv beta in He.
        unfold i in He. now rewrite (first_tv_mine ms p Hp Hid) in He. }
      unfold call_rule in Hent.
      destruct (forallb (tv_admits (mp_tv p)) (map mp_val (filter (fun q => Nat.eqb (tv_id (mp_tv q)) i) ms))) eqn:Ea; [|discriminate].
      simpl negb in Hent. cbv iota in Hent.
      destruct (all_same (map class_of (map mp_val (filter (fun q => Nat.eqb (tv_id (mp_tv q)) i) ms)))) eqn:Es;
        [|destruct (pairwise_related _); discriminate].
      assert (Hpm : In p (filter (fun q => Nat.eqb (tv_id (mp_tv q)) i) ms)) by (apply filter_In; split; [assumption|apply Nat.eqb_refl]).
      split.
      + rewrite forallb_forall in Ea. apply Ea. now apply in_map.
      + unfold P. fold i. destruct (filter (fun q => Nat.eqb (tv_id (mp_tv q)) i) ms) as [|p0 rest]; [destruct Hpm|].
        simpl in Es. destruct Hpm as [<-|Hpr]; [reflexivity|].
        rewrite forallb_forall in Es. symmetry. apply cls_eqb_eq, Es.
        apply in_map_iff. exists (mp_val p). split; [reflexivity|now apply in_map].
  Qed.

  Theorem spec_mustnot_rejected sg args ret : well_formed_call sg args -> erased_supported sg ->
    tvars_by_id (ms_of sg args ret) -> spec_of sg args ret = MustNot -> plain_call cfg ctx sg args ret <> Ok tt.
  Proof.
    intros Hw Hsup Hid Hspec Hacc. rewrite (spec_unfold sg args ret Hw) in Hspec.
    destruct (all3_mustnot _ Hspec) as [x [Hx Hm]]. subst x.
    set (ms := ms_of sg args ret) in *.
    destruct Hx as [Hx|[Hx|Hx]]; [| discriminate |].
    - (* structure *)
      destruct (all3_mustnot _ Hx) as [y [Hy Hm]]. apply in_map_iff in Hy as [[a v] [Hc Hav]]. subst y. cbn [fst snd] in Hm.
      apply (plain_call_accepted_iff cfg good Hub ctx sg args ret Hw) in Hacc as [Hs _].
      apply (struct_not_of_conforms a v); [apply Hsup; eapply zip_av_in; eassumption|assumption|].
      exact (all_struct_in _ _ Hs a v Hav).
    - (* one TypeVar *)
      apply in_map_iff in Hx as [i [He Hi]].
      destruct (first_tv ms i) as [t|] eqn:Ef; [|discriminate].
      unfold first_tv in Ef.
      destruct (filter (fun p => Nat.eqb (tv_id (mp_tv p)) i) ms) as [|p0 rest] eqn:Emine; [discriminate|]. inversion Ef; subst t.
      assert (Hmine : forall q, In q (p0 :: rest) -> In q ms /\ tv_id (mp_tv q) = i).
      { intros q Hq. rewrite <- Emine in Hq. apply filter_In in Hq as [H1 H2]. apply Nat.eqb_eq in H2. auto. }
      assert (Hsame : forall q, In q (p0 :: rest) -> mp_tv q = mp_tv p0).
      { intros q Hq. destruct (Hmine q Hq) as [Hq1 Hq2]. destruct (Hmine p0 (or_introl eq_refl)) as [Hp1 Hp2].
        apply Hid; congruence. }
      unfold call_rule in He.
      destruct (forallb (tv_admits (mp_tv p0)) (map mp_val (p0 :: rest))) eqn:Ea.
      + simpl negb in He. cbv iota in He.
        destruct (all_same (map class_of (map mp_val (p0 :: rest)))); [discriminate|].
        destruct (pairwise_related (map class_of (map mp_val (p0 :: rest)))) eqn:Epr; [discriminate|].
        destruct (pairwise_related_false _ Epr) as [c1 [c2 [H1 [H2 Hr]]]].
        rewrite map_map in H1, H2. apply in_map_iff in H1 as [p [<- Hp]]. apply in_map_iff in H2 as [q [<- Hq]].
        destruct (Hmine p Hp) as [Hpm Hpi]. destruct (Hmine q Hq) as [Hqm Hqi].
        apply (unrelated_rejected cfg good Hub ctx sg args ret p q Hw Hpm Hqm); try assumption.
        * intros r Hr' Hri. apply Hid; [assumption|assumption|congruence].
        * rewrite (Hsame p Hp), (Hsame q Hq). reflexivity.
      + (* a value outside the constraints / bound *)
        assert (Hex : exists q, In q (p0 :: rest) /\ tv_admits (mp_tv p0) (mp_val q) = false).
        { clear -Ea. induction (p0 :: rest) as [|q l IH] in Ea |- *; [discriminate|]. simpl in Ea.
          apply andb_false_iff in Ea as [Ea|Ea]; [exists q; split; [now left|assumption]|].
          destruct (IH Ea) as [r [Hr Hf]]. exists r. split; [now right|assumption]. }
        destruct Hex as [q [Hq Hf]]. destruct (Hmine q Hq) as [Hqm _].
        pose proof (accepted_admitted cfg good Hub ctx sg args ret Hw Hacc q Hqm) as Hadm.
        rewrite (Hsame q Hq) in Hadm. congruence.
  Qed.

  Theorem spec_mismatch_kind sg args ret : well_formed_call sg args -> erased_supported sg ->
    tvars_by_id (ms_of sg args ret) ->
    must_be_mismatch ctx xenv_none (sig_positions sg) (args ++ [ret]) = true ->
    exists e, plain_call cfg ctx sg args ret = Raise e /\ derives e PTypeVarMismatchC = true.
  Proof.
    intros Hw Hsup Hid Hmm. unfold must_be_mismatch in Hmm.
    repeat (apply andb_true_iff in Hmm as [Hmm ?]).
    rewrite traces_flat in *.
    apply (rejection_is_mismatch cfg good Hub ctx sg args ret Hmh Hw).
    - apply all_struct_of. intros a v Hav. apply struct_of_conforms; [apply Hsup; eapply zip_av_in; eassumption|].
      match goal with Hs : is_must _ = true |- _ =>
        destruct (all3 (map (fun p => conforms ctx (erase (fst p)) (snd p)) (zip_av (sig_positions sg) (args ++ [ret])))) eqn:E; try discriminate Hs end.
      apply (all3_must _ E). apply in_map_iff. exists (a, v). split; [reflexivity|assumption].
    - intros p Hp. match goal with Hf : forallb _ (traces _ _) = true |- _ => rewrite forallb_forall in Hf; specialize (Hf p Hp) end.
      repeat match goal with Hf : _ && _ = true |- _ => apply andb_true_iff in Hf as [Hf ?] end.
      split; [now apply negb_true_iff|assumption].
    - apply spec_mustnot_rejected; try assumption.
      match goal with Hs : is_mustnot (call_spec _ _ _ _) = true |- _ => unfold spec_of; destruct (call_spec ctx xenv_none (sig_positions sg) (args ++ [ret])); try discriminate Hs; reflexivity end.
  Qed.
End Link.
