(* C06, wrapper half: a @pedantic function with a parameter without annotation (named, *args or **kwargs) never
   runs its body and never returns; without a return annotation it never hands a value back - for EVERY checker,
   every call and every body, over the call protocol regenerated from function_call.py / fn_deco_pedantic.py. *)
From Coq Require Import List Arith Bool Lia String.
From PV Require Import Base.Exn Base.Values Base.Ann Base.PyCall Model.Checker Model.PedanticCfg Model.Pedantic Proofs.PedanticBase.
Import ListNotations.
Open Scope list_scope.

Section C06.
  Variable pc : pedantic_cfg.
  Variable check : ann -> value -> tvenv -> outcome unit * tvenv.
  Variable consumes : ann -> value -> bool.
  Hypothesis good : pc_good pc = true.
  Let G := good_inv pc good.

  Definition never_ok {A} (r : outcome A) : Prop := match r with Ok _ => False | Raise _ => True end.

  Lemma bind_never {A B} (r : outcome A) (k : A -> outcome B) :
    (forall x, r = Ok x -> never_ok (k x)) -> never_ok (Exn.bind r k).
  Proof. intro H. destruct r as [x|e]; cbn; [apply H; reflexivity | exact I]. Qed.

  Section Passes.
    Variable f : fn.
    Variable c : call.
    Variable inst : option value.

    Lemma pass_named_missing : forall ps idx st, (exists p, In p ps /\ p_ann p = None) ->
      never_ok (pass_named pc check consumes f c inst ps idx st).
    Proof.
      induction ps as [|p ps IH]; intros idx st [q [Hin Hq]]; [destruct Hin|].
      cbn [pass_named]. destruct (p_ann p) as [a|] eqn:Ea; [|exact I].
      assert (Hrest : exists p0, In p0 ps /\ p_ann p0 = None).
      { destruct Hin as [->|Hin]; [congruence | eauto]. }
      destruct (if takes_keyword p then kw_get (p_name p) (c_kwargs c) else None); [apply bind_never; intros; now apply IH|].
      destruct (_ && _); [apply bind_never; intros; now apply IH|].
      destruct (p_default p); [apply bind_never; intros; now apply IH | exact I].
    Qed.

    Definition missing_named : Prop :=
      exists p, In p (filter (fun p => negb (is_star p)) (params_without_self f)) /\ p_ann p = None.
    Definition missing_varpos : Prop :=
      exists p ps, filter is_varpos (params_without_self f) = p :: ps /\ p_ann p = None.
    Definition missing_varkw : Prop :=
      exists p ps, filter is_varkw (params_without_self f) = p :: ps /\ p_ann p = None.

    Lemma args_phase_missing : forall st, missing_named \/ missing_varpos \/ missing_varkw ->
      never_ok (args_phase pc check consumes f c inst st).
    Proof.
      intros st H. unfold args_phase. rewrite (gf_passes pc G). cbn [run_passes run_pass].
      destruct H as [Hn | [Hp | Hk]].
      - apply bind_never. intros x Hx. exfalso.
        pose proof (pass_named_missing _ (if is_instance_method f then 1 else 0) st Hn) as Hm. rewrite Hx in Hm. exact Hm.
      - apply bind_never. intros st1 _. apply bind_never. intros x Hx. exfalso.
        destruct Hp as [p [ps [Hf Hp]]]. unfold pass_varpos in Hx. rewrite Hf, Hp in Hx. discriminate Hx.
      - apply bind_never. intros st1 _. apply bind_never. intros st2 _. apply bind_never. intros x Hx. exfalso.
        destruct Hk as [p [ps [Hf Hp]]]. unfold pass_varkw in Hx. rewrite Hf, Hp in Hx. discriminate Hx.
    Qed.
  End Passes.

  (* ---- an annotation the checker rejects for EVERY value (a generic without type arguments) -------------------- *)
  Definition always_rejects (a : ann) : Prop := forall v tv, exists e tv', check a v tv = (Raise e, tv').

  Lemma chk_never f c inst a v s st : always_rejects a -> never_ok (chk check consumes f c inst a v s st).
  Proof.
    intro H. unfold chk. destruct (clazz_probe f c inst); [|exact I].
    destruct (H v (a_tv st)) as [e [tv' ->]]. exact I.
  Qed.

  Lemma bind_chk_never {B} f c inst a v s st (k : astate -> outcome B) :
    always_rejects a -> never_ok (Exn.bind (chk check consumes f c inst a v s st) k).
  Proof.
    intro H. pose proof (chk_never f c inst a v s st H) as Hn.
    destruct (chk check consumes f c inst a v s st); [destruct Hn | exact I].
  Qed.

  Lemma pass_named_rejecting f c inst : forall ps idx st,
    (exists p a, In p ps /\ p_ann p = Some a /\ always_rejects a) ->
    never_ok (pass_named pc check consumes f c inst ps idx st).
  Proof.
    induction ps as [|p ps IH]; intros idx st [q [a [Hin [Hq Ha]]]]; [destruct Hin|].
    cbn [pass_named]. destruct (p_ann p) as [a0|] eqn:Ea; [|exact I].
    destruct Hin as [->|Hin].
    - rewrite Hq in Ea. inversion Ea; subst a0.
      destruct (if takes_keyword q then kw_get (p_name q) (c_kwargs c) else None); [apply bind_chk_never; exact Ha|].
      destruct (_ && _); [apply bind_chk_never; exact Ha|].
      destruct (p_default q); [apply bind_chk_never; exact Ha | exact I].
    - assert (Hrest : exists p0 a1, In p0 ps /\ p_ann p0 = Some a1 /\ always_rejects a1) by eauto.
      destruct (if takes_keyword p then kw_get (p_name p) (c_kwargs c) else None); [apply bind_never; intros; now apply IH|].
      destruct (_ && _); [apply bind_never; intros; now apply IH|].
      destruct (p_default p); [apply bind_never; intros; now apply IH | exact I].
  Qed.

  (* a named parameter whose annotation is rejected for every value: the call raises, the body never runs *)
  Theorem rejecting_param_annotation : forall f c bd,
    (exists p a, In p (filter (fun p => negb (is_star p)) (params_without_self f)) /\ p_ann p = Some a /\ always_rejects a) ->
    never_ok (fst (run pc check consumes f c bd)) /\ snd (run pc check consumes f c bd) = [].
  Proof.
    intros f c bd H. unfold run, wrapper_run.
    destruct (instance_of f c) as [inst|e]; [|split; [exact I | reflexivity]].
    unfold pedantic_wrapper. assert (Hw : (if f_coroutine f then pc_async_wrapper pc else pc_wrapper pc) = [WAssertKwargs; WCheckTypes]).
    { destruct (f_coroutine f); [apply (gf_awrap pc G) | apply (gf_wrap pc G)]. }
    rewrite Hw. cbn [wsteps]. destruct (assert_uses_kwargs pc f c); [|split; [exact I | reflexivity]].
    unfold check_types, check_steps.
    assert (Hs : (if f_coroutine f then pc_async_steps pc else pc_sync_steps pc) = [StArgs; StCall; StRetCheck]).
    { destruct (f_coroutine f); [apply (gf_asteps pc G) | apply (gf_steps pc G)]. }
    rewrite Hs. cbn [steps].
    assert (Ha : never_ok (args_phase pc check consumes f c inst astate0)).
    { unfold args_phase. rewrite (gf_passes pc G). cbn [run_passes run_pass].
      apply bind_never. intros x Hx. exfalso.
      pose proof (pass_named_rejecting f c inst _ (if is_instance_method f then 1 else 0) astate0 H) as Hm. rewrite Hx in Hm. exact Hm. }
    destruct (args_phase pc check consumes f c inst astate0); [destruct Ha | split; [exact I | reflexivity]].
  Qed.

  (* a return annotation rejected for every value: no value is handed back *)
  Theorem rejecting_return_annotation : forall f c bd a, f_ret f = Some a -> always_rejects a ->
    never_ok (fst (run pc check consumes f c bd)).
  Proof.
    intros f c bd a H Ha. unfold run, wrapper_run.
    destruct (instance_of f c) as [inst|e]; [|exact I].
    unfold pedantic_wrapper. assert (Hw : (if f_coroutine f then pc_async_wrapper pc else pc_wrapper pc) = [WAssertKwargs; WCheckTypes]).
    { destruct (f_coroutine f); [apply (gf_awrap pc G) | apply (gf_wrap pc G)]. }
    rewrite Hw. cbn [wsteps]. destruct (assert_uses_kwargs pc f c); [|exact I].
    unfold check_types, check_steps.
    assert (Hs : (if f_coroutine f then pc_async_steps pc else pc_sync_steps pc) = [StArgs; StCall; StRetCheck]).
    { destruct (f_coroutine f); [apply (gf_asteps pc G) | apply (gf_steps pc G)]. }
    rewrite Hs. cbn [steps].
    destruct (args_phase pc check consumes f c inst astate0) as [st|]; [|exact I].
    destruct (invoke f (call_pos pc f c) c bd (a_cons st)) as [[r|e] j]; [|exact I].
    cbn [fst]. unfold ret_value. rewrite H. destruct (clazz_probe f c inst); [|exact I].
    destruct (Ha r (a_tv st)) as [e [tv' ->]]. exact I.
  Qed.

  (* a parameter without annotation: the call raises and the body never runs, whatever the values, the checker and the body *)
  Theorem missing_param_annotation : forall f c bd,
    missing_named f \/ missing_varpos f \/ missing_varkw f ->
    never_ok (fst (run pc check consumes f c bd)) /\ snd (run pc check consumes f c bd) = [].
  Proof.
    intros f c bd H. unfold run, wrapper_run.
    destruct (instance_of f c) as [inst|e]; [|split; [exact I | reflexivity]].
    unfold pedantic_wrapper. assert (Hw : (if f_coroutine f then pc_async_wrapper pc else pc_wrapper pc) = [WAssertKwargs; WCheckTypes]).
    { destruct (f_coroutine f); [apply (gf_awrap pc G) | apply (gf_wrap pc G)]. }
    rewrite Hw. cbn [wsteps]. destruct (assert_uses_kwargs pc f c); [|split; [exact I | reflexivity]].
    unfold check_types, check_steps.
    assert (Hs : (if f_coroutine f then pc_async_steps pc else pc_sync_steps pc) = [StArgs; StCall; StRetCheck]).
    { destruct (f_coroutine f); [apply (gf_asteps pc G) | apply (gf_steps pc G)]. }
    rewrite Hs. cbn [steps].
    pose proof (args_phase_missing f c inst astate0 H) as Ha.
    destruct (args_phase pc check consumes f c inst astate0); [destruct Ha | split; [exact I | reflexivity]].
  Qed.

  (* no return annotation: the caller never receives a value (the body may have run) *)
  Theorem missing_return_annotation : forall f c bd, f_ret f = None ->
    never_ok (fst (run pc check consumes f c bd)).
  Proof.
    intros f c bd H. unfold run, wrapper_run.
    destruct (instance_of f c) as [inst|e]; [|exact I].
    unfold pedantic_wrapper. assert (Hw : (if f_coroutine f then pc_async_wrapper pc else pc_wrapper pc) = [WAssertKwargs; WCheckTypes]).
    { destruct (f_coroutine f); [apply (gf_awrap pc G) | apply (gf_wrap pc G)]. }
    rewrite Hw. cbn [wsteps]. destruct (assert_uses_kwargs pc f c); [|exact I].
    unfold check_types, check_steps.
    assert (Hs : (if f_coroutine f then pc_async_steps pc else pc_sync_steps pc) = [StArgs; StCall; StRetCheck]).
    { destruct (f_coroutine f); [apply (gf_asteps pc G) | apply (gf_steps pc G)]. }
    rewrite Hs. cbn [steps].
    destruct (args_phase pc check consumes f c inst astate0); [|exact I].
    destruct (invoke f (call_pos pc f c) c bd (a_cons a)) as [[r|e] j]; [|exact I].
    cbn [fst]. unfold ret_value. rewrite H. exact I.
  Qed.
End C06.
