(* C03: the argument checks guard the body, the return check guards the caller.
   Every supplied value of the statement (explicit keyword, omitted-but-defaulted, *args element,
   **kwargs value - read off CPython's own binding of the call) is handed to the checker before the
   body can run; so if the checker rejects one of them the call raises with an empty journal.     *)
From Coq Require Import List Arith Bool String Lia.
From PV Require Import Base.Exn Base.Values Base.Ann Base.PyCall Model.CheckerCfg Model.Checker Model.PedanticCfg
  Model.Pedantic Spec.Conforms Spec.PedanticSpec Proofs.PedanticBase Proofs.PyCallFacts.
Import ListNotations.
Open Scope list_scope.

Section C03.
  Variable pc : pedantic_cfg.
  Variable check : ann -> value -> tvenv -> outcome unit * tvenv.
  Variable consumes : ann -> value -> bool.
  Hypothesis good : pc_good pc = true.

  Let G := good_inv pc good.

  Definition accepted (a : ann) (v : value) : Prop := exists tv tv', check a v tv = (Ok tt, tv').
  (* the checker rejects v under a, whatever TypeVar bindings it is given *)
  Definition rejected (a : ann) (v : value) : Prop := forall tv, exists e, fst (check a v tv) = Raise e.

  Lemma rejected_not_accepted : forall a v, rejected a v -> accepted a v -> False.
  Proof. intros a v R [tv [tv' E]]. destruct (R tv) as [e He]. rewrite E in He. discriminate. Qed.

  Section Passes.
    Variable f : fn.
    Variable c : call.
    Variable inst : option value.

    Notation chk := (chk check consumes f c inst).
    Notation pass_named := (pass_named pc check consumes f c inst).
    Notation chk_all := (chk_all check consumes f c inst).

    Lemma chk_ok : forall a v s st st', chk a v s st = Ok st' ->
      accepted a v /\ a_checked st' = a_checked st /\ a_idx st' = a_idx st.
    Proof.
      intros a v s st st' H. unfold Pedantic.chk in H.
      destruct (clazz_probe f c inst); [|discriminate].
      destruct (check a v (a_tv st)) as [[uu|e] tv'] eqn:E; [|discriminate].
      inversion H; subst. simpl. split; [|split; reflexivity]. exists (a_tv st), tv'. now destruct uu.
    Qed.

    Lemma chk_all_ok : forall a l st st', chk_all a l st = Ok st' ->
      a_checked st' = a_checked st /\ forall v s, In (v, s) l -> accepted a v.
    Proof.
      induction l as [|[v s] l IH]; intros st st' H.
      - simpl in H. inversion H; subst. split; [reflexivity|]. intros v s [].
      - simpl in H. destruct (chk a v s st) as [st1|e] eqn:Ec; [|discriminate]. simpl in H.
        destruct (chk_ok _ _ _ _ _ Ec) as [Hacc [Hch _]]. destruct (IH _ _ H) as [Hc Hall].
        split; [congruence|]. intros v0 s0 [E|Hin]; [inversion E; subst; assumption|eauto].
    Qed.

    Lemma pass_varpos_checked : forall ps st st', pass_varpos check consumes f c inst ps st = Ok st' ->
      a_checked st' = a_checked st.
    Proof.
      intros ps st st' H. unfold pass_varpos in H. destruct ps as [|p ps]; [inversion H; reflexivity|].
      destruct (p_ann p); [|discriminate]. now destruct (chk_all_ok _ _ _ _ H).
    Qed.
  End Passes.

  Lemma in_combine_left : forall {A B} (l1 : list A) (l2 : list B) x,
    List.length l1 = List.length l2 -> In x l1 -> exists y, In (x, y) (combine l1 l2).
  Proof.
    induction l1 as [|a l1 IH]; intros l2 x Hl Hin; [contradiction|].
    destruct l2 as [|b l2]; [discriminate|]. simpl in *. destruct Hin as [->|Hin].
    - eauto.
    - destruct (IH l2 x) as [y Hy]; [lia|assumption|]. eauto.
  Qed.

  Lemma filter_filter_length : forall {A} (g h : A -> bool) (l : list A),
    List.length (filter g (filter h l)) <= List.length (filter g l).
  Proof.
    intros A g h. induction l as [|x l IH]; simpl; [lia|].
    destruct (h x); simpl; destruct (g x); simpl; lia.
  Qed.

  Lemma nth_error_Some_lt : forall {A} (l : list A) k x, nth_error l k = Some x -> k < List.length l.
  Proof. intros A l k x H. apply nth_error_Some. congruence. Qed.

  Lemma nth_error_map_seq : forall n k, k < n -> nth_error (map SArg (seq 0 n)) k = Some (SArg k).
  Proof. intros n k H. rewrite nth_error_map, nth_error_nth' with (d := 0) by (now rewrite seq_length). now rewrite seq_nth. Qed.

  Lemma combine_app_nth : forall {A B} (l1 l1' : list A) (l2 l2' : list B) k, List.length l1 = List.length l2 ->
    nth_error (combine (l1 ++ l1') (l2 ++ l2')) (List.length l1 + k) = nth_error (combine l1' l2') k.
  Proof.
    intros A B. induction l1 as [|a l1 IH]; intros l1' l2 l2' k Hl; destruct l2 as [|b l2]; try discriminate; [reflexivity|].
    simpl. apply IH. simpl in Hl. lia.
  Qed.

  Lemma nth_error_combine : forall {A B} (l1 : list A) (l2 : list B) i x y,
    nth_error l1 i = Some x -> nth_error l2 i = Some y -> nth_error (combine l1 l2) i = Some (x, y).
  Proof.
    intros A B. induction l1 as [|a l1 IH]; intros l2 i x y H1 H2; [destruct i; discriminate|].
    destruct l2 as [|b l2]; [destruct i; discriminate|]. destruct i; simpl in *; [now inversion H1; inversion H2|]. now apply IH.
  Qed.

  Lemma nth_error_combine_args : forall (args : list value) i v, nth_error args i = Some v ->
    nth_error (combine args (map SArg (seq 0 (List.length args)))) i = Some (v, SArg i).
  Proof.
    intros args i v H. apply nth_error_combine; [assumption|]. apply nth_error_map_seq. eapply nth_error_Some_lt; eassumption.
  Qed.

  Lemma wargs_wsrc_length : forall c, List.length (wargs c) = List.length (wsrc c).
  Proof. intros c. unfold wargs, wsrc, arg_srcs. now rewrite !app_length, !map_length, seq_length. Qed.

  Lemma tl_incl : forall {A} (l : list A) x, In x (tl l) -> In x l.
  Proof. intros A [|a l] x H; simpl in *; [assumption|now right]. Qed.

  (* the guards under which the parameters the implementation walks over are the declared ones: a signature CPython can build
     (at most one *args / **kwargs, distinct names), only the receiver may be called `self`, a bound first argument is a receiver *)
  Definition sig_base (f : fn) : bool :=
    one_star (f_params f) && distinct (map p_name (full_params f))
    && forallb (fun p => negb (Nat.eqb (p_name p) self_name)) (declared f)
    && match f_bound f with Some _ => f_recv f | None => true end.

  Lemma declared_incl_base : forall f p, sig_base f = true -> In p (declared f) -> In p (f_params f) /\ In p (full_params f).
  Proof.
    intros f p Hs H. unfold sig_base in Hs. repeat (apply andb_true_iff in Hs; destruct Hs as [Hs ?]).
    unfold declared, full_params, func_params in *.
    destruct (f_bound f) as [[n o]|].
    - subst. rewrite H0 in H. simpl in H. split; [assumption|now right].
    - destruct (f_recv f); [apply tl_incl in H|]; split; assumption.
  Qed.

  (* ... and every parameter that takes positional values is declared before *args (Python's syntax) *)
  Fixpoint star_last (ps : list param) : bool :=
    match ps with
    | [] => true
    | p :: ps' => (if is_varpos p then forallb (fun r => negb (takes_positional r)) ps' else true) && star_last ps'
    end.
  Definition sig_full (f : fn) : bool := sig_base f && star_last (f_params f).

  (* what is stated in the theorems: the signature is one CPython can build ... *)
  Definition sig_ok (f : fn) : bool :=
    one_star (f_params f) && distinct (map p_name (full_params f))
    && match f_bound f with Some _ => f_recv f | None => true end
    && star_last (f_params f).
  (* ... and, separately and by name: no parameter other than the receiver is called `self` (FunctionCall drops every parameter
     of that NAME from the parameters it checks: refuted without it, C03_parameter_named_self_refuted) *)
  Definition no_self_param (f : fn) : bool := forallb (fun p => negb (Nat.eqb (p_name p) self_name)) (declared f).
  Lemma sig_full_of : forall f, sig_ok f = true -> no_self_param f = true -> sig_full f = true.
  Proof.
    intros f H Hn. unfold sig_ok in H. apply andb_true_iff in H as [H Hs]. apply andb_true_iff in H as [H Hb]. apply andb_true_iff in H as [Ho Hd].
    unfold sig_full, sig_base. unfold no_self_param in Hn. now rewrite Ho, Hd, Hn, Hb, Hs.
  Qed.

  Lemma sig_ok_base : forall f, sig_full f = true -> sig_base f = true.
  Proof. intros f H. unfold sig_full in H. now apply andb_true_iff in H as [H _]. Qed.

  Lemma declared_incl : forall f p, sig_full f = true -> In p (declared f) -> In p (f_params f) /\ In p (full_params f).
  Proof. intros f p H. apply declared_incl_base. now apply sig_ok_base. Qed.

  Lemma find_param_spec : forall n ps p, find_param n ps = Some p -> In p ps /\ p_name p = n.
  Proof.
    induction ps as [|q ps IH]; simpl; intros p H; [discriminate|].
    destruct (Nat.eqb (p_name q) n) eqn:E.
    - inversion H; subst. apply Nat.eqb_eq in E. split; [now left|assumption].
    - destruct (IH _ H). split; [now right|assumption].
  Qed.

  Lemma twin_pos_src : forall c, Forall pos_src (twin_pos c).
  Proof.
    intros c. unfold twin_pos, arg_srcs. apply Forall_app. split; apply Forall_forall; intros s Hs;
      apply in_map_iff in Hs as [x [<- _]]; exact I.
  Qed.

  (* every value of the statement - supplied by keyword, by default, as *args element, as **kwargs value, or positionally for a
     named parameter - read off CPython's own binding of the call *)
  Definition all_values (f : fn) (c : call) (b : binding) : list (option ann * value) := supplied_of f c b ++ positional_values f c b.
  (* "has been accepted by the checker when the argument phase succeeds" (proved in Proofs/PedanticPos.v) *)
  Definition phase_sound (f : fn) (c : call) (b : binding) : Prop :=
    forall inst st', args_phase pc check consumes f c inst astate0 = Ok st' ->
    forall oa v, In (oa, v) (all_values f c b) -> exists a, oa = Some a /\ accepted a v.

  (* ---------------- the argument guard ---------------- *)
  Theorem args_guard : forall f c bd b a v,
    phase_sound f c b -> In (Some a, v) (all_values f c b) -> rejected a v ->
    snd (run pc check consumes f c bd) = [] /\ exists e, fst (run pc check consumes f c bd) = Raise e.
  Proof.
    intros f c bd b a v Hps Hin Hrej. rewrite (run_is_ref pc check consumes good). unfold run_ref.
    destruct (instance_of f c) as [inst|e]; [|simpl; split; eauto].
    destruct (assert_uses_kwargs pc f c) as [u|e]; [|simpl; split; eauto].
    destruct (args_phase pc check consumes f c inst astate0) as [st|e] eqn:Ea; [|simpl; split; eauto].
    exfalso. destruct (Hps inst st Ea _ _ Hin) as [a' [E Hacc]].
    inversion E; subst. eapply rejected_not_accepted; eassumption.
  Qed.

  (* the same guard for generator functions: the generator object is not even created *)
  Theorem args_guard_gen : forall f c b a v,
    phase_sound f c b -> In (Some a, v) (all_values f c b) -> rejected a v ->
    snd (run_gen pc check consumes f c) = [] /\ exists e, fst (run_gen pc check consumes f c) = Raise e.
  Proof.
    intros f c b a v Hps Hin Hrej. rewrite (run_gen_is_ref pc check consumes good). unfold run_gen_ref.
    destruct (instance_of f c) as [inst|e]; [|simpl; split; eauto].
    destruct (assert_uses_kwargs pc f c) as [u|e]; [|simpl; split; eauto].
    destruct (args_phase pc check consumes f c inst astate0) as [st|e] eqn:Ea; [|simpl; split; eauto].
    exfalso. destruct (Hps inst st Ea _ _ Hin) as [a' [E Hacc]].
    inversion E; subst. eapply rejected_not_accepted; eassumption.
  Qed.

  (* property setters: the assigned value is checked although it arrives positionally *)
  Theorem setter_guard : forall f c bd p a r x,
    t_setter (f_text f) = true -> is_instance_method f = true ->
    params_without_self f = [p] -> takes_positional p = true -> p_ann p = Some a ->
    c_recv c = [r] -> c_args c = [x] -> kw_get (p_name p) (c_kwargs c) = None ->
    rejected a x ->
    snd (run pc check consumes f c bd) = [] /\ exists e, fst (run pc check consumes f c bd) = Raise e.
  Proof.
    intros f c bd p a r x Hts Him Hpw Htp Ha Hr Hx Hk Hrej.
    assert (Hstar : is_star p = false) by (unfold takes_positional in Htp; unfold is_star, is_varpos, is_varkw; destruct (p_kind p); try discriminate; reflexivity). rewrite (run_is_ref pc check consumes good). unfold run_ref.
    destruct (instance_of f c) as [inst|e]; [|simpl; split; eauto].
    destruct (assert_uses_kwargs pc f c) as [u|e]; [|simpl; split; eauto].
    assert (E : exists e, args_phase pc check consumes f c inst astate0 = Raise e).
    { rewrite (args_phase_ref pc check consumes good).
      assert (E1 : exists e, run_pass pc check consumes f c inst PNamed astate0 = Raise e).
      { unfold run_pass. rewrite Hpw. cbn [filter]. rewrite Hstar. cbn [negb pass_named]. rewrite Ha, Hk, Him.
        replace (if takes_keyword p then None else None) with (@None value) by (now destruct (takes_keyword p)).
        assert (Hs : should_have_kwargs pc f = false).
        { rewrite (should_have_kwargs_ref pc good). unfold ref_shk, name_atoms. cbn [at_setter at_wants_args]. now rewrite Hts. }
        rewrite Hs, Htp. unfold wargs, wsrc, arg_srcs. rewrite Hr, Hx. simpl.
        unfold chk. destruct (clazz_probe f c inst); [|simpl; eauto].
        destruct (Hrej []) as [e He]. simpl a_tv. destruct (check a x []) as [[uu|e'] tv']; simpl in He; [discriminate|]. simpl. eauto. }
      destruct E1 as [e E1]. rewrite E1. simpl. eauto. }
    destruct E as [e E]. rewrite E. simpl. split; eauto.
  Qed.

  (* which exception: nothing but PedanticTypeCheckException can come out of the argument phase when the
     class probe of `type_vars` does not fail and the checker itself raises nothing else *)
  Section Exact.
    Variable f : fn.
    Variable c : call.
    Variable inst : option value.
    Hypothesis probe_ok : clazz_probe f c inst = Ok tt.
    Hypothesis only_ptc : forall p a, In p (f_params f) -> p_ann p = Some a ->
      forall v tv e, fst (check a v tv) = Raise e -> e = PTypeCheckC.

    Lemma chk_raises : forall p a v s st e, In p (f_params f) -> p_ann p = Some a ->
      chk check consumes f c inst a v s st = Raise e -> e = PTypeCheckC.
    Proof.
      intros p a v s st e Hp Ha H. unfold chk in H. rewrite probe_ok in H.
      destruct (check a v (a_tv st)) as [[uu|e'] tv'] eqn:E; [discriminate|].
      inversion H; subst. eapply only_ptc; [eassumption|eassumption|]. rewrite E. reflexivity.
    Qed.

    Lemma pass_named_raises : forall ps idx st e, incl ps (f_params f) ->
      pass_named pc check consumes f c inst ps idx st = Raise e -> e = PTypeCheckC.
    Proof.
      induction ps as [|p ps IH]; intros idx st e Hi H; [discriminate|].
      cbn [pass_named] in H. assert (Hp : In p (f_params f)) by (apply Hi; now left).
      assert (Hi' : incl ps (f_params f)) by (intros x Hx; apply Hi; now right).
      destruct (p_ann p) as [a|] eqn:Ea; [|now inversion H].
      assert (Hb : forall v s idx' st1, Exn.bind (chk check consumes f c inst a v s st1) (pass_named pc check consumes f c inst ps idx') = Raise e -> e = PTypeCheckC).
      { intros v s idx' st1 Hb. destruct (chk check consumes f c inst a v s st1) as [st2|e'] eqn:Ec; simpl in Hb.
        - eapply IH; eassumption.
        - inversion Hb; subst. eapply chk_raises; eassumption. }
      destruct (if takes_keyword p then kw_get (p_name p) (c_kwargs c) else None); [eapply Hb; eassumption|].
      destruct (takes_positional p && negb (should_have_kwargs pc f) && Nat.ltb idx (List.length (wargs c))); [eapply Hb; eassumption|].
      destruct (p_default p); [eapply Hb; eassumption|now inversion H].
    Qed.

    Lemma chk_all_raises : forall p a l st e, In p (f_params f) -> p_ann p = Some a ->
      chk_all check consumes f c inst a l st = Raise e -> e = PTypeCheckC.
    Proof.
      intros p a. induction l as [|[v s] l IH]; intros st e Hp Ha H; [discriminate|].
      simpl in H. destruct (chk check consumes f c inst a v s st) as [st1|e'] eqn:Ec; simpl in H.
      - eapply IH; eassumption.
      - inversion H; subst. eapply chk_raises; eassumption.
    Qed.

    Lemma filter_pws_incl : forall g, incl (filter g (params_without_self f)) (f_params f).
    Proof. intros g x Hx. apply filter_In in Hx as [Hx _]. now apply filter_In in Hx as [Hx _]. Qed.

    Lemma args_phase_raises : forall st e,
      args_phase pc check consumes f c inst st = Raise e -> e = PTypeCheckC.
    Proof.
      intros st e H. rewrite (args_phase_ref pc check consumes good) in H.
      destruct (run_pass pc check consumes f c inst PNamed st) as [st1|e1] eqn:E1; cbn [Exn.bind] in H.
      - destruct (run_pass pc check consumes f c inst PVarPos st1) as [st2|e2] eqn:E2; cbn [Exn.bind] in H.
        + unfold run_pass, pass_varkw in H.
          destruct (filter is_varkw (params_without_self f)) as [|p l] eqn:Ef; [discriminate|].
          assert (Hp : In p (f_params f)) by (apply (filter_pws_incl is_varkw); rewrite Ef; now left).
          destruct (p_ann p) eqn:Ea; [|now inversion H]. eapply chk_all_raises; eassumption.
        + inversion H; subst. unfold run_pass, pass_varpos in E2.
          destruct (filter is_varpos (params_without_self f)) as [|p l] eqn:Ef; [discriminate|].
          assert (Hp : In p (f_params f)) by (apply (filter_pws_incl is_varpos); rewrite Ef; now left).
          destruct (p_ann p) eqn:Ea; [|now inversion E2]. eapply chk_all_raises; eassumption.
      - inversion H; subst. unfold run_pass in E1. eapply pass_named_raises; [|eassumption]. apply filter_pws_incl.
    Qed.
  End Exact.

  Theorem args_guard_exact : forall f c bd b a v,
    phase_sound f c b -> In (Some a, v) (all_values f c b) -> rejected a v ->
    (is_instance_method f = true -> wargs c <> []) ->
    assert_uses_kwargs pc f c = Ok tt ->
    (forall inst, instance_of f c = Ok inst -> clazz_probe f c inst = Ok tt) ->
    (forall p a0, In p (f_params f) -> p_ann p = Some a0 -> forall v0 tv e, fst (check a0 v0 tv) = Raise e -> e = PTypeCheckC) ->
    run pc check consumes f c bd = (Raise PTypeCheckC, []).
  Proof.
    intros f c bd b a v Hps Hin Hrej Hinst Hauk Hprobe Hptc.
    rewrite (run_is_ref pc check consumes good). unfold run_ref.
    destruct (instance_of f c) as [inst|e] eqn:Ei.
    - rewrite Hauk.
      destruct (args_phase pc check consumes f c inst astate0) as [st|e] eqn:Ea.
      + exfalso. destruct (Hps inst st Ea _ _ Hin) as [a' [E Hacc]].
        inversion E; subst. eapply rejected_not_accepted; eassumption.
      + rewrite (args_phase_raises f c inst (Hprobe inst eq_refl) Hptc _ _ Ea). reflexivity.
    - exfalso. unfold instance_of in Ei. destruct (is_instance_method f); [|discriminate].
      destruct (wargs c); [now apply Hinst|discriminate].
  Qed.

  (* ---------------- the result guard ---------------- *)
  (* the binding with which `run` invokes the body (CPython's binding of what FunctionCall passes on) *)
  Definition model_binding (f : fn) (c : call) : outcome binding :=
    py_bind (func_params f) (bound_src f ++ call_pos pc f c) (kw_names c).

  Theorem result_guard : forall f c bd a,
    f_ret f = Some a ->
    (forall b cons v, model_binding f c = Ok b -> bd b cons = Ok v -> rejected a v) ->
    exists e, fst (run pc check consumes f c bd) = Raise e.
  Proof.
    intros f c bd a Hret Hbd. rewrite (run_is_ref pc check consumes good). unfold run_ref.
    destruct (instance_of f c) as [inst|e]; [|simpl; eauto].
    destruct (assert_uses_kwargs pc f c) as [u|e]; [|simpl; eauto].
    destruct (args_phase pc check consumes f c inst astate0) as [st|e]; [|simpl; eauto].
    unfold invoke. destruct (py_bind (func_params f) (bound_src f ++ call_pos pc f c) (kw_names c)) as [b|e] eqn:Epb; [|simpl; eauto].
    destruct (bd b (a_cons st)) as [v|e] eqn:Eb; [|simpl; eauto].
    simpl. unfold ret_value. rewrite Hret. destruct (clazz_probe f c inst); [|eauto].
    destruct (Hbd _ _ _ Epb Eb (a_tv st)) as [e He]. destruct (check a v (a_tv st)) as [[uu|e'] tv']; simpl in He; [discriminate|eauto].
  Qed.

  (* if the body ran, it ran once, on the binding above; what it raised reaches the caller, and a value the checker rejects is
     replaced by PedanticTypeCheckException *)
  Theorem result_guard_exact : forall f c bd a b,
    f_ret f = Some a -> model_binding f c = Ok b ->
    (forall cons v, bd b cons = Ok v -> rejected a v) ->
    (forall inst, instance_of f c = Ok inst -> clazz_probe f c inst = Ok tt) ->
    (forall v tv e, fst (check a v tv) = Raise e -> e = PTypeCheckC) ->
    snd (run pc check consumes f c bd) <> [] ->
    exists cons, snd (run pc check consumes f c bd) = [(b, cons)] /\
      match bd b cons with
      | Ok _ => fst (run pc check consumes f c bd) = Raise PTypeCheckC
      | Raise e => fst (run pc check consumes f c bd) = Raise e
      end.
  Proof.
    intros f c bd a b Hret Hb Hbd Hprobe Hptc. rewrite (run_is_ref pc check consumes good). unfold run_ref.
    destruct (instance_of f c) as [inst|e] eqn:Ei; [|simpl; congruence].
    destruct (assert_uses_kwargs pc f c) as [u|e]; [|simpl; congruence].
    destruct (args_phase pc check consumes f c inst astate0) as [st|e]; [|simpl; congruence].
    unfold invoke. unfold model_binding in Hb. rewrite Hb. intros _. exists (a_cons st).
    destruct (bd b (a_cons st)) as [v|e] eqn:Ev; simpl; [|split; reflexivity].
    split; [reflexivity|]. unfold ret_value. rewrite Hret, (Hprobe inst eq_refl).
    destruct (Hbd _ _ Ev (a_tv st)) as [e He]. destruct (check a v (a_tv st)) as [[uu|e'] tv'] eqn:Ec; simpl in He; [discriminate|].
    f_equal. eapply Hptc. rewrite Ec. reflexivity.
  Qed.

  (* ---------------- generator functions: what the call returns ---------------- *)
  Lemma gen_types_shape : forall a y s r, gen_types pc a = Ok (y, s, r) ->
    exists o, In o [TGenerator; TIterable; TIterator] /\
      ((a = AGeneric SpTyping o [y] /\ s = ANone /\ r = ANone) \/ a = AGeneric SpTyping o [y; s; r]).
  Proof.
    intros a y s r H. unfold gen_types in H. rewrite (gf_bases pc G) in H.
    destruct a; try discriminate. destruct sp; try discriminate.
    destruct (existsb (tname_eqb o) [TGenerator; TIterable; TIterator]) eqn:Eo; [|discriminate].
    apply existsb_exists in Eo as [o' [Hin Heq]]. apply tname_eqb_eq in Heq. subst o'.
    exists o. split; [assumption|].
    destruct args as [|x [|x2 [|x3 [|x4 l]]]]; try discriminate; inversion H; subst; [left|right]; repeat split; reflexivity.
  Qed.

  (* the GeneratorWrapper a call of a generator function returns carries exactly the yield / send / return types of the return
     annotation; nothing of the body has run *)
  Theorem run_gen_types : forall f c g j, run_gen pc check consumes f c = (Ok g, j) ->
    j = [] /\ exists a t, f_ret f = Some a /\ gen_types pc a = Ok t /\ g_types g = Some t.
  Proof.
    intros f c g j H. rewrite (run_gen_is_ref pc check consumes good) in H. unfold run_gen_ref in H.
    destruct (instance_of f c) as [inst|e]; [|discriminate].
    destruct (assert_uses_kwargs pc f c) as [u|e]; [|discriminate].
    destruct (args_phase pc check consumes f c inst astate0) as [st|e]; [|discriminate].
    unfold invoke_gen in H. destruct (py_bind (func_params f) (bound_src f ++ call_pos pc f c) (kw_names c)) as [b|e]; [|discriminate].
    unfold ret_gen in H. destruct (f_ret f) as [a|] eqn:Er; [|discriminate]. simpl in H.
    destruct (clazz_probe f c inst); [|discriminate].
    destruct (gen_types pc a) as [t|e] eqn:Et; [|discriminate]. inversion H; subst. split; [reflexivity|].
    exists a, t. split; [reflexivity|]. split; [exact Et|reflexivity].
  Qed.
End C03.
