(* Facts about CPython's argument binding (Base/PyCall.v) used by the proofs of C03 / C04.   *)
From Coq Require Import List Arith Bool Lia.
From PV Require Import Base.Exn Base.Values Base.Ann Base.PyCall.
Import ListNotations.
Open Scope list_scope.

Lemma mem_In : forall k l, mem k l = true <-> In k l.
Proof.
  intros k l. unfold mem. rewrite existsb_exists. split.
  - intros [x [Hx E]]. apply Nat.eqb_eq in E. now subst.
  - intros H. exists k. split; [assumption|apply Nat.eqb_refl].
Qed.

Lemma mem_false : forall k l, mem k l = false <-> ~ In k l.
Proof. intros k l. rewrite <- mem_In. destruct (mem k l); split; congruence. Qed.

Lemma kw_get_In : forall k v kws, kw_get k kws = Some v -> In (k, v) kws.
Proof.
  induction kws as [|[j w] kws IH]; simpl; intros H; [discriminate|].
  destruct (Nat.eqb k j) eqn:E; [|auto]. apply Nat.eqb_eq in E. inversion H; subst. now left.
Qed.

Lemma kw_get_mem : forall k v kws, kw_get k kws = Some v -> mem k (map fst kws) = true.
Proof. intros k v kws H. apply mem_In. apply kw_get_In in H. now apply (in_map fst) in H. Qed.

Lemma kw_get_not_mem : forall k kws, mem k (map fst kws) = false -> kw_get k kws = None.
Proof.
  induction kws as [|[j v] kws IH]; simpl; intros H; [reflexivity|].
  apply orb_false_iff in H as [H1 H2]. rewrite H1. auto.
Qed.

Lemma kw_get_mem_some : forall k kws, mem k (map fst kws) = true -> exists v, kw_get k kws = Some v.
Proof.
  induction kws as [|[j v] kws IH]; simpl; intros H; [discriminate|].
  destruct (Nat.eqb k j); [eauto|]. simpl in H. auto.
Qed.

Lemma distinct_unique : forall (ps : list param), distinct (map p_name ps) = true ->
  forall p q, In p ps -> In q ps -> p_name p = p_name q -> p = q.
Proof.
  induction ps as [|x ps IH]; simpl; intros D p q Hp Hq E; [contradiction|].
  apply andb_true_iff in D as [D1 D2]. apply negb_true_iff in D1. rewrite mem_false in D1.
  destruct Hp as [Hp|Hp], Hq as [Hq|Hq]; subst.
  - reflexivity.
  - exfalso. apply D1. rewrite E. now apply in_map.
  - exfalso. apply D1. rewrite <- E. now apply in_map.
  - auto.
Qed.

(* what a slot says about the parameter it belongs to *)
Definition slot_ok (all : list param) (kws : list pname) (p : param) (sl : slot) : Prop :=
  match sl with
  | BOne (SKw k) => k = p_name p /\ takes_kw p = true /\ mem k kws = true
  | BOne (SDefault k) => k = p_name p /\ p_default p <> None /\ is_star p = false /\ (takes_kw p = true -> mem k kws = false)
  | BOne _ => is_pos p = true
  | BStar _ => is_varpos p = true
  | BKws ks => is_varkw p = true /\ ks = filter (fun k => negb (mem k (kw_param_names all))) kws
  end.

Lemma by_default_ok : forall all kws p sl, by_default p = Ok sl ->
  (takes_kw p = true -> mem (p_name p) kws = false) -> is_star p = false -> slot_ok all kws p sl.
Proof.
  intros all kws p sl H Hk Hs. unfold by_default in H. destruct (p_default p) eqn:E; [|discriminate].
  inversion H; subst. simpl. repeat split; try assumption. congruence.
Qed.

(* positional arguments come from the receiver or from the caller's positional arguments *)
Definition pos_src (s : src) : Prop := match s with SObj _ | SArg _ => True | _ => False end.

Lemma pos_src_ok : forall all kws p s, pos_src s -> is_pos p = true -> slot_ok all kws p (BOne s).
Proof. intros all kws p s Hs Hp. destruct s; simpl in *; try contradiction; assumption. Qed.

Lemma bind_go_slots : forall all kws ps pos b, Forall pos_src pos -> bind_go all ps pos kws = Ok b ->
  forall n sl, In (n, sl) b -> exists p, In p ps /\ p_name p = n /\ slot_ok all kws p sl.
Proof.
  intros all kws. induction ps as [|p ps IH]; intros pos b Hpos H n sl Hin.
  - simpl in H. destruct pos; [|discriminate]. inversion H; subst. contradiction.
  - assert (Step : forall pos' sl0, Forall pos_src pos' -> slot_ok all kws p sl0 ->
              omap (cons (p_name p, sl0)) (bind_go all ps pos' kws) = Ok b ->
              exists q, In q (p :: ps) /\ p_name q = n /\ slot_ok all kws q sl).
    { intros pos' sl0 Hpos' Hok E. destruct (bind_go all ps pos' kws) as [b'|e] eqn:Eb; [|discriminate].
      simpl in E. inversion E; subst. destruct Hin as [Hin|Hin].
      - inversion Hin; subst. exists p. split; [now left|]. split; [reflexivity|assumption].
      - destruct (IH _ _ Hpos' Eb _ _ Hin) as [q [Hq [Hn Hs]]]. exists q. split; [now right|]. split; assumption. }
    simpl in H. destruct (p_kind p) eqn:Ek.
    + (* PosOnly *)
      destruct pos as [|s pos'].
      * destruct (by_default p) as [sl0|e] eqn:Ed; [|discriminate].
        eapply Step; [eassumption| |exact H]. eapply by_default_ok; [exact Ed| |].
        -- unfold takes_kw. rewrite Ek. discriminate.
        -- unfold is_star, is_varpos, is_varkw. now rewrite Ek.
      * inversion Hpos; subst. eapply Step; [eassumption| |exact H]. apply pos_src_ok; [assumption|]. unfold is_pos; now rewrite Ek.
    + (* PosOrKw *)
      destruct pos as [|s pos'].
      * destruct (mem (p_name p) kws) eqn:Em.
        -- eapply Step; [eassumption| |exact H]. simpl. repeat split; [|assumption]. unfold takes_kw. now rewrite Ek.
        -- destruct (by_default p) as [sl0|e] eqn:Ed; [|discriminate].
           eapply Step; [eassumption| |exact H]. eapply by_default_ok; [exact Ed| |].
           ++ intros _. assumption.
           ++ unfold is_star, is_varpos, is_varkw. now rewrite Ek.
      * destruct (mem (p_name p) kws); [discriminate|].
        inversion Hpos; subst. eapply Step; [eassumption| |exact H]. apply pos_src_ok; [assumption|]. unfold is_pos; now rewrite Ek.
    + (* VarPos *)
      eapply Step; [constructor| |exact H]. simpl. unfold is_varpos. now rewrite Ek.
    + (* KwOnly *)
      destruct (mem (p_name p) kws) eqn:Em.
      * eapply Step; [eassumption| |exact H]. simpl. repeat split; [|assumption]. unfold takes_kw. now rewrite Ek.
      * destruct (by_default p) as [sl0|e] eqn:Ed; [|discriminate].
        eapply Step; [eassumption| |exact H]. eapply by_default_ok; [exact Ed| |].
        -- intros _. assumption.
        -- unfold is_star, is_varpos, is_varkw. now rewrite Ek.
    + (* VarKw *)
      eapply Step; [eassumption| |exact H]. simpl. split; [|reflexivity]. unfold is_varkw. now rewrite Ek.
Qed.

Lemma py_bind_slots : forall ps pos kws b, Forall pos_src pos -> py_bind ps pos kws = Ok b ->
  forall n sl, In (n, sl) b -> exists p, In p ps /\ p_name p = n /\ slot_ok ps kws p sl.
Proof.
  intros ps pos kws b Hpos H. unfold py_bind in H.
  destruct (forallb (fun k => mem k (kw_param_names ps) || has_varkw ps) kws); [|discriminate].
  eapply bind_go_slots; eassumption.
Qed.

(* at most one *args and one **kwargs parameter *)
Definition one_star (ps : list param) : bool :=
  Nat.leb (List.length (filter is_varpos ps)) 1 && Nat.leb (List.length (filter is_varkw ps)) 1.
Definition no_posonly (ps : list param) : bool :=
  forallb (fun p => match p_kind p with PosOnly => false | _ => true end) ps.

Lemma filter_single : forall {A} (g : A -> bool) (l : list A) p,
  List.length (filter g l) <= 1 -> In p l -> g p = true -> filter g l = [p].
Proof.
  intros A g l p Hl Hin Hg. assert (Hf : In p (filter g l)) by (apply filter_In; split; assumption).
  destruct (filter g l) as [|x [|y r]]; simpl in *; try lia; try contradiction.
  destruct Hf as [->|[]]. reflexivity.
Qed.

Lemma find_param_In : forall n ps p, (fix find (ps : list param) := match ps with [] => None | q :: ps' => if Nat.eqb (p_name q) n then Some q else find ps' end) ps = Some p ->
  In p ps /\ p_name p = n.
Proof.
  induction ps as [|q ps IH]; intros p H; [discriminate|].
  destruct (Nat.eqb (p_name q) n) eqn:E.
  - inversion H; subst. apply Nat.eqb_eq in E. split; [now left|assumption].
  - destruct (IH _ H). split; [now right|assumption].
Qed.

(* ---------------- which positional values reach *args ---------------- *)
Definition no_default (p : param) : bool := match p_default p with None => true | Some _ => false end.
(* a positional parameter CPython must fill with a positional value *)
Definition req_pos (kws : list pname) (p : param) : bool := is_pos p && no_default p && negb (mem (p_name p) kws).

Lemma bind_go_nil_req : forall all kws ps b, bind_go all ps [] kws = Ok b -> filter (req_pos kws) ps = [].
Proof.
  intros all kws. induction ps as [|p ps IH]; intros b H; [reflexivity|].
  simpl in H. unfold by_default in H.
  assert (Go : forall sl, req_pos kws p = false -> omap (cons (p_name p, sl)) (bind_go all ps [] kws) = Ok b ->
            filter (req_pos kws) (p :: ps) = []).
  { intros sl Hr E. simpl. rewrite Hr. destruct (bind_go all ps [] kws) eqn:Eb; [|discriminate]. eapply IH; reflexivity. }
  destruct (p_kind p) eqn:Ek.
  - destruct (p_default p) eqn:Ed; [|discriminate]. eapply Go; [|exact H]. unfold req_pos, no_default. rewrite Ed. now rewrite andb_false_r.
  - destruct (mem (p_name p) kws) eqn:Em.
    + eapply Go; [|exact H]. unfold req_pos. rewrite Em. now rewrite andb_false_r.
    + destruct (p_default p) eqn:Ed; [|discriminate]. eapply Go; [|exact H]. unfold req_pos, no_default. rewrite Ed. now rewrite andb_false_r.
  - eapply Go; [|exact H]. unfold req_pos, is_pos. now rewrite Ek.
  - destruct (mem (p_name p) kws); [|destruct (p_default p); [|discriminate]]; (eapply Go; [|exact H]; unfold req_pos, is_pos; now rewrite Ek).
  - eapply Go; [|exact H]. unfold req_pos, is_pos. now rewrite Ek.
Qed.

Lemma filter_cons_le : forall {A} (g : A -> bool) x l, List.length (filter g (x :: l)) <= S (List.length (filter g l)).
Proof. intros A g x l. simpl. destruct (g x); simpl; lia. Qed.

Lemma filter_cons_false : forall {A} (g : A -> bool) x l, g x = false -> filter g (x :: l) = filter g l.
Proof. intros A g x l H. simpl. now rewrite H. Qed.

(* the tuple bound to *args is what is left of the positional values after at least as many of them as there are
   positional parameters that only a positional value can fill *)
Lemma bind_go_star : forall all kws ps pos b n l, bind_go all ps pos kws = Ok b -> In (n, BStar l) b ->
  exists consumed, pos = consumed ++ l /\ List.length (filter (req_pos kws) ps) <= List.length consumed.
Proof.
  intros all kws. induction ps as [|p ps IH]; intros pos b n l H Hin.
  - simpl in H. destruct pos; [|discriminate]. inversion H; subst. contradiction.
  - assert (Tail : forall pos' sl b', bind_go all ps pos' kws = Ok b' -> b = (p_name p, sl) :: b' ->
              (forall l0, sl <> BStar l0) ->
              exists consumed, pos' = consumed ++ l /\ List.length (filter (req_pos kws) ps) <= List.length consumed).
    { intros pos' sl b' Eb -> Hns. destruct Hin as [E|Hin]; [inversion E; subst; exfalso; eapply Hns; reflexivity|]. eapply IH; eassumption. }
    assert (Skip : forall pos' sl b', req_pos kws p = false -> bind_go all ps pos' kws = Ok b' -> b = (p_name p, sl) :: b' ->
              (forall l0, sl <> BStar l0) ->
              exists consumed, pos' = consumed ++ l /\ List.length (filter (req_pos kws) (p :: ps)) <= List.length consumed).
    { intros pos' sl b' Hr Eb Eq Hns. rewrite (filter_cons_false _ _ _ Hr). eapply Tail; eassumption. }
    assert (Take : forall s pos' b', bind_go all ps pos' kws = Ok b' -> b = (p_name p, BOne s) :: b' ->
              exists consumed, s :: pos' = consumed ++ l /\ List.length (filter (req_pos kws) (p :: ps)) <= List.length consumed).
    { intros s pos' b' Eb Eq. destruct (Tail pos' (BOne s) b' Eb Eq ltac:(discriminate)) as [c' [-> Hc]].
      exists (s :: c'). split; [reflexivity|]. eapply Nat.le_trans; [apply filter_cons_le|simpl; lia]. }
    simpl in H. unfold by_default in H.
    destruct (p_kind p) eqn:Ek.
    + destruct pos as [|s pos'].
      * destruct (p_default p) eqn:Ed; [|discriminate]. destruct (bind_go all ps [] kws) as [b'|] eqn:Eb; [|discriminate].
        simpl in H. inversion H; subst. eapply Skip; [|exact Eb|reflexivity|discriminate].
        unfold req_pos, no_default. rewrite Ed. now rewrite andb_false_r.
      * destruct (bind_go all ps pos' kws) as [b'|] eqn:Eb; [|discriminate]. simpl in H. inversion H; subst.
        eapply Take; [exact Eb|reflexivity].
    + destruct pos as [|s pos'].
      * destruct (mem (p_name p) kws) eqn:Em.
        -- destruct (bind_go all ps [] kws) as [b'|] eqn:Eb; [|discriminate]. simpl in H. inversion H; subst.
           eapply Skip; [|exact Eb|reflexivity|discriminate]. unfold req_pos. rewrite Em. now rewrite andb_false_r.
        -- destruct (p_default p) eqn:Ed; [|discriminate]. destruct (bind_go all ps [] kws) as [b'|] eqn:Eb; [|discriminate].
           simpl in H. inversion H; subst. eapply Skip; [|exact Eb|reflexivity|discriminate].
           unfold req_pos, no_default. rewrite Ed. now rewrite andb_false_r.
      * destruct (mem (p_name p) kws) eqn:Em; [discriminate|].
        destruct (bind_go all ps pos' kws) as [b'|] eqn:Eb; [|discriminate]. simpl in H. inversion H; subst.
        eapply Take; [exact Eb|reflexivity].
    + (* VarPos *)
      assert (Hr : req_pos kws p = false) by (unfold req_pos, is_pos; now rewrite Ek).
      destruct (bind_go all ps [] kws) as [b'|] eqn:Eb; [|discriminate]. simpl in H. inversion H; subst.
      rewrite (filter_cons_false _ _ _ Hr), (bind_go_nil_req _ _ _ _ Eb). destruct Hin as [E|Hin].
      * inversion E; subst. exists []. split; [reflexivity|simpl; lia].
      * destruct (IH _ _ _ _ Eb Hin) as [c' [Ec _]]. destruct c'; [|discriminate]. simpl in Ec. subst l.
        exists pos. split; [now rewrite app_nil_r|simpl; lia].
    + assert (Hr : req_pos kws p = false) by (unfold req_pos, is_pos; now rewrite Ek).
      destruct (mem (p_name p) kws); [|destruct (p_default p); [|discriminate]];
        (destruct (bind_go all ps pos kws) as [b'|] eqn:Eb; [|discriminate]; simpl in H; inversion H; subst;
         eapply Skip; [exact Hr|exact Eb|reflexivity|discriminate]).
    + assert (Hr : req_pos kws p = false) by (unfold req_pos, is_pos; now rewrite Ek).
      destruct (bind_go all ps pos kws) as [b'|] eqn:Eb; [|discriminate]. simpl in H. inversion H; subst.
      eapply Skip; [exact Hr|exact Eb|reflexivity|discriminate].
Qed.

Lemma py_bind_star : forall ps pos kws b n l, py_bind ps pos kws = Ok b -> In (n, BStar l) b ->
  exists consumed, pos = consumed ++ l /\ List.length (filter (req_pos kws) ps) <= List.length consumed.
Proof.
  intros ps pos kws b n l H. unfold py_bind in H.
  destruct (forallb (fun k => mem k (kw_param_names ps) || has_varkw ps) kws); [|discriminate].
  eapply bind_go_star; eassumption.
Qed.

Lemma In_skipn : forall {A} (l : list A) k n x, nth_error l k = Some x -> n <= k -> In x (skipn n l).
Proof.
  intros A l. induction l as [|a l IH]; intros k n x H Hn; [destruct k; discriminate|].
  destruct n; [change (In x (a :: l)); eapply nth_error_In; eassumption|].
  destruct k; [lia|]. simpl in *. eapply IH; [eassumption|lia].
Qed.
