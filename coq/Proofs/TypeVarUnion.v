(* C07: a Union / Optional of plain classes around ONE other alternative g (e.g. Optional[List[T]],
   Union[Dict[str, T], int]) is transparent when no plain class takes the value: the checker does on
   the Union exactly what it does on g - same verdict, same exception, and the TypeVar bindings made
   by g stay in the table of the call.                                                          *)
From Coq Require Import List Arith Bool ZArith Lia.
From PV Require Import Base.Exn Base.Values Base.Ann Model.CheckerCfg Model.Checker Spec.Conforms Spec.TypeVarSpec
  Proofs.CheckerGood Proofs.CheckerRefine Proofs.TypeVarFrame Proofs.TypeVarTC Proofs.TypeVarCall.
Import ListNotations.

Section UnionMember.
  Variable cfg : checker_cfg.
  Hypothesis good : good_facts cfg.
  Hypothesis Hub : un_bound_uses_result cfg = true.
  Variable ctx : nat -> option cls.
  Variable hook : ann -> value -> tvenv -> res.
  Notation II := (is_inst cfg ctx hook).

  Definition plain_none (v : value) (l : list ann) : Prop :=
    forall m, In m l -> plain_member m = true /\ plain_match v m = false.

  Lemma members_skip v : forall pre rest tv acc, plain_none v pre ->
    members_f cfg (fun m => II m) v (pre ++ rest) tv acc = members_f cfg (fun m => II m) v rest tv acc.
  Proof.
    induction pre as [|m pre IH]; intros rest tv acc H; [reflexivity|].
    destruct (H m (or_introl eq_refl)) as [Hp Hn]. destruct m; try discriminate Hp.
    cbn [app members_f is_typevar]. rewrite (II_plain cfg good ctx hook c v tv Hp), (gf_un cfg good).
    simpl in Hn. rewrite Hn, orb_false_r. apply IH. intros y Hy. apply H. now right.
  Qed.

  Theorem union_generic_member sp pre g post v tv :
    is_typevar g = false -> plain_none v pre -> plain_none v post ->
    II (AUnion sp (pre ++ g :: post)) v tv = II g v tv.
  Proof.
    intros Hg Hpre Hpost. rewrite (II_union cfg good ctx hook). unfold union_f. rewrite (gf_un cfg good).
    rewrite (members_skip v pre (g :: post) tv false Hpre). cbn [members_f]. rewrite Hg.
    destruct (II g v tv) as [[b|e] tv1] eqn:Eg; [|reflexivity].
    rewrite (gf_un cfg good). simpl orb.
    pose proof (members_skip v post [] tv1 b Hpost) as Hs. rewrite app_nil_r in Hs. rewrite Hs. cbn [members_f].
    destruct b; [reflexivity|].
    apply union_tail_no_tv. intros m Hm. apply in_app_or in Hm as [Hm|[<-|Hm]]; try assumption.
    - destruct (Hpre m Hm) as [Hp _]. destruct m; try discriminate Hp; reflexivity.
    - destruct (Hpost m Hm) as [Hp _]. destruct m; try discriminate Hp; reflexivity.
  Qed.

  (* ... hence, for a generic alternative of the proven vocabulary that structurally accepts the value, the
     Union performs the TypeVar checks of the alternative's matched positions, in order, on the table of the call *)
  Corollary union_generic_member_run sp pre g post v tv :
    is_typevar g = false -> tv_vocab g = true -> plain_none v pre -> plain_none v post ->
    EI cfg ctx hook g v = Ok true ->
    II (AUnion sp (pre ++ g :: post)) v tv = run_tc hook (matched false g v) tv.
  Proof.
    intros Hg Hv Hpre Hpost He. rewrite (union_generic_member sp pre g post v tv Hg Hpre Hpost).
    exact (proj2 (refine_both cfg good Hub ctx hook g Hv) v tv He).
  Qed.
End UnionMember.
