(* C07: call histories.  The verdict of a call on an instance Cls[X] whose method mentions only the
   class's own type variables (bare) and TypeVar-free annotations is a function of the call and of X -
   whatever the stored binding table holds, hence whatever happened before (any history, any other
   instance).  Plain functions / methods of undecorated classes never see an earlier call.
   Steps on other instances do not matter.                                                      *)
From Coq Require Import List Arith Bool ZArith Lia.
From PV Require Import Base.Exn Base.Values Base.Ann Model.CheckerCfg Model.Checker Model.GenericInstance
  Spec.Conforms Spec.TypeVarSpec Proofs.CheckerGood Proofs.CheckerRefine Proofs.CheckerSpec Proofs.TypeVarFrame Proofs.TypeVarTC
  Proofs.TypeVarCall.
Import ListNotations.

(* ---- the merged table ----------------------------------------------------------------------------- *)
Definition gen_lookup (gens : tvenv) (i : nat) : option tvbind :=
  match find (fun kb => Nat.eqb (fst kb) i) gens with Some kb => Some (snd kb) | None => None end.

Lemma merge_lookup : forall gens tb i, NoDup (map fst gens) ->
  tv_lookup (merge tb gens) i = match gen_lookup gens i with Some b => Some b | None => tv_lookup tb i end.
Proof.
  unfold merge. induction gens as [|[k b] gens IH]; intros tb i Hnd; [reflexivity|].
  inversion Hnd as [|? ? Hk Hnd']; subst. cbn [fold_left fst snd]. rewrite IH by assumption.
  unfold gen_lookup. cbn [find fst snd].
  destruct (Nat.eqb k i) eqn:E.
  - apply Nat.eqb_eq in E. subst i.
    assert (Hf : find (fun kb => Nat.eqb (fst kb) k) gens = None).
    { destruct (find (fun kb => Nat.eqb (fst kb) k) gens) as [kb|] eqn:Ef; [|reflexivity].
      apply find_some in Ef as [Hin He]. apply Nat.eqb_eq in He. exfalso. apply Hk. rewrite <- He. now apply in_map. }
    rewrite Hf. apply tv_lookup_set_same.
  - apply Nat.eqb_neq in E. destruct (find (fun kb => Nat.eqb (fst kb) i) gens); [reflexivity|].
    now apply tv_lookup_set_other.
Qed.

Lemma zip_bind_keys : forall ids xs, List.length ids = List.length xs -> map fst (zip_bind ids xs) = ids.
Proof.
  induction ids as [|i ids IH]; intros [|x xs] Hl; try discriminate; [reflexivity|].
  simpl. f_equal. apply IH. now inversion Hl.
Qed.

(* the X a class-level TypeVar id stands for *)
Fixpoint x_of (ids : list nat) (xs : list ann) (i : nat) : option ann :=
  match ids, xs with
  | j :: ids', x :: xs' => if Nat.eqb j i then Some x else x_of ids' xs' i
  | _, _ => None
  end.

Lemma gen_lookup_zip : forall ids xs i, gen_lookup (zip_bind ids xs) i = option_map bind_of (x_of ids xs i).
Proof.
  induction ids as [|j ids IH]; intros [|x xs] i; try reflexivity.
  unfold gen_lookup in *. cbn [zip_bind find fst snd x_of]. destruct (Nat.eqb j i); [reflexivity|apply IH].
Qed.

Lemma x_of_in : forall ids xs i x, x_of ids xs i = Some x -> In x xs.
Proof.
  induction ids as [|j ids IH]; intros [|y xs] i x H; try discriminate. simpl in H.
  destruct (Nat.eqb j i); [inversion H; now left|right; eapply IH; eassumption].
Qed.

Lemma x_of_some : forall ids xs i, List.length ids = List.length xs -> In i ids -> exists x, x_of ids xs i = Some x.
Proof.
  induction ids as [|j ids IH]; intros [|y xs] i Hl Hin; try discriminate; [destruct Hin|].
  simpl. destruct (Nat.eqb j i) eqn:E; [eauto|]. destruct Hin as [->|Hin]; [rewrite Nat.eqb_refl in E; discriminate|].
  apply IH; [now inversion Hl|assumption].
Qed.

Section Inst.
  Variable cfg : checker_cfg.
  Hypothesis good : good_facts cfg.
  Variable ctx : nat -> option cls.

  Let hook := is_inst0 cfg ctx.
  Notation AM := (amatch cfg ctx).

  (* ---- one position, table-independent ------------------------------------------------------------ *)
  (* a TypeVar whose binding is b: the outcome does not depend on the rest of the table *)
  Lemma tc_binding t v tv1 tv2 b :
    tv_lookup tv1 (tv_id t) = Some b -> tv_lookup tv2 (tv_id t) = Some b ->
    (forall a', b = BAnn a' -> inert a' = true) ->
    fst (typevar_check hook t v tv1) = fst (typevar_check hook t v tv2).
  Proof.
    intros H1 H2 Hi. destruct (tv_admits t v) eqn:Ea.
    - rewrite !(tc_admitted hook _ _ _ Ea), H1, H2.
      destruct (tv_contravariant t).
      + destruct b; [destruct (subclass c (class_of v))|]; reflexivity.
      + destruct b as [c|a']; [destruct (isinstance v c); reflexivity|].
        destruct (inert_uniform cfg ctx a' (Hi a' eq_refl) v) as [r Hr]. unfold hook, is_inst0. rewrite !Hr.
        destruct r as [[|]|e]; reflexivity.
    - now rewrite !(tc_guard hook _ _ _ Ea).
  Qed.

  Lemma assert_gen_fst (r1 r2 : res) :
    fst r1 = fst r2 ->
    fst (match (match r1 with (Ok b, tv') => (Ok b, tv') | (Raise e, tv') => (handle (handlers cfg) e, tv') end) with
         | (Ok true, tv') => (Ok tt, tv') | (Ok false, tv') => (Raise (mismatch_raises cfg), tv') | (Raise e, tv') => (Raise e, tv') end)
    = fst (match (match r2 with (Ok b, tv') => (Ok b, tv') | (Raise e, tv') => (handle (handlers cfg) e, tv') end) with
         | (Ok true, tv') => (Ok tt, tv') | (Ok false, tv') => (Raise (mismatch_raises cfg), tv') | (Raise e, tv') => (Raise e, tv') end).
  Proof.
    destruct r1 as [o1 t1], r2 as [o2 t2]. simpl. intros ->.
    destruct o2 as [[|]|e]; try reflexivity. destruct (handle (handlers cfg) e) as [[|]|]; reflexivity.
  Qed.

  Lemma AM_typevar_binding t v tv1 tv2 b :
    tv_lookup tv1 (tv_id t) = Some b -> tv_lookup tv2 (tv_id t) = Some b ->
    (forall a', b = BAnn a' -> inert a' = true) ->
    fst (AM (ATypeVar t) v tv1) = fst (AM (ATypeVar t) v tv2).
  Proof.
    intros H1 H2 Hi. pose proof (tc_binding t v tv1 tv2 b H1 H2 Hi) as H.
    unfold amatch, assert_matches1, assert_matches, assert_gen, check_type_gen.
    apply assert_gen_fst. cbn [is_inst].
    destruct (negb (has_required cfg (ATypeVar t))); [reflexivity|exact H].
  Qed.

  Lemma AM_inert a v tv : inert a = true -> fst (AM a v tv) = fst (AM a v []).
  Proof.
    intro Hi. unfold amatch, assert_matches1, assert_matches, assert_gen, check_type_gen.
    destruct (inert_uniform cfg ctx a Hi v) as [r Hr].
    destruct a; try (apply assert_gen_fst; now rewrite !Hr).
    - destruct (if none_by_eq cfg then match v with VNone => true | _ => false end else false); reflexivity.
    - destruct (ctx name); [destruct (if str_walks_mro cfg then isinstance v c else cls_eqb (class_of v) c)|]; reflexivity.
  Qed.

  (* ---- calls on an instance Cls[xs] ------------------------------------------------------------------ *)
  (* positions the instance theorem speaks about: the class's own type variables (bare), or no TypeVar *)
  Definition inst_position (ids : list nat) (a : ann) : bool :=
    match a with
    | ATypeVar t => existsb (Nat.eqb (tv_id t)) ids
    | _ => inert a
    end.

  (* what the position yields, as a function of X alone *)
  Definition position_outcome (ids : list nat) (xs : list ann) (a : ann) (v : value) : outcome unit :=
    match a with
    | ATypeVar t =>
        match x_of ids xs (tv_id t) with
        | Some x => fst (AM (ATypeVar t) v [(tv_id t, bind_of x)])
        | None => fst (AM a v [])
        end
    | _ => fst (AM a v [])
    end.

  Fixpoint seq_outcome (ids : list nat) (xs : list ann) (ps : list ann) (vs : list value) : outcome unit :=
    match ps, vs with
    | [], [] => Ok tt
    | a :: ps', v :: vs' => match position_outcome ids xs a v with Ok _ => seq_outcome ids xs ps' vs' | Raise e => Raise e end
    | _, _ => Raise TypeErrorC
    end.

  Definition well_formed_inst (ids : list nat) (xs : list ann) : Prop :=
    NoDup ids /\ List.length ids = List.length xs /\ forallb inert xs = true.

  Lemma bind_of_inert x a' : inert x = true -> bind_of x = BAnn a' -> inert a' = true.
  Proof. destruct x; simpl; intros Hi H; inversion H; subst; try reflexivity; assumption. Qed.

  Lemma refresh_lookup ids xs tb t x : well_formed_inst ids xs -> x_of ids xs (tv_id t) = Some x ->
    tv_lookup (refresh_of (KGeneric ids) (Some xs) tb) (tv_id t) = Some (bind_of x).
  Proof.
    intros [Hnd [Hl Hi]] Hx. cbn [refresh_of generics_of].
    rewrite merge_lookup by (now rewrite zip_bind_keys). now rewrite gen_lookup_zip, Hx.
  Qed.

  Lemma position_indep ids xs a v tb : well_formed_inst ids xs -> inst_position ids a = true ->
    fst (AM a v (refresh_of (KGeneric ids) (Some xs) tb)) = position_outcome ids xs a v.
  Proof.
    intros Hw Hp. destruct a; try (now apply AM_inert).
    simpl in Hp. apply existsb_exists in Hp as [j [Hj Ej]]. apply Nat.eqb_eq in Ej. subst j.
    destruct Hw as [Hnd [Hl Hi]].
    destruct (x_of_some ids xs (tv_id t) Hl Hj) as [x Hx]. cbn [position_outcome]. rewrite Hx.
    apply (AM_typevar_binding t v _ _ (bind_of x)).
    - apply refresh_lookup; [repeat split; assumption|assumption].
    - simpl. now rewrite Nat.eqb_refl.
    - intros a' Hb. apply (bind_of_inert x a'); [|assumption].
      rewrite forallb_forall in Hi. apply Hi. eapply x_of_in; eassumption.
  Qed.

  Theorem seq_indep ids xs : well_formed_inst ids xs -> forall ps vs tb,
    forallb (inst_position ids) ps = true ->
    fst (check_seq cfg ctx (refresh_of (KGeneric ids) (Some xs)) ps vs tb) = seq_outcome ids xs ps vs.
  Proof.
    intro Hw. induction ps as [|a ps IH]; intros [|v vs] tb Hp; try reflexivity.
    simpl in Hp. apply andb_true_iff in Hp as [Hpa Hpp]. cbn [check_seq seq_outcome].
    rewrite <- (position_indep ids xs a v tb Hw Hpa).
    destruct (AM a v (refresh_of (KGeneric ids) (Some xs) tb)) as [[u|e] tb1]; simpl; [now apply IH|reflexivity].
  Qed.

  Definition call_outcome (ids : list nat) (xs : list ann) (sg : msig) (args : list value) (ret : value) : outcome unit :=
    match seq_outcome ids xs (ms_params sg) args with
    | Ok _ => position_outcome ids xs (ms_ret sg) ret
    | Raise e => Raise e
    end.

  Definition inst_method (ids : list nat) (sg : msig) : bool :=
    forallb (inst_position ids) (ms_params sg) && inst_position ids (ms_ret sg).

  (* the verdict of a call on an instance of Cls[xs]: a function of the call and of xs, for EVERY stored table *)
  Theorem call_indep ids xs sg args ret tb : well_formed_inst ids xs -> inst_method ids sg = true ->
    fst (run_call cfg ctx (refresh_of (KGeneric ids) (Some xs)) sg args ret tb) = call_outcome ids xs sg args ret.
  Proof.
    intros Hw Hm. apply andb_true_iff in Hm as [Hp Hr]. unfold run_call, call_outcome.
    rewrite <- (seq_indep ids xs Hw (ms_params sg) args tb Hp).
    destruct (check_seq cfg ctx (refresh_of (KGeneric ids) (Some xs)) (ms_params sg) args tb) as [[u|e] tb1]; simpl; [|reflexivity].
    now apply position_indep.
  Qed.
End Inst.

(* ---- histories ---------------------------------------------------------------------------------------- *)
Section Hist.
  Variable cfg : checker_cfg.
  Hypothesis good : good_facts cfg.
  Variable ctx : nat -> option cls.
  Variable w : world.

  Notation STEP := (run_step cfg ctx w).
  Notation FROM := (run_from cfg ctx w).

  Lemma st_get_set_same : forall st s i, st_get (st_set st s i) s = Some i.
  Proof.
    induction st as [|[k j] st IH]; intros s i; simpl.
    - now rewrite Nat.eqb_refl.
    - destruct (Nat.eqb s k) eqn:E; simpl; rewrite E; [reflexivity|apply IH].
  Qed.
  Lemma st_get_set_other : forall st s s' i, s <> s' -> st_get (st_set st s i) s' = st_get st s'.
  Proof.
    induction st as [|[k j] st IH]; intros s s' i Hn; simpl.
    - destruct (Nat.eqb s' s) eqn:E; [apply Nat.eqb_eq in E; congruence|reflexivity].
    - destruct (Nat.eqb s k) eqn:E; simpl.
      + apply Nat.eqb_eq in E. subst k. destruct (Nat.eqb s' s) eqn:E2; [apply Nat.eqb_eq in E2; congruence|reflexivity].
      + destruct (Nat.eqb s' k); [reflexivity|now apply IH].
  Qed.

  Lemma run_from_app : forall h1 h2 st,
    FROM st (h1 ++ h2) = (fst (FROM st h1) ++ fst (FROM (snd (FROM st h1)) h2), snd (FROM (snd (FROM st h1)) h2)).
  Proof.
    induction h1 as [|s h1 IH]; intros h2 st; simpl.
    - now destruct (FROM st h2).
    - rewrite IH. reflexivity.
  Qed.

  Lemma run_from_snd_app h1 h2 st : snd (FROM st (h1 ++ h2)) = snd (FROM (snd (FROM st h1)) h2).
  Proof. now rewrite run_from_app. Qed.

  Lemma last_run_snoc h s st d : last (fst (FROM st (h ++ [s]))) d = fst (STEP (snd (FROM st h)) s).
  Proof. rewrite run_from_app. cbn [fst run_from]. now rewrite last_last. Qed.

  Definition slot_of (s : step) : option nat :=
    match s with SNew slot _ _ _ => Some slot | SCall slot _ _ _ => Some slot | SFun _ _ _ => None end.
  Definition touches (slot : nat) (s : step) : bool :=
    match slot_of s with Some k => Nat.eqb k slot | None => false end.

  (* a step that addresses another slot (or no slot) leaves the instance alone *)
  Lemma step_other st s slot : touches slot s = false -> st_get (snd (STEP st s)) slot = st_get st slot.
  Proof.
    unfold touches. destruct s as [k c xs args|k m args ret|f args ret]; simpl; intro H.
    - apply Nat.eqb_neq in H.
      destruct (nth_error (w_classes w) c) as [cd|]; [|reflexivity].
      destruct (cd_init cd) as [sg|]; simpl; [|now apply st_get_set_other].
      destruct (run_call cfg ctx (refresh_of (cd_kind cd) None) sg args VNone []) as [[u|e] tb]; simpl;
        [now apply st_get_set_other|reflexivity].
    - apply Nat.eqb_neq in H.
      destruct (st_get st k) as [i|]; [|reflexivity].
      destruct (nth_error (w_classes w) (i_cls i)) as [cd|]; [|reflexivity].
      destruct (nth_error (cd_methods cd) m) as [sg|]; [|reflexivity]. simpl. now apply st_get_set_other.
    - destruct (nth_error (w_funs w) f); reflexivity.
  Qed.

  (* a call keeps the class and the type arguments of the instance *)
  Definition same_identity (a b : option inst) : Prop :=
    match a, b with
    | Some i, Some j => i_cls i = i_cls j /\ i_targs i = i_targs j
    | None, None => True
    | _, _ => False
    end.

  Lemma same_identity_refl a : same_identity a a.
  Proof. destruct a; simpl; auto. Qed.
  Lemma same_identity_trans a b c : same_identity a b -> same_identity b c -> same_identity a c.
  Proof. destruct a, b, c; simpl; intuition congruence. Qed.

  Definition is_new_on (slot : nat) (s : step) : bool :=
    match s with SNew k _ _ _ => Nat.eqb k slot | _ => false end.

  Lemma step_identity st s slot : is_new_on slot s = false ->
    same_identity (st_get st slot) (st_get (snd (STEP st s)) slot).
  Proof.
    intro Hn. destruct (touches slot s) eqn:Et.
    - destruct s as [k c xs args|k m args ret|f args ret]; simpl in Hn; try discriminate.
      + unfold touches in Et. simpl in Et. congruence.
      + unfold touches in Et. simpl in Et. apply Nat.eqb_eq in Et. subst k.
        cbn [run_step].
        destruct (st_get st slot) as [i|] eqn:Eg; [|cbn [snd]; rewrite Eg; exact I].
        destruct (nth_error (w_classes w) (i_cls i)) as [cd|]; [|cbn [snd]; rewrite Eg; simpl; auto].
        destruct (nth_error (cd_methods cd) m) as [sg|]; [|cbn [snd]; rewrite Eg; simpl; auto].
        cbn [snd]. rewrite st_get_set_same. simpl. auto.
    - rewrite (step_other st s slot Et). apply same_identity_refl.
  Qed.

  Lemma from_identity : forall h st slot, forallb (fun s => negb (is_new_on slot s)) h = true ->
    same_identity (st_get st slot) (st_get (snd (FROM st h)) slot).
  Proof.
    induction h as [|s h IH]; intros st slot Hh; simpl; [apply same_identity_refl|].
    simpl in Hh. apply andb_true_iff in Hh as [Hs Hh']. apply negb_true_iff in Hs.
    eapply same_identity_trans; [apply (step_identity st s slot Hs)|apply IH; assumption].
  Qed.

  (* ---- instance of a generic class: every history ----------------------------------------------------- *)
  Theorem instance_call_any_history h1 h2 slot c xs iargs cd ids m sg args ret :
    nth_error (w_classes w) c = Some cd -> cd_kind cd = KGeneric ids ->
    nth_error (cd_methods cd) m = Some sg ->
    well_formed_inst ids xs -> inst_method ids sg = true ->
    (* the instance was created as Cls[xs](...) somewhere in the history, successfully *)
    fst (STEP (snd (FROM [] h1)) (SNew slot c xs iargs)) = ROk ->
    (* and the slot was not re-assigned afterwards *)
    forallb (fun s => negb (is_new_on slot s)) h2 = true ->
    last (run_history cfg ctx w (h1 ++ SNew slot c xs iargs :: h2 ++ [SCall slot m args ret])) RAbsent
    = to_sres (call_outcome cfg ctx ids xs sg args ret).
  Proof.
    intros Hc Hk Hm Hw Him Hnew Hh2. unfold run_history.
    replace (h1 ++ SNew slot c xs iargs :: h2 ++ [SCall slot m args ret])
      with ((h1 ++ [SNew slot c xs iargs] ++ h2) ++ [SCall slot m args ret])
      by (now rewrite <- !app_assoc).
    rewrite last_run_snoc, !run_from_snd_app.
    set (st1 := snd (FROM [] h1)) in *.
    set (st2 := snd (FROM st1 [SNew slot c xs iargs])).
    set (st3 := snd (FROM st2 h2)).
    (* the instance after the creation *)
    assert (H2 : exists tb, st_get st2 slot = Some {| i_cls := c; i_targs := Some xs; i_table := tb |}).
    { unfold st2. cbn [run_from snd run_step]. cbn [run_step] in Hnew. rewrite Hc in *.
      destruct (cd_init cd) as [isg|].
      - destruct (run_call cfg ctx (refresh_of (cd_kind cd) None) isg iargs VNone []) as [[u|e] tb]; cbn [fst snd] in *; [|discriminate].
        rewrite st_get_set_same. eauto.
      - cbn [snd]. rewrite st_get_set_same. eauto. }
    destruct H2 as [tb2 H2].
    pose proof (from_identity h2 st2 slot Hh2) as Hid. fold st3 in Hid. rewrite H2 in Hid.
    destruct (st_get st3 slot) as [i|] eqn:E3; [|destruct Hid]. simpl in Hid. destruct Hid as [Hic Hit].
    cbn [run_step]. rewrite E3, <- Hic, Hc, Hm. cbn [fst]. rewrite Hk, <- Hit.
    f_equal. now apply call_indep.
  Qed.

  (* the same without any restriction on the method: the last step is the call on SOME stored table *)
  Lemma instance_last_step h1 h2 slot c xs iargs cd ids m sg args ret :
    nth_error (w_classes w) c = Some cd -> cd_kind cd = KGeneric ids ->
    nth_error (cd_methods cd) m = Some sg ->
    fst (STEP (snd (FROM [] h1)) (SNew slot c xs iargs)) = ROk ->
    forallb (fun s => negb (is_new_on slot s)) h2 = true ->
    exists tb,
    last (run_history cfg ctx w (h1 ++ SNew slot c xs iargs :: h2 ++ [SCall slot m args ret])) RAbsent
    = to_sres (fst (run_call cfg ctx (refresh_of (KGeneric ids) (Some xs)) sg args ret tb)).
  Proof.
    intros Hc Hk Hm Hnew Hh2. unfold run_history.
    replace (h1 ++ SNew slot c xs iargs :: h2 ++ [SCall slot m args ret])
      with ((h1 ++ [SNew slot c xs iargs] ++ h2) ++ [SCall slot m args ret])
      by (now rewrite <- !app_assoc).
    rewrite last_run_snoc, !run_from_snd_app.
    set (st1 := snd (FROM [] h1)) in *.
    set (st2 := snd (FROM st1 [SNew slot c xs iargs])).
    set (st3 := snd (FROM st2 h2)).
    assert (H2 : exists tb, st_get st2 slot = Some {| i_cls := c; i_targs := Some xs; i_table := tb |}).
    { unfold st2. cbn [run_from snd run_step]. cbn [run_step] in Hnew. rewrite Hc in *.
      destruct (cd_init cd) as [isg|].
      - destruct (run_call cfg ctx (refresh_of (cd_kind cd) None) isg iargs VNone []) as [[u|e] tb]; cbn [fst snd] in *; [|discriminate].
        rewrite st_get_set_same. eauto.
      - cbn [snd]. rewrite st_get_set_same. eauto. }
    destruct H2 as [tb2 H2].
    pose proof (from_identity h2 st2 slot Hh2) as Hid. fold st3 in Hid. rewrite H2 in Hid.
    destruct (st_get st3 slot) as [i|] eqn:E3; [|destruct Hid]. simpl in Hid. destruct Hid as [Hic Hit].
    exists (i_table i).
    cbn [run_step]. rewrite E3, <- Hic, Hc, Hm. cbn [fst]. rewrite Hk, <- Hit. reflexivity.
  Qed.

  (* ---- plain functions: nothing leaks from earlier calls ------------------------------------------------ *)
  Theorem no_leak_fun h f args ret :
    last (run_history cfg ctx w (h ++ [SFun f args ret])) RAbsent = last (run_history cfg ctx w [SFun f args ret]) RAbsent.
  Proof.
    unfold run_history. rewrite last_run_snoc. simpl.
    destruct (nth_error (w_funs w) f); reflexivity.
  Qed.

  (* methods of an undecorated class (decorated one by one): the table is per call *)
  Theorem no_leak_plain_method st slot i cd m sg args ret :
    st_get st slot = Some i -> nth_error (w_classes w) (i_cls i) = Some cd -> cd_kind cd = KPlain ->
    nth_error (cd_methods cd) m = Some sg ->
    fst (STEP st (SCall slot m args ret)) = to_sres (fst (run_call cfg ctx (fun tb => tb) sg args ret [])).
  Proof. intros Hg Hc Hk Hm. simpl. rewrite Hg, Hc, Hm. simpl. now rewrite Hk. Qed.

  (* ---- instances are independent ------------------------------------------------------------------------- *)
  Fixpoint outcomes_on (slot : nat) (h : list step) (rs : list sres) : list sres :=
    match h, rs with
    | s :: h', r :: rs' => if touches slot s then r :: outcomes_on slot h' rs' else outcomes_on slot h' rs'
    | _, _ => []
    end.

  Lemma step_same_slot st1 st2 s slot : touches slot s = true -> st_get st1 slot = st_get st2 slot ->
    fst (STEP st1 s) = fst (STEP st2 s) /\ st_get (snd (STEP st1 s)) slot = st_get (snd (STEP st2 s)) slot.
  Proof.
    unfold touches. destruct s as [k c xs args|k m args ret|f args ret]; simpl; intros Ht Hs; try discriminate;
      apply Nat.eqb_eq in Ht; subst k.
    - destruct (nth_error (w_classes w) c) as [cd|]; [|auto].
      destruct (cd_init cd) as [sg|]; simpl; [|now rewrite !st_get_set_same].
      destruct (run_call cfg ctx (refresh_of (cd_kind cd) None) sg args VNone []) as [[u|e] tb]; simpl;
        [now rewrite !st_get_set_same|auto].
    - cbn [run_step]. rewrite <- Hs.
      destruct (st_get st1 slot) as [i|] eqn:E; [|cbn [fst snd]; split; [reflexivity|congruence]].
      destruct (nth_error (w_classes w) (i_cls i)) as [cd|]; [|cbn [fst snd]; split; [reflexivity|congruence]].
      destruct (nth_error (cd_methods cd) m) as [sg|]; [|cbn [fst snd]; split; [reflexivity|congruence]].
      cbn [fst snd]. now rewrite !st_get_set_same.
  Qed.

  Theorem instances_independent slot : forall h st1 st2, st_get st1 slot = st_get st2 slot ->
    outcomes_on slot h (fst (FROM st1 h)) = fst (FROM st2 (filter (touches slot) h)).
  Proof.
    induction h as [|s h IH]; intros st1 st2 Hs; [reflexivity|].
    simpl. destruct (touches slot s) eqn:Et.
    - destruct (step_same_slot st1 st2 s slot Et Hs) as [Hr Hs']. simpl. rewrite Hr. f_equal. now apply IH.
    - apply IH. now rewrite (step_other st1 s slot Et).
  Qed.
End Hist.

(* ---- a T-annotated position of an instance Cls[X] against the specification `conforms X` ------------- *)
Section InstConforms.
  Variable cfg : checker_cfg.
  Hypothesis good : good_facts cfg.
  Hypothesis Hmh : mismatch_handled cfg = true.
  Variable ctx : nat -> option cls.

  Definition plain_tv (t : tvar) : bool :=
    match tv_constraints t, tv_bound t with [], None => negb (tv_contravariant t) | _, _ => false end.

  Lemma plain_admits t v : plain_tv t = true -> tv_admits t v = true.
  Proof. unfold plain_tv, tv_admits. destruct (tv_constraints t); [|discriminate]. destruct (tv_bound t); [discriminate|reflexivity]. Qed.

  (* the type arguments the theorem covers: the vocabulary of C01/C02 *)
  Definition x_supported (x : ann) : bool := supported_in ctx x.

  Lemma supported_inert : forall a, supported_in ctx a = true -> inert a = true.
  Proof.
    induction a using ann_ind'; intro Hs; try reflexivity; try discriminate Hs; cbn [supported_in inert] in *.
    - apply andb_true_iff in Hs as [_ Hs]. rewrite forallb_forall in *. rewrite Forall_forall in H. auto.
    - destruct a; try discriminate Hs; try reflexivity; now apply IHa.
    - apply andb_true_iff in Hs as [Hs1 Hs]. rewrite forallb_forall. rewrite Forall_forall in H. intros x Hx.
      destruct o; try (rewrite forallb_forall in Hs; apply H; [assumption|]; apply Hs; assumption).
      destruct args as [|y [|? ?]]; try discriminate Hs; try (destruct y; discriminate Hs).
      destruct Hx as [<-|[]]. destruct y; try discriminate Hs; reflexivity.
    - apply andb_true_iff in Hs as [_ Hs]. now apply IHa.
  Qed.

  Theorem position_denotation t x v : plain_tv t = true -> x_supported x = true ->
    exists e, derives e PTypeVarMismatchC = true /\
    fst (amatch cfg ctx (ATypeVar t) v [(tv_id t, bind_of x)]) = if chk cfg ctx x v then Ok tt else Raise e.
  Proof.
    intros Hp Hx. unfold mismatch_handled in Hmh.
    destruct (handle (handlers cfg) PTypeVarMismatchC) as [b|e] eqn:Eh; [discriminate|]. exists e. split; [assumption|].
    unfold amatch, assert_matches1, assert_matches, assert_gen, check_type_gen. cbn [is_inst].
    rewrite (CheckerRefine.has_required_of_tables cfg (ATypeVar t) eq_refl). simpl negb. cbv iota.
    rewrite (tc_admitted _ _ _ _ (plain_admits t v Hp)). cbn [tv_lookup]. rewrite Nat.eqb_refl.
    assert (Hc : tv_contravariant t = false).
    { unfold plain_tv in Hp. destruct (tv_constraints t); [|discriminate]. destruct (tv_bound t); [discriminate|]. now apply negb_true_iff in Hp. }
    rewrite Hc.
    destruct x; try discriminate Hx;
      try (cbn [bind_of]; unfold is_inst0;
           first [ rewrite (CheckerRefine.is_inst_refines cfg good ctx no_hook _ Hx v) ];
           destruct (chk cfg ctx _ v); cbn [fst]; [reflexivity|now rewrite Eh]).
    (* a plain class *)
    cbn [bind_of chk]. destruct (isinstance v c); cbn [fst]; [reflexivity|now rewrite Eh].
  Qed.

  Theorem position_conforms t x v : plain_tv t = true -> x_supported x = true ->
    (conforms ctx x v = Must -> fst (amatch cfg ctx (ATypeVar t) v [(tv_id t, bind_of x)]) = Ok tt) /\
    (conforms ctx x v = MustNot -> exists e, fst (amatch cfg ctx (ATypeVar t) v [(tv_id t, bind_of x)]) = Raise e
                                             /\ derives e PTypeVarMismatchC = true).
  Proof.
    intros Hp Hx. destruct (position_denotation t x v Hp Hx) as [e [He Hd]].
    destruct (CheckerSpec.chk_agrees cfg good ctx x Hx v) as [Hm Hn]. split; intro H.
    - now rewrite Hd, (Hm H).
    - exists e. now rewrite Hd, (Hn H).
  Qed.
End InstConforms.
