(* C03 / C04 / C05: the configurations of the call protocol the theorems are proved for (`pc_good`),
   what follows from it, and the straight-line form of `run` / `run_rk` / `run_gen` under it.   *)
From Coq Require Import List Arith Bool String Lia.
From PV Require Import Base.Exn Base.Values Base.Ann Base.PyCall Model.CheckerCfg Model.Checker Model.PedanticCfg
  Model.Pedantic Spec.Conforms Spec.PedanticSpec.
Import ListNotations.
Open Scope list_scope.

(* should_have_kwargs as the property text reads it: exempt are property setters, functions that take
   *args, and dunder-named functions outside the list *)
Definition ref_shk (v : atoms) : bool :=
  negb (at_setter v || at_wants_args v) && (negb (at_starts v && at_ends v) || at_listed v).

Definition all_bools : list bool := [true; false].
Definition all_atoms : list atoms :=
  flat_map (fun a => flat_map (fun b => flat_map (fun c => flat_map (fun d => map (fun e =>
    {| at_setter := a; at_wants_args := b; at_starts := c; at_ends := d; at_listed := e |}) all_bools) all_bools) all_bools) all_bools) all_bools.

Definition strip_atom_eqb (a b : strip_atom) : bool :=
  match a, b with SaInstance, SaInstance | SaStatic, SaStatic | SaMulti, SaMulti => true | _, _ => false end.
Definition auk_atom_eqb (a b : auk_atom) : bool :=
  match a, b with AkShould, AkShould | AkArgsLeft, AkArgsLeft => true | _, _ => false end.
Definition drop_atom_eqb (a b : drop_atom) : bool :=
  match a, b with DaStatic, DaStatic | DaClass, DaClass => true | _, _ => false end.
Definition is_gt (c : cmpop) : bool := match c with CGt => true | _ => false end.

Definition pc_good (pc : pedantic_cfg) : bool :=
  forallb (fun v => Bool.eqb (bprog_val v (pc_shk pc)) (ref_shk v)) all_atoms
  && list_eqb String.eqb (pc_kwargs_names pc) documented_kwargs_dunders
  && Nat.eqb (pc_max_pedantic pc) 1 && Nat.eqb (pc_max_other pc) 0 && is_gt (pc_multi_cmp pc)
  && list_eqb strip_atom_eqb (pc_strip_when pc) [SaInstance; SaStatic; SaMulti] && Nat.eqb (pc_strip_from pc) 1
  && list_eqb auk_atom_eqb (pc_auk_when pc) [AkShould; AkArgsLeft] && list_nat_eqb (pc_auk_exn pc) PCallWithArgsC
  && list_eqb pass_eqb (pc_passes pc) [PNamed; PVarPos; PVarKw]
  && list_eqb drop_atom_eqb (pc_drop_args_when pc) [DaStatic; DaClass]
  && list_eqb drop_atom_eqb (pc_async_drop_args_when pc) [DaStatic; DaClass]
  && list_eqb step_eqb (pc_sync_steps pc) [StArgs; StCall; StRetCheck]
  && list_eqb step_eqb (pc_async_steps pc) [StArgs; StCall; StRetCheck]
  && list_eqb wstep_eqb (pc_wrapper pc) [WAssertKwargs; WCheckTypes]
  && list_eqb wstep_eqb (pc_async_wrapper pc) [WAssertKwargs; WCheckTypes]
  && list_eqb wstep_eqb (pc_rk_wrapper pc) [WAssertKwargs; WCallPlain]
  && list_eqb tname_eqb (pc_gen_bases pc) [TGenerator; TIterable; TIterator].

Lemma list_eqb_eq : forall {A} (eqb : A -> A -> bool), (forall a b, eqb a b = true -> a = b) ->
  forall l l', list_eqb eqb l l' = true -> l = l'.
Proof.
  intros A eqb H. induction l as [|x l IH]; destruct l' as [|y l']; simpl; intros E; try discriminate; [reflexivity|].
  apply andb_true_iff in E as [E1 E2]. f_equal; auto.
Qed.

Lemma list_nat_eqb_eq : forall a b, list_nat_eqb a b = true -> a = b.
Proof.
  induction a as [|x a IH]; destruct b as [|y b]; simpl; intros E; try discriminate; [reflexivity|].
  apply andb_true_iff in E as [E1 E2]. apply Nat.eqb_eq in E1. f_equal; auto.
Qed.

Lemma tname_eqb_eq : forall a b, tname_eqb a b = true -> a = b.
Proof. intros a b; destruct a, b; cbv; intros E; try reflexivity; discriminate. Qed.

Lemma in_all_atoms : forall v, In v all_atoms.
Proof. intros [[] [] [] [] []]; cbv; tauto. Qed.

Record good_facts (pc : pedantic_cfg) : Prop := {
  gf_shk : forall v, bprog_val v (pc_shk pc) = ref_shk v;
  gf_names : pc_kwargs_names pc = documented_kwargs_dunders;
  gf_maxp : pc_max_pedantic pc = 1;
  gf_maxo : pc_max_other pc = 0;
  gf_cmp : pc_multi_cmp pc = CGt;
  gf_strip : pc_strip_when pc = [SaInstance; SaStatic; SaMulti];
  gf_from : pc_strip_from pc = 1;
  gf_auk : pc_auk_when pc = [AkShould; AkArgsLeft];
  gf_exn : pc_auk_exn pc = PCallWithArgsC;
  gf_passes : pc_passes pc = [PNamed; PVarPos; PVarKw];
  gf_drop : pc_drop_args_when pc = [DaStatic; DaClass];
  gf_adrop : pc_async_drop_args_when pc = [DaStatic; DaClass];
  gf_steps : pc_sync_steps pc = [StArgs; StCall; StRetCheck];
  gf_asteps : pc_async_steps pc = [StArgs; StCall; StRetCheck];
  gf_wrap : pc_wrapper pc = [WAssertKwargs; WCheckTypes];
  gf_awrap : pc_async_wrapper pc = [WAssertKwargs; WCheckTypes];
  gf_rk : pc_rk_wrapper pc = [WAssertKwargs; WCallPlain];
  gf_bases : pc_gen_bases pc = [TGenerator; TIterable; TIterator];
}.

Lemma good_inv : forall pc, pc_good pc = true -> good_facts pc.
Proof.
  intros pc H. unfold pc_good in H.
  repeat match type of H with (_ && _ = true) => apply andb_true_iff in H; let H2 := fresh "G" in destruct H as [H H2] end.
  constructor.
  - intros v. rewrite forallb_forall in H. specialize (H v (in_all_atoms v)). now apply eqb_prop in H.
  - eapply list_eqb_eq; [|eassumption]. intros a b E. now apply String.eqb_eq.
  - now apply Nat.eqb_eq.
  - now apply Nat.eqb_eq.
  - destruct (pc_multi_cmp pc); try discriminate; reflexivity.
  - eapply list_eqb_eq; [|eassumption]. intros [] []; simpl; congruence.
  - now apply Nat.eqb_eq.
  - eapply list_eqb_eq; [|eassumption]. intros [] []; simpl; congruence.
  - now apply list_nat_eqb_eq.
  - eapply list_eqb_eq; [|eassumption]. intros [] []; simpl; congruence.
  - eapply list_eqb_eq; [|eassumption]. intros [] []; simpl; congruence.
  - eapply list_eqb_eq; [|eassumption]. intros [] []; simpl; congruence.
  - eapply list_eqb_eq; [|eassumption]. intros [] []; simpl; congruence.
  - eapply list_eqb_eq; [|eassumption]. intros [] []; simpl; congruence.
  - eapply list_eqb_eq; [|eassumption]. intros [] []; simpl; congruence.
  - eapply list_eqb_eq; [|eassumption]. intros [] []; simpl; congruence.
  - eapply list_eqb_eq; [|eassumption]. intros [] []; simpl; congruence.
  - eapply list_eqb_eq; [|eassumption]. apply tname_eqb_eq.
Qed.

Section Straight.
  Variable pc : pedantic_cfg.
  Variable check : ann -> value -> tvenv -> outcome unit * tvenv.
  Variable consumes : ann -> value -> bool.
  Hypothesis good : pc_good pc = true.

  Let G := good_inv pc good.

  (* ---- the decisions of DecoratedFunction / FunctionCall in closed form ---- *)
  Lemma should_have_kwargs_ref : forall f, should_have_kwargs pc f = ref_shk (name_atoms pc f).
  Proof. intros f. unfold should_have_kwargs. apply (gf_shk pc G). Qed.

  Lemma uses_multiple_ref : forall f,
    uses_multiple pc f = Nat.ltb (if t_pedantic (f_text f) then 1 else 0) (t_n_at (f_text f)).
  Proof. intros f. unfold uses_multiple. rewrite (gf_cmp pc G), (gf_maxp pc G), (gf_maxo pc G). reflexivity. Qed.

  Lemma strips_first_ref : forall f,
    strips_first pc f = is_instance_method f || is_static_method f || uses_multiple pc f.
  Proof. intros f. unfold strips_first. rewrite (gf_strip pc G). simpl. now rewrite orb_false_r, orb_assoc. Qed.

  Lemma args_without_self_ref : forall f c,
    args_without_self pc f c = if strips_first pc f then tl (wargs c) else wargs c.
  Proof.
    intros f c. unfold args_without_self. rewrite (gf_from pc G). destruct (strips_first pc f); [|reflexivity].
    destruct (wargs c); reflexivity.
  Qed.

  Lemma assert_uses_kwargs_ref : forall f c,
    assert_uses_kwargs pc f c =
    if should_have_kwargs pc f && negb (is_nil (args_without_self pc f c)) then Raise PCallWithArgsC else Ok tt.
  Proof.
    intros f c. unfold assert_uses_kwargs. rewrite (gf_auk pc G), (gf_exn pc G). simpl. now rewrite andb_true_r.
  Qed.

  Lemma drops_args_ref : forall f, drops_args pc f = is_static_method f || is_class_method f.
  Proof.
    intros f. unfold drops_args. rewrite (gf_drop pc G), (gf_adrop pc G). destruct (f_coroutine f); simpl; now rewrite orb_false_r.
  Qed.

  Lemma args_phase_ref : forall f c inst st,
    args_phase pc check consumes f c inst st =
    Exn.bind (run_pass pc check consumes f c inst PNamed st) (fun st1 =>
    Exn.bind (run_pass pc check consumes f c inst PVarPos st1) (fun st2 =>
    run_pass pc check consumes f c inst PVarKw st2)).
  Proof.
    intros. unfold args_phase. rewrite (gf_passes pc G). cbn [run_passes].
    destruct (run_pass pc check consumes f c inst PNamed st) as [st1|e]; cbn [Exn.bind]; [|reflexivity].
    destruct (run_pass pc check consumes f c inst PVarPos st1) as [st2|e]; cbn [Exn.bind]; [|reflexivity].
    destruct (run_pass pc check consumes f c inst PVarKw st2); reflexivity.
  Qed.

  (* ---- run, straight-line ---- *)
  Definition run_ref (f : fn) (c : call) (bd : body) : outcome value * list jentry :=
    match instance_of f c with
    | Raise e => (Raise e, [])
    | Ok inst =>
        match assert_uses_kwargs pc f c with
        | Raise e => (Raise e, [])
        | Ok _ =>
            match args_phase pc check consumes f c inst (astate0) with
            | Raise e => (Raise e, [])
            | Ok st =>
                match invoke f (call_pos pc f c) c bd (a_cons st) with
                | (Raise e, j) => (Raise e, j)
                | (Ok v, j) => (match ret_value check f c inst st v with Ok v' => Ok (ret_seen pc consumes f v') | Raise e => Raise e end, j)
                end
            end
        end
    end.

  Lemma run_is_ref : forall f c bd, run pc check consumes f c bd = run_ref f c bd.
  Proof.
    intros f c bd. unfold run, run_ref, wrapper_run, pedantic_wrapper.
    rewrite (gf_wrap pc G), (gf_awrap pc G).
    destruct (instance_of f c) as [inst|e]; [|reflexivity].
    assert (E : (if f_coroutine f then [WAssertKwargs; WCheckTypes] else [WAssertKwargs; WCheckTypes]) = [WAssertKwargs; WCheckTypes])
      by (destruct (f_coroutine f); reflexivity).
    rewrite E. simpl.
    destruct (assert_uses_kwargs pc f c) as [u|e]; [|reflexivity].
    unfold check_types, check_steps. rewrite (gf_steps pc G), (gf_asteps pc G).
    assert (E2 : (if f_coroutine f then [StArgs; StCall; StRetCheck] else [StArgs; StCall; StRetCheck]) = [StArgs; StCall; StRetCheck])
      by (destruct (f_coroutine f); reflexivity).
    rewrite E2. simpl.
    destruct (args_phase pc check consumes f c inst astate0) as [st|e]; [|reflexivity].
    destruct (invoke f (call_pos pc f c) c bd (a_cons st)) as [[v|e] j]; reflexivity.
  Qed.

  (* ---- run_rk (require_kwargs), straight-line ---- *)
  Definition run_rk_ref (f : fn) (c : call) (bd : body) : outcome value * list jentry :=
    match instance_of f c with
    | Raise e => (Raise e, [])
    | Ok inst =>
        match assert_uses_kwargs pc f c with
        | Raise e => (Raise e, [])
        | Ok _ => invoke f (wsrc c) c bd []
        end
    end.

  Lemma run_rk_is_ref : forall f c bd, run_rk pc check consumes f c bd = run_rk_ref f c bd.
  Proof.
    intros f c bd. unfold run_rk, run_rk_ref, wrapper_run. rewrite (gf_rk pc G).
    destruct (instance_of f c) as [inst|e]; [|reflexivity]. simpl.
    destruct (assert_uses_kwargs pc f c); reflexivity.
  Qed.

  (* ---- run_gen (generator functions), straight-line ---- *)
  Definition run_gen_ref (f : fn) (c : call) : outcome genobj * list jentry :=
    match instance_of f c with
    | Raise e => (Raise e, [])
    | Ok inst =>
        match assert_uses_kwargs pc f c with
        | Raise e => (Raise e, [])
        | Ok _ =>
            match args_phase pc check consumes f c inst (astate0) with
            | Raise e => (Raise e, [])
            | Ok st =>
                match invoke_gen f (call_pos pc f c) c (a_cons st) with
                | (Raise e, j) => (Raise e, j)
                | (Ok g, j) => (ret_gen pc f c inst st g, j)
                end
            end
        end
    end.

  Lemma run_gen_is_ref : forall f c, run_gen pc check consumes f c = run_gen_ref f c.
  Proof.
    intros f c. unfold run_gen, run_gen_ref, wrapper_run, pedantic_wrapper.
    rewrite (gf_wrap pc G), (gf_awrap pc G).
    destruct (instance_of f c) as [inst|e]; [|reflexivity].
    assert (E : (if f_coroutine f then [WAssertKwargs; WCheckTypes] else [WAssertKwargs; WCheckTypes]) = [WAssertKwargs; WCheckTypes])
      by (destruct (f_coroutine f); reflexivity).
    rewrite E. simpl.
    destruct (assert_uses_kwargs pc f c) as [u|e]; [|reflexivity].
    unfold check_types_gen, check_steps. rewrite (gf_steps pc G), (gf_asteps pc G).
    assert (E2 : (if f_coroutine f then [StArgs; StCall; StRetCheck] else [StArgs; StCall; StRetCheck]) = [StArgs; StCall; StRetCheck])
      by (destruct (f_coroutine f); reflexivity).
    rewrite E2. simpl.
    destruct (args_phase pc check consumes f c inst astate0) as [st|e]; [|reflexivity].
    destruct (invoke_gen f (call_pos pc f c) c (a_cons st)) as [[v|e] j]; reflexivity.
  Qed.
End Straight.
