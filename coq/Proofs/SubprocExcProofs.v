(* C17 - lemmas about Model/SubprocExc.v *)
From Coq Require Import List Arith Bool ZArith Lia.
From PV Require Import Base.Exn Model.PipeKernel Model.Subproc Model.SubprocExc Gen.Subproc.
Import ListNotations.

Lemma gen_origin : origin_of Gen.Subproc.parent_prog = Some OHandler.
Proof. vm_compute. reflexivity. Qed.

Lemma handler_distinct : forall i j e e', i <> j -> handed OHandler i e <> handed OHandler j e'.
Proof. intros i j e e' H E. cbn in E. apply H. injection E. trivial. Qed.

Lemma module_same : forall i j, handed OModule i IDeath = handed OModule j IDeath.
Proof. reflexivity. Qed.

Lemma filter_none {A} (l : list A) : filter (fun _ => false) l = [].
Proof. induction l; cbn; auto. Qed.

Lemma filter_all {A} (f : A -> bool) (l : list A) : (forall x, In x l -> f x = true) -> filter f l = l.
Proof.
  induction l as [| a l IH]; cbn; intros H; [reflexivity|].
  rewrite (H a (or_introl eq_refl)). f_equal. apply IH. intros x Hx. apply H. right. exact Hx.
Qed.

Lemma failures_length : forall ends k, List.length (failures ends k) = count_failed ends.
Proof.
  induction ends as [| d r IH]; intros k; [reflexivity|].
  cbn [failures]. rewrite app_length, IH. unfold count_failed. destruct d; reflexivity.
Qed.

(* constructed in the handler: when the callers have dropped what they caught nothing is left *)
Lemma handler_nothing_left : forall ends, open_fds OHandler ends [] = 0.
Proof. intros ends. unfold open_fds, live_frames, roots. cbn [map app existsb]. rewrite filter_none. reflexivity. Qed.

(* one module-level instance: two descriptors per silent death stay when the callers have dropped everything *)
Lemma module_filter : forall ends k,
  List.length (filter (fun p => existsb (Nat.eqb (handed_p OModule p)) (roots OModule [])) (failures ends k)) = count_deaths ends.
Proof.
  induction ends as [| d r IH]; intros k; [reflexivity|].
  cbn [failures]. rewrite filter_app, app_length, IH. unfold count_deaths. destruct d; reflexivity.
Qed.

Lemma module_leaks : forall ends, open_fds OModule ends [] = 2 * count_deaths ends.
Proof. intros ends. unfold open_fds, live_frames. rewrite module_filter. reflexivity. Qed.

(* constructed in the handler, callers still holding everything: the descriptors live as long as the objects *)
Lemma handler_while_held : forall ends, open_fds OHandler ends (failures ends 0) = 2 * count_failed ends.
Proof.
  intros ends. unfold open_fds, live_frames, roots. cbn [app]. rewrite filter_all.
  - rewrite failures_length. reflexivity.
  - intros x Hx. apply existsb_exists. exists (handed_p OHandler x). split.
    + apply in_map. exact Hx.
    + apply Nat.eqb_refl.
Qed.
