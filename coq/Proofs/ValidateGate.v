(* C12: @validate is a gate.  Lemmas about the reference configuration; Props/C12.v instantiates them with the
   configuration regenerated from the source. *)
From Coq Require Import List Arith Bool Permutation Lia.
From PV Require Import Base.Exn Model.ValidateSem Spec.ValidateSpec Proofs.ValidateDict Proofs.ValidateRef Proofs.ValidateBind.
Import ListNotations.

Section Gate.
Variable value : Type.
Variable is_none : value -> bool.
Variable sg : signature value.
Variable env : wenv.
Variable dc : deco value.
Hypothesis NV : s_varpos sg = false.      (* functions without *args *)

Notation param := (param value).
Notation dict := (dict value).
Notation M := (M value).
Notation rcfg := reference_cfg.
Notation rr := reference_req_rule.
Notation PV := (param_validate value is_none rcfg rr).
Notation seqm := (seqm value).
Notation step_m := (step_m value is_none dc).
Notation u_m := (u_m value is_none sg).
Notation uitems := (uitems value is_none sg).
Notation wc_ref := (wc_ref value is_none sg env dc).
Notation tail_m := (tail_m value is_none sg env dc).
Notation useds := (useds value dc).
Notation unused_params := (unused_params value dc).

(* ---------- sequences of steps ---------- *)
Definition item_ok (it : name * M value) (kv : name * value) : Prop :=
  fst it = fst kv /\ snd (snd it) = WOk (snd kv).

Lemma mbind_ok_inv : forall A B (m : M A) (f : A -> M B) b,
  snd (mbind m f) = WOk b -> exists a, snd m = WOk a /\ snd (f a) = WOk b.
Proof. intros A B m f b H. rewrite snd_mbind in H. destruct (snd m) as [a|e pn]; [eauto | discriminate]. Qed.

Lemma mbind_raise_inv : forall A B (m : M A) (f : A -> M B) e pn,
  snd (mbind m f) = WRaise e pn -> snd m = WRaise e pn \/ exists a, snd m = WOk a /\ snd (f a) = WRaise e pn.
Proof.
  intros A B m f e pn H. rewrite snd_mbind in H. destruct (snd m) as [a|e' pn'].
  - right. exists a. split; [reflexivity | assumption].
  - left. injection H as -> ->. reflexivity.
Qed.

Lemma seqm_ok : forall items l, snd (seqm items) = WOk l -> Forall2 item_ok items l.
Proof.
  induction items as [|[k m] items IH]; intros l H.
  - cbn in H. injection H as <-. constructor.
  - cbn [ValidateRef.seqm] in H. apply mbind_ok_inv in H. destruct H as [v [Hm H]].
    apply mbind_ok_inv in H. destruct H as [l' [Hs H]]. cbn in H. injection H as <-.
    constructor; [split; [reflexivity | exact Hm] | auto].
Qed.

Lemma seqm_ok_conv : forall items l, Forall2 item_ok items l -> snd (seqm items) = WOk l.
Proof.
  induction 1 as [|[k m] [k' v] items l [Hk Hv] _ IH]; [reflexivity|].
  cbn [ValidateRef.seqm fst snd] in *. subst k'. rewrite snd_mbind, Hv, snd_mbind, IH. reflexivity.
Qed.

Lemma seqm_raise_inv : forall items e pn,
  snd (seqm items) = WRaise e pn -> exists it, In it items /\ snd (snd it) = WRaise e pn.
Proof.
  induction items as [|[k m] items IH]; intros e pn H; [discriminate|].
  cbn [ValidateRef.seqm] in H. apply mbind_raise_inv in H. destruct H as [H|[v [_ H]]].
  - exists (k, m). split; [now left | assumption].
  - apply mbind_raise_inv in H. destruct H as [H|[l [_ H]]]; [|discriminate].
    destruct (IH _ _ H) as [it [I R]]. exists it. split; [now right | assumption].
Qed.

(* the first failing step decides; nothing behind it is executed *)
Lemma seqm_first_failure : forall (pre : list (name * M value)) (it : name * M value) (post : list (name * M value)) e pn,
  Forall (fun it : name * M value => exists v, snd (snd it) = WOk v) pre -> snd (snd it) = WRaise e pn ->
  seqm (pre ++ it :: post) = (flat_map (fun it : name * M value => fst (snd it)) pre ++ fst (snd it), WRaise e pn).
Proof.
  induction pre as [|[k0 m0] pre IH]; intros [k m] post e pn Hpre Hm.
  - cbn [app ValidateRef.seqm flat_map fst snd] in *. destruct m as [j r]. cbn [snd] in Hm. subst r. reflexivity.
  - inversion Hpre as [|? ? [v Hv] Hpre']; subst. cbn [app ValidateRef.seqm flat_map fst snd].
    rewrite (IH (k, m) post e pn Hpre' Hm). destruct m0 as [j0 r0]. cbn [snd] in Hv. subst r0.
    cbn [mbind fst snd]. now rewrite app_assoc.
Qed.

Lemma seqm_some_failure : forall items it e pn,
  In it items -> snd (snd it) = WRaise e pn -> exists e' pn', snd (seqm items) = WRaise e' pn'.
Proof.
  intros items it e pn I R. destruct (snd (seqm items)) as [l|e' pn'] eqn:S; [|eauto].
  apply seqm_ok in S. exfalso. revert it I R. induction S as [|x y items l [_ Hx] _ IH]; intros it I R.
  - contradiction.
  - destruct I as [<-|I]; [|eauto]. assert (X : WOk (snd y) = WRaise e pn) by (rewrite <- Hx; exact R). discriminate.
Qed.

Lemma Forall2_in_r : forall A B (R : A -> B -> Prop) l l' y, Forall2 R l l' -> In y l' -> exists x, In x l /\ R x y.
Proof.
  induction 1 as [|a b l l' Hab _ IH]; intro I; [contradiction|].
  destruct I as [<-|I]; [exists a; split; [now left | assumption]|].
  destruct (IH I) as [x [Ix Rx]]. exists x. split; [now right | assumption].
Qed.

Lemma Forall2_in_l : forall A B (R : A -> B -> Prop) l l' x, Forall2 R l l' -> In x l -> exists y, In y l' /\ R x y.
Proof.
  induction 1 as [|a b l l' Hab _ IH]; intro I; [contradiction|].
  destruct I as [<-|I]; [exists b; split; [now left | assumption]|].
  destruct (IH I) as [y [Iy Ry]]. exists y. split; [now right | assumption].
Qed.

Lemma item_ok_keys : forall items l, Forall2 item_ok items l -> keys l = map fst items.
Proof. induction 1 as [|x y items l [Hk _] _ IH]; [reflexivity|]. unfold keys in *. simpl. now rewrite IH, Hk. Qed.

(* ---------- the arguments in the order in which _wrapper_content meets them ---------- *)
Definition tagged := (bool * (name * value))%type.      (* true: from the positional loop *)
Definition titem (x : tagged) : name * M value := (fst (snd x), step_m (fst x) (fst (snd x)) (snd (snd x))).

Definition arrival (c : call value) : option (list tagged) :=
  if d_ignore_input dc then Some []
  else match bind_partial value sg (c_args c) with
       | Ok (bound, _) => Some (map (pair false) (c_kwargs c) ++ map (pair true) bound)
       | Raise _ => None
       end.

Lemma wc_ref_arrival : forall c xs, arrival c = Some xs -> wc_ref c = mbind (seqm (map titem xs)) tail_m.
Proof.
  intros c xs H. unfold arrival in H. unfold ValidateRef.wc_ref. destruct (d_ignore_input dc).
  - injection H as <-. cbn [map ValidateRef.seqm]. now rewrite mbind_ret_l.
  - destruct (bind_partial value sg (c_args c)) as [[bound star]|e]; [|discriminate]. injection H as <-.
    rewrite map_app, seqm_app, !mbind_assoc, !map_map. unfold aitems, titem. cbn [fst snd].
    apply mbind_ext. intro l1. rewrite mbind_assoc. apply mbind_ext. intro l2. now rewrite mbind_ret_l.
Qed.

Lemma wc_ref_no_arrival : forall c, arrival c = None -> exists e pn, snd (wc_ref c) = WRaise e pn.
Proof.
  intros c H. unfold arrival in H. unfold ValidateRef.wc_ref. destruct (d_ignore_input dc); [discriminate|].
  destruct (bind_partial value sg (c_args c)) as [[bound star]|e0]; [discriminate|].
  rewrite snd_mbind. destruct (snd (seqm _)); cbn; eauto.
Qed.

(* the caller passes value w for the name n (and the decorator looks at the caller's input) *)
Definition caller_gives (c : call value) (n : name) (w : value) : Prop :=
  d_ignore_input dc = false /\ In (n, w) (c_kwargs c ++ combine (positional_names value sg) (c_args c)).

Lemma arrival_gives : forall c xs x, arrival c = Some xs -> In x xs -> caller_gives c (fst (snd x)) (snd (snd x)).
Proof.
  intros c xs x H I. unfold arrival in H. unfold caller_gives. destruct (d_ignore_input dc).
  - injection H as <-. contradiction.
  - split; [reflexivity|]. unfold bind_partial in H. rewrite NV in H. destruct (Nat.ltb _ _); [discriminate|]. injection H as <-.
    apply in_app_or in I. apply in_or_app. destruct I as [I|I]; apply in_map_iff in I; destruct I as [[k w] [<- I]]; auto.
Qed.

Lemma gives_arrival : forall c xs n w, arrival c = Some xs -> caller_gives c n w -> exists x, In x xs /\ snd x = (n, w).
Proof.
  intros c xs n w H [Ig I]. unfold arrival in H. rewrite Ig in H. unfold bind_partial in H. rewrite NV in H.
  destruct (Nat.ltb _ _); [discriminate|]. injection H as <-.
  apply in_app_or in I. destruct I as [I|I].
  - exists (false, (n, w)). split; [|reflexivity]. apply in_or_app. left. now apply in_map.
  - exists (true, (n, w)). split; [|reflexivity]. apply in_or_app. right. now apply in_map.
Qed.

(* what a successful _wrapper_content returned *)
Lemma wc_ok_inv : forall c r, snd (wc_ref c) = WOk r ->
  exists xs l12 l3, arrival c = Some xs /\ Forall2 item_ok (map titem xs) l12 /\
    Forall2 item_ok (uitems (unused_params (useds l12))) l3 /\ r = dsets (l12 ++ l3) [].
Proof.
  intros c r H. destruct (arrival c) as [xs|] eqn:A.
  - rewrite (wc_ref_arrival _ _ A) in H. apply mbind_ok_inv in H. destruct H as [l12 [H1 H]].
    unfold ValidateRef.tail_m in H. apply mbind_ok_inv in H. destruct H as [l3 [H3 H]].
    apply mbind_ok_inv in H. destruct H as [[] [_ H]]. cbn in H. injection H as <-.
    exists xs, l12, l3. auto using seqm_ok.
  - destruct (wc_ref_no_arrival _ A) as [e [pn R]]. congruence.
Qed.

Lemma In_declared : forall p, In p (d_params dc) -> declared value dc (p_name p) = true.
Proof. intros p I. unfold declared. apply existsb_exists. exists p. split; [assumption | apply Nat.eqb_refl]. Qed.

Lemma In_useds : forall n l, In n (useds l) <-> In n (keys l) /\ declared value dc n = true.
Proof.
  intros n l. unfold ValidateRef.useds, keys. rewrite in_flat_map. split.
  - intros [[k v] [I U]]. unfold usedk in U. cbn [fst] in U. destruct (declared value dc k) eqn:D; [|contradiction].
    destruct U as [<-|[]]. split; [|assumption]. change k with (fst (k, v)). now apply in_map.
  - intros [I D]. apply in_map_iff in I. destruct I as [[k v] [<- I]]. exists (k, v). split; [assumption|].
    unfold usedk. cbn [fst] in *. rewrite D. now left.
Qed.

Lemma unused_In : forall p used, In p (unused_params used) <-> In p (d_params dc) /\ ~ In (p_name p) used.
Proof.
  intros p used. unfold ValidateRef.unused_params. rewrite filter_In, negb_true_iff, mem_false. tauto.
Qed.

(* ---------- where a value of the result dictionary comes from ---------- *)
Definition external_gives (p : param) (w : value) : Prop :=
  exists e, p_ext p = Some e /\ e_has e = true /\ e_load e = Ok w.

Inductive origin (c : call value) (n : name) (v : value) : Prop :=
| OChainCaller (p : param) (w : value) :
    In p (d_params dc) -> p_name p = n -> caller_gives c n w -> spec_param value is_none p w = VPass v -> origin c n v
| OChainExternal (p : param) (w : value) :
    In p (d_params dc) -> p_name p = n -> (forall w', ~ caller_gives c n w') -> external_gives p w ->
    spec_param value is_none p w = VPass v -> origin c n v
| OParamDefault (p : param) :
    In p (d_params dc) -> p_name p = n -> (forall w', ~ caller_gives c n w') -> p_default p = Some v -> origin c n v
| OSigDefault (sp : sigparam value) :
    In sp (s_params sg) -> sp_name sp = n -> sp_default sp = Some v ->
    ((forall w', ~ caller_gives c n w') \/
     (d_mode dc = KWARGS_WITHOUT_NONE /\ exists v0, origin c n v0 /\ is_none v0 = true)) -> origin c n v
| OUndeclared :
    declared value dc n = false -> caller_gives c n v -> (d_strict dc = false \/ n = self_name) -> origin c n v.

Lemma of_verdict_ok : forall (p : param) r v, of_verdict_w value p r = WOk v -> r = VPass v.
Proof. intros p [v'| |e] v H; simpl in H; congruence. Qed.

Lemma step_origin : forall c pos n w v, caller_gives c n w -> snd (step_m pos n w) = WOk v -> origin c n v.
Proof.
  intros c pos n w v G H. unfold ValidateRef.step_m in H. destruct (lookup_param value dc n) as [p|] eqn:L.
  - rewrite pv_spec in H. apply of_verdict_ok in H.
    eapply OChainCaller; eauto using lookup_param_In, lookup_param_name.
  - unfold undeclared_m in H. destruct (d_strict dc && negb (pos && Nat.eqb n self_name)) eqn:S; [discriminate|].
    cbn in H. injection H as <-. apply OUndeclared; [now rewrite lookup_param_declared, L | assumption |].
    destruct (d_strict dc); [right | now left]. cbn in S. apply negb_false_iff, andb_true_iff in S.
    now apply Nat.eqb_eq.
Qed.

Lemma sig_default_In : forall n d, sig_default value sg n = Some d ->
  exists sp, In sp (s_params sg) /\ sp_name sp = n /\ sp_default sp = Some d.
Proof.
  intros n d H. unfold sig_default in H. destruct (find _ (s_params sg)) as [sp|] eqn:F; [|discriminate].
  apply find_some in F. exists sp. repeat split; try tauto. now apply Nat.eqb_eq.
Qed.

Lemma unused_origin : forall c p v,
  In p (d_params dc) -> (forall w', ~ caller_gives c (p_name p) w') -> snd (u_m p) = WOk v -> origin c (p_name p) v.
Proof.
  intros c p v I Abs H.
  assert (C : snd (cascade_m value sg p) = WOk v -> origin c (p_name p) v).
  { unfold cascade_m. destruct (is_required value rr p); [discriminate|].
    destruct (p_default p) as [d|] eqn:D.
    - cbn. intro X. injection X as <-. eapply OParamDefault; eauto.
    - destruct (sig_default value sg (p_name p)) as [d|] eqn:S; [|discriminate]. cbn. intro X. injection X as <-.
      destruct (sig_default_In _ _ S) as [sp [? [? ?]]]. eapply OSigDefault; eauto. }
  unfold ValidateRef.u_m in H. destruct (p_ext p) as [e|] eqn:E; [|auto].
  destruct (e_has e) eqn:Has; [|auto]. destruct (e_load e) as [w|x] eqn:Ld; [|discriminate].
  rewrite pv_spec in H. apply of_verdict_ok in H.
  eapply OChainExternal; eauto. exists e. auto.
Qed.

Lemma absent_of_unused : forall c xs l12 p,
  arrival c = Some xs -> Forall2 item_ok (map titem xs) l12 -> In p (unused_params (useds l12)) ->
  forall w', ~ caller_gives c (p_name p) w'.
Proof.
  intros c xs l12 p A F U w' G. apply unused_In in U. destruct U as [I N]. apply N, In_useds.
  split; [|now apply In_declared].
  destruct (gives_arrival _ _ _ _ A G) as [x [Ix Ex]].
  rewrite (item_ok_keys _ _ F), map_map. apply in_map_iff. exists x. split; [|assumption].
  unfold titem. cbn [fst]. now rewrite Ex.
Qed.

Theorem result_origin : forall c r n v, snd (wc_ref c) = WOk r -> In (n, v) r -> origin c n v.
Proof.
  intros c r n v H I. destruct (wc_ok_inv _ _ H) as (xs & l12 & l3 & A & F12 & F3 & ->).
  apply In_dsets in I. destruct I as [I|[]]. apply in_app_or in I. destruct I as [I|I].
  - destruct (Forall2_in_r _ _ _ _ _ _ F12 I) as [it [Iit [Hk Hv]]]. apply in_map_iff in Iit.
    destruct Iit as [x [<- Ix]]. unfold titem in *. cbn [fst snd] in *. subst n.
    eapply step_origin; [eapply arrival_gives; eassumption | eassumption].
  - destruct (Forall2_in_r _ _ _ _ _ _ F3 I) as [it [Iit [Hk Hv]]]. apply in_map_iff in Iit.
    destruct Iit as [p [<- Ip]]. cbn [fst snd] in *. subst n.
    apply unused_origin; [apply unused_In in Ip; tauto | eapply absent_of_unused; eassumption | assumption].
Qed.

(* ---------- guard: `self` only as the implicit first positional ---------- *)
Definition first_is_self : bool :=
  match pos_params value sg with sp :: _ => Nat.eqb (sp_name sp) self_name | [] => false end.

Definition self_guard (c : call value) : bool :=
  negb (mem self_name (keys (c_kwargs c))) && negb (declared value dc self_name)
  && (negb (sig_has value sg self_name) || first_is_self).

Lemma in_sig_has : forall n, in_sig value sg n = sig_has value sg n.
Proof.
  intro n. unfold in_sig, sig_has, sig_names. induction (s_params sg) as [|sp ps IH]; [reflexivity|].
  cbn [map existsb]. now rewrite IH, Nat.eqb_sym.
Qed.

Lemma pos_name_sig_has : forall n, In n (map (@sp_name value) (pos_params value sg)) -> sig_has value sg n = true.
Proof.
  intros n I. apply in_map_iff in I. destruct I as [sp [<- I]]. unfold pos_params in I. apply filter_In in I.
  unfold sig_has. apply existsb_exists. exists sp. split; [tauto | apply Nat.eqb_refl].
Qed.

Lemma result_keys : forall c r n, snd (wc_ref c) = WOk r -> In n (keys r) ->
  (d_ignore_input dc = false /\ (In n (keys (c_kwargs c)) \/ In n (map (@sp_name value) (pos_params value sg))))
  \/ declared value dc n = true.
Proof.
  intros c r n H I. unfold keys in I. apply in_map_iff in I. destruct I as [[k v] [<- I]]. cbn [fst].
  destruct (result_origin _ _ _ _ H I) as [p w Ip <- _ _|p w Ip <- _ _ _|p Ip <- _ _|sp Isp Hn Hd _|D [Ig G] _];
    try (right; now apply In_declared).
  - (* the value is a signature default: it entered through the unused-parameter loop *)
    destruct (wc_ok_inv _ _ H) as (xs & l12 & l3 & A & F12 & F3 & ->).
    apply In_dsets in I. destruct I as [I|[]]. apply in_app_or in I. destruct I as [I|I].
    + destruct (Forall2_in_r _ _ _ _ _ _ F12 I) as [it [Iit [Hk _]]]. apply in_map_iff in Iit.
      destruct Iit as [x [<- Ix]]. unfold titem in Hk. cbn [fst snd] in Hk.
      destruct (arrival_gives _ _ _ A Ix) as [Ig G]. rewrite Hk in G. left. split; [assumption|].
      apply in_app_or in G. destruct G as [G|G]; [left | right].
      * unfold keys. change k with (fst (k, snd (snd x))). now apply in_map.
      * apply in_combine_l in G. exact G.
    + destruct (Forall2_in_r _ _ _ _ _ _ F3 I) as [it [Iit [Hk _]]]. apply in_map_iff in Iit.
      destruct Iit as [p [<- Ip]]. cbn [fst] in Hk. right. rewrite <- Hk. apply In_declared. apply unused_In in Ip. tauto.
  - left. split; [assumption|]. apply in_app_or in G. destruct G as [G|G]; [left | right].
    + unfold keys. change k with (fst (k, v)). now apply in_map.
    + apply in_combine_l in G. exact G.
Qed.

Lemma first_is_self_inv : first_is_self = true ->
  exists sp rest, pos_params value sg = sp :: rest /\ sp_name sp = self_name.
Proof.
  unfold first_is_self. destruct (pos_params value sg) as [|sp rest]; [discriminate|].
  intro H. apply Nat.eqb_eq in H. eauto.
Qed.

Lemma result_self_ok : forall c r, self_guard c = true -> snd (wc_ref c) = WOk r -> self_ok value sg r.
Proof.
  intros c r G H D. unfold self_guard in G. apply andb_true_iff in G. destruct G as [G G3].
  apply andb_true_iff in G. destruct G as [G1 G2]. apply negb_true_iff in G1, G2. apply mem_false in G1.
  apply dmem_keys in D. destruct (result_keys _ _ _ H D) as [[_ [K|K]]|K].
  - contradiction.
  - apply pos_name_sig_has in K. rewrite K in G3. cbn in G3. now apply first_is_self_inv.
  - congruence.
Qed.

Lemma result_nodup : forall c r, snd (wc_ref c) = WOk r -> NoDup (keys r).
Proof.
  intros c r H. destruct (wc_ok_inv _ _ H) as (xs & l12 & l3 & _ & _ & _ & ->). apply nodup_dsets. constructor.
Qed.

Lemma all_in_sig_In : forall l n, all_in_sig value sg l = true -> In n l -> sig_has value sg n = true.
Proof. intros l n A I. unfold all_in_sig in A. rewrite forallb_forall in A. rewrite <- in_sig_has. auto. Qed.

(* ---------- C12: the gate ---------- *)
Lemma fill_In : forall ps (d b : dict) n v, fill value ps d = Some b -> In (n, v) b ->
  In (n, v) d \/ exists sp, In sp ps /\ sp_name sp = n /\ sp_default sp = Some v /\ dget n d = None.
Proof.
  induction ps as [|sp ps IH]; intros d b n v H I; simpl in H.
  - injection H as <-. contradiction.
  - destruct (dget (sp_name sp) d) as [w|] eqn:G.
    + destruct (fill value ps d) as [b'|] eqn:F; [|discriminate]. injection H as <-.
      destruct I as [I|I].
      * injection I as <- <-. left. now apply dget_In.
      * destruct (IH _ _ _ _ F I) as [?|[sp' [? ?]]]; [tauto|]. right. exists sp'. split; [now right | assumption].
    + destruct (sp_default sp) as [w|] eqn:D; [|discriminate].
      destruct (fill value ps d) as [b'|] eqn:F; [|discriminate]. injection H as <-.
      destruct I as [I|I].
      * injection I as <- <-. right. exists sp. split; [now left | auto].
      * destruct (IH _ _ _ _ F I) as [?|[sp' [? ?]]]; [tauto|]. right. exists sp'. split; [now right | assumption].
Qed.

(* a name the caller passes is a key of the result dictionary *)
Lemma supplied_in_result : forall c r n w, snd (wc_ref c) = WOk r -> caller_gives c n w -> In n (keys r).
Proof.
  intros c r n w H G. destruct (wc_ok_inv _ _ H) as (xs & l12 & l3 & A & F12 & F3 & ->).
  destruct (gives_arrival _ _ _ _ A G) as [x [Ix Ex]].
  apply keys_dsets_In. left. unfold keys. rewrite map_app. apply in_or_app. left. fold (keys l12).
  rewrite (item_ok_keys _ _ F12), map_map. apply in_map_iff. exists x. split; [|assumption].
  unfold titem. cbn [fst]. now rewrite Ex.
Qed.

(* ... and, the names of one call being pairwise distinct, it carries the output of that argument's own step *)
Lemma supplied_result : forall c r xs x, snd (wc_ref c) = WOk r -> arrival c = Some xs ->
  NoDup (map (fun y : tagged => fst (snd y)) xs) -> In x xs ->
  exists v, snd (snd (titem x)) = WOk v /\ dget (fst (snd x)) r = Some v.
Proof.
  intros c r xs x H A ND Ix. destruct (wc_ok_inv _ _ H) as (xs' & l12 & l3 & A' & F12 & F3 & ->).
  rewrite A in A'. injection A' as <-.
  destruct (Forall2_in_l _ _ _ _ _ (titem x) F12 (in_map _ _ _ Ix)) as [[k v] [Ikv [Hk Hv]]].
  cbn [fst snd] in Hk, Hv. unfold titem in Hk. cbn [fst] in Hk. subst k.
  exists v. split; [exact Hv|]. rewrite dsets_app, dget_dsets_notin.
  - apply dget_dsets_in; [|assumption]. rewrite (item_ok_keys _ _ F12), map_map. exact ND.
  - rewrite (item_ok_keys _ _ F3). unfold ValidateRef.uitems. rewrite map_map. cbn [fst]. intro U.
    apply in_map_iff in U. destruct U as [p [E Ip]]. apply unused_In in Ip. destruct Ip as [Ip N]. apply N, In_useds.
    split; [|now apply In_declared]. rewrite E, (item_ok_keys _ _ F12), map_map. apply in_map_iff. exists x. auto.
Qed.

Lemma In_norm : forall mode (r : dict) kv, In kv (norm value is_none mode r) -> In kv r.
Proof. intros [] r kv H; simpl in H; try assumption. apply filter_In in H. tauto. Qed.

Notation vrun := (run value is_none rcfg rr sg env dc).

Lemma run_ref_nv : forall is_async c,
  vrun is_async c =
  (fst (wc_ref c), match snd (wc_ref c) with WOk r => observe value is_none sg (d_mode dc) r | WRaise e pn => FRaise e pn end).
Proof. intros. now apply run_ref. Qed.

Lemma run_body_inv : forall is_async c j b, vrun is_async c = (j, FBody b) ->
  exists r, snd (wc_ref c) = WOk r /\ observe value is_none sg (d_mode dc) r = FBody b.
Proof.
  intros is_async c j b H. rewrite run_ref_nv in H. injection H as _ H.
  destruct (snd (wc_ref c)) as [r|e pn]; [eauto | discriminate].
Qed.

Lemma dget_norm_none : forall mode (r : dict) n, NoDup (keys r) -> dget n (norm value is_none mode r) = None ->
  dget n r = None \/ (mode = KWARGS_WITHOUT_NONE /\ exists v0, dget n r = Some v0 /\ is_none v0 = true).
Proof.
  intros [] r n ND H; cbn in H; auto.
  unfold notnone in H. rewrite (dget_filter_val value (fun v => negb (is_none v)) n r ND) in H.
  destruct (dget n r) as [v0|]; [|now left]. right. split; [reflexivity|]. exists v0. split; [reflexivity|].
  destruct (is_none v0) eqn:E; [reflexivity|]. cbn in H. discriminate.
Qed.

Theorem gate : forall is_async c j b,
  self_guard c = true ->
  vrun is_async c = (j, FBody b) ->
  forall n v, In (n, v) b -> origin c n v.
Proof.
  intros is_async c j b SG H n v I. destruct (run_body_inv _ _ _ _ H) as [r [W O]].
  assert (NDr := result_nodup _ _ W).
  rewrite observe_normal in O by eauto using result_self_ok.
  destruct (pyb value sg (norm value is_none (d_mode dc) r)) as [b'|e] eqn:P; [|discriminate].
  cbn in O. injection O as ->. unfold pyb in P. destruct (negb (s_varkw sg) && _); [discriminate|].
  destruct (fill value (s_params sg) _) as [b0|] eqn:F; [|discriminate]. injection P as <-.
  apply in_app_or in I. destruct I as [I|I].
  - destruct (fill_In _ _ _ _ _ F I) as [I'|[sp [? [? [? Dn]]]]].
    + eapply result_origin; [eassumption | eapply In_norm; eassumption].
    + eapply OSigDefault; eauto. destruct (dget_norm_none _ _ _ NDr Dn) as [Dr|[Md [v0 [Dv Nv]]]]; [left | right].
      * intros w' G. apply dget_None_keys in Dr. apply Dr. eapply supplied_in_result; eassumption.
      * split; [assumption|]. exists v0. split; [|assumption]. subst n. eapply result_origin; [eassumption | now apply dget_In].
  - unfold extras in I. apply filter_In in I. eapply result_origin; [eassumption | eapply In_norm; apply I].
Qed.

(* ---------- C12: any rejection raises before the body ---------- *)
Lemma run_raise_of_wc : forall is_async c e pn, snd (wc_ref c) = WRaise e pn ->
  snd (vrun is_async c) = FRaise e pn.
Proof. intros. rewrite run_ref_nv. cbn [snd]. now rewrite H. Qed.

Lemma run_no_body_of_wc : forall is_async c, (forall r, snd (wc_ref c) <> WOk r) ->
  exists e pn, snd (vrun is_async c) = FRaise e pn.
Proof.
  intros is_async c H. destruct (snd (wc_ref c)) as [r|e pn] eqn:W; [now destruct (H r)|].
  exists e, pn. now apply run_raise_of_wc.
Qed.

Theorem rejection_no_body : forall is_async c n w p,
  caller_gives c n w -> lookup_param value dc n = Some p ->
  (forall v, spec_param value is_none p w <> VPass v) ->
  exists e pn, snd (vrun is_async c) = FRaise e pn.
Proof.
  intros is_async c n w p G L R. apply run_no_body_of_wc. intros r W.
  destruct (wc_ok_inv _ _ W) as (xs & l12 & l3 & A & F12 & _ & _).
  destruct (gives_arrival _ _ _ _ A G) as [x [Ix Ex]].
  destruct (Forall2_in_l _ _ _ _ _ (titem x) F12 (in_map _ _ _ Ix)) as [kv [_ [_ Hv]]].
  unfold titem in Hv. rewrite Ex in Hv. cbn [fst snd] in Hv. unfold ValidateRef.step_m in Hv. rewrite L, pv_spec in Hv.
  apply of_verdict_ok in Hv. now apply (R (snd kv)).
Qed.

(* the first failing step wins: its exception leaves, nothing behind it has been executed *)
Theorem first_failure_arrival : forall is_async c pre x post e pn,
  arrival c = Some (pre ++ x :: post) ->
  Forall (fun y => exists v, snd (snd (titem y)) = WOk v) pre ->
  snd (snd (titem x)) = WRaise e pn ->
  vrun is_async c = (flat_map (fun y => fst (snd (titem y))) pre ++ fst (snd (titem x)), FRaise e pn).
Proof.
  intros is_async c pre x post e pn A Hpre Hm. rewrite run_ref_nv, (wc_ref_arrival _ _ A), map_app. cbn [map].
  rewrite (seqm_first_failure (map titem pre) (titem x) (map titem post) e pn); [|apply Forall_map; exact Hpre | exact Hm].
  cbn [mbind fst snd]. rewrite flat_map_concat_map, map_map, <- flat_map_concat_map. reflexivity.
Qed.

(* the first rejection wins: its exception leaves, no validator behind it has been called *)
Theorem first_rejection : forall is_async c pre x post p,
  arrival c = Some (pre ++ x :: post) ->
  Forall (fun y => exists v, snd (snd (titem y)) = WOk v) pre ->
  lookup_param value dc (fst (snd x)) = Some p ->
  spec_param value is_none p (snd (snd x)) = VReject ->
  vrun is_async c =
  (flat_map (fun y => fst (snd (titem y))) pre ++ spec_journal value is_none p (snd (snd x)),
   FRaise (p_exc p) (Some (fst (snd x)))).
Proof.
  intros is_async c pre x post p A Hpre L R.
  assert (Hm : snd (snd (titem x)) = WRaise (p_exc p) (Some (fst (snd x)))).
  { unfold titem. cbn [snd]. unfold ValidateRef.step_m. rewrite L, pv_spec, R. cbn. now rewrite (lookup_param_name _ _ _ _ L). }
  assert (Hj : fst (snd (titem x)) = spec_journal value is_none p (snd (snd x))).
  { unfold titem. cbn [snd]. unfold ValidateRef.step_m. now rewrite L, pv_journal. }
  rewrite (first_failure_arrival is_async c pre x post _ _ A Hpre Hm), Hj. reflexivity.
Qed.

Lemma seqm_all_ok : forall (items : list (name * M value)) l, Forall2 item_ok items l ->
  seqm items = (flat_map (fun it : name * M value => fst (snd it)) items, WOk l).
Proof.
  induction 1 as [|[k m] [k' v] items l [Hk Hv] _ IH]; [reflexivity|].
  cbn [ValidateRef.seqm flat_map fst snd] in *. subst k'. rewrite IH. destruct m as [j r]. cbn [snd] in Hv. subst r.
  unfold mbind, ret. now rewrite app_nil_r.
Qed.

Lemma useds_keys : forall l l' : dict, keys l = keys l' -> useds l = useds l'.
Proof.
  intros l l' E. unfold ValidateRef.useds.
  rewrite (flat_map_concat_map _ l), (flat_map_concat_map _ l'), <- (map_map fst (usedk value dc) l), <- (map_map fst (usedk value dc) l').
  unfold keys in E. now rewrite E.
Qed.

(* ... also in the unused-parameter loop (external source, required, default cascade): every argument passed,
   the Parameters in front of p got their value, the step of p fails *)
Theorem first_failure_unused : forall is_async c xs pre p post e pn,
  arrival c = Some xs ->
  Forall (fun y => exists v, snd (snd (titem y)) = WOk v) xs ->
  unused_params (useds (map snd xs)) = pre ++ p :: post ->
  Forall (fun q => exists v, snd (u_m q) = WOk v) pre ->
  snd (u_m p) = WRaise e pn ->
  vrun is_async c =
  (flat_map (fun y => fst (snd (titem y))) xs ++ flat_map (fun q => fst (u_m q)) pre ++ fst (u_m p), FRaise e pn).
Proof.
  intros is_async c xs pre p post e pn A Hxs U Hpre Hp. rewrite run_ref_nv, (wc_ref_arrival _ _ A).
  assert (exists l12, Forall2 item_ok (map titem xs) l12) as [l12 F12].
  { clear A U. induction xs as [|x xs IH]; [exists []; constructor|]. inversion Hxs as [|? ? [v Hv] Hxs']; subst.
    destruct (IH Hxs') as [l F]. exists ((fst (snd x), v) :: l). constructor; [split; [reflexivity | exact Hv] | exact F]. }
  rewrite (seqm_all_ok _ _ F12). cbn [mbind]. unfold ValidateRef.tail_m.
  assert (Ek : useds l12 = useds (map snd xs)).
  { apply useds_keys. rewrite (item_ok_keys _ _ F12). unfold keys. now rewrite !map_map. }
  rewrite Ek, U. unfold ValidateRef.uitems. rewrite map_app. cbn [map].
  rewrite (seqm_first_failure (map (fun q => (p_name q, u_m q)) pre) (p_name p, u_m p) _ e pn);
    [|apply Forall_map; exact Hpre | exact Hp].
  cbn [mbind fst snd]. rewrite (flat_map_concat_map _ (map _ pre)), map_map, <- flat_map_concat_map.
  rewrite (flat_map_concat_map _ (map titem xs)), map_map, <- flat_map_concat_map. reflexivity.
Qed.

(* an exception that names a parameter stems from that parameter's own Parameter *)
Definition rejected_here (c : call value) (p : param) : Prop :=
  (exists w, (caller_gives c (p_name p) w \/ external_gives p w) /\ spec_param value is_none p w = VReject)
  \/ (spec_required value p = true /\ forall w, ~ caller_gives c (p_name p) w).

Lemma pv_raise_named : forall (p : param) w e n, snd (PV p w) = WRaise e (Some n) ->
  e = p_exc p /\ n = p_name p /\ spec_param value is_none p w = VReject.
Proof.
  intros p w e n H. rewrite pv_spec in H. destruct (spec_param value is_none p w); cbn in H; try discriminate.
  injection H as <- <-. auto.
Qed.

Theorem raise_names_parameter : forall is_async c e n,
  snd (vrun is_async c) = FRaise e (Some n) ->
  exists p, In p (d_params dc) /\ p_name p = n /\ e = p_exc p /\ rejected_here c p.
Proof.
  intros is_async c e n H. rewrite run_ref_nv in H. cbn [snd] in H.
  destruct (snd (wc_ref c)) as [r|e' pn] eqn:W.
  - unfold observe in H. destruct (conv_m value is_none sg (d_mode dc) r). destruct (py_bind value sg l d); discriminate.
  - injection H as -> ->.
    assert (Step : forall pos k w, caller_gives c k w -> snd (step_m pos k w) = WRaise e (Some n) ->
              exists p, In p (d_params dc) /\ p_name p = n /\ e = p_exc p /\ rejected_here c p).
    { intros pos k w G S. unfold ValidateRef.step_m in S. destruct (lookup_param value dc k) as [p|] eqn:L.
      - destruct (pv_raise_named _ _ _ _ S) as (-> & -> & R). exists p.
        rewrite <- (lookup_param_name _ _ _ _ L) in G.
        repeat split; eauto using lookup_param_In. left. eauto.
      - unfold undeclared_m in S. destruct (d_strict dc && _); discriminate. }
    destruct (arrival c) as [xs|] eqn:A.
    + rewrite (wc_ref_arrival _ _ A) in W. apply mbind_raise_inv in W. destruct W as [W|[l12 [W1 W]]].
      * apply seqm_raise_inv in W. destruct W as [it [I S]]. apply in_map_iff in I. destruct I as [x [<- Ix]].
        eapply Step; [eapply arrival_gives; eassumption | exact S].
      * unfold ValidateRef.tail_m in W. apply mbind_raise_inv in W. destruct W as [W|[l3 [_ W]]].
        -- apply seqm_raise_inv in W. destruct W as [it [I S]]. apply in_map_iff in I. destruct I as [p [<- Ip]].
           cbn [snd] in S. apply seqm_ok in W1.
           assert (Abs := absent_of_unused _ _ _ _ A W1 Ip). apply unused_In in Ip. destruct Ip as [Ip _].
           assert (C : snd (cascade_m value sg p) = WRaise e (Some n) ->
                   exists p, In p (d_params dc) /\ p_name p = n /\ e = p_exc p /\ rejected_here c p).
           { unfold cascade_m. rewrite req_spec. destruct (spec_required value p) eqn:Rq.
             - cbn. intro X. injection X as <- <-. exists p. repeat split; auto. right. auto.
             - destruct (p_default p); [discriminate|]. destruct (sig_default value sg (p_name p)); discriminate. }
           unfold ValidateRef.u_m in S. destruct (p_ext p) as [x|] eqn:E; [|auto].
           destruct (e_has x) eqn:Has; [|auto]. destruct (e_load x) as [w|y] eqn:Ld; [|discriminate].
           destruct (pv_raise_named _ _ _ _ S) as (-> & -> & R). exists p. repeat split; auto.
           left. exists w. split; [right; exists x; auto | assumption].
        -- apply mbind_raise_inv in W. destruct W as [W|[[] [_ W]]]; [|discriminate].
           unfold flask_m in W. destruct (d_strict dc && w_flask_installed env); [|discriminate].
           destruct (all_flask_json value dc); [|discriminate]. destruct (w_request env) as [rq|]; [|discriminate].
           destruct (r_is_json rq && _); discriminate.
    + (* bind_partial failed: only the keyword loop can have named a parameter *)
      unfold arrival in A. unfold ValidateRef.wc_ref in W. destruct (d_ignore_input dc) eqn:Ig; [discriminate|].
      destruct (bind_partial value sg (c_args c)) as [[bound star]|e0]; [discriminate|].
      apply mbind_raise_inv in W. destruct W as [W|[l1 [_ W]]]; [|discriminate].
      apply seqm_raise_inv in W. destruct W as [it [I S]]. unfold aitems in I. apply in_map_iff in I.
      destruct I as [[k w] [<- Ik]]. cbn [fst snd] in S.
      eapply Step; [|exact S]. split; [assumption | apply in_or_app; now left].
Qed.

(* ---------- C12: strict ---------- *)
Lemma step_undeclared_strict : forall pos k w,
  d_strict dc = true -> declared value dc k = false -> (pos = false \/ k <> self_name) ->
  snd (step_m pos k w) = WRaise TooManyArgumentsC None.
Proof.
  intros pos k w S D Hk. unfold ValidateRef.step_m. rewrite lookup_param_declared in D.
  destruct (lookup_param value dc k); [discriminate|]. unfold undeclared_m. rewrite S.
  destruct Hk as [->|Hk]; [reflexivity|]. apply Nat.eqb_neq in Hk. rewrite Hk, andb_false_r. reflexivity.
Qed.

Theorem strict_no_body : forall is_async c x xs,
  d_strict dc = true -> arrival c = Some xs -> In x xs ->
  declared value dc (fst (snd x)) = false -> (fst x = false \/ fst (snd x) <> self_name) ->
  exists e pn, snd (vrun is_async c) = FRaise e pn.
Proof.
  intros is_async c x xs S A I D Hk. apply run_no_body_of_wc. intros r W.
  destruct (wc_ok_inv _ _ W) as (xs' & l12 & l3 & A' & F12 & _ & _). rewrite A in A'. injection A' as <-.
  destruct (Forall2_in_l _ _ _ _ _ (titem x) F12 (in_map _ _ _ I)) as [kv [_ [_ Hv]]].
  unfold titem in Hv. cbn [snd] in Hv. rewrite step_undeclared_strict in Hv by assumption. discriminate.
Qed.

(* if no declared Parameter rejects its value, the exception is TooManyArguments *)
Theorem strict_too_many : forall is_async c x xs,
  d_strict dc = true -> arrival c = Some xs -> In x xs ->
  declared value dc (fst (snd x)) = false -> (fst x = false \/ fst (snd x) <> self_name) ->
  (forall y p, In y xs -> lookup_param value dc (fst (snd y)) = Some p ->
               exists v, spec_param value is_none p (snd (snd y)) = VPass v) ->
  snd (vrun is_async c) = FRaise TooManyArgumentsC None.
Proof.
  intros is_async c x xs S A I D Hk Pass.
  destruct (strict_no_body is_async c x xs S A I D Hk) as [e [pn R]]. rewrite R.
  rewrite run_ref_nv in R. cbn [snd] in R. destruct (snd (wc_ref c)) as [r|e' pn'] eqn:W.
  - exfalso. destruct (wc_ok_inv _ _ W) as (xs' & l12 & l3 & A' & F12 & _ & _). rewrite A in A'. injection A' as <-.
    destruct (Forall2_in_l _ _ _ _ _ (titem x) F12 (in_map _ _ _ I)) as [kv [_ [_ Hv]]].
    unfold titem in Hv. cbn [snd] in Hv. rewrite step_undeclared_strict in Hv by assumption. discriminate.
  - injection R as <- <-. rewrite (wc_ref_arrival _ _ A) in W. apply mbind_raise_inv in W.
    destruct W as [W|[l12 [W1 _]]].
    + apply seqm_raise_inv in W. destruct W as [it [Iit Sit]]. apply in_map_iff in Iit. destruct Iit as [y [<- Iy]].
      unfold titem in Sit. cbn [snd] in Sit. unfold ValidateRef.step_m in Sit.
      destruct (lookup_param value dc (fst (snd y))) as [p|] eqn:L.
      * destruct (Pass y p Iy L) as [v Hv]. rewrite pv_spec, Hv in Sit. discriminate.
      * unfold undeclared_m in Sit. destruct (d_strict dc && _); [|discriminate]. cbn in Sit. now injection Sit as <- <-.
    + exfalso. apply seqm_ok in W1.
      destruct (Forall2_in_l _ _ _ _ _ (titem x) W1 (in_map _ _ _ I)) as [kv [_ [_ Hv]]].
      unfold titem in Hv. cbn [snd] in Hv. rewrite step_undeclared_strict in Hv by assumption. discriminate.
Qed.

(* ---------- C12: required / None / missing / defaults ---------- *)
Theorem required_none_rejected : forall (p : param) w,
  spec_required value p = true -> is_none w = true ->
  PV p w = ([], WRaise (p_exc p) (Some (p_name p))).
Proof. intros p w R N. unfold param_validate. now rewrite N, req_spec, R. Qed.

Theorem optional_none_passes_unvalidated : forall (p : param) w,
  spec_required value p = false -> is_none w = true -> PV p w = ([], WOk w).
Proof. intros p w R N. unfold param_validate. now rewrite N, req_spec, R. Qed.

Definition no_external (p : param) : Prop :=
  match p_ext p with Some e => e_has e = false | None => True end.

Lemma u_m_cascade : forall p, no_external p -> u_m p = cascade_m value sg p.
Proof.
  intros p H. unfold ValidateRef.u_m, no_external in *. destruct (p_ext p) as [e|]; [|reflexivity]. now rewrite H.
Qed.

Theorem missing_cascade : forall p, no_external p ->
  u_m p = if spec_required value p then ([], WRaise (p_exc p) (Some (p_name p)))
          else match p_default p with
               | Some d => ([], WOk d)
               | None => match sig_default value sg (p_name p) with
                         | Some d => ([], WOk d)
                         | None => ([], WRaise ValidateExceptionC None)
                         end
               end.
Proof.
  intros p H. rewrite (u_m_cascade _ H). unfold cascade_m. rewrite req_spec.
  destruct (spec_required value p); [reflexivity|]. destruct (p_default p); [reflexivity|].
  destruct (sig_default value sg (p_name p)); reflexivity.
Qed.

(* a declared Parameter the caller does not supply is handled by the unused-parameter loop *)
Lemma missing_is_unused : forall c xs l12 p,
  arrival c = Some xs -> Forall2 item_ok (map titem xs) l12 -> In p (d_params dc) ->
  (forall w, ~ caller_gives c (p_name p) w) -> In p (unused_params (useds l12)).
Proof.
  intros c xs l12 p A F I Abs. apply unused_In. split; [assumption|]. intro U. apply In_useds in U. destruct U as [K _].
  rewrite (item_ok_keys _ _ F), map_map in K. apply in_map_iff in K. destruct K as [x [E Ix]].
  apply (Abs (snd (snd x))). rewrite <- E. unfold titem. cbn [fst]. eapply arrival_gives; eassumption.
Qed.

Theorem missing_value_no_body : forall is_async c p,
  In p (d_params dc) -> (forall w, ~ caller_gives c (p_name p) w) -> no_external p ->
  (spec_required value p = true \/ (p_default p = None /\ sig_default value sg (p_name p) = None)) ->
  exists e pn, snd (vrun is_async c) = FRaise e pn.
Proof.
  intros is_async c p I Abs NE Hp. apply run_no_body_of_wc. intros r W.
  destruct (wc_ok_inv _ _ W) as (xs & l12 & l3 & A & F12 & F3 & _).
  assert (U := missing_is_unused _ _ _ _ A F12 I Abs).
  destruct (Forall2_in_l _ _ _ _ _ (p_name p, u_m p) F3 (in_map _ _ _ U)) as [kv [_ [_ Hv]]].
  cbn [snd] in Hv. rewrite (missing_cascade _ NE) in Hv.
  destruct Hp as [Rq|[D S]]; [now rewrite Rq in Hv|].
  rewrite D, S in Hv. destruct (spec_required value p); discriminate.
Qed.

(* the value the unused-parameter loop stores for a missing parameter reaches the dictionary unchanged when the
   Parameter names are pairwise distinct *)
Lemma unused_names_nodup : forall used, NoDup (map (@p_name value) (d_params dc)) ->
  NoDup (map (@p_name value) (unused_params used)).
Proof.
  intros used. unfold ValidateRef.unused_params. induction (d_params dc) as [|p ps IH]; intro ND; [constructor|].
  inversion ND as [|? ? Hn ND']; subst. cbn [filter]. destruct (negb (mem (p_name p) used)); [|auto].
  cbn [map]. constructor; [|auto]. intro H. apply Hn. apply in_map_iff in H. destruct H as [q [E Iq]].
  apply filter_In in Iq. rewrite <- E. apply in_map. tauto.
Qed.

Theorem missing_result : forall c r p v,
  NoDup (map (@p_name value) (d_params dc)) ->
  snd (wc_ref c) = WOk r -> In p (d_params dc) -> (forall w, ~ caller_gives c (p_name p) w) ->
  snd (u_m p) = WOk v -> dget (p_name p) r = Some v.
Proof.
  intros c r p v ND W I Abs Hv. destruct (wc_ok_inv _ _ W) as (xs & l12 & l3 & A & F12 & F3 & ->).
  assert (U := missing_is_unused _ _ _ _ A F12 I Abs).
  destruct (Forall2_in_l _ _ _ _ _ (p_name p, u_m p) F3 (in_map _ _ _ U)) as [[k v'] [Ikv [Hk Hv']]].
  cbn [fst snd] in *. subst k. rewrite Hv in Hv'. injection Hv' as <-.
  rewrite dsets_app. apply dget_dsets_in; [|assumption].
  rewrite (item_ok_keys _ _ F3). unfold ValidateRef.uitems. rewrite map_map. cbn [fst].
  now apply unused_names_nodup.
Qed.

(* the step of the unused-parameter loop, spelled out: external source first, then required / default cascade *)
Definition cascade_outcome (p : param) : M value :=
  if spec_required value p then ([], WRaise (p_exc p) (Some (p_name p)))
  else match p_default p with
       | Some d => ([], WOk d)
       | None => match sig_default value sg (p_name p) with
                 | Some d => ([], WOk d)
                 | None => ([], WRaise ValidateExceptionC None)
                 end
       end.

Theorem unused_outcome : forall p,
  u_m p = match p_ext p with
          | Some x => if e_has x then match e_load x with Ok w => PV p w | Raise y => ([], WRaise y None) end
                      else cascade_outcome p
          | None => cascade_outcome p
          end.
Proof.
  intro p. assert (C : cascade_m value sg p = cascade_outcome p).
  { unfold cascade_m, cascade_outcome. rewrite req_spec. destruct (spec_required value p); [reflexivity|].
    destruct (p_default p); [reflexivity|]. destruct (sig_default value sg (p_name p)); reflexivity. }
  unfold ValidateRef.u_m. rewrite C. destruct (p_ext p) as [x|]; [|reflexivity]. destruct (e_has x); [|reflexivity].
  destruct (e_load x); reflexivity.
Qed.

(* more positionals than the function has positional parameters (no star-args): signature.bind_partial fails, the wrapper
   reports ValidateException - the base class of TooManyArguments - and the body does not run *)
Theorem too_many_positionals : forall is_async c,
  d_ignore_input dc = false -> List.length (pos_params value sg) < List.length (c_args c) ->
  (forall kw, In kw (c_kwargs c) -> exists v, snd (step_m false (fst kw) (snd kw)) = WOk v) ->
  snd (vrun is_async c) = FRaise ValidateExceptionC None.
Proof.
  intros is_async c Ig L Hk. rewrite run_ref_nv. cbn [snd]. unfold ValidateRef.wc_ref. rewrite Ig, snd_mbind.
  assert (exists l, snd (seqm (aitems value is_none dc false (c_kwargs c))) = WOk l) as [l E].
  { unfold aitems. induction (c_kwargs c) as [|kw ks IH]; [exists []; reflexivity|].
    destruct (Hk kw (or_introl eq_refl)) as [v Hv]. destruct IH as [l El]; [intros; apply Hk; now right|].
    exists ((fst kw, v) :: l). cbn [map ValidateRef.seqm]. rewrite snd_mbind, Hv, snd_mbind. unfold aitems in El. now rewrite El. }
  rewrite E. unfold bind_partial. rewrite NV. apply Nat.ltb_lt in L. now rewrite L.
Qed.

End Gate.
