(* C16: "exactly once" counted per generator over nested and repeated use. *)
From Coq Require Import List Arith Bool Lia.
From PV Require Import Base.Exn Model.Generator Model.Contextlib Model.SafeCtx Model.CtxEval Spec.CtxSpec
  Gen.CtxShape Proofs.CtxCore Proofs.CtxNest Proofs.CtxEdge.
Import ListNotations.

Lemma cleanups_app : forall id a b, cleanups_of id (a ++ b) = cleanups_of id a + cleanups_of id b.
Proof. intros. unfold cleanups_of. rewrite filter_app, app_length. reflexivity. Qed.

Lemma spec_nest_count : forall var us tag o x0 id,
  cleanups_of id (fst (spec_nest var us tag o x0)) = reached_count us id.
Proof.
  intros var us tag o. induction us as [|u us IH]; intros x0 id.
  - reflexivity.
  - cbn [spec_nest reached_count]. destruct (u_setup u).
    + specialize (IH (u_val u) id). destruct (spec_nest var us tag o (u_val u)) as [j l]. cbn [fst] in *.
      change (ev_setup u :: j ++ [ev_cleanup u]) with ([ev_setup u] ++ j ++ [ev_cleanup u]).
      rewrite !cleanups_app, IH. unfold cleanups_of, ev_setup, ev_cleanup. cbn [filter is_cleanup_of].
      destruct (Nat.eqb (u_id u) id); cbn [List.length]; lia.
    + reflexivity.
    + reflexivity.
Qed.

Lemma nested_count : forall var us tag o x0 w id,
  let r := with_nest var (P var) us (simple_body tag o) x0 w in
  cleanups_of id (journal (snd r)) = cleanups_of id (journal w) + reached_count us id.
Proof.
  intros. subst r. destruct (nested_spec var us tag o x0 w) as [Hj _]. cbv zeta in Hj.
  rewrite Hj, cleanups_app, spec_nest_count. reflexivity.
Qed.

Lemma spec_seq_count : forall var items id,
  cleanups_of id (fst (spec_seq var items)) = reached_count_seq items id.
Proof.
  intros var items id. induction items as [|[us o] items IH].
  - reflexivity.
  - cbn [spec_seq fold_right reached_count_seq fst]. fold (spec_seq var items).
    set (tag := match us with u :: _ => u_id u | [] => 0 end).
    pose proof (spec_nest_count var us tag o 0 id) as H.
    destruct (spec_nest var us tag o 0) as [j l]. cbn [fst] in *.
    rewrite cleanups_app, H. fold (reached_count_seq items id). rewrite <- IH. reflexivity.
Qed.

Lemma repeated_count : forall var items w id,
  let r := with_seq var (P var) items w in
  cleanups_of id (journal (snd r)) = cleanups_of id (journal w) + reached_count_seq items id.
Proof.
  intros. subst r. destruct (repeated_spec var items w) as [Hj _]. cbv zeta in Hj.
  rewrite Hj, cleanups_app, spec_seq_count. reflexivity.
Qed.

Lemma reached_count_absent : forall us id, ~ In id (map u_id us) -> reached_count us id = 0.
Proof.
  induction us as [|u us IH]; intros id Hn; [reflexivity|].
  cbn [reached_count]. cbn [map In] in Hn. destruct (u_setup u); try reflexivity.
  destruct (Nat.eqb (u_id u) id) eqn:E.
  - apply Nat.eqb_eq in E. exfalso. apply Hn. left. exact E.
  - rewrite IH; [reflexivity|]. intro H. apply Hn. right. exact H.
Qed.

Lemma reached_count_le_1 : forall us id, NoDup (map u_id us) -> reached_count us id <= 1.
Proof.
  induction us as [|u us IH]; intros id Hd; [cbn; lia|].
  cbn [map] in Hd. inversion Hd as [|x l Hx Hd']; subst.
  cbn [reached_count]. destruct (u_setup u); try lia.
  destruct (Nat.eqb (u_id u) id) eqn:E.
  - apply Nat.eqb_eq in E. subst id. rewrite reached_count_absent by exact Hx. lia.
  - specialize (IH id Hd'). lia.
Qed.

Definition setup_ok (u : use_t) : bool := match u_setup u with SetupOk => true | _ => false end.

Lemma reached_count_all_ok : forall us u,
  NoDup (map u_id us) -> forallb setup_ok us = true -> In u us -> reached_count us (u_id u) = 1.
Proof.
  induction us as [|v us IH]; intros u Hd Hok Hin; [destruct Hin|].
  cbn [map] in Hd. inversion Hd as [|x l Hx Hd']; subst.
  cbn [forallb] in Hok. apply andb_true_iff in Hok as [Hv Hok].
  cbn [reached_count]. unfold setup_ok in Hv. destruct (u_setup v); try discriminate.
  destruct Hin as [->|Hin].
  - rewrite Nat.eqb_refl, reached_count_absent by exact Hx. reflexivity.
  - destruct (Nat.eqb (u_id v) (u_id u)) eqn:E.
    + apply Nat.eqb_eq in E. exfalso. apply Hx. rewrite E. apply in_map. exact Hin.
    + rewrite (IH u Hd' Hok Hin). reflexivity.
Qed.

Lemma nested_once : forall var us tag o x0 u,
  NoDup (map u_id us) -> In u us ->
  let n := cleanups_of (u_id u) (journal (snd (with_nest var (P var) us (simple_body tag o) x0 w0))) in
  n <= 1 /\ (forallb setup_ok us = true -> n = 1).
Proof.
  intros var us tag o x0 u Hd Hin n. subst n. rewrite (nested_count var us tag o x0 w0 (u_id u)).
  change (cleanups_of (u_id u) (journal w0)) with 0. cbn [plus]. split.
  - apply reached_count_le_1; exact Hd.
  - intro Hok. apply reached_count_all_ok; assumption.
Qed.
