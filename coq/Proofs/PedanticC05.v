(* C05: keyword-only discipline.  Lemmas about assert_uses_kwargs and the "unfilled" test of the
   first checking pass, for every configuration with pc_good.                                  *)
From Coq Require Import List Arith Bool String Lia.
From PV Require Import Base.Exn Base.Values Base.Ann Base.PyCall Model.CheckerCfg Model.Checker Model.PedanticCfg
  Model.Pedantic Spec.Conforms Spec.PedanticSpec Proofs.PedanticBase.
Import ListNotations.
Open Scope list_scope.

Lemma kw_get_none : forall k kws, mem k (map fst kws) = false -> kw_get k kws = None.
Proof.
  induction kws as [|[j v] kws IH]; simpl; intros H; [reflexivity|].
  apply orb_false_iff in H as [H1 H2]. rewrite H1. auto.
Qed.

Lemma kw_get_some : forall k kws, mem k (map fst kws) = true -> exists v, kw_get k kws = Some v.
Proof.
  induction kws as [|[j v] kws IH]; simpl; intros H; [discriminate|].
  destruct (Nat.eqb k j); [eauto|]. simpl in H. auto.
Qed.

Section C05.
  Variable pc : pedantic_cfg.
  Variable check : ann -> value -> tvenv -> outcome unit * tvenv.
  Variable consumes : ann -> value -> bool.
  Hypothesis good : pc_good pc = true.

  Let G := good_inv pc good.

  (* the exemptions are exactly the ones of the statement, provided the two text flags that enter
     should_have_kwargs say what the signature / the class definition says *)
  Lemma should_have_kwargs_exempt : forall f,
    t_star_args (f_text f) = false -> t_setter (f_text f) = f_setter f ->
    should_have_kwargs pc f = negb (exempt f).
  Proof.
    intros f Hs Ht. rewrite (should_have_kwargs_ref pc good). unfold ref_shk, name_atoms, exempt, is_dunder.
    cbn [at_setter at_wants_args at_starts at_ends at_listed].
    rewrite Hs, Ht, (gf_names pc G).
    generalize (existsb (String.eqb (f_name f)) documented_kwargs_dunders) as l.
    generalize (String.prefix dunder (f_name f)) as p. generalize (ends_with (f_name f) dunder) as e.
    intros e p l. destruct (f_setter f), p, e, l; reflexivity.
  Qed.

  Lemma should_have_kwargs_general : forall f,
    should_have_kwargs pc f =
    negb (t_setter (f_text f) || t_star_args (f_text f))
    && (negb (is_dunder (f_name f)) || existsb (String.eqb (f_name f)) documented_kwargs_dunders).
  Proof.
    intros f. rewrite (should_have_kwargs_ref pc good). unfold ref_shk, name_atoms, is_dunder.
    cbn [at_setter at_wants_args at_starts at_ends at_listed].
    now rewrite (gf_names pc G).
  Qed.

  (* a positional argument is left after the stripping: PedanticCallWithArgsException, nothing ran *)
  Lemma positional_rejected : forall f c bd,
    should_have_kwargs pc f = true -> args_without_self pc f c <> [] ->
    run pc check consumes f c bd = (Raise PCallWithArgsC, []).
  Proof.
    intros f c bd Hs Ha. rewrite (run_is_ref pc check consumes good). unfold run_ref.
    assert (Hw : wargs c <> []).
    { intros E. apply Ha. rewrite (args_without_self_ref pc good), E. now destruct (strips_first pc f). }
    unfold instance_of. destruct (wargs c) as [|x w] eqn:Ew; [congruence|].
    assert (E : assert_uses_kwargs pc f c = Raise PCallWithArgsC).
    { rewrite (assert_uses_kwargs_ref pc good), Hs. destruct (args_without_self pc f c); [congruence|reflexivity]. }
    destruct (is_instance_method f); now rewrite E.
  Qed.

  Lemma positional_rejected_rk : forall f c bd,
    should_have_kwargs pc f = true -> args_without_self pc f c <> [] ->
    run_rk pc check consumes f c bd = (Raise PCallWithArgsC, []).
  Proof.
    intros f c bd Hs Ha. rewrite (run_rk_is_ref pc check consumes good). unfold run_rk_ref.
    assert (Hw : wargs c <> []).
    { intros E. apply Ha. rewrite (args_without_self_ref pc good), E. now destruct (strips_first pc f). }
    unfold instance_of. destruct (wargs c) as [|x w] eqn:Ew; [congruence|].
    assert (E : assert_uses_kwargs pc f c = Raise PCallWithArgsC).
    { rewrite (assert_uses_kwargs_ref pc good), Hs. destruct (args_without_self pc f c); [congruence|reflexivity]. }
    destruct (is_instance_method f); now rewrite E.
  Qed.

  Lemma args_left : forall f c,
    c_args c <> [] -> (strips_first pc f = false \/ 2 <= List.length (wargs c)) -> args_without_self pc f c <> [].
  Proof.
    intros f c Ha H. rewrite (args_without_self_ref pc good). destruct (strips_first pc f) eqn:Es.
    - destruct H as [H|H]; [discriminate|]. destruct (wargs c) as [|x [|y w]]; simpl in *; try lia. discriminate.
    - unfold wargs. destruct (c_recv c); simpl; [assumption|discriminate].
  Qed.

  (* a required parameter that no keyword supplies: when positional values may not fill it, the first pass raises *)
  Definition unfilled_param (c : call) (p : param) : bool :=
    match p_default p with Some _ => false | None => negb (mem (p_name p) (kw_names c)) end.

  Lemma pass_named_unfilled : forall f c inst ps idx st,
    should_have_kwargs pc f = true -> existsb (unfilled_param c) ps = true ->
    exists e, pass_named pc check consumes f c inst ps idx st = Raise e.
  Proof.
    intros f c inst ps. induction ps as [|p ps IH]; intros idx st Hs Hu; [discriminate|].
    simpl in Hu. cbn [pass_named].
    destruct (p_ann p) as [a|]; [|eauto].
    assert (Hpos : takes_positional p && negb (should_have_kwargs pc f) && Nat.ltb idx (List.length (wargs c)) = false)
      by (rewrite Hs; simpl; now rewrite andb_false_r).
    rewrite Hpos.
    apply orb_true_iff in Hu as [Hu|Hu].
    - unfold unfilled_param in Hu. destruct (p_default p) as [d|]; [discriminate|].
      apply negb_true_iff in Hu. unfold kw_names in Hu. rewrite (kw_get_none _ _ Hu). destruct (takes_keyword p); eauto.
    - destruct (if takes_keyword p then kw_get (p_name p) (c_kwargs c) else None) as [v|].
      + match goal with |- context [Exn.bind ?m ?k] => destruct m as [st1|e] end; simpl; eauto.
      + destruct (p_default p) as [d|]; [|eauto].
        match goal with |- context [Exn.bind ?m ?k] => destruct m as [st1|e] end; simpl; eauto.
  Qed.

  Definition some_required_unfilled (f : fn) (c : call) : bool :=
    existsb (unfilled_param c) (filter (fun p => negb (is_star p)) (params_without_self f)).

  Lemma unfilled_never_runs : forall f c bd,
    should_have_kwargs pc f = true -> some_required_unfilled f c = true ->
    snd (run pc check consumes f c bd) = [] /\ exists e, fst (run pc check consumes f c bd) = Raise e.
  Proof.
    intros f c bd Hs Hu. rewrite (run_is_ref pc check consumes good). unfold run_ref.
    destruct (instance_of f c) as [inst|e]; [|simpl; split; eauto].
    destruct (assert_uses_kwargs pc f c) as [u|e]; [|simpl; split; eauto].
    rewrite (args_phase_ref pc check consumes good).
    destruct (pass_named_unfilled f c inst _ (if is_instance_method f then 1 else 0) (astate0) Hs Hu) as [e He].
    assert (E : run_pass pc check consumes f c inst PNamed astate0 = Raise e) by exact He.
    rewrite E. cbn [Exn.bind fst snd]. split; eauto.
  Qed.

  (* ... and what is raised is a PedanticException, when the checker raises nothing else and the class probe of type_vars
     does not fail ('@staticmethod' in the text of a module-level function: K2) *)
  Section Ped.
    Hypothesis check_ped : forall a v tv e, fst (check a v tv) = Raise e -> is_pedantic e = true.

    Lemma pass_named_unfilled_ped : forall f c inst ps, clazz_probe f c inst = Ok tt -> forall idx st,
      should_have_kwargs pc f = true -> existsb (unfilled_param c) ps = true ->
      exists e, pass_named pc check consumes f c inst ps idx st = Raise e /\ is_pedantic e = true.
    Proof.
      intros f c inst ps Hprobe. induction ps as [|p ps IH]; intros idx st Hs Hu; [discriminate|].
      simpl in Hu. cbn [pass_named].
      destruct (p_ann p) as [a|]; [|exists PTypeCheckC; split; reflexivity].
      assert (Hchk : forall v s st1 (k : astate -> outcome astate), (forall st2, exists e, k st2 = Raise e /\ is_pedantic e = true) ->
                exists e, Exn.bind (chk check consumes f c inst a v s st1) k = Raise e /\ is_pedantic e = true).
      { intros v s st1 k Hk. unfold chk. rewrite Hprobe. destruct (check a v (a_tv st1)) as [[uu|e] tv'] eqn:Ec; simpl; [apply Hk|].
        exists e. split; [reflexivity|]. eapply check_ped. rewrite Ec. reflexivity. }
      assert (Hpos : takes_positional p && negb (should_have_kwargs pc f) && Nat.ltb idx (List.length (wargs c)) = false)
        by (rewrite Hs; simpl; now rewrite andb_false_r).
      rewrite Hpos.
      apply orb_true_iff in Hu as [Hu|Hu].
      - unfold unfilled_param in Hu. destruct (p_default p) as [d|]; [discriminate|].
        apply negb_true_iff in Hu. unfold kw_names in Hu. rewrite (kw_get_none _ _ Hu).
        destruct (takes_keyword p); exists PTypeCheckC; split; reflexivity.
      - destruct (if takes_keyword p then kw_get (p_name p) (c_kwargs c) else None) as [v|]; [apply Hchk; intros st2; now apply IH|].
        destruct (p_default p) as [d|]; [apply Hchk; intros st2; now apply IH|].
        exists PTypeCheckC. split; reflexivity.
    Qed.

    Lemma unfilled_never_runs_ped : forall f c bd,
      should_have_kwargs pc f = true -> some_required_unfilled f c = true ->
      (forall inst, instance_of f c = Ok inst -> clazz_probe f c inst = Ok tt) ->
      (is_instance_method f = true -> wargs c <> []) ->
      exists e, run pc check consumes f c bd = (Raise e, []) /\ is_pedantic e = true.
    Proof.
      intros f c bd Hs Hu Hprobe Hinst. rewrite (run_is_ref pc check consumes good). unfold run_ref.
      destruct (instance_of f c) as [inst|e] eqn:Ei.
      - destruct (assert_uses_kwargs pc f c) as [u|e] eqn:Ea.
        + rewrite (args_phase_ref pc check consumes good).
          destruct (pass_named_unfilled_ped f c inst _ (Hprobe inst eq_refl) (if is_instance_method f then 1 else 0) astate0 Hs Hu) as [e [He Hp]].
          assert (E : run_pass pc check consumes f c inst PNamed astate0 = Raise e) by exact He.
          rewrite E. cbn [Exn.bind]. eauto.
        + rewrite (assert_uses_kwargs_ref pc good) in Ea. destruct (should_have_kwargs pc f && _); inversion Ea; subst.
          exists PCallWithArgsC. split; reflexivity.
      - exfalso. unfold instance_of in Ei. destruct (is_instance_method f); [|discriminate].
        destruct (wargs c); [now apply Hinst|discriminate].
    Qed.
  End Ped.
End C05.
