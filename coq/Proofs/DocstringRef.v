(* C19 - the canonical program (Model/Docstring.v: canonical, the term the translator regenerates)
   computes the following plain functional reference: `check canonical = check_ref`.             *)
From Coq Require Import List Bool Arith ZArith String Lia.
From PV Require Import Base.Exn Model.DocstringTyping Model.Docstring.
Import ListNotations.
Open Scope string_scope.
Open Scope list_scope.

(* _parse_documented_type *)
Definition parse_ref (ctx : list string) (od : option dtype) : outcome ty :=
  match od with
  | None => Raise PDocstringC
  | Some d =>
      if contains "typing." (dt_text d) then Raise PDocstringC
      else match eval ctx (dt_expr d) with
           | Ok t => Ok t
           | Raise x => if derives x NameErrorC then Raise PDocstringC
                        else if derives x ExceptionC then Raise PDocstringC else Raise x
           end
  end.

(* _assert_docstring_is_complete *)
Definition complete_ref (ann : list (string * ty)) (doc : docT) : outcome unit :=
  match d_raw doc with
  | RawText =>
      if Nat.eqb (List.length (d_params doc)) (num_taken ann) then
        match d_returns doc, assoc "return" ann with
        | None, Some t => if is_none t then Ok tt else Raise PDocstringC
        | None, None => Ok tt
        | Some _, None => Raise PDocstringC
        | Some _, Some t => if is_none t then Raise PDocstringC else Ok tt
        end
      else Raise PDocstringC
  | _ => Raise PDocstringC
  end.

(* the loop of _check_docstring *)
Fixpoint loop_ref (doc : docT) (ctx : list string) (anns : list (string * ty)) : outcome unit :=
  match anns with
  | [] => Ok tt
  | (k, t) :: r =>
      let ctx' := upd t ++ ctx in
      if is_return k then
        if is_none t then loop_ref doc ctx' r
        else match d_returns doc with
             | None => Raise AttributeErrorC
             | Some [d] =>
                 bind (parse_ref ctx' (Some d)) (fun a => if ty_eqb a t then loop_ref doc ctx' r else Raise PDocstringC)
             | Some _ => Raise PDocstringC
             end
      else match filter (fun p => String.eqb (fst p) k) (d_params doc) with
           | [] => Raise PDocstringC
           | p :: _ =>
               bind (parse_ref ctx' (snd p)) (fun a => if ty_eqb t a then loop_ref doc ctx' r else Raise PDocstringC)
           end
  end.

Definition check_ref (fc : fcase) : outcome unit :=
  bind (complete_ref (f_ann fc) (f_doc fc)) (fun _ => loop_ref (f_doc fc) [] (f_ann fc)).

(* ---------------------------------------------------------------------------------------------- *)
Lemma Zof_eqb : forall a b, Z.eqb (Z.of_nat a) (Z.of_nat b) = Nat.eqb a b.
Proof.
  intros. destruct (Z.eqb_spec (Z.of_nat a) (Z.of_nat b)); destruct (Nat.eqb_spec a b); try reflexivity; lia.
Qed.

Lemma parse_ref_ok : forall ctx od,
  parse_type {| pc_none := Some PDocstringC; pc_guard := Some ("typing.", PDocstringC);
                pc_catch := [(NameErrorC, PDocstringC); (ExceptionC, PDocstringC)] |} ctx od
  = parse_ref ctx od.
Proof.
  intros. destruct od as [d|]; [|reflexivity]. unfold parse_type, parse_ref. cbn [pc_guard pc_catch].
  destruct (contains "typing." (dt_text d)); [reflexivity|].
  destruct (eval ctx (dt_expr d)) as [v|x]; [reflexivity|]. cbn [find fst].
  destruct (derives x NameErrorC); [reflexivity|]. destruct (derives x ExceptionC); reflexivity.
Qed.

Local Arguments Z.of_nat : simpl never.
Local Arguments Z.eqb : simpl never.
Local Arguments Nat.eqb : simpl never.
Local Arguments String.eqb : simpl never.
Local Arguments upd : simpl never.
Local Arguments ty_eqb : simpl never.
Local Arguments parse_type : simpl never.
Local Arguments parse_ref : simpl never.
Local Arguments filter : simpl never.

Lemma complete_ok : forall fc k t s,
  bind (run_stmts fc k t (dp_parse canonical) s (dp_complete canonical)) (fun _ => Ok tt)
  = complete_ref (f_ann fc) (f_doc fc).
Proof.
  intros. unfold complete_ref. cbn. rewrite Zof_eqb.
  destruct (d_raw (f_doc fc)); cbn; try reflexivity.
  destruct (Nat.eqb (List.length (d_params (f_doc fc))) (num_taken (f_ann fc))); cbn; [|reflexivity].
  destruct (d_returns (f_doc fc)); cbn;
    destruct (assoc "return" (f_ann fc)) as [r|]; cbn; try reflexivity; destruct (is_none r); reflexivity.
Qed.

Lemma loop_ok : forall fc anns s,
  bind (run_loop canonical fc s anns) (fun _ => Ok tt) = loop_ref (f_doc fc) (s_ctx s) anns.
Proof.
  intros fc. induction anns as [|[k t] r IH]; intros s; [reflexivity|].
  cbn [run_loop loop_ref]. cbn.
  destruct (is_return k) eqn:K; cbn.
  - destruct (is_none t) eqn:N; cbn.
    + rewrite IH. reflexivity.
    + destruct (d_returns (f_doc fc)) as [l|]; cbn; [|reflexivity].
      destruct l as [|d [|d' l']]; cbn.
      * reflexivity.
      * change (Z.of_nat 2 =? 2)%Z with true. cbn.
        rewrite parse_ref_ok. destruct (parse_ref (upd t ++ s_ctx s) (Some d)) as [a|x]; cbn; [|reflexivity].
        destruct (ty_eqb a t); cbn; [|reflexivity]. rewrite IH. reflexivity.
      * assert (E : Z.eqb (Z.of_nat (S (List.length (d :: d' :: l')))) 2 = false) by (apply Z.eqb_neq; cbn [List.length]; lia).
        cbn [List.length] in E |- *. rewrite E. reflexivity.
  - destruct (filter (fun p => String.eqb (fst p) k) (d_params (f_doc fc))) as [|p ps] eqn:F; cbn; [reflexivity|].
    change (S (Datatypes.length ps) =? 0)%nat with false. cbn.
    rewrite parse_ref_ok. destruct (parse_ref (upd t ++ s_ctx s) (snd p)) as [a|x]; cbn; [|reflexivity].
    destruct (ty_eqb t a); cbn; [|reflexivity]. rewrite IH. reflexivity.
Qed.

Theorem check_canonical : forall fc, check canonical fc = check_ref fc.
Proof.
  intros fc. unfold check, check_ref. cbn [dp_calls_complete canonical].
  rewrite <- (complete_ok fc "" TNone st0).
  destruct (run_stmts fc "" TNone (dp_parse canonical) st0 (dp_complete canonical)) as [s|x]; cbn [bind]; [|reflexivity].
  pose proof (loop_ok fc (f_ann fc) st0) as L. cbn [s_ctx st0] in L. rewrite <- L.
  destruct (run_loop canonical fc st0 (f_ann fc)) as [s'|x]; reflexivity.
Qed.

(* the trigger condition of pedantic.decorator *)
Definition applies_ref (fc : fcase) : bool :=
  f_parser fc && (f_require fc || negb (Nat.eqb (List.length (d_params (f_doc fc))) 0)).

Theorem decorate_canonical : forall fc,
  decorate canonical fc = if applies_ref fc then check_ref fc else Ok tt.
Proof.
  intros fc. unfold decorate, applies_ref. rewrite check_canonical. cbn.
  destruct (f_parser fc); cbn; [|reflexivity].
  destruct (f_require fc); cbn.
  - change (1 =? 0)%Z with false. reflexivity.
  - change (0 =? 0)%Z with true. cbn.
    set (n := List.length (d_params (f_doc fc))).
    assert (E : Z.ltb 0 (Z.of_nat n) = negb (Nat.eqb n 0)).
    { destruct (Z.ltb_spec 0 (Z.of_nat n)); destruct (Nat.eqb_spec n 0); cbn; try reflexivity; lia. }
    rewrite E. reflexivity.
Qed.
