(* C14 - lemmas about the CPython primitives of Model/ValidatorsBase.v:
   - the exact int/float comparison of the model is the order of the extended rationals the
     specification speaks about (for all ints, bools and floats);
   - strip: whitespace-only, decomposition;
   - str(int) / int(str): the decimal printer and the modelled part of the parser are inverse.  *)
From Coq Require Import List ZArith Bool Lia ZifyBool SpecFloat QArith.
From Coq Require Decimal DecimalPos DecimalZ.
From PV Require Import Base.Exn Model.ValidatorsBase Model.ValidatorsRegex Model.Validators Spec.ValidatorsSpec.
Import ListNotations.
Open Scope Z_scope.

(* ---------- numbers ---------------------------------------------------------------------------------- *)
Lemma Qd_num : forall m e, Qnum (Q_of_dyadic m e) = m * 2 ^ Z.max e 0.
Proof.
  intros m [|p|p]; simpl Q_of_dyadic; simpl Qnum.
  - now rewrite Z.mul_1_r.
  - rewrite Z.max_l by lia. reflexivity.
  - rewrite Z.max_r by lia. now rewrite Z.mul_1_r.
Qed.

Lemma Qd_den : forall m e, Zpos (Qden (Q_of_dyadic m e)) = 2 ^ Z.max (- e) 0.
Proof.
  intros m [|p|p]; simpl Q_of_dyadic; simpl Qden.
  - reflexivity.
  - rewrite Z.max_r by lia. reflexivity.
  - rewrite Z.max_l by lia. simpl Z.opp. now rewrite Pos2Z.inj_pow.
Qed.

Lemma compare_scale : forall a b t, 0 <= t -> (a * 2 ^ t ?= b * 2 ^ t) = (a ?= b).
Proof. intros a b t Ht. symmetry. apply Zmult_compare_compat_r. apply Z.lt_gt. now apply Z.pow_pos_nonneg. Qed.

Lemma fin_cmp_Q : forall m1 e1 m2 e2,
  fin_cmp m1 e1 m2 e2 = (Q_of_dyadic m1 e1 ?= Q_of_dyadic m2 e2)%Q.
Proof.
  intros m1 e1 m2 e2. unfold fin_cmp, Qcompare. rewrite !Qd_num, !Qd_den.
  set (k := Z.min e1 e2).
  set (t := Z.max e2 0 + Z.max (- e1) 0 - (e2 - k)).
  assert (Ht : 0 <= t) by (unfold t, k; lia).
  rewrite <- (compare_scale (m1 * 2 ^ (e1 - k)) (m2 * 2 ^ (e2 - k)) t Ht).
  rewrite <- !Z.mul_assoc, <- !Z.pow_add_r by (unfold t, k in *; lia).
  f_equal; f_equal; f_equal; unfold t, k; lia.
Qed.

Definition xr_of (x : xnum) : option xreal :=
  match x with
  | XNan => None
  | XInf s => Some (if s then XRNegInf else XRPosInf)
  | XFin m e => Some (XRFin (Q_of_dyadic m e))
  end.

Lemma real_of_view : forall v, real_of v = match num_view v with Some x => xr_of x | None => None end.
Proof.
  intros [ | b | z | f | | | | | | | ]; try reflexivity. destruct f; reflexivity.
Qed.

Definition not_gt (c : comparison) : bool := match c with Gt => false | _ => true end.

Lemma Qle_bool_cmp : forall p q, Qle_bool p q = not_gt (p ?= q)%Q.
Proof. intros p q. unfold Qle_bool, Qcompare, Z.leb. now destruct (_ ?= _). Qed.

Lemma xr_le_cmp : forall x y rx ry c,
  xr_of x = Some rx -> xr_of y = Some ry -> xcmp x y = Some c -> xr_le rx ry = not_gt c.
Proof.
  intros [|s1|m1 e1] [|s2|m2 e2] rx ry c Hx Hy Hc; simpl in *; try discriminate;
    injection Hx as <-; injection Hy as <-; injection Hc as <-.
  - destruct s1, s2; reflexivity.
  - destruct s1; reflexivity.
  - destruct s2; reflexivity.
  - simpl. now rewrite Qle_bool_cmp, fin_cmp_Q.
Qed.

Lemma fin_cmp_antisym : forall m1 e1 m2 e2, fin_cmp m2 e2 m1 e1 = CompOpp (fin_cmp m1 e1 m2 e2).
Proof. intros. unfold fin_cmp. rewrite (Z.min_comm e2 e1). apply Z.compare_antisym. Qed.

Lemma xcmp_antisym : forall x y, xcmp y x = option_map CompOpp (xcmp x y).
Proof.
  intros [|s1|m1 e1] [|s2|m2 e2]; simpl; try reflexivity.
  - destruct s1, s2; reflexivity.
  - destruct s1; reflexivity.
  - destruct s2; reflexivity.
  - now rewrite fin_cmp_antisym.
Qed.

Lemma xcmp_some : forall x y rx ry, xr_of x = Some rx -> xr_of y = Some ry -> exists c, xcmp x y = Some c.
Proof. intros [|s1|m1 e1] [|s2|m2 e2] rx ry Hx Hy; simpl in *; try discriminate; eauto. Qed.

(* what Min / Max reject, as a function of the three-way comparison value ? bound; None = unordered (NaN),
   which satisfies no bound *)
Definition min_ref (incl : bool) (c : option comparison) : bool :=
  match c with Some Gt => false | Some Eq => negb incl | _ => true end.
Definition max_ref (incl : bool) (c : option comparison) : bool :=
  match c with Some Lt => false | Some Eq => negb incl | _ => true end.

Lemma xcmp_none : forall x y, xr_of x = None \/ xr_of y = None -> xcmp x y = None.
Proof. intros [|s1|m1 e1] [|s2|m2 e2] [H|H]; simpl in *; try discriminate; reflexivity. Qed.

(* for ALL numbers (NaN included): value >= bound (resp. >) exactly when the three-way comparison is not rejected *)
Lemma sat_min_cmp : forall v b x y incl,
  num_view v = Some x -> num_view b = Some y ->
  sat_min b incl v = negb (min_ref incl (xcmp x y)).
Proof.
  intros v b x y incl Vx Vy. unfold sat_min. rewrite !real_of_view, Vx, Vy.
  destruct (xr_of x) as [rx|] eqn:Hx; [|now rewrite (xcmp_none x y (or_introl Hx))].
  destruct (xr_of y) as [ry|] eqn:Hy; [|now rewrite (xcmp_none x y (or_intror Hy))].
  destruct (xcmp_some x y rx ry Hx Hy) as [c Hc]. rewrite Hc.
  assert (Hc' : xcmp y x = Some (CompOpp c)) by (rewrite xcmp_antisym, Hc; reflexivity).
  unfold xr_lt. rewrite (xr_le_cmp y x ry rx _ Hy Hx Hc'), (xr_le_cmp x y rx ry _ Hx Hy Hc).
  destruct incl, c; reflexivity.
Qed.

Lemma sat_max_cmp : forall v b x y incl,
  num_view v = Some x -> num_view b = Some y ->
  sat_max b incl v = negb (max_ref incl (xcmp x y)).
Proof.
  intros v b x y incl Vx Vy. unfold sat_max. rewrite !real_of_view, Vx, Vy.
  destruct (xr_of x) as [rx|] eqn:Hx; [|now rewrite (xcmp_none x y (or_introl Hx))].
  destruct (xr_of y) as [ry|] eqn:Hy; [|now rewrite (xcmp_none x y (or_intror Hy))].
  destruct (xcmp_some x y rx ry Hx Hy) as [c Hc]. rewrite Hc.
  assert (Hc' : xcmp y x = Some (CompOpp c)) by (rewrite xcmp_antisym, Hc; reflexivity).
  unfold xr_lt. rewrite (xr_le_cmp y x ry rx _ Hy Hx Hc'), (xr_le_cmp x y rx ry _ Hx Hy Hc).
  destruct incl, c; reflexivity.
Qed.

(* numbers: is_number v gives a view; not NaN gives a real *)
Lemma number_view : forall v, is_number v = true -> exists x, num_view v = Some x.
Proof. intros [ | b | z | f | | | | | | | ] H; try discriminate; simpl; eauto. Qed.

Lemma view_real : forall v x, num_view v = Some x -> is_nan v = false -> exists r, xr_of x = Some r.
Proof.
  intros [ | b | z | f | | | | | | | ] x H N; try discriminate; injection H as <-; simpl; eauto.
  destruct f; simpl in *; try discriminate; eauto.
Qed.

(* NaN: every comparison is unordered *)
Lemma xcmp_nan_l : forall v x y, num_view v = Some x -> is_nan v = true -> xcmp x y = None.
Proof.
  intros [ | b | z | f | | | | | | | ] x y H N; try discriminate. destruct f; try discriminate.
  injection H as <-. reflexivity.
Qed.
Lemma xcmp_nan_r : forall v x y, num_view v = Some y -> is_nan v = true -> xcmp x y = None.
Proof.
  intros [ | b | z | f | | | | | | | ] x y H N; try discriminate. destruct f; try discriminate.
  injection H as <-. now destruct x.
Qed.

(* NaN satisfies no bound *)
Lemma sat_nan : forall b incl v, is_nan v || is_nan b = true -> sat_min b incl v = false /\ sat_max b incl v = false.
Proof.
  intros b incl v H. unfold sat_min, sat_max.
  apply orb_true_iff in H as [H|H].
  - destruct v; try discriminate. destruct f; try discriminate. split; reflexivity.
  - destruct b; try discriminate. destruct f; try discriminate. split; destruct (real_of v); reflexivity.
Qed.

(* ---------- strip ------------------------------------------------------------------------------------- *)
Section StripFacts.
  Variable p : Z -> bool.

  Lemma forallb_lstrip : forall s, forallb p (lstrip_by p s) = forallb p s.
  Proof.
    induction s as [|c s IH]; simpl; [reflexivity|].
    destruct (p c) eqn:E; [assumption|]. simpl. now rewrite E.
  Qed.

  Lemma lstrip_nil : forall s, is_nil (lstrip_by p s) = forallb p s.
  Proof.
    induction s as [|c s IH]; simpl; [reflexivity|].
    destruct (p c) eqn:E; [assumption|]. reflexivity.
  Qed.

  Lemma forallb_rev : forall (s : list Z), forallb p (rev s) = forallb p s.
  Proof.
    induction s as [|c s IH]; simpl; [reflexivity|].
    rewrite forallb_app, IH. simpl. rewrite andb_true_r. apply andb_comm.
  Qed.

  Lemma is_nil_rev : forall (s : list Z), is_nil (rev s) = is_nil s.
  Proof. intros [|c s]; simpl; [reflexivity|]. now destruct (rev s). Qed.

  (* strip() leaves nothing exactly when every character is whitespace *)
  Lemma strip_nil : forall s, is_nil (strip_by p s) = forallb p s.
  Proof.
    intro s. unfold strip_by, rstrip_by.
    now rewrite is_nil_rev, lstrip_nil, forallb_rev, forallb_lstrip.
  Qed.

  Lemma lstrip_split : forall s, exists a, s = a ++ lstrip_by p s /\ forallb p a = true /\
    match lstrip_by p s with [] => True | c :: _ => p c = false end.
  Proof.
    induction s as [|c s (a & E & Fa & H)]; simpl.
    - exists []. auto.
    - destruct (p c) eqn:Pc.
      + exists (c :: a). simpl. rewrite Pc, Fa. split; [now f_equal | auto].
      + exists []. auto.
  Qed.

  (* strip() removes a whitespace prefix and a whitespace suffix, and what is left neither starts nor ends with whitespace *)
  Lemma strip_decomp : forall s, exists a b, s = a ++ strip_by p s ++ b /\ forallb p a = true /\ forallb p b = true /\
    match strip_by p s with [] => True | c :: _ => p c = false /\ p (last (strip_by p s) c) = false end.
  Proof.
    intro s. unfold strip_by, rstrip_by.
    destruct (lstrip_split s) as (a & Ea & Fa & Ha). set (u := lstrip_by p s) in *.
    destruct (lstrip_split (rev u)) as (b' & Eb & Fb & Hb). set (w := lstrip_by p (rev u)) in *.
    assert (Eu : u = rev w ++ rev b').
    { rewrite <- (rev_involutive u), Eb, rev_app_distr. reflexivity. }
    exists a, (rev b'). split; [now rewrite <- Eu|]. split; [assumption|]. split; [now rewrite forallb_rev|].
    destruct (rev w) as [|c t'] eqn:Et; [exact I|].
    destruct w as [|x w']; [discriminate|]. simpl in Et. split.
    - rewrite Eu in Ha. simpl in Ha. exact Ha.
    - rewrite <- Et. now rewrite last_last.
  Qed.
End StripFacts.

Lemma all_ws_strip : forall s, is_nil (py_strip s) = all_ws s.
Proof. intro s. apply strip_nil. Qed.

Lemma py_strip_is_strip : forall s, is_strip_of s (py_strip s).
Proof.
  intro s. destruct (strip_decomp is_ws s) as (a & b & E & Fa & Fb & H).
  exists a, b. repeat split; assumption.
Qed.

(* a string without any character of the stripped class is left alone *)
Lemma strip_by_id : forall p s, forallb (fun c => negb (p c)) s = true -> strip_by p s = s.
Proof.
  intros p s H.
  assert (L : forall t, forallb (fun c => negb (p c)) t = true -> lstrip_by p t = t).
  { intros [|c t] Ht; [reflexivity|]. simpl in *. apply andb_true_iff in Ht as [Hc _].
    now destruct (p c). }
  unfold strip_by, rstrip_by. rewrite (L s H), L, rev_involutive; [reflexivity|].
  now rewrite forallb_rev.
Qed.

(* ---------- str(int) and int(str) --------------------------------------------------------------------- *)
Definition dec_char (c : Z) : bool := is_digit c || (c =? 45).

Lemma uint_codes_digits : forall d, forallb is_digit (uint_codes d) = true.
Proof. induction d; simpl; auto. Qed.

Lemma show_Z_chars : forall z, forallb dec_char (show_Z z) = true.
Proof.
  intro z. unfold show_Z.
  assert (D : forall d, forallb dec_char (uint_codes d) = true).
  { intro d. generalize (uint_codes_digits d). generalize (uint_codes d). intro l. induction l; simpl; [auto|].
    intro H. apply andb_true_iff in H as [H1 H2]. unfold dec_char at 1. rewrite H1. simpl. auto. }
  destruct (Z.to_int z); simpl; auto.
Qed.

Lemma dv_cons : forall acc c s, is_digit c = true -> digits_val acc (c :: s) = digits_val (acc * 10 + (c - 48)) s.
Proof. intros acc c s H. simpl. now rewrite H. Qed.

Lemma digits_val_acc : forall d acc,
  digits_val (Zpos acc) (uint_codes d) = Some (Zpos (Pos.of_uint_acc d acc)).
Proof.
  induction d; intro acc; cbn [uint_codes Pos.of_uint_acc]; [reflexivity | ..];
    rewrite dv_cons by reflexivity; rewrite <- IHd; f_equal; lia.
Qed.

Lemma digits_val_uint : forall d, digits_val 0 (uint_codes d) = Some (Z.of_N (Pos.of_uint d)).
Proof.
  induction d; cbn [uint_codes Pos.of_uint]; [reflexivity | ..]; rewrite dv_cons by reflexivity;
    [exact IHd | ..]; cbn [Z.of_N]; rewrite <- digits_val_acc; f_equal.
Qed.

Lemma uint_codes_nonnil : forall d, d <> Decimal.Nil -> uint_codes d <> [].
Proof. intros [] H; simpl; congruence. Qed.

Lemma uint_codes_hd_not_minus : forall d c s, uint_codes d = c :: s -> (c =? 45) = false.
Proof. intros [] c s H; simpl in H; try discriminate; injection H as <- _; reflexivity. Qed.

Theorem parse_show : forall z, parse_dec (show_Z z) = Some z.
Proof.
  intro z. unfold show_Z. pose proof (DecimalZ.of_to z) as R.
  destruct (Z.to_int z) as [d|d] eqn:E; simpl in R.
  - assert (N : d <> Decimal.Nil).
    { destruct z; unfold Z.to_int in E; try discriminate; injection E as <-; try discriminate;
      apply DecimalPos.Unsigned.to_uint_nonnil. }
    unfold parse_dec. destruct (uint_codes d) as [|c s] eqn:C; [now apply uint_codes_nonnil in C|].
    rewrite (uint_codes_hd_not_minus _ _ _ C), <- C, digits_val_uint. f_equal. exact R.
  - assert (N : d <> Decimal.Nil).
    { destruct z; unfold Z.to_int in E; try discriminate; injection E as <-; apply DecimalPos.Unsigned.to_uint_nonnil. }
    unfold parse_dec. rewrite Z.eqb_refl.
    destruct (uint_codes d) as [|c s] eqn:C; [now apply uint_codes_nonnil in C|].
    rewrite <- C, digits_val_uint. simpl. f_equal. exact R.
Qed.

Lemma forallb_impl : forall (f g : Z -> bool) l, (forall x, f x = true -> g x = true) -> forallb f l = true -> forallb g l = true.
Proof. intros f g l H. induction l; simpl; [auto|]. intro A. apply andb_true_iff in A as [A1 A2]. rewrite (H _ A1). auto. Qed.

Lemma dec_char_not_ws : forall c, dec_char c = true -> negb (is_ws c) = true.
Proof. intros c H. unfold dec_char, is_digit in H. unfold is_ws, in_ranges, ws_ranges. simpl. lia. Qed.
Lemma dec_char_not_num_ws : forall c, dec_char c = true -> negb (is_num_ws c) = true.
Proof. intros c H. unfold dec_char, is_digit in H. unfold is_num_ws, in_ranges, num_ws_ranges. simpl. lia. Qed.
Lemma dec_char_ascii : forall c, dec_char c = true -> ((0 <=? c) && (c <? 128)) = true.
Proof. intros c H. unfold dec_char, is_digit in H. lia. Qed.
Lemma dec_char_lower : forall c, dec_char c = true -> lower_c c = c.
Proof. intros c H. unfold dec_char, is_digit in H. unfold lower_c. destruct ((65 <=? c) && (c <=? 90)) eqn:E; lia. Qed.

Lemma show_Z_strip : forall z, py_strip (show_Z z) = show_Z z.
Proof. intro z. apply strip_by_id. eapply forallb_impl; [apply dec_char_not_ws | apply show_Z_chars]. Qed.
Lemma show_Z_num_strip : forall z, num_strip (show_Z z) = show_Z z.
Proof. intro z. apply strip_by_id. eapply forallb_impl; [apply dec_char_not_num_ws | apply show_Z_chars]. Qed.
Lemma show_Z_ascii : forall z, is_ascii (show_Z z) = true.
Proof. intro z. unfold is_ascii. eapply forallb_impl; [apply dec_char_ascii | apply show_Z_chars]. Qed.
Lemma show_Z_lower : forall z, map lower_c (show_Z z) = show_Z z.
Proof.
  intro z. generalize (show_Z_chars z). generalize (show_Z z). intro l. induction l; simpl; [auto|].
  intro H. apply andb_true_iff in H as [H1 H2]. now rewrite (dec_char_lower _ H1), IHl.
Qed.

(* whenever str(z) succeeds, int() reads it back - whatever the oracles say; beyond the digit limit str(z) fails *)
Theorem int_of_show : forall O z s, str_of_int z = Ok s -> py_int_of_str O s = Ok z.
Proof.
  intros O z s H. unfold str_of_int in H. destruct (over_limit (show_Z z)) eqn:L; [discriminate|].
  injection H as <-. unfold py_int_of_str, int_of_canonical. now rewrite show_Z_num_strip, parse_show, L.
Qed.

Lemma str_of_int_cases : forall z, str_of_int z = Ok (show_Z z) \/ str_of_int z = Raise ValueErrorC.
Proof. intro z. unfold str_of_int. destruct (over_limit (show_Z z)); auto. Qed.

(* ---------- the documented order on ints, spelled out ---------------------------------------------------- *)
Lemma sat_min_int : forall b z incl, sat_min (VInt b) incl (VInt z) = if incl then b <=? z else b <? z.
Proof.
  intros b z incl. unfold sat_min, xr_lt. simpl. unfold Qle_bool. simpl. rewrite !Z.mul_1_r.
  destruct incl; [reflexivity|]. symmetry. apply Z.ltb_antisym.
Qed.
Lemma sat_max_int : forall b z incl, sat_max (VInt b) incl (VInt z) = if incl then z <=? b else z <? b.
Proof.
  intros b z incl. unfold sat_max, xr_lt. simpl. unfold Qle_bool. simpl. rewrite !Z.mul_1_r.
  destruct incl; [reflexivity|]. symmetry. apply Z.ltb_antisym.
Qed.
