(* The checker of Model/Checker.v under the regenerated tables, as plugged into the dataclass model by
   Model/DataclassEval.v (`check_real`), against the specification Spec/Conforms.v: on supported annotations
   it returns for what must conform and raises a PedanticTypeCheckException for everything else
   (C01 / C02: Proofs/CheckerTop.v). *)
From Coq Require Import List ZArith Bool Arith.
From PV Require Import Base.Exn.
From PV Require Base.Values Base.Ann Model.CheckerCfg Model.Checker Spec.Conforms Gen.CheckerTables
  Proofs.CheckerGood Proofs.CheckerTop.
From PV Require Import Model.Dataclass Spec.DataclassSpec Model.DataclassEval.
Import ListNotations.

Definition real_cfg := CheckerTables.checker_cfg.

(* the context handed to the checker for annotation A: a plain string annotation is matched by class name *)
Definition ctx_for (E : env) (b : bool) (A : Ann.ann) : nat -> option Values.cls :=
  ctx_of E (match A with Ann.AStr _ => true | _ => b end).

(* what the checker sees of field f of object r: the annotation object and the value tree *)
Definition field_view (E : env) (h : heap) (r : nat) (f : field) : option (Ann.ann * Values.value) :=
  match nth_error (e_anns E) (f_ann f), getattr h r (f_name f) with
  | Some A, Some v => match reify FUEL E h v with Some V => Some (A, V) | None => None end
  | _, _ => None
  end.

(* the specification's verdict, when the annotation is in the supported vocabulary *)
Definition field_verdict (E : env) (b : bool) (h : heap) (r : nat) (f : field) : option Conforms.verdict :=
  match field_view E h r f with
  | Some (A, V) =>
    if Conforms.supported (ctx_for E b A) A then Some (Conforms.conforms (ctx_for E b A) A V) else None
  | None => None
  end.

Section Real.
  Hypothesis cfg_ok : CheckerGood.cfg_good real_cfg = true.
  Variable E : env.

  Lemma check_real_supported : forall b h r f A V v,
    field_view E h r f = Some (A, V) -> getattr h r (f_name f) = Some v ->
    Conforms.supported (ctx_for E b A) A = true ->
    (Conforms.conforms (ctx_for E b A) A V = Conforms.Must -> check_real E b h (f_ann f) v = Ok tt) /\
    (Conforms.conforms (ctx_for E b A) A V = Conforms.MustNot ->
       exists e, check_real E b h (f_ann f) v = Raise e /\ derives e PTypeCheckC = true) /\
    (check_real E b h (f_ann f) v = Ok tt \/
     exists e, check_real E b h (f_ann f) v = Raise e /\ derives e PTypeCheckC = true).
  Proof.
    intros b h r f A V v Hview Hget Hsup.
    pose proof (CheckerGood.cfg_good_facts _ cfg_ok) as good.
    unfold field_view in Hview. rewrite Hget in Hview.
    destruct (nth_error (e_anns E) (f_ann f)) as [A'|] eqn:EA; [|discriminate].
    destruct (reify FUEL E h v) as [V'|] eqn:EV; [|discriminate]. inversion Hview. subst A' V'. clear Hview.
    unfold check_real. rewrite EA, EV. cbv zeta. unfold Checker.assert_matches1.
    change (ctx_of E (match A with Ann.AStr _ => true | _ => b end)) with (ctx_for E b A).
    unfold real_cfg in good.
    set (ctx := ctx_for E b A) in *. set (hook := Checker.is_inst0 CheckerTables.checker_cfg ctx).
    split; [|split].
    - intro Hm. now rewrite (CheckerTop.complete _ good ctx hook A V [] Hsup Hm).
    - intro Hn. destruct (CheckerTop.nonconforming_rejected _ good ctx hook A V [] Hsup Hn) as [e [E1 E2]].
      exists e. split; [|assumption]. now rewrite E1.
    - rewrite (CheckerTop.assert_pure _ good ctx hook A Hsup V []).
      destruct (CheckerGood.chk _ ctx A V); simpl; [now left|right].
      eexists. split; [reflexivity|]. apply (CheckerGood.gf_mismatch _ good).
  Qed.

  (* every field is in the vocabulary and has a verdict under context b *)
  Definition all_decided (b : bool) (h : heap) (fs : list field) (r : nat) : Prop :=
    forall f, In f fs -> field_verdict E b h r f <> None.
  Definition all_must (b : bool) (h : heap) (fs : list field) (r : nat) : Prop :=
    forall f, In f fs -> field_verdict E b h r f = Some Conforms.Must.

  Lemma all_must_conform : forall b h fs r, all_must b h fs r -> all_conform (check_real E b) h fs r = true.
  Proof.
    intros b h fs r H. unfold all_conform. apply forallb_forall. intros f Hf. specialize (H f Hf).
    unfold field_verdict in H. destruct (field_view E h r f) as [[A V]|] eqn:Ev; [|discriminate].
    destruct (Conforms.supported (ctx_for E b A) A) eqn:Es; [|discriminate]. inversion H as [Hm].
    assert (Hg : exists v, getattr h r (f_name f) = Some v).
    { unfold field_view in Ev. destruct (nth_error (e_anns E) (f_ann f)); [|discriminate].
      destruct (getattr h r (f_name f)) as [v|]; [now exists v|discriminate]. }
    destruct Hg as [v Hg]. rewrite Hg.
    destruct (check_real_supported b h r f A V v Ev Hg Es) as [A1 _]. now rewrite (A1 Hm).
  Qed.

  Lemma decided_reject_is_type_check : forall b h fs r e, all_decided b h fs r ->
    first_reject (check_real E b) h fs r = Some e -> derives e PTypeCheckC = true.
  Proof.
    intros b h fs r e. induction fs as [|f fs IH]; intros Hd H; [discriminate|].
    simpl in H.
    assert (Hf : field_verdict E b h r f <> None) by (apply Hd; now left).
    unfold field_verdict in Hf. destruct (field_view E h r f) as [[A V]|] eqn:Ev; [|congruence].
    destruct (Conforms.supported (ctx_for E b A) A) eqn:Es; [|congruence].
    assert (Hg : exists v, getattr h r (f_name f) = Some v).
    { unfold field_view in Ev. destruct (nth_error (e_anns E) (f_ann f)); [|discriminate].
      destruct (getattr h r (f_name f)) as [v|]; [now exists v|discriminate]. }
    destruct Hg as [v Hg]. rewrite Hg in H.
    destruct (check_real_supported b h r f A V v Ev Hg Es) as [_ [_ [Hok|[e' [E1 E2]]]]].
    - rewrite Hok in H. apply IH; [|assumption]. intros g Hgin. apply Hd. now right.
    - rewrite E1 in H. inversion H. now subst.
  Qed.

  Lemma mustnot_rejects : forall b h fs r f, In f fs -> field_verdict E b h r f = Some Conforms.MustNot ->
    all_conform (check_real E b) h fs r = false.
  Proof.
    intros b h fs r f Hf H. destruct (all_conform (check_real E b) h fs r) eqn:Ea; [|reflexivity]. exfalso.
    unfold all_conform in Ea. rewrite forallb_forall in Ea. specialize (Ea f Hf).
    unfold field_verdict in H. destruct (field_view E h r f) as [[A V]|] eqn:Ev; [|discriminate].
    destruct (Conforms.supported (ctx_for E b A) A) eqn:Es; [|discriminate]. inversion H as [Hm].
    assert (Hg : exists v, getattr h r (f_name f) = Some v).
    { unfold field_view in Ev. destruct (nth_error (e_anns E) (f_ann f)); [|discriminate].
      destruct (getattr h r (f_name f)) as [v|]; [now exists v|discriminate]. }
    destruct Hg as [v Hg]. rewrite Hg in Ea.
    destruct (check_real_supported b h r f A V v Ev Hg Es) as [_ [A2 _]]. destruct (A2 Hm) as [e [E1 _]].
    rewrite E1 in Ea. discriminate.
  Qed.
End Real.
