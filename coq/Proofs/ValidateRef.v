(* The model of @validate (Model/ValidateSem.v) instantiated with the reference configuration, brought into a
   normal form: every loop of _wrapper_content is a sequence of named steps (`seqm`), the result dictionary is
   `dsets (l1 ++ l2 ++ l3) []` for the outputs of the keyword loop, the positional loop and the unused-parameter
   loop.  All equations are exact (journal included).                                                          *)
From Coq Require Import List Arith Bool Permutation Lia.
From PV Require Import Base.Exn Model.ValidateSem Spec.ValidateSpec Proofs.ValidateDict.
Import ListNotations.

Section Ref.
Variable value : Type.
Variable is_none : value -> bool.

Notation param := (param value).
Notation dict := (dict value).
Notation M := (M value).
Notation rcfg := reference_cfg.
Notation rr := reference_req_rule.
Notation PV := (param_validate value is_none rcfg rr).

(* ---------- the journal monad ---------- *)
Lemma mbind_ret_l : forall A B (a : A) (f : A -> M B), mbind (ret a) f = f a.
Proof. intros. unfold mbind, ret. now destruct (f a). Qed.

Lemma mbind_ret_r : forall A (m : M A), mbind m (fun a => ret a) = m.
Proof. intros A [j [a|e pn]]; simpl; [now rewrite app_nil_r | reflexivity]. Qed.

Lemma mbind_assoc : forall A B C (m : M A) (f : A -> M B) (g : B -> M C),
  mbind (mbind m f) g = mbind m (fun a => mbind (f a) g).
Proof.
  intros A B C [j [a|e pn]] f g; simpl; [|reflexivity].
  destruct (f a) as [j1 [b|e pn]]; simpl; [|reflexivity].
  destruct (g b) as [j2 r]. now rewrite app_assoc.
Qed.

Lemma mbind_ext : forall A B (m : M A) (f g : A -> M B), (forall a, f a = g a) -> mbind m f = mbind m g.
Proof. intros A B [j [a|e pn]] f g H; simpl; [now rewrite H | reflexivity]. Qed.

Lemma mbind_fail : forall A B e pn (f : A -> M B), mbind (fail e pn) f = fail e pn.
Proof. reflexivity. Qed.

Lemma mbind_raise : forall A B j e pn (f : A -> M B), mbind (j, WRaise e pn) f = (j, WRaise e pn).
Proof. reflexivity. Qed.

Lemma snd_mbind : forall A B (m : M A) (f : A -> M B),
  snd (mbind m f) = match snd m with WOk a => snd (f a) | WRaise e pn => WRaise e pn end.
Proof. intros A B [j [a|e pn]] f; simpl; [now destruct (f a) | reflexivity]. Qed.

Lemma fst_mbind : forall A B (m : M A) (f : A -> M B),
  fst (mbind m f) = match snd m with WOk a => fst m ++ fst (f a) | WRaise _ _ => fst m end.
Proof. intros A B [j [a|e pn]] f; simpl; [now destruct (f a) | reflexivity]. Qed.

(* ---------- a sequence of named steps; the first failure ends it ---------- *)
Fixpoint seqm (items : list (name * M value)) : M dict :=
  match items with
  | [] => ret []
  | (k, m) :: rest => mbind m (fun v => mbind (seqm rest) (fun l => ret ((k, v) :: l)))
  end.

Lemma seqm_app : forall a b,
  seqm (a ++ b) = mbind (seqm a) (fun l1 => mbind (seqm b) (fun l2 => ret (l1 ++ l2))).
Proof.
  induction a as [|[k m] a IH]; intro b; cbn [seqm app].
  - rewrite mbind_ret_l. cbn [app]. symmetry. apply mbind_ret_r.
  - rewrite mbind_assoc. apply mbind_ext. intro v. rewrite IH, !mbind_assoc.
    apply mbind_ext. intro l1. rewrite mbind_ret_l, mbind_assoc. apply mbind_ext. intro l2.
    now rewrite mbind_ret_l.
Qed.

(* ---------- Parameter.validate against the specification of the chain ---------- *)
Lemma req_spec : forall p : param, is_required value rr p = spec_required value p.
Proof. intro p. unfold is_required, spec_required, has_default, reference_req_rule. now destruct (p_default p). Qed.

Lemma chain_handler : forall e,
  hlookup (pv_chain_handlers rcfg) e = if derives e ValidatorExceptionC then HRaiseParam else HReraise.
Proof. intro e. cbn [reference_cfg pv_chain_handlers hlookup]. now destruct (derives e ValidatorExceptionC). Qed.

Lemma conv_handler : forall e,
  hlookup (pv_conv_handlers rcfg) e = if derives e ConversionErrorC then HRaiseParam else HReraise.
Proof. intro e. cbn [reference_cfg pv_conv_handlers hlookup]. now destruct (derives e ConversionErrorC). Qed.

Definition of_verdict_w (p : param) (r : verdict value) : wres value :=
  match r with
  | VPass v => WOk v
  | VReject => WRaise (p_exc p) (Some (p_name p))
  | VForeign e => WRaise e None
  end.

Lemma run_chain_spec : forall (p : param) fs i v,
  snd (run_chain value rcfg p i fs v) = of_verdict_w p (spec_chain value fs v).
Proof.
  induction fs as [|f fs IH]; intros i v; cbn [run_chain spec_chain]; [reflexivity|].
  destruct (f v) as [v'|e].
  - specialize (IH (S i) v'). destruct (run_chain value rcfg p (S i) fs v'). cbn [snd] in *. assumption.
  - rewrite chain_handler. destruct (derives e ValidatorExceptionC); reflexivity.
Qed.

Lemma run_chain_journal : forall (p : param) fs i v,
  fst (run_chain value rcfg p i fs v) =
  let ins := spec_chain_inputs value fs v in
  combine (combine (repeat (p_name p) (List.length ins)) (seq i (List.length ins))) ins.
Proof.
  induction fs as [|f fs IH]; intros i v; cbn [run_chain spec_chain_inputs]; [reflexivity|].
  destruct (f v) as [v'|e].
  - specialize (IH (S i) v'). destruct (run_chain value rcfg p (S i) fs v'). cbn [fst] in *. rewrite IH. reflexivity.
  - rewrite chain_handler. destruct (derives e ValidatorExceptionC); reflexivity.
Qed.

Lemma run_convert_spec : forall (p : param) w,
  run_convert value rcfg p w = of_verdict_w p (spec_convert value p w).
Proof.
  intros p w. unfold run_convert, spec_convert. destruct (p_convert p) as [c|]; [|reflexivity].
  destruct (c w) as [v|e]; [reflexivity|]. rewrite conv_handler.
  destruct (derives e ConversionErrorC); reflexivity.
Qed.

(* the model of Parameter.validate computes the specified chain: conversion, then every validator in order, each fed
   with its predecessor's output; a rejection carries the parameter name *)
Lemma pv_spec : forall (p : param) w, snd (PV p w) = of_verdict_w p (spec_param value is_none p w).
Proof.
  intros p w. unfold param_validate, spec_param. rewrite req_spec. destruct (is_none w).
  - destruct (spec_required value p); reflexivity.
  - rewrite run_convert_spec. destruct (spec_convert value p w) as [v0| |e0]; simpl; try reflexivity.
    apply run_chain_spec.
Qed.

Lemma pv_journal : forall (p : param) w, fst (PV p w) = spec_journal value is_none p w.
Proof.
  intros p w. unfold param_validate, spec_journal. rewrite req_spec. destruct (is_none w).
  - destruct (spec_required value p); reflexivity.
  - rewrite run_convert_spec. destruct (spec_convert value p w) as [v0| |e0]; simpl; try reflexivity.
    apply run_chain_journal.
Qed.

(* ---------- _wrapper_content ---------- *)
Variable sg : signature value.
Variable env : wenv.
Variable dc : deco value.

Lemma lookup_param_name : forall k p, lookup_param value dc k = Some p -> p_name p = k.
Proof. unfold lookup_param. intros k p H. apply find_some in H. now apply Nat.eqb_eq. Qed.

Lemma lookup_param_In : forall k p, lookup_param value dc k = Some p -> In p (d_params dc).
Proof. unfold lookup_param. intros k p H. apply find_some in H. apply in_rev. tauto. Qed.

Lemma lookup_param_declared : forall k,
  declared value dc k = match lookup_param value dc k with Some _ => true | None => false end.
Proof.
  intro k. unfold declared, lookup_param. destruct (find _ (rev (d_params dc))) eqn:F.
  - apply find_some in F. apply existsb_exists. exists p. split; [apply in_rev|]; tauto.
  - destruct (existsb _ (d_params dc)) eqn:E; [|reflexivity].
    apply existsb_exists in E. destruct E as [p [I E]]. apply in_rev in I.
    now rewrite (find_none _ _ F p I) in E.
Qed.

Definition undeclared_m (pos : bool) (k : name) (w : value) : M value :=
  if d_strict dc && negb (pos && Nat.eqb k self_name) then fail TooManyArgumentsC None else ret w.

(* one arriving argument *)
Definition step_m (pos : bool) (k : name) (w : value) : M value :=
  match lookup_param value dc k with Some p => PV p w | None => undeclared_m pos k w end.

Definition usedk (k : name) : list name := if declared value dc k then [k] else [].
Definition useds (l : dict) : list name := flat_map (fun kv => usedk (fst kv)) l.
Definition aitems (pos : bool) (xs : dict) : list (name * M value) :=
  map (fun kw => (fst kw, step_m pos (fst kw) (snd kw))) xs.

Lemma step_arg_ref : forall pos k w s,
  step_arg value is_none rcfg rr dc pos k w s =
  mbind (step_m pos k w) (fun v => ret (dset k v (fst s), snd s ++ usedk k)).
Proof.
  intros pos k w s. unfold step_arg, step_m, usedk. rewrite lookup_param_declared.
  destruct (lookup_param value dc k) as [p|] eqn:L.
  - now rewrite (lookup_param_name _ _ L).
  - unfold undeclared_m. simpl. rewrite app_nil_r.
    destruct pos, (d_strict dc), (Nat.eqb k self_name); reflexivity.
Qed.

Lemma process_ref : forall pos xs s,
  process value is_none rcfg rr dc pos xs s =
  mbind (seqm (aitems pos xs)) (fun l => ret (dsets l (fst s), snd s ++ useds l)).
Proof.
  induction xs as [|[k w] xs IH]; intro s.
  - cbn [process aitems map seqm]. rewrite mbind_ret_l. cbn [dsets fold_left useds flat_map]. rewrite app_nil_r. now destruct s.
  - cbn [process aitems map seqm fst snd]. rewrite step_arg_ref, !mbind_assoc. apply mbind_ext. intro v.
    rewrite mbind_ret_l, IH, mbind_assoc. apply mbind_ext. intro l.
    rewrite mbind_ret_l. cbn [fst snd]. unfold useds. simpl. now rewrite app_assoc.
Qed.

Definition cascade_m (p : param) : M value :=
  if is_required value rr p then ([], raise_param value p)
  else match p_default p with
       | Some d => ret d
       | None => match sig_default value sg (p_name p) with
                 | Some d => ret d
                 | None => fail ValidateExceptionC None
                 end
       end.

(* one parameter the caller did not supply *)
Definition u_m (p : param) : M value :=
  match p_ext p with
  | Some e => if e_has e then match e_load e with Ok w => PV p w | Raise x => fail x None end
              else cascade_m p
  | None => cascade_m p
  end.

Definition uitems (ps : list param) : list (name * M value) := map (fun p => (p_name p, u_m p)) ps.

Lemma unused_decide_ref : forall p r,
  unused_decide value is_none rcfg rr sg (wc_unused rcfg) p r =
  mbind (u_m p) (fun v => ret (dset (p_name p) v r)).
Proof.
  intros p r. unfold u_m, cascade_m. simpl.
  destruct (p_ext p) as [e|].
  - destruct (e_has e).
    + destruct (e_load e); reflexivity.
    + destruct (is_required value rr p); [reflexivity|].
      destruct (p_default p); [reflexivity|]. destruct (sig_default value sg (p_name p)); reflexivity.
  - destruct (is_required value rr p); [reflexivity|].
    destruct (p_default p); [reflexivity|]. destruct (sig_default value sg (p_name p)); reflexivity.
Qed.

Lemma unused_loop_ref : forall ps r,
  unused_loop value is_none rcfg rr sg ps r = mbind (seqm (uitems ps)) (fun l => ret (dsets l r)).
Proof.
  induction ps as [|p ps IH]; intro r.
  - cbn [unused_loop uitems map seqm]. now rewrite mbind_ret_l.
  - cbn [unused_loop uitems map seqm]. rewrite unused_decide_ref, !mbind_assoc. apply mbind_ext. intro v.
    rewrite mbind_ret_l, IH, mbind_assoc. apply mbind_ext. intro l. now rewrite mbind_ret_l.
Qed.

Definition flask_m : M unit :=
  if d_strict dc && w_flask_installed env then
    if all_flask_json value dc then
      match w_request env with
      | None => fail RuntimeErrorC None
      | Some rq => if r_is_json rq && existsb (fun k => negb (declared value dc k)) (r_json_keys rq)
                   then fail TooManyArgumentsC None else ret tt
      end
    else ret tt
  else ret tt.

Lemma flask_ref : forall s, flask_strict value env dc s = mbind flask_m (fun _ => ret s).
Proof.
  intro s. unfold flask_strict, flask_m.
  destruct (d_strict dc && w_flask_installed env); [|reflexivity].
  destruct (all_flask_json value dc); [|reflexivity].
  destruct (w_request env) as [rq|]; [|reflexivity].
  destruct (r_is_json rq && _); reflexivity.
Qed.

Definition unused_params (used : list name) : list param :=
  filter (fun p => negb (mem (p_name p) used)) (d_params dc).

(* what follows the two argument loops: l12 = their outputs in arrival order *)
Definition tail_m (l12 : dict) : M dict :=
  mbind (seqm (uitems (unused_params (useds l12)))) (fun l3 =>
  mbind flask_m (fun _ => ret (dsets (l12 ++ l3) []))).

Definition wc_ref (c : call value) : M dict :=
  if d_ignore_input dc then tail_m []
  else mbind (seqm (aitems false (c_kwargs c))) (fun l1 =>
       match bind_partial value sg (c_args c) with
       | Raise e => fail ValidateExceptionC None
       | Ok (bound, _) => mbind (seqm (aitems true bound)) (fun l2 => tail_m (l1 ++ l2))
       end).

Lemma bind_partial_raise : forall args e, bind_partial value sg args = Raise e -> e = TypeErrorC.
Proof. unfold bind_partial. intros args e. destruct (s_varpos sg); [discriminate|]. destruct (Nat.ltb _ _); congruence. Qed.

Lemma useds_app : forall a b, useds (a ++ b) = useds a ++ useds b.
Proof. intros. unfold useds. apply flat_map_app. Qed.

(* from here on: functions without *args (the zip branch of the positional loop is not taken) *)
Hypothesis NV : s_varpos sg = false.

Lemma bind_partial_nv : forall args bound star, bind_partial value sg args = Ok (bound, star) -> star = [].
Proof.
  unfold bind_partial. rewrite NV. intros args bound star. destruct (Nat.ltb _ _); [discriminate|]. intro H. now injection H.
Qed.

Theorem wrapper_content_ref : forall c,
  wrapper_content value is_none rcfg rr sg env dc c = wc_ref c.
Proof.
  intro c. unfold wrapper_content, wc_ref. cbn [wc_phases reference_cfg run_phases andb].
  destruct (d_ignore_input dc) eqn:Ig; cbn [andb run_phase fst snd].
  - unfold tail_m. rewrite unused_loop_ref, !mbind_assoc. cbn [useds flat_map].
    apply mbind_ext. intro l3. rewrite !mbind_ret_l. cbn [fst snd].
    rewrite flask_ref, !mbind_assoc. apply mbind_ext. intros _.
    rewrite !mbind_ret_l. reflexivity.
  - rewrite process_ref, !mbind_assoc. apply mbind_ext. intro l1.
    rewrite !mbind_ret_l. cbn [fst snd app].
    destruct (bind_partial value sg (c_args c)) as [[bound star]|e] eqn:B.
    + rewrite (bind_partial_nv _ _ _ B), mbind_ret_r.
      rewrite process_ref, !mbind_assoc. apply mbind_ext. intro l2.
      rewrite !mbind_ret_l. cbn [fst snd].
      unfold tail_m. rewrite unused_loop_ref, !mbind_assoc, useds_app.
      apply mbind_ext. intro l3. rewrite !mbind_ret_l. cbn [fst snd].
      rewrite flask_ref, !mbind_assoc. apply mbind_ext. intros _.
      rewrite !mbind_ret_l. cbn [fst snd]. rewrite !dsets_app. reflexivity.
    + apply bind_partial_raise in B. subst. reflexivity.
Qed.

End Ref.
