(* C14 - the family of good shapes and the assumptions on the stdlib oracles.

   `shapes_good S` is a boolean predicate on the record of everything the translator reads from the
   validators' source.  Props/C14.v checks it on the shapes of the current source by computation;
   Proofs/ValidatorsRefine.v proves the property for every S that satisfies it.               *)
From Coq Require Import List ZArith Bool Lia ZifyBool SpecFloat.
From PV Require Import Base.Exn Model.ValidatorsBase Model.ValidatorsRegex Model.Validators Spec.ValidatorsSpec
                       Proofs.ValidatorsRegexProofs Proofs.ValidatorsPrims.
Import ListNotations.
Open Scope Z_scope.

(* ---------- boolean equalities ---------------------------------------------------------------------- *)
Definition cmpop_eqb (a b : cmpop) : bool :=
  match a, b with
  | CLt, CLt | CLe, CLe | CGt, CGt | CGe, CGe | CEq, CEq | CNe, CNe => true
  | _, _ => false
  end.
Lemma cmpop_eqb_eq : forall a b, cmpop_eqb a b = true -> a = b.
Proof. intros [] []; simpl; congruence. Qed.

Definition domkind_eqb (a b : domkind) : bool :=
  match a, b with
  | DomNone, DomNone | DomSized, DomSized | DomSequence, DomSequence | DomIterable, DomIterable
  | DomStr, DomStr | DomIntFloat, DomIntFloat | DomIntFloatStr, DomIntFloatStr => true
  | _, _ => false
  end.
Lemma domkind_eqb_eq : forall a b, domkind_eqb a b = true -> a = b.
Proof. intros [] []; simpl; congruence. Qed.

Definition matchmode_eqb (a b : matchmode) : bool :=
  match a, b with MFull, MFull | MSearch, MSearch | MPrefix, MPrefix => true | _, _ => false end.
Lemma matchmode_eqb_eq : forall a b, matchmode_eqb a b = true -> a = b.
Proof. intros [] []; simpl; congruence. Qed.

Definition normop_eqb (a b : normop) : bool :=
  match a, b with NStr, NStr | NStrip, NStrip | NLower, NLower | NUpper, NUpper => true | _, _ => false end.
Lemma normop_eqb_eq : forall a b, normop_eqb a b = true -> a = b.
Proof. intros [] []; simpl; congruence. Qed.

Section ListEqb.
  Variable A : Type.
  Variable eqb : A -> A -> bool.
  Hypothesis eqb_eq : forall a b, eqb a b = true -> a = b.
  Fixpoint list_eqb (x y : list A) : bool :=
    match x, y with
    | [], [] => true
    | a :: x', b :: y' => eqb a b && list_eqb x' y'
    | _, _ => false
    end.
  Lemma list_eqb_eq : forall x y, list_eqb x y = true -> x = y.
  Proof.
    induction x as [|a x IH]; intros [|b y] H; simpl in H; try discriminate; [reflexivity|].
    apply andb_true_iff in H as [H1 H2]. f_equal; auto.
  Qed.
End ListEqb.
Arguments list_eqb {A} eqb x y.

Definition exn_eqb : exn -> exn -> bool := list_eqb Nat.eqb.
Lemma exn_eqb_eq : forall a b, exn_eqb a b = true -> a = b.
Proof. apply list_eqb_eq. intros a b H. now apply Nat.eqb_eq. Qed.

Lemma zlist_eqb_eq : forall a b, zlist_eqb a b = true -> a = b.
Proof.
  induction a as [|x a IH]; intros [|y b] H; simpl in H; try discriminate; [reflexivity|].
  apply andb_true_iff in H as [H1 H2]. apply Z.eqb_eq in H1. f_equal; auto.
Qed.

Definition citem_eqb (a b : citem) : bool :=
  match a, b with
  | CRange l h, CRange l' h' => (l =? l') && (h =? h')
  | CSpace, CSpace => true
  | _, _ => false
  end.
Lemma citem_eqb_eq : forall a b, citem_eqb a b = true -> a = b.
Proof.
  intros [l h|] [l' h'|]; simpl; try discriminate; [|reflexivity].
  intro H. apply andb_true_iff in H as [H1 H2]. apply Z.eqb_eq in H1, H2. congruence.
Qed.

Fixpoint re_eqb (a b : re) : bool :=
  match a, b with
  | RNone, RNone | REps, REps | REnd, REnd => true
  | RSet n i, RSet n' i' => Bool.eqb n n' && list_eqb citem_eqb i i'
  | RCat x y, RCat x' y' | RAlt x y, RAlt x' y' => re_eqb x x' && re_eqb y y'
  | RStar x, RStar x' => re_eqb x x'
  | _, _ => false
  end.
Lemma re_eqb_eq : forall a b, re_eqb a b = true -> a = b.
Proof.
  induction a; intros [] H; simpl in H; try discriminate; try reflexivity.
  - apply andb_true_iff in H as [H1 H2]. apply eqb_prop in H1. apply (list_eqb_eq _ _ citem_eqb_eq) in H2. congruence.
  - apply andb_true_iff in H as [H1 H2]. f_equal; auto.
  - apply andb_true_iff in H as [H1 H2]. f_equal; auto.
  - f_equal; auto.
Qed.

(* ---------- comparison tests of Min / Max ---------------------------------------------------------- *)
(* does the if / elif chain reject, given include_boundary and the three-way comparison value ? bound
   (None: unordered, i.e. NaN)? *)
Fixpoint tests_reject (tests : list btest) (incl : bool) (c : option comparison) : bool :=
  match tests with
  | [] => false
  | t :: ts => (xorb (cmp_holds (bt_op t) c) (bt_neg t) && Bool.eqb incl (bt_pol t)) || tests_reject ts incl c
  end.

Definition all_cmp : list (option comparison) := [None; Some Lt; Some Eq; Some Gt].
(* the chain rejects exactly like the reference on the three ordered outcomes and on the unordered one (NaN) *)
Definition tests_equiv (tests : list btest) (ref : bool -> option comparison -> bool) : bool :=
  forallb (fun incl => forallb (fun c => Bool.eqb (tests_reject tests incl c) (ref incl c)) all_cmp) [true; false].

Lemma tests_equiv_sound : forall tests ref, tests_equiv tests ref = true ->
  forall incl c, tests_reject tests incl c = ref incl c.
Proof.
  intros tests ref H incl c. unfold tests_equiv, all_cmp in H. cbn [forallb] in H.
  repeat match goal with X : _ && _ = true |- _ => apply andb_true_iff in X as [? ?] end.
  destruct incl, c as [[]|]; apply eqb_prop; assumption.
Qed.

(* what the message of the first rejecting branch formats *)
Fixpoint tests_fmt (tests : list btest) (incl : bool) (c : option comparison) : list fmtarg :=
  match tests with
  | [] => []
  | t :: ts => if xorb (cmp_holds (bt_op t) c) (bt_neg t) && Bool.eqb incl (bt_pol t) then bt_fmt t else tests_fmt ts incl c
  end.

(* on numbers no comparison raises, so the order of the operands of `and` does not matter *)
Lemma bound_tests_sem : forall VE tests b incl v x y,
  num_view v = Some x -> num_view b = Some y ->
  bound_tests VE tests b incl v =
  if tests_reject tests incl (xcmp x y) then reject VE (tests_fmt tests incl (xcmp x y)) v b else Ok v.
Proof.
  intros VE tests b incl v x y Vx Vy. induction tests as [|t ts IH]; simpl; [reflexivity|].
  unfold py_cmp. rewrite Vx, Vy.
  destruct (bt_flag_first t); simpl.
  - destruct (Bool.eqb incl (bt_pol t)); simpl.
    + destruct (xorb (cmp_holds (bt_op t) (xcmp x y)) (bt_neg t)); simpl; [reflexivity | exact IH].
    + rewrite andb_false_r. exact IH.
  - destruct (xorb (cmp_holds (bt_op t) (xcmp x y)) (bt_neg t) && Bool.eqb incl (bt_pol t)); simpl; [reflexivity | exact IH].
Qed.

(* ---------- formatting ---------------------------------------------------------------------------------- *)
Lemma reject_ok : forall A VE fmt v b, fmt_ok v = true -> fmt_ok b = true -> @reject A VE fmt v b = Raise VE.
Proof.
  intros A VE fmt v b Fv Fb. unfold reject.
  replace (forallb _ fmt) with true; [reflexivity|]. symmetry. apply forallb_forall. intros [] _; auto.
Qed.

Lemma reject_cases : forall A VE fmt v b, @reject A VE fmt v b = Raise VE \/ @reject A VE fmt v b = Raise ValueErrorC.
Proof. intros. unfold reject. destruct (forallb _ fmt); auto. Qed.

Lemma fmt_ok_list : forall l, fmt_ok (VList l) = forallb fmt_ok l.
Proof. induction l as [|x l IH]; [reflexivity|]. simpl in *. now rewrite IH. Qed.
Lemma fmt_ok_tuple : forall l, fmt_ok (VTuple l) = forallb fmt_ok l.
Proof. induction l as [|x l IH]; [reflexivity|]. simpl in *. now rewrite IH. Qed.
Lemma fmt_ok_dict : forall ks vs, fmt_ok (VDict ks vs) = forallb fmt_ok ks && forallb fmt_ok vs.
Proof.
  intros ks vs. pose proof (fmt_ok_list ks) as A. pose proof (fmt_ok_list vs) as B. simpl in *. now rewrite A, B.
Qed.

(* the items of a printable container are printable *)
Lemma iter_items_fmt : forall v items, iter_items v = Some items -> fmt_ok v = true -> forallb fmt_ok items = true.
Proof.
  intros v items H F. destruct v; simpl in H; try discriminate; injection H as <-.
  - induction s; simpl; auto.
  - simpl in F. induction s as [|c s IH]; simpl in *; [reflexivity|]. apply andb_true_iff in F as [F1 F2]. now rewrite F1, IH.
  - now rewrite <- fmt_ok_list.
  - now rewrite <- fmt_ok_tuple.
  - rewrite fmt_ok_dict in F. now apply andb_true_iff in F as [F _].
Qed.

(* no int beyond the digit limit among the bounds of a validator tree *)
Fixpoint w_fmt_ok (w : validator) : bool :=
  let fix all (l : list validator) : bool :=
    match l with [] => true | c :: l' => w_fmt_ok c && all l' end in
  match w with
  | WMin b _ | WMax b _ => fmt_ok b
  | WForEach cs | WComposite cs => all cs
  | _ => true
  end.
Lemma w_fmt_ok_foreach : forall cs, w_fmt_ok (WForEach cs) = forallb w_fmt_ok cs.
Proof. induction cs as [|c cs IH]; [reflexivity|]. simpl in *. now rewrite IH. Qed.
Lemma w_fmt_ok_composite : forall cs, w_fmt_ok (WComposite cs) = forallb w_fmt_ok cs.
Proof. induction cs as [|c cs IH]; [reflexivity|]. simpl in *. now rewrite IH. Qed.

(* ---------- handler tables ---------------------------------------------------------------------------- *)
Definition is_rv (a : haction) : bool := match a with HRaiseValidator => true | _ => false end.
Definition is_reraise (a : haction) : bool := match a with HReraise => true | _ => false end.
Definition is_raise (c : exn) (a : haction) : bool := match a with HRaise c' => exn_eqb c' c | _ => false end.

(* every handler does `act`, and every class of the documented raise-set is caught by some handler *)
Definition htable_good (act : haction -> bool) (raises : list exn) (t : htable) : bool :=
  forallb (fun row => act (snd row)) t && forallb (catches t) raises.

Definition within (e : exn) (cs : list exn) : bool := existsb (derives e) cs.

Lemma handler_found : forall act raises t e, htable_good act raises t = true -> within e raises = true ->
  exists row, find (fun row => existsb (derives e) (fst row)) t = Some row /\ act (snd row) = true.
Proof.
  intros act raises t e G W. apply andb_true_iff in G as [Ga Gc].
  apply existsb_exists in W as (c & Ic & Dc).
  rewrite forallb_forall in Gc. specialize (Gc c Ic). unfold catches in Gc.
  apply existsb_exists in Gc as (row & Ir & Hr). apply existsb_exists in Hr as (k & Ik & Dk).
  destruct (find (fun row => existsb (derives e) (fst row)) t) as [row'|] eqn:F.
  - exists row'. split; [reflexivity|]. apply find_some in F as [I' _].
    rewrite forallb_forall in Ga. now apply Ga.
  - exfalso. apply (find_none _ _ F) in Ir. simpl in Ir.
    assert (X : existsb (derives e) (fst row) = true).
    { apply existsb_exists. exists k. split; [assumption|]. eapply derives_trans; eauto. }
    congruence.
Qed.

Lemma handle_rv : forall A (rv : outcome A) raises t e, htable_good is_rv raises t = true -> within e raises = true ->
  handle rv t e = rv.
Proof.
  intros A rv raises t e G W. destruct (handler_found _ _ _ _ G W) as ([cs a] & F & Ha).
  unfold handle. rewrite F. destruct a; simpl in Ha; try discriminate. reflexivity.
Qed.

Lemma handle_raise : forall A (VE : outcome A) c raises t e, htable_good (is_raise c) raises t = true -> within e raises = true ->
  handle VE t e = Raise c.
Proof.
  intros A VE c raises t e G W. destruct (handler_found _ _ _ _ G W) as ([cs a] & F & Ha).
  unfold handle. rewrite F. destruct a; simpl in Ha; try discriminate. apply exn_eqb_eq in Ha. now subst.
Qed.

Lemma handle_reraise : forall A (VE : outcome A) t e, forallb (fun row => is_reraise (snd row)) t = true -> handle VE t e = Raise e.
Proof.
  intros A VE t e G. unfold handle.
  destruct (find (fun row => existsb (derives e) (fst row)) t) as [[cs a]|] eqn:F; [|reflexivity].
  apply find_some in F as [I _]. rewrite forallb_forall in G. specialize (G _ I). simpl in G.
  destruct a; simpl in G; try discriminate. reflexivity.
Qed.

(* ---------- the predicate ------------------------------------------------------------------------------ *)
(* Min/Max have no domain test, or one that lets every number through *)
Definition dom_numbers_ok (d : domkind) : bool :=
  match d with DomNone | DomIntFloat | DomIntFloatStr => true | _ => false end.

(* `len(value) <op> <lit>` on a sequence means "empty" *)
Definition empty_test (op : cmpop) (lit : Z) : bool :=
  match op with
  | CEq => lit =? 0
  | CLe => lit =? 0
  | CLt => lit =? 1
  | _ => false
  end.

Definition notempty_good (c : notempty_shape) : bool :=
  ne_test_strips c && match ne_return c with NERetStripIfFlag => true | _ => false end &&
  domkind_eqb (ne_seq_dom c) DomSequence && empty_test (ne_seq_op c) (ne_seq_lit c).

Definition str_list_eqb : list str -> list str -> bool := list_eqb zlist_eqb.

Definition shapes_good (S : shapes) : bool :=
  exn_eqb (s_vexc S) ValidatorExceptionC &&
  forallb (fun row => is_reraise (snd row)) (s_h_validate_param S) &&
  tests_equiv (s_min_tests S) min_ref && dom_numbers_ok (s_min_dom S) &&
  tests_equiv (s_max_tests S) max_ref && dom_numbers_ok (s_max_dom S) &&
  domkind_eqb (s_minlen_dom S) DomSized && cmpop_eqb (s_minlen_op S) CLt &&
  domkind_eqb (s_maxlen_dom S) DomSized && cmpop_eqb (s_maxlen_op S) CGt &&
  notempty_good (s_notempty S) &&
  negb (co_threads (s_composite S)) && co_returns_input (s_composite S) &&
  domkind_eqb (fe_dom (s_foreach S)) DomIterable && fe_threads (s_foreach S) && negb (fe_return_in_loop (s_foreach S)) &&
  htable_good is_rv [ValueErrorC] (s_h_is_uuid S) &&
  htable_good is_rv [ValueErrorC; TypeErrorC] (s_h_is_enum S) && s_enum_float_guard S &&
  htable_good is_rv [TypeErrorC; ValueErrorC] (s_h_iso S) &&
  domkind_eqb (s_unix_dom S) DomIntFloatStr &&
  htable_good is_rv [ValueErrorC; OverflowErrorC] (s_h_unix_float S) &&
  htable_good is_rv [OverflowErrorC; ValueErrorC] (s_h_unix_add S) &&
  matchmode_eqb (s_email_mode S) MFull && (re_eqb (s_regex_email S) email_re || re_eqb (s_regex_email S) email_re_noend) &&
  matchmode_eqb (s_matchpattern_mode S) MSearch &&
  list_eqb normop_eqb (s_cv_norm S) [NStr; NStrip; NLower] &&
  str_list_eqb (s_cv_true S) [S_true; [49]] && str_list_eqb (s_cv_false S) [S_false; [48]] &&
  exn_eqb (s_cv_bool_else S) ConversionErrorC &&
  htable_good (is_raise ConversionErrorC) [ValueErrorC] (s_h_convert S) &&
  htable_good (is_raise ConversionErrorC) [ValueErrorC] (s_h_convert_norm S).

Record good_props (S : shapes) : Prop := {
  g_vexc : s_vexc S = ValidatorExceptionC;
  g_param : forallb (fun row => is_reraise (snd row)) (s_h_validate_param S) = true;
  g_min : tests_equiv (s_min_tests S) min_ref = true;
  g_min_dom : dom_numbers_ok (s_min_dom S) = true;
  g_max : tests_equiv (s_max_tests S) max_ref = true;
  g_max_dom : dom_numbers_ok (s_max_dom S) = true;
  g_minlen_dom : s_minlen_dom S = DomSized;
  g_minlen_op : s_minlen_op S = CLt;
  g_maxlen_dom : s_maxlen_dom S = DomSized;
  g_maxlen_op : s_maxlen_op S = CGt;
  g_notempty : notempty_good (s_notempty S) = true;
  g_co_threads : co_threads (s_composite S) = false;
  g_co_ret : co_returns_input (s_composite S) = true;
  g_fe_dom : fe_dom (s_foreach S) = DomIterable;
  g_fe_threads : fe_threads (s_foreach S) = true;
  g_fe_ret : fe_return_in_loop (s_foreach S) = false;
  g_uuid : htable_good is_rv [ValueErrorC] (s_h_is_uuid S) = true;
  g_enum : htable_good is_rv [ValueErrorC; TypeErrorC] (s_h_is_enum S) = true;
  g_enum_guard : s_enum_float_guard S = true;
  g_iso : htable_good is_rv [TypeErrorC; ValueErrorC] (s_h_iso S) = true;
  g_unix_dom : s_unix_dom S = DomIntFloatStr;
  g_unix_float : htable_good is_rv [ValueErrorC; OverflowErrorC] (s_h_unix_float S) = true;
  g_unix_add : htable_good is_rv [OverflowErrorC; ValueErrorC] (s_h_unix_add S) = true;
  g_email_mode : s_email_mode S = MFull;
  g_email_re : forall s, re_fullmatch (s_regex_email S) s = email_predb s;
  g_match_mode : s_matchpattern_mode S = MSearch;
  g_norm : s_cv_norm S = [NStr; NStrip; NLower];
  g_true : s_cv_true S = [S_true; [49]];
  g_false : s_cv_false S = [S_false; [48]];
  g_bool_else : s_cv_bool_else S = ConversionErrorC;
  g_convert : htable_good (is_raise ConversionErrorC) [ValueErrorC] (s_h_convert S) = true;
  g_convert_norm : htable_good (is_raise ConversionErrorC) [ValueErrorC] (s_h_convert_norm S) = true
}.

Lemma shapes_good_props : forall S, shapes_good S = true -> good_props S.
Proof.
  intros S H. unfold shapes_good in H.
  repeat match type of H with (_ && _) = true => let H' := fresh "G" in apply andb_true_iff in H as [H H'] end.
  constructor; try assumption.
  - now apply exn_eqb_eq.
  - now apply domkind_eqb_eq.
  - now apply cmpop_eqb_eq.
  - now apply domkind_eqb_eq.
  - now apply cmpop_eqb_eq.
  - now apply negb_true_iff.
  - now apply domkind_eqb_eq.
  - now apply negb_true_iff.
  - now apply domkind_eqb_eq.
  - now apply matchmode_eqb_eq.
  - intro s. match goal with X : _ || _ = true |- _ => apply orb_true_iff in X as [X|X]; apply re_eqb_eq in X; rewrite X end;
      [apply email_re_predb | apply email_re_noend_predb].
  - now apply matchmode_eqb_eq.
  - now apply (list_eqb_eq _ _ normop_eqb_eq).
  - now apply (list_eqb_eq _ _ zlist_eqb_eq).
  - now apply (list_eqb_eq _ _ zlist_eqb_eq).
  - now apply exn_eqb_eq.
Qed.

(* ---------- what is assumed of the stdlib oracles: their documented raise-sets ----------------------- *)
Definition raises_within {A} (o : outcome A) (cs : list exn) : Prop :=
  match o with Ok _ => True | Raise e => within e cs = true end.

Record oracles_ok (O : oracles) : Prop := {
  ok_int : forall s, raises_within (o_int_of_str O s) [ValueErrorC];
  ok_intb : forall s, raises_within (o_int_of_bytes O s) [ValueErrorC];
  ok_float : forall s, raises_within (o_float_of_str O s) [ValueErrorC];
  ok_uuid : forall s, raises_within (o_uuid O s) [ValueErrorC];
  ok_iso : forall v, raises_within (o_fromiso O v) [TypeErrorC; ValueErrorC];
  ok_epoch : forall f, raises_within (o_epoch_plus O f) [OverflowErrorC; ValueErrorC];
  (* ... and that what they return (a UUID, a datetime) prints *)
  ok_uuid_fmt : forall s u, o_uuid O s = Ok u -> fmt_ok u = true;
  ok_iso_fmt : forall v d, o_fromiso O v = Ok d -> fmt_ok d = true;
  ok_epoch_fmt : forall f d, o_epoch_plus O f = Ok d -> fmt_ok d = true
}.

Lemma within_more : forall e cs cs', within e cs = true -> incl cs cs' -> within e cs' = true.
Proof.
  intros e cs cs' W I. apply existsb_exists in W as (c & Ic & D). apply existsb_exists. exists c. auto.
Qed.
