(* The checker of the whole-library model (Model.Checker.assert_matches1 over the regenerated tables) satisfies the
   hypotheses under which C03 / C04 are stated: by the C01 / C02 theorems of Proofs/CheckerTop.v.     *)
From Coq Require Import List Arith Bool.
From PV Require Import Base.Exn Base.Values Base.Ann Model.CheckerCfg Model.Checker Spec.Conforms
  Proofs.CheckerGood Proofs.CheckerTop Proofs.CheckerRaises Gen.CheckerTables Model.PedanticEval.
Import ListNotations.

Definition gcfg : CheckerCfg.checker_cfg := Gen.CheckerTables.checker_cfg.

Lemma checker_good : CheckerGood.good_facts gcfg.
Proof. apply cfg_good_facts. vm_compute. reflexivity. Qed.

Lemma checker1_denotation : forall ctx a v tv, supported ctx a = true ->
  exists b : bool, checker1 ctx a v tv = ((if b then Ok tt else Raise PTypeCheckC) : outcome unit, tv).
Proof.
  intros ctx a v tv Hs. unfold checker1, assert_matches1. change Gen.CheckerTables.checker_cfg with gcfg.
  rewrite (assert_pure gcfg checker_good ctx (is_inst0 gcfg ctx) a Hs v tv). eexists. reflexivity.
Qed.

Lemma checker1_rejects : forall ctx a v tv, supported ctx a = true -> conforms ctx a v = MustNot ->
  fst (checker1 ctx a v tv) = Raise PTypeCheckC.
Proof.
  intros ctx a v tv Hs Hn. destruct (checker1_denotation ctx a v tv Hs) as [b E].
  destruct (nonconforming_rejected gcfg checker_good ctx (is_inst0 gcfg ctx) a v tv Hs Hn) as [e [E2 _]].
  unfold checker1, assert_matches1 in E. change Gen.CheckerTables.checker_cfg with gcfg in E. rewrite E2 in E. destruct b; [discriminate|].
  unfold checker1, assert_matches1. change Gen.CheckerTables.checker_cfg with gcfg. rewrite E2. simpl. now inversion E.
Qed.

Lemma checker1_accepts : forall ctx a v tv, supported ctx a = true -> conforms ctx a v = Must ->
  fst (checker1 ctx a v tv) = Ok tt.
Proof.
  intros ctx a v tv Hs Hm. unfold checker1, assert_matches1. change Gen.CheckerTables.checker_cfg with gcfg.
  now rewrite (complete gcfg checker_good ctx (is_inst0 gcfg ctx) a v tv Hs Hm).
Qed.

Lemma checker1_raises_ptc_only : forall ctx a v tv e, supported ctx a = true ->
  fst (checker1 ctx a v tv) = Raise e -> e = PTypeCheckC.
Proof.
  intros ctx a v tv e Hs H. destruct (checker1_denotation ctx a v tv Hs) as [b E]. rewrite E in H.
  destruct b; simpl in H; [discriminate|now inversion H].
Qed.

Lemma checker1_sound : forall ctx a v tv tv', supported ctx a = true ->
  checker1 ctx a v tv = (Ok tt, tv') -> conforms ctx a v <> MustNot.
Proof.
  intros ctx a v tv tv' Hs H. apply (sound gcfg checker_good ctx (is_inst0 gcfg ctx) a v tv Hs).
  unfold checker1, assert_matches1 in H. change Gen.CheckerTables.checker_cfg with gcfg in H. now rewrite H.
Qed.

(* on its whole domain (supported or not) the modelled assert_value_matches_type returns or raises a PedanticException *)
Lemma checker1_pedantic_only : forall ctx a v tv e, fst (checker1 ctx a v tv) = Raise e -> is_pedantic e = true.
Proof.
  intros ctx a v tv e H. pose proof (assert_matches1_contained gcfg ctx checker_good a v tv) as Hc.
  unfold checker1 in H. change Gen.CheckerTables.checker_cfg with gcfg in H. now rewrite H in Hc.
Qed.
