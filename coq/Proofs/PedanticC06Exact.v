(* C06, wrapper half, with the CLASS of the exception: on a keyword call that does not trip the receiver / source-text
   indexing (machinery_ok), with a checker whose rejections are PedanticTypeCheckExceptions, a missing or always-rejected
   parameter annotation ends in an exception derived from PedanticTypeCheckException before the body runs; a missing or
   always-rejected return annotation ends in such an exception or in what the body itself raised.                       *)
From Coq Require Import List Arith Bool Lia String.
From PV Require Import Base.Exn Base.Values Base.Ann Base.PyCall Model.Checker Model.PedanticCfg Model.Pedantic Proofs.PedanticBase
  Proofs.PedanticC06 Proofs.PedanticC08.
Import ListNotations.
Open Scope list_scope.

Section C06Exact.
  Variable pc : pedantic_cfg.
  Variable check : ann -> value -> tvenv -> outcome unit * tvenv.
  Variable consumes : ann -> value -> bool.
  Hypothesis good : pc_good pc = true.
  (* the annotations on which the checker is known to reject with PedanticTypeCheckException (e.g. the supported vocabulary) *)
  Variable okann : ann -> Prop.
  Hypothesis check_tc : forall a, okann a -> forall v tv e tv', check a v tv = (Raise e, tv') -> derives e PTypeCheckC = true.
  Let G := good_inv pc good.

  Definition tc_out {A} (r : outcome A) : Prop := match r with Ok _ => True | Raise e => derives e PTypeCheckC = true end.

  Lemma bind_tc {A B} (r : outcome A) (k : A -> outcome B) : tc_out r -> (forall x, tc_out (k x)) -> tc_out (Exn.bind r k).
  Proof. intros Hr Hk. destruct r as [x|e]; cbn; [apply Hk | exact Hr]. Qed.

  Section Passes.
    Variable f : fn.
    Variable c : call.
    Variable inst : option value.
    Hypothesis Hprobe : clazz_probe f c inst = Ok tt.
    Hypothesis Hann : forall p a, In p (params_without_self f) -> p_ann p = Some a -> okann a.

    Lemma chk_tc a v s st : okann a -> tc_out (chk check consumes f c inst a v s st).
    Proof.
      intro Ha. unfold chk. rewrite Hprobe. destruct (check a v (a_tv st)) as [[u|e] tv'] eqn:E; [exact I|].
      cbn. eapply check_tc; eassumption.
    Qed.

    Lemma pass_named_tc : forall ps idx st, incl ps (params_without_self f) -> tc_out (pass_named pc check consumes f c inst ps idx st).
    Proof.
      induction ps as [|p ps IH]; intros idx st Hi; cbn [pass_named]; [exact I|].
      assert (Hi' : incl ps (params_without_self f)) by (intros q Hq; apply Hi; now right).
      destruct (p_ann p) as [a|] eqn:Ea; [|reflexivity].
      assert (Hok : okann a) by (apply (Hann p a); [apply Hi; now left | exact Ea]).
      destruct (if takes_keyword p then kw_get (p_name p) (c_kwargs c) else None); [apply bind_tc; [now apply chk_tc | intro; now apply IH]|].
      destruct (_ && _); [apply bind_tc; [now apply chk_tc | intro; now apply IH]|].
      destruct (p_default p); [apply bind_tc; [now apply chk_tc | intro; now apply IH] | reflexivity].
    Qed.

    Lemma chk_all_tc a : okann a -> forall l st, tc_out (chk_all check consumes f c inst a l st).
    Proof.
      intro Ha. induction l as [|[v s] l IH]; intro st; cbn [chk_all]; [exact I|].
      apply bind_tc; [now apply chk_tc | intro; apply IH].
    Qed.

    Lemma args_phase_tc st : tc_out (args_phase pc check consumes f c inst st).
    Proof.
      unfold args_phase. rewrite (gf_passes pc G). cbn [run_passes run_pass].
      apply bind_tc; [apply pass_named_tc; apply incl_filter|]. intro st1.
      apply bind_tc.
      - unfold pass_varpos. destruct (filter is_varpos (params_without_self f)) as [|p ?] eqn:Ef; [exact I|].
        destruct (p_ann p) as [a|] eqn:Ea; [|reflexivity]. apply chk_all_tc. apply (Hann p a); [|exact Ea].
        assert (Hin : In p (filter is_varpos (params_without_self f))) by (rewrite Ef; now left).
        now apply filter_In in Hin as [? _].
      - intro st2. apply bind_tc; [|intro; exact I].
        unfold pass_varkw. destruct (filter is_varkw (params_without_self f)) as [|p ?] eqn:Ef; [exact I|].
        destruct (p_ann p) as [a|] eqn:Ea; [|reflexivity]. apply chk_all_tc. apply (Hann p a); [|exact Ea].
        assert (Hin : In p (filter is_varkw (params_without_self f))) by (rewrite Ef; now left).
        now apply filter_In in Hin as [? _].
    Qed.
  End Passes.

  (* every annotation the function carries is one of those *)
  Definition anns_ok (f : fn) : Prop :=
    (forall p a, In p (params_without_self f) -> p_ann p = Some a -> okann a) /\ (forall a, f_ret f = Some a -> okann a).

  Definition raises_tc {A} (r : outcome A) : Prop := exists e, r = Raise e /\ derives e PTypeCheckC = true.

  (* the common skeleton: an argument phase that never succeeds ends the call with a type-check exception, body not run *)
  Lemma args_never_exact : forall f c bd, machinery_ok f c -> assert_uses_kwargs pc f c = Ok tt -> anns_ok f ->
    (forall inst st, never_ok (args_phase pc check consumes f c inst st)) ->
    raises_tc (fst (run pc check consumes f c bd)) /\ snd (run pc check consumes f c bd) = [].
  Proof.
    intros f c bd Hm Hkw [Hann _] Hnever. pose proof (fun inst => probe_ok f c inst Hm) as Hprobe0. destruct Hm as [Hinst _].
    unfold run, wrapper_run.
    destruct (instance_of f c) as [inst|e] eqn:Ei.
    2:{ exfalso. unfold instance_of in Ei. destruct (is_instance_method f); [|discriminate].
        destruct (wargs c) eqn:Ew; [|discriminate]. now apply (Hinst eq_refl). }
    unfold pedantic_wrapper. assert (Hw : (if f_coroutine f then pc_async_wrapper pc else pc_wrapper pc) = [WAssertKwargs; WCheckTypes]).
    { destruct (f_coroutine f); [apply (gf_awrap pc G) | apply (gf_wrap pc G)]. }
    rewrite Hw. cbn [wsteps]. rewrite Hkw.
    unfold check_types, check_steps.
    assert (Hs : (if f_coroutine f then pc_async_steps pc else pc_sync_steps pc) = [StArgs; StCall; StRetCheck]).
    { destruct (f_coroutine f); [apply (gf_asteps pc G) | apply (gf_steps pc G)]. }
    rewrite Hs. cbn [steps].
    pose proof (Hnever inst astate0) as Hn. pose proof (args_phase_tc f c inst (Hprobe0 inst) Hann astate0) as Ht.
    destruct (args_phase pc check consumes f c inst astate0) as [st|e]; [destruct Hn|].
    split; [exists e; split; [reflexivity | exact Ht] | reflexivity].
  Qed.

  Theorem missing_param_annotation_exact : forall f c bd, machinery_ok f c -> assert_uses_kwargs pc f c = Ok tt -> anns_ok f ->
    missing_named f \/ missing_varpos f \/ missing_varkw f ->
    raises_tc (fst (run pc check consumes f c bd)) /\ snd (run pc check consumes f c bd) = [].
  Proof.
    intros f c bd Hm Hkw Hok H. apply args_never_exact; try assumption.
    intros inst st. exact (args_phase_missing pc check consumes good f c inst st H).
  Qed.

  Theorem rejecting_param_annotation_exact : forall f c bd, machinery_ok f c -> assert_uses_kwargs pc f c = Ok tt -> anns_ok f ->
    (exists p a, In p (filter (fun p => negb (is_star p)) (params_without_self f)) /\ p_ann p = Some a /\ always_rejects check a) ->
    raises_tc (fst (run pc check consumes f c bd)) /\ snd (run pc check consumes f c bd) = [].
  Proof.
    intros f c bd Hm Hkw Hok H. apply args_never_exact; try assumption.
    intros inst st. unfold args_phase. rewrite (gf_passes pc G). cbn [run_passes run_pass].
    apply bind_never. intros x Hx. exfalso.
    pose proof (pass_named_rejecting pc check consumes f c inst _ (if is_instance_method f then 1 else 0) st H) as Hmm.
    rewrite Hx in Hmm. exact Hmm.
  Qed.

  (* return side: a PedanticTypeCheckException, or what the body itself raised *)
  Definition raises_tc_or_body (bd : body) (r : outcome value) : Prop :=
    exists e, r = Raise e /\ (derives e PTypeCheckC = true \/ exists b cons, bd b cons = Raise e).

  Lemma ret_never_exact : forall f c bd, machinery_ok f c -> assert_uses_kwargs pc f c = Ok tt -> anns_ok f ->
    same_positionals pc f c -> twin_accepts f c ->
    (forall inst st v, never_ok (ret_value check f c inst st v)) ->
    raises_tc_or_body bd (fst (run pc check consumes f c bd)).
  Proof.
    intros f c bd Hm Hkw [Hann Hret] Hsame [bt Htwin] Hnever. pose proof (fun inst => probe_ok f c inst Hm) as Hprobe0. destruct Hm as [Hinst _].
    unfold run, wrapper_run.
    destruct (instance_of f c) as [inst|e] eqn:Ei.
    2:{ exfalso. unfold instance_of in Ei. destruct (is_instance_method f); [|discriminate].
        destruct (wargs c) eqn:Ew; [|discriminate]. now apply (Hinst eq_refl). }
    pose proof (Hprobe0 inst) as Hprobe.
    unfold pedantic_wrapper. assert (Hw : (if f_coroutine f then pc_async_wrapper pc else pc_wrapper pc) = [WAssertKwargs; WCheckTypes]).
    { destruct (f_coroutine f); [apply (gf_awrap pc G) | apply (gf_wrap pc G)]. }
    rewrite Hw. cbn [wsteps]. rewrite Hkw.
    unfold check_types, check_steps.
    assert (Hs : (if f_coroutine f then pc_async_steps pc else pc_sync_steps pc) = [StArgs; StCall; StRetCheck]).
    { destruct (f_coroutine f); [apply (gf_asteps pc G) | apply (gf_steps pc G)]. }
    rewrite Hs. cbn [steps].
    pose proof (args_phase_tc f c inst Hprobe Hann astate0) as Ht.
    destruct (args_phase pc check consumes f c inst astate0) as [st|e]; [|exists e; split; [reflexivity | left; exact Ht]].
    unfold invoke. unfold same_positionals in Hsame. rewrite Hsame, Htwin.
    destruct (bd bt (a_cons st)) as [r|e] eqn:Ebd.
    2:{ cbn. exists e. split; [reflexivity|]. right. eauto. }
    cbn [fst]. pose proof (Hnever inst st r) as Hn.
    assert (Htc : tc_out (ret_value check f c inst st r)).
    { unfold ret_value. destruct (f_ret f) as [a|] eqn:Er; [|reflexivity]. rewrite Hprobe.
      destruct (check a r (a_tv st)) as [[u|e] tv'] eqn:Ec; [exact I|]. cbn. eapply check_tc; [apply Hret; reflexivity | eassumption]. }
    destruct (ret_value check f c inst st r) as [v|e]; [destruct Hn|].
    exists e. split; [reflexivity | left; exact Htc].
  Qed.

  Theorem missing_return_annotation_exact : forall f c bd, machinery_ok f c -> assert_uses_kwargs pc f c = Ok tt -> anns_ok f ->
    same_positionals pc f c -> twin_accepts f c -> f_ret f = None ->
    raises_tc_or_body bd (fst (run pc check consumes f c bd)).
  Proof.
    intros f c bd Hm Hkw Hok Hs Ht H. apply ret_never_exact; try assumption.
    intros inst st v. unfold ret_value. rewrite H. exact I.
  Qed.

  Theorem rejecting_return_annotation_exact : forall f c bd a, machinery_ok f c -> assert_uses_kwargs pc f c = Ok tt -> anns_ok f ->
    same_positionals pc f c -> twin_accepts f c -> f_ret f = Some a -> always_rejects check a ->
    raises_tc_or_body bd (fst (run pc check consumes f c bd)).
  Proof.
    intros f c bd a Hm Hkw Hok Hs Ht H Ha. apply ret_never_exact; try assumption.
    intros inst st v. unfold ret_value. rewrite H. destruct (clazz_probe f c inst); [|exact I].
    destruct (Ha v (a_tv st)) as [e [tv' ->]]. exact I.
  Qed.
End C06Exact.
