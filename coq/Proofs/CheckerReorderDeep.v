(* C02, iteration order at any depth: the verdict does not change when the elements of a set / frozenset
   or the items of a dict / defaultdict are permuted ANYWHERE inside the value (inside a list inside a
   dict value inside a tuple ...), not only at the top.                                               *)
From Coq Require Import List Arith Bool ZArith Lia Permutation.
From PV Require Import Base.Exn Base.Values Base.Ann Model.CheckerCfg Model.Checker Spec.Conforms Proofs.CheckerGood
  Proofs.CheckerSpell.
Import ListNotations.

(* v' is v with the iteration order of any number of sets / frozensets / dicts / defaultdicts inside it changed *)
Inductive dreorder : value -> value -> Prop :=
| dr_refl : forall v, dreorder v v
| dr_list : forall l l', dreorder_list l l' -> dreorder (VList l) (VList l')
| dr_tuple : forall l l', dreorder_list l l' -> dreorder (VTuple l) (VTuple l')
| dr_deque : forall l l', dreorder_list l l' -> dreorder (VDeque l) (VDeque l')
| dr_set : forall l mid l', dreorder_list l mid -> Permutation mid l' -> dreorder (VSet l) (VSet l')
| dr_fset : forall l mid l', dreorder_list l mid -> Permutation mid l' -> dreorder (VFrozenSet l) (VFrozenSet l')
| dr_dict : forall k mid k', dreorder_pairs k mid -> Permutation mid k' -> dreorder (VDict k) (VDict k')
| dr_ddict : forall k mid k', dreorder_pairs k mid -> Permutation mid k' -> dreorder (VDefaultDict k) (VDefaultDict k')
| dr_odict : forall k k', dreorder_pairs k k' -> dreorder (VOrderedDict k) (VOrderedDict k')
with dreorder_list : list value -> list value -> Prop :=
| drl_nil : dreorder_list [] []
| drl_cons : forall v v' l l', dreorder v v' -> dreorder_list l l' -> dreorder_list (v :: l) (v' :: l')
with dreorder_pairs : list (value * value) -> list (value * value) -> Prop :=
| drp_nil : dreorder_pairs [] []
| drp_cons : forall k k' v v' l l', dreorder k k' -> dreorder v v' -> dreorder_pairs l l' ->
    dreorder_pairs ((k, v) :: l) ((k', v') :: l').

Scheme dreorder_mut := Induction for dreorder Sort Prop
  with dreorder_list_mut := Induction for dreorder_list Sort Prop
  with dreorder_pairs_mut := Induction for dreorder_pairs Sort Prop.

Section Deep.
  Variable cfg : checker_cfg.
  Variable ctx : nat -> option cls.
  Notation chk := (chk cfg ctx).

  (* what the checker can see of an ordered element list *)
  Definition elems_equiv (l l' : list value) : Prop :=
    (forall a, forallb (chk a) l = forallb (chk a) l') /\ (forall args, zipb cfg ctx args l = zipb cfg ctx args l') /\
    List.length l = List.length l'.
  (* ... of an unordered one *)
  Definition bag_equiv (l l' : list value) : Prop := forall a, forallb (chk a) l = forallb (chk a) l'.
  Definition pairs_equiv (k k' : list (value * value)) : Prop :=
    (forall ka va, forallb (fun kv => chk ka (fst kv) && chk va (snd kv)) k = forallb (fun kv => chk ka (fst kv) && chk va (snd kv)) k') /\
    (forall a, forallb (chk a) (map fst k) = forallb (chk a) (map fst k')).

  (* one layer: same constructor, children indistinguishable for the checker *)
  Inductive shape_rel : value -> value -> Prop :=
  | sr_refl : forall v, shape_rel v v
  | sr_list : forall l l', elems_equiv l l' -> shape_rel (VList l) (VList l')
  | sr_tuple : forall l l', elems_equiv l l' -> shape_rel (VTuple l) (VTuple l')
  | sr_deque : forall l l', elems_equiv l l' -> shape_rel (VDeque l) (VDeque l')
  | sr_set : forall l l', bag_equiv l l' -> shape_rel (VSet l) (VSet l')
  | sr_fset : forall l l', bag_equiv l l' -> shape_rel (VFrozenSet l) (VFrozenSet l')
  | sr_dict : forall k k', pairs_equiv k k' -> shape_rel (VDict k) (VDict k')
  | sr_ddict : forall k k', pairs_equiv k k' -> shape_rel (VDefaultDict k) (VDefaultDict k')
  | sr_odict : forall k k', pairs_equiv k k' -> shape_rel (VOrderedDict k) (VOrderedDict k').

  Lemma shape_class v v' : shape_rel v v' -> class_of v = class_of v'.
  Proof. destruct 1; reflexivity. Qed.

  Lemma shape_scalar v v' x : shape_rel v v' -> py_eq_scalar v x = py_eq_scalar v' x.
  Proof. destruct 1; reflexivity. Qed.

  Lemma shape_callable v v' ps r : shape_rel v v' -> callable_check cfg ps r v = callable_check cfg ps r v'.
  Proof. destruct 1; reflexivity. Qed.

  Lemma chk_shape : forall a v v', shape_rel v v' -> chk a v = chk a v'.
  Proof.
    induction a as [ | c | | sp args IHargs | vals | s IHs | n | n | sp o args IHargs | sp e IHe | sp | o | ps r IHps IHr | t | k]
      using ann_ind'; intros v v' Hr; pose proof (shape_class v v' Hr) as Hc.
    - destruct Hr; reflexivity.
    - cbn [CheckerGood.chk]. unfold isinstance. now rewrite Hc.
    - reflexivity.
    - cbn [CheckerGood.chk]. rewrite Forall_forall in IHargs. apply existsb_ext_in. intros m Hm. now apply IHargs.
    - cbn [CheckerGood.chk]. unfold py_in_scalar. apply existsb_ext_in. intros x _. now apply shape_scalar.
    - destruct s; exact (IHs v v' Hr).
    - cbn [CheckerGood.chk]. destruct (ctx n); [|reflexivity]. unfold isinstance. now rewrite Hc.
    - cbn [CheckerGood.chk]. destruct (ctx n); [|reflexivity]. unfold isinstance. now rewrite Hc.
    - (* generic *)
      destruct (origin_kind o) eqn:Ek.
      + cbn [CheckerGood.chk]. rewrite Ek, Hc.
        destruct args as [|a0 [|? ?]]; try reflexivity. f_equal.
        destruct Hr as [v|l l' [H _]|l l' [H _]|l l' [H _]|l l' H|l l' H|k k' [_ H]|k k' [_ H]|k k' [_ H]]; cbn [iter_values];
          try reflexivity; apply H.
      + cbn [CheckerGood.chk]. rewrite Ek, Hc.
        destruct args as [|ka [|va [|? ?]]]; try reflexivity. f_equal.
        destruct Hr as [v|l l' _|l l' _|l l' _|l l' _|l l' _|k k' [H _]|k k' [H _]|k k' [H _]]; cbn [items_of]; try reflexivity; apply H.
      + cbn [CheckerGood.chk]. rewrite Ek, Hc.
        destruct args as [|ka [|va [|? ?]]]; try reflexivity.
        destruct Hr; reflexivity.
      + assert (o = TTuple) by (destruct o; try discriminate Ek; reflexivity). subst o.
        rewrite !chk_tuple_zipb.
        destruct Hr as [v|l l' _|l l' [_ [Hz Hl]]|l l' _|l l' _|l l' _|k k' _|k k' _|k k' _]; try reflexivity.
        now rewrite Hz, Hl.
      + cbn [CheckerGood.chk]. rewrite Ek.
        destruct args as [|a0 [|? ?]]; try reflexivity. destruct Hr; reflexivity.
      + cbn [CheckerGood.chk]. rewrite Ek. reflexivity.
    - cbn [CheckerGood.chk].
      destruct Hr as [v|l l' _|l l' [H _]|l l' _|l l' _|l l' _|k k' _|k k' _|k k' _]; try reflexivity. apply H.
    - cbn [CheckerGood.chk].
      destruct Hr as [v|l l' _|l l' [_ [_ Hl]]|l l' _|l l' _|l l' _|k k' _|k k' _|k k' _]; try reflexivity.
      destruct l, l'; try discriminate Hl; reflexivity.
    - reflexivity.
    - cbn [CheckerGood.chk]. now rewrite (shape_callable v v' ps r Hr).
    - reflexivity.
    - reflexivity.
  Qed.

  Lemma bag_perm l l' : Permutation l l' -> bag_equiv l l'.
  Proof. intros H a. now apply forallb_perm. Qed.

  Lemma pairs_perm k k' : Permutation k k' -> pairs_equiv k k'.
  Proof.
    intro H. split.
    - intros ka va. now apply forallb_perm.
    - intro a. apply forallb_perm. now apply Permutation_map.
  Qed.

  Theorem deep_iteration_order_independent : forall v v', dreorder v v' -> forall a, chk a v = chk a v'.
  Proof.
    apply (dreorder_mut (fun v v' _ => forall a, chk a v = chk a v')
                        (fun l l' _ => elems_equiv l l')
                        (fun k k' _ => pairs_equiv k k')).
    - reflexivity.
    - intros l l' _ H a. apply chk_shape. now constructor.
    - intros l l' _ H a. apply chk_shape. now constructor.
    - intros l l' _ H a. apply chk_shape. now constructor.
    - intros l mid l' _ [H _] Hp a. apply chk_shape. apply sr_set. intro b. rewrite H. now apply bag_perm.
    - intros l mid l' _ [H _] Hp a. apply chk_shape. apply sr_fset. intro b. rewrite H. now apply bag_perm.
    - intros k mid k' _ [H1 H2] Hp a. apply chk_shape. apply sr_dict. destruct (pairs_perm _ _ Hp) as [P1 P2]. split.
      + intros ka va. now rewrite H1, P1.
      + intro b. now rewrite H2, P2.
    - intros k mid k' _ [H1 H2] Hp a. apply chk_shape. apply sr_ddict. destruct (pairs_perm _ _ Hp) as [P1 P2]. split.
      + intros ka va. now rewrite H1, P1.
      + intro b. now rewrite H2, P2.
    - intros k k' _ H a. apply chk_shape. now constructor.
    - repeat split; reflexivity.
    - intros v v' l l' _ Hv _ [Hf [Hz Hl]]. repeat split.
      + intro a. cbn [forallb]. now rewrite Hv, Hf.
      + intros [|a0 args]; [reflexivity|]. cbn [zipb]. now rewrite Hv, Hz.
      + cbn [List.length]. now rewrite Hl.
    - split; reflexivity.
    - intros k k' v v' l l' _ Hk _ Hv _ [H1 H2]. split.
      + intros ka va. cbn [forallb fst snd]. now rewrite Hk, Hv, H1.
      + intro a. cbn [map forallb fst]. now rewrite Hk, H2.
  Qed.

  (* the top-level relation of CheckerSpell is an instance *)
  Lemma drl_refl : forall l, dreorder_list l l.
  Proof. induction l; constructor; [apply dr_refl|assumption]. Qed.
  Lemma drp_refl : forall k, dreorder_pairs k k.
  Proof. induction k as [|[a b] k IH]; constructor; try apply dr_refl; assumption. Qed.
  Lemma reorder_is_deep v v' : reorder v v' -> dreorder v v'.
  Proof.
    destruct v, v'; cbn; intro H; try contradiction.
    - apply (dr_set _ l); [apply drl_refl|exact H].
    - apply (dr_fset _ l); [apply drl_refl|exact H].
    - apply (dr_dict _ kvs); [apply drp_refl|exact H].
  Qed.
End Deep.
