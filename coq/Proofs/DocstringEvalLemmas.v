(* C19 - lemmas about the evaluation of documented type expressions (Model/DocstringTyping.v: eval):
   how the result depends on the context (eval_ext, eval_approx), and which class names the value
   of an expression mentions (eval_names).                                                        *)
From Coq Require Import List Bool Arith String Lia.
From PV Require Import Base.Exn Model.DocstringTyping Proofs.DocstringTy.
Import ListNotations.
Open Scope string_scope.
Open Scope list_scope.

(* ---- induction principle for expressions ------------------------------------------------------ *)
Section TexprInd.
  Variable P : texpr -> Prop.
  Hypothesis HNone : P ENone.
  Hypothesis HEll : P EEllipsis.
  Hypothesis HName : forall n, P (EName n).
  Hypothesis HSub : forall f s, P f -> P s -> P (ESub f s).
  Hypothesis HTuple : forall l, Forall P l -> P (ETuple l).
  Hypothesis HList : forall l, Forall P l -> P (EList l).
  Hypothesis HOr : forall a b, P a -> P b -> P (EOr a b).
  Hypothesis HAttr : forall e a, P e -> P (EAttr e a).
  Hypothesis HInv : P EInvalidSyntax.

  Fixpoint texpr_ind' (e : texpr) : P e :=
    let go := fix go (l : list texpr) : Forall P l :=
      match l with
      | [] => Forall_nil P
      | x :: r => Forall_cons x (texpr_ind' x) (go r)
      end in
    match e with
    | ENone => HNone
    | EEllipsis => HEll
    | EName n => HName n
    | ESub f s => HSub f s (texpr_ind' f) (texpr_ind' s)
    | ETuple l => HTuple l (go l)
    | EList l => HList l (go l)
    | EOr a b => HOr a b (texpr_ind' a) (texpr_ind' b)
    | EAttr e a => HAttr e a (texpr_ind' e)
    | EInvalidSyntax => HInv
    end.
End TexprInd.

(* ---- unfolding --------------------------------------------------------------------------------- *)
Definition lookup (ctx : list string) (n : string) : outcome ty :=
  if mem n ctx then Ok (TCls n)
  else match globals n with Some v => Ok v | None => Raise NameErrorC end.

Lemma eval_EName : forall ctx n, eval ctx (EName n) = lookup ctx n.
Proof. reflexivity. Qed.

Lemma inline_evals : forall ctx l,
  (fix evals0 (l : list texpr) : outcome (list ty) :=
     match l with
     | [] => Ok []
     | x :: r => bind (eval ctx x) (fun x' => bind (evals0 r) (fun r' => Ok (x' :: r')))
     end) l = evals ctx l.
Proof. induction l as [|x r IH]; [reflexivity|]. cbn [evals]. now rewrite <- IH. Qed.

Lemma eval_ETuple : forall ctx l, eval ctx (ETuple l) = bind (evals ctx l) (fun l' => Ok (TTup l')).
Proof. intros. cbn [eval]. now rewrite inline_evals. Qed.

Lemma eval_EList : forall ctx l, eval ctx (EList l) = bind (evals ctx l) (fun l' => Ok (TLst l')).
Proof. intros. cbn [eval]. now rewrite inline_evals. Qed.

Lemma eval_ESub : forall ctx f s,
  eval ctx (ESub f s) = bind (eval ctx f) (fun f' => bind (eval ctx s) (fun s' => subscript f' s')).
Proof. reflexivity. Qed.

Lemma eval_EOr : forall ctx a b,
  eval ctx (EOr a b) = bind (eval ctx a) (fun a' => bind (eval ctx b) (fun b' => or_ty a' b')).
Proof. reflexivity. Qed.

Lemma eval_EAttr : forall ctx e a, eval ctx (EAttr e a) = bind (eval ctx e) (fun _ => Raise AttributeErrorC).
Proof. reflexivity. Qed.

Lemma bind_Ok_inv : forall {A B} (m : outcome A) (f : A -> outcome B) b,
  bind m f = Ok b -> exists a, m = Ok a /\ f a = Ok b.
Proof. intros A B [a|e] f b H; cbn in H; [eauto|discriminate]. Qed.

(* ---- the result only depends on how the names of the expression resolve --------------------------- *)
Lemma evals_ext : forall c1 c2 l,
  Forall (fun e => eval c1 e = eval c2 e) l -> evals c1 l = evals c2 l.
Proof.
  induction l as [|x r IH]; intros H; [reflexivity|]. inversion H; subst. cbn [evals].
  rewrite H2, IH; auto.
Qed.

Lemma eval_ext : forall c1 c2 e,
  (forall n, In n (enames e) -> lookup c1 n = lookup c2 n) -> eval c1 e = eval c2 e.
Proof.
  intros c1 c2. induction e using texpr_ind'; intros Hn; try reflexivity.
  - rewrite !eval_EName. apply Hn. now left.
  - rewrite !eval_ESub. cbn [enames] in Hn.
    rewrite IHe1, IHe2; [reflexivity| |]; intros; apply Hn; apply in_app_iff; auto.
  - rewrite !eval_ETuple. f_equal. apply evals_ext. rewrite Forall_forall in *. intros x Hx. apply H; [assumption|].
    intros n Hi. apply Hn. cbn [enames]. apply in_flat_map. eauto.
  - rewrite !eval_EList. f_equal. apply evals_ext. rewrite Forall_forall in *. intros x Hx. apply H; [assumption|].
    intros n Hi. apply Hn. cbn [enames]. apply in_flat_map. eauto.
  - rewrite !eval_EOr. cbn [enames] in Hn.
    rewrite IHe1, IHe2; [reflexivity| |]; intros; apply Hn; apply in_app_iff; auto.
  - rewrite !eval_EAttr. cbn [enames] in Hn. now rewrite IHe.
Qed.

(* a smaller context: the same result, or a NameError *)
Definition approx {A} (x y : outcome A) : Prop := x = y \/ x = Raise NameErrorC.

Lemma bind_approx : forall {A B} (m1 m2 : outcome A) (f1 f2 : A -> outcome B),
  approx m1 m2 -> (forall a, approx (f1 a) (f2 a)) -> approx (bind m1 f1) (bind m2 f2).
Proof.
  intros A B m1 m2 f1 f2 [E|E] Hf; subst.
  - destruct m2 as [a|x]; cbn; [apply Hf|now left].
  - right. reflexivity.
Qed.

Lemma approx_refl : forall {A} (x : outcome A), approx x x.
Proof. now left. Qed.

Lemma evals_approx : forall c1 c2 l,
  Forall (fun e => approx (eval c1 e) (eval c2 e)) l -> approx (evals c1 l) (evals c2 l).
Proof.
  induction l as [|x r IH]; intros H; [apply approx_refl|]. inversion H; subst. cbn [evals].
  apply bind_approx; [assumption|]. intros a. apply bind_approx; [auto|]. intros; apply approx_refl.
Qed.

Lemma eval_approx : forall c1 c2 e,
  (forall n, In n (enames e) -> approx (lookup c1 n) (lookup c2 n)) -> approx (eval c1 e) (eval c2 e).
Proof.
  intros c1 c2. induction e using texpr_ind'; intros Hn; try apply approx_refl.
  - rewrite !eval_EName. apply Hn. now left.
  - rewrite !eval_ESub. cbn [enames] in Hn. apply bind_approx.
    + apply IHe1. intros; apply Hn; apply in_app_iff; auto.
    + intros f'. apply bind_approx; [|intros; apply approx_refl].
      apply IHe2. intros; apply Hn; apply in_app_iff; auto.
  - rewrite !eval_ETuple. apply bind_approx; [|intros; apply approx_refl].
    apply evals_approx. rewrite Forall_forall in *. intros x Hx. apply H; [assumption|].
    intros n Hi. apply Hn. cbn [enames]. apply in_flat_map. eauto.
  - rewrite !eval_EList. apply bind_approx; [|intros; apply approx_refl].
    apply evals_approx. rewrite Forall_forall in *. intros x Hx. apply H; [assumption|].
    intros n Hi. apply Hn. cbn [enames]. apply in_flat_map. eauto.
  - rewrite !eval_EOr. cbn [enames] in Hn. apply bind_approx.
    + apply IHe1. intros; apply Hn; apply in_app_iff; auto.
    + intros f'. apply bind_approx; [|intros; apply approx_refl].
      apply IHe2. intros; apply Hn; apply in_app_iff; auto.
  - rewrite !eval_EAttr. cbn [enames] in Hn. apply bind_approx; [auto|intros; apply approx_refl].
Qed.

(* ---- names that do not hide anything ----------------------------------------------------------------- *)
Definition name_ok' (n : string) : bool :=
  match globals n with
  | None => true
  | Some (TCls _) => true
  | Some _ => false
  end.

Lemma globals_cls : forall n v, name_ok' n = true -> globals n = Some v -> v = TCls n.
Proof.
  unfold name_ok', globals. intros n v. destruct (n =? "Any"); [discriminate|].
  destruct (form_kind n); [discriminate|]. destruct (mem n builtin_classes); [|discriminate].
  intros _ E. now inversion E.
Qed.

(* c1 is contained in c2 and the additional names of c2 hide nothing *)
Lemma lookup_approx : forall c1 c2 n,
  (forall m, In m c1 -> In m c2) -> (forall m, In m c2 -> name_ok' m = true) ->
  approx (lookup c1 n) (lookup c2 n).
Proof.
  intros c1 c2 n Hsub Hok. unfold lookup.
  destruct (mem n c1) eqn:E1.
  - apply mem_In in E1. apply Hsub in E1. apply mem_In in E1. rewrite E1. apply approx_refl.
  - destruct (mem n c2) eqn:E2.
    + apply mem_In in E2. apply Hok in E2.
      destruct (globals n) as [v|] eqn:G; [|now right].
      left. f_equal. eapply globals_cls; eauto.
    + apply approx_refl.
Qed.

Lemma lookup_same : forall c1 c2 n,
  (forall m, In m c1 -> In m c2) -> (forall m, In m c2 -> name_ok' m = true) ->
  (globals n = None -> In n c1) ->
  lookup c1 n = lookup c2 n.
Proof.
  intros c1 c2 n Hsub Hok Hn.
  destruct (lookup_approx c1 c2 n Hsub Hok) as [E|E]; [assumption|].
  exfalso. unfold lookup in E. destruct (mem n c1) eqn:E1; [discriminate|].
  destruct (globals n) eqn:G; [discriminate|]. apply mem_false_In in E1. auto.
Qed.

(* ---- class names of the value of an expression ----------------------------------------------------------- *)
Notation names l := (flat_map cls_names l).

Lemma names_app : forall n l1 l2, In n (names (l1 ++ l2)) <-> In n (names l1) \/ In n (names l2).
Proof. intros. rewrite flat_map_app. apply in_app_iff. Qed.

Lemma type_convert_names : forall n t, In n (cls_names t) -> In n (cls_names (type_convert t)).
Proof. intros n [] H; cbn in *; auto; contradiction. Qed.

Lemma type_check_Ok : forall t t', type_check t = Ok t' -> t' = type_convert t.
Proof.
  unfold type_check. intros t t'. destruct (type_convert t); intros H; try (now inversion H).
  destruct (is_special_form n); [discriminate|now inversion H].
Qed.

Lemma type_check_names : forall n t t', type_check t = Ok t' -> In n (cls_names t) -> In n (cls_names t').
Proof. intros n t t' H. apply type_check_Ok in H. subst. apply type_convert_names. Qed.

Lemma type_check_all_names : forall n l l', type_check_all l = Ok l' -> In n (names l) -> In n (names l').
Proof.
  induction l as [|x r IH]; intros l' H Hn; cbn in *; [contradiction|].
  apply bind_Ok_inv in H as [x' [Hx H]]. apply bind_Ok_inv in H as [r' [Hr H]]. inversion H; subst. cbn.
  apply in_app_iff in Hn. apply in_app_iff. destruct Hn; [left; eapply type_check_names; eauto|right; eauto].
Qed.

Lemma flatten_names : forall n l, In n (names l) -> In n (names (flatten_union l)).
Proof.
  induction l as [|x r IH]; intros Hn; cbn in *; [contradiction|].
  apply in_app_iff in Hn. rewrite flat_map_app. apply in_app_iff.
  destruct Hn as [Hn|Hn]; [left|right; auto].
  destruct x; cbn in *; try (apply in_app_iff; now left); assumption.
Qed.

Lemma dedupe_names : forall n l seen, In n (names l) -> In n (names (dedupe seen l)) \/ In n (names seen).
Proof.
  induction l as [|x r IH]; intros seen Hn; cbn in *; [contradiction|].
  apply in_app_iff in Hn.
  destruct (existsb (fun s => ty_eqb s x) seen) eqn:E.
  - destruct Hn as [Hn|Hn]; [|now apply IH].
    right. apply existsb_exists in E as [s [Hs Es]]. apply in_flat_map. exists s. split; [assumption|].
    rewrite ty_eqb_sym in Es. eapply ty_eqb_names_l; eauto.
  - cbn. destruct Hn as [Hn|Hn].
    + left. apply in_app_iff. now left.
    + destruct (IH (x :: seen) Hn) as [H|H].
      * left. apply in_app_iff. now right.
      * cbn in H. apply in_app_iff in H as [H|H]; [left; apply in_app_iff; now left|now right].
Qed.

Lemma collapse_names : forall n (l : list ty) v,
  match l with [] => Ok (TUnion []) | [x] => Ok x | x :: y :: r => Ok (TUnion (x :: y :: r)) end = Ok v ->
  In n (names l) -> In n (cls_names v).
Proof.
  intros n l v H Hn. destruct l as [|x [|y r]]; inversion H; subst; cbn in *.
  - contradiction.
  - now rewrite app_nil_r in Hn.
  - assumption.
Qed.

Lemma collapse_pipe_names : forall n (l : list ty) v,
  match l with [] => Ok (TPipe []) | [x] => Ok x | x :: y :: r => Ok (TPipe (x :: y :: r)) end = Ok v ->
  In n (names l) -> In n (cls_names v).
Proof.
  intros n l v H Hn. destruct l as [|x [|y r]]; inversion H; subst; cbn in *.
  - contradiction.
  - now rewrite app_nil_r in Hn.
  - assumption.
Qed.

Lemma make_union_names : forall n ps v, make_union ps = Ok v -> In n (names ps) -> In n (cls_names v).
Proof.
  unfold make_union. intros n ps v H Hn. apply bind_Ok_inv in H as [ps' [Hc H]].
  destruct (forallb hashable (flatten_union ps')); [|discriminate].
  eapply collapse_names; [eassumption|].
  destruct (dedupe_names n (flatten_union ps') []) as [D|D]; [|assumption|contradiction].
  apply flatten_names. eapply type_check_all_names; eauto.
Qed.

Lemma as_params_names : forall n s, In n (cls_names s) -> In n (names (as_params s)).
Proof. intros n s H. destruct s; cbn in *; try contradiction; try (apply in_app_iff; now left); assumption. Qed.

Lemma last_is_ellipsis_split : forall l, last_is_ellipsis l = true -> l = removelast l ++ [TEllipsis].
Proof.
  induction l as [|x r IH]; intros H; [discriminate|].
  destruct r as [|y r'].
  - destruct x; try discriminate. reflexivity.
  - assert (H' : last_is_ellipsis (y :: r') = true) by (destruct x; exact H).
    change (removelast (x :: y :: r')) with (x :: removelast (y :: r')). cbn [app]. f_equal. now apply IH.
Qed.

Lemma map_convert_names : forall n l, In n (names l) -> In n (names (map type_convert l)).
Proof.
  induction l as [|x r IH]; intros H; cbn in *; [contradiction|].
  apply in_app_iff in H. apply in_app_iff. destruct H; [left; now apply type_convert_names|right; auto].
Qed.

Lemma subscript_names : forall n f s v, subscript f s = Ok v -> In n (cls_names s) -> In n (cls_names v).
Proof.
  intros n f s v H Hn. unfold subscript in H. destruct f; try discriminate.
  - (* a class *) destruct (mem n0 subscriptable_builtins); [|discriminate]. inversion H; subst. cbn.
    now apply as_params_names.
  - (* typing.X *) destruct (form_kind n0) as [[k| | | |]|]; try discriminate.
    + apply bind_Ok_inv in H as [ps [Hc H]]. destruct (Nat.eqb (List.length ps) k); [|discriminate].
      inversion H; subst. cbn. eapply type_check_all_names; eauto. now apply as_params_names.
    + destruct (Nat.leb 2 (List.length (as_params s)) && last_is_ellipsis (as_params s)) eqn:E.
      * apply andb_true_iff in E as [_ E]. apply last_is_ellipsis_split in E.
        apply bind_Ok_inv in H as [ps [Hc H]]. inversion H; subst. cbn.
        apply names_app. left. eapply type_check_all_names; eauto.
        apply as_params_names in Hn. rewrite E in Hn. apply names_app in Hn as [Hn|Hn]; [assumption|].
        cbn in Hn. contradiction.
      * apply bind_Ok_inv in H as [ps [Hc H]]. inversion H; subst. cbn.
        eapply type_check_all_names; eauto. now apply as_params_names.
    + destruct s; try discriminate. destruct l as [|args [|result [|? ?]]]; try discriminate.
      apply bind_Ok_inv in H as [r [Hr H]]. cbn in Hn. rewrite app_nil_r in Hn. apply in_app_iff in Hn.
      assert (Hres : In n (cls_names result) -> In n (cls_names r)) by (eapply type_check_names; eauto).
      destruct args; inversion H; subst; cbn in *; rewrite ?app_nil_r;
        try (apply in_app_iff; destruct Hn as [Hn|Hn]; [left|right; auto]);
        try (destruct Hn as [Hn|Hn]; [contradiction|auto]);
        try assumption; try contradiction.
      all: try (rewrite flat_map_app; apply in_app_iff; destruct Hn as [Hn|Hn];
                [left; now apply map_convert_names|right; cbn; rewrite app_nil_r; auto]).
      all: intuition.
    + destruct s; try (eapply make_union_names; [eassumption|now apply as_params_names]).
      destruct l; [discriminate|]. eapply make_union_names; [eassumption|now apply as_params_names].
    + apply bind_Ok_inv in H as [a [Ha H]]. eapply make_union_names; [eassumption|].
      cbn. apply in_app_iff. left. eapply type_check_names; eauto.
Qed.

Lemma pipe_members_names : forall n t, In n (cls_names t) -> In n (names (pipe_members t)).
Proof. intros n t H. destruct t; cbn in *; try contradiction; try (apply in_app_iff; now left); assumption. Qed.

Lemma or_ty_names : forall n a b v, or_ty a b = Ok v -> In n (cls_names a) \/ In n (cls_names b) -> In n (cls_names v).
Proof.
  unfold or_ty. intros n a b v H Hn.
  destruct (c_unionable a && c_unionable b).
  - assert (G : match dedupe [] (pipe_members a ++ pipe_members b) with
                | [] => Ok (TPipe []) | [x] => Ok x | x :: y :: r => Ok (TPipe (x :: y :: r)) end = Ok v).
    { destruct a; try exact H; destruct b; try exact H; discriminate. }
    eapply collapse_pipe_names; [eassumption|].
    destruct (dedupe_names n (pipe_members a ++ pipe_members b) []) as [D|D]; [|assumption|contradiction].
    apply names_app. destruct Hn; [left|right]; now apply pipe_members_names.
  - destruct (is_typing_obj a || is_typing_obj b); [|discriminate].
    eapply make_union_names; [eassumption|]. cbn. rewrite app_nil_r. apply in_app_iff. assumption.
Qed.

Lemma subscriptable_global : forall m, mem m subscriptable_builtins = true -> globals m <> None.
Proof.
  intros m H. apply mem_In in H. cbn in H.
  repeat (destruct H as [E|H]; [subst; cbn; discriminate|]). contradiction.
Qed.

Lemma evals_names : forall c n l l',
  Forall (fun e => forall v, eval c e = Ok v -> In n (enames e) -> In n (cls_names v)) l ->
  evals c l = Ok l' -> In n (flat_map enames l) -> In n (names l').
Proof.
  induction l as [|x r IH]; intros l' HF H Hn; cbn in *; [contradiction|].
  inversion HF; subst.
  apply bind_Ok_inv in H as [x' [Hx H]]. apply bind_Ok_inv in H as [r' [Hr H]]. inversion H; subst. cbn.
  apply in_app_iff in Hn. apply in_app_iff. destruct Hn; [left; auto|right; eauto].
Qed.

(* every name of the expression that is not a global of check_docstring.py is a class of the value *)
Lemma eval_names : forall c n, globals n = None ->
  forall e v, eval c e = Ok v -> In n (enames e) -> In n (cls_names v).
Proof.
  intros c n G. induction e using texpr_ind'; intros v Hev Hn; cbn [enames] in Hn; try contradiction.
  - destruct Hn as [Hn|[]]. subst. rewrite eval_EName in Hev. unfold lookup in Hev.
    destruct (mem n c); [inversion Hev; cbn; auto|]. rewrite G in Hev. discriminate.
  - rewrite eval_ESub in Hev. apply bind_Ok_inv in Hev as [f' [Hf Hev]]. apply bind_Ok_inv in Hev as [s' [Hs Hev]].
    apply in_app_iff in Hn as [Hn|Hn].
    + exfalso. specialize (IHe1 _ Hf Hn). unfold subscript in Hev.
      destruct f'; cbn in IHe1; try contradiction; try discriminate.
      destruct IHe1 as [E|[]]. subst. destruct (mem n subscriptable_builtins) eqn:M; [|discriminate].
      now apply subscriptable_global in M.
    + eapply subscript_names; eauto.
  - rewrite eval_ETuple in Hev. apply bind_Ok_inv in Hev as [l' [Hl Hev]]. inversion Hev; subst. cbn.
    eapply evals_names; eauto.
  - rewrite eval_EList in Hev. apply bind_Ok_inv in Hev as [l' [Hl Hev]]. inversion Hev; subst. cbn.
    eapply evals_names; eauto.
  - rewrite eval_EOr in Hev. apply bind_Ok_inv in Hev as [a' [Ha Hev]]. apply bind_Ok_inv in Hev as [b' [Hb Hev]].
    eapply or_ty_names; [eassumption|]. apply in_app_iff in Hn as [Hn|Hn]; [left|right]; eauto.
  - rewrite eval_EAttr in Hev. apply bind_Ok_inv in Hev as [? [_ Hev]]. discriminate.
Qed.

(* ---- whatever the evaluation of a documented type raises is an Exception ------------------------------------- *)
Definition exc (x : exn) : Prop := derives x ExceptionC = true.

Lemma bind_Raise_inv : forall {A B} (m : outcome A) (f : A -> outcome B) x,
  bind m f = Raise x -> m = Raise x \/ exists a, m = Ok a /\ f a = Raise x.
Proof. intros A B [a|e] f x H; cbn in H; [right; eauto|left; congruence]. Qed.

Ltac exc_leaf :=
  match goal with
  | H : Raise _ = Raise _ |- _ => inversion H; subst; reflexivity
  | H : Ok _ = Raise _ |- _ => discriminate H
  end.

Lemma type_check_exc : forall t x, type_check t = Raise x -> exc x.
Proof.
  unfold type_check. intros t x H. destruct (type_convert t); try exc_leaf. destruct (is_special_form n); exc_leaf.
Qed.

Lemma type_check_all_exc : forall l x, type_check_all l = Raise x -> exc x.
Proof.
  induction l as [|a r IH]; cbn; intros x H; [exc_leaf|].
  apply bind_Raise_inv in H as [H|[a' [_ H]]]; [eapply type_check_exc; eauto|].
  apply bind_Raise_inv in H as [H|[r' [_ H]]]; [eauto|exc_leaf].
Qed.

Lemma make_union_exc : forall ps x, make_union ps = Raise x -> exc x.
Proof.
  unfold make_union. intros ps x H. apply bind_Raise_inv in H as [H|[ps' [_ H]]]; [eapply type_check_all_exc; eauto|].
  destruct (forallb hashable (flatten_union ps')); [|exc_leaf].
  destruct (dedupe [] (flatten_union ps')) as [|a [|b r]]; exc_leaf.
Qed.

Lemma subscript_exc : forall f s x, subscript f s = Raise x -> exc x.
Proof.
  intros f s x H. unfold subscript in H. destruct f; try exc_leaf.
  - destruct (mem n subscriptable_builtins); exc_leaf.
  - destruct (form_kind n) as [[k| | | |]|]; try exc_leaf.
    + apply bind_Raise_inv in H as [H|[ps [_ H]]]; [eapply type_check_all_exc; eauto|].
      destruct (Nat.eqb (List.length ps) k); exc_leaf.
    + destruct (Nat.leb 2 (List.length (as_params s)) && last_is_ellipsis (as_params s));
        (apply bind_Raise_inv in H as [H|[ps [_ H]]]; [eapply type_check_all_exc; eauto|exc_leaf]).
    + destruct s; try exc_leaf. destruct l as [|a [|r [|? ?]]]; try exc_leaf.
      apply bind_Raise_inv in H as [H|[r' [_ H]]]; [eapply type_check_exc; eauto|]. destruct a; exc_leaf.
    + destruct s; try (eapply make_union_exc; eassumption). destruct l; [exc_leaf|eapply make_union_exc; eassumption].
    + apply bind_Raise_inv in H as [H|[a [_ H]]]; [eapply type_check_exc; eauto|eapply make_union_exc; eauto].
Qed.

Lemma or_ty_exc : forall a b x, or_ty a b = Raise x -> exc x.
Proof.
  unfold or_ty. intros a b x H. destruct (c_unionable a && c_unionable b).
  - assert (G : forall l : list ty, match l with [] => Ok (TPipe []) | [y] => Ok y | y :: z :: r => Ok (TPipe (y :: z :: r)) end = Raise x -> exc x).
    { intros [|y [|z r]] G; exc_leaf. }
    assert (G' : match dedupe [] (pipe_members a ++ pipe_members b) with
                 | [] => Ok (TPipe []) | [y] => Ok y | y :: z :: r => Ok (TPipe (y :: z :: r)) end = Raise x \/ (a = TNone /\ b = TNone)).
    { destruct a; try (left; exact H); destruct b; try (left; exact H); right; auto. }
    destruct G' as [G'|[Ea Eb]]; [exact (G _ G')|subst; exc_leaf].
  - destruct (is_typing_obj a || is_typing_obj b); [eapply make_union_exc; eauto|exc_leaf].
Qed.

Lemma evals_exc : forall c l x, Forall (fun e => forall y, eval c e = Raise y -> exc y) l -> evals c l = Raise x -> exc x.
Proof.
  induction l as [|a r IH]; intros x HF H; cbn [evals] in H; [exc_leaf|]. inversion HF; subst.
  apply bind_Raise_inv in H as [H|[a' [_ H]]]; [eauto|].
  apply bind_Raise_inv in H as [H|[r' [_ H]]]; [eauto|exc_leaf].
Qed.

Lemma eval_exc : forall c e x, eval c e = Raise x -> exc x.
Proof.
  intros c. induction e using texpr_ind'; intros x Hev.
  - cbn in Hev. exc_leaf.
  - cbn in Hev. exc_leaf.
  - rewrite eval_EName in Hev. unfold lookup in Hev. destruct (mem n c); [exc_leaf|]. destruct (globals n); exc_leaf.
  - rewrite eval_ESub in Hev. apply bind_Raise_inv in Hev as [Hev|[f' [_ Hev]]]; [eauto|].
    apply bind_Raise_inv in Hev as [Hev|[s' [_ Hev]]]; [eauto|eapply subscript_exc; eauto].
  - rewrite eval_ETuple in Hev. apply bind_Raise_inv in Hev as [Hev|[l' [_ Hev]]]; [eapply evals_exc; eauto|exc_leaf].
  - rewrite eval_EList in Hev. apply bind_Raise_inv in Hev as [Hev|[l' [_ Hev]]]; [eapply evals_exc; eauto|exc_leaf].
  - rewrite eval_EOr in Hev. apply bind_Raise_inv in Hev as [Hev|[a' [_ Hev]]]; [eauto|].
    apply bind_Raise_inv in Hev as [Hev|[b' [_ Hev]]]; [eauto|eapply or_ty_exc; eauto].
  - rewrite eval_EAttr in Hev. apply bind_Raise_inv in Hev as [Hev|[a' [_ Hev]]]; [eauto|exc_leaf].
  - cbn in Hev. exc_leaf.
Qed.

(* the same for every name that can only resolve to the class of that name and is not the head of a builtin generic:
   names without a global (eval_names), and names bound by the context *)
Lemma eval_names_gen : forall c n,
  (forall v, lookup c n = Ok v -> v = TCls n) -> mem n subscriptable_builtins = false ->
  forall e v, eval c e = Ok v -> In n (enames e) -> In n (cls_names v).
Proof.
  intros c n L S. induction e using texpr_ind'; intros v Hev Hn; cbn [enames] in Hn; try contradiction.
  - destruct Hn as [Hn|[]]. subst. rewrite eval_EName in Hev. rewrite (L v Hev). cbn. auto.
  - rewrite eval_ESub in Hev. apply bind_Ok_inv in Hev as [f' [Hf Hev]]. apply bind_Ok_inv in Hev as [s' [Hs Hev]].
    apply in_app_iff in Hn as [Hn|Hn].
    + exfalso. specialize (IHe1 _ Hf Hn). unfold subscript in Hev.
      destruct f'; cbn in IHe1; try contradiction; try discriminate.
      destruct IHe1 as [E|[]]. subst. rewrite S in Hev. discriminate.
    + eapply subscript_names; eauto.
  - rewrite eval_ETuple in Hev. apply bind_Ok_inv in Hev as [l' [Hl Hev]]. inversion Hev; subst. cbn.
    eapply evals_names; eauto.
  - rewrite eval_EList in Hev. apply bind_Ok_inv in Hev as [l' [Hl Hev]]. inversion Hev; subst. cbn.
    eapply evals_names; eauto.
  - rewrite eval_EOr in Hev. apply bind_Ok_inv in Hev as [a' [Ha Hev]]. apply bind_Ok_inv in Hev as [b' [Hb Hev]].
    eapply or_ty_names; [eassumption|]. apply in_app_iff in Hn as [Hn|Hn]; [left|right]; eauto.
  - rewrite eval_EAttr in Hev. apply bind_Ok_inv in Hev as [? [_ Hev]]. discriminate.
Qed.

Lemma subscriptable_globals_cls : forall n, mem n subscriptable_builtins = true -> globals n = Some (TCls n).
Proof.
  intros n M. apply mem_In in M. cbn in M. repeat (destruct M as [E|M]; [subst; reflexivity|]). contradiction.
Qed.
