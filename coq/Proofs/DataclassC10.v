(* C10: construction paths, validate_types, __post_init__ order.  Lemmas are stated for the reference
   member of the decorator family (Proofs/DataclassRef.v) and an arbitrary checker `check`. *)
From Coq Require Import List ZArith Bool Arith Lia.
From PV Require Import Base.Exn Model.Dataclass Spec.DataclassSpec Proofs.DataclassBase Proofs.DataclassRef.
Import ListNotations.

Section C10.
  Variable defs : list (dparam * bool).
  Let P := ref_prog defs.
  Variable check : heap -> ann -> value -> bool.

  (* ---- the loop of validate_types: events and outcome as a function of the heap *)
  Fixpoint checks_prefix (h : heap) (r : nat) (fs : list field) : list event * outcome unit :=
    match fs with
    | [] => ([], Ok tt)
    | f :: rest =>
      match getattr h r (f_name f) with
      | None => ([], Raise AttributeErrorC)
      | Some v =>
        if check h (f_ann f) v then (ECheck (f_ann f) v :: fst (checks_prefix h r rest), snd (checks_prefix h r rest))
        else ([ECheck (f_ann f) v], Raise PTypeCheckC)
      end
    end.

  Lemma check_loop_eq : forall fs r st,
    check_loop check fs r st = (st_app st (fst (checks_prefix (s_heap st) r fs)), snd (checks_prefix (s_heap st) r fs)).
  Proof.
    induction fs as [|f fs IH]; intros r st; simpl.
    - unfold ret. now rewrite st_app_nil.
    - unfold bindM at 1. unfold getattrM. destruct (getattr (s_heap st) r (f_name f)) as [v|] eqn:E.
      + unfold bindM at 1. unfold emit. unfold bindM at 1. unfold get_heap. simpl s_heap.
        destruct (check (s_heap st) (f_ann f) v) eqn:Ec.
        * rewrite IH. simpl. unfold st_app. simpl. now rewrite <- app_assoc.
        * reflexivity.
      + simpl. now rewrite st_app_nil.
  Qed.

  Lemma checks_prefix_outcome : forall h r fs,
    (forall f, In f fs -> getattr h r (f_name f) <> None) ->
    snd (checks_prefix h r fs) = if all_conform check h fs r then Ok tt else Raise PTypeCheckC.
  Proof.
    induction fs as [|f fs IH]; intros Hs; simpl; [reflexivity|].
    destruct (getattr h r (f_name f)) as [v|] eqn:E; [|exfalso; apply (Hs f); [now left|assumption]].
    destruct (check h (f_ann f) v); simpl; [|reflexivity]. apply IH. intros g Hg. apply Hs. now right.
  Qed.

  Lemma checks_prefix_events : forall h r fs, forallb is_check (fst (checks_prefix h r fs)) = true.
  Proof.
    induction fs as [|f fs IH]; simpl; [reflexivity|].
    destruct (getattr h r (f_name f)); [|reflexivity]. destruct (check h (f_ann f) v); simpl; [assumption|reflexivity].
  Qed.

  (* ---- __post_init__: journal and outcome, given what one run of validate_types appends / returns *)
  Fixpoint pi_spec (f : pifun) (ev : list event) (res : outcome unit) : list event * outcome unit :=
    match f with
    | PFNone => ([], Raise AttributeErrorC)
    | PFNoop => ([], Ok tt)
    | PFUser c b => ([EPi c], match b with PIRet => Ok tt | PIRaise e => Raise e end)
    | PFNew old =>
      match snd (pi_spec old ev res) with
      | Ok _ => (fst (pi_spec old ev res) ++ ev, res)
      | Raise e => (fst (pi_spec old ev res), Raise e)
      end
    end.

  Lemma run_pi_eq : forall (v : M unit) evf resf,
    (forall st, v st = (st_app st (evf (s_heap st)), resf (s_heap st))) ->
    forall f st, run_pi P f v st =
      (st_app st (fst (pi_spec f (evf (s_heap st)) (resf (s_heap st)))), snd (pi_spec f (evf (s_heap st)) (resf (s_heap st)))).
  Proof.
    intros v evf resf Hv. induction f as [| |c b|old IH]; intro st.
    - simpl. unfold raise. now rewrite st_app_nil.
    - simpl. unfold ret. now rewrite st_app_nil.
    - simpl. unfold bindM, emit. destruct b; reflexivity.
    - rewrite ref_run_new. unfold bindM at 1. rewrite IH.
      destruct (snd (pi_spec old (evf (s_heap st)) (resf (s_heap st)))) as [[]|e] eqn:E.
      + unfold bindM at 1. unfold ret at 1. unfold bindM. rewrite Hv. simpl s_heap.
        simpl pi_spec. rewrite E. simpl. rewrite st_app_app.
        destruct (resf (s_heap st)) as [[]|e']; reflexivity.
      + simpl pi_spec. rewrite E. reflexivity.
  Qed.

  Definition user_raises (f : pifun) : option exn :=
    match user_of f with Some (_, PIRaise e) => Some e | _ => None end.
  (* no PFNone below a PFNew: holds for everything resolve_pi produces *)
  Fixpoint pi_wf (f : pifun) : bool := match f with PFNew PFNone => false | PFNew old => pi_wf old | _ => true end.

  Lemma resolve_pi_wf : forall C, pi_wf (resolve_pi P C) = true.
  Proof.
    induction C as [|L C IH]; simpl; [reflexivity|].
    destruct (ts_installed P L).
    - destruct (l_pi L); [reflexivity|]. destruct (resolve_pi P C) eqn:E; simpl in *; try reflexivity; assumption.
    - destruct (l_pi L); [reflexivity|assumption].
  Qed.

  Lemma pi_spec_outcome : forall f ev res, pi_wf f = true -> is_new f = true ->
    snd (pi_spec f ev res) =
    match user_raises f with Some e => Raise e | None => res end.
  Proof.
    induction f as [| |c b|old IH]; intros ev res Hwf Hn; try discriminate.
    simpl. unfold user_raises in *. simpl user_of.
    destruct old as [| |c b|old'].
    - discriminate.
    - reflexivity.
    - simpl. destruct b; reflexivity.
    - rewrite (IH ev res Hwf eq_refl). destruct (user_of (PFNew old')) as [[c [|e]]|]; try reflexivity.
      destruct res as [[]|e]; reflexivity.
  Qed.

  (* journal: the user's entry (if any) first, then check events only *)
  Lemma pi_spec_events : forall f ev res, forallb is_check ev = true -> pi_wf f = true ->
    exists checks, forallb is_check checks = true /\
      fst (pi_spec f ev res) = match user_of f with Some (c, _) => EPi c :: checks | None => checks end /\
      (forall e, user_raises f = Some e -> checks = []).
  Proof.
    intros f ev res Hev. induction f as [| |c b|old IH]; intro Hwf.
    - exists []. repeat split; try reflexivity. intros e H; discriminate.
    - exists []. repeat split; try reflexivity.
    - exists []. repeat split; reflexivity.
    - assert (Hwf' : pi_wf old = true) by (destruct old; simpl in *; try reflexivity; try discriminate; assumption).
      destruct (IH Hwf') as [checks [H1 [H2 H3]]]. simpl pi_spec. unfold user_raises in *. simpl user_of.
      destruct (snd (pi_spec old ev res)) as [[]|e] eqn:E.
      + exists (checks ++ ev). split; [now rewrite forallb_app, H1, Hev|]. split.
        * simpl. rewrite H2. destruct (user_of old) as [[c b]|]; reflexivity.
        * intros e He. exfalso.
          (* the user raised, so the old part cannot have ended normally *)
          assert (Hr : user_raises old = Some e) by exact He.
          clear - E Hr Hwf'. revert E Hr Hwf'. unfold user_raises.
          induction old as [| |c b|o IHo]; simpl; intros; try discriminate.
          -- destruct b; [discriminate|discriminate].
          -- assert (pi_wf o = true) by (destruct o; simpl in *; try reflexivity; try discriminate; assumption).
             destruct (snd (pi_spec o ev res)) as [[]|e'] eqn:E'; [|discriminate]. now apply IHo.
      + exists checks. split; [assumption|]. split; [|assumption]. simpl. exact H2.
  Qed.
End C10.
