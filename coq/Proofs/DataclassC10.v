(* C10: construction paths, validate_types, __post_init__ order.  Lemmas are stated for the reference
   member of the decorator family (Proofs/DataclassRef.v) and an arbitrary checker `check`. *)
From Coq Require Import List ZArith Bool Arith Lia.
From PV Require Import Base.Exn Model.Dataclass Spec.DataclassSpec Proofs.DataclassBase Proofs.DataclassRef.
Import ListNotations.

(* the first exception in a sequence of results *)
Fixpoint first_raise (l : list (outcome unit)) : outcome unit :=
  match l with [] => Ok tt | Ok _ :: r => first_raise r | Raise e :: _ => Raise e end.

Lemma first_raise_app : forall a b,
  first_raise (a ++ b) = match first_raise a with Ok _ => first_raise b | Raise e => Raise e end.
Proof. induction a as [|[[]|e] a IH]; intros; simpl; [reflexivity|apply IH|reflexivity]. Qed.
Lemma first_raise_one : forall x, first_raise [x] = x.
Proof. intros [[]|e]; reflexivity. Qed.
Lemma first_raise_ok : forall l, first_raise l = Ok tt <-> Forall (fun x => x = Ok tt) l.
Proof.
  induction l as [|[[]|e] l IH]; simpl.
  - split; [constructor|reflexivity].
  - rewrite IH. split; [now constructor|]. intro H. now inversion H.
  - split; [discriminate|]. intro H. inversion H. discriminate.
Qed.
Lemma first_raise_const : forall x l, l <> [] -> Forall (fun y => y = x) l -> first_raise l = x.
Proof.
  intros x l Hne H. destruct l as [|y l]; [congruence|]. inversion H; subst. clear Hne H.
  destruct x as [[]|e]; simpl; [|reflexivity]. apply first_raise_ok. eapply Forall_impl; [|eassumption]. auto.
Qed.

Definition of_reject (o : option exn) : outcome unit := match o with None => Ok tt | Some e => Raise e end.

Lemma first_reject_none : forall c h fs r, first_reject c h fs r = None <-> all_conform c h fs r = true.
Proof.
  induction fs as [|f fs IH]; intro r; simpl; [tauto|].
  destruct (getattr h r (f_name f)) as [v|]; [|split; discriminate].
  destruct (c h (f_ann f) v) as [[]|e]; simpl; [apply IH|split; discriminate].
Qed.

Section C10.
  Variable defs : list (dparam * bool).
  Let P := ref_prog defs.
  Variable check : bool -> heap -> ann -> value -> outcome unit.

  (* ---- the loop of validate_types: events and outcome as a function of the heap *)
  Fixpoint checks_prefix (vis : bool) (h : heap) (r : nat) (fs : list field) : list event * outcome unit :=
    match fs with
    | [] => ([], Ok tt)
    | f :: rest =>
      match getattr h r (f_name f) with
      | None => ([], Raise AttributeErrorC)
      | Some v =>
        match check vis h (f_ann f) v with
        | Ok _ => (ECheck (f_ann f) v :: fst (checks_prefix vis h r rest), snd (checks_prefix vis h r rest))
        | Raise e => ([ECheck (f_ann f) v], Raise e)
        end
      end
    end.

  Lemma check_loop_eq : forall vis fs r st,
    check_loop check vis fs r st =
    (st_app st (fst (checks_prefix vis (s_heap st) r fs)), snd (checks_prefix vis (s_heap st) r fs)).
  Proof.
    induction fs as [|f fs IH]; intros r st; simpl.
    - unfold ret. now rewrite st_app_nil.
    - unfold bindM at 1. unfold getattrM. destruct (getattr (s_heap st) r (f_name f)) as [v|] eqn:E.
      + unfold bindM at 1. unfold emit. unfold bindM at 1. unfold get_heap. cbn [s_heap s_journal].
        destruct (check vis (s_heap st) (f_ann f) v) as [[]|e] eqn:Ec.
        * rewrite IH. simpl. unfold st_app. simpl. now rewrite <- app_assoc.
        * reflexivity.
      + simpl. now rewrite st_app_nil.
  Qed.

  Lemma checks_prefix_outcome : forall vis h r fs,
    snd (checks_prefix vis h r fs) = of_reject (first_reject (check vis) h fs r).
  Proof.
    induction fs as [|f fs IH]; simpl; [reflexivity|].
    destruct (getattr h r (f_name f)) as [v|] eqn:E; [|reflexivity].
    destruct (check vis h (f_ann f) v) as [[]|e]; simpl; [apply IH|reflexivity].
  Qed.

  Lemma checks_prefix_events : forall vis h r fs, forallb is_check (fst (checks_prefix vis h r fs)) = true.
  Proof.
    induction fs as [|f fs IH]; simpl; [reflexivity|].
    destruct (getattr h r (f_name f)); [|reflexivity].
    destruct (check vis h (f_ann f) v) as [[]|e]; simpl; [assumption|reflexivity].
  Qed.

  (* ---- __post_init__: journal and outcome, given what one run of validate_types appends / returns *)
  Fixpoint pi_spec (f : pifun) (v : via) (outer : nat) (ev : bool -> list event) (res : bool -> outcome unit)
    : list event * outcome unit :=
    match f with
    | PFNone => ([], Raise AttributeErrorC)
    | PFNoop => ([], Ok tt)
    | PFUser c b => ([EPi c], match b with PIRet => Ok tt | PIRaise e => Raise e end)
    | PFNew old =>
      match snd (pi_spec old v (S outer) ev res) with
      | Ok _ => (fst (pi_spec old v (S outer) ev res) ++ ev (caller_visible v outer), res (caller_visible v outer))
      | Raise e => (fst (pi_spec old v (S outer) ev res), Raise e)
      end
    end.

  Lemma run_pi_eq : forall (val : bool -> M unit) evf resf,
    (forall b st, val b st = (st_app st (evf b (s_heap st)), resf b (s_heap st))) ->
    forall f v outer st, run_pi P f v outer val st =
      (st_app st (fst (pi_spec f v outer (fun b => evf b (s_heap st)) (fun b => resf b (s_heap st)))),
       snd (pi_spec f v outer (fun b => evf b (s_heap st)) (fun b => resf b (s_heap st)))).
  Proof.
    intros val evf resf Hv. induction f as [| |c b|old IH]; intros v outer st.
    - simpl. unfold raise. now rewrite st_app_nil.
    - simpl. unfold ret. now rewrite st_app_nil.
    - simpl. unfold bindM, emit. destruct b; reflexivity.
    - unfold P in *. rewrite ref_run_new. unfold bindM at 1. rewrite IH.
      set (ev := fun b => evf b (s_heap st)). set (res := fun b => resf b (s_heap st)).
      destruct (snd (pi_spec old v (S outer) ev res)) as [[]|e] eqn:E.
      + unfold bindM at 1. rewrite Hv. simpl s_heap.
        simpl pi_spec. rewrite E. simpl. rewrite st_app_app. fold (res (caller_visible v outer)).
        destruct (res (caller_visible v outer)) as [[]|e']; reflexivity.
      + simpl pi_spec. rewrite E. reflexivity.
  Qed.

  Definition user_raises (f : pifun) : option exn :=
    match user_of f with Some (_, PIRaise e) => Some e | _ => None end.
  (* no PFNone below a PFNew: holds for everything resolve_pi produces *)
  Fixpoint pi_wf (f : pifun) : bool := match f with PFNew PFNone => false | PFNew old => pi_wf old | _ => true end.
  (* the visibility flags of the successive validate_types calls, in execution order (the innermost
     new_post_init validates first) *)
  Fixpoint vis_list (f : pifun) (v : via) (outer : nat) : list bool :=
    match f with PFNew old => vis_list old v (S outer) ++ [caller_visible v outer] | _ => [] end.

  Lemma resolve_pi_wf : forall C, pi_wf (resolve_pi P C) = true.
  Proof.
    induction C as [|L C IH]; simpl; [reflexivity|].
    destruct (ts_installed P L).
    - destruct (l_pi L); [reflexivity|]. destruct (resolve_pi P C) eqn:E; simpl in *; try reflexivity; assumption.
    - destruct (l_pi L); [reflexivity|assumption].
  Qed.

  Lemma pi_wf_inv : forall old, pi_wf (PFNew old) = true -> pi_wf old = true /\ old <> PFNone.
  Proof. intros [| | |o] H; simpl in *; try discriminate; (split; [assumption || reflexivity|discriminate]). Qed.

  Lemma pi_spec_outcome : forall f v outer ev res, pi_wf f = true -> f <> PFNone ->
    snd (pi_spec f v outer ev res) =
    match user_raises f with Some e => Raise e | None => first_raise (map res (vis_list f v outer)) end.
  Proof.
    induction f as [| |c b|old IH]; intros v outer ev res Hwf Hn.
    - congruence.
    - reflexivity.
    - unfold user_raises. simpl. destruct b; reflexivity.
    - destruct (pi_wf_inv _ Hwf) as [Hwf' Hn'].
      simpl pi_spec. rewrite (IH v (S outer) ev res Hwf' Hn').
      change (user_raises (PFNew old)) with (user_raises old).
      destruct (user_raises old) as [e|]; [reflexivity|].
      simpl vis_list. rewrite map_app, first_raise_app. simpl map. rewrite first_raise_one.
      destruct (first_raise (map res (vis_list old v (S outer)))) as [[]|e]; reflexivity.
  Qed.

  Lemma vis_list_nonempty : forall f v outer, is_new f = true -> vis_list f v outer <> [].
  Proof. intros [| | |old] v outer H; try discriminate. simpl. intro E. now apply app_eq_nil in E as [_ E]. Qed.

  (* journal: the user's entry (if any) first, then check events only *)
  Lemma pi_spec_events : forall f v outer ev res, (forall b, forallb is_check (ev b) = true) -> pi_wf f = true ->
    exists checks, forallb is_check checks = true /\
      fst (pi_spec f v outer ev res) = match user_of f with Some (c, _) => EPi c :: checks | None => checks end /\
      (forall e, user_raises f = Some e -> checks = []).
  Proof.
    intros f v outer ev res Hev. revert outer. induction f as [| |c b|old IH]; intros outer Hwf.
    - exists []. repeat split; try reflexivity.
    - exists []. repeat split; try reflexivity.
    - exists []. repeat split; reflexivity.
    - destruct (pi_wf_inv _ Hwf) as [Hwf' Hn'].
      destruct (IH (S outer) Hwf') as [checks [H1 [H2 H3]]]. simpl pi_spec.
      change (user_raises (PFNew old)) with (user_raises old). change (user_of (PFNew old)) with (user_of old).
      pose proof (pi_spec_outcome old v (S outer) ev res Hwf' Hn') as Ho.
      destruct (snd (pi_spec old v (S outer) ev res)) as [[]|e] eqn:E.
      + exists (checks ++ ev (caller_visible v outer)). split; [now rewrite forallb_app, H1, Hev|]. split.
        * simpl. rewrite H2. destruct (user_of old) as [[c b]|]; reflexivity.
        * intros e He. rewrite He in Ho. discriminate.
      + exists checks. split; [assumption|]. split; [|assumption]. simpl. exact H2.
  Qed.

  (* ---- every construction path is: compute keyword arguments, build the candidate, run __post_init__ *)
  Definition post (v : via) (C : chain) (r : nat) : M nat :=
    match nearest_deco C with
    | Some D =>
      if init_calls_pi P D
      then bindM (run_pi P (resolve_pi P C) v 0 (fun vis => validate_types P check vis C r)) (fun _ => ret r)
      else ret r
    | None => ret r
    end.

  Lemma run_path_eq : forall C p st, nearest_deco C <> None ->
    run_path P check C p st = bindM (path_candidate P C p) (post (path_via p) C) st.
  Proof.
    intros C p st HD. destruct (nearest_deco C) as [D|] eqn:ED; [clear HD|congruence].
    unfold path_candidate. rewrite bindM_assoc. destruct p as [kw|r0 kw|r0 kw]; simpl.
    - unfold construct, post. reflexivity.
    - unfold copy_with. simpl. rewrite ED. rewrite (nearest_deco_fields _ _ ED). reflexivity.
    - unfold deep_copy_with. simpl. reflexivity.
  Qed.

  Lemma candidate_fields_set : forall C kw st0 st1 r,
    candidate C kw st0 = (st1, Ok r) -> chain_ok C = true ->
    forall f, In f (dc_fields C) -> getattr (s_heap st1) r (f_name f) <> None.
  Proof.
    intros C kw st0 st1 r H Hok f Hf.
    destruct (candidate_spec _ _ _ _ _ H) as [D [attrs [ext [HD [HB [Hh [Hr [Hj _]]]]]]]].
    rewrite Hh, Hr, getattr_new. simpl.
    destruct (build_attrs_spec _ _ _ _ _ HB (dc_fields_nodup C)) as [_ HF].
    destruct (HF f Hf) as [_ [B _]]. apply B.
    unfold chain_ok in Hok. rewrite forallb_forall in Hok. now apply Hok.
  Qed.

  Lemma validate_appender : forall vis C D r, nearest_deco C = Some D ->
    forall st, validate_types P check vis C r st =
      (st_app st (fst (checks_prefix vis (s_heap st) r (dc_fields C))), snd (checks_prefix vis (s_heap st) r (dc_fields C))).
  Proof.
    intros vis C D r HD st. unfold P. rewrite ref_validate, HD, (nearest_deco_fields _ _ HD). apply check_loop_eq.
  Qed.

  (* outcome of the validations a path performs on the candidate r in heap h *)
  Definition validations (C : chain) (v : via) (h : heap) (r : nat) : outcome unit :=
    first_raise (map (fun b => of_reject (first_reject (check b) h (dc_fields C) r)) (vis_list (resolve_pi P C) v 0)).

  (* the main statement about construction *)
  Lemma path_outcome : forall C p st st1 r,
    validating P C = true ->
    path_candidate P C p st = (st1, Ok r) ->
    let h1 := s_heap st1 in
    let J := fst (pi_spec (resolve_pi P C) (path_via p) 0
                          (fun b => fst (checks_prefix b h1 r (dc_fields C)))
                          (fun b => snd (checks_prefix b h1 r (dc_fields C)))) in
    run_path P check C p st =
      (st_app st1 J,
       match user_raises (resolve_pi P C) with
       | Some e => Raise e
       | None => match validations C (path_via p) h1 r with Ok _ => Ok r | Raise e => Raise e end
       end).
  Proof.
    intros C p st st1 r Hval Hc h1 J.
    unfold validating in Hval. destruct (nearest_deco C) as [D|] eqn:HD; [|discriminate].
    apply andb_true_iff in Hval as [Hinit Hnew].
    rewrite run_path_eq by congruence. unfold bindM at 1. rewrite Hc. unfold post. rewrite HD, Hinit.
    unfold bindM at 1.
    rewrite (run_pi_eq (fun vis => validate_types P check vis C r)
                       (fun b h => fst (checks_prefix b h r (dc_fields C)))
                       (fun b h => snd (checks_prefix b h r (dc_fields C)))
                       (fun b => validate_appender b C D r HD)).
    fold h1. fold J.
    assert (Hne : resolve_pi P C <> PFNone) by (destruct (resolve_pi P C); [discriminate Hnew|discriminate..]).
    rewrite (pi_spec_outcome _ _ _ _ _ (resolve_pi_wf C) Hne).
    destruct (user_raises (resolve_pi P C)) as [e|]; [reflexivity|].
    unfold validations.
    rewrite (map_ext (fun b => snd (checks_prefix b h1 r (dc_fields C)))
                     (fun b => of_reject (first_reject (check b) h1 (dc_fields C) r)))
      by (intro; apply checks_prefix_outcome).
    destruct (first_raise _) as [[]|e]; reflexivity.
  Qed.

  Lemma path_raises_early : forall C p st st1 e, nearest_deco C <> None ->
    path_candidate P C p st = (st1, Raise e) -> run_path P check C p st = (st1, Raise e).
  Proof. intros C p st st1 e HD H. rewrite run_path_eq by assumption. unfold bindM. now rewrite H. Qed.

  (* validations succeed iff every field conforms under every context the path uses *)
  Lemma validations_ok : forall C v h r,
    validations C v h r = Ok tt <->
    forall b, In b (vis_list (resolve_pi P C) v 0) -> all_conform (check b) h (dc_fields C) r = true.
  Proof.
    intros. unfold validations. rewrite first_raise_ok, Forall_map, Forall_forall.
    split; intros H b Hb; specialize (H b Hb).
    - apply first_reject_none. destruct (first_reject _ _ _ _); [discriminate|reflexivity].
    - apply first_reject_none in H. now rewrite H.
  Qed.

  (* a checker whose verdict does not depend on the caller's locals: one validation decides *)
  Definition vis_indep : Prop := forall b h a v, check b h a v = check true h a v.

  Lemma first_reject_ext : forall c1 c2 h fs r, (forall a v, c1 h a v = c2 h a v) ->
    first_reject c1 h fs r = first_reject c2 h fs r.
  Proof.
    intros c1 c2 h fs r H. induction fs as [|f fs IH]; simpl; [reflexivity|].
    destruct (getattr h r (f_name f)); [|reflexivity]. rewrite H. now rewrite IH.
  Qed.

  Lemma validations_indep : forall C v h r, vis_indep -> is_new (resolve_pi P C) = true ->
    validations C v h r = of_reject (first_reject (check true) h (dc_fields C) r).
  Proof.
    intros C v h r Hi Hn. unfold validations. apply first_raise_const.
    - intro E. apply map_eq_nil in E. now apply vis_list_nonempty in E.
    - apply Forall_map, Forall_forall. intros b _. f_equal. apply first_reject_ext. intros. apply Hi.
  Qed.

  (* the exact guard under which one validation decides: the path validates in the caller's context only, or
     the checker's verdict on the annotations of THIS class does not depend on the caller's locals *)
  Definition ctx_irrelevant (C : chain) (v : via) : Prop :=
    (forall b, In b (vis_list (resolve_pi P C) v 0) -> b = true) \/
    (forall f, In f (dc_fields C) -> forall h x, check false h (f_ann f) x = check true h (f_ann f) x).

  Lemma first_reject_ext_fields : forall c1 c2 h fs r,
    (forall f, In f fs -> forall x, c1 h (f_ann f) x = c2 h (f_ann f) x) ->
    first_reject c1 h fs r = first_reject c2 h fs r.
  Proof.
    intros c1 c2 h fs r. induction fs as [|f fs IH]; intro H; simpl; [reflexivity|].
    destruct (getattr h r (f_name f)); [|reflexivity]. rewrite (H f (or_introl eq_refl)).
    rewrite IH; [reflexivity|]. intros g Hg. apply H. now right.
  Qed.

  Lemma validations_guarded : forall C v h r, ctx_irrelevant C v -> is_new (resolve_pi P C) = true ->
    validations C v h r = of_reject (first_reject (check true) h (dc_fields C) r).
  Proof.
    intros C v h r Hg Hn. unfold validations. apply first_raise_const.
    - intro E. apply map_eq_nil in E. now apply vis_list_nonempty in E.
    - apply Forall_map, Forall_forall. intros b Hb. f_equal. destruct Hg as [Hg|Hg].
      + now rewrite (Hg b Hb).
      + destruct b; [reflexivity|]. apply first_reject_ext_fields. intros f Hf x. now apply Hg.
  Qed.

  Lemma vis_indep_irrelevant : forall C v, vis_indep -> ctx_irrelevant C v.
  Proof. intros C v Hi. right. intros f _ h x. apply Hi. Qed.

  (* ---- validate_types called by the user (context = the caller's frame) *)
  Lemma validate_outcome : forall vis C r st, nearest_deco C <> None ->
    exists checks, forallb is_check checks = true /\
    validate_types P check vis C r st =
      (st_app st checks, of_reject (first_reject (check vis) (s_heap st) (dc_fields C) r)).
  Proof.
    intros vis C r st HD. destruct (nearest_deco C) as [D|] eqn:ED; [|congruence].
    rewrite (validate_appender vis C D r ED). rewrite checks_prefix_outcome.
    eexists. split; [apply checks_prefix_events|reflexivity].
  Qed.

  (* head class decorated with type_safe=True => validating *)
  Lemma decorated_type_safe_validating : forall L rest,
    decorated L = true -> param_of P L PTypeSafe = true -> validating P (L :: rest) = true.
  Proof.
    intros L rest HL HT. unfold validating. simpl nearest_deco. rewrite HL.
    unfold init_calls_pi. unfold P. rewrite ref_ts_installed, ref_install. fold P. rewrite HL, HT. simpl.
    rewrite !orb_true_r. simpl. unfold P. rewrite ref_ts_installed. fold P. now rewrite HL, HT.
  Qed.

  (* an undecorated subclass that does not define __post_init__ itself inherits the validation *)
  Lemma undecorated_inherits_validating : forall L rest,
    decorated L = false -> l_pi L = None -> validating P rest = true -> validating P (L :: rest) = true.
  Proof.
    intros L rest HL Hpi Hv. unfold validating in *. simpl nearest_deco. rewrite HL.
    destruct (nearest_deco rest) as [D|]; [|discriminate]. simpl resolve_pi. rewrite Hpi.
    unfold ts_installed. rewrite HL. simpl. exact Hv.
  Qed.

  (* a decorated subclass (type_safe or not) of a validating class is validating *)
  Lemma decorated_child_validating : forall L rest,
    decorated L = true -> l_pi L = None -> validating P rest = true -> validating P (L :: rest) = true.
  Proof.
    intros L rest HL Hpi Hv. unfold validating in *. simpl nearest_deco. rewrite HL.
    destruct (nearest_deco rest) as [D|]; [|discriminate]. apply andb_true_iff in Hv as [_ Hn].
    simpl resolve_pi. rewrite Hpi. simpl init_calls_pi. rewrite Hpi. simpl.
    assert (Hp : has_pi P rest = true) by (unfold has_pi; destruct (resolve_pi P rest); [discriminate|reflexivity..]).
    rewrite Hp. simpl.
    destruct (ts_installed P L); [reflexivity|]. exact Hn.
  Qed.
End C10.
