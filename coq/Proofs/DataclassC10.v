(* C10: construction paths, validate_types, __post_init__ (user hooks with heap effect and super() calls, stacked
   new_post_init wrappers).  Lemmas are stated for the reference member of the decorator family
   (Proofs/DataclassRef.v) and an arbitrary checker `check`. *)
From Coq Require Import List ZArith Bool Arith Lia.
From PV Require Import Base.Exn Model.Dataclass Spec.DataclassSpec Proofs.DataclassBase Proofs.DataclassRef.
Import ListNotations.

(* the first exception in a sequence of results *)
Fixpoint first_raise (l : list (outcome unit)) : outcome unit :=
  match l with [] => Ok tt | Ok _ :: r => first_raise r | Raise e :: _ => Raise e end.

Lemma first_raise_app : forall a b,
  first_raise (a ++ b) = match first_raise a with Ok _ => first_raise b | Raise e => Raise e end.
Proof. induction a as [|[[]|e] a IH]; intros; simpl; [reflexivity|apply IH|reflexivity]. Qed.
Lemma first_raise_one : forall x, first_raise [x] = x.
Proof. intros [[]|e]; reflexivity. Qed.
Lemma first_raise_ok : forall l, first_raise l = Ok tt <-> Forall (fun x => x = Ok tt) l.
Proof.
  induction l as [|[[]|e] l IH]; simpl.
  - split; [constructor|reflexivity].
  - rewrite IH. split; [now constructor|]. intro H. now inversion H.
  - split; [discriminate|]. intro H. inversion H. discriminate.
Qed.
Lemma first_raise_const : forall x l, l <> [] -> Forall (fun y => y = x) l -> first_raise l = x.
Proof.
  intros x l Hne H. destruct l as [|y l]; [congruence|]. inversion H; subst. clear Hne H.
  destruct x as [[]|e]; simpl; [|reflexivity]. apply first_raise_ok. eapply Forall_impl; [|eassumption]. auto.
Qed.
Lemma first_raise_in : forall l e, first_raise l = Raise e -> In (Raise e) l.
Proof.
  induction l as [|[[]|e'] l IH]; simpl; intros e H; [discriminate|right; now apply IH|left; congruence].
Qed.

Definition of_reject (o : option exn) : outcome unit := match o with None => Ok tt | Some e => Raise e end.

Lemma first_reject_none : forall c h fs r, first_reject c h fs r = None <-> all_conform c h fs r = true.
Proof.
  induction fs as [|f fs IH]; intro r; simpl; [tauto|].
  destruct (getattr h r (f_name f)) as [v|]; [|split; discriminate].
  destruct (c h (f_ann f) v) as [[]|e]; simpl; [apply IH|split; discriminate].
Qed.

(* what one run of __post_init__ amounts to: events appended to the journal, the heap it leaves, its outcome *)
Definition pres := (list event * heap * outcome unit)%type.
Definition to_state (st : state) (x : pres) : state * outcome unit :=
  match x with (ev, h, o) => (mkSt h (s_journal st ++ ev), o) end.

Lemma to_state_nil : forall st o, to_state st ([], s_heap st, o) = (st, o).
Proof. intros [h j] o. simpl. now rewrite app_nil_r. Qed.

(* the new_post_init wrappers stacked on top of the attribute, and what they wrap *)
Fixpoint core (f : pifun) : pifun := match f with PFNew old => core old | x => x end.
Fixpoint wraps (f : pifun) : nat := match f with PFNew old => S (wraps old) | _ => O end.
Fixpoint no_super (body : list pistmt) : bool :=
  match body with [] => true | PSet _ _ :: rest => no_super rest | PSuper :: _ => false end.

Section C10.
  Variable defs : list (dparam * bool).
  Let P := ref_prog defs.
  Variable check : bool -> heap -> ann -> value -> outcome unit.

  (* ---- the loop of validate_types: events and outcome as a function of the heap *)
  Fixpoint checks_prefix (vis : bool) (h : heap) (r : nat) (fs : list field) : list event * outcome unit :=
    match fs with
    | [] => ([], Ok tt)
    | f :: rest =>
      match getattr h r (f_name f) with
      | None => ([], Raise PTypeCheckC)
      | Some v =>
        match check vis h (f_ann f) v with
        | Ok _ => (ECheck (f_ann f) v :: fst (checks_prefix vis h r rest), snd (checks_prefix vis h r rest))
        | Raise e => ([ECheck (f_ann f) v], Raise e)
        end
      end
    end.

  Lemma check_loop_eq : forall vis fs r st,
    check_loop check vis fs r st =
    (st_app st (fst (checks_prefix vis (s_heap st) r fs)), snd (checks_prefix vis (s_heap st) r fs)).
  Proof.
    induction fs as [|f fs IH]; intros r st; simpl.
    - unfold ret. now rewrite st_app_nil.
    - unfold bindM at 1. unfold checked_getattrM. destruct (getattr (s_heap st) r (f_name f)) as [v|] eqn:E.
      + unfold bindM at 1. unfold emit. unfold bindM at 1. unfold get_heap. cbn [s_heap s_journal].
        destruct (check vis (s_heap st) (f_ann f) v) as [[]|e] eqn:Ec.
        * rewrite IH. simpl. unfold st_app. simpl. now rewrite <- app_assoc.
        * reflexivity.
      + simpl. now rewrite st_app_nil.
  Qed.

  Lemma checks_prefix_outcome : forall vis h r fs,
    snd (checks_prefix vis h r fs) = of_reject (first_reject (check vis) h fs r).
  Proof.
    induction fs as [|f fs IH]; simpl; [reflexivity|].
    destruct (getattr h r (f_name f)) as [v|] eqn:E; [|reflexivity].
    destruct (check vis h (f_ann f) v) as [[]|e]; simpl; [apply IH|reflexivity].
  Qed.

  Lemma checks_prefix_events : forall vis h r fs, forallb is_check (fst (checks_prefix vis h r fs)) = true.
  Proof.
    induction fs as [|f fs IH]; simpl; [reflexivity|].
    destruct (getattr h r (f_name f)); [|reflexivity].
    destruct (check vis h (f_ann f) v) as [[]|e]; simpl; [assumption|reflexivity].
  Qed.

  Lemma validate_appender : forall vis C D r, nearest_deco C = Some D ->
    forall st, validate_types P check vis C r st =
      (st_app st (fst (checks_prefix vis (s_heap st) r (dc_fields C))), snd (checks_prefix vis (s_heap st) r (dc_fields C))).
  Proof.
    intros vis C D r HD st. unfold P. rewrite ref_validate, HD, (nearest_deco_fields _ _ HD). apply check_loop_eq.
  Qed.

  (* ---- object.__setattr__, pure *)
  Definition set_cell (h : heap) (r : nat) (n : name) (v : value) : heap :=
    heap_upd h r (fun o => mkObj (o_kind o) (o_items o) (dict_set (o_attrs o) n v)).
  Definition setf (C : chain) (r : nat) (n : name) (v : value) (h : heap) : outcome heap :=
    if has_dict P C || mem n (field_names C) then Ok (set_cell h r n v) else Raise AttributeErrorC.

  Lemma obj_setattr_eq : forall C r n v st,
    obj_setattr P C r n v st =
    match setf C r n v (s_heap st) with Ok h' => (mkSt h' (s_journal st), Ok tt) | Raise e => (st, Raise e) end.
  Proof. intros. unfold obj_setattr, setf. destruct (has_dict P C || mem n (field_names C)); reflexivity. Qed.

  (* ---- __post_init__ as a pure function of the heap: the mirror of Model.run_pi with the validation loop replaced
     by checks_prefix (whose outcome is Spec.first_reject) *)
  Section Mirror.
    Variable C : chain.
    Variable r : nat.                        (* the object under construction *)

    Fixpoint body_spec (sup : heap -> pres) (slots : bool) (body : list pistmt) (h : heap) : pres :=
      match body with
      | [] => ([], h, Ok tt)
      | PSet n v :: rest =>
        match setf C r n v h with Ok h' => body_spec sup slots rest h' | Raise e => ([], h, Raise e) end
      | PSuper :: rest =>
        if slots then ([], h, Raise TypeErrorC) else
        match sup h with
        | (e1, h1, Ok _) => match body_spec sup slots rest h1 with (e2, h2, o2) => (e1 ++ e2, h2, o2) end
        | (e1, h1, Raise e) => (e1, h1, Raise e)
        end
      end.
    Fixpoint pi_spec (f : pifun) (v : via) (outer : nat) (h : heap) : pres :=
      match f with
      | PFNone => ([], h, Raise AttributeErrorC)
      | PFNoop => ([], h, Ok tt)
      | PFUser c b slots sup =>
        match body_spec (pi_spec sup v (S outer)) slots (pb_body b) h with
        | (e1, h1, Ok _) => (EPi c :: e1, h1, match pb_raise b with Some e => Raise e | None => Ok tt end)
        | (e1, h1, Raise e) => (EPi c :: e1, h1, Raise e)
        end
      | PFNew old =>
        match pi_spec old v (S outer) h with
        | (e1, h1, Ok _) =>
          (e1 ++ fst (checks_prefix (caller_visible v outer) h1 r (dc_fields C)), h1,
           snd (checks_prefix (caller_visible v outer) h1 r (dc_fields C)))
        | (e1, h1, Raise e) => (e1, h1, Raise e)
        end
      end.

    Lemma to_state_step : forall st e1 h1 (x : pres),
      to_state (mkSt h1 (s_journal st ++ e1)) x =
      match x with (e2, h2, o2) => to_state st (e1 ++ e2, h2, o2) end.
    Proof. intros st e1 h1 [[e2 h2] o2]. simpl. now rewrite app_assoc. Qed.

    Lemma run_body_eq : forall (supM : M unit) (supS : heap -> pres) slots,
      (forall st, supM st = to_state st (supS (s_heap st))) ->
      forall body st, run_body (obj_setattr P C r) supM slots body st = to_state st (body_spec supS slots body (s_heap st)).
    Proof.
      intros supM supS slots Hs. induction body as [|s body IH]; intro st.
      - cbn [run_body body_spec]. unfold ret. now rewrite to_state_nil.
      - destruct s as [n v|]; cbn [run_body body_spec].
        + unfold bindM at 1. rewrite obj_setattr_eq. destruct (setf C r n v (s_heap st)) as [h'|e].
          * rewrite IH. reflexivity.
          * now rewrite to_state_nil.
        + destruct slots.
          * unfold bindM, raise. now rewrite to_state_nil.
          * unfold bindM at 1. rewrite Hs. destruct (supS (s_heap st)) as [[e1 h1] [[]|e]]; cbn [to_state].
            -- rewrite IH. cbn [s_heap]. rewrite to_state_step.
               destruct (body_spec supS false body h1) as [[e2 h2] o2]. reflexivity.
            -- reflexivity.
    Qed.

    Lemma run_pi_eq : forall D, nearest_deco C = Some D ->
      forall f v outer st,
      run_pi P f v outer (fun vis => validate_types P check vis C r) (obj_setattr P C r) st =
      to_state st (pi_spec f v outer (s_heap st)).
    Proof.
      intros D HD. induction f as [| |c b slots sup IH|old IH]; intros v outer st.
      - cbn [run_pi pi_spec]. unfold raise. now rewrite to_state_nil.
      - cbn [run_pi pi_spec]. unfold ret. now rewrite to_state_nil.
      - cbn [run_pi pi_spec]. unfold bindM at 1. unfold emit.
        unfold bindM at 1.
        rewrite (run_body_eq _ (pi_spec sup v (S outer)) slots (fun st0 => IH v (S outer) st0)).
        cbn [s_heap s_journal].
        destruct (body_spec (pi_spec sup v (S outer)) slots (pb_body b) (s_heap st)) as [[e1 h1] [[]|e]]; simpl.
        + unfold end_of. destruct (pb_raise b); unfold raise, ret; now rewrite <- app_assoc.
        + now rewrite <- app_assoc.
      - unfold P in *. rewrite ref_run_new. unfold bindM at 1. rewrite IH.
        cbn [pi_spec]. destruct (pi_spec old v (S outer) (s_heap st)) as [[e1 h1] [[]|e]]; simpl.
        + unfold bindM at 1. rewrite (validate_appender _ C D r HD). cbn [s_heap s_journal st_app].
          destruct (snd (checks_prefix (caller_visible v outer) h1 r (dc_fields C))) as [[]|e']; simpl;
            now rewrite app_assoc.
        + reflexivity.
    Qed.

    (* ---- closed forms *)
    (* the successive validations of the stacked wrappers, all on the heap the wrapped function left *)
    Fixpoint val_seq (bs : list bool) (h : heap) : list event * outcome unit :=
      match bs with
      | [] => ([], Ok tt)
      | b :: rest =>
        match snd (checks_prefix b h r (dc_fields C)) with
        | Ok _ => (fst (checks_prefix b h r (dc_fields C)) ++ fst (val_seq rest h), snd (val_seq rest h))
        | Raise e => (fst (checks_prefix b h r (dc_fields C)), Raise e)
        end
      end.
    Lemma val_seq_app : forall a b h,
      val_seq (a ++ b) h =
      match snd (val_seq a h) with
      | Ok _ => (fst (val_seq a h) ++ fst (val_seq b h), snd (val_seq b h))
      | Raise e => (fst (val_seq a h), Raise e)
      end.
    Proof.
      induction a as [|x a IH]; intros b h; simpl.
      - destruct (val_seq b h). reflexivity.
      - destruct (snd (checks_prefix x h r (dc_fields C))) as [[]|e]; simpl; [|reflexivity].
        rewrite IH. destruct (snd (val_seq a h)) as [[]|e]; simpl; [now rewrite app_assoc|reflexivity].
    Qed.
    Lemma val_seq_outcome : forall bs h,
      snd (val_seq bs h) = first_raise (map (fun b => of_reject (first_reject (check b) h (dc_fields C) r)) bs).
    Proof.
      induction bs as [|b bs IH]; intro h; simpl; [reflexivity|].
      rewrite <- checks_prefix_outcome.
      destruct (snd (checks_prefix b h r (dc_fields C))) as [[]|e]; simpl; [apply IH|reflexivity].
    Qed.
    Lemma val_seq_events : forall bs h, forallb is_check (fst (val_seq bs h)) = true.
    Proof.
      induction bs as [|b bs IH]; intro h; simpl; [reflexivity|].
      destruct (snd (checks_prefix b h r (dc_fields C))) as [[]|e]; simpl.
      - now rewrite forallb_app, checks_prefix_events, IH.
      - apply checks_prefix_events.
    Qed.

    (* the visibility flags of the successive validate_types calls of the stacked wrappers, in execution order
       (the innermost new_post_init validates first) *)
    Fixpoint vis_list (f : pifun) (v : via) (outer : nat) : list bool :=
      match f with PFNew old => vis_list old v (S outer) ++ [caller_visible v outer] | _ => [] end.

    (* everything below the stacked wrappers runs first; then the wrappers validate, one after the other, the heap it left *)
    Lemma pi_spec_wrapped : forall f v outer h,
      pi_spec f v outer h =
      match pi_spec (core f) v (wraps f + outer) h with
      | (e0, h2, Ok _) => (e0 ++ fst (val_seq (vis_list f v outer) h2), h2, snd (val_seq (vis_list f v outer) h2))
      | (e0, h2, Raise e) => (e0, h2, Raise e)
      end.
    Proof.
      induction f as [| |c b slots sup _|old IH]; intros v outer h.
      - reflexivity.
      - reflexivity.
      - cbn [core wraps vis_list val_seq fst snd]. cbn [Nat.add].
        destruct (pi_spec (PFUser c b slots sup) v outer h) as [[e0 h2] [[]|e]]; [now rewrite app_nil_r|reflexivity].
      - cbn [pi_spec core wraps vis_list]. rewrite IH.
        replace (S (wraps old) + outer) with (wraps old + S outer) by lia.
        destruct (pi_spec (core old) v (wraps old + S outer) h) as [[e0 h2] [[]|e]]; [|reflexivity].
        rewrite val_seq_app.
        destruct (snd (val_seq (vis_list old v (S outer)) h2)) as [[]|e]; [|reflexivity].
        cbn [val_seq fst snd].
        destruct (snd (checks_prefix (caller_visible v outer) h2 r (dc_fields C))) as [[]|e] eqn:E;
          cbn [fst snd]; rewrite ?app_nil_r, ?app_assoc; reflexivity.
    Qed.

    (* a user body without super(): journal entry, the assignments in order, return / raise; no validation inside *)
    Fixpoint apply_sets (body : list pistmt) (h : heap) : heap * outcome unit :=
      match body with
      | [] => (h, Ok tt)
      | PSet n v :: rest => match setf C r n v h with Ok h' => apply_sets rest h' | Raise e => (h, Raise e) end
      | PSuper :: _ => (h, Raise TypeErrorC)
      end.
    Lemma body_spec_plain : forall sup slots body h, no_super body = true ->
      body_spec sup slots body h = ([], fst (apply_sets body h), snd (apply_sets body h)).
    Proof.
      induction body as [|[n v|] body IH]; intros h H; simpl in *; [reflexivity| |discriminate].
      destruct (setf C r n v h) as [h'|e]; [now apply IH|reflexivity].
    Qed.
    Definition plain_hook (b : pib) (h : heap) : heap * outcome unit :=
      match apply_sets (pb_body b) h with
      | (h2, Ok _) => (h2, match pb_raise b with Some e => Raise e | None => Ok tt end)
      | (h2, Raise e) => (h2, Raise e)
      end.
    Lemma pi_spec_plain_user : forall c b slots sup v outer h, no_super (pb_body b) = true ->
      pi_spec (PFUser c b slots sup) v outer h = ([EPi c], fst (plain_hook b h), snd (plain_hook b h)).
    Proof.
      intros. cbn [pi_spec]. rewrite body_spec_plain by assumption. unfold plain_hook.
      destruct (apply_sets (pb_body b) h) as [h2 [[]|e]]; reflexivity.
    Qed.

    (* the first event of a run whose first function is written by the user is that user's journal entry *)
    Lemma pi_spec_user_first : forall c b slots sup v outer h,
      exists e1, fst (fst (pi_spec (PFUser c b slots sup) v outer h)) = EPi c :: e1.
    Proof.
      intros. cbn [pi_spec].
      destruct (body_spec (pi_spec sup v (S outer)) slots (pb_body b) h) as [[e1 h1] [[]|e]]; exists e1; reflexivity.
    Qed.

    (* soundness: when the attribute ends with a validation and returns, every field conforms in the heap it leaves *)
    Fixpoint final_vis (f : pifun) (v : via) (outer : nat) : bool :=
      match f with
      | PFNew _ => caller_visible v outer
      | PFUser _ _ _ sup => final_vis sup v (S outer)
      | _ => true
      end.
    Lemma body_last_super : forall sup body h ev h2,
      last_is_super body = true -> body_spec sup false body h = (ev, h2, Ok tt) ->
      exists h' ev', sup h' = (ev', h2, Ok tt).
    Proof.
      induction body as [|s body IH]; intros h ev h2 Hl H; [discriminate|].
      destruct body as [|s' body'].
      - destruct s as [n v|]; [simpl in Hl; discriminate|]. simpl in H.
        destruct (sup h) as [[e1 h1] [[]|e]] eqn:E; [|discriminate]. inversion H. subst. now exists h, e1.
      - assert (Hl' : last_is_super (s' :: body') = true) by exact Hl. clear Hl.
        remember (s' :: body') as tl eqn:Etl. clear Etl.
        destruct s as [n v|].
        + cbn [body_spec] in H. destruct (setf C r n v h) as [h'|e]; [|discriminate]. eapply IH; eassumption.
        + cbn [body_spec] in H. destruct (sup h) as [[e1 h1] [[]|e]]; [|discriminate].
          destruct (body_spec sup false tl h1) as [[e2 h2'] o2] eqn:E2. inversion H. subst.
          eapply IH; eassumption.
    Qed.
    Lemma ends_checked_sound : forall f v outer h ev h2,
      ends_checked f = true -> pi_spec f v outer h = (ev, h2, Ok tt) ->
      all_conform (check (final_vis f v outer)) h2 (dc_fields C) r = true.
    Proof.
      induction f as [| |c b slots sup IH|old _]; intros v outer h ev h2 He H; try discriminate.
      - cbn [ends_checked] in He. apply andb_true_iff in He as [He He4]. apply andb_true_iff in He as [He He3].
        apply andb_true_iff in He as [He1 He2]. apply negb_true_iff in He1. subst slots.
        cbn [pi_spec] in H.
        destruct (body_spec (pi_spec sup v (S outer)) false (pb_body b) h) as [[e1 h1] [[]|e]] eqn:E; [|discriminate].
        destruct (pb_raise b); [discriminate|]. inversion H. subst.
        destruct (body_last_super _ _ _ _ _ He3 E) as [h' [ev' Hs]].
        cbn [final_vis]. eapply IH; eassumption.
      - cbn [pi_spec] in H. destruct (pi_spec old v (S outer) h) as [[e1 h1] [[]|e]]; [|discriminate].
        inversion H. subst. cbn [final_vis]. rewrite checks_prefix_outcome in H3.
        apply first_reject_none. destruct (first_reject _ _ _ _); [discriminate|reflexivity].
    Qed.

    (* object.__setattr__ only adds / overwrites: an attribute of the object that had a value keeps having one *)
    Lemma heap_upd_nth : forall h q g, nth_error (heap_upd h q g) q = option_map g (nth_error h q).
    Proof. induction h as [|o h IH]; intros [|q] g; simpl; try reflexivity. apply IH. Qed.
    Lemma set_cell_keeps : forall h n v m, getattr h r m <> None -> getattr (set_cell h r n v) r m <> None.
    Proof.
      intros h n v m H. unfold getattr, set_cell in *. rewrite heap_upd_nth.
      destruct (nth_error h r) as [o|]; [|exact H]. simpl. rewrite lookup_dict_set.
      destruct (Nat.eqb n m); [discriminate|exact H].
    Qed.
    Definition keeps (x : heap -> pres) : Prop :=
      forall h m, getattr h r m <> None -> getattr (snd (fst (x h))) r m <> None.
    Lemma body_spec_keeps : forall sup slots, keeps sup -> forall body, keeps (body_spec sup slots body).
    Proof.
      intros sup slots Hs. induction body as [|[n v|] body IH]; intros h m H; cbn [body_spec].
      - exact H.
      - unfold setf. destruct (has_dict P C || mem n (field_names C)); [|exact H]. apply IH. now apply set_cell_keeps.
      - destruct slots; [exact H|]. pose proof (Hs h m H) as H1. destruct (sup h) as [[e1 h1] [[]|e]]; [|exact H1].
        pose proof (IH h1 m H1) as H2. destruct (body_spec sup false body h1) as [[e2 h2] o2]. exact H2.
    Qed.
    Lemma pi_spec_keeps : forall f v outer, keeps (pi_spec f v outer).
    Proof.
      induction f as [| |c b slots sup IH|old IH]; intros v outer h m H; cbn [pi_spec]; try exact H.
      - pose proof (body_spec_keeps (pi_spec sup v (S outer)) slots (IH v (S outer)) (pb_body b) h m H) as H1.
        destruct (body_spec (pi_spec sup v (S outer)) slots (pb_body b) h) as [[e1 h1] [[]|e]]; exact H1.
      - pose proof (IH v (S outer) h m H) as H1. destruct (pi_spec old v (S outer) h) as [[e1 h1] [[]|e]]; exact H1.
    Qed.

    (* ---- the heap a run that returns leaves: the assignments of the hooks that ran, applied in order *)
    Fixpoint apply_list (S : list (name * value)) (h : heap) : heap :=
      match S with [] => h | (n, v) :: rest => apply_list rest (set_cell h r n v) end.
    Lemma apply_list_app : forall a b h, apply_list (a ++ b) h = apply_list b (apply_list a h).
    Proof. induction a as [|[n v] a IH]; intros; simpl; [reflexivity|apply IH]. Qed.
    Definition sets_of (x : heap -> pres) (S : list (name * value)) : Prop :=
      forall h ev h2, x h = (ev, h2, Ok tt) -> h2 = apply_list S h.
    Lemma body_spec_sets : forall sup S slots, sets_of sup S ->
      forall body, sets_of (body_spec sup slots body)
                           (flat_map (fun s => match s with PSet n v => [(n, v)] | PSuper => S end) body).
    Proof.
      intros sup S slots Hs. induction body as [|[n v|] body IH]; intros h ev h2 H; cbn [body_spec flat_map] in *.
      - now inversion H.
      - unfold setf in H. destruct (has_dict P C || mem n (field_names C)); [|discriminate]. simpl. eapply IH. eassumption.
      - destruct slots; [discriminate|]. destruct (sup h) as [[e1 h1] [[]|e]] eqn:E; [|discriminate].
        destruct (body_spec sup false body h1) as [[e2 h2'] o2] eqn:E2. inversion H. subst.
        rewrite apply_list_app. rewrite <- (Hs _ _ _ E). eapply IH. eassumption.
    Qed.
    Lemma getattr_apply_list : forall S h n o, nth_error h r = Some o ->
      getattr (apply_list S h) r n = match last_set S n with Some v => Some v | None => getattr h r n end.
    Proof.
      induction S as [|[k v] S IH]; intros h n o Ho; simpl; [reflexivity|].
      assert (Ho' : nth_error (set_cell h r k v) r = Some (mkObj (o_kind o) (o_items o) (dict_set (o_attrs o) k v))).
      { unfold set_cell. rewrite heap_upd_nth, Ho. reflexivity. }
      rewrite (IH _ n _ Ho'). destruct (last_set S n); [reflexivity|].
      unfold getattr. rewrite Ho', Ho. simpl. rewrite lookup_dict_set. destruct (Nat.eqb k n); reflexivity.
    Qed.
  End Mirror.

  Definition user_raises (f : pifun) : option exn :=
    match user_of f with Some (_, b) => pb_raise b | None => None end.
  (* no PFNone below a PFNew: holds for everything resolve_pi produces *)
  Fixpoint pi_wf (f : pifun) : bool := match f with PFNew PFNone => false | PFNew old => pi_wf old | _ => true end.

  Lemma resolve_pi_wf : forall C, pi_wf (resolve_pi P C) = true.
  Proof.
    induction C as [|L C IH]; simpl; [reflexivity|].
    destruct (ts_installed P L).
    - destruct (l_pi L); [reflexivity|]. destruct (resolve_pi P C) eqn:E; simpl in *; try reflexivity; assumption.
    - destruct (l_pi L); [reflexivity|assumption].
  Qed.

  Lemma vis_list_nonempty : forall f v outer, is_new f = true -> vis_list f v outer <> [].
  Proof. intros [| | |old] v outer H; try discriminate. simpl. intro E. now apply app_eq_nil in E as [_ E]. Qed.

  Lemma user_of_core : forall f, user_of f = user_of (core f).
  Proof. induction f; simpl; try reflexivity; assumption. Qed.
  Lemma core_not_new : forall f, is_new (core f) = false.
  Proof. induction f; simpl; try reflexivity; assumption. Qed.
  Lemma core_user : forall f c b, user_of f = Some (c, b) -> exists slots sup, core f = PFUser c b slots sup.
  Proof.
    induction f as [| |c' b' slots sup _|old IH]; intros c b H; simpl in *; try discriminate.
    - inversion H. subst. now exists slots, sup.
    - now apply IH.
  Qed.
  Lemma core_no_user : forall f, pi_wf f = true -> is_new f = true -> user_of f = None -> core f = PFNoop.
  Proof.
    induction f as [| |c' b' slots sup _|old IH]; intros Hw Hn H; simpl in *; try discriminate.
    destruct old as [| |c b s sp|o2]; simpl in *; try discriminate; try reflexivity.
    apply IH; [assumption|reflexivity|assumption].
  Qed.

  (* the attribute of a hierarchy without any __post_init__ has no hooks *)
  Lemma resolve_none_sets : forall C, resolve_pi P C = PFNone -> spec_hook_sets C = [].
  Proof.
    induction C as [|L C IH]; [reflexivity|]. simpl. destruct (ts_installed P L); [discriminate|].
    destruct (l_pi L); [discriminate|]. exact IH.
  Qed.
  (* whatever class C0 the object belongs to: a run of the attribute of C that returns has applied Spec.spec_hook_sets C *)
  Lemma resolve_sets : forall C0 r C v outer, sets_of r (pi_spec C0 r (resolve_pi P C) v outer) (spec_hook_sets C).
  Proof.
    intros C0 r. induction C as [|L C IH]; intros v outer h ev h2 H; [discriminate|].
    cbn [resolve_pi spec_hook_sets] in *.
    assert (Hb : forall v outer,
      sets_of r (pi_spec C0 r (match l_pi L with
                                  | Some b => PFUser (l_id L) b (decorated L && eff_slots P L) (resolve_pi P C)
                                  | None => resolve_pi P C end) v outer)
              (match l_pi L with
               | None => spec_hook_sets C
               | Some b => flat_map (fun s => match s with PSet n v => [(n, v)] | PSuper => spec_hook_sets C end) (pb_body b)
               end)).
    { intros v' outer'. destruct (l_pi L) as [b|]; [|apply IH]. intros h' ev' h2' H'. cbn [pi_spec] in H'.
      destruct (body_spec C0 r (pi_spec C0 r (resolve_pi P C) v' (S outer')) (decorated L && eff_slots P L) (pb_body b) h')
        as [[e1 h1] [[]|e]] eqn:E; [|discriminate].
      destruct (pb_raise b); [discriminate|]. inversion H'. subst.
      eapply (body_spec_sets C0 r _ _ _ (IH v' (S outer'))). eassumption. }
    destruct (ts_installed P L); [|exact (Hb v outer h ev h2 H)].
    cbn [pi_spec] in H.
    remember (match l_pi L with
              | Some b => PFUser (l_id L) b (decorated L && eff_slots P L) (resolve_pi P C)
              | None => resolve_pi P C end) as below eqn:Eb.
    assert (Hgen : forall f, f = below -> f <> PFNone -> forall e1 h1, pi_spec C0 r f v (S outer) h = (e1, h1, Ok tt) ->
                   h1 = apply_list r (match l_pi L with
                                      | None => spec_hook_sets C
                                      | Some b => flat_map (fun s => match s with PSet n v => [(n, v)] | PSuper => spec_hook_sets C end) (pb_body b)
                                      end) h).
    { intros f Hf _ e1 h1 E. subst f. exact (Hb v (S outer) h e1 h1 E). }
    destruct below as [| |c b slots p|p].
    - (* nothing below: the no-op default *)
      cbn [pi_spec] in H. destruct (l_pi L); [discriminate|]. rewrite (resolve_none_sets _ (eq_sym Eb)).
      destruct (snd (checks_prefix (caller_visible v outer) h r (dc_fields C0))); inversion H; reflexivity.
    - destruct (pi_spec C0 r PFNoop v (S outer) h) as [[e1 h1] [[]|e]] eqn:E; [|discriminate].
      inversion H. subst h2. eapply (Hgen PFNoop eq_refl); [discriminate|eassumption].
    - destruct (pi_spec C0 r (PFUser c b slots p) v (S outer) h) as [[e1 h1] [[]|e]] eqn:E; [|discriminate].
      inversion H. subst h2. eapply (Hgen _ eq_refl); [discriminate|eassumption].
    - destruct (pi_spec C0 r (PFNew p) v (S outer) h) as [[e1 h1] [[]|e]] eqn:E; [|discriminate].
      inversion H. subst h2. eapply (Hgen _ eq_refl); [discriminate|eassumption].
  Qed.

  (* ---- every construction path is: compute keyword arguments, build the candidate, run __post_init__ *)
  Definition post (v : via) (C : chain) (r : nat) : M nat :=
    match nearest_deco C with
    | Some D =>
      if init_calls_pi P D
      then bindM (run_pi P (resolve_pi P C) v 0 (fun vis => validate_types P check vis C r) (obj_setattr P C r)) (fun _ => ret r)
      else ret r
    | None => ret r
    end.

  Lemma run_path_eq : forall C p st, nearest_deco C <> None ->
    run_path P check C p st = bindM (path_candidate P C p) (post (path_via p) C) st.
  Proof.
    intros C p st HD. destruct (nearest_deco C) as [D|] eqn:ED; [clear HD|congruence].
    unfold path_candidate. rewrite bindM_assoc. destruct p as [kw|r0 kw|r0 kw]; simpl.
    - unfold construct, post. reflexivity.
    - unfold copy_with. simpl. rewrite ED. rewrite (nearest_deco_fields _ _ ED). reflexivity.
    - unfold deep_copy_with. simpl. reflexivity.
  Qed.

  Lemma candidate_fields_set : forall C kw st0 st1 r,
    candidate C kw st0 = (st1, Ok r) -> chain_ok C = true ->
    forall f, In f (dc_fields C) -> getattr (s_heap st1) r (f_name f) <> None.
  Proof.
    intros C kw st0 st1 r H Hok f Hf.
    destruct (candidate_spec _ _ _ _ _ H) as [D [attrs [ext [HD [HB [Hh [Hr [Hj _]]]]]]]].
    rewrite Hh, Hr, getattr_new. simpl.
    destruct (build_attrs_spec _ _ _ _ _ HB (dc_fields_nodup C)) as [_ HF].
    destruct (HF f Hf) as [_ [B _]]. apply B.
    unfold chain_ok in Hok. rewrite forallb_forall in Hok. now apply Hok.
  Qed.

  (* the whole of __post_init__ on the candidate r of a path, as a pure function of the heap the candidate lives in *)
  Definition post_init_run (C : chain) (p : path) (r : nat) (h1 : heap) : pres :=
    pi_spec C r (resolve_pi P C) (path_via p) 0 h1.
  (* ... and the part of it below the stacked new_post_init wrappers (user-written code; for a hierarchy with several
     type-safe layers separated by user hooks that call super() it contains the inner validations) *)
  Definition hooks_run (C : chain) (p : path) (r : nat) (h1 : heap) : pres :=
    pi_spec C r (core (resolve_pi P C)) (path_via p) (wraps (resolve_pi P C) + 0) h1.

  (* the main statement about construction: whenever the generated __init__ calls __post_init__ *)
  Lemma path_outcome : forall C D p st st1 r,
    nearest_deco C = Some D -> init_calls_pi P D = true ->
    path_candidate P C p st = (st1, Ok r) ->
    run_path P check C p st =
      match post_init_run C p r (s_heap st1) with
      | (ev, h2, o) => (mkSt h2 (s_journal st1 ++ ev), match o with Ok _ => Ok r | Raise e => Raise e end)
      end.
  Proof.
    intros C D p st st1 r HD Hinit Hc.
    rewrite run_path_eq by congruence. unfold bindM at 1. rewrite Hc. unfold post. rewrite HD, Hinit.
    unfold bindM at 1. rewrite (run_pi_eq C r D HD). unfold post_init_run.
    destruct (pi_spec C r (resolve_pi P C) (path_via p) 0 (s_heap st1)) as [[ev h2] [[]|e]]; reflexivity.
  Qed.

  (* ... and when it does not (no type-safe layer, no user hook): the candidate is the result *)
  Lemma path_outcome_quiet : forall C D p st st1 r,
    nearest_deco C = Some D -> init_calls_pi P D = false ->
    path_candidate P C p st = (st1, Ok r) -> run_path P check C p st = (st1, Ok r).
  Proof.
    intros C D p st st1 r HD Hinit Hc.
    rewrite run_path_eq by congruence. unfold bindM at 1. rewrite Hc. unfold post. rewrite HD, Hinit. reflexivity.
  Qed.

  (* outcome of the validations the stacked wrappers perform on the candidate r in heap h *)
  Definition validations (C : chain) (v : via) (h : heap) (r : nat) : outcome unit :=
    first_raise (map (fun b => of_reject (first_reject (check b) h (dc_fields C) r)) (vis_list (resolve_pi P C) v 0)).

  Lemma post_init_wrapped : forall C p r h1,
    post_init_run C p r h1 =
    match hooks_run C p r h1 with
    | (e0, h2, Ok _) =>
      (e0 ++ fst (val_seq C r (vis_list (resolve_pi P C) (path_via p) 0) h2), h2, validations C (path_via p) h2 r)
    | (e0, h2, Raise e) => (e0, h2, Raise e)
    end.
  Proof.
    intros. unfold post_init_run, hooks_run. rewrite pi_spec_wrapped.
    destruct (pi_spec C r (core (resolve_pi P C)) (path_via p) (wraps (resolve_pi P C) + 0) h1) as [[e0 h2] [[]|e]];
      [|reflexivity].
    unfold validations. now rewrite val_seq_outcome.
  Qed.

  Lemma path_raises_early : forall C p st st1 e, nearest_deco C <> None ->
    path_candidate P C p st = (st1, Raise e) -> run_path P check C p st = (st1, Raise e).
  Proof. intros C p st st1 e HD H. rewrite run_path_eq by assumption. unfold bindM. now rewrite H. Qed.

  (* validations succeed iff every field conforms under every context the wrappers use *)
  Lemma validations_ok : forall C v h r,
    validations C v h r = Ok tt <->
    forall b, In b (vis_list (resolve_pi P C) v 0) -> all_conform (check b) h (dc_fields C) r = true.
  Proof.
    intros. unfold validations. rewrite first_raise_ok, Forall_map, Forall_forall.
    split; intros H b Hb; specialize (H b Hb).
    - apply first_reject_none. destruct (first_reject _ _ _ _); [discriminate|reflexivity].
    - apply first_reject_none in H. now rewrite H.
  Qed.
  Lemma validations_raise : forall C v h r e, validations C v h r = Raise e ->
    exists b, In b (vis_list (resolve_pi P C) v 0) /\ first_reject (check b) h (dc_fields C) r = Some e.
  Proof.
    intros C v h r e H. unfold validations in H. apply first_raise_in in H. apply in_map_iff in H as [b [Hb Hin]].
    exists b. split; [assumption|]. destruct (first_reject (check b) h (dc_fields C) r); inversion Hb. reflexivity.
  Qed.

  (* a checker whose verdict does not depend on the caller's locals: one validation decides *)
  Definition vis_indep : Prop := forall b h a v, check b h a v = check true h a v.

  Lemma first_reject_ext : forall c1 c2 h fs r, (forall a v, c1 h a v = c2 h a v) ->
    first_reject c1 h fs r = first_reject c2 h fs r.
  Proof.
    intros c1 c2 h fs r H. induction fs as [|f fs IH]; simpl; [reflexivity|].
    destruct (getattr h r (f_name f)); [|reflexivity]. rewrite H. now rewrite IH.
  Qed.

  (* the exact guard under which one validation decides: the path validates in the caller's context only, or
     the checker's verdict on the annotations of THIS class does not depend on the caller's locals *)
  Definition ctx_irrelevant (C : chain) (v : via) : Prop :=
    (forall b, In b (vis_list (resolve_pi P C) v 0) -> b = true) \/
    (forall f, In f (dc_fields C) -> forall h x, check false h (f_ann f) x = check true h (f_ann f) x).

  Lemma first_reject_ext_fields : forall c1 c2 h fs r,
    (forall f, In f fs -> forall x, c1 h (f_ann f) x = c2 h (f_ann f) x) ->
    first_reject c1 h fs r = first_reject c2 h fs r.
  Proof.
    intros c1 c2 h fs r. induction fs as [|f fs IH]; intro H; simpl; [reflexivity|].
    destruct (getattr h r (f_name f)); [|reflexivity]. rewrite (H f (or_introl eq_refl)).
    rewrite IH; [reflexivity|]. intros g Hg. apply H. now right.
  Qed.

  Lemma validations_guarded : forall C v h r, ctx_irrelevant C v -> is_new (resolve_pi P C) = true ->
    validations C v h r = of_reject (first_reject (check true) h (dc_fields C) r).
  Proof.
    intros C v h r Hg Hn. unfold validations. apply first_raise_const.
    - intro E. apply map_eq_nil in E. now apply vis_list_nonempty in E.
    - apply Forall_map, Forall_forall. intros b Hb. f_equal. destruct Hg as [Hg|Hg].
      + now rewrite (Hg b Hb).
      + destruct b; [reflexivity|]. apply first_reject_ext_fields. intros f Hf x. now apply Hg.
  Qed.

  Lemma vis_indep_irrelevant : forall C v, vis_indep -> ctx_irrelevant C v.
  Proof. intros C v Hi. right. intros f _ h x. apply Hi. Qed.

  (* ---- validate_types called by the user (context = the caller's frame) *)
  Lemma validate_outcome : forall vis C r st, nearest_deco C <> None ->
    exists checks, forallb is_check checks = true /\
    validate_types P check vis C r st =
      (st_app st checks, of_reject (first_reject (check vis) (s_heap st) (dc_fields C) r)).
  Proof.
    intros vis C r st HD. destruct (nearest_deco C) as [D|] eqn:ED; [|congruence].
    rewrite (validate_appender vis C D r ED). rewrite checks_prefix_outcome.
    eexists. split; [apply checks_prefix_events|reflexivity].
  Qed.

  (* head class decorated with type_safe=True => validating *)
  Lemma decorated_type_safe_validating : forall L rest,
    decorated L = true -> param_of P L PTypeSafe = true -> validating P (L :: rest) = true.
  Proof.
    intros L rest HL HT. unfold validating. simpl nearest_deco. rewrite HL.
    unfold init_calls_pi. unfold P. rewrite ref_ts_installed, ref_install. fold P. rewrite HL, HT. simpl.
    rewrite !orb_true_r. simpl. unfold P. rewrite ref_ts_installed. fold P. now rewrite HL, HT.
  Qed.

  (* an undecorated subclass that does not define __post_init__ itself inherits the validation *)
  Lemma undecorated_inherits_validating : forall L rest,
    decorated L = false -> l_pi L = None -> validating P rest = true -> validating P (L :: rest) = true.
  Proof.
    intros L rest HL Hpi Hv. unfold validating in *. simpl nearest_deco. rewrite HL.
    destruct (nearest_deco rest) as [D|]; [|discriminate]. simpl resolve_pi. rewrite Hpi.
    unfold ts_installed. rewrite HL. simpl. exact Hv.
  Qed.

  (* a decorated subclass (type_safe or not) of a validating class is validating *)
  Lemma decorated_child_validating : forall L rest,
    decorated L = true -> l_pi L = None -> validating P rest = true -> validating P (L :: rest) = true.
  Proof.
    intros L rest HL Hpi Hv. unfold validating in *. simpl nearest_deco. rewrite HL.
    destruct (nearest_deco rest) as [D|]; [|discriminate]. apply andb_true_iff in Hv as [_ Hn].
    simpl resolve_pi. rewrite Hpi. simpl init_calls_pi. rewrite Hpi. simpl.
    assert (Hp : has_pi P rest = true) by (unfold has_pi; destruct (resolve_pi P rest); [discriminate|reflexivity..]).
    rewrite Hp. simpl.
    destruct (ts_installed P L); [reflexivity|]. exact Hn.
  Qed.

  (* a subclass - decorated or not, without slots - whose __post_init__ ends with super().__post_init__() and cannot raise
     afterwards still ends with the validation of the class below *)
  Lemma super_last_checked : forall L rest b,
    l_pi L = Some b -> (decorated L && eff_slots P L) = false -> pb_raise b = None -> last_is_super (pb_body b) = true ->
    checked_last P rest = true -> nearest_deco (L :: rest) <> None /\ checked_last P (L :: rest) = true.
  Proof.
    intros L rest b Hpi Hs Hr Hl Hc. unfold checked_last in *.
    destruct (nearest_deco rest) as [D|] eqn:HD; [|discriminate]. apply andb_true_iff in Hc as [Hi Hc].
    simpl nearest_deco. destruct (decorated L) eqn:HL.
    - split; [discriminate|]. simpl init_calls_pi. rewrite Hpi. simpl.
      simpl resolve_pi. rewrite Hpi. destruct (ts_installed P L); [reflexivity|].
      cbn [ends_checked]. simpl in Hs. rewrite HL, Hs, Hr, Hl, Hc. reflexivity.
    - rewrite HD. split; [discriminate|]. simpl resolve_pi. rewrite Hpi.
      unfold ts_installed. rewrite HL. simpl.
      cbn [ends_checked]. rewrite Hr, Hl, Hc, Hi. reflexivity.
  Qed.
End C10.
