(* C10: construction paths, validate_types, __post_init__ order.  Lemmas are stated for the reference
   member of the decorator family (Proofs/DataclassRef.v) and an arbitrary checker `check`. *)
From Coq Require Import List ZArith Bool Arith Lia.
From PV Require Import Base.Exn Model.Dataclass Spec.DataclassSpec Proofs.DataclassBase Proofs.DataclassRef.
Import ListNotations.

Section C10.
  Variable defs : list (dparam * bool).
  Let P := ref_prog defs.
  Variable check : heap -> ann -> value -> bool.

  (* ---- the loop of validate_types: events and outcome as a function of the heap *)
  Fixpoint checks_prefix (h : heap) (r : nat) (fs : list field) : list event * outcome unit :=
    match fs with
    | [] => ([], Ok tt)
    | f :: rest =>
      match getattr h r (f_name f) with
      | None => ([], Raise AttributeErrorC)
      | Some v =>
        if check h (f_ann f) v then (ECheck (f_ann f) v :: fst (checks_prefix h r rest), snd (checks_prefix h r rest))
        else ([ECheck (f_ann f) v], Raise PTypeCheckC)
      end
    end.

  Lemma check_loop_eq : forall fs r st,
    check_loop check fs r st = (st_app st (fst (checks_prefix (s_heap st) r fs)), snd (checks_prefix (s_heap st) r fs)).
  Proof.
    induction fs as [|f fs IH]; intros r st; simpl.
    - unfold ret. now rewrite st_app_nil.
    - unfold bindM at 1. unfold getattrM. destruct (getattr (s_heap st) r (f_name f)) as [v|] eqn:E.
      + unfold bindM at 1. unfold emit. unfold bindM at 1. unfold get_heap. cbn [s_heap s_journal].
        destruct (check (s_heap st) (f_ann f) v) eqn:Ec.
        * rewrite IH. simpl. unfold st_app. simpl. now rewrite <- app_assoc.
        * reflexivity.
      + simpl. now rewrite st_app_nil.
  Qed.

  Lemma checks_prefix_outcome : forall h r fs,
    (forall f, In f fs -> getattr h r (f_name f) <> None) ->
    snd (checks_prefix h r fs) = if all_conform check h fs r then Ok tt else Raise PTypeCheckC.
  Proof.
    induction fs as [|f fs IH]; intros Hs; simpl; [reflexivity|].
    destruct (getattr h r (f_name f)) as [v|] eqn:E; [|exfalso; apply (Hs f); [now left|assumption]].
    destruct (check h (f_ann f) v); simpl; [|reflexivity]. apply IH. intros g Hg. apply Hs. now right.
  Qed.

  Lemma checks_prefix_events : forall h r fs, forallb is_check (fst (checks_prefix h r fs)) = true.
  Proof.
    induction fs as [|f fs IH]; simpl; [reflexivity|].
    destruct (getattr h r (f_name f)); [|reflexivity]. destruct (check h (f_ann f) v); simpl; [assumption|reflexivity].
  Qed.

  (* ---- __post_init__: journal and outcome, given what one run of validate_types appends / returns *)
  Fixpoint pi_spec (f : pifun) (ev : list event) (res : outcome unit) : list event * outcome unit :=
    match f with
    | PFNone => ([], Raise AttributeErrorC)
    | PFNoop => ([], Ok tt)
    | PFUser c b => ([EPi c], match b with PIRet => Ok tt | PIRaise e => Raise e end)
    | PFNew old =>
      match snd (pi_spec old ev res) with
      | Ok _ => (fst (pi_spec old ev res) ++ ev, res)
      | Raise e => (fst (pi_spec old ev res), Raise e)
      end
    end.

  Lemma run_pi_eq : forall (v : M unit) evf resf,
    (forall st, v st = (st_app st (evf (s_heap st)), resf (s_heap st))) ->
    forall f st, run_pi P f v st =
      (st_app st (fst (pi_spec f (evf (s_heap st)) (resf (s_heap st)))), snd (pi_spec f (evf (s_heap st)) (resf (s_heap st)))).
  Proof.
    intros v evf resf Hv. induction f as [| |c b|old IH]; intro st.
    - simpl. unfold raise. now rewrite st_app_nil.
    - simpl. unfold ret. now rewrite st_app_nil.
    - simpl. unfold bindM, emit. destruct b; reflexivity.
    - unfold P in *. rewrite ref_run_new. unfold bindM at 1. rewrite IH.
      destruct (snd (pi_spec old (evf (s_heap st)) (resf (s_heap st)))) as [[]|e] eqn:E.
      + unfold bindM at 1. unfold ret at 1. unfold bindM. rewrite Hv. simpl s_heap.
        simpl pi_spec. rewrite E. simpl. rewrite st_app_app.
        destruct (resf (s_heap st)) as [[]|e']; reflexivity.
      + simpl pi_spec. rewrite E. reflexivity.
  Qed.

  Definition user_raises (f : pifun) : option exn :=
    match user_of f with Some (_, PIRaise e) => Some e | _ => None end.
  (* no PFNone below a PFNew: holds for everything resolve_pi produces *)
  Fixpoint pi_wf (f : pifun) : bool := match f with PFNew PFNone => false | PFNew old => pi_wf old | _ => true end.

  Lemma resolve_pi_wf : forall C, pi_wf (resolve_pi P C) = true.
  Proof.
    induction C as [|L C IH]; simpl; [reflexivity|].
    destruct (ts_installed P L).
    - destruct (l_pi L); [reflexivity|]. destruct (resolve_pi P C) eqn:E; simpl in *; try reflexivity; assumption.
    - destruct (l_pi L); [reflexivity|assumption].
  Qed.

  Lemma pi_spec_outcome : forall f ev res, pi_wf f = true -> is_new f = true ->
    snd (pi_spec f ev res) =
    match user_raises f with Some e => Raise e | None => res end.
  Proof.
    induction f as [| |c b|old IH]; intros ev res Hwf Hn; try discriminate.
    simpl. unfold user_raises in *. simpl user_of.
    destruct old as [| |c b|old'].
    - discriminate.
    - reflexivity.
    - simpl. destruct b; reflexivity.
    - rewrite (IH ev res Hwf eq_refl).
      destruct (user_of (PFNew old')) as [[c [|e]]|]; try reflexivity; destruct res as [[]|e']; reflexivity.
  Qed.

  (* journal: the user's entry (if any) first, then check events only *)
  Lemma pi_spec_events : forall f ev res, forallb is_check ev = true -> pi_wf f = true ->
    exists checks, forallb is_check checks = true /\
      fst (pi_spec f ev res) = match user_of f with Some (c, _) => EPi c :: checks | None => checks end /\
      (forall e, user_raises f = Some e -> checks = []).
  Proof.
    intros f ev res Hev. induction f as [| |c b|old IH]; intro Hwf.
    - exists []. repeat split; try reflexivity.
    - exists []. repeat split; try reflexivity.
    - exists []. repeat split; reflexivity.
    - assert (Hwf' : pi_wf old = true) by (destruct old; simpl in *; try reflexivity; try discriminate; assumption).
      destruct (IH Hwf') as [checks [H1 [H2 H3]]]. simpl pi_spec. unfold user_raises in *. simpl user_of.
      destruct (snd (pi_spec old ev res)) as [[]|e] eqn:E.
      + exists (checks ++ ev). split; [now rewrite forallb_app, H1, Hev|]. split.
        * simpl. rewrite H2. destruct (user_of old) as [[c b]|]; reflexivity.
        * intros e He. exfalso.
          (* the user raised, so the old part cannot have ended normally *)
          assert (Hr : user_raises old = Some e) by exact He.
          clear - E Hr Hwf'. revert E Hr Hwf'. unfold user_raises.
          induction old as [| |c b|o IHo]; simpl; intros; try discriminate.
          -- destruct b; [discriminate|discriminate].
          -- assert (pi_wf o = true) by (destruct o; simpl in *; try reflexivity; try discriminate; assumption).
             destruct (snd (pi_spec o ev res)) as [[]|e'] eqn:E'; [|discriminate]. now apply IHo.
      + exists checks. split; [assumption|]. split; [|assumption]. simpl. exact H2.
  Qed.

  (* ---- every construction path is: compute keyword arguments, build the candidate, run __post_init__ *)
  Definition post (C : chain) (r : nat) : M nat :=
    match nearest_deco C with
    | Some D => if init_calls_pi P D then bindM (run_pi P (resolve_pi P C) (validate_types P check C r)) (fun _ => ret r) else ret r
    | None => ret r
    end.

  Lemma run_path_eq : forall C p st, nearest_deco C <> None ->
    run_path P check C p st = bindM (path_candidate P C p) (post C) st.
  Proof.
    intros C p st HD. destruct (nearest_deco C) as [D|] eqn:ED; [clear HD|congruence].
    unfold path_candidate. rewrite bindM_assoc. destruct p as [kw|r0 kw|r0 kw]; simpl.
    - unfold construct, post. reflexivity.
    - unfold copy_with. simpl. rewrite ED. rewrite (nearest_deco_fields _ _ ED). reflexivity.
    - unfold deep_copy_with. simpl. reflexivity.
  Qed.

  Lemma candidate_fields_set : forall C kw st0 st1 r,
    candidate C kw st0 = (st1, Ok r) -> chain_ok C = true ->
    forall f, In f (dc_fields C) -> getattr (s_heap st1) r (f_name f) <> None.
  Proof.
    intros C kw st0 st1 r H Hok f Hf.
    destruct (candidate_spec _ _ _ _ _ H) as [D [attrs [ext [HD [HB [Hh [Hr [Hj _]]]]]]]].
    rewrite Hh, Hr, getattr_new. simpl.
    destruct (build_attrs_spec _ _ _ _ _ HB (dc_fields_nodup C)) as [_ HF].
    destruct (HF f Hf) as [_ [B _]]. apply B.
    unfold chain_ok in Hok. rewrite forallb_forall in Hok. now apply Hok.
  Qed.

  Lemma validate_appender : forall C D r, nearest_deco C = Some D ->
    forall st, validate_types P check C r st =
      (st_app st (fst (checks_prefix (s_heap st) r (dc_fields C))), snd (checks_prefix (s_heap st) r (dc_fields C))).
  Proof.
    intros C D r HD st. unfold P. rewrite ref_validate, HD, (nearest_deco_fields _ _ HD). apply check_loop_eq.
  Qed.

  (* the main statement about construction *)
  Lemma path_outcome : forall C p st st1 r,
    chain_ok C = true -> validating P C = true ->
    path_candidate P C p st = (st1, Ok r) ->
    let h1 := s_heap st1 in
    let J := fst (pi_spec (resolve_pi P C) (fst (checks_prefix h1 r (dc_fields C))) (snd (checks_prefix h1 r (dc_fields C)))) in
    run_path P check C p st =
      (st_app st1 J,
       match user_raises (resolve_pi P C) with
       | Some e => Raise e
       | None => if all_conform check h1 (dc_fields C) r then Ok r else Raise PTypeCheckC
       end).
  Proof.
    intros C p st st1 r Hok Hval Hc h1 J.
    unfold validating in Hval. destruct (nearest_deco C) as [D|] eqn:HD; [|discriminate].
    apply andb_true_iff in Hval as [Hinit Hnew].
    rewrite run_path_eq by congruence. unfold bindM at 1. rewrite Hc. unfold post. rewrite HD, Hinit.
    unfold bindM at 1.
    rewrite (run_pi_eq (validate_types P check C r) (fun h => fst (checks_prefix h r (dc_fields C)))
                       (fun h => snd (checks_prefix h r (dc_fields C))) (validate_appender C D r HD)).
    fold h1. fold J. rewrite (pi_spec_outcome _ _ _ (resolve_pi_wf C) Hnew).
    destruct (user_raises (resolve_pi P C)) as [e|]; [reflexivity|].
    (* fields are all set on the candidate *)
    unfold path_candidate, bindM in Hc. destruct (path_args P C p st) as [st0 [args|e]] eqn:Ea; [|discriminate].
    rewrite checks_prefix_outcome by (intros f Hf; eapply candidate_fields_set; eassumption).
    destruct (all_conform check h1 (dc_fields C) r); reflexivity.
  Qed.

  Lemma path_raises_early : forall C p st st1 e, nearest_deco C <> None ->
    path_candidate P C p st = (st1, Raise e) -> run_path P check C p st = (st1, Raise e).
  Proof. intros C p st st1 e HD H. rewrite run_path_eq by assumption. unfold bindM. now rewrite H. Qed.

  (* ---- validate_types called by the user *)
  Lemma validate_outcome : forall C r st, nearest_deco C <> None ->
    (forall f, In f (dc_fields C) -> getattr (s_heap st) r (f_name f) <> None) ->
    exists checks, forallb is_check checks = true /\
    validate_types P check C r st =
      (st_app st checks, if all_conform check (s_heap st) (dc_fields C) r then Ok tt else Raise PTypeCheckC).
  Proof.
    intros C r st HD Hs. destruct (nearest_deco C) as [D|] eqn:ED; [|congruence].
    rewrite (validate_appender C D r ED). rewrite checks_prefix_outcome by assumption.
    eexists. split; [apply checks_prefix_events|reflexivity].
  Qed.

  (* head class decorated with type_safe=True => validating *)
  Lemma decorated_type_safe_validating : forall L rest,
    decorated L = true -> param_of P L PTypeSafe = true -> validating P (L :: rest) = true.
  Proof.
    intros L rest HL HT. unfold validating. simpl nearest_deco. rewrite HL.
    unfold init_calls_pi. unfold P. rewrite ref_ts_installed, ref_install. fold P. rewrite HL, HT. simpl.
    rewrite !orb_true_r. simpl. unfold P. rewrite ref_ts_installed. fold P. now rewrite HL, HT.
  Qed.
End C10.
